(** C17, the list of proposals: no repetition; one proposal per (branch, cross); the two
    proposals of a branch come together; every proposal sits on a branch both of whose ends
    have exactly three neighbours (so nothing is proposed next to a multifurcation). *)
From Coq Require Import String ZArith QArith Bool Arith Lia List Permutation.
From GT Require Import Base.UTree Spec.Obs Model.Reroot Model.NNI Proofs.RerootBase Proofs.NNIBase Proofs.NNICount.
Import ListNotations.
Local Close Scope Q_scope.

Lemma NoDup_app_intro {A} (a b : list A) :
  NoDup a -> NoDup b -> (forall x, In x a -> In x b -> False) -> NoDup (a ++ b).
Proof.
  induction a as [|x a IH]; simpl; intros Ha Hb D; auto.
  inversion Ha; subst. constructor.
  - rewrite in_app_iff. intros [H|H]; [contradiction | eapply D; eauto].
  - apply IH; auto. intros y Hy. apply D. now right.
Qed.

(** * [edge_locs] has no repetition *)
Definition lockey (loc : list nat * nat) : nat :=
  match fst loc with [] => snd loc | m :: _ => m end.

Lemma locs_go_key l : forall k loc, In loc (locs_go k l) -> k <= lockey loc.
Proof.
  induction l as [|[[e c]|] r IH]; intros k loc H; cbn [locs_go] in H.
  - destruct H.
  - destruct H as [<-|H]; [cbn; lia|]. apply in_app_or in H. destruct H as [H|H].
    + destruct (Nat.ltb 1 (degree c)); [|destruct H]. apply in_map_iff in H.
      destruct H as (q & <- & _). cbn. lia.
    + specialize (IH _ _ H). lia.
  - specialize (IH _ _ H). lia.
Qed.

Lemma edge_locs_nodup t : NoDup (edge_locs t).
Proof.
  induction t as [n c sl IH] using utree_ind'. rewrite edge_locs_unfold.
  generalize 0 as k. induction sl as [|[[e ch]|] r IHr]; intros k; cbn [locs_go].
  - constructor.
  - inversion IH as [|? ? Hc Hr]; subst. specialize (IHr Hr).
    set (M := if Nat.ltb 1 (degree ch) then map (fun q => (k :: fst q, snd q)) (edge_locs ch) else []).
    assert (NM : NoDup M).
    { subst M. destruct (Nat.ltb 1 (degree ch)); [|constructor].
      apply FinFun.Injective_map_NoDup; auto. intros [p1 k1] [p2 k2] E. cbn in E. now inversion E. }
    assert (KM : forall loc, In loc M -> fst loc <> [] /\ lockey loc = k).
    { subst M. destruct (Nat.ltb 1 (degree ch)); [|intros ? []]. intros loc H. apply in_map_iff in H.
      destruct H as (q & <- & _). cbn. split; [discriminate|reflexivity]. }
    constructor.
    + rewrite in_app_iff. intros [H|H].
      * destruct (KM _ H) as [X _]. now apply X.
      * apply locs_go_key in H. cbn in H. lia.
    + apply NoDup_app_intro; auto. intros loc H1 H2. destruct (KM _ H1) as [_ K1].
      apply locs_go_key in H2. lia.
  - inversion IH; subst. now apply IHr.
Qed.

(** * membership in [nni_list] *)
Lemma in_combine_seq {A} (l : list A) : forall s i x,
  In (i, x) (combine (seq s (length l)) l) -> s <= i /\ nth_error l (i - s) = Some x.
Proof.
  induction l as [|a l IH]; intros s i x H; cbn in H; [destruct H|].
  destruct H as [H|H].
  - inversion H; subst. rewrite Nat.sub_diag. split; [lia|reflexivity].
  - destruct (IH _ _ _ H) as [L E]. split; [lia|].
    replace (i - s) with (S (i - S s)) by lia. exact E.
Qed.

Lemma nni_at_fields t i loc r :
  In r (nni_at t i loc) -> r_edge r = i /\ r_path r = fst loc /\ r_k r = snd loc.
Proof.
  destruct loc as [p k]. unfold nni_at.
  destruct (node_at t p) as [n1|]; [|intros []].
  destruct (nth_error (uslots n1) k) as [[[ec n2]|]|]; try (intros []).
  destruct (Nat.eqb (degree n1) 3 && Nat.eqb (degree n2) 3); [|intros []].
  destruct (up_index (uslots n2)) as [j|]; [|intros []].
  intros [<-|[<-|[]]]; cbn; auto.
Qed.

(** the proposals of one branch: nothing, or the plain and the cross exchange *)
Lemma nni_at_shape t i loc :
  nni_at t i loc = [] \/
  exists j f, nni_at t i loc = [mkNNI i (fst loc) (snd loc) j false f; mkNNI i (fst loc) (snd loc) j true f].
Proof.
  destruct loc as [p k]. unfold nni_at.
  destruct (node_at t p) as [n1|]; auto.
  destruct (nth_error (uslots n1) k) as [[[ec n2]|]|]; auto.
  destruct (Nat.eqb (degree n1) 3 && Nat.eqb (degree n2) 3); auto.
  destruct (up_index (uslots n2)) as [j|]; auto.
  right. eauto.
Qed.

Lemma nni_list_in t r :
  In r (nni_list t) ->
  nth_error (edge_locs t) (r_edge r) = Some (r_path r, r_k r) /\
  In r (nni_at t (r_edge r) (r_path r, r_k r)).
Proof.
  unfold nni_list. intros H. apply in_flat_map in H. destruct H as ([i loc] & Hc & Hr).
  cbn [fst snd] in Hr. destruct (nni_at_fields _ _ _ _ Hr) as (E1 & E2 & E3).
  apply in_combine_seq in Hc. destruct Hc as [_ Hc]. rewrite Nat.sub_0_r in Hc.
  rewrite E1, E2, E3. destruct loc as [p k]. cbn [fst snd]. split; auto.
Qed.

(** ** no proposal twice *)
Lemma NoDup_flat_map_keyed {A B} (key : B -> nat) (kx : A -> nat) (g : A -> list B) l :
  NoDup (map kx l) -> (forall x b, In b (g x) -> key b = kx x) -> (forall x, NoDup (g x)) ->
  NoDup (flat_map g l).
Proof.
  intros ND Hk Hg. induction l as [|x l IH]; cbn; [constructor|].
  cbn in ND. inversion ND as [|? ? Hnin Hnd]; subst. apply NoDup_app_intro; auto.
  intros b Hb1 Hb2. apply in_flat_map in Hb2. destruct Hb2 as (y & Hy & Hb).
  apply Hnin. rewrite <- (Hk _ _ Hb1), (Hk _ _ Hb). apply in_map. exact Hy.
Qed.

Lemma map_fst_combine_seq {A} (l : list A) s : map fst (combine (seq s (length l)) l) = seq s (length l).
Proof. revert s; induction l as [|a l IH]; intros s; cbn; auto. now rewrite IH. Qed.

Theorem nni_list_nodup t : NoDup (nni_list t).
Proof.
  unfold nni_list.
  apply (NoDup_flat_map_keyed r_edge fst).
  - rewrite map_fst_combine_seq. apply seq_NoDup.
  - intros [i loc] r H. cbn [fst snd] in *. now destruct (nni_at_fields _ _ _ _ H).
  - intros [i loc]. cbn [fst snd]. destruct (nni_at_shape t i loc) as [->|(j & f & ->)]; [constructor|].
    constructor; [|constructor; [intros []|constructor]]. intros [H|[]]. discriminate.
Qed.

(** ** one proposal per branch and exchange; its [r_edge] is the index of the branch *)
Theorem nni_list_unique t r1 r2 :
  In r1 (nni_list t) -> In r2 (nni_list t) ->
  r_path r1 = r_path r2 -> r_k r1 = r_k r2 -> r_cross r1 = r_cross r2 -> r1 = r2.
Proof.
  intros H1 H2 Ep Ek Ec.
  destruct (nni_list_in _ _ H1) as [N1 I1]. destruct (nni_list_in _ _ H2) as [N2 I2].
  assert (Ei : r_edge r1 = r_edge r2).
  { rewrite Ep, Ek in N1. rewrite <- N2 in N1.
    apply (proj1 (NoDup_nth_error (edge_locs t)) (edge_locs_nodup t)); [|exact N1].
    apply nth_error_Some. rewrite N1, N2. discriminate. }
  rewrite Ep, Ek, Ei in I1.
  destruct (nni_at_shape t (r_edge r2) (r_path r2, r_k r2)) as [E|(j & f & E)]; rewrite E in I1, I2.
  - destruct I1.
  - destruct I1 as [E1|[E1|[]]], I2 as [E2|[E2|[]]]; try congruence;
      rewrite <- E1, <- E2 in Ec; cbn in Ec; discriminate.
Qed.

(** the two proposals of a branch come together *)
Theorem nni_list_pair t r :
  In r (nni_list t) ->
  In (mkNNI (r_edge r) (r_path r) (r_k r) (r_j r) (negb (r_cross r)) (r_flip r)) (nni_list t).
Proof.
  intros H. unfold nni_list in *. apply in_flat_map in H. destruct H as ([i loc] & Hc & Hr).
  apply in_flat_map. exists (i, loc). split; auto. cbn [fst snd] in *.
  destruct (nni_at_shape t i loc) as [E|(j & f & E)]; rewrite E in *; [destruct Hr|].
  destruct Hr as [<-|[<-|[]]]; cbn; auto.
Qed.

(** ** multifurcations: a branch with an end that does not have exactly three neighbours
    gets no proposal *)
Theorem nni_list_degrees t r :
  In r (nni_list t) ->
  exists n1 ec n2,
    node_at t (r_path r) = Some n1 /\ nth_error (uslots n1) (r_k r) = Some (Some (ec, n2)) /\
    degree n1 = 3 /\ degree n2 = 3.
Proof. intros H. now apply valid_degrees, nni_list_valid. Qed.

Theorem nni_skips_multifurcation t r n1 ec n2 :
  node_at t (r_path r) = Some n1 -> nth_error (uslots n1) (r_k r) = Some (Some (ec, n2)) ->
  degree n1 <> 3 \/ degree n2 <> 3 -> ~ In r (nni_list t).
Proof.
  intros H1 H2 D I. destruct (nni_list_degrees _ _ I) as (m1 & e & m2 & A1 & A2 & D1 & D2).
  rewrite H1 in A1. inversion A1; subst. rewrite H2 in A2. inversion A2; subst. lia.
Qed.
