(** The multi-Newick reader (Model/MultiTree.v) with the Newick parser of C01
    (Model/Newick.v, Model/NewickNum.v): two trees on one physical line -- the second one is
    dropped without an error record (known finding C13-newick-two-trees-one-line). *)
From Coq Require Import String Ascii ZArith QArith Bool Arith List.
From GT Require Import Base.UTree Model.Newick Model.NewickNum Model.MultiTree.
Import ListNotations.
Local Close Scope Q_scope.
Local Open Scope string_scope.

Definition np_c01 (s : string) : utree + string :=
  match Newick.parse numericC parse_numC s with
  | Newick.POk t => inl t
  | Newick.PErr m => inr m
  | Newick.POutOfFuel => inr "out of fuel"
  end.

Definition show_item (i : item) : nat * string :=
  match i with
  | ITree id t => (id, Newick.write fmt_go t)
  | IErr id m => (id, "error: " ++ m)
  end.

(** the records delivered for a file (bufio buffer of 4096 bytes) *)
Definition records (text : string) : list (nat * string) :=
  map show_item (items_of (read_multi np_c01 (phys_reads (S (String.length text)) (64 * 64) text))).

Definition nl : string := String "010" "".

Lemma two_trees_one_line_skips :
  records ("(a,b);(c,d);" ++ nl ++ "(e,f);" ++ nl) = [(0, "(a,b);"); (1, "(e,f);")].
Proof. vm_compute. reflexivity. Qed.

Lemma one_tree_per_line_delivers_all :
  records ("(a,b);" ++ nl ++ "(c,d);" ++ nl ++ "(e,f);" ++ nl) = [(0, "(a,b);"); (1, "(c,d);"); (2, "(e,f);")].
Proof. vm_compute. reflexivity. Qed.
