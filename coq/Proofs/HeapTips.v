(** Heap model: the tips (nodes with one neighbour) of a labelled tree, with their ids, and
    what the local rewritings of removeTip do to them. *)
From Coq Require Import String ZArith QArith Bool Arith Lia Permutation List.
From GT Require Import Base.UTree Model.Reroot Model.Heap Proofs.Enum Proofs.HeapBase Proofs.HeapRep
     Proofs.HeapGood Proofs.HeapRerootL Proofs.HeapReorder Proofs.HeapUnrootL Proofs.HeapCtx.
Import ListNotations.
Local Close Scope Q_scope.

(** Tree.Tips(), with the ids: (id, name) of the nodes with exactly one slot, pre-order *)
Fixpoint ltips (t : ltree) : list (nat * string) :=
  match t with
  | LNode i n _ sl =>
    (if Nat.eqb (length sl) 1 then [(i, n)] else []) ++
    flat_map (fun s : lslot => match s with Some (_, _, c) => ltips c | None => [] end) sl
  end.
Definition stips (sl : list lslot) : list (nat * string) :=
  flat_map (fun s : lslot => match s with Some (_, _, c) => ltips c | None => [] end) sl.

Lemma ltips_eq i n c sl : ltips (LNode i n c sl) = (if Nat.eqb (length sl) 1 then [(i, n)] else []) ++ stips sl.
Proof. reflexivity. Qed.

Lemma stips_app a b : stips (a ++ b) = stips a ++ stips b.
Proof. unfold stips. apply flat_map_app. Qed.

Lemma ltips_names : forall t, map snd (ltips t) = tip_names (erase t).
Proof.
  induction t as [i n c sl IH] using ltree_ind'. rewrite ltips_eq, erase_eq. unfold tip_names. cbn [tips].
  unfold is_tip, degree. cbn [uslots]. rewrite map_length, !map_app. f_equal.
  - destruct (Nat.eqb (length sl) 1); reflexivity.
  - induction sl as [|s sl IHsl]; [reflexivity|]. apply Forall_cons_iff in IH. destruct IH as [Hc IH].
    destruct s as [[[e ei] ch]|]; cbn [stips flat_map map erase_slot]; [|exact (IHsl IH)].
    fold (stips sl). rewrite !map_app. f_equal; [exact Hc|exact (IHsl IH)].
Qed.

Lemma ltips_ids : forall t e, In e (ltips t) -> In (fst e) (lids t).
Proof.
  induction t as [i n c sl IH] using ltree_ind'. intros e H. rewrite ltips_eq in H. rewrite lids_eq. apply in_app_or in H. destruct H as [H|H].
  - destruct (Nat.eqb (length sl) 1); [|destruct H]. destruct H as [<-|[]]. left. reflexivity.
  - right. unfold stips in H. apply in_flat_map in H. destruct H as [s [Hs H]]. destruct s as [[[x xi] ch]|]; [|destruct H].
    rewrite Forall_forall in IH. eapply in_sids; [exact Hs|]. exact (IH _ Hs e H).
Qed.

Lemma stips_drop_up sl : stips (ldrop_up sl) = stips sl.
Proof. induction sl as [|[[[e ei] ch]|] sl IH]; cbn; [reflexivity| |reflexivity]. f_equal. exact IH. Qed.

Lemma length_drop_up sl : lnup sl = 1 -> S (length (ldrop_up sl)) = length sl.
Proof.
  induction sl as [|[[[e ei] ch]|] sl IH]; intros H; cbn in *; [discriminate| |reflexivity].
  f_equal. apply IH. exact H.
Qed.

(** a tip of a subtree is a tip of the tree *)
Lemma ltips_lsubs : forall lt prev p sub e, In (p, sub) (lsubs prev lt) -> In e (ltips sub) -> In e (ltips lt).
Proof.
  induction lt as [i n c sl IH] using ltree_ind'. intros prev p sub e Hin He. rewrite lsubs_eq in Hin. destruct Hin as [E|Hin].
  - injection E as <- <-. exact He.
  - rewrite ltips_eq. apply in_or_app. right. apply in_flat_map in Hin. destruct Hin as [s [Hs Hin]]. destruct s as [[[x xi] ch]|]; [|destruct Hin].
    unfold stips. apply in_flat_map. exists (Some (x, xi, ch)). split; [exact Hs|]. rewrite Forall_forall in IH. exact (IH _ Hs _ _ _ _ Hin He).
Qed.

(** local rewriting: the tips outside the rewritten node, and those it keeps, stay *)
Lemma ltips_lreplace x new : forall lt prev p sub, NoDup (lids lt) -> In (p, sub) (lsubs prev lt) -> lid sub = x ->
  forall e, In e (ltips lt) -> (In e (ltips sub) -> In e (ltips new)) -> In e (ltips (lreplace x new lt)).
Proof.
  induction lt as [i n c sl IH] using ltree_ind'. intros prev p sub Nd Hin Hx e He Hsub.
  rewrite lsubs_eq in Hin. rewrite lreplace_eq. destruct Hin as [E|Hin].
  - injection E as <- <-. cbn [lid] in Hx. rewrite (proj2 (Nat.eqb_eq _ _) Hx). exact (Hsub He).
  - apply in_flat_map in Hin. destruct Hin as [s [Hs Hin]]. destruct s as [[[y yi] ch]|]; [|destruct Hin].
    rewrite lids_eq in Nd. apply NoDup_cons_iff in Nd. destruct Nd as [Ni Nd]. fold (sids sl) in Ni, Nd.
    assert (Hix : i <> x).
    { intros ->. apply Ni. rewrite <- Hx. eapply in_sids; [exact Hs|]. eapply lsubs_in_lids. exact Hin. }
    rewrite (proj2 (Nat.eqb_neq _ _) Hix). rewrite ltips_eq in He |- *. rewrite map_length.
    apply in_app_or in He. apply in_or_app. destruct He as [He|He]; [left; exact He|right].
    unfold stips in He |- *. apply in_flat_map in He. destruct He as [s' [Hs' He]]. destruct s' as [[[z zi] cz]|]; [|destruct He].
    apply in_flat_map. exists (Some (z, zi, lreplace x new cz)). split.
    { apply in_map_iff. exists (Some (z, zi, cz)). split; [reflexivity|exact Hs']. }
    rewrite Forall_forall in IH.
    destruct (in_dec Nat.eq_dec x (lids cz)) as [Hxz|Hxz].
    + (* the rewritten node is below this child: it is the child that contains [sub] *)
      assert (Ecz : Some (z, zi, cz) = Some (y, yi, ch)).
      { destruct (In_nth_error _ _ Hs) as [j1 J1]. destruct (In_nth_error _ _ Hs') as [j2 J2].
        assert (j2 = j1); [|congruence].
        assert (Hxc : In x (lids ch)) by (rewrite <- Hx; eapply lsubs_in_lids; exact Hin).
        eapply (NoDup_flat_map_nth (fun s : lslot => match s with Some (_, _, c0) => lids c0 | None => [] end) sl); [exact Nd|exact J2|exact J1|exact Hxz|exact Hxc]. }
      injection Ecz as -> -> ->.
      assert (Ndc : NoDup (lids ch)) by exact (NoDup_flat_map_in _ _ _ Nd Hs).
      exact (IH _ Hs (Some (i, y)) p sub Ndc Hin Hx e He Hsub).
    + rewrite lreplace_notin by exact Hxz. exact He.
Qed.

(** * every tip other than the root is kept (or the tree is reduced to that tip alone, which
    then has no neighbour) *)
Definition Keeps (lt lt' : ltree) : Prop :=
  forall e, In e (ltips lt) -> fst e <> lid lt -> In e (ltips lt') \/ exists cm, lt' = LNode (fst e) (snd e) cm [].

Lemma keeps_refl lt : Keeps lt lt.
Proof. intros e H _. left. exact H. Qed.

Lemma ltips_reparent C nmC cmC slC : lnup slC = 1 ->
  ltips (LNode C nmC cmC (ldrop_up slC ++ [None])) = ltips (LNode C nmC cmC slC).
Proof.
  intros U. rewrite !ltips_eq, app_length, stips_app, stips_drop_up. cbn [length stips flat_map]. rewrite app_nil_r.
  rewrite Nat.add_1_r, (length_drop_up slC U). reflexivity.
Qed.

(** Case 1b *)
Lemma keeps_drop_root r nm cm ec eic c nmc cmc slc : lnup slc = 1 ->
  Keeps (LNode r nm cm [Some (ec, eic, LNode c nmc cmc slc)]) (LNode c nmc cmc (ldrop_up slc)).
Proof.
  intros U e He Hr. cbn [lid] in Hr. rewrite ltips_eq in He. cbn [length Nat.eqb stips flat_map app] in He. rewrite app_nil_r in He.
  destruct He as [<-|He]; [exfalso; apply Hr; reflexivity|].
  rewrite ltips_eq in He. apply in_app_or in He. destruct He as [He|He].
  - destruct (Nat.eqb_spec (length slc) 1) as [L|_]; [|destruct He]. destruct He as [<-|[]].
    destruct slc as [|s [|s' r0]]; cbn in L; try lia. destruct s as [[[x xi] ch]|]; [cbn in U; discriminate|].
    right. exists cmc. reflexivity.
  - left. rewrite ltips_eq, stips_drop_up. apply in_or_app. right. exact He.
Qed.

(** Case 2 on the root *)
Lemma keeps_unroot r nm cm e1 ei1 n1 nm1 cm1 sl1 e2 ei2 n2 nm2 cm2 sl2 e3 info : lnup sl1 = 1 -> lnup sl2 = 1 ->
  Keeps (LNode r nm cm [Some (e1, ei1, LNode n1 nm1 cm1 sl1); Some (e2, ei2, LNode n2 nm2 cm2 sl2)])
        (LNode n1 nm1 cm1 (ldrop_up sl1 ++ [Some (e3, info, LNode n2 nm2 cm2 (ldrop_up sl2 ++ [None]))])) /\
  Keeps (LNode r nm cm [Some (e1, ei1, LNode n1 nm1 cm1 sl1); Some (e2, ei2, LNode n2 nm2 cm2 sl2)])
        (LNode n2 nm2 cm2 (ldrop_up sl2 ++ [Some (e3, info, LNode n1 nm1 cm1 (ldrop_up sl1 ++ [None]))])).
Proof.
  intros U1 U2.
  assert (A : forall a nma cma sla b nmb cmb slb, lnup sla = 1 -> lnup slb = 1 ->
     forall e, In e (ltips (LNode a nma cma sla)) \/ In e (ltips (LNode b nmb cmb slb)) ->
     In e (ltips (LNode a nma cma (ldrop_up sla ++ [Some (e3, info, LNode b nmb cmb (ldrop_up slb ++ [None]))])))).
  { intros a nma cma sla b nmb cmb slb Ua Ub e He. rewrite (ltips_eq a), app_length, stips_app, stips_drop_up. cbn [length stips flat_map].
    rewrite app_nil_r, Nat.add_1_r, (length_drop_up sla Ua), (ltips_reparent b nmb cmb slb Ub).
    destruct He as [He|He].
    - rewrite ltips_eq in He. apply in_app_or in He. apply in_or_app. destruct He as [He|He]; [left; exact He|right; apply in_or_app; left; exact He].
    - apply in_or_app. right. apply in_or_app. right. exact He. }
  split; intros e He _; left; rewrite ltips_eq in He; cbn [length Nat.eqb stips flat_map app] in He; rewrite app_nil_r in He; apply in_app_or in He.
  - apply A; assumption.
  - apply A; try assumption. destruct He; [right|left]; assumption.
Qed.

(** Case 2 on an inner node *)
Lemma ltips_splice P nmP cmP l1 l2 eP eiP i nmi cmi (pfirst : bool) eC eiC C nmC cmC slC enew info : lnup slC = 1 ->
  forall e, In e (ltips (LNode P nmP cmP (l1 ++ Some (eP, eiP, LNode i nmi cmi (if pfirst then [None; Some (eC, eiC, LNode C nmC cmC slC)] else [Some (eC, eiC, LNode C nmC cmC slC); None])) :: l2))) ->
  In e (ltips (LNode P nmP cmP ((l1 ++ l2) ++ [Some (enew, info, LNode C nmC cmC (ldrop_up slC ++ [None]))]))).
Proof.
  intros U e He. rewrite ltips_eq in He |- *. rewrite !app_length in *. cbn [length] in *. rewrite !stips_app in *. cbn [stips flat_map] in *.
  rewrite app_nil_r, (ltips_reparent C nmC cmC slC U).
  replace (length l1 + length l2 + 1) with (length l1 + S (length l2)) by lia.
  apply in_app_or in He. apply in_or_app. destruct He as [He|He]; [left; exact He|right].
  apply in_app_or in He. rewrite <- app_assoc. apply in_or_app. destruct He as [He|He]; [left; exact He|right].
  apply in_app_or in He. destruct He as [He|He]; [|apply in_or_app; left; exact He].
  apply in_or_app. right. rewrite ltips_eq in He. destruct pfirst; cbn [length Nat.eqb stips flat_map app] in He; rewrite ?app_nil_r in He; exact He.
Qed.
