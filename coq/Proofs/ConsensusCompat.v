(** C09, compatibility: two bipartitions that each occur in more than half of the trees of a
    collection occur together in some tree, and two bipartitions of one tree are compatible (their
    sides are nested, disjoint or cover the taxa).  Hence the splits kept at a threshold >= 0.5
    are pairwise compatible: the precondition of the construction of the consensus tree by
    successive AddBipartition. *)
From Coq Require Import String NArith ZArith QArith Bool Arith Lia List Permutation.
From GT Require Import Base.UTree Spec.Obs Spec.CompareSpec Spec.ConsensusSpec
     Proofs.IndexTree Proofs.IndexSplit Proofs.Splits Proofs.USplits
     Proofs.CompareBase Proofs.CompareTree Proofs.CompareMain Proofs.CompareDomain Proofs.CompareDupfree.
Import ListNotations.
Local Close Scope Q_scope.
Local Arguments leaves : simpl never.

Lemma sset_In1 x l : In x (sset l) -> In x l.
Proof. intros H. apply (proj1 (sset_In l x) H). Qed.
Lemma sset_In2 x l : In x l -> In x (sset l).
Proof. intros H. apply (proj2 (sset_In l x) H). Qed.

(** * pigeonhole *)
Lemma filter_both {A} (P Q : A -> bool) l :
  length l < length (filter P l) + length (filter Q l) -> exists x, In x l /\ P x = true /\ Q x = true.
Proof.
  induction l as [|a l IH]; simpl; intros H; [lia|].
  destruct (P a) eqn:Pa, (Q a) eqn:Qa; simpl in H.
  - exists a. auto.
  - destruct IH as (x & Hx & H1 & H2); [lia|]. exists x. auto.
  - destruct IH as (x & Hx & H1 & H2); [lia|]. exists x. auto.
  - destruct IH as (x & Hx & H1 & H2); [lia|]. exists x. auto.
Qed.

(** two splits, each in more than half of the trees, are together in some tree *)
Theorem majority_share_a_tree ts k1 k2 :
  length ts < 2 * freq_count ts k1 -> length ts < 2 * freq_count ts k2 ->
  exists t, In t ts /\ tree_has t k1 = true /\ tree_has t k2 = true.
Proof.
  intros H1 H2. unfold freq_count in *. apply filter_both. lia.
Qed.

(** * the branches of one tree are laminar *)
Definition nested_or_disjoint (A B : list string) : Prop :=
  incl A B \/ incl B A \/ (forall x, In x A -> In x B -> False).

Lemma flat_slot_split sl ec :
  In ec (flat_map slot_edges sl) ->
  exists pre e c post, sl = pre ++ Some (e, c) :: post /\ In ec (slot_edges (Some (e, c))).
Proof.
  induction sl as [|s r IH]; simpl; intros H; [destruct H|].
  apply in_app_or in H. destruct H as [H|H].
  - destruct s as [[e c]|]; [|destruct H]. exists [], e, c, r. auto.
  - destruct (IH H) as (pre & e & c & post & -> & Hin). exists (s :: pre), e, c, post. auto.
Qed.

Lemma laminar_sub u :
  children_wf (uslots u) = true -> NoDup (leaves u) ->
  forall x y, In x (edges_below u) -> In y (edges_below u) -> nested_or_disjoint (EL x) (EL y).
Proof.
  induction u as [n cm sl IH] using utree_ind'. simpl uslots. intros W ND x y Hx Hy.
  rewrite edges_below_unfold in *.
  destruct (kids_of sl) eqn:K.
  { exfalso. assert (E : flat_map slot_edges sl = []).
    { clear - K. unfold kids_of in K. induction sl as [|[[e c]|] r IHr]; simpl in *; auto. discriminate. }
    rewrite E in Hx. destruct Hx. }
  rewrite leaves_node in ND by (rewrite K; discriminate). clear K.
  destruct (flat_slot_split sl x Hx) as (pre & e & c & post & -> & Hxc).
  rewrite sub_leaves_split in ND.
  destruct (children_wf_app _ _ W) as [Wp Wq]. simpl in Wq. apply andb_prop in Wq. destruct Wq as [Wc Wq].
  destruct (slot_edges_facts e c x Wc Hxc) as (Ix & _ & _ & Cx).
  rewrite flat_map_app in Hy. apply in_app_or in Hy.
  assert (OUT : forall sl', children_wf sl' = true -> In y (flat_map slot_edges sl') -> incl (EL y) (sub_leaves sl')).
  { intros sl' W' H'. destruct (flat_slot_edges_in sl' y H') as (e2 & c2 & Hs2 & Hy2).
    destruct (slot_edges_facts e2 c2 y (children_wf_in _ _ _ W' Hs2) Hy2) as (Iy & _).
    intros a Ha. eapply sub_leaves_in; eauto. }
  destruct Hy as [Hy|Hy].
  - (* y in an earlier child *)
    right. right. intros a Ha Hb. apply Ix in Ha. apply (OUT pre Wp Hy) in Hb.
    apply (NoDup_app_disjoint _ _ a ND Hb). apply in_or_app. left. exact Ha.
  - change (flat_map slot_edges (Some (e, c) :: post)) with (slot_edges (Some (e, c)) ++ flat_map slot_edges post) in Hy.
    apply in_app_or in Hy. destruct Hy as [Hy|Hy].
    + (* same child *)
      destruct (slot_edges_facts e c y Wc Hy) as (Iy & _ & _ & Cy).
      destruct Cx as [->|Cx]; [right; left; exact Iy|].
      destruct Cy as [->|Cy]; [left; exact Ix|].
      assert (Hs : In (Some (e, c)) (pre ++ Some (e, c) :: post)) by (apply in_or_app; right; now left).
      rewrite Forall_forall in IH. specialize (IH _ Hs). simpl in IH. apply IH; auto.
      * destruct c. apply wf_sub_inv in Wc. apply Wc.
      * apply nodup_app_r in ND. now apply nodup_app_l in ND.
    + (* y in a later child *)
      right. right. intros a Ha Hb. apply Ix in Ha. apply (OUT post Wq Hy) in Hb.
      apply nodup_app_r in ND. apply (NoDup_app_disjoint _ _ a ND Ha Hb).
Qed.

Theorem laminar t : good t -> forall x y, In x (edges t) -> In y (edges t) -> nested_or_disjoint (EL x) (EL y).
Proof.
  intros (W & _ & ND). apply laminar_sub; auto. destruct t. apply wf_inv in W. apply W.
Qed.

(** * compatibility of bipartitions given by one of their sides *)
Definition compatible (all A B : list string) : Prop :=
  (forall x, In x A -> In x B -> False) \/ incl A B \/ incl B A \/ (forall x, In x all -> In x A \/ In x B).

(** compatibility does not depend on the side chosen to name the bipartition *)
Lemma compatible_sym all A B : compatible all A B -> compatible all B A.
Proof. unfold compatible. intros [H|[H|[H|H]]]; firstorder. Qed.

Lemma compatible_compl all A A' B :
  incl A all -> incl B all -> (forall x, In x all -> (In x A' <-> ~ In x A)) -> incl A' all ->
  compatible all A B -> compatible all A' B.
Proof.
  intros IA IB HC IA' [H|[H|[H|H]]]; unfold compatible.
  - (* disjoint: B inside the complement *) right. right. left. intros x Hx. apply HC; auto. intro. apply (H x); auto.
  - (* A in B: A' and B cover *) right. right. right. intros x Hx.
    destruct (In_dec_str x A); [right; auto|left; apply HC; auto].
  - (* B in A: A' and B disjoint *) left. intros x Hx Hb. apply (HC x (IA' x Hx)) in Hx. apply Hx. auto.
  - (* cover: A' inside B *) right. left. intros x Hx. destruct (H x (IA' x Hx)); auto.
    apply (HC x (IA' x Hx)) in Hx. contradiction.
Qed.

Lemma nested_compatible all A B : nested_or_disjoint A B -> compatible all A B.
Proof. unfold compatible. intros [H|[H|H]]; auto. Qed.

(** the canonical side of a set of leaves is that set or its complement *)
Lemma canon_side_cases L A :
  incl A L ->
  (forall x, In x (canon_side (sset L) (sset A)) <-> In x A) \/
  (forall x, In x (sset L) -> (In x (canon_side (sset L) (sset A)) <-> ~ In x (sset A))).
Proof.
  intros I. destruct (sset L) as [|m r] eqn:E.
  - left. intros x. rewrite canon_side_In. apply sset_In.
  - destruct (smem m (sset A)) eqn:M.
    + right. intros x Hx. rewrite canon_side_In, M. tauto.
    + left. intros x. rewrite canon_side_In, M. apply sset_In.
Qed.

Lemma canon_side_incl L P : incl P L -> incl (canon_side (sset L) (sset P)) (sset L).
Proof.
  intros IP a Ha. apply canon_side_In in Ha. destruct (sset L) as [|m r] eqn:E.
  - exfalso. apply sset_In1 in Ha. apply IP in Ha. apply sset_In2 in Ha. rewrite E in Ha. destruct Ha.
  - destruct (smem m (sset P)); [tauto|]. rewrite <- E. apply sset_In2. apply IP. exact (sset_In1 _ _ Ha).
Qed.

Theorem branches_compatible t x y :
  good t -> In x (edges t) -> In y (edges t) ->
  compatible (tipset t) (canon_side (tipset t) (sset (EL x))) (canon_side (tipset t) (sset (EL y))).
Proof.
  intros G Hx Hy. pose proof (laminar t G x y Hx Hy) as LAM.
  pose proof (edges_below_leaves t x Hx) as Ix. pose proof (edges_below_leaves t y Hy) as Iy.
  unfold tipset. set (L := leaves t) in *. set (A := EL x) in *. set (B := EL y) in *.
  assert (IA : incl (sset A) (sset L)) by (intros a Ha; apply sset_In2; apply Ix; exact (sset_In1 _ _ Ha)).
  assert (IB : incl (sset B) (sset L)) by (intros a Ha; apply sset_In2; apply Iy; exact (sset_In1 _ _ Ha)).
  assert (ICA : incl (canon_side (sset L) (sset A)) (sset L)) by now apply canon_side_incl.
  assert (ICB : incl (canon_side (sset L) (sset B)) (sset L)) by now apply canon_side_incl.
  assert (C0 : compatible (sset L) (sset A) (sset B)).
  { apply nested_compatible. destruct LAM as [H|[H|H]].
    - left. intros a Ha. apply sset_In2. apply H. exact (sset_In1 _ _ Ha).
    - right. left. intros a Ha. apply sset_In2. apply H. exact (sset_In1 _ _ Ha).
    - right. right. intros a Ha Hb. apply sset_In1 in Ha. apply sset_In1 in Hb. eauto. }
  (* replace each side by its canonical side: either the same set or its complement *)
  assert (STEP : forall P Q, incl P L -> incl (sset Q) (sset L) -> compatible (sset L) (sset P) (sset Q) ->
                             compatible (sset L) (canon_side (sset L) (sset P)) (sset Q)).
  { intros P Q IP IQ C. destruct (canon_side_cases L P IP) as [Same|Compl].
    - destruct C as [H|[H|[H|H]]]; unfold compatible.
      + left. intros a Ha Hb. apply Same in Ha. apply (H a); auto. now apply sset_In2.
      + right. left. intros a Ha. apply Same in Ha. apply H. now apply sset_In2.
      + right. right. left. intros a Ha. apply Same. apply sset_In1. now apply H.
      + right. right. right. intros a Ha. destruct (H a Ha) as [H1|H1]; auto. left. apply Same. exact (sset_In1 _ _ H1).
    - apply (compatible_compl (sset L) (sset P)); auto.
      + intros a Ha. apply sset_In2. apply IP. exact (sset_In1 _ _ Ha).
      + now apply canon_side_incl. }
  apply (STEP A) in C0; auto.
  apply compatible_sym in C0. apply compatible_sym.
  assert (C1 : compatible (sset L) (canon_side (sset L) (sset B)) (canon_side (sset L) (sset A))).
  { destruct (canon_side_cases L B Iy) as [Same|Compl].
    - destruct C0 as [H|[H|[H|H]]]; unfold compatible.
      + left. intros a Ha Hb. apply Same in Ha. apply (H a); auto. now apply sset_In2.
      + right. left. intros a Ha. apply Same in Ha. apply H. now apply sset_In2.
      + right. right. left. intros a Ha. apply Same. apply sset_In1. now apply H.
      + right. right. right. intros a Ha. destruct (H a Ha) as [H1|H1]; auto. left. apply Same. exact (sset_In1 _ _ H1).
    - apply (compatible_compl (sset L) (sset B)); auto. }
  exact C1.
Qed.

(** * a split of a tree (in the sense of the specification) is the split of one of its branches *)
Lemma fold_step_some k l : forall o,
    fold_left (step k) l o <> None -> o <> None \/ exists s, In s l /\ sside s = k.
Proof.
  induction l as [|x l IH]; simpl; intros o H; auto.
  destruct (IH _ H) as [H1|(s & Hs & E)].
  - unfold step in H1. destruct (sset_eqb (sside x) k) eqn:E.
    + right. exists x. split; auto. now apply sset_eqb_eq.
    + left. exact H1.
  - right. exists s. auto.
Qed.

Lemma tree_has_branch t k :
  good t -> tree_has t k = true -> exists ec, In ec (edges t) /\ k = canon_side (tipset t) (sset (EL ec)).
Proof.
  intros (W & _ & _) H. unfold tree_has, tree_split in H.
  destruct (find_split k (usplits t)) eqn:F; [|discriminate].
  rewrite usplits_eq, find_split_foldsplits in F.
  destruct (fold_step_some k (branch_splits (tipset t) t) None) as [N|(s0 & Hs & E)]; [congruence|congruence|].
  assert (Wc : children_wf (uslots t) = true) by (destruct t; apply wf_inv in W; apply W).
  rewrite (branch_splits_edges _ _ Wc) in Hs. apply in_map_iff in Hs. destruct Hs as (ec & <- & Hin).
  exists ec. split; auto.
Qed.

(** the splits kept at a threshold >= 0.5 are pairwise compatible *)
Theorem majority_splits_compatible ts all k1 k2 :
  Forall (fun t => good t /\ tipset t = all) ts ->
  length ts < 2 * freq_count ts k1 -> length ts < 2 * freq_count ts k2 ->
  compatible all k1 k2.
Proof.
  intros F H1 H2. destruct (majority_share_a_tree ts k1 k2 H1 H2) as (t & Ht & T1 & T2).
  rewrite Forall_forall in F. destruct (F t Ht) as [G <-].
  destruct (tree_has_branch t k1 G T1) as (x & Hx & ->).
  destruct (tree_has_branch t k2 G T2) as (y & Hy & ->).
  now apply branches_compatible.
Qed.

(** * together with the selection test: the splits the code keeps are pairwise compatible *)
From GT Require Import Model.Consensus Proofs.ConsensusRound.

Theorem kept_splits_compatible ts all (c64 : Q) k1 k2 :
  Forall (fun t => good t /\ tipset t = all) ts -> ts <> [] -> ((1 # 2) <= c64)%Q ->
  keep_split c64 (Z.of_nat (length ts)) (Z.of_nat (freq_count ts k1)) = true ->
  keep_split c64 (Z.of_nat (length ts)) (Z.of_nat (freq_count ts k2)) = true ->
  compatible all k1 k2.
Proof.
  intros F NE Hc K1 K2.
  assert (Hn : (0 < Z.of_nat (length ts))%Z) by (destruct ts; [congruence|simpl; lia]).
  apply (kept_is_majority c64 _ _ Hc Hn) in K1. apply (kept_is_majority c64 _ _ Hc Hn) in K2.
  apply (majority_splits_compatible ts all k1 k2 F); lia.
Qed.
