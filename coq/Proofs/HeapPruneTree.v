(** Pure [utree] lemmas for the removeTip refinement square: Model/Prune.v [remove_tip] searches
    the tip by name from the root and returns what happened on the way back ([outcome]); the Go
    code (and the heap model) starts at the tip and walks up.  Here the recursion of [rm_sub] is
    re-expressed along the path of the tip: [after_sub nm p t] is what [rm_sub] answers at the
    root of [t] when the node at path [p] has just lost a slot. *)
From Coq Require Import String ZArith QArith Bool Arith Lia List.
From GT Require Import Base.UTree Model.Reroot Model.Prune Model.NNI Model.HeapSpec Proofs.NNIBase.
Import ListNotations.
Local Close Scope Q_scope.

(** * what a node answers, given the answer [o] of its slot [k] (the match of [rm_sub]) *)
Definition prop_sub (nm n : string) (c : list string) (sl : list slot) (k : nat) (e : einfo) (o : outcome) : outcome :=
  match o with
  | ONotFound => ONotFound
  | OKeep ch' => OKeep (UNode n c (set_nth k (Some (e, ch')) sl))
  | OGone => after_del_sub nm n c (remove_nth k sl)
  | OSplice ec cc => OKeep (UNode n c (splice sl k e ec cc))
  | OFail m => OFail m
  end.

Definition prop_root (nm n : string) (c : list string) (sl : list slot) (k : nat) (e : einfo) (o : outcome) : res utree :=
  match o with
  | ONotFound => Err (err_not_tip nm)
  | OKeep ch' => Ok (UNode n c (set_nth k (Some (e, ch')) sl))
  | OGone => after_del_root nm n c (remove_nth k sl)
  | OSplice ec cc => Ok (UNode n c (splice sl k e ec cc))
  | OFail m => Err m
  end.

Fixpoint after_sub (nm : string) (p : list nat) (t : utree) : outcome :=
  match t with
  | UNode n c sl =>
    match p with
    | [] => after_del_sub nm n c sl
    | k :: q =>
      match nth_error sl k with
      | Some (Some (e, ch)) => prop_sub nm n c sl k e (after_sub nm q ch)
      | _ => ONotFound
      end
    end
  end.

Definition after_root (nm : string) (p : list nat) (t : utree) : res utree :=
  match t with
  | UNode n c sl =>
    match p with
    | [] => after_del_root nm n c sl
    | k :: q =>
      match nth_error sl k with
      | Some (Some (e, ch)) => prop_root nm n c sl k e (after_sub nm q ch)
      | _ => Err (err_not_tip nm)
      end
    end
  end.

(** delete the (child) slot [j] of a node *)
Definition rm_slot (j : nat) (t : utree) : option utree :=
  match t with
  | UNode n c sl => match nth_error sl j with Some (Some _) => Some (UNode n c (remove_nth j sl)) | _ => None end
  end.

(** delete the slot [j] of a node when the child there has a single slot (a leaf) *)
Definition rm_leaf (j : nat) (t : utree) : option utree :=
  match t with
  | UNode n c sl =>
    match nth_error sl j with
    | Some (Some (_, UNode _ _ [_])) => Some (UNode n c (remove_nth j sl))
    | _ => None
    end
  end.

(** * list facts *)
Lemma length_set_nth' {A} k (x : A) l : length (set_nth k x l) = length l.
Proof.
  unfold set_nth. rewrite app_length. rewrite <- (firstn_skipn k l) at 3. rewrite app_length. f_equal.
  destruct (skipn k l); reflexivity.
Qed.

Lemma remove_nth_set_nth {A} k (x : A) l : remove_nth k (set_nth k x l) = remove_nth k l.
Proof.
  revert k. induction l as [|a l IH]; intros [|k]; try reflexivity.
  unfold remove_nth, set_nth in *. cbn [firstn skipn app]. f_equal. exact (IH k).
Qed.

Lemma nth_error_set_nth_same {A} k (x : A) l : k < length l -> nth_error (set_nth k x l) k = Some x.
Proof.
  revert k. induction l as [|a l IH]; intros [|k] H; cbn in H; try lia; [reflexivity|].
  unfold set_nth in *. cbn [firstn skipn app nth_error]. apply IH. lia.
Qed.

Lemma prop_sub_set nm n c sl k x e o : prop_sub nm n c (set_nth k x sl) k e o = prop_sub nm n c sl k e o.
Proof.
  destruct o; cbn [prop_sub]; try reflexivity.
  - rewrite set_nth_twice. reflexivity.
  - rewrite remove_nth_set_nth. reflexivity.
  - unfold splice. rewrite remove_nth_set_nth, length_set_nth'. reflexivity.
Qed.

Lemma prop_root_set nm n c sl k x e o : prop_root nm n c (set_nth k x sl) k e o = prop_root nm n c sl k e o.
Proof.
  destruct o; cbn [prop_root]; try reflexivity.
  - rewrite set_nth_twice. reflexivity.
  - rewrite remove_nth_set_nth. reflexivity.
  - unfold splice. rewrite remove_nth_set_nth, length_set_nth'. reflexivity.
Qed.

Lemma after_sub_cons nm k q n c sl :
  after_sub nm (k :: q) (UNode n c sl) =
  match nth_error sl k with
  | Some (Some (e, ch)) => prop_sub nm n c sl k e (after_sub nm q ch)
  | _ => ONotFound
  end.
Proof. reflexivity. Qed.

Lemma at_path_cons f k q n c sl :
  at_path f (k :: q) (UNode n c sl) =
  match nth_error sl k with
  | Some (Some (e, ch)) => match at_path f q ch with Some ch' => Some (UNode n c (set_nth k (Some (e, ch')) sl)) | None => None end
  | _ => None
  end.
Proof. reflexivity. Qed.

(** a one-step rewriting under a path: the slot that was followed is found again *)
Lemma nth_after_set {A} k (x y : A) sl : nth_error sl k = Some y -> nth_error (set_nth k x sl) k = Some x.
Proof. intros H. apply nth_error_set_nth_same. apply nth_error_Some. congruence. Qed.

(** * the Case 1 loop: a node left with its parent slot only is deleted in turn *)
Lemma after_sub_chain nm k : forall p t t1, at_path (rm_leaf k) p t = Some t1 ->
  after_sub nm (p ++ [k]) t = after_sub nm p t1.
Proof.
  induction p as [|k0 p IH]; intros [n c sl] t1 H.
  - cbn [at_path rm_leaf] in H. cbn [app]. rewrite after_sub_cons.
    destruct (nth_error sl k) as [[[e [n' c' sl']]|]|]; try discriminate.
    destruct sl' as [|s [|s' r]]; try discriminate. injection H as <-.
    cbn [after_sub prop_sub after_del_sub]. destruct s as [[? ?]|]; reflexivity.
  - cbn [app]. rewrite at_path_cons in H. rewrite after_sub_cons.
    destruct (nth_error sl k0) as [[[e ch]|]|] eqn:E; try discriminate.
    destruct (at_path (rm_leaf k) p ch) as [ch'|] eqn:E'; [|discriminate]. injection H as <-.
    rewrite after_sub_cons, (nth_after_set _ _ _ _ E), prop_sub_set, (IH ch ch' E'). reflexivity.
Qed.

Lemma after_root_chain nm k : forall p t t1, at_path (rm_leaf k) p t = Some t1 -> p <> [] ->
  after_root nm (p ++ [k]) t = after_root nm p t1.
Proof.
  intros [|k0 p] [n c sl] t1 H Hp; [congruence|]. cbn [app]. rewrite at_path_cons in H. cbn [after_root].
  destruct (nth_error sl k0) as [[[e ch]|]|] eqn:E; try discriminate.
  destruct (at_path (rm_leaf k) p ch) as [ch'|] eqn:E'; [|discriminate]. injection H as <-.
  cbn [after_root]. rewrite (nth_after_set _ _ _ _ E), prop_root_set, (after_sub_chain nm k p ch ch' E'). reflexivity.
Qed.

(** the root's child is such a leaf *)
Lemma after_root_chain0 nm k t t1 : rm_leaf k t = Some t1 -> after_root nm [k] t = after_root nm [] t1.
Proof.
  destruct t as [n c sl]. cbn [rm_leaf after_root]. destruct (nth_error sl k) as [[[e [n' c' sl']]|]|]; try discriminate.
  destruct sl' as [|s [|s' r]]; try discriminate. intros [= <-]. cbn [after_sub after_del_sub prop_root]. destruct s as [[? ?]|]; reflexivity.
Qed.

(** * the surgery stopped at the node at path [p] (answer [OKeep]): rebuilding is [at_path] *)
Definition keep_of (nm : string) (q : list nat) (t : utree) : option utree :=
  match after_sub nm q t with OKeep t' => Some t' | _ => None end.

Lemma after_sub_keep nm q : forall p t t', at_path (keep_of nm q) p t = Some t' -> after_sub nm (p ++ q) t = OKeep t'.
Proof.
  induction p as [|k p IH]; intros [n c sl] t' H.
  - cbn [at_path] in H. unfold keep_of in H. cbn [app]. destruct (after_sub nm q (UNode n c sl)); try discriminate. congruence.
  - cbn [app]. rewrite at_path_cons in H. rewrite after_sub_cons.
    destruct (nth_error sl k) as [[[e ch]|]|]; try discriminate.
    destruct (at_path (keep_of nm q) p ch) as [ch'|] eqn:E'; [|discriminate]. injection H as <-.
    rewrite (IH ch ch' E'). reflexivity.
Qed.

Lemma after_root_keep nm q : forall p t t', at_path (keep_of nm q) p t = Some t' -> p <> [] -> after_root nm (p ++ q) t = Ok t'.
Proof.
  intros [|k p] [n c sl] t' H Hp; [congruence|]. cbn [app]. rewrite at_path_cons in H. cbn [after_root].
  destruct (nth_error sl k) as [[[e ch]|]|]; try discriminate.
  destruct (at_path (keep_of nm q) p ch) as [ch'|] eqn:E'; [|discriminate]. injection H as <-.
  rewrite (after_sub_keep nm q p ch ch' E'). reflexivity.
Qed.

(** * the search by name ([find_sub], [find_tip]: Model/HeapSpec.v) *)
Lemma after_del_sub_found nm n c sl : after_del_sub nm n c sl <> ONotFound.
Proof.
  unfold after_del_sub. destruct sl as [|[[e1 c1]|] [|[[e2 c2]|] [|s3 r]]]; discriminate.
Qed.

Lemma prop_sub_found nm n c sl k e o : o <> ONotFound -> prop_sub nm n c sl k e o <> ONotFound.
Proof. destruct o; cbn [prop_sub]; try discriminate; try congruence. intros _. apply after_del_sub_found. Qed.

Definition sub_link (nm : string) (t : utree) : Prop :=
  match find_sub nm t with
  | None => rm_sub nm t = ONotFound
  | Some P => exists p j t1, P = p ++ [j] /\ at_path (rm_slot j) p t = Some t1 /\ rm_sub nm t = after_sub nm p t1 /\
                             rm_sub nm t <> ONotFound
  end.

(** the two loops over the slots agree *)
Lemma go_link nm : forall l i,
  Forall (fun s => match s with Some (_, t) => sub_link nm t | None => True end) l ->
  match find_go (find_sub nm) nm i l with
  | None => first_hit (hit nm (rm_sub nm)) i l = None
  | Some P => exists k e ch, nth_error l k = Some (Some (e, ch)) /\
      first_hit (hit nm (rm_sub nm)) i l = Some (i + k, e, hit nm (rm_sub nm) ch) /\
      hit nm (rm_sub nm) ch <> ONotFound /\
      ((is_tip ch && String.eqb (uname ch) nm = true /\ P = [i + k]) \/
       (is_tip ch && String.eqb (uname ch) nm = false /\ exists q, find_sub nm ch = Some q /\ P = (i + k) :: q))
  end.
Proof.
  induction l as [|s l IH]; intros i F; [reflexivity|].
  apply Forall_cons_iff in F. destruct F as [Fs F]. specialize (IH (S i) F).
  destruct s as [[e ch]|]; cbn [find_go first_hit].
  - assert (Hh : hit nm (rm_sub nm) ch = if is_tip ch && String.eqb (uname ch) nm then OGone else rm_sub nm ch) by reflexivity.
    fold (find_go (find_sub nm) nm). fold (first_hit (hit nm (rm_sub nm))).
    destruct (is_tip ch && String.eqb (uname ch) nm) eqn:Et.
    + exists 0, e, ch. rewrite Nat.add_0_r, Hh. repeat split; try discriminate. left. split; [exact Et|reflexivity].
    + unfold sub_link in Fs. destruct (find_sub nm ch) as [q|] eqn:Eq.
      * destruct Fs as (p & j & t1 & _ & _ & _ & Nf).
        exists 0, e, ch. rewrite Nat.add_0_r, Hh.
        split; [reflexivity|]. split; [destruct (rm_sub nm ch); try reflexivity; congruence|]. split; [exact Nf|].
        right. split; [exact Et|]. exists q. split; [exact Eq|reflexivity].
      * rewrite Hh, Fs.
        destruct (find_go (find_sub nm) nm (S i) l) as [P|]; [|exact IH].
        destruct IH as (k & e' & ch' & A1 & A2 & A3 & A4). exists (S k), e', ch'. rewrite Nat.add_succ_r. auto.
  - fold (find_go (find_sub nm) nm). fold (first_hit (hit nm (rm_sub nm))).
    destruct (find_go (find_sub nm) nm (S i) l) as [P|]; [|exact IH].
    destruct IH as (k & e' & ch' & A1 & A2 & A3 & A4). exists (S k), e', ch'. rewrite Nat.add_succ_r. auto.
Qed.

Lemma rm_sub_unfold nm n c sl :
  rm_sub nm (UNode n c sl) =
  match first_hit (hit nm (rm_sub nm)) 0 sl with
  | None => ONotFound
  | Some (i, e, o) => prop_sub nm n c sl i e o
  end.
Proof.
  cbn [rm_sub]. fold (rm_sub nm).
  replace (fun ch => rm_sub nm ch) with (rm_sub nm) by reflexivity.
  destruct (first_hit (hit nm (rm_sub nm)) 0 sl) as [[[i e] o]|]; [|reflexivity]. destruct o; reflexivity.
Qed.

Theorem rm_sub_find nm : forall t, sub_link nm t.
Proof.
  induction t as [n c sl IH] using utree_ind'. unfold sub_link. cbn [find_sub].
  replace (fun ch => find_sub nm ch) with (find_sub nm) by reflexivity.
  pose proof (go_link nm sl 0 IH) as L. rewrite rm_sub_unfold.
  destruct (find_go (find_sub nm) nm 0 sl) as [P|]; [|rewrite L; reflexivity].
  destruct L as (k & e & ch & A1 & A2 & A3 & A4). cbn [Nat.add] in A2, A4. rewrite A2.
  destruct A4 as [[Et ->]|[Et (q & Eq & ->)]].
  - exists [], k, (UNode n c (remove_nth k sl)). split; [reflexivity|]. cbn [at_path rm_slot]. rewrite A1.
    split; [reflexivity|]. unfold hit. rewrite Et. cbn [prop_sub after_sub]. split; [reflexivity|apply after_del_sub_found].
  - pose proof (Forall_forall (fun s => match s with Some (_, t) => sub_link nm t | None => True end) sl) as FF.
    pose proof (proj1 FF IH _ (nth_error_In _ _ A1)) as Lc. cbn beta iota in Lc. unfold sub_link in Lc. rewrite Eq in Lc.
    destruct Lc as (p & j & ch1 & -> & B2 & B3 & B4).
    exists (k :: p), j, (UNode n c (set_nth k (Some (e, ch1)) sl)). split; [reflexivity|].
    rewrite at_path_cons, A1, B2. split; [reflexivity|].
    rewrite after_sub_cons, (nth_after_set _ _ _ _ A1), prop_sub_set. unfold hit. rewrite Et, B3.
    split; [reflexivity|]. apply prop_sub_found. rewrite <- B3. exact B4.
Qed.

(** ** at the root *)
Theorem remove_tip_find nm t :
  match find_tip nm t with
  | None => remove_tip nm t = Err (err_not_tip nm)
  | Some [] => remove_tip nm t = Err err_not_neighbor
  | Some P => exists p j t1, P = p ++ [j] /\ at_path (rm_slot j) p t = Some t1 /\ remove_tip nm t = after_root nm p t1
  end.
Proof.
  destruct t as [n c sl]. unfold find_tip, remove_tip. cbn [uname].
  destruct (is_tip (UNode n c sl) && String.eqb n nm); [reflexivity|].
  cbn [find_sub]. replace (fun ch => find_sub nm ch) with (find_sub nm) by reflexivity.
  assert (IH : Forall (fun s => match s with Some (_, t) => sub_link nm t | None => True end) sl).
  { apply Forall_forall. intros [[e ch]|] _; [apply rm_sub_find|exact I]. }
  pose proof (go_link nm sl 0 IH) as L.
  destruct (find_go (find_sub nm) nm 0 sl) as [P|]; [|rewrite L; reflexivity].
  destruct L as (k & e & ch & A1 & A2 & A3 & A4). cbn [Nat.add] in A2, A4. rewrite A2.
  destruct A4 as [[Et ->]|[Et (q & Eq & ->)]].
  - exists [], k, (UNode n c (remove_nth k sl)). split; [reflexivity|]. cbn [at_path rm_slot]. rewrite A1.
    split; [reflexivity|]. unfold hit. rewrite Et. reflexivity.
  - pose proof (rm_sub_find nm ch) as Lc. unfold sub_link in Lc. rewrite Eq in Lc.
    destruct Lc as (p & j & ch1 & -> & B2 & B3 & B4).
    exists (k :: p), j, (UNode n c (set_nth k (Some (e, ch1)) sl)). split; [reflexivity|].
    rewrite at_path_cons, A1, B2. split; [reflexivity|].
    cbn [after_root]. rewrite (nth_after_set _ _ _ _ A1), prop_root_set. unfold hit. rewrite Et, B3.
    reflexivity.
Qed.

(** the node found by name is a tip *)
Definition tip_at (P : list nat) (t : utree) : Prop :=
  at_path (fun s => if is_tip s then Some s else None) P t <> None.

Theorem find_sub_at nm : forall t P, find_sub nm t = Some P -> tip_at P t /\ P <> [].
Proof.
  induction t as [n c sl IH] using utree_ind'. intros P H. cbn [find_sub] in H.
  replace (fun ch => find_sub nm ch) with (find_sub nm) in H by reflexivity.
  assert (F : Forall (fun s => match s with Some (_, t) => sub_link nm t | None => True end) sl).
  { apply Forall_forall. intros [[e ch]|] _; [apply rm_sub_find|exact I]. }
  pose proof (go_link nm sl 0 F) as L. rewrite H in L. destruct L as (k & e & ch & A1 & _ & _ & A4). cbn [Nat.add] in A4.
  destruct A4 as [[Et ->]|[Et (q & Eq & ->)]]; (split; [|discriminate]); unfold tip_at; rewrite at_path_cons, A1.
  - cbn [at_path]. apply andb_true_iff in Et. rewrite (proj1 Et). discriminate.
  - pose proof (proj1 (Forall_forall _ sl) IH _ (nth_error_In _ _ A1)) as Hc. cbn beta iota in Hc.
    destruct (Hc q Eq) as [T _]. unfold tip_at in T.
    destruct (at_path (fun s => if is_tip s then Some s else None) q ch); [discriminate|congruence].
Qed.

(** ... named [nm] *)
Definition tipn_at (nm : string) (P : list nat) (t : utree) : Prop :=
  at_path (fun s => if is_tip s && String.eqb (uname s) nm then Some s else None) P t <> None.

Theorem find_sub_atn nm : forall t P, find_sub nm t = Some P -> tipn_at nm P t.
Proof.
  induction t as [n c sl IH] using utree_ind'. intros P H. cbn [find_sub] in H.
  replace (fun ch => find_sub nm ch) with (find_sub nm) in H by reflexivity.
  assert (F : Forall (fun s => match s with Some (_, t) => sub_link nm t | None => True end) sl).
  { apply Forall_forall. intros [[e ch]|] _; [apply rm_sub_find|exact I]. }
  pose proof (go_link nm sl 0 F) as L. rewrite H in L. destruct L as (k & e & ch & A1 & _ & _ & A4). cbn [Nat.add] in A4.
  destruct A4 as [[Et ->]|[Et (q & Eq & ->)]]; unfold tipn_at; rewrite at_path_cons, A1.
  - cbn [at_path]. rewrite Et. discriminate.
  - pose proof (proj1 (Forall_forall _ sl) IH _ (nth_error_In _ _ A1)) as Hc. cbn beta iota in Hc.
    pose proof (Hc q Eq) as T. unfold tipn_at in T.
    destruct (at_path (fun s => if is_tip s && String.eqb (uname s) nm then Some s else None) q ch); [discriminate|congruence].
Qed.
