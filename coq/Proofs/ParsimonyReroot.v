(** The minimum number of changes does not depend on the rooting: every labelling of a tree
    is carried to a labelling of the re-rooted tree (Model.Reroot.rotate_to / reroot) with
    the same cost, and back. *)
From Coq Require Import String ZArith QArith Bool Arith Lia List.
From GT Require Import Base.UTree Spec.Obs Spec.Parsimony Model.Reroot Proofs.ParsimonyHartigan.
Import ListNotations.
Local Close Scope Q_scope.

(** * list surgery *)
Lemma set_nth_nil : forall A k (x : A), set_nth k x [] = [].
Proof. intros. unfold set_nth. destruct k; reflexivity. Qed.
Lemma set_nth_0 : forall A (x a : A) l, set_nth 0 x (a :: l) = x :: l.
Proof. reflexivity. Qed.
Lemma set_nth_S : forall A k (x a : A) l, set_nth (S k) x (a :: l) = a :: set_nth k x l.
Proof. reflexivity. Qed.

Fixpoint lreplace_up (sl : list (option ltree)) (x : option ltree) : list (option ltree) :=
  match sl with
  | [] => []
  | None :: r => x :: r
  | s :: r => s :: lreplace_up r x
  end.

(** the labelling that follows [rotate_to] *)
Definition lrotate_to (l : ltree) (k : nat) : option ltree :=
  match l with
  | LNode x ll =>
    match nth_error ll k with
    | Some (Some (LNode y ll')) => Some (LNode y (lreplace_up ll' (Some (LNode x (set_nth k None ll)))))
    | _ => None
    end
  end.

Lemma n_up_cons_none : forall sl : list slot, n_up (None :: sl) = S (n_up sl).
Proof. reflexivity. Qed.
Lemma n_up_cons_some : forall p (sl : list slot), n_up (Some p :: sl) = n_up sl.
Proof. reflexivity. Qed.
Lemma n_up_nil : n_up (@nil slot) = 0.
Proof. reflexivity. Qed.
Local Opaque n_up.

Lemma n_up_replace_up : forall sl p, 1 <= n_up sl -> n_up (replace_up sl (Some p)) = n_up sl - 1.
Proof.
  induction sl as [|[q|] sl IH]; intros p H.
  - rewrite n_up_nil in H. lia.
  - simpl. rewrite !n_up_cons_some in *. apply IH. exact H.
  - simpl. rewrite n_up_cons_some, n_up_cons_none. lia.
Qed.

Lemma n_up_set_nth_none : forall (sl : list slot) k p, nth_error sl k = Some (Some p) ->
  n_up (set_nth k None sl) = S (n_up sl).
Proof.
  induction sl as [|s sl IH]; intros k p H.
  - destruct k; discriminate.
  - destruct k.
    + simpl in H. inversion H; subst. rewrite set_nth_0, n_up_cons_none, n_up_cons_some. reflexivity.
    + simpl in H. rewrite set_nth_S. destruct s.
      * rewrite !n_up_cons_some. eapply IH; eauto.
      * rewrite !n_up_cons_none. f_equal. eapply IH; eauto.
Qed.

Lemma forallb_replace_up : forall (f : slot -> bool) sl x, forallb f sl = true -> f x = true ->
  forallb f (replace_up sl x) = true.
Proof.
  induction sl as [|[q|] sl IH]; intros x H Hx; simpl in *; auto.
  - apply andb_prop in H. destruct H as [H1 H2]. rewrite H1. simpl. apply IH; auto.
  - rewrite Hx. simpl. apply andb_prop in H. apply H.
Qed.

Lemma forallb_set_nth : forall A (f : A -> bool) l k x, forallb f l = true -> f x = true ->
  forallb f (set_nth k x l) = true.
Proof.
  induction l as [|a l IH]; intros k x H Hx.
  - rewrite set_nth_nil. reflexivity.
  - simpl in H. apply andb_prop in H. destruct H as [H1 H2]. destruct k.
    + rewrite set_nth_0. simpl. rewrite Hx. exact H2.
    + rewrite set_nth_S. simpl. rewrite H1. apply IH; auto.
Qed.

Lemma forallb_nth : forall A (f : A -> bool) l k a, forallb f l = true -> nth_error l k = Some a -> f a = true.
Proof.
  intros A f l k a H Hn. rewrite forallb_forall in H. apply H. eapply nth_error_In; eauto.
Qed.

(** * [rotate_to] keeps well-formedness *)
Definition wfs (s : slot) : bool := match s with Some (_, c) => wf_sub c | None => true end.

Lemma wf_unfold : forall n c sl, wf (UNode n c sl) = Nat.eqb (n_up sl) 0 && forallb wfs sl.
Proof. reflexivity. Qed.
Lemma wf_sub_unfold : forall n c sl, wf_sub (UNode n c sl) = Nat.eqb (n_up sl) 1 && forallb wfs sl.
Proof. reflexivity. Qed.

Lemma rotate_to_wf : forall t k t', wf t = true -> rotate_to t k = Some t' -> wf t' = true.
Proof.
  intros [n c sl] k t' Hwf Hr. unfold rotate_to in Hr.
  destruct (nth_error sl k) as [[[e [n' c' sl']]|]|] eqn:E; try discriminate.
  inversion Hr; subst; clear Hr.
  rewrite wf_unfold in *. apply andb_prop in Hwf. destruct Hwf as [Hu Hf].
  apply Nat.eqb_eq in Hu.
  assert (Hch : wf_sub (UNode n' c' sl') = true) by (apply (forallb_nth _ wfs sl k _ Hf E)).
  rewrite wf_sub_unfold in Hch. apply andb_prop in Hch. destruct Hch as [Hu' Hf'].
  apply Nat.eqb_eq in Hu'.
  apply andb_true_intro. split.
  - apply Nat.eqb_eq. rewrite n_up_replace_up; lia.
  - apply forallb_replace_up; [exact Hf'|].
    unfold wfs. rewrite wf_sub_unfold. apply andb_true_intro. split.
    + apply Nat.eqb_eq. erewrite n_up_set_nth_none by eauto. lia.
    + apply forallb_set_nth; auto.
Qed.

(** * rotating back *)
Fixpoint first_up (sl : list slot) : nat :=
  match sl with
  | [] => 0
  | None :: _ => 0
  | _ :: r => S (first_up r)
  end.

Lemma nth_replace_up_first : forall sl x, 1 <= n_up sl -> nth_error (replace_up sl x) (first_up sl) = Some x.
Proof.
  induction sl as [|[q|] sl IH]; intros x H.
  - rewrite n_up_nil in H. lia.
  - simpl. apply IH. rewrite n_up_cons_some in H. exact H.
  - reflexivity.
Qed.

Lemma set_nth_replace_up_first : forall sl x, set_nth (first_up sl) None (replace_up sl x) = sl.
Proof.
  induction sl as [|[q|] sl IH]; intros x.
  - reflexivity.
  - simpl. rewrite set_nth_S. f_equal. apply IH.
  - reflexivity.
Qed.

Lemma replace_up_set_nth_none : forall (sl : list slot) k p x, n_up sl = 0 -> nth_error sl k = Some (Some p) ->
  replace_up (set_nth k None sl) x = set_nth k x sl.
Proof.
  induction sl as [|s sl IH]; intros k p x Hu Hn.
  - destruct k; discriminate.
  - destruct s as [q|]; [|rewrite n_up_cons_none in Hu; discriminate].
    rewrite n_up_cons_some in Hu. destruct k.
    + reflexivity.
    + simpl in Hn. rewrite !set_nth_S. simpl. f_equal. eapply IH; eauto.
Qed.

Lemma set_nth_same : forall A (l : list A) k a, nth_error l k = Some a -> set_nth k a l = l.
Proof.
  induction l as [|b l IH]; intros k a H.
  - destruct k; discriminate.
  - destruct k.
    + simpl in H. inversion H. reflexivity.
    + simpl in H. rewrite set_nth_S. f_equal. apply IH. exact H.
Qed.

Lemma rotate_back : forall t k t', wf t = true -> rotate_to t k = Some t' ->
  exists j, rotate_to t' j = Some t.
Proof.
  intros [n c sl] k t' Hwf Hr. unfold rotate_to in Hr.
  destruct (nth_error sl k) as [[[e [n' c' sl']]|]|] eqn:E; try discriminate.
  inversion Hr; subst; clear Hr.
  rewrite wf_unfold in Hwf. apply andb_prop in Hwf. destruct Hwf as [Hu Hf].
  apply Nat.eqb_eq in Hu.
  assert (Hch : wf_sub (UNode n' c' sl') = true) by (apply (forallb_nth _ wfs sl k _ Hf E)).
  rewrite wf_sub_unfold in Hch. apply andb_prop in Hch. destruct Hch as [Hu' _].
  apply Nat.eqb_eq in Hu'.
  exists (first_up sl'). unfold rotate_to.
  rewrite nth_replace_up_first by lia.
  rewrite set_nth_replace_up_first.
  erewrite replace_up_set_nth_none; eauto.
  rewrite set_nth_same; auto.
Qed.

(** * the cost is carried over *)
Section Cost.
Variable ts : string -> list nat.

Lemma cost_slots_set_nth : forall sl ll k x e ch lch,
  nth_error sl k = Some (Some (e, ch)) -> nth_error ll k = Some (Some lch) ->
  cost_slots ts (cost ts) x sl ll =
  cost_slots ts (cost ts) x (set_nth k None sl) (set_nth k None ll) + branch_cost ts (cost ts) x ch lch.
Proof.
  induction sl as [|s sl IH]; intros ll k x e ch lch Hs Hl.
  - destruct k; discriminate.
  - destruct ll as [|m ll]; [destruct k; discriminate|].
    destruct k.
    + simpl in Hs, Hl. inversion Hs; inversion Hl; subst. rewrite !set_nth_0. simpl. lia.
    + simpl in Hs, Hl. rewrite !set_nth_S. specialize (IH ll k x e ch lch Hs Hl).
      destruct s as [[e1 c1]|]; destruct m as [m1|]; simpl; lia.
Qed.

Lemma shape_slots_set_nth : forall sl ll k,
  shape_slots shape_ok sl ll = true -> shape_slots shape_ok (set_nth k None sl) (set_nth k None ll) = true.
Proof.
  induction sl as [|s sl IH]; intros ll k H.
  - destruct ll; [|discriminate]. rewrite !set_nth_nil. reflexivity.
  - destruct ll as [|m ll]; [destruct s as [[? ?]|]; discriminate|].
    destruct k.
    + rewrite !set_nth_0. destruct s as [[e1 c1]|]; destruct m as [m1|]; simpl in *; try discriminate; auto.
      apply andb_prop in H. apply H.
    + rewrite !set_nth_S. destruct s as [[e1 c1]|]; destruct m as [m1|]; simpl in *; try discriminate.
      * apply andb_prop in H. destruct H as [H1 H2]. rewrite H1. simpl. apply IH. exact H2.
      * apply IH. exact H.
Qed.

Lemma shape_slots_nth : forall sl ll k e ch, shape_slots shape_ok sl ll = true ->
  nth_error sl k = Some (Some (e, ch)) ->
  exists lch, nth_error ll k = Some (Some lch) /\ shape_ok ch lch = true.
Proof.
  induction sl as [|s sl IH]; intros ll k e ch H Hn.
  - destruct k; discriminate.
  - destruct ll as [|m ll]; [destruct s as [[? ?]|]; discriminate|].
    destruct k.
    + simpl in Hn. inversion Hn; subst. destruct m as [m1|]; simpl in H; try discriminate.
      apply andb_prop in H. exists m1. split; [reflexivity | apply H].
    + simpl in Hn. destruct s as [[e1 c1]|]; destruct m as [m1|]; simpl in H; try discriminate.
      * apply andb_prop in H. destruct H as [_ H]. apply (IH ll k e ch H Hn).
      * apply (IH ll k e ch H Hn).
Qed.

Lemma cost_slots_replace_up : forall sl ll y e t0 l0,
  shape_slots shape_ok sl ll = true -> 1 <= n_up sl ->
  cost_slots ts (cost ts) y (replace_up sl (Some (e, t0))) (lreplace_up ll (Some l0)) =
  cost_slots ts (cost ts) y sl ll + branch_cost ts (cost ts) y t0 l0.
Proof.
  induction sl as [|s sl IH]; intros ll y e t0 l0 H Hu.
  - rewrite n_up_nil in Hu. lia.
  - destruct ll as [|m ll]; [destruct s as [[? ?]|]; discriminate|].
    destruct s as [[e1 c1]|]; destruct m as [m1|]; simpl in H; try discriminate.
    + apply andb_prop in H. destruct H as [_ H]. rewrite n_up_cons_some in Hu.
      simpl. rewrite (IH ll y e t0 l0 H Hu). lia.
    + simpl. lia.
Qed.

Lemma shape_slots_replace_up : forall sl ll e t0 l0,
  shape_slots shape_ok sl ll = true -> shape_ok t0 l0 = true ->
  shape_slots shape_ok (replace_up sl (Some (e, t0))) (lreplace_up ll (Some l0)) = true.
Proof.
  induction sl as [|s sl IH]; intros ll e t0 l0 H H0.
  - destruct ll; [reflexivity | discriminate].
  - destruct ll as [|m ll]; [destruct s as [[? ?]|]; discriminate|].
    destruct s as [[e1 c1]|]; destruct m as [m1|]; simpl in H; try discriminate.
    + apply andb_prop in H. destruct H as [H1 H2]. simpl. rewrite H1. simpl. apply IH; auto.
    + simpl. rewrite H0. simpl. exact H.
Qed.

Lemma kids_set_nth_nonempty : forall (sl : list slot) k p, n_up sl = 0 -> 2 <= length sl ->
  nth_error sl k = Some (Some p) -> kids_of (set_nth k None sl) <> [].
Proof.
  intros sl k p Hu Hl Hn.
  pose proof (length_up_kids (set_nth k None sl)) as L.
  erewrite n_up_set_nth_none in L by eauto.
  assert (length (set_nth k None sl) = length sl).
  { clear -Hn. revert k Hn. induction sl as [|a sl IH]; intros k Hn.
    - destruct k; discriminate.
    - destruct k; [reflexivity|]. rewrite set_nth_S. simpl. f_equal. apply IH. exact Hn. }
  intro Q. rewrite Q in L. simpl in L. lia.
Qed.

(** one rotation: a labelling of [t] becomes a labelling of [rotate_to t k] of the same cost *)
Lemma rotate_cost : forall t k t' l,
  wf t = true -> 2 <= degree t -> rotate_to t k = Some t' -> 2 <= degree t' ->
  shape_ok t l = true ->
  exists l', shape_ok t' l' = true /\ cost ts t' l' = cost ts t l.
Proof.
  intros [n c sl] k t' [x ll] Hwf Hdeg Hr Hdeg' Hs. unfold rotate_to in Hr.
  destruct (nth_error sl k) as [[[e [n' c' sl']]|]|] eqn:E; try discriminate.
  inversion Hr; subst; clear Hr.
  rewrite wf_unfold in Hwf. apply andb_prop in Hwf. destruct Hwf as [Hu Hf].
  apply Nat.eqb_eq in Hu.
  assert (Hch : wf_sub (UNode n' c' sl') = true) by (apply (forallb_nth _ wfs sl k _ Hf E)).
  pose proof (wf_sub_tip_leaf _ _ _ Hch) as Htl.
  rewrite wf_sub_unfold in Hch. apply andb_prop in Hch. destruct Hch as [Hu' _].
  apply Nat.eqb_eq in Hu'.
  rewrite shape_ok_unfold in Hs.
  destruct (shape_slots_nth sl ll k e _ Hs E) as [[y ll'] [El Hsc]].
  rewrite shape_ok_unfold in Hsc.
  unfold degree in Hdeg, Hdeg'. simpl in Hdeg, Hdeg'.
  assert (Hlen' : length (replace_up sl' (Some (e, UNode n c (set_nth k None sl)))) = length sl').
  { clear. induction sl' as [|[q|] r IH]; simpl; auto. }
  rewrite Hlen' in Hdeg'.
  assert (Hleafc : is_leaf (UNode n' c' sl') = false).
  { rewrite <- Htl. apply Nat.eqb_neq. lia. }
  set (t0 := UNode n c (set_nth k None sl)).
  set (l0 := LNode x (set_nth k None ll)).
  assert (Hleaf0 : is_leaf t0 = false).
  { unfold is_leaf, kids, t0. simpl.
    pose proof (kids_set_nth_nonempty sl k _ Hu Hdeg E).
    destruct (kids_of (set_nth k None sl)); congruence. }
  exists (LNode y (lreplace_up ll' (Some l0))). split.
  - rewrite shape_ok_unfold. apply shape_slots_replace_up; [exact Hsc|].
    unfold t0, l0. rewrite shape_ok_unfold. apply shape_slots_set_nth. exact Hs.
  - rewrite !cost_unfold.
    rewrite cost_slots_replace_up by (auto; lia).
    rewrite (cost_slots_set_nth sl ll k x e _ _ E El).
    assert (B1 : branch_cost ts (cost ts) y t0 l0 =
                 (if Nat.eqb y x then 0 else 1)
                 + cost_slots ts (cost ts) x (set_nth k None sl) (set_nth k None ll)).
    { unfold branch_cost. rewrite Hleaf0. reflexivity. }
    assert (B2 : branch_cost ts (cost ts) x (UNode n' c' sl') (LNode y ll') =
                 (if Nat.eqb x y then 0 else 1) + cost_slots ts (cost ts) y sl' ll').
    { unfold branch_cost. rewrite Hleafc. reflexivity. }
    rewrite B1, B2, (Nat.eqb_sym y x). lia.
Qed.

Lemma rotate_mincost : forall t k t' m,
  wf t = true -> 2 <= degree t -> rotate_to t k = Some t' -> 2 <= degree t' ->
  is_mincost ts t m -> is_mincost ts t' m.
Proof.
  intros t k t' m Hwf Hd Hr Hd' [[l [Hs Hc]] Hmin].
  split.
  - destruct (rotate_cost t k t' l Hwf Hd Hr Hd' Hs) as [l' [Hs' Hc']].
    exists l'. split; [exact Hs' | congruence].
  - intros l' Hs'.
    destruct (rotate_back t k t' Hwf Hr) as [j Hj].
    pose proof (rotate_to_wf t k t' Hwf Hr) as Hwf'.
    destruct (rotate_cost t' j t l' Hwf' Hd' Hj Hd Hs') as [l2 [Hs2 Hc2]].
    rewrite <- Hc2. apply Hmin. exact Hs2.
Qed.

Lemma nth_replace_up_some : forall sl x k p, nth_error sl k = Some (Some p) ->
  nth_error (replace_up sl x) k = Some (Some p).
Proof.
  induction sl as [|[q|] sl IH]; intros x k p H.
  - destruct k; discriminate.
  - destruct k; simpl in *; auto.
  - destruct k; simpl in *; [discriminate | exact H].
Qed.

Lemma replace_up_length : forall sl x, length (replace_up sl x) = length sl.
Proof. induction sl as [|[q|] r IH]; simpl; auto. Qed.

(** along a path: every node on it (the last one included) has at least two neighbours *)
Fixpoint path_ok (t : utree) (p : list nat) : Prop :=
  match p with
  | [] => 2 <= degree t
  | k :: r => match nth_error (uslots t) k with
              | Some (Some (_, c)) => path_ok c r
              | _ => False
              end
  end.

Lemma node_at_path_ok : forall p t n, node_at t p = Some n -> 2 <= degree n -> path_ok t p.
Proof.
  induction p as [|k r IH]; intros t n Hn Hd; simpl in *.
  - inversion Hn; subst. exact Hd.
  - destruct (nth_error (uslots t) k) as [[[e c]|]|]; try discriminate.
    eapply IH; eauto.
Qed.

Lemma kids_of_nth : forall (sl : list slot) k p, nth_error sl k = Some (Some p) -> 1 <= length (kids_of sl).
Proof.
  induction sl as [|s sl IH]; intros k p H.
  - destruct k; discriminate.
  - destruct k; simpl in H.
    + inversion H; subst. simpl. lia.
    + specialize (IH k p H). destruct s; simpl; lia.
Qed.

Lemma path_ok_degree : forall c r, wf_sub c = true -> path_ok c r -> 2 <= degree c.
Proof.
  intros [n cm sl] r Hwf Hp. destruct r as [|k r]; simpl in Hp; [exact Hp|].
  destruct (nth_error sl k) as [[[e c]|]|] eqn:E; try contradiction.
  rewrite wf_sub_unfold in Hwf. apply andb_prop in Hwf. destruct Hwf as [Hu _].
  apply Nat.eqb_eq in Hu.
  unfold degree. simpl. rewrite (length_up_kids sl), Hu.
  pose proof (kids_of_nth sl k _ E). lia.
Qed.

Lemma path_ok_rotated : forall n' c' sl' x r,
  path_ok (UNode n' c' sl') r -> path_ok (UNode n' c' (replace_up sl' x)) r.
Proof.
  intros n' c' sl' x r H. destruct r as [|k r]; simpl in *.
  - unfold degree in *. simpl in *. rewrite replace_up_length. exact H.
  - destruct (nth_error sl' k) as [[[e c]|]|] eqn:E; try contradiction.
    rewrite (nth_replace_up_some sl' x k _ E). exact H.
Qed.

Lemma reroot_path_mincost : forall p t t' m,
  wf t = true -> 2 <= degree t -> path_ok t p ->
  reroot_path t p = Some t' ->
  is_mincost ts t m -> (is_mincost ts t' m /\ wf t' = true /\ 2 <= degree t').
Proof.
  induction p as [|k r IH]; intros t t' m Hwf Hd Hp Hr Hm.
  - simpl in Hr. inversion Hr; subst. auto.
  - simpl in Hr. destruct (rotate_to t k) as [t1|] eqn:E; [|discriminate].
    destruct t as [nm cm sl].
    simpl in Hp.
    pose proof E as E'. unfold rotate_to in E'.
    destruct (nth_error sl k) as [[[e [n' c' sl']]|]|] eqn:Ek; try discriminate.
    inversion E'; subst t1; clear E'.
    pose proof Hwf as Hwf0.
    rewrite wf_unfold in Hwf0. apply andb_prop in Hwf0. destruct Hwf0 as [_ Hf].
    assert (Hch : wf_sub (UNode n' c' sl') = true) by (apply (forallb_nth _ wfs sl k _ Hf Ek)).
    pose proof (path_ok_degree _ _ Hch Hp) as Hdc.
    set (t1 := UNode n' c' (replace_up sl' (Some (e, UNode nm cm (set_nth k None sl))))) in *.
    assert (Hd1 : 2 <= degree t1).
    { unfold t1, degree in *. simpl in *. rewrite replace_up_length. exact Hdc. }
    apply (IH t1 t' m).
    + eapply rotate_to_wf; eauto.
    + exact Hd1.
    + apply path_ok_rotated. exact Hp.
    + exact Hr.
    + eapply rotate_mincost; eauto.
Qed.

(** Tree.Reroot: the minimum does not depend on the rooting *)
Theorem reroot_mincost : forall t i t' m,
  wf t = true -> degree t <> 1 -> reroot t i = Ok t' ->
  is_mincost ts t m -> (is_mincost ts t' m /\ wf t' = true /\ 2 <= degree t').
Proof.
  intros t i t' m Hwf Hd Hr Hm. unfold reroot in Hr.
  destruct (nth_error (paths t) i) as [p|]; [|discriminate].
  destruct (node_at t p) as [n|] eqn:En; [|discriminate].
  destruct (Nat.ltb (degree n) 2) eqn:Ed; [discriminate|].
  apply Nat.ltb_ge in Ed.
  destruct (reroot_path t p) as [t1|] eqn:Ep; [|discriminate].
  inversion Hr; subst t1.
  pose proof (node_at_path_ok p t n En Ed) as Hp.
  destruct p as [|k r].
  - simpl in Ep. inversion Ep; subst. simpl in En. inversion En; subst. auto.
  - assert (2 <= degree t).
    { destruct t as [nm cm sl]. simpl in Hp.
      destruct (nth_error sl k) as [[[e c]|]|] eqn:E; try contradiction.
      rewrite wf_unfold in Hwf. apply andb_prop in Hwf. destruct Hwf as [Hu _].
      apply Nat.eqb_eq in Hu. unfold degree in *. simpl in *.
      pose proof (length_up_kids sl). pose proof (kids_of_nth sl k _ E). lia. }
    eapply reroot_path_mincost; eauto.
Qed.

End Cost.
