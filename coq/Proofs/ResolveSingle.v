(** C07, resolve on trees that may contain single-child inner nodes, continued: the invariant of
    Proofs/ResolveSingleBase.v along Resolve's recursion, and the count of single-child nodes. *)
From Coq Require Import String ZArith QArith Bool Arith Lia List Permutation Setoid Morphisms.
From GT Require Import Base.UTree Spec.Obs Spec.Contract Model.Reroot Model.Rand Spec.Unrooted Proofs.RerootBase Proofs.PruneBase
     Model.Prune Model.Collapse Proofs.PruneStep Proofs.PruneSub Proofs.PruneRoot Proofs.CollapseBase
     Proofs.CollapseDist Proofs.CollapseResolveBase Proofs.CollapseResolve Proofs.OracleSets Proofs.ResolveSingleBase.
Import ListNotations.
Local Close Scope Q_scope.
Local Arguments n_up : simpl never.
Local Arguments leaves : simpl never.
Local Arguments wf_sub : simpl never.
Local Arguments reparent : simpl never.

Section Inv.
  Variable A : list string.

  Definition sub2 (c c' : utree) : Prop :=
    NoDup (leaves c) -> incl (leaves c) A -> (exists o, In o A /\ ~ In o (leaves c)) ->
    binv A (leaves c) (map view2 (branches c)) (map view2 (branches c')).

  Definition kid2 (p p' : item) : Prop :=
    fst p' = fst p /\ Permutation (leaves (snd p')) (leaves (snd p)) /\ sub2 (snd p) (snd p').

  Lemma kids2_gen (G : vw -> Prop) ks ks' :
    Forall2 (fun p p' : item => fst p' = fst p /\ Permutation (leaves (snd p')) (leaves (snd p)) /\
        exists news, Forall G news /\ veq2 (map view2 (branches (snd p'))) (map view2 (branches (snd p)) ++ news)) ks ks' ->
    exists news, Forall G news /\ veq2 (bviews ks') (bviews ks ++ news).
  Proof.
    induction 1 as [|[e c] [e' c'] ks ks' [He [HP [nw [H6 H7]]]] _ [news [I4 I5]]].
    - exists []. split; [constructor|]. simpl. reflexivity.
    - simpl in He. subst e'. simpl snd in *. exists (nw ++ news). split; [apply Forall_app; auto|].
      change (bviews ((e, c') :: ks')) with (bview (e, c') ++ bviews ks').
      change (bviews ((e, c) :: ks)) with (bview (e, c) ++ bviews ks).
      unfold bview. simpl snd.
      transitivity ((view2 (e, c) :: map view2 (branches c) ++ nw) ++ (bviews ks ++ news)).
      + apply veq2_app; auto. apply veq2_cons; auto. split; simpl; auto.
      + apply veq2_perm. simpl. constructor. perm.
  Qed.

  Lemma kids2_perm ks ks' : Forall2 kid2 ks ks' -> Permutation (kleaves ks') (kleaves ks).
  Proof.
    induction 1 as [|p p' ks ks' [_ [HP _]] _ IH]; [reflexivity|]. rewrite !kleaves_cons. now apply Permutation_app.
  Qed.

  Lemma kids2_facts ks ks' :
    Forall2 kid2 ks ks' -> NoDup (kleaves ks) -> incl (kleaves ks) A ->
    ((exists o, In o A /\ ~ In o (kleaves ks)) \/ 2 <= length ks) ->
    binv A (kleaves ks) (bviews ks) (bviews ks').
  Proof.
    intros HF Hn Hi Hctx. unfold binv. apply kids2_gen.
    eapply Forall2_impl_in; [|exact HF]. intros [e c] [e' c'] Hx Hy [K1 [K2 K3]].
    split; auto. split; auto. simpl snd in *.
    destruct (in_split _ _ Hx) as [k1 [k2 E]].
    assert (Hc : incl (leaves c) (kleaves ks)) by exact (kid_incl ks (e, c) Hx).
    assert (Nc : NoDup (leaves c)).
    { rewrite E, kleaves_app, kleaves_cons in Hn. apply NoDup_app_remove_l, NoDup_app_remove_r in Hn. exact Hn. }
    assert (Out : exists o, In o A /\ ~ In o (leaves c)).
    { destruct Hctx as [[o [O1 O2]]|Hl]; [exists o; split; auto|].
      rewrite E in Hl, Hn, Hi. rewrite kleaves_app, kleaves_cons in Hn, Hi. simpl snd in *.
      destruct k1 as [|m k1].
      - destruct k2 as [|m k2]; [simpl in Hl; lia|].
        destruct (nonempty_in _ (leaves_nonempty (snd m))) as [x Hx0].
        assert (Hm : In x (kleaves (m :: k2))) by (rewrite kleaves_cons; apply in_or_app; now left).
        change (kleaves [] ++ leaves c ++ kleaves (m :: k2)) with (leaves c ++ kleaves (m :: k2)) in Hn, Hi.
        exists x. split; [apply Hi; apply in_or_app; now right|].
        intros H. exact (nodup_disj _ _ x Hn H Hm).
      - destruct (nonempty_in _ (leaves_nonempty (snd m))) as [x Hx0].
        assert (Hm : In x (kleaves (m :: k1))) by (rewrite kleaves_cons; apply in_or_app; now left).
        exists x. split; [apply Hi, in_or_app; now left|].
        intros H. apply (nodup_disj _ _ x Hn Hm). apply in_or_app. now left. }
    destruct (K3 Nc (fun x Hx0 => Hi x (Hc x Hx0)) Out) as [news [N1 N2]]. exists news. split; auto.
    eapply Forall_impl; [|exact N1]. intros v Hv. eapply lift_kid; eauto.
  Qed.

  Lemma node2 sl sl1 cs :
    n_up sl <= 1 -> n_up sl1 = n_up sl -> length sl1 = length sl ->
    Forall2 kid2 (kids_of sl) (kids_of sl1) ->
    NoDup (kleaves (kids_of sl)) -> incl (kleaves (kids_of sl)) A ->
    ((n_up sl = 1 /\ exists o, In o A /\ ~ In o (kleaves (kids_of sl))) \/ (n_up sl = 0 /\ 2 <= length (kids_of sl))) ->
    binv A (kleaves (kids_of sl)) (bviews (kids_of sl)) (bviews (kids_of (resolve_here sl1 cs))).
  Proof.
    intros Hu Hu1 Hl1 HF Hn Hi Hctx.
    assert (Hctx' : (exists o, In o A /\ ~ In o (kleaves (kids_of sl))) \/ 2 <= length (kids_of sl)) by tauto.
    generalize (kids2_facts _ _ HF Hn Hi Hctx'). intros [news0 [F1 F2]].
    destruct (le_lt_dec (length sl1) 3) as [Hs|Hb].
    { rewrite resolve_here_small by auto. exists news0. auto. }
    destruct (resolve_here_big sl1 cs ltac:(lia) Hb) as [keep [a [rest [E [K1 [K2 [K3 K4]]]]]]].
    rewrite E, kids_of_app. simpl kids_of.
    assert (Hlen : length (kids_of keep) + S (length rest) = length (kids_of sl1)).
    { apply Permutation_length in K3. rewrite app_length in K3. simpl in K3. exact K3. }
    generalize (length_slots sl1). intros LS.
    destruct rest as [|b r']; [exfalso; simpl in Hlen; lia|].
    destruct (caterpillar2 (b :: r') a) as [nw [C1 C2]].
    set (items := kids_of keep ++ a :: b :: r') in *.
    assert (PL : Permutation (kleaves items) (kleaves (kids_of sl))).
    { rewrite (kleaves_perm _ _ K3). now apply kids2_perm. }
    assert (Nit : NoDup (kleaves items)) by (eapply Permutation_NoDup; [symmetry; exact PL|exact Hn]).
    exists (news0 ++ nw). split.
    - apply Forall_app. split; auto. apply Forall_forall. intros v Hv. rewrite Forall_forall in C2.
      destruct (C2 v Hv) as [V1 [b0 [r0 [Eq [V2 V3]]]]]. injection Eq as <- <-.
      apply (cat_gnew A (kids_of keep) a b r'); auto.
      + intros x. split; intros H; [eapply Permutation_in; [symmetry; exact PL|exact H]|eapply Permutation_in; [exact PL|exact H]].
      + intros p Hp. destruct (bviews_kid _ p Hp) as [k [Hk Hsub]].
        destruct (Forall2_in_l _ _ _ k HF Hk) as [k' [Hk' [_ [HP _]]]].
        exists k'. split; [eapply Permutation_in; [symmetry; exact K3|exact Hk']|].
        intros x Hx. eapply Permutation_in; [symmetry; exact HP|]. now apply Hsub.
      + intros H0. rewrite H0 in K2. change (length (@nil item)) with 0 in K2. lia.
      + intros P k' Hk' HP.
        assert (HPU : forall x, In x P -> In x (kleaves items)) by (intros x Hx; apply (kid_incl items k' Hk'), HP, Hx).
        destruct Hctx as [[U1 [o [O1 O2]]]|[U0 _]].
        * exists o. split; auto. split.
          -- intros H. apply O2. eapply Permutation_in; [exact PL|]. unfold items. rewrite kleaves_app, kleaves_cons.
             apply in_or_app. now right.
          -- intros H. apply O2. eapply Permutation_in; [exact PL|]. now apply HPU.
        * destruct (kids_of keep) as [|m1 [|m2 kr]] eqn:EK; try (exfalso; cbn [length] in K2; lia).
          unfold items in *. clear items.
          destruct (nonempty_in _ (leaves_nonempty (snd m1))) as [x1 Hx1].
          destruct (nonempty_in _ (leaves_nonempty (snd m2))) as [x2 Hx2].
          assert (Nit' := Nit). simpl app in Nit'. rewrite !kleaves_cons in Nit'.
          assert (D1 : ~ In x1 (leaves (snd m2) ++ kleaves kr ++ leaves (snd a) ++ kleaves (b :: r'))).
          { intros H. apply (nodup_disj _ _ x1 Nit' Hx1). rewrite kleaves_app, kleaves_cons. exact H. }
          assert (A1 : In x1 A).
          { apply Hi. eapply Permutation_in; [exact PL|]. simpl app. rewrite kleaves_cons. apply in_or_app. now left. }
          assert (A2 : In x2 A).
          { apply Hi. eapply Permutation_in; [exact PL|]. simpl app. rewrite !kleaves_cons. apply in_or_app. right. apply in_or_app. now left. }
          simpl in Hk'. destruct Hk' as [<-|Hk'].
          -- exists x2. split; auto.
             assert (N2 := NoDup_app_remove_l _ _ Nit'). split.
             ++ intros H. apply (nodup_disj _ _ x2 N2 Hx2). rewrite kleaves_app, kleaves_cons. apply in_or_app. right.
                rewrite kleaves_cons in H. exact H.
             ++ intros H. apply HP in H. apply (nodup_disj _ _ x2 Nit' H). apply in_or_app. now left.
          -- exists x1. split; auto. split.
             ++ intros H. apply D1. apply in_or_app. right. apply in_or_app. right. exact H.
             ++ intros H. apply HP in H. apply D1.
                assert (Hin : In x1 (kleaves (m2 :: kr ++ a :: b :: r'))) by exact (kid_incl (m2 :: kr ++ a :: b :: r') k' Hk' _ H).
                rewrite kleaves_cons, kleaves_app, kleaves_cons in Hin. exact Hin.
    - rewrite bviews_app. unfold bviews at 2. simpl flat_map. rewrite app_nil_r.
      transitivity ((bviews (kids_of keep) ++ bviews (a :: b :: r')) ++ nw).
      { apply veq2_perm. rewrite C1. perm. }
      rewrite <- bviews_app.
      transitivity ((bviews (kids_of sl) ++ news0) ++ nw).
      { apply veq2_app; [|reflexivity]. etransitivity; [apply veq2_perm, bviews_perm, K3|exact F2]. }
      apply veq2_perm. perm.
  Qed.

  (** ** the recursion *)
  Lemma rgo_kids2 sl :
    Forall (fun s : slot => match s with Some (_, c) => forall cs, wf_sub c = true -> sub2 c (resolve c cs) | None => True end) sl ->
    forallb (fun p => wf_sub (snd p)) (kids_of sl) = true ->
    forall cs, Forall2 kid2 (kids_of sl) (kids_of (rgo sl cs)).
  Proof.
    induction sl as [|[[e ch]|] r IHr]; intros IH Hw cs; simpl; [constructor| |].
    - inversion IH as [|? ? Hc Hr]; subst. simpl in Hw. apply andb_true_iff in Hw. destruct Hw as [Hw1 Hw2].
      constructor; [|apply IHr; auto]. split; [reflexivity|]. simpl snd. split; [|now apply Hc].
      apply (resolve_sub ch _ Hw1).
    - inversion IH; subst. apply IHr; auto.
  Qed.

  Lemma resolve_sub2 : forall t cs, wf_sub t = true -> sub2 t (resolve t cs).
  Proof.
    induction t as [n c sl IH] using utree_ind'. intros cs Hw Hn Hi Hout.
    rewrite resolve_eq. rewrite wf_sub_unfold in Hw. apply andb_true_iff in Hw. destruct Hw as [Hu Hwk].
    apply Nat.eqb_eq in Hu. destruct (rgo_shape sl cs) as [S1 S2].
    rewrite !branches_unfold, !brs_bviews.
    generalize (rgo_kids2 sl IH Hwk cs). intros HF.
    rewrite leaves_unfold in *. destruct (kids_of sl) as [|k0 kr] eqn:E.
    - assert (E' : kids_of (rgo sl cs) = []) by (inversion HF; auto). generalize (length_slots sl). rewrite E, Hu. simpl. intros LS.
      rewrite resolve_here_small by lia. rewrite E'. exists []. split; [constructor|reflexivity].
    - rewrite <- E in *. apply node2; auto; try lia.
  Qed.

  Lemma resolve_root2 t cs :
    wf t = true -> NoDup (leaves t) -> 2 <= degree t -> incl (leaves t) A ->
    binv A (leaves t) (map view2 (branches t)) (map view2 (branches (resolve t cs))).
  Proof.
    destruct t as [n c sl]. intros Hw Hn Hd Hi.
    rewrite resolve_eq. rewrite wf_unfold in Hw. apply andb_true_iff in Hw. destruct Hw as [Hu Hwk].
    apply Nat.eqb_eq in Hu. destruct (rgo_shape sl cs) as [S1 S2].
    rewrite !branches_unfold, !brs_bviews.
    assert (IH : Forall (fun s : slot => match s with Some (_, c) => forall cs, wf_sub c = true -> sub2 c (resolve c cs) | None => True end) sl).
    { apply Forall_forall. intros [[e ch]|] _; auto. intros. now apply resolve_sub2. }
    generalize (rgo_kids2 sl IH Hwk cs). intros HF.
    unfold degree in Hd. simpl uslots in Hd. generalize (length_slots sl). rewrite Hu. intros LS.
    rewrite leaves_unfold in *. destruct (kids_of sl) as [|k0 kr] eqn:E; [simpl in LS; lia|].
    rewrite <- E in *. apply node2; auto; try lia.
  Qed.
End Inv.

(** * the single-child inner nodes *)
Definition csum (ks : list item) : nat := fold_right (fun p acc => count_single_sub (snd p) + acc) 0 ks.

Lemma count_single_sub_unfold n c sl :
  count_single_sub (UNode n c sl) = (if Nat.eqb (length sl) 2 then 1 else 0) + csum (kids_of sl).
Proof.
  simpl. f_equal. induction sl as [|[[e ch]|] r IH]; simpl; auto.
Qed.

Lemma count_single_unfold n c sl : count_single (UNode n c sl) = csum (kids_of sl).
Proof. reflexivity. Qed.

Lemma csum_app a b : csum (a ++ b) = csum a + csum b.
Proof. induction a as [|x a IH]; simpl; auto. rewrite IH. lia. Qed.

Lemma csum_perm a b : Permutation a b -> csum a = csum b.
Proof. induction 1; simpl; lia. Qed.

Lemma drop_up_kids sl : kids_of (drop_up sl) = kids_of sl.
Proof. induction sl as [|[x|] r IH]; simpl; auto. now rewrite IH. Qed.

Lemma reparent_count c : wf_sub c = true -> count_single_sub (reparent c) = count_single_sub c.
Proof.
  intros H. generalize (reparent_degree c H). destruct c as [n cm sl]. unfold reparent, degree. simpl uslots. intros HL.
  rewrite !count_single_sub_unfold, HL, kids_of_app, drop_up_kids. simpl kids_of. now rewrite app_nil_r.
Qed.

Definition witem (x : item) : Prop := wf_sub (snd x) = true.

Lemma join2_witem a b : witem a -> witem b -> witem (join2 a b).
Proof.
  intros Ha Hb. unfold witem, join2, regroup in *. simpl snd. rewrite wf_sub_unfold. simpl.
  rewrite !reparent_wf_sub by auto. reflexivity.
Qed.

Lemma join2_count a b :
  witem a -> witem b -> count_single_sub (snd (join2 a b)) = count_single_sub (snd a) + count_single_sub (snd b).
Proof.
  intros Ha Hb. unfold join2, regroup. simpl snd. rewrite count_single_sub_unfold. simpl.
  rewrite !reparent_count by auto. lia.
Qed.

Lemma caterpillar_count rest : forall a,
  witem a -> Forall witem rest -> count_single_sub (snd (fold_left join2 rest a)) = csum (a :: rest).
Proof.
  induction rest as [|b rest IH]; intros a Ha Hr; simpl; [lia|].
  inversion Hr; subst. rewrite IH; auto using join2_witem. unfold csum. cbn [fold_right]. rewrite join2_count by auto. lia.
Qed.

Lemma resolve_here_count sl cs :
  n_up sl <= 1 -> Forall witem (kids_of sl) ->
  csum (kids_of (resolve_here sl cs)) = csum (kids_of sl) /\
  Nat.eqb (length (resolve_here sl cs)) 2 = Nat.eqb (length sl) 2.
Proof.
  intros Hu HF. destruct (le_lt_dec (length sl) 3) as [Hs|Hb].
  - rewrite resolve_here_small by auto. auto.
  - destruct (resolve_here_big sl cs Hu Hb) as [keep [a [rest [E [K1 [K2 [K3 K4]]]]]]].
    rewrite E. split.
    + assert (Hitems : Forall witem (kids_of keep ++ a :: rest)).
      { eapply Permutation_Forall; [symmetry; exact K3|exact HF]. }
      apply Forall_app in Hitems. destruct Hitems as [Hk Hit]. inversion Hit; subst.
      rewrite <- (csum_perm _ _ K3), kids_of_app, !csum_app. simpl kids_of.
      change (csum [fold_left join2 rest a]) with (count_single_sub (snd (fold_left join2 rest a)) + 0).
      rewrite caterpillar_count by auto. lia.
    + rewrite app_length. simpl length. rewrite (length_slots keep), K1, K2.
      replace (n_up sl + (2 - n_up sl) + 1) with 3 by lia.
      destruct (Nat.eqb_spec (length sl) 2); [lia|reflexivity].
Qed.

Lemma rgo_count sl :
  Forall (fun s : slot => match s with
                          | Some (_, c) => forall cs, wf_sub c = true -> count_single_sub (resolve c cs) = count_single_sub c
                          | None => True end) sl ->
  forallb (fun p => wf_sub (snd p)) (kids_of sl) = true ->
  forall cs, csum (kids_of (rgo sl cs)) = csum (kids_of sl) /\ Forall witem (kids_of (rgo sl cs)).
Proof.
  induction sl as [|[[e ch]|] r IHr]; intros IH Hw cs; simpl; [split; [reflexivity|constructor]| |].
  - inversion IH as [|? ? Hc Hr]; subst. simpl in Hw. apply andb_true_iff in Hw. destruct Hw as [Hw1 Hw2].
    destruct (IHr Hr Hw2 (skipn (length (resolve_bounds ch)) cs)) as [I1 I2]. split.
    + rewrite I1, Hc by auto. reflexivity.
    + constructor; auto. apply (resolve_sub ch _ Hw1).
  - inversion IH; subst. apply IHr; auto.
Qed.

Lemma resolve_count_sub : forall t cs, wf_sub t = true -> count_single_sub (resolve t cs) = count_single_sub t.
Proof.
  induction t as [n c sl IH] using utree_ind'. intros cs Hw.
  rewrite resolve_eq. rewrite wf_sub_unfold in Hw. apply andb_true_iff in Hw. destruct Hw as [Hu Hwk].
  apply Nat.eqb_eq in Hu. destruct (rgo_shape sl cs) as [S1 S2].
  destruct (rgo_count sl IH Hwk cs) as [R1 R2].
  set (cs' := skipn _ cs).
  destruct (resolve_here_count (rgo sl cs) cs' ltac:(lia) R2) as [H1 H2].
  rewrite !count_single_sub_unfold, H1, H2, R1, S2. reflexivity.
Qed.

Theorem resolve_count t cs : wf t = true -> count_single (resolve t cs) = count_single t.
Proof.
  destruct t as [n c sl]. intros Hw.
  rewrite resolve_eq. rewrite wf_unfold in Hw. apply andb_true_iff in Hw. destruct Hw as [Hu Hwk].
  apply Nat.eqb_eq in Hu. destruct (rgo_shape sl cs) as [S1 S2].
  assert (IH : Forall (fun s : slot => match s with
                          | Some (_, c) => forall cs, wf_sub c = true -> count_single_sub (resolve c cs) = count_single_sub c
                          | None => True end) sl).
  { apply Forall_forall. intros [[e ch]|] _; auto. intros. now apply resolve_count_sub. }
  destruct (rgo_count sl IH Hwk cs) as [R1 R2].
  set (cs' := skipn _ cs).
  destruct (resolve_here_count (rgo sl cs) cs' ltac:(lia) R2) as [H1 H2].
  rewrite !count_single_unfold, H1, R1. reflexivity.
Qed.
