(** C15, base: observables of a tree after a local change.
    [obs_eq w k t t']: the depths and the tip-to-tip path sums of [t] and [t'], restricted to
    the tip names selected by [k], are the same multisets (up to Qeq).  It is a congruence
    for the constructor of nodes (children may be permuted), which reduces every local edit
    to what happens at the node where it takes place.  [edited B t t']: [t'] is [t] where one
    node (related to its replacement by [B]) has been replaced, all ancestors keeping their
    slots. *)
From Coq Require Import String ZArith QArith Bool Arith Lia List Permutation Setoid Morphisms.
From GT Require Import Base.UTree Spec.Obs Model.Reroot Spec.Unrooted
     Proofs.RerootBase Proofs.PruneBase.
Import ListNotations.
Local Close Scope Q_scope.
Local Arguments n_up : simpl never.

Lemma kids_of_nonempty_mid sl1 (p : einfo * utree) sl2 : kids_of (sl1 ++ Some p :: sl2) <> [].
Proof. rewrite kids_of_app. simpl. destruct (kids_of sl1); discriminate. Qed.

Lemma fD_none k l : (forall x, In x (map fst l) -> k x = false) -> fD k l = [].
Proof.
  unfold fD. induction l as [|p l IH]; simpl; intros H; auto.
  rewrite (H (fst p)) by auto. apply IH. intros x Hx. apply H. auto.
Qed.

Lemma fP_none k l :
  (forall a b d, In (a, b, d) l -> k a = false \/ k b = false) -> fP k l = [].
Proof.
  unfold fP. induction l as [|[[a b] d] l IH]; simpl; intros H; auto.
  destruct (H a b d (or_introl eq_refl)) as [E|E]; rewrite E; simpl; rewrite ?andb_false_r;
    apply IH; intros; apply (H a0 b0 d0); auto.
Qed.

Section Obs.
  Variable w : einfo -> Q.
  Variable k : string -> bool.

  Definition obs_eq (t t' : utree) : Prop :=
    deq (fD k (depths w t)) (fD k (depths w t')) /\
    dists_equiv (fP k (pairdists w t)) (fP k (pairdists w t')).

  Lemma obs_eq_refl t : obs_eq t t.
  Proof. split; reflexivity. Qed.
  Lemma obs_eq_sym t t' : obs_eq t t' -> obs_eq t' t.
  Proof. intros [H1 H2]. split; now symmetry. Qed.
  Lemma obs_eq_trans t t' t'' : obs_eq t t' -> obs_eq t' t'' -> obs_eq t t''.
  Proof. intros [H1 H2] [H3 H4]. split; etransitivity; eauto. Qed.

  (** children with the same filtered contribution to their parent *)
  Definition kid_eq (p p' : einfo * utree) : Prop :=
    ceq (fC k (contrib_of w p)) (fC k (contrib_of w p')).

  Lemma kid_eq_refl p : kid_eq p p.
  Proof. apply ceq_refl. Qed.

  Lemma Forall2_kid_eq_refl l : Forall2 kid_eq l l.
  Proof. induction l; constructor; auto using kid_eq_refl. Qed.

  Lemma kid_eq_of_obs e e' c c' : (w e == w e')%Q -> obs_eq c c' -> kid_eq (e, c) (e', c').
  Proof.
    intros He [H1 H2]. unfold kid_eq, ceq, fC, contrib_of. simpl. split; auto.
    rewrite !fD_shift. now apply shift_deq.
  Qed.

  Lemma contribs_kid_eq ks ks2 :
    Forall2 kid_eq ks ks2 -> Forall2 ceq (map (fC k) (contribs w ks)) (map (fC k) (contribs w ks2)).
  Proof. induction 1; simpl; constructor; auto. Qed.

  (** the congruence: children related one by one, up to a permutation *)
  Lemma node_obs n c sl n' c' sl' ks2 :
    kids_of sl <> [] -> kids_of sl' <> [] ->
    Permutation (kids_of sl') ks2 -> Forall2 kid_eq (kids_of sl) ks2 ->
    obs_eq (UNode n c sl) (UNode n' c' sl').
  Proof.
    intros H1 H2 P F. unfold obs_eq.
    rewrite !depths_agg, !pairdists_agg, !fD_aggD, !fP_aggP by auto.
    apply contribs_kid_eq in F. split.
    - etransitivity; [apply aggD_ceq, F|]. apply deq_perm. symmetry.
      apply aggD_perm, Permutation_map. unfold contribs. now apply Permutation_map.
    - etransitivity; [apply aggP_ceq, F|]. apply dists_equiv_perm. symmetry.
      apply aggP_perm, Permutation_map. unfold contribs. now apply Permutation_map.
  Qed.

  (** the same with one more child on the right whose contribution is filtered out *)
  Lemma node_obs_drop n c sl n' c' sl' p0 ks2 :
    kids_of sl <> [] -> kids_of sl' <> [] ->
    fC k (contrib_of w p0) = ([], []) ->
    Permutation (kids_of sl') (p0 :: ks2) -> Forall2 kid_eq (kids_of sl) ks2 ->
    obs_eq (UNode n c sl) (UNode n' c' sl').
  Proof.
    intros H1 H2 H0 P F. unfold obs_eq.
    rewrite !depths_agg, !pairdists_agg, !fD_aggD, !fP_aggP by auto.
    apply contribs_kid_eq in F.
    assert (P' : Permutation (map (fC k) (contribs w (kids_of sl')))
                             (([], []) :: map (fC k) (contribs w ks2))).
    { rewrite <- H0. change (fC k (contrib_of w p0) :: map (fC k) (contribs w ks2))
                       with (map (fC k) (contribs w (p0 :: ks2))).
      apply Permutation_map. unfold contribs. now apply Permutation_map. }
    split.
    - etransitivity; [apply aggD_ceq, F|]. apply deq_perm. symmetry.
      rewrite (aggD_perm _ _ P'). now rewrite aggD_nil.
    - etransitivity; [apply aggP_ceq, F|]. apply dists_equiv_perm. symmetry.
      rewrite (aggP_perm _ _ P'). now rewrite aggP_nil.
  Qed.

  (** replacing one child *)
  Lemma obs_below n c sl1 e ch ch' sl2 :
    obs_eq ch ch' ->
    obs_eq (UNode n c (sl1 ++ Some (e, ch) :: sl2)) (UNode n c (sl1 ++ Some (e, ch') :: sl2)).
  Proof.
    intros H. eapply node_obs; try apply kids_of_nonempty_mid; [reflexivity|].
    rewrite !kids_of_app. simpl. apply Forall2_app; [apply Forall2_kid_eq_refl|].
    constructor; [|apply Forall2_kid_eq_refl]. apply kid_eq_of_obs; auto. reflexivity.
  Qed.
End Obs.

(** * one node replaced somewhere in the tree *)
Inductive edited (B : utree -> utree -> Prop) : utree -> utree -> Prop :=
| ed_here t t' : B t t' -> edited B t t'
| ed_below n c sl1 e ch ch' sl2 :
    edited B ch ch' ->
    edited B (UNode n c (sl1 ++ Some (e, ch) :: sl2)) (UNode n c (sl1 ++ Some (e, ch') :: sl2)).

Lemma edited_obs w k (B : utree -> utree -> Prop) t t' :
  (forall a b, B a b -> obs_eq w k a b) -> edited B t t' -> obs_eq w k t t'.
Proof. intros HB. induction 1; auto. now apply obs_below. Qed.

(** leaves: what the edit adds and removes *)
Lemma leaves_mid n c sl1 (e : einfo) ch sl2 :
  leaves (UNode n c (sl1 ++ Some (e, ch) :: sl2)) =
  kleaves (kids_of sl1) ++ leaves ch ++ kleaves (kids_of sl2).
Proof.
  rewrite leaves_unfold. generalize (kids_of_nonempty_mid sl1 (e, ch) sl2).
  destruct (kids_of (sl1 ++ Some (e, ch) :: sl2)) eqn:E; [congruence|]. intros _.
  rewrite <- E, kids_of_app, kleaves_app. reflexivity.
Qed.

Lemma edited_leaves (B : utree -> utree -> Prop) X Y t t' :
  (forall a b, B a b -> Permutation (leaves b ++ X) (leaves a ++ Y)) ->
  edited B t t' -> Permutation (leaves t' ++ X) (leaves t ++ Y).
Proof.
  intros HB. induction 1; auto.
  rewrite !leaves_mid.
  transitivity (kleaves (kids_of sl1) ++ (leaves ch' ++ X) ++ kleaves (kids_of sl2)); [perm|].
  rewrite IHedited. perm.
Qed.

(** well-formedness *)
Lemma wf_sub_mid n c sl1 (e : einfo) ch sl2 :
  wf_sub (UNode n c (sl1 ++ Some (e, ch) :: sl2)) =
  Nat.eqb (n_up sl1 + n_up sl2) 1 && forallb (fun p => wf_sub (snd p)) (kids_of sl1) &&
  wf_sub ch && forallb (fun p => wf_sub (snd p)) (kids_of sl2).
Proof.
  rewrite wf_sub_unfold, n_up_app, n_up_cons, kids_of_app, forallb_app. simpl.
  now rewrite !andb_assoc.
Qed.
Lemma wf_mid n c sl1 (e : einfo) ch sl2 :
  wf (UNode n c (sl1 ++ Some (e, ch) :: sl2)) =
  Nat.eqb (n_up sl1 + n_up sl2) 0 && forallb (fun p => wf_sub (snd p)) (kids_of sl1) &&
  wf_sub ch && forallb (fun p => wf_sub (snd p)) (kids_of sl2).
Proof.
  rewrite wf_unfold, n_up_app, n_up_cons, kids_of_app, forallb_app. simpl.
  now rewrite !andb_assoc.
Qed.

Lemma edited_wf_sub (B : utree -> utree -> Prop) t t' :
  (forall a b, B a b -> wf_sub a = true -> wf_sub b = true) ->
  edited B t t' -> wf_sub t = true -> wf_sub t' = true.
Proof.
  intros HB. induction 1; eauto.
  rewrite !wf_sub_mid. intros H0. repeat (apply andb_true_iff in H0 as [H0 ?]).
  rewrite H0, H1, H3. simpl. rewrite IHedited; auto.
Qed.

Lemma edited_wf (B : utree -> utree -> Prop) t t' :
  (forall a b, B a b -> wf a = true -> wf b = true) ->
  (forall a b, B a b -> wf_sub a = true -> wf_sub b = true) ->
  edited B t t' -> wf t = true -> wf t' = true.
Proof.
  intros HB HB'. destruct 1; eauto.
  rewrite !wf_mid. intros H0. repeat (apply andb_true_iff in H0 as [H0 ?]).
  rewrite H0, H1, H3. simpl. rewrite (edited_wf_sub B ch ch'); auto.
Qed.

Lemma edited_degree (B : utree -> utree -> Prop) t t' :
  (forall a b, B a b -> degree a <= degree b) -> edited B t t' -> degree t <= degree t'.
Proof.
  intros HB. destruct 1; eauto. unfold degree. simpl. rewrite !app_length. simpl. lia.
Qed.
