(** C08, CommonEdges after the documented three-call preparation (UpdateTipIndex; ClearBitSets;
    UpdateBitSet): the partial hash codes of every branch are then zero (ClearBitSets zeroes them,
    nothing recomputes them) instead of those computed by ReinitIndexes.  For good trees on the same
    taxa the linear search of FindEdge answers the same in both preparations: the hash test only
    ever separates branches that EqualOrComplement separates too. *)
From Coq Require Import String NArith ZArith QArith Bool Arith Lia List Permutation.
From GT Require Import Base.UTree Spec.Obs Spec.CompareSpec Model.Reroot Model.Index Model.EdgeIndex Model.Compare
     Proofs.IndexBase Proofs.IndexTree Proofs.IndexSplit Proofs.CompareBase Proofs.CompareTree Proofs.CompareMain Proofs.CompareCommon.
Import ListNotations.
Local Close Scope Q_scope.
Local Arguments leaves : simpl never.

(** the row of a branch after the three calls: bitset and tip counts as usual, hash codes zero *)
Definition zero_hash (r : erow) : erow := mkRow (r_bits r) (r_nright r) (r_nleft r) 0%N 0%N (r_tip r).

Lemma hash_code_zero r : hash_code (zero_hash r) = 0%N.
Proof. unfold hash_code, hash_code_of, zero_hash. simpl. destruct (Nat.eqb _ _); [reflexivity|]. destruct (Nat.ltb _ _); reflexivity. Qed.

Lemma find_edge_in_zero e l :
  (forall e2, In e2 l -> equal_or_complement (r_bits e) (r_bits e2) = true -> hash_code e = hash_code e2) ->
  find_edge_in (zero_hash e) (map zero_hash l) = find_edge_in e l.
Proof.
  induction l as [|e2 l IH]; intros H; [reflexivity|].
  simpl. rewrite !hash_code_zero, N.eqb_refl. simpl negb.
  assert (IHl : find_edge_in (zero_hash e) (map zero_hash l) = find_edge_in e l) by (apply IH; intros; apply H; auto; now right).
  destruct (Bool.eqb (r_tip e) (r_tip e2)); simpl; auto.
  destruct (equal_or_complement (r_bits e) (r_bits e2)) eqn:E.
  - rewrite (H e2 (or_introl eq_refl) E), N.eqb_refl. reflexivity.
  - destruct (N.eqb (hash_code e) (hash_code e2)); auto.
Qed.

Lemma find_edge_zero e l :
  (forall e2, In e2 l -> equal_or_complement (r_bits e) (r_bits e2) = true -> hash_code e = hash_code e2) ->
  find_edge (zero_hash e) (map zero_hash l) = find_edge e l.
Proof. intros H. unfold find_edge. simpl r_bits. now rewrite find_edge_in_zero. Qed.

Lemma common_loop_zero te rows2 : forall rows1 a c,
    (forall e e2, In e rows1 -> In e2 rows2 -> equal_or_complement (r_bits e) (r_bits e2) = true -> hash_code e = hash_code e2) ->
    common_edges_loop te (map zero_hash rows1) (map zero_hash rows2) a c = common_edges_loop te rows1 rows2 a c.
Proof.
  induction rows1 as [|e r IH]; intros a c H; [reflexivity|].
  simpl. rewrite (find_edge_zero e rows2) by (intros; apply (H e e2); auto; now left).
  destruct (te || negb (r_tip e)).
  - destruct (find_edge e rows2); auto. apply IH. intros. apply (H e0 e2); auto. now right.
  - apply IH. intros. apply (H e0 e2); auto. now right.
Qed.

(** the loop of CommonEdges gives the same counts after the three-call preparation as after
    ReinitIndexes, hence (|S1 \ S2|, |S1 /\ S2|) on the domain ([common_edges_counts]) *)
Theorem common_edges_three_call te t1 t2 :
  good t1 -> good t2 -> Permutation (leaves t1) (leaves t2) ->
  common_edges_loop te (map zero_hash (rows t1)) (map zero_hash (rows t2)) 0%Z 0%Z =
  common_edges_loop te (rows t1) (rows t2) 0%Z 0%Z.
Proof.
  intros G1 G2 P. apply common_loop_zero. intros e e2 He He2 E.
  assert (B1 : exists ec, branch_row t1 ec e).
  { apply In_nth_error in He. destruct He as (i & Hi).
    assert (L := rows_length t1 G1).
    destruct (nth_error (edges t1) i) as [ec|] eqn:Ec.
    - exists ec. unfold branch_row. clear - Hi Ec. revert i Hi Ec. generalize (edges t1) (rows t1).
      induction l as [|x l IHl]; intros l0 i Hi Ec; destruct i, l0; simpl in *; try discriminate.
      + inversion Hi; inversion Ec; subst. now left.
      + right. eapply IHl; eauto.
    - exfalso. apply nth_error_None in Ec. assert (i < length (rows t1)) by (apply nth_error_Some; congruence). lia. }
  assert (B2 : exists ec, branch_row t2 ec e2).
  { apply In_nth_error in He2. destruct He2 as (i & Hi).
    assert (L := rows_length t2 G2).
    destruct (nth_error (edges t2) i) as [ec|] eqn:Ec.
    - exists ec. unfold branch_row. clear - Hi Ec. revert i Hi Ec. generalize (edges t2) (rows t2).
      induction l as [|x l IHl]; intros l0 i Hi Ec; destruct i, l0; simpl in *; try discriminate.
      + inversion Hi; inversion Ec; subst. now left.
      + right. eapply IHl; eauto.
    - exfalso. apply nth_error_None in Ec. assert (i < length (rows t2)) by (apply nth_error_Some; congruence). lia. }
  destruct B1 as (ec1 & B1). destruct B2 as (ec2 & B2).
  apply (hashcode_same_split t1 t2 ec1 e ec2 e2 G1 G2 P B1 B2).
  now apply (equal_or_complement_iff t1 t2 ec1 e ec2 e2 G1 G2 P B1 B2).
Qed.
