(** ACCTRAN: every state reported at an inner node occurs there in a most-parsimonious
    labelling of the whole tree. *)
From Coq Require Import String ZArith QArith Bool Arith Lia List.
From GT Require Import Base.UTree Spec.Obs Spec.Parsimony Model.Reroot Model.Parsimony
     Proofs.ParsimonyVec Proofs.ParsimonyHartigan Proofs.ParsimonyReroot Proofs.ParsimonyCtx
     Proofs.ParsimonyDown Proofs.ParsimonyFinal.
Import ListNotations.
Local Close Scope Q_scope.

Section Acc.
Variable tv : string -> vec.
Variable ts : string -> list nat.
Variable k : nat.
Variable T : utree.

Notation kid_results := (kid_results tv k).
Notation edge_slot := (edge_slot tv ts k).

(** Hartigan's invariant at an inner node below the root *)
Lemma node_ok_sub : forall d, wf_sub d = true -> is_leaf d = false ->
  (forall m, In m (leaves d) -> tip_ok tv ts k m) -> node_ok tv ts k d.
Proof.
  intros [n cm sl] Hw Hl Ht.
  apply node_ok_of_kids.
  - rewrite (wf_sub_tip_leaf n cm sl Hw). exact Hl.
  - unfold is_leaf, kids in Hl. simpl in Hl. destruct (kids_of sl); congruence.
  - pose proof (wf_sub_slots n cm sl Hw) as Hws.
    apply Forall_forall. intros [[e t]|] Hin; simpl; auto.
    rewrite Forall_forall in Hws. apply edge_ok_all; [apply (Hws _ Hin)|].
    intros m Hm. apply Ht. eapply leaves_child; eauto.
Qed.

(** in an optimal labelling, the labelling of a child subtree can be exchanged for any
    labelling that is at least as good below the same parent state *)
Lemma exchange : forall p n cm sl base i e d L a ld',
  node_at T p = Some (UNode n cm sl) -> ctx_ok ts k T p (UNode n cm sl) base ->
  nth_error sl i = Some (Some (e, d)) ->
  optimal ts T L -> label_at L p = Some a -> shape_ok d ld' = true ->
  (forall ld, shape_ok d ld = true ->
              branch_cost ts (cost ts) a d ld' <= branch_cost ts (cost ts) a d ld) ->
  exists L2, optimal ts T L2 /\ lsub L2 (p ++ [i]) = Some ld'.
Proof.
  intros p n cm sl base i e d L a ld' Hn [_ [LB UB]] Hi [HsL Hopt] Hlab Hsd Hbest.
  unfold label_at in Hlab. destruct (lsub L p) as [lc|] eqn:El; [|discriminate].
  inversion Hlab; subst a; clear Hlab.
  destruct (shape_lsub p T L _ HsL Hn) as [lc' [El' Hsc]]. rewrite El in El'. inversion El'; subst lc'.
  destruct lc as [a ll]. simpl lroot in *. rewrite shape_ok_unfold in Hsc.
  destruct (shape_slots_nth sl ll i e d Hsc Hi) as [ldo [Eo Hso]].
  assert (Hilen : i < length ll).
  { apply nth_error_Some. congruence. }
  set (ll2 := set_nth i (Some ld') ll).
  assert (Hs2 : shape_slots shape_ok sl ll2 = true).
  { unfold ll2. rewrite <- (set_nth_set_nth _ ll i (Some ld') None).
    eapply shape_slots_put; eauto. apply shape_slots_set_nth. exact Hsc. }
  assert (Hn2 : nth_error ll2 i = Some (Some ld')) by (apply nth_set_nth_same; exact Hilen).
  assert (Hc2 : cost_slots ts (cost ts) a sl ll2 <= cost_slots ts (cost ts) a sl ll).
  { rewrite (cost_slots_set_nth ts sl ll2 i a e d ld' Hi Hn2).
    rewrite (cost_slots_set_nth ts sl ll i a e d ldo Hi Eo).
    unfold ll2. rewrite set_nth_set_nth. specialize (Hbest ldo Hso). lia. }
  destruct (UB (LNode a ll2)) as [L2 [Hs2L [El2 Hc2L]]]; [rewrite shape_ok_unfold; exact Hs2|].
  exists L2. split.
  - split; [exact Hs2L|]. intros L' Hs'.
    specialize (LB L (LNode a ll) HsL El). specialize (Hopt L' Hs').
    simpl lroot in *. rewrite cost_unfold in *. lia.
  - rewrite lsub_app, El2. simpl. rewrite Hn2. reflexivity.
Qed.

Lemma vtip_inner : forall d, inner d -> kids_of (uslots d) <> [] -> is_vtip (fst (uppass tv k d)) = false.
Proof.
  intros [n cm sl] [_ Hnt] Hk. simpl in Hnt, Hk.
  rewrite uppass_unfold, Hnt. cbv zeta. simpl.
  pose proof (kid_results_nonempty tv k sl Hk).
  destruct (kid_results sl); [congruence | reflexivity].
Qed.

Theorem acc_sub : forall skip c p base v',
  node_at T p = Some c -> ctx_ok ts k T p c base ->
  (base <> [] \/ 2 <= length (kids_of (uslots c))) ->
  inner c ->
  Forall (fun s => match s with Some (_, d) => wf_sub d = true | None => True end) (uslots c) ->
  (forall m, In m (leaves c) -> tip_ok tv ts k m) ->
  good k v' -> (exists y, nth y v' 0 = 1) ->
  (forall y, nth y v' 0 = 1 -> opt_state_at ts T p y) ->
  forall q x v, node_at c q = Some x -> is_leaf x = false ->
    vec_at c (acctran skip v' (fst (uppass tv k c))) q = Some v ->
    forall y, nth y v 0 = 1 -> opt_state_at ts T (p ++ q) y.
Proof.
  induction c using utree_ind'.
  intros p base v' Hn Hctx Hmany [Hleaf Hnt] Hwf Htips Gv' [a0 Ha0] Hinv q x v Hq Hx Hv y Hy.
  rename c into cm. simpl in Hnt, Hwf, Hmany.
  assert (Hf : Forall edge_slot sl).
  { apply Forall_forall. intros [[e d]|] Hin; simpl; auto.
    rewrite Forall_forall in Hwf. apply edge_ok_all; [apply (Hwf _ Hin)|].
    intros m Hm. apply Htips. eapply leaves_child; eauto. }
  rewrite uppass_unfold, Hnt in Hv. cbv zeta in Hv. simpl fst in Hv.
  destruct q as [|i q].
  - simpl in Hv. inversion Hv; subst v. rewrite app_nil_r. apply Hinv. exact Hy.
  - simpl in Hq. destruct (nth_error sl i) as [[[e d]|]|] eqn:Ei; try discriminate.
    simpl vec_at in Hv. rewrite Ei in Hv. simpl vkids in Hv.
    rewrite nth_error_map in Hv.
    pose proof (kid_results_nth tv k sl i e d Ei) as Hkn.
    rewrite nth_error_map, Hkn in Hv. simpl in Hv.
    assert (Hdleaf : is_leaf d = false) by (eapply node_at_inner_child; eauto).
    rewrite Forall_forall in H, Hwf.
    pose proof (Hwf _ (nth_error_In _ _ Ei)) as Hwd. simpl in Hwd.
    assert (Hdin : inner d) by (apply wf_sub_inner; assumption).
    assert (Hdk : kids_of (uslots d) <> []).
    { unfold is_leaf, kids in Hdleaf. destruct (kids_of (uslots d)); congruence. }
    rewrite (vtip_inner d Hdin Hdk), andb_false_r in Hv.
    assert (Hdt : forall m, In m (leaves d) -> tip_ok tv ts k m).
    { intros m Hm. apply Htips. eapply leaves_child; eauto. apply nth_error_In in Ei. exact Ei. }
    destruct (node_ok_sub d Hwd Hdleaf Hdt) as [[LU [BU [yU HyU]]] [NLB NUB]].
    fold (U tv k d) in Hv. set (Ud := U tv k d) in *. set (Cd := C tv k d) in *.
    assert (GU : good k Ud) by (split; assumption).
    set (vd := refine v' Ud) in *.
    (* the invariant for the child *)
    assert (Hinvd : forall z, nth z vd 0 = 1 -> opt_state_at ts T (p ++ [i]) z).
    { intros z Hz.
      destruct (NUB z) as [ldz [Hsz [Hrz Hcz]]].
      { eapply (refine_sub k v' Ud); eauto. }
      assert (Hbc : forall a, branch_cost ts (cost ts) a d ldz = (if Nat.eqb a z then 0 else 1) + Cd).
      { intros a. unfold branch_cost. rewrite Hdleaf, Hrz, Hcz. reflexivity. }
      assert (Hlb : forall a ld, shape_ok d ld = true -> Cd + miss a Ud <= branch_cost ts (cost ts) a d ld).
      { intros a ld Hs. unfold branch_cost. rewrite Hdleaf.
        specialize (NLB ld Hs). fold Ud Cd in NLB. unfold miss in *.
        pose proof (BU a). pose proof (BU (lroot ld)).
        destruct (Nat.eqb a (lroot ld)) eqn:E; [apply Nat.eqb_eq in E; subst a; lia | lia]. }
      destruct (refine_cases k v' Ud Gv' GU) as [[_ [Hi _]]|[Hno He]].
      - (* the intersection: the parent can take z too *)
        apply Hi in Hz. destruct Hz as [Hzp HzU].
        destruct (Hinv z Hzp) as [L [Hopt Hlab]].
        destruct (exchange p n cm sl base i e d L z ldz Hn Hctx Ei Hopt Hlab Hsz) as [L2 [Hopt2 Hl2]].
        { intros ld Hs. rewrite Hbc, Nat.eqb_refl. specialize (Hlb z ld Hs). lia. }
        exists L2. split; [exact Hopt2|]. unfold label_at. rewrite Hl2, Hrz. reflexivity.
      - (* empty intersection: any state of the parent, one change on the branch *)
        fold vd in He. rewrite He in Hz.
        destruct (Hinv a0 Ha0) as [L [Hopt Hlab]].
        assert (Hmiss : miss a0 Ud = 1).
        { unfold miss. pose proof (BU a0). destruct (Nat.eq_dec (nth a0 Ud 0) 1) as [Q|Q]; [|lia].
          exfalso. apply (Hno a0). split; assumption. }
        destruct (exchange p n cm sl base i e d L a0 ldz Hn Hctx Ei Hopt Hlab Hsz) as [L2 [Hopt2 Hl2]].
        { intros ld Hs. rewrite Hbc. specialize (Hlb a0 ld Hs). destruct (Nat.eqb a0 z); lia. }
        exists L2. split; [exact Hopt2|]. unfold label_at. rewrite Hl2, Hrz. reflexivity. }
    assert (Gvd : good k vd) by (apply refine_good; assumption).
    assert (Hned : exists z, nth z vd 0 = 1).
    { destruct (refine_cases k v' Ud Gv' GU) as [[[z [Hz1 Hz2]] [Hi _]]|[_ He]].
      - exists z. apply Hi. split; assumption.
      - exists yU. fold vd in He. rewrite He. exact HyU. }
    set (others := base ++ remove_nth (kidx sl i) (kid_results sl)).
    assert (Hone : others <> []).
    { unfold others. destruct Hmany as [Hb|Hm].
      - intro Q. apply app_eq_nil in Q. destruct Q. contradiction.
      - intro Q. apply app_eq_nil in Q. destruct Q as [_ Q]. revert Q.
        apply remove_nth_nonempty. rewrite kid_results_length. exact Hm. }
    pose proof (ctx_child tv ts k T p n cm sl base i e d Hn Hctx Hf Ei Hdleaf Hone) as Hcd.
    replace (p ++ i :: q) with ((p ++ [i]) ++ q) by (rewrite <- app_assoc; reflexivity).
    destruct d as [nd cd sld].
    eapply (H _ (nth_error_In _ _ Ei) (p ++ [i]) _ vd); eauto.
    + clear -Hn Ei. revert T Hn. induction p as [|j p IH]; intros T0 Hn; simpl in *.
      * inversion Hn; subst. simpl. rewrite Ei. reflexivity.
      * destruct (nth_error (uslots T0) j) as [[[e0 c0]|]|]; try discriminate. apply IH. exact Hn.
    + left. discriminate.
    + apply (wf_sub_slots nd cd sld Hwd).
Qed.

End Acc.

Section AccTop.
Variable tv : string -> vec.
Variable ts : string -> list nat.
Variable k : nat.
Variable T : utree.
Hypothesis Hwf : wf T = true.
Hypothesis Hdeg : 2 <= degree T.
Hypothesis tips : forall n, In n (leaves T) -> tip_ok tv ts k n.

Theorem acctran_sound : forall skip q x v,
  node_at T q = Some x -> is_leaf x = false ->
  vec_at T (fst (parsimony skip tv k Acctran T)) q = Some v ->
  forall y, nth y v 0 = 1 -> opt_state_at ts T q y.
Proof.
  intros skip q x v Hq Hx Hv y Hy.
  destruct (root_facts tv ts k T Hwf Hdeg tips) as [Htip [Hin [Hk Hw]]].
  assert (Hd1 : degree T <> 1) by lia.
  assert (Hleaf : is_leaf T = false) by apply Hin.
  destruct (root_node_ok tv ts k T Hwf Hd1 Hleaf tips) as [[LU [BU [yU HyU]]] _].
  unfold parsimony in Hv. rewrite Htip in Hv.
  destruct (uppass tv k T) as [u s] eqn:Eu. simpl in Hv.
  assert (Eu' : u = fst (uppass tv k T)) by (rewrite Eu; reflexivity).
  rewrite Eu' in Hv. fold (U tv k T) in Hv.
  apply (acc_sub tv ts k T skip T [] [] (U tv k T) eq_refl (ctx_root ts k T) (or_intror Hk) Hin Hw tips
                 (conj LU BU) (ex_intro _ yU HyU)) with (q := q) (x := x) (v := v); auto.
  intros z Hz.
  apply (up_root_states tv ts k T z Hwf Hd1 Hleaf tips) in Hz.
  destruct Hz as [l [Hopt Hr]]. exists l. split; [exact Hopt|].
  unfold label_at. simpl. rewrite Hr. reflexivity.
Qed.

End AccTop.
