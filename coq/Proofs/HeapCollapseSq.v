(** Heap model: the refinement square of one RemoveEdges step (tip branch / protected root
    branch / contraction) against Collapse.remove_edges_idx rr rt [k]. *)
From Coq Require Import String ZArith QArith Bool Arith Lia Permutation List.
From GT Require Import Base.UTree Model.Reroot Model.Prune Model.Collapse Model.NNI Model.Heap Proofs.Enum Proofs.HeapBase Proofs.HeapRep
     Proofs.HeapGood Proofs.HeapGoodRep Proofs.HeapRerootL Proofs.HeapReorder Proofs.HeapUnrootL Proofs.HeapUnroot
     Proofs.HeapCtx Proofs.HeapGraft Proofs.HeapGraftSq Proofs.HeapCollapse Proofs.HeapNNI Proofs.HeapNNIDown Proofs.HeapCollapseTree Proofs.HeapPaths.
Import ListNotations.
Local Close Scope Q_scope.

(** replacing a sub-node by itself *)
Lemma lreplace_same : forall lt prev p sub, NoDup (lids lt) -> In (p, sub) (lsubs prev lt) -> lreplace (lid sub) sub lt = lt.
Proof.
  induction lt as [i n c sl IH] using ltree_ind'. intros prev p sub Nd Hin.
  rewrite lsubs_eq in Hin. rewrite lreplace_eq. destruct Hin as [E|Hin].
  - injection E as <- <-. cbn [lid]. rewrite Nat.eqb_refl. reflexivity.
  - apply in_flat_map in Hin. destruct Hin as [s [Hs Hin]]. destruct s as [[[es eis] chs]|]; [|destruct Hin].
    assert (Hl : In (lid sub) (lids chs)) by (eapply lsubs_in_lids; exact Hin).
    rewrite lids_eq in Nd. apply NoDup_cons_iff in Nd. destruct Nd as [Ni Nd]. fold (sids sl) in Ni, Nd.
    destruct (Nat.eqb_spec i (lid sub)) as [E|_]; [exfalso; apply Ni; rewrite E; eapply in_sids; eassumption|]. f_equal.
    destruct (In_nth_error _ _ Hs) as [js Hjs]. rewrite Forall_forall in IH.
    rewrite <- (map_id sl) at 2. apply nth_ext_map. intros j s Hj. destruct s as [[[e' ei'] ch']|]; [|reflexivity]. cbn [lreplace_slot].
    destruct (Nat.eq_dec j js) as [->|Hne].
    + rewrite Hjs in Hj. injection Hj as -> -> ->. f_equal. f_equal. eapply (IH _ Hs); [|exact Hin]. exact (NoDup_flat_map_in _ _ _ Nd Hs).
    + rewrite lreplace_notin; [reflexivity|]. intros Hi. apply Hne. eapply (NoDup_flat_map_nth _ _ _ _ _ _ (lid sub) Nd Hj Hjs); cbn; assumption.
Qed.

(** changing the data of one branch, at the level of the representation *)
Lemma Rep_set_info_slot h lt p l nm cm l1 l2 e ei ei' ch : Rep h lt ->
  In (p, LNode l nm cm (l1 ++ Some (e, ei, ch) :: l2)) (lsubs None lt) ->
  Rep (set_edge h e (mkHE l (lid ch) ei')) (lreplace l (LNode l nm cm (l1 ++ Some (e, ei', ch) :: l2)) lt).
Proof.
  intros R Hsub. set (sub := LNode l nm cm (l1 ++ Some (e, ei, ch) :: l2)) in *.
  set (new := LNode l nm cm (l1 ++ Some (e, ei', ch) :: l2)). set (h' := set_edge h e (mkHE l (lid ch) ei')).
  assert (Nd : NoDup (lids sub)) by (eapply lsubs_NoDup; [exact (rep_nd _ _ R)|exact Hsub]).
  pose proof (shape_lsubs _ _ _ _ _ _ (rep_shape _ _ R) Hsub) as Shsub.
  pose proof (shape_NoDup_leids _ _ _ Shsub Nd) as Ned.
  assert (EN : lids new = lids sub) by (unfold new, sub; rewrite !lids_eq; fold (sids (l1 ++ Some (e, ei', ch) :: l2)) (sids (l1 ++ Some (e, ei, ch) :: l2)); rewrite !sids_app_cons; reflexivity).
  assert (EE : leids new = leids sub) by (unfold new, sub; rewrite !leids_eq; fold (seids (l1 ++ Some (e, ei', ch) :: l2)) (seids (l1 ++ Some (e, ei, ch) :: l2)); rewrite !seids_app_cons; reflexivity).
  assert (Esame : forall y, y <> e -> alookup y (hedges h') = alookup y (hedges h)) by (intros y Hy; unfold h'; cbn; apply alookup_aupd_ne; exact Hy).
  assert (Ee' : alookup e (hedges h') = Some (mkHE l (lid ch) ei')) by (unfold h'; cbn; apply alookup_aupd_eq).
  assert (Ine : In e (leids sub)) by (unfold sub; eapply in_leids_here; apply in_or_app; right; left; reflexivity).
  assert (SubN : forall y, In y (lids sub) -> In y (lids lt)) by (intros y Hy; eapply lsubs_sub_lids; eassumption).
  assert (SubE : forall y, In y (leids sub) -> In y (leids lt)) by (intros y Hy; eapply lsubs_sub_leids; eassumption).
  unfold sub in Ned. rewrite leids_eq in Ned. fold (seids (l1 ++ Some (e, ei, ch) :: l2)) in Ned.
  assert (Hj0 : nth_error (l1 ++ Some (e, ei, ch) :: l2) (length l1) = Some (Some (e, ei, ch))) by apply nth_error_app_mid.
  apply (Rep_replace h h' lt l p sub new R Hsub eq_refl eq_refl).
  - unfold sub in Shsub. apply shape_unfold in Shsub. destruct Shsub as [hl (A1 & A2 & A3 & A4 & A5)].
    unfold new. apply shape_unfold. exists hl. split; [exact A1|]. split; [exact A2|]. split; [exact A3|]. split; [exact A4|].
    apply Forall2_app_inv_r in A5. destruct A5 as (c1 & c2' & F1 & F2 & Ec). apply Forall2_cons_inv_r in F2. destruct F2 as (ce & c2 & Ec2 & Ok0 & F2').
    rewrite Ec, Ec2. 
    assert (Tr : forall cs ls j0, (forall j s, nth_error ls j = Some s -> nth_error (l1 ++ Some (e, ei, ch) :: l2) (j0 + j) = Some s /\ j0 + j <> length l1) ->
               Forall2 (slot_ok true h p l) cs ls -> Forall2 (slot_ok true h' p l) cs ls).
    { intros cs ls j0 Hpos F. apply Forall2_pointwise; [exact (Forall2_length' _ _ _ F)|]. intros j a s Ha Hs.
      destruct (Forall2_nth _ _ _ _ _ F Ha) as [s' [Hs' Hok]]. rewrite Hs in Hs'. injection Hs' as <-.
      destruct s as [[[e2 ei2] X]|]; [|exact Hok]. destruct (Hpos j _ Hs) as [Hp Hne].
      cbn [slot_ok] in *. destruct Hok as (B1 & B2 & B3 & B4 & B5). repeat split; try assumption.
      - eapply edge_ok_eq; [|exact B4]. rewrite <- B2. apply Esame. intros ->.
        exact (sib_disj_e _ _ _ _ _ _ _ _ _ e Ned Hp Hj0 Hne (or_introl eq_refl) (or_introl eq_refl)).
      - eapply shape_frame; [| |exact B5]; [reflexivity|]. intros y Hy. apply Esame. intros ->.
        exact (sib_disj_e _ _ _ _ _ _ _ _ _ e Ned Hp Hj0 Hne (or_intror Hy) (or_introl eq_refl)). }
    apply Forall2_app; [|constructor].
    + apply (Tr c1 l1 0); [|exact F1]. intros j s Hs. split; [cbn; rewrite nth_error_app1; [exact Hs|apply nth_error_Some; congruence]|].
      cbn. assert (j < length l1) by (apply nth_error_Some; congruence). lia.
    + destruct ce as [c0 e0]. cbn [slot_ok fst snd] in *. destruct Ok0 as (B1 & B2 & B3 & [ed (B4 & B5 & B6 & B7)] & B8).
      split; [exact B1|]. split; [exact B2|]. split; [exact B3|]. split.
      * subst e0 c0. exists (mkHE l (lid ch) ei'). split; [exact Ee'|]. repeat split.
      * eapply shape_frame; [| |exact B8]; [reflexivity|]. intros y Hy. apply Esame. intros ->.
        pose proof (NoDup_flat_map_in (fun s : lslot => match s with Some (e, _, ch) => e :: leids ch | None => [] end) _ _ Ned (nth_error_In _ _ Hj0)) as Hd.
        cbn in Hd. apply NoDup_cons_iff in Hd. exact (proj1 Hd Hy).
    + apply (Tr c2 l2 (S (length l1))); [|exact F2']. intros j s Hs. split; [|lia].
      rewrite nth_error_app2 by lia. replace (S (length l1) + j - length l1) with (S j) by lia. exact Hs.
  - intros y Hy Hy'. reflexivity.
  - intros y Hy Hy'. apply Esame. intros ->. contradiction.
  - intros W. unfold sub in W. apply lwf_iff in W. destruct W as [X1 X2]. unfold new. apply lwf_iff. split.
    + rewrite lnup_app in *. exact X1.
    + intros e' ei2 ch' Hin. apply in_app_or in Hin. destruct Hin as [Hin|[[= <- <- <-]|Hin]].
      * apply (X2 e' ei2 ch'). apply in_or_app. left. exact Hin.
      * apply (X2 e ei ch). apply in_or_app. right. left. reflexivity.
      * apply (X2 e' ei2 ch'). apply in_or_app. right. right. exact Hin.
  - intros W. unfold sub in W. apply lwf_sub_iff in W. destruct W as [X1 X2]. unfold new. apply lwf_sub_iff. split.
    + rewrite lnup_app in *. exact X1.
    + intros e' ei2 ch' Hin. apply in_app_or in Hin. destruct Hin as [Hin|[[= <- <- <-]|Hin]].
      * apply (X2 e' ei2 ch'). apply in_or_app. left. exact Hin.
      * apply (X2 e ei ch). apply in_or_app. right. left. reflexivity.
      * apply (X2 e' ei2 ch'). apply in_or_app. right. right. exact Hin.
  - reflexivity.
  - rewrite EN. exact Nd.
  - intros y Hy. left. rewrite <- EN. exact Hy.
  - rewrite EE. eapply shape_NoDup_leids; eassumption.
  - intros y Hy. left. rewrite <- EE. exact Hy.
  - intros y. rewrite EN. change (hnodes h') with (hnodes h). rewrite <- (rep_nodes _ _ R y). split.
    + intros Hy. destruct (in_dec Nat.eq_dec y (lids sub)); tauto.
    + intros [X|[X _]]; [apply SubN; exact X|exact X].
  - intros y. rewrite EE. destruct (Nat.eq_dec y e) as [->|Ny].
    + rewrite Ee'. split; [intros _; left; exact Ine|discriminate].
    + rewrite (Esame y Ny), <- (rep_edges _ _ R y). split.
      * intros Hy. destruct (in_dec Nat.eq_dec y (leids sub)); tauto.
      * intros [X|[X _]]; [apply SubE; exact X|exact X].
  - intros y Hy. apply (rep_fn _ _ R), (rep_nodes _ _ R). exact Hy.
  - intros y Hy. change (hnexte h') with (hnexte h). apply (rep_fe _ _ R). destruct (Nat.eq_dec y e) as [->|Ny].
    + apply SubE. exact Ine.
    + rewrite (Esame y Ny) in Hy. apply (rep_edges _ _ R). exact Hy.
Qed.

(** * the labelled tree after one RemoveEdges step *)
Definition lsome_slots (sl : list lslot) : list lslot :=
  filter (fun s : lslot => match s with Some _ => true | None => false end) sl.

Lemma erase_some_slots sl : map erase_slot (lsome_slots sl) = some_slots (map erase_slot sl).
Proof. induction sl as [|[[[e ei] ch]|] sl IH]; cbn; [reflexivity| |exact IH]. f_equal. exact IH. Qed.

Lemma lsome_slots_mid s1 s2 : lnup s1 = 0 -> lnup s2 = 0 -> lsome_slots (s1 ++ None :: s2) = s1 ++ s2.
Proof.
  intros Z1 Z2. unfold lsome_slots. rewrite filter_app. cbn [filter].
  assert (H : forall s, lnup s = 0 -> filter (fun s : lslot => match s with Some _ => true | None => false end) s = s).
  { intros s Z. induction s as [|[[[e ei] ch]|] s IH]; cbn; [reflexivity| |unfold lnup in Z; cbn in Z; discriminate].
    f_equal. apply IH. unfold lnup in *. cbn in Z. exact Z. }
  rewrite (H s1 Z1), (H s2 Z2). reflexivity.
Qed.

Definition lcontract_new (rr rt : bool) (l : nat) (nm : string) (cm : list string) (l1 : list lslot)
           (e : nat) (ei : einfo) (ch : ltree) (l2 : list lslot) : ltree :=
  if Nat.eqb (length (lslots ch)) 1 then LNode l nm cm (l1 ++ Some (e, (if rt then set_len0 ei else ei), ch) :: l2)
  else if negb rr && (Nat.eqb (length (lslots ch)) 2 || Nat.eqb (length (l1 ++ Some (e, ei, ch) :: l2)) 2)
       then LNode l nm cm (l1 ++ Some (e, ei, ch) :: l2)
       else LNode l nm cm ((l1 ++ l2) ++ lsome_slots (lslots ch)).

Theorem remove_edge_Rep rr rt h lt p l nm cm l1 l2 e ei ch0 : Rep h lt ->
  In (p, LNode l nm cm (l1 ++ Some (e, ei, ch0) :: l2)) (lsubs None lt) ->
  exists h', remove_edge rr rt e h = HOk h' /\ Rep h' (lreplace l (lcontract_new rr rt l nm cm l1 e ei ch0 l2) lt).
Proof.
  intros R Hsub. pose proof (Rep_Good h lt R) as G.
  assert (Hs : In (Some (e, ei, ch0)) (l1 ++ Some (e, ei, ch0) :: l2)) by (apply in_or_app; right; left; reflexivity).
  destruct ch0 as [r nmr cmr slr].
  assert (Hsubr : In (Some (l, e), LNode r nmr cmr slr) (lsubs None lt)).
  { eapply lsubs_trans; [exact Hsub|]. eapply lsubs_child. exact Hs. }
  destruct (lwf_sub_lsubs lt None _ _ (or_introl (rep_wf _ _ R)) Hsubr) as [E|W]; [discriminate|].
  apply lwf_sub_iff in W. destruct W as [W1 Wk].
  destruct (lnup_split slr) as [s1 [s2 Eslr]]; [lia|]. subst slr.
  pose proof (shape_lsubs _ _ _ _ _ _ (rep_shape _ _ R) Hsub) as Sh. apply shape_unfold in Sh. destruct Sh as [hl (A1 & _)].
  pose proof (shape_lsubs _ _ _ _ _ _ (rep_shape _ _ R) Hsubr) as Shr. apply shape_unfold in Shr. destruct Shr as [hr (B1 & _)].
  destruct (CT_slots h lt R p l nm cm l1 l2 e ei r nmr cmr s1 s2 Hsub hl hr A1 B1)
    as (c1 & c2 & d1 & d2 & Ec & Lc & F1 & F2 & Ed & Ld & G1 & G2 & A4 & B4 & A2 & A3 & Ee & Pne).
  destruct (CT_wf_ch h lt R p l nm cm l1 l2 e ei r nmr cmr s1 s2 Hsub) as (Z1 & Z2 & _).
  pose proof (shape_lsubs _ _ _ _ _ _ (rep_shape _ _ R) Hsub) as Sh0. pose proof (shape_lsubs _ _ _ _ _ _ (rep_shape _ _ R) Hsubr) as Shr0.
  destruct (shape_length _ _ _ _ _ _ _ _ Sh0 A1) as [Lhl _]. destruct (shape_length _ _ _ _ _ _ _ _ Shr0 B1) as [Lhr _].
  assert (Same : lreplace l (LNode l nm cm (l1 ++ Some (e, ei, LNode r nmr cmr (s1 ++ None :: s2)) :: l2)) lt = lt).
  { exact (lreplace_same lt None p _ (rep_nd _ _ R) Hsub). }
  rewrite remove_edge_eq. unfold get_edge. rewrite Ee. cbn [hbind hleft hright]. unfold get_node. rewrite B1, A1. cbn [hbind].
  unfold lcontract_new. cbn [lslots]. rewrite Lhr, Lhl.
  destruct (Nat.eqb (length (s1 ++ None :: s2)) 1).
  { destruct rt.
    - unfold set_info, get_edge. rewrite Ee. cbn [hbind hleft hright hinfo]. eexists. split; [reflexivity|].
      exact (Rep_set_info_slot h lt p l nm cm l1 l2 e ei (set_len0 ei) (LNode r nmr cmr (s1 ++ None :: s2)) R Hsub).
    - exists h. split; [reflexivity|]. rewrite Same. exact R. }
  destruct (negb rr && (Nat.eqb (length (s1 ++ None :: s2)) 2 || Nat.eqb (length (l1 ++ Some (e, ei, LNode r nmr cmr (s1 ++ None :: s2)) :: l2)) 2)).
  { exists h. split; [reflexivity|]. rewrite Same. exact R. }
  (* the contraction *)
  assert (Hnl : nth_error (hneigh hl) (length l1) = Some r).
  { rewrite <- (slots_of_fst hl A4), Ec, nth_error_map, <- Lc, nth_error_app_mid. reflexivity. }
  assert (Hnr : nth_error (hneigh hr) (length s1) = Some l).
  { rewrite <- (slots_of_fst hr B4), Ed, nth_error_map, <- Ld, nth_error_app_mid. reflexivity. }
  assert (I0 : index_of r (hneigh hl) = Some (length l1)) by (apply index_of_NoDup; [exact (g_nodup _ G l hl A1)|exact Hnl]).
  assert (I1 : index_of l (hneigh hr) = Some (length s1)) by (apply index_of_NoDup; [exact (g_nodup _ G r hr B1)|exact Hnr]).
  assert (L0 : length l1 < length (hbr hl)) by (rewrite <- A4; apply nth_error_Some; congruence).
  assert (L1 : length s1 < length (hbr hr)) by (rewrite <- B4; apply nth_error_Some; congruence).
  set (ks := del_nth (length s1) (slots_of hr)).
  assert (Hks : del_nth (length s1) (hneigh hr) = map fst ks).
  { unfold ks. rewrite map_del_nth, (slots_of_fst hr B4). reflexivity. }
  destruct (CT_disj h lt R p l nm cm l1 l2 e ei r nmr cmr s1 s2 Hsub) as (Nlr & Dn & Db & De & Dbe & NdB & NdBe).
  destruct (CT_ks_nodup h lt R p l nm cm l1 l2 e ei r nmr cmr s1 s2 Hsub hl hr A1 B1) as [Nk1 Nk2]. fold ks in Nk1, Nk2.
  assert (KinN : forall y, In y (map fst ks) -> In y (sids (s1 ++ None :: s2))).
  { intros y Hy. apply in_map_iff in Hy. destruct Hy as [[c ec] [<- Hin]].
    exact (proj1 (CT_kid_in h lt R p l nm cm l1 l2 e ei r nmr cmr s1 s2 Hsub hl hr A1 B1 c ec Hin)). }
  assert (KinE : forall y, In y (map snd ks) -> In y (seids (s1 ++ None :: s2))).
  { intros y Hy. apply in_map_iff in Hy. destruct Hy as [[c ec] [<- Hin]].
    exact (proj2 (CT_kid_in h lt R p l nm cm l1 l2 e ei r nmr cmr s1 s2 Hsub hl hr A1 B1 c ec Hin)). }
  destruct (contract_eval h l r e hl hr (length l1) (length s1) ks A1 B1 Nlr I0 L0 I1 L1 Hks) as [h' [Ev D]].
  - apply Forall_forall. intros [c ec] Hin. exact (CT_kid_ok h lt R p l nm cm l1 l2 e ei r nmr cmr s1 s2 Hsub hl hr A1 B1 c ec Hin).
  - exact Nk1.
  - exact Nk2.
  - intros Hy. apply KinN in Hy. destruct (Db l Hy) as (_ & X & _). congruence.
  - intros Hy. apply KinN in Hy. destruct (Db r Hy) as (_ & _ & X). congruence.
  - intros Hy. apply KinE in Hy. destruct (Dbe e Hy) as (_ & X). congruence.
  - exists h'. split; [exact Ev|]. rewrite (lsome_slots_mid s1 s2 Z1 Z2).
    exact (CT_Rep h h' lt R p l nm cm l1 l2 e ei r nmr cmr s1 s2 Hsub hl hr A1 B1 D).
Qed.

(** * the square *)
Theorem remove_edge_square rr rt h t k e : Good h -> abs h = Some t ->
  (exists lt, dump h = Some lt /\ nth_error (leids lt) k = Some e) ->
  exists h', remove_edge rr rt e h = HOk h' /\ Good h' /\ abs h' = Some (remove_edges_idx rr rt [k] t).
Proof.
  intros G Ha (lt0 & Hd & Hk). destruct (Good_Rep h G) as [lt R]. rewrite (Rep_dump _ _ R) in Hd. injection Hd as <-.
  rewrite (Rep_abs _ _ R) in Ha. injection Ha as <-.
  pose proof (rep_wf _ _ R) as W. 
  assert (Wk : forall e0 ei0 ch0, In (Some (e0, ei0, ch0)) (lslots lt) -> lwf_sub ch0).
  { destruct lt as [i n c sl]. apply lwf_iff in W. apply W. }
  destruct (edge_locs_leids lt Wk k e Hk) as (pth & j & sub & ei & ch & A1 & A2 & A3).
  destruct (lnode_at_lsubs pth lt None sub A2) as [p Hsub]. destruct sub as [l nm cm sl]. cbn [lslots] in A3.
  destruct (nth_error_split sl j A3) as (l1 & l2 & -> & Lj).
  destruct (remove_edge_Rep rr rt h lt p l nm cm l1 l2 e ei ch R Hsub) as [h' [Ev R']].
  exists h'. split; [exact Ev|]. split; [eapply Rep_Good; exact R'|]. rewrite (Rep_abs _ _ R').
  rewrite <- (remove_edges_single rr rt k (erase lt) pth j W A1). symmetry.
  apply (erase_lreplace_at_path (contract_slot rr rt j) _ pth lt (LNode l nm cm (l1 ++ Some (e, ei, ch) :: l2)) A2 (rep_nd _ _ R)).
  rewrite erase_eq. cbn [contract_slot]. rewrite nth_error_map, <- Lj, nth_error_app_mid. cbn [option_map erase_slot].
  unfold lcontract_new, is_tip, degree. destruct ch as [r nmr cmr slr]. rewrite !erase_eq. cbn [uslots lslots]. rewrite !map_length.
  destruct (Nat.eqb (length slr) 1).
  - rewrite erase_eq, !map_app. cbn [map erase_slot]. rewrite !erase_eq. rewrite <- (map_length erase_slot l1), set_nth_app_mid. reflexivity.
  - destruct (negb rr && (Nat.eqb (length slr) 2 || Nat.eqb (length (l1 ++ Some (e, ei, LNode r nmr cmr slr) :: l2)) 2)).
    + rewrite erase_eq. reflexivity.
    + rewrite erase_eq, !map_app, erase_some_slots. cbn [map erase_slot]. rewrite <- (map_length erase_slot l1), remove_nth_app_mid. reflexivity.
Qed.
