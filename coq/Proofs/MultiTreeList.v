(** The multi-Newick reader on a list of trees written one per line: whatever the chunking of
    the lines by the buffered reader (every line in k >= 1 pieces), with any trailing blanks
    and tabs after the ';' (the line terminator, LF or CRLF, is stripped by ReadLine), every
    tree is delivered, in order, with ids 0, 1, ...; nothing else is delivered. *)
From Coq Require Import String Ascii ZArith QArith Bool Arith Lia List.
From GT Require Import Base.UTree Spec.NewickSpec Model.Newick Model.MultiTree
     Proofs.NewickCanon Proofs.NewickTheorem Proofs.MultiTree Proofs.MultiTreeSpec Proofs.NewickFirst.
Import ListNotations.
Local Close Scope Q_scope.
Local Open Scope string_scope.

(** a physical line handed over in k >= 1 pieces: all but the last with isPrefix = true *)
Inductive chunked : string -> list phys_read -> Prop :=
| chunk_one : forall s, chunked s [(s, false)]
| chunk_more : forall a s r, chunked s r -> chunked (a ++ s) ((a, true) :: r).

Lemma app_assoc_m : forall a b c : string, (a ++ b) ++ c = a ++ (b ++ c).
Proof. induction a; simpl; intros; congruence. Qed.

Lemma last_char_absorb : forall x y l c, last_char x l = ScanOk c -> last_char (x ++ y) c = last_char (x ++ y) l.
Proof.
  intros x y l c H. unfold last_char in *.
  destruct (0 <? zlen (x ++ y))%Z eqn:E; [reflexivity|].
  assert (x = "").
  { destruct x; [reflexivity|]. unfold zlen in E. simpl in E. apply Z.ltb_ge in E. lia. }
  subst x. simpl in H. inversion H. reflexivity.
Qed.

(** the pieces of a line are read like the whole line *)
Lemma rus_chunk : forall s c, chunked s c -> forall rest ln last pre,
    pre || negb (is_semi last) = true ->
    rus_loop (c ++ rest) ln last pre = rus_loop ((s, false) :: rest) ln last pre.
Proof.
  intros s c H. induction H as [s|a s r Hc IH]; intros rest ln last pre E; [reflexivity|].
  cbn [app rus_loop]. rewrite E.
  destruct (last_char_ok (ln ++ a) last) as [c1 H1]. rewrite H1.
  rewrite (IH rest (ln ++ a) c1 true eq_refl). cbn [rus_loop orb].
  rewrite <- app_assoc_m. rewrite (last_char_absorb (ln ++ a) s last c1 H1). reflexivity.
Qed.

Definition rus_rel (a b : rus_res) : Prop :=
  match a with
  | RLine x r => exists ls cs, r = whole_lines ls /\ Forall2 chunked ls cs /\ b = RLine x (concat cs)
  | other => b = other
  end.

Lemma rus_chunked : forall ls cs, Forall2 chunked ls cs -> forall ln last pre,
    rus_rel (rus_loop (whole_lines ls) ln last pre) (rus_loop (concat cs) ln last pre).
Proof.
  intros ls cs H. induction H as [|line c ls cs Hc Hr IH]; intros ln last pre.
  - simpl. destruct (pre || negb (is_semi last)).
    + destruct (last_char ln last) as [x| |]; simpl; try reflexivity.
      destruct (is_semi x); simpl; [exists [], []; repeat split; constructor|reflexivity].
    + simpl. exists [], []. repeat split. constructor.
  - cbn [whole_lines map concat].
    destruct (pre || negb (is_semi last)) eqn:E.
    + rewrite (rus_chunk line c Hc (concat cs) ln last pre E).
      cbn [rus_loop]. rewrite E.
      destruct (last_char (ln ++ line) last) as [x| |]; simpl; try reflexivity.
      apply IH.
    + cbn [rus_loop]. rewrite E.
      destruct c as [|[f p] c']; [inversion Hc|]. cbn [app rus_loop]. rewrite E. simpl.
      exists (line :: ls), (((f, p) :: c') :: cs). repeat split; [constructor; assumption].
Qed.

Section List.
  Variable nparse : string -> utree + string.

  Lemma multi_loop_chunked : forall fuel id c ls cs,
      Forall2 chunked ls cs -> length (concat cs) < fuel ->
      multi_loop nparse fuel id c (concat cs) = MDone (deliver nparse id (c :: split_lines "" ls)).
  Proof.
    induction fuel as [|f IH]; intros id c ls cs HC Hf; [lia|].
    cbn [multi_loop deliver]. destruct (nparse c) as [t|m]; [|reflexivity].
    rewrite (split_first_close ls "").
    pose proof (rus_lines ls) as R.
    pose proof (rus_chunked ls cs HC "" "0"%char true) as Q.
    fold (read_until_semicolon (whole_lines ls)) in Q. fold (read_until_semicolon (concat cs)) in Q.
    destruct (first_close "" ls) as [[c' r']|] eqn:E.
    - rewrite R in Q. simpl in Q. destruct Q as (ls' & cs' & E1 & HC' & E2).
      assert (ls' = r').
      { clear - E1. revert r' E1. induction ls' as [|a l IHl]; intros [|b r] H; simpl in H; try discriminate; [reflexivity|].
        inversion H; subst. f_equal. apply IHl. assumption. }
      subst ls'. rewrite E2.
      rewrite (IH (S id) c' r' cs' HC'); [reflexivity|].
      apply rus_consumes in E2. lia.
    - destruct R as [x R]. rewrite R in Q. simpl in Q. rewrite Q. reflexivity.
  Qed.

  (** the reader loop on any chunking of the lines = on the whole lines *)
  Theorem read_multi_chunked : forall ls cs, Forall2 chunked ls cs ->
      read_multi nparse (concat cs) =
      MDone (match split_lines "" ls with
             | [] => [IErr 0 "EOF"]
             | cs' => deliver nparse 0 cs'
             end).
  Proof.
    intros ls cs HC. unfold read_multi. rewrite (split_first_close ls "").
    pose proof (rus_lines ls) as R.
    pose proof (rus_chunked ls cs HC "" "0"%char true) as Q.
    fold (read_until_semicolon (whole_lines ls)) in Q. fold (read_until_semicolon (concat cs)) in Q.
    destruct (first_close "" ls) as [[c r]|] eqn:E.
    - rewrite R in Q. simpl in Q. destruct Q as (ls' & cs' & E1 & HC' & E2).
      assert (ls' = r).
      { clear - E1. revert r E1. induction ls' as [|a l IHl]; intros [|b r] H; simpl in H; try discriminate; [reflexivity|].
        inversion H; subst. f_equal. apply IHl. assumption. }
      subst ls'. rewrite E2.
      rewrite (multi_loop_chunked _ 0 c r cs' HC'); [reflexivity|].
      apply rus_consumes in E2. lia.
    - destruct R as [x R]. rewrite R in Q. simpl in Q. rewrite Q. reflexivity.
  Qed.
End List.

(** * a list of written trees, one per line *)
Section Written.
  Variable fmt : Q -> string.
  Variable numeric : string -> bool.
  Variable parse_num : string -> option Q.
  Variable numok : Q -> bool.
  Hypothesis SC : strconv_ok fmt numeric parse_num numok.

  (** a line: the writer's text of the tree followed by blanks and tabs *)
  Definition tree_line (p : utree * string) : string := write fmt (fst p) ++ snd p.
  Definition line_ok (p : utree * string) : Prop := wfN numeric numok (fst p) = true /\ all_blank (snd p) = true.

  Fixpoint records (id : nat) (l : list (utree * string)) : list item :=
    match l with
    | [] => []
    | p :: r => ITree id (canon_root fmt parse_num (fst p)) :: records (S id) r
    end.

  Lemma tree_line_closes : forall p acc, all_blank (snd p) = true -> ends_semi (acc ++ tree_line p) = true.
  Proof.
    intros [t bl] acc H. unfold tree_line. simpl fst. simpl snd in *.
    destruct (write_ends_semi fmt t) as [b Hb]. rewrite Hb.
    replace (acc ++ (b ++ ";") ++ bl) with ((acc ++ b) ++ String ";" bl)
      by (rewrite !app_assoc_m; reflexivity).
    apply ends_semi_true. exact H.
  Qed.

  Lemma split_written : forall l, Forall line_ok l -> split_lines "" (map tree_line l) = map tree_line l.
  Proof.
    induction l as [|p r IH]; intros H; [reflexivity|]. inversion H as [|? ? [_ Hb] Hr]; subst.
    cbn [map split_lines]. rewrite (tree_line_closes p "" Hb). simpl append. f_equal. apply IH. exact Hr.
  Qed.

  Lemma deliver_written : forall l id, Forall line_ok l ->
      deliver (np_nw numeric parse_num) id (map tree_line l) = records id l.
  Proof.
    induction l as [|p r IH]; intros id H; [reflexivity|]. inversion H as [|? ? [Hw _] Hr]; subst.
    cbn [map deliver records]. unfold np_nw at 1. unfold tree_line at 1.
    rewrite (parse_write_k fmt numeric parse_num numok SC (fst p) (snd p) Hw). f_equal. apply IH. exact Hr.
  Qed.

  (** every tree is delivered, in file order, with consecutive ids, whatever the chunking *)
  Theorem multi_list_delivered : forall (l : list (utree * string)) cs,
      l <> [] -> Forall line_ok l -> Forall2 chunked (map tree_line l) cs ->
      read_multi (np_nw numeric parse_num) (concat cs) = MDone (records 0 l).
  Proof.
    intros l cs NE H HC. rewrite (read_multi_chunked _ _ _ HC). rewrite (split_written l H).
    destruct l as [|p r]; [contradiction NE; reflexivity|].
    rewrite <- (deliver_written (p :: r) 0 H). reflexivity.
  Qed.

  Theorem multi_empty_file : read_multi (np_nw numeric parse_num) [] = MDone [IErr 0 "EOF"].
  Proof. reflexivity. Qed.
End Written.

(** * the same on the bytes of a file whose lines fit the reader's buffer: LF or CRLF line ends *)
Fixpoint nolf (s : string) : bool :=
  match s with EmptyString => true | String c r => negb (is_nl c) && nolf r end.

Lemma read_slice_line : forall line n rest, nolf line = true -> String.length line < n ->
    read_slice n (line ++ String "010" rest) = (line, true, rest).
Proof.
  induction line as [|c line IH]; intros n rest H L.
  - destruct n; [simpl in L; lia|]. reflexivity.
  - destruct n; [simpl in L; lia|]. simpl in H. apply andb_true_iff in H. destruct H as [Hc Hl].
    apply negb_true_iff in Hc. simpl. rewrite Hc. rewrite (IH n rest Hl); [reflexivity|simpl in L; lia].
Qed.

Lemma drop_last_cr_snoc : forall s, drop_last_cr (s ++ String "013" "") = s.
Proof.
  induction s as [|c s IH]; [reflexivity|].
  destruct s as [|c2 s2]; [reflexivity|].
  change (drop_last_cr (String c (String c2 s2) ++ String "013" ""))
    with (String c (drop_last_cr (String c2 s2 ++ String "013" ""))).
  rewrite IH. reflexivity.
Qed.

Lemma drop_last_cr_id : forall s, ends_cr s = false -> drop_last_cr s = s.
Proof.
  induction s as [|c s IH]; intros H; [reflexivity|].
  destruct s as [|c2 s2].
  - unfold ends_cr in H. simpl in H. simpl. rewrite H. reflexivity.
  - change (drop_last_cr (String c (String c2 s2))) with (String c (drop_last_cr (String c2 s2))).
    rewrite IH; [reflexivity|]. unfold ends_cr in *. simpl in *. exact H.
Qed.

(** a line and its terminator: LF ([crlf] = false) or CRLF *)
Definition line_text (p : string * bool) : string :=
  fst p ++ (if snd p then String "013" (String "010" "") else String "010" "").
Definition file_text (l : list (string * bool)) : string := fold_right (fun p acc => line_text p ++ acc) "" l.
Definition short_line (bufsz : nat) (p : string * bool) : Prop :=
  nolf (fst p) = true /\ ends_cr (fst p) = false /\ String.length (fst p) + 1 < bufsz.

Lemma length_app_m : forall a b : string, String.length (a ++ b) = String.length a + String.length b.
Proof. induction a; simpl; intros; auto. Qed.

Lemma nolf_app : forall a b, nolf (a ++ b) = nolf a && nolf b.
Proof. induction a as [|c a IH]; intros b; simpl; [reflexivity|]. rewrite IH. apply andb_assoc. Qed.

Lemma phys_reads_lines : forall bufsz l fuel,
    Forall (short_line bufsz) l -> String.length (file_text l) < fuel ->
    phys_reads fuel bufsz (file_text l) = whole_lines (map fst l).
Proof.
  intros bufsz. induction l as [|[line crlf] r IH]; intros fuel H L.
  - destruct fuel; reflexivity.
  - inversion H as [|? ? [H1 [H2 H3]] Hr]; subst. simpl fst in *. simpl snd in *.
    destruct fuel as [|f]; [lia|].
    cbn [file_text fold_right] in *. fold (file_text r) in *. unfold line_text in *. cbn [fst snd] in *.
    cbn [phys_reads].
    destruct crlf.
    + replace ((line ++ String "013" (String "010" "")) ++ file_text r)
        with ((line ++ String "013" "") ++ String "010" (file_text r)) in *
        by (rewrite !app_assoc_m; reflexivity).
      destruct ((line ++ String "013" "") ++ String "010" (file_text r)) as [|c0 s0] eqn:E0;
        [destruct line; discriminate E0|]. rewrite <- E0.
      rewrite read_slice_line.
      * rewrite drop_last_cr_snoc. cbn [whole_lines map]. f_equal.
        apply IH; [exact Hr|]. rewrite <- E0 in L. rewrite !length_app_m in L. simpl in L. lia.
      * rewrite nolf_app, H1. reflexivity.
      * rewrite length_app_m. simpl. lia.
    + replace ((line ++ String "010" "") ++ file_text r) with (line ++ String "010" (file_text r)) in *
        by (rewrite app_assoc_m; reflexivity).
      destruct (line ++ String "010" (file_text r)) as [|c0 s0] eqn:E0; [destruct line; discriminate E0|]. rewrite <- E0.
      rewrite read_slice_line; [|exact H1|lia].
      rewrite (drop_last_cr_id line H2). cbn [whole_lines map]. f_equal.
      apply IH; [exact Hr|]. rewrite <- E0 in L. rewrite length_app_m in L. simpl in L. lia.
Qed.

Lemma chunked_whole : forall ls, Forall2 chunked ls (map (fun s => [(s, false)]) ls).
Proof. induction ls; simpl; constructor; [constructor|assumption]. Qed.

Lemma concat_whole : forall ls, concat (map (fun s : string => [(s, false)]) ls) = whole_lines ls.
Proof. induction ls as [|a l IH]; [reflexivity|]. simpl. rewrite IH. reflexivity. Qed.

Section Bytes.
  Variable fmt : Q -> string.
  Variable numeric : string -> bool.
  Variable parse_num : string -> option Q.
  Variable numok : Q -> bool.
  Hypothesis SC : strconv_ok fmt numeric parse_num numok.

  (** one tree per line, trailing blanks, LF or CRLF, lines shorter than the buffer: the bytes
      of the file go through bufio.ReadLine (Model phys_reads) and the reader loop *)
  Theorem multi_file_delivered : forall bufsz (l : list (utree * string * bool)),
      l <> [] ->
      Forall (fun q => line_ok numeric numok (fst q) /\
                       short_line bufsz (tree_line fmt (fst q), snd q)) l ->
      let text := file_text (map (fun q => (tree_line fmt (fst q), snd q)) l) in
      read_multi (np_nw numeric parse_num) (phys_reads (S (String.length text)) bufsz text) =
      MDone (records fmt parse_num 0 (map fst l)).
  Proof.
    intros bufsz l NE H text. unfold text.
    rewrite phys_reads_lines; [|apply Forall_forall; intros p Hp; apply in_map_iff in Hp;
                                 destruct Hp as [q [E Hq]]; subst p; rewrite Forall_forall in H; exact (proj2 (H q Hq))|lia].
    rewrite map_map. cbn [fst].
    rewrite <- concat_whole.
    replace (map (fun x : utree * string * bool => tree_line fmt (fst x)) l) with (map (tree_line fmt) (map fst l))
      by (rewrite map_map; reflexivity).
    apply (multi_list_delivered fmt numeric parse_num numok SC (map fst l)).
    - destruct l; [contradiction NE; reflexivity|discriminate].
    - apply Forall_forall. intros p Hp. apply in_map_iff in Hp. destruct Hp as [q [E Hq]]. subst p.
      rewrite Forall_forall in H. exact (proj1 (H q Hq)).
    - apply chunked_whole.
  Qed.
End Bytes.
