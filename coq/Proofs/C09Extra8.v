(** C09, round 8: the RESULT (the inner branches of the constructed consensus tree, with lengths and
    supports) does not depend on the order of the collection, nor on the rooting or the order of
    the children of any input tree; the selection at the ends of the threshold range. *)
From Coq Require Import String NArith ZArith QArith Bool Arith Lia List Permutation.
From GT Require Import Base.UTree Spec.Obs Spec.Unrooted Spec.ConsensusSpec Model.Reroot Model.Consensus Model.ConsensusTree
     Proofs.Unroot Proofs.USplits Proofs.IndexSplit Proofs.ConsensusFloat Proofs.ConsensusRound Proofs.ConsensusRooted Proofs.ConsensusTreeMain.
Import ListNotations.
Local Close Scope Q_scope.

(** two trees carry the same bipartitions with the same data *)
Definition sim (t t' : utree) : Prop :=
  forall k, orel split_weq (tree_split t' k) (tree_split t k).

Lemma reroot_sim t i t' : good t -> reroot t i = Ok t' -> sim t t'.
Proof. intros (W & D & N) R k. unfold tree_split. eapply orel_mono; [exact split_qeq_weq|]. eapply reroot_usplits; eauto. Qed.

Lemma tperm_sim t t' : tperm t t' -> sim t t'.
Proof. intros T k. unfold tree_split. eapply orel_mono; [exact split_qeq_weq|]. now apply tperm_usplits. Qed.

(** a rooted input and its unrooted version (the two root branches merged, lengths added) *)
Lemma unroot_sim t :
  wf t = true -> rooted t = true -> root_has_inner_child t = true -> NoDup (leaves t) -> sim t (unroot t).
Proof. intros W R I N k. unfold tree_split. now apply unroot_usplits. Qed.

Lemma sim_has t t' k : sim t t' -> tree_has t' k = tree_has t k.
Proof.
  intros S. specialize (S k). unfold tree_has.
  destruct (tree_split t' k), (tree_split t k); simpl in S; auto; contradiction.
Qed.

Lemma sim_freq ts ts' k : Forall2 sim ts ts' -> freq_count ts' k = freq_count ts k.
Proof.
  intros F. apply freq_count_pointwise. induction F; constructor; auto. now apply sim_has.
Qed.

Lemma sim_lens ts ts' k : Forall2 sim ts ts' -> Forall2 Qeq (lens_of ts' k) (lens_of ts k).
Proof.
  intros F. unfold lens_of. induction F as [|t t' ts ts' S F IH]; simpl; [constructor|].
  specialize (S k). destruct (tree_split t' k) as [s'|], (tree_split t k) as [s|]; simpl in S; try contradiction; simpl; auto.
  constructor; auto. destruct S as (_ & L). exact L.
Qed.

Lemma qsum_F2 l l' : Forall2 Qeq l l' -> (qsum l == qsum l')%Q /\ length l = length l'.
Proof.
  induction 1 as [|x y l l' E F [IH1 IH2]]; simpl; [split; reflexivity|].
  split; [rewrite E, IH1; reflexivity|now f_equal].
Qed.

Lemma mean_F2 l l' : Forall2 Qeq l l' -> (mean l == mean l')%Q.
Proof. intros F. destruct (qsum_F2 l l' F) as [E1 E2]. unfold mean. rewrite E1, E2. reflexivity. Qed.

Lemma qsum_perm l l' : Permutation l l' -> (qsum l == qsum l')%Q.
Proof.
  induction 1 as [|x l l' P IH|x y l|l l1 l2 P1 IH1 P2 IH2]; simpl.
  - reflexivity.
  - rewrite IH. reflexivity.
  - ring.
  - now rewrite IH1.
Qed.

Lemma mean_perm l l' : Permutation l l' -> (mean l == mean l')%Q.
Proof. intros P. unfold mean. rewrite (qsum_perm _ _ P), (Permutation_length P). reflexivity. Qed.

Lemma lens_perm ts ts' k : Permutation ts ts' -> Permutation (lens_of ts k) (lens_of ts' k).
Proof. intros P. unfold lens_of. now apply Permutation_flat_map. Qed.

Lemma has_key_in t k : tree_has t k = true -> In k (map sside (usplits t)).
Proof.
  unfold tree_has, tree_split, find_split. destruct (find _ (usplits t)) as [s|] eqn:E; [|discriminate].
  intros _. apply find_some in E. destruct E as [Hin He]. apply sset_eqb_eq in He. subst k.
  now apply in_map.
Qed.

Lemma all_keys_has ts k : In k (all_keys ts) <-> exists t, In t ts /\ tree_has t k = true.
Proof.
  rewrite all_keys_In_iff. split; intros (t & Ht & H); exists t; split; auto.
  - now apply usplits_key_has.
  - now apply has_key_in.
Qed.

Lemma F2_in_l {A B} (R : A -> B -> Prop) l l' x : Forall2 R l l' -> In x l -> exists y, In y l' /\ R x y.
Proof.
  induction 1 as [|a b l l' H F IH]; simpl; intros Hin; [destruct Hin|].
  destruct Hin as [->|Hin]; [exists b; auto|]. destruct (IH Hin) as (y & Hy & Hr). exists y; auto.
Qed.

Lemma F2_in_r {A B} (R : A -> B -> Prop) l l' y : Forall2 R l l' -> In y l' -> exists x, In x l /\ R x y.
Proof.
  induction 1 as [|a b l l' H F IH]; simpl; intros Hin; [destruct Hin|].
  destruct Hin as [->|Hin]; [exists a; auto|]. destruct (IH Hin) as (x & Hx & Hr). exists x; auto.
Qed.

Lemma F2_mono {A B} (R R' : A -> B -> Prop) : (forall a b, R a b -> R' a b) -> forall l l', Forall2 R l l' -> Forall2 R' l l'.
Proof. intros H l l' F. induction F; constructor; auto. Qed.

(** [ts'] is [ts] in another order, every tree replaced by one with the same bipartitions *)
Definition variant (ts ts' : list utree) : Prop :=
  exists ts1, Permutation ts ts1 /\ Forall2 sim ts1 ts'.

(** the three ingredients of the result are the same for both collections *)
Theorem consensus_data_invariant ts ts' k :
  variant ts ts' ->
  length ts' = length ts /\
  freq_count ts' k = freq_count ts k /\
  (mean (lens_of ts' k) == mean (lens_of ts k))%Q /\
  (In k (all_keys ts') <-> In k (all_keys ts)).
Proof.
  intros (ts1 & P & F). repeat split.
  - rewrite <- (Forall2_length' _ _ _ F). symmetry. apply (Permutation_length P).
  - rewrite (sim_freq ts1 ts' k F). symmetry. now apply freq_count_perm.
  - rewrite (mean_F2 _ _ (sim_lens ts1 ts' k F)). symmetry. apply mean_perm, lens_perm, P.
  - rewrite all_keys_has. intros (t' & Ht' & H). destruct (F2_in_r _ _ _ t' F Ht') as (t & Ht & S).
    apply all_keys_has. exists t. split; [apply (Permutation_in _ (Permutation_sym P) Ht)|].
    now rewrite <- (sim_has t t' k S).
  - rewrite all_keys_has. intros (t & Ht & H). apply (Permutation_in _ P) in Ht.
    destruct (F2_in_l _ _ _ t F Ht) as (t' & Ht' & S).
    apply all_keys_has. exists t'. split; auto. now rewrite (sim_has t t' k S).
Qed.

(** the inner branches of the constructed consensus tree: same bipartitions, same lengths, same supports *)
Theorem consensus_result_invariant (t0 : utree) (r : list utree) (t0' : utree) (r' : list utree) (cutoff : Q) :
  let all := tipset t0 in
  Forall (fun t => good t /\ tipset t = all) (t0 :: r) ->
  Forall (fun t => good t /\ tipset t = all) (t0' :: r') ->
  variant (t0 :: r) (t0' :: r') ->
  ((1 # 2) <= cutoff)%Q -> (cutoff <= 1)%Q -> (Zpos (Qden cutoff) * Z.of_nat (length (t0 :: r)) < 2 ^ 52)%Z ->
  forall s, In s (branch_splits all (consensus_utree (t0 :: r) (round53 cutoff))) -> stip s = false ->
    exists s', In s' (branch_splits all (consensus_utree (t0' :: r') (round53 cutoff))) /\ stip s' = false /\
               split_qeq s s'.
Proof.
  intros all G G' V C1 C2 Cs s Hs Ht.
  assert (E0 : tipset t0' = all) by (inversion G' as [|? ? [_ E] _]; exact E).
  assert (Hl : length (t0' :: r') = length (t0 :: r)) by (destruct (consensus_data_invariant _ _ [] V) as (L & _); exact L).
  pose proof (consensus_headline t0 r cutoff G C1 C2 Cs s) as H1. cbv zeta in H1. fold all in H1.
  destruct H1 as [H1 _]. destruct (H1 (conj Hs Ht)) as (k & K1 & K2 & K3 & K4 & ->). clear H1.
  destruct (consensus_data_invariant _ _ k V) as (_ & Ef & Em & Ek).
  assert (G'' : Forall (fun t => good t /\ tipset t = tipset t0') (t0' :: r')) by (rewrite E0; exact G').
  assert (Cs' : (Zpos (Qden cutoff) * Z.of_nat (length (t0' :: r')) < 2 ^ 52)%Z) by (rewrite Hl; exact Cs).
  pose proof (consensus_headline t0' r' cutoff G'' C1 C2 Cs') as H2. cbv zeta in H2. rewrite E0 in H2.
  eexists. split; [|split].
  - apply (H2 _). exists k. split; [apply Ek; exact K1|]. split; [exact K2|]. split; [exact K3|].
    split; [|reflexivity]. rewrite Hl, Ef. exact K4.
  - reflexivity.
  - unfold split_qeq; cbn [sside slen ssup stip]. split; [reflexivity|split; [|split; [|reflexivity]]].
    + symmetry. exact Em.
    + rewrite Hl, Ef. reflexivity.
Qed.

(** [sim] is an equivalence-like relation, so any chain of re-rootings and re-orderings is covered *)
Lemma sim_refl t : sim t t.
Proof. intros k. apply orel_refl, split_weq_refl. Qed.

Lemma sim_trans t t' t'' : sim t t' -> sim t' t'' -> sim t t''.
Proof. intros S1 S2 k. eapply orel_trans; [exact split_weq_trans|apply S2|apply S1]. Qed.

(** one step of re-rooting or re-ordering of the children, or nothing *)
Inductive rstep : utree -> utree -> Prop :=
| rs_refl t : rstep t t
| rs_reroot t i t' : good t -> reroot t i = Ok t' -> rstep t t'
| rs_tperm t t' : tperm t t' -> rstep t t'
| rs_unroot t : wf t = true -> rooted t = true -> root_has_inner_child t = true -> NoDup (leaves t) -> rstep t (unroot t)
| rs_trans t t' t'' : rstep t t' -> rstep t' t'' -> rstep t t''.

Lemma rstep_sim t t' : rstep t t' -> sim t t'.
Proof.
  induction 1 as [t|t i t' G R|t t' T|t W R I N|t t' t'' _ IH1 _ IH2].
  - apply sim_refl.
  - eapply reroot_sim; eauto.
  - now apply tperm_sim.
  - now apply unroot_sim.
  - eapply sim_trans; eauto.
Qed.

(** the words of the property: the collection in any order, every input re-rooted and its children
    re-ordered any number of times *)
Corollary consensus_order_rooting_childorder (t0 : utree) (r : list utree) (t0' : utree) (r' ts1 : list utree) (cutoff : Q) :
  let all := tipset t0 in
  Forall (fun t => good t /\ tipset t = all) (t0 :: r) ->
  Forall (fun t => good t /\ tipset t = all) (t0' :: r') ->
  Permutation (t0 :: r) ts1 -> Forall2 rstep ts1 (t0' :: r') ->
  ((1 # 2) <= cutoff)%Q -> (cutoff <= 1)%Q -> (Zpos (Qden cutoff) * Z.of_nat (length (t0 :: r)) < 2 ^ 52)%Z ->
  forall s, In s (branch_splits all (consensus_utree (t0 :: r) (round53 cutoff))) -> stip s = false ->
    exists s', In s' (branch_splits all (consensus_utree (t0' :: r') (round53 cutoff))) /\ stip s' = false /\
               split_qeq s s'.
Proof.
  intros all G G' P F C1 C2 Cs.
  assert (V : variant (t0 :: r) (t0' :: r')).
  { exists ts1. split; [exact P|]. exact (F2_mono _ _ rstep_sim _ _ F). }
  exact (consensus_result_invariant t0 r t0' r' cutoff G G' V C1 C2 Cs).
Qed.

(** tip branches: the mean length of a tip branch is the same for both collections (it is the
    [mean (lens_of ts (tip_key all x))] of [consensus_utree_spec]) *)
Corollary tip_mean_invariant ts ts' all x :
  variant ts ts' -> (mean (lens_of ts' (tip_key all x)) == mean (lens_of ts (tip_key all x)))%Q.
Proof. intros V. destruct (consensus_data_invariant ts ts' (tip_key all x) V) as (_ & _ & E & _). exact E. Qed.

(** * the ends of the threshold range *)
(** threshold 1 (strict consensus): exactly the bipartitions present in every tree *)
Theorem keep_split_at_one (n c : Z) :
  (0 < c <= n)%Z -> (n < 2 ^ 52)%Z -> (keep_split (round53 1) n c = true <-> c = n).
Proof.
  intros B L.
  rewrite (keep_split_exact 1 n c); [|reflexivity|apply Qle_refl|exact B|change (Zpos (Qden 1)) with 1%Z; rewrite Z.mul_1_l; exact L].
  split; [|now right]. intros [H|H]; auto. exfalso.
  assert (Hn : (0 < inject_Z n)%Q) by (unfold Qlt; simpl; lia).
  apply (Qmult_lt_r _ _ _ Hn) in H. unfold Qdiv in H.
  rewrite <- Qmult_assoc, (Qmult_comm (/ _)), Qmult_inv_r, Qmult_1_r, Qmult_1_l in H.
  - unfold Qlt in H. simpl in H. lia.
  - intro E. rewrite E in Hn. now apply Qlt_irrefl in Hn.
Qed.

(** a frequency exactly equal to the threshold is not enough, unless the bipartition is in every tree *)
Theorem keep_split_on_threshold (cutoff : Q) (n c : Z) :
  (0 < cutoff)%Q -> (cutoff <= 1)%Q -> (0 < c <= n)%Z -> (Zpos (Qden cutoff) * n < 2 ^ 52)%Z ->
  (inject_Z c / inject_Z n == cutoff)%Q ->
  (keep_split (round53 cutoff) n c = true <-> c = n).
Proof.
  intros C0 C1 B L E. rewrite (keep_split_exact cutoff n c C0 C1 B L).
  split; [|now right]. intros [H|H]; auto. rewrite E in H. now apply Qlt_irrefl in H.
Qed.

(** * non-vacuity: ((a,b),c,d) twice and the star; the variant re-orders the collection *)
Local Open Scope string_scope.
Example variant_example :
  let ts := [CompareCor.wit_ref; CompareCor.wit_ref; CompareCor.wit_star] in
  let ts' := [CompareCor.wit_star; CompareCor.wit_ref; CompareCor.wit_ref] in
  variant ts ts' /\
  (exists s, In s (branch_splits (tipset CompareCor.wit_ref) (consensus_utree ts' (round53 (1 # 2)))) /\
             stip s = false /\ sside s = ["c"; "d"] /\ (ssup s == 2 # 3)%Q) /\
  keep_split (round53 1) 3 2 = false /\ keep_split (round53 1) 3 3 = true /\
  keep_split (round53 (1 # 2)) 4 2 = false.
Proof.
  cbv zeta. split; [|split].
  - exists [CompareCor.wit_star; CompareCor.wit_ref; CompareCor.wit_ref]. split.
    + apply Permutation_sym. apply (Permutation_cons_app [CompareCor.wit_ref; CompareCor.wit_ref] [] CompareCor.wit_star).
      reflexivity.
    + repeat constructor; intros k; apply orel_refl; apply split_weq_refl.
  - eexists. split; [vm_compute; right; right; left; reflexivity|]. repeat split; vm_compute; reflexivity.
  - vm_compute. repeat split; reflexivity.
Qed.

(** a genuine re-rooting step: ((a,b),c,d) re-rooted at its inner node *)
Example rstep_example :
  exists t', reroot CompareCor.wit_ref 1 = Ok t' /\ utree_eqb t' CompareCor.wit_ref = false /\
             rstep CompareCor.wit_ref t' /\ good t' /\ tipset t' = tipset CompareCor.wit_ref.
Proof.
  assert (N : NoDup ["a"; "b"; "c"; "d"]) by (repeat constructor; simpl; intuition discriminate).
  assert (N' : NoDup ["c"; "d"; "a"; "b"]) by (repeat constructor; simpl; intuition discriminate).
  assert (L1 : leaves CompareCor.wit_ref = ["a"; "b"; "c"; "d"]) by (vm_compute; reflexivity).
  assert (G1 : good CompareCor.wit_ref) by (unfold good; rewrite L1; repeat split; auto; vm_compute; auto).
  destruct (reroot CompareCor.wit_ref 1) as [t'|?] eqn:E; try (vm_compute in E; discriminate).
  exists t'. split; [reflexivity|].
  assert (R : rstep CompareCor.wit_ref t') by (eapply rs_reroot; eauto).
  vm_compute in E. injection E as <-.
  split; [vm_compute; reflexivity|]. split; [exact R|]. split; [|vm_compute; reflexivity].
  unfold good. split; [vm_compute; reflexivity|]. split; [vm_compute; lia|]. exact N'.
Qed.

(** a genuine unrooting step: ((a,b),(c,d)) and its unrooted version are [rstep]-related *)
Example unroot_example :
  rstep wit_rooted (unroot wit_rooted) /\ utree_eqb (unroot wit_rooted) wit_rooted = false /\
  degree (unroot wit_rooted) = 3.
Proof.
  split; [|split; vm_compute; reflexivity].
  apply rs_unroot; try (vm_compute; reflexivity).
  assert (L : leaves wit_rooted = ["a"; "b"; "c"; "d"]) by (vm_compute; reflexivity).
  rewrite L. repeat constructor; simpl; intuition discriminate.
Qed.
