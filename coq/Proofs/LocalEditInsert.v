(** C15: InsertIdenticalTip(s): the new tips are exactly the requested ones, path lengths
    between the other tips do not change, a new tip is at distance zero from its model. *)
From Coq Require Import String ZArith QArith Bool Arith Lia List Permutation Setoid Morphisms.
From GT Require Import Base.UTree Spec.Obs Model.Reroot Spec.Unrooted
     Proofs.RerootBase Proofs.PruneBase Model.LocalEdit Proofs.LocalEditBase Proofs.LocalEdit
     Proofs.MatrixCells.
Import ListNotations.
Local Close Scope Q_scope.
Local Arguments n_up : simpl never.

(** * what happens at the parent of the existing tip *)
Definition cherry (old new : string) (cx : list string) : utree :=
  UNode "" [] [Some (zedge, new_tip new); None; Some (zedge, UNode old cx [None])].

Inductive insert_base (old new : string) : utree -> utree -> Prop :=
| ib_cherry n c sl1 e cx sl2 :
    qeqb (elen e) 0%Q = false ->
    insert_base old new (UNode n c (sl1 ++ Some (e, UNode old cx [None]) :: sl2))
                (UNode n c (sl1 ++ Some (e, cherry old new cx) :: sl2))
| ib_zero n c sl1 e cx sl2 :
    qeqb (elen e) 0%Q = true ->
    insert_base old new (UNode n c (sl1 ++ Some (e, UNode old cx [None]) :: sl2))
                (UNode n c (sl1 ++ Some (e, UNode old cx [None]) :: sl2 ++ [Some (zedge, new_tip new)])).

Lemma insert_sub_edited old new t :
  forall t', kids_wf t -> insert_sub old new t = Some t' -> edited (insert_base old new) t t'.
Proof.
  induction t as [n c sl IH] using utree_ind'. intros t' W H. simpl in H.
  match type of H with
  | match ?F sl with _ => _ end = _ =>
    assert (G : forall l l', Forall (fun s : slot => match s with
                                       | Some (_, t) => forall t', kids_wf t -> insert_sub old new t = Some t' ->
                                                                   edited (insert_base old new) t t'
                                       | None => True end) l ->
                             forallb (fun p => wf_sub (snd p)) (kids_of l) = true ->
                             F l = Some l' ->
                             (exists sl1 e cx sl2, l = sl1 ++ Some (e, UNode old cx [None]) :: sl2 /\
                                 ((qeqb (elen e) 0%Q = false /\ l' = sl1 ++ Some (e, cherry old new cx) :: sl2) \/
                                  (qeqb (elen e) 0%Q = true /\
                                   l' = sl1 ++ Some (e, UNode old cx [None]) :: sl2 ++ [Some (zedge, new_tip new)]))) \/
                             (exists sl1 e ch ch' sl2, l = sl1 ++ Some (e, ch) :: sl2 /\
                                                       l' = sl1 ++ Some (e, ch') :: sl2 /\
                                                       edited (insert_base old new) ch ch'))
  end.
  { clear. induction l as [|[[e ch]|] r IHr]; intros l' HF W H; simpl in H; [discriminate| |].
    - inversion HF as [|? ? Hc HFr]; subst. simpl in W. apply andb_true_iff in W as [W1 W2].
      destruct (is_tip ch && String.eqb (uname ch) old) eqn:E.
      + apply andb_true_iff in E as [E1 E2]. apply String.eqb_eq in E2.
        destruct (tip_shape ch W1 E1) as [cx Hx]. rewrite E2 in Hx. clear E2. subst ch.
        left. exists [], e, cx, r. split; [reflexivity|].
        destruct (qeqb (elen e) 0%Q); injection H as Hl; subst l'; [right|left]; split; reflexivity.
      + destruct (insert_sub old new ch) as [ch'|] eqn:Eg.
        * inversion H; subst. right. exists [], e, ch, ch', r. repeat split.
          apply Hc; auto. unfold kids_wf. destruct ch as [n1 c1 s1].
          rewrite wf_sub_unfold in W1. apply andb_true_iff in W1 as [_ W1]. exact W1.
        * match type of H with match ?X with _ => _ end = _ => destruct X as [r'|] eqn:Er end; [|discriminate].
          inversion H; subst.
          destruct (IHr r' HFr W2 eq_refl) as [[sl1 [e1 [cx [sl2 [A B]]]]]|[sl1 [e1 [c1 [c1' [sl2 [A [B C]]]]]]]]; subst.
          -- left. exists (Some (e, ch) :: sl1), e1, cx, sl2. split; [reflexivity|].
             destruct B as [[Q ->]|[Q ->]]; [left|right]; split; auto.
          -- right. exists (Some (e, ch) :: sl1), e1, c1, c1', sl2. repeat split; auto.
    - inversion HF as [|? ? Hc HFr]; subst. simpl in W.
      match type of H with match ?X with _ => _ end = _ => destruct X as [r'|] eqn:Er end; [|discriminate].
      inversion H; subst.
      destruct (IHr r' HFr W eq_refl) as [[sl1 [e1 [cx [sl2 [A B]]]]]|[sl1 [e1 [c1 [c1' [sl2 [A [B C]]]]]]]]; subst.
      + left. exists (None :: sl1), e1, cx, sl2. split; [reflexivity|].
        destruct B as [[Q ->]|[Q ->]]; [left|right]; split; auto.
      + right. exists (None :: sl1), e1, c1, c1', sl2. repeat split; auto. }
  match type of H with
  | match ?X with _ => _ end = _ => destruct X as [sl'|] eqn:Es
  end; [|discriminate].
  inversion H; subst.
  destruct (G sl sl' IH W Es) as [[sl1 [e1 [cx [sl2 [A B]]]]]|[sl1 [e1 [c1 [c1' [sl2 [A [B C]]]]]]]]; subst.
  - apply ed_here. destruct B as [[Q ->]|[Q ->]]; [now apply ib_cherry|now apply ib_zero].
  - now apply ed_below.
Qed.

(** * the base step *)
Lemma wf_sub_tip n c : wf_sub (UNode n c [None]) = true.
Proof. reflexivity. Qed.

Lemma insert_base_wf_sub old new a b : insert_base old new a b -> wf_sub a = true -> wf_sub b = true.
Proof.
  intros H. destruct H.
  - rewrite !wf_sub_mid. intros H0. repeat (apply andb_true_iff in H0 as [H0 ?]).
    rewrite H0, H3, H1. reflexivity.
  - replace (sl1 ++ Some (e, UNode old cx [None]) :: sl2 ++ [Some (zedge, new_tip new)])
      with ((sl1 ++ Some (e, UNode old cx [None]) :: sl2) ++ [Some (zedge, new_tip new)])
      by (now rewrite <- app_assoc).
    set (S := sl1 ++ Some (e, UNode old cx [None]) :: sl2).
    rewrite !wf_sub_unfold, n_up_app, kids_of_app, forallb_app.
    change (n_up [Some (zedge, new_tip new)]) with 0.
    intros H0. apply andb_true_iff in H0 as [H0 H1]. rewrite H1, Nat.add_0_r, H0. reflexivity.
Qed.

Lemma insert_base_wf old new a b : insert_base old new a b -> wf a = true -> wf b = true.
Proof.
  intros H. destruct H.
  - rewrite !wf_mid. intros H0. repeat (apply andb_true_iff in H0 as [H0 ?]).
    rewrite H0, H3, H1. reflexivity.
  - replace (sl1 ++ Some (e, UNode old cx [None]) :: sl2 ++ [Some (zedge, new_tip new)])
      with ((sl1 ++ Some (e, UNode old cx [None]) :: sl2) ++ [Some (zedge, new_tip new)])
      by (now rewrite <- app_assoc).
    set (S := sl1 ++ Some (e, UNode old cx [None]) :: sl2).
    rewrite !wf_unfold, n_up_app, kids_of_app, forallb_app.
    change (n_up [Some (zedge, new_tip new)]) with 0.
    intros H0. apply andb_true_iff in H0 as [H0 H1]. rewrite H1, Nat.add_0_r, H0. reflexivity.
Qed.

Lemma leaves_snoc n c S (p0 : einfo * utree) :
  kids_of S <> [] -> leaves (UNode n c (S ++ [Some p0])) = leaves (UNode n c S) ++ leaves (snd p0).
Proof.
  intros H. rewrite !leaves_unfold, kids_of_app. simpl kids_of at 2.
  destruct (kids_of S) as [|k0 K] eqn:E; [congruence|].
  change ((k0 :: K) ++ [p0]) with (k0 :: (K ++ [p0])). cbv iota beta.
  rewrite kleaves_app. unfold kleaves at 2. simpl. now rewrite app_nil_r.
Qed.

Lemma insert_base_leaves old new a b :
  insert_base old new a b -> Permutation (leaves b ++ []) (leaves a ++ [new]).
Proof.
  intros H. destruct H.
  - rewrite !leaves_mid. simpl. perm.
  - replace (sl1 ++ Some (e, UNode old cx [None]) :: sl2 ++ [Some (zedge, new_tip new)])
      with ((sl1 ++ Some (e, UNode old cx [None]) :: sl2) ++ [Some (zedge, new_tip new)])
      by (now rewrite <- app_assoc).
    rewrite leaves_snoc by apply kids_of_nonempty_mid. simpl. now rewrite app_nil_r.
Qed.

Section Weights.
  Variable w : einfo -> Q.
  (** a branch of length zero weighs nothing (true of path lengths, [len0]) *)
  Hypothesis Hw : forall e, qeqb (elen e) 0%Q = true -> (w e == 0)%Q.

  Lemma w_zedge : (w zedge == 0)%Q.
  Proof. apply Hw. reflexivity. Qed.

  Lemma insert_base_obs k old new a b :
    k new = false -> insert_base old new a b -> obs_eq w k a b.
  Proof.
    intros Kn H. destruct H.
    - eapply node_obs; try apply kids_of_nonempty_mid; [reflexivity|].
      rewrite !kids_of_app. simpl. apply Forall2_app; [apply Forall2_kid_eq_refl|].
      constructor; [|apply Forall2_kid_eq_refl].
      unfold kid_eq, ceq, fC, contrib_of, cherry. cbn [fst snd].
      rewrite !depths_unfold, !pairdists_unfold. simpl. unfold kpd. simpl. rewrite Kn. simpl.
      destruct (k old); simpl; split; try reflexivity.
      apply deq_Forall2. constructor; [|constructor]. split; simpl; auto.
      rewrite w_zedge. ring.
    - replace (sl1 ++ Some (e, UNode old cx [None]) :: sl2 ++ [Some (zedge, new_tip new)])
        with ((sl1 ++ Some (e, UNode old cx [None]) :: sl2) ++ [Some (zedge, new_tip new)])
        by (now rewrite <- app_assoc).
      set (S := sl1 ++ Some (e, UNode old cx [None]) :: sl2).
      assert (HS : kids_of S <> []) by apply kids_of_nonempty_mid.
      eapply node_obs_drop with (p0 := (zedge, new_tip new)) (ks2 := kids_of S); auto.
      + rewrite kids_of_app. destruct (kids_of S); [congruence|discriminate].
      + unfold fC, contrib_of, new_tip. cbn [fst snd]. rewrite depths_unfold, pairdists_unfold.
        simpl. now rewrite Kn.
      + rewrite kids_of_app. simpl. perm.
      + apply Forall2_kid_eq_refl.
  Qed.

  (** the new tip is at distance zero from its model *)
  Definition zero_dist (a b : string) (t : utree) : Prop :=
    exists d, In (a, b, d) (pairdists w t) /\ (d == 0)%Q.

  Lemma zero_dist_below a b n c sl1 e ch sl2 :
    zero_dist a b ch -> zero_dist a b (UNode n c (sl1 ++ Some (e, ch) :: sl2)).
  Proof.
    intros [d [H Hq]]. exists d. split; auto. rewrite pairdists_unfold, in_app_iff. right.
    unfold kpd. apply in_flat_map. exists (e, ch). split; auto.
    rewrite kids_of_app, in_app_iff. right. now left.
  Qed.

  Lemma in_cross_all x d1 d2 post : forall pre,
    In d2 post -> In x (cross d1 d2) -> In x (cross_all (pre ++ d1 :: post)).
  Proof.
    induction pre as [|p pre IH]; intros H2 Hx; simpl.
    - apply in_app_iff. left. apply in_flat_map. exists d2. split; auto. apply in_app_iff. now left.
    - apply in_app_iff. right. now apply IH.
  Qed.

  Lemma insert_base_zero old new a b : insert_base old new a b -> zero_dist old new b.
  Proof.
    intros H. destruct H.
    - apply zero_dist_below. unfold zero_dist, cherry. rewrite pairdists_unfold. simpl.
      eexists. split; [right; left; reflexivity|]. simpl. rewrite w_zedge. ring.
    - unfold zero_dist. rewrite pairdists_unfold.
      rewrite app_comm_cons, app_assoc, kids_of_app, kids_of_app. simpl kids_of.
      rewrite <- app_assoc. simpl app. unfold kD. rewrite map_app. simpl map.
      eexists. split.
      + apply in_app_iff. left.
        apply (in_cross_all _ (shift (w e) (depths w (UNode old cx [None])))
                            (shift (w zedge) (depths w (new_tip new)))).
        * rewrite map_app. apply in_app_iff. right. now left.
        * simpl. left. reflexivity.
      + simpl. rewrite w_zedge, (Hw e H). ring.
  Qed.

  Lemma edited_zero old new t t' : edited (insert_base old new) t t' -> zero_dist old new t'.
  Proof. induction 1; [eapply insert_base_zero; eauto|now apply zero_dist_below]. Qed.
End Weights.

(** * one insertion: InsertIdenticalTip *)
Definition istep (old nm : string) (t t' : utree) : Prop :=
  wf t = true /\ insert_sub old nm t = Some t' /\ ~ In nm (leaves t).

Lemma istep_edited old nm t t' : istep old nm t t' -> edited (insert_base old nm) t t'.
Proof.
  intros [W [H _]]. apply insert_sub_edited; auto.
  unfold kids_wf. destruct t as [n c sl]. rewrite wf_unfold in W.
  apply andb_true_iff in W as [_ W]. exact W.
Qed.

Lemma istep_wf old nm t t' : istep old nm t t' -> wf t' = true.
Proof.
  intros H. apply (edited_wf (insert_base old nm) t t'); try apply H.
  - intros a b. apply insert_base_wf.
  - intros a b. apply insert_base_wf_sub.
  - now apply istep_edited.
Qed.

Lemma istep_leaves old nm t t' : istep old nm t t' -> Permutation (leaves t') (nm :: leaves t).
Proof.
  intros H. assert (P := edited_leaves (insert_base old nm) [] [nm] t t'
                                       (insert_base_leaves old nm) (istep_edited _ _ _ _ H)).
  rewrite app_nil_r in P. rewrite P. perm.
Qed.

Lemma edited_old_leaf old nm t t' : edited (insert_base old nm) t t' -> In old (leaves t).
Proof.
  induction 1.
  - destruct H; rewrite leaves_mid; rewrite !in_app_iff; right; left; now left.
  - rewrite leaves_mid, !in_app_iff. auto.
Qed.

Lemma istep_old_leaf old nm t t' : istep old nm t t' -> In old (leaves t).
Proof. intros H. eapply edited_old_leaf, istep_edited; eauto. Qed.

(** * a sequence of insertions *)
Inductive iseq : list (string * string) -> utree -> utree -> Prop :=
| iseq_nil t : iseq [] t t
| iseq_cons o n ps t t1 t2 : istep o n t t1 -> iseq ps t1 t2 -> iseq ((o, n) :: ps) t t2.

Lemma iseq_app ps1 : forall ps2 t t1 t2, iseq ps1 t t1 -> iseq ps2 t1 t2 -> iseq (ps1 ++ ps2) t t2.
Proof.
  induction ps1 as [|[o n] ps1 IH]; intros ps2 t t1 t2 H1 H2.
  - inversion H1; subst. exact H2.
  - inversion H1; subst. simpl. econstructor; eauto.
Qed.

Lemma iseq_wf ps : forall t t', wf t = true -> iseq ps t t' -> wf t' = true.
Proof.
  induction ps as [|[o n] ps IH]; intros t t' W H; inversion H; subst; auto.
  eapply IH; [|eassumption]. eapply istep_wf; eauto.
Qed.

Lemma iseq_leaves ps : forall t t', iseq ps t t' -> Permutation (leaves t') (map snd ps ++ leaves t).
Proof.
  induction ps as [|[o n] ps IH]; intros t t' H; inversion H as [|? ? ? ? ? ? Hs Hr]; subst; simpl; auto.
  rewrite (IH _ _ Hr), (istep_leaves _ _ _ _ Hs). perm.
Qed.

Lemma iseq_fresh ps : forall t t',
    iseq ps t t' -> NoDup (map snd ps) /\ forall n, In n (map snd ps) -> ~ In n (leaves t).
Proof.
  induction ps as [|[o n] ps IH]; intros t t' H; inversion H as [|? ? ? ? ? ? Hs Hr]; subst; simpl.
  - split; [constructor|tauto].
  - destruct (IH _ _ Hr) as [N F]. assert (P := istep_leaves _ _ _ _ Hs).
    split.
    + constructor; auto. intros X. apply (F n X). apply (Permutation_in _ (Permutation_sym P)). now left.
    + intros m [<-|Hm]; [apply Hs|]. intros X. apply (F m Hm).
      apply (Permutation_in _ (Permutation_sym P)). now right.
Qed.

Section Seq.
  Variable w : einfo -> Q.
  Hypothesis Hw : forall e, qeqb (elen e) 0%Q = true -> (w e == 0)%Q.

  Lemma istep_obs k old nm t t' : k nm = false -> istep old nm t t' -> obs_eq w k t t'.
  Proof.
    intros K H. apply (edited_obs w k (insert_base old nm)); [|now apply istep_edited].
    intros a b. now apply insert_base_obs.
  Qed.

  Lemma iseq_obs k ps : forall t t',
      (forall n, In n (map snd ps) -> k n = false) -> iseq ps t t' -> obs_eq w k t t'.
  Proof.
    induction ps as [|[o n] ps IH]; intros t t' K H; inversion H as [|? ? ? ? ? ? Hs Hr]; subst.
    - apply obs_eq_refl.
    - eapply obs_eq_trans.
      + eapply istep_obs; [|eassumption]. apply K. now left.
      + apply IH; auto. intros m Hm. apply K. now right.
  Qed.

  (** path sums between the tips that were there before: unchanged *)
  Theorem iseq_dists ps t t' :
    iseq ps t t' ->
    dists_equiv (fP (fun x => negb (smem x (map snd ps))) (pairdists w t')) (pairdists w t).
  Proof.
    intros H. destruct (iseq_fresh _ _ _ H) as [_ F].
    assert (Min : forall x l, In x l -> smem x l = true).
    { intros x l X. unfold smem. apply existsb_exists. exists x. split; auto. apply String.eqb_refl. }
    assert (Mout : forall x l, ~ In x l -> smem x l = false).
    { intros x l X. unfold smem. destruct (existsb (String.eqb x) l) eqn:E; auto.
      apply existsb_exists in E. destruct E as [y [Hy E]]. apply String.eqb_eq in E. subst. tauto. }
    destruct (iseq_obs (fun x => negb (smem x (map snd ps))) ps t t') as [_ O]; auto.
    { intros n Hn. now rewrite (Min _ _ Hn). }
    symmetry. etransitivity; [|exact O]. rewrite fP_id; [reflexivity|].
    intros a b d X. apply pairdists_names in X. destruct X as [A B].
    split; rewrite Mout; auto; intros Y; eapply F; eauto.
  Qed.

  Lemma zero_dist_pres a b ps t t' :
    zero_dist w a b t -> iseq ps t t' ->
    (forall n, In n (map snd ps) -> n <> a /\ n <> b) -> zero_dist w a b t'.
  Proof.
    intros [d [Hin Hq]] H K.
    set (k := fun x : string => negb (smem x (map snd ps))).
    assert (Ka : forall x, (forall n, In n (map snd ps) -> n <> x) -> k x = true).
    { intros x Hx. unfold k, smem. destruct (existsb (String.eqb x) (map snd ps)) eqn:E; auto.
      apply existsb_exists in E. destruct E as [y [Hy E]]. apply String.eqb_eq in E. subst.
      exfalso. now apply (Hx y). }
    destruct (iseq_obs k ps t t') as [_ O]; auto.
    { intros n Hn. unfold k, smem.
      assert (existsb (String.eqb n) (map snd ps) = true) as ->; auto.
      apply existsb_exists. exists n. split; auto. apply String.eqb_refl. }
    assert (X : In (a, b, d) (fP k (pairdists w t))).
    { unfold fP. apply filter_In. split; auto. simpl.
      rewrite !Ka; auto; intros n Hn; now destruct (K n Hn). }
    destruct (dists_equiv_In _ _ O a b d X) as [d' [X' Hq']].
    exists d'. split.
    - unfold fP in X'. apply filter_In in X'. tauto.
    - now rewrite <- Hq'.
  Qed.

  Lemma iseq_zero ps : forall t t' o n,
      iseq ps t t' -> In (o, n) ps -> zero_dist w o n t'.
  Proof.
    induction ps as [|[o1 n1] ps IH]; intros t t' o n H Hin; [destruct Hin|].
    inversion H as [|? ? ? ? ? ? Hs Hr]; subst. destruct Hin as [E|Hin]; [|eapply IH; eauto].
    inversion E; subst.
    assert (Z : zero_dist w o n t1) by (eapply edited_zero, istep_edited; eauto).
    eapply zero_dist_pres; eauto.
    destruct (iseq_fresh _ _ _ Hr) as [_ F]. assert (P := istep_leaves _ _ _ _ Hs).
    intros m Hm. split; intros ->; apply (F _ Hm); apply (Permutation_in _ (Permutation_sym P)).
    - right. eapply istep_old_leaf; eauto.
    - now left.
  Qed.

  (** every entry of the specification between a new tip and its model is zero *)
  Theorem iseq_zero_all ps t t' o n d :
    NoDup (leaves t) -> iseq ps t t' -> In (o, n) ps -> In (o, n, d) (pairdists w t') -> (d == 0)%Q.
  Proof.
    intros N H Hin Hd. destruct (iseq_zero ps t t' o n H Hin) as [d0 [H0 Hq]].
    destruct (iseq_fresh _ _ _ H) as [N2 F].
    assert (N' : NoDup (leaves t')).
    { eapply Permutation_NoDup; [symmetry; apply iseq_leaves; eauto|].
      apply NoDup_app_intro; auto. }
    destruct (pairdists_keys w t' N') as [K _].
    assert (E : d = d0).
    { clear -K Hd H0. unfold keys in K. induction (pairdists w t') as [|[k v] l IH]; [destruct Hd|].
      simpl in K. inversion K as [|? ? Kx Kl]; subst. destruct Hd as [E1|Hd], H0 as [E2|H0].
      - congruence.
      - inversion E1; subst. exfalso. apply Kx. apply (in_map fst) in H0. exact H0.
      - inversion E2; subst. exfalso. apply Kx. apply (in_map fst) in Hd. exact Hd.
      - auto. }
    now subst.
  Qed.
End Seq.

(** one insertion, all together *)
Theorem insert_tip_all old nm t t' :
  istep old nm t t' ->
  wf t' = true /\ Permutation (leaves t') (nm :: leaves t) /\ In old (leaves t) /\
  forall w, (forall e, qeqb (elen e) 0%Q = true -> (w e == 0)%Q) ->
    (forall k, k nm = false -> dists_equiv (fP k (pairdists w t)) (fP k (pairdists w t'))) /\
    zero_dist w old nm t'.
Proof.
  intros H. split; [eapply istep_wf; eauto|]. split; [eapply istep_leaves; eauto|].
  split; [eapply istep_old_leaf; eauto|]. intros w Hw. split.
  - intros k K. destruct (istep_obs w Hw k old nm t t' K H) as [_ O]. exact O.
  - exact (edited_zero w Hw old nm t t' (istep_edited old nm t t' H)).
Qed.
