(** C05, rooting on an outgroup with removal, at the level of the branches ([bsplits]): every
    branch of the result is a branch of the (unrooted) input tree, with the same data, whose
    side is the restriction of one of the two sides of that branch to the remaining tips; the
    other branches of the input lie inside the removed part. *)
From Coq Require Import String ZArith QArith Bool Arith Lia List Permutation Setoid Morphisms.
From GT Require Import Base.UTree Spec.Obs Model.Reroot Model.Outgroup Spec.Unrooted
     Proofs.RerootBase Proofs.Reroot Proofs.Reorder Proofs.Unroot Proofs.Splits Proofs.C05Main
     Proofs.OutgroupBase Proofs.OutgroupCut Proofs.OutgroupKeep Proofs.OutgroupLCA Proofs.OutgroupClade
     Proofs.OutgroupMain Proofs.OutgroupSide Proofs.OutgroupRemove Proofs.OutgroupSplits.
Import ListNotations.
Local Close Scope Q_scope.
Local Arguments n_up : simpl never.

Definition side (x : bentry) : list string := snd (fst x).

(** [S] is one of the two sides of the branch [x] of a tree whose leaves are [L] *)
Definition a_side (L : list string) (x : bentry) (S : list string) : Prop :=
  Permutation S (side x) \/ Permutation (S ++ side x) L.
(** [S'] is [S] without the removed leaves *)
Definition minus (Rm S S' : list string) : Prop := Permutation S S' \/ Permutation S (S' ++ Rm).

(** the branch lies in the removed part *)
Definition drop_ok (L Rm : list string) (d : bentry) : Prop := exists S, a_side L d S /\ incl S Rm.

(** [z] (a branch of the result, leaves [L']) is the restriction of [x] (a branch of a tree with
    leaves [L]) *)
Definition restr_of (L L' Rm : list string) (x z : bentry) : Prop :=
  fst (fst x) = fst (fst z) /\ snd x = snd z /\
  exists S S', a_side L x S /\ minus Rm S S' /\ a_side L' z S'.

(** * generic list lemmas *)
Lemma Forall2_perm_r {A B} (R : A -> B -> Prop) a b b' :
  Forall2 R a b -> Permutation b b' -> exists a', Permutation a a' /\ Forall2 R a' b'.
Proof.
  intros F P. revert a F. induction P; intros a F.
  - inversion F; subst. exists []. auto.
  - inversion F as [|x0 ? a0 ? Hx Ha]; subst. destruct (IHP a0 Ha) as [a' [P' F']].
    exists (x0 :: a'). split; [now constructor | now constructor].
  - inversion F as [|x0 ? a0 ? Hx Ha]; subst. inversion Ha as [|y0 ? a1 ? Hy Ha1]; subst.
    exists (y0 :: x0 :: a1). split; [apply perm_swap | repeat constructor; auto].
  - destruct (IHP1 a F) as [a1 [P1' F1]]. destruct (IHP2 a1 F1) as [a2 [P2' F2]].
    exists a2. split; [etransitivity; eauto | auto].
Qed.

Lemma Forall2_perm_l {A B} (R : A -> B -> Prop) a a' b :
  Forall2 R a b -> Permutation a a' -> exists b', Permutation b b' /\ Forall2 R a' b'.
Proof.
  intros F P.
  assert (F' : Forall2 (fun y x => R x y) b a) by (clear P; induction F; constructor; auto).
  destruct (Forall2_perm_r _ _ _ _ F' P) as [b' [Pb Fb]]. exists b'. split; auto.
  clear -Fb. induction Fb; constructor; auto.
Qed.

Lemma Forall2_comp {A B C} (R : A -> B -> Prop) (S : B -> C -> Prop) (T : A -> C -> Prop) a b c :
  (forall x y z, R x y -> S y z -> T x z) -> Forall2 R a b -> Forall2 S b c -> Forall2 T a c.
Proof.
  intros H F. revert c. induction F; intros c G; inversion G; subst; constructor; eauto.
Qed.

Lemma PermR_Forall2 {A} (R : A -> A -> Prop) (E : Equivalence R) l l' :
  PermR R l l' -> exists m, Permutation l' m /\ Forall2 R l m.
Proof.
  induction 1.
  - exists []. auto.
  - destruct IHPermR as [m [P F]]. exists (y :: m). split; [now constructor | now constructor].
  - exists (y :: x :: l). split; [apply perm_swap|]. repeat constructor; try reflexivity.
    induction l; constructor; auto. reflexivity.
  - destruct IHPermR1 as [m1 [P1 F1]]. destruct IHPermR2 as [m2 [P2 F2]].
    destruct (Forall2_perm_l _ _ _ _ F2 P1) as [m3 [P3 F3]].
    exists m3. split; [etransitivity; eauto|].
    eapply Forall2_comp; [|exact F1|exact F3]. intros x y z H1 H2. etransitivity; eauto.
Qed.

(** * sides of the branches below a node *)
Lemma bsplits_sides_incl s : Forall (fun x => incl (side x) (leaves s)) (bsplits s).
Proof.
  induction s as [n c sl IH] using utree_ind'. rewrite bsplits_unfold.
  assert (IH' : Forall (fun p : einfo * utree => Forall (fun x => incl (side x) (leaves (snd p))) (bsplits (snd p))) (kids_of sl)).
  { rewrite Forall_forall in *. intros [e ch] Hin. apply kids_of_In in Hin. exact (IH _ Hin). }
  destruct (kids_of sl) as [|p0 K0] eqn:EK; [constructor|]. rewrite <- EK in *.
  rewrite leaves_node by (rewrite EK; discriminate). clear IH EK.
  induction IH' as [|p K Hp HK IHK]; [constructor|].
  rewrite kbs_cons, kleaves_cons. constructor.
  - unfold side. simpl. intros x Hx. apply in_or_app. now left.
  - apply Forall_app. split.
    + eapply Forall_impl; [|exact Hp]. intros y Hy x Hx. apply in_or_app. left. now apply Hy.
    + eapply Forall_impl; [|exact IHK]. intros y Hy x Hx. apply in_or_app. right. now apply Hy.
Qed.

(** * the relation between a tree and the same tree with a subtree removed *)
Definition restr_entry (Rm : list string) (y y' : bentry) : Prop :=
  fst (fst y) = fst (fst y') /\ snd y = snd y' /\ minus Rm (side y) (side y').

Definition rrel (Rm : list string) (s s' : utree) : Prop :=
  isleaf s' = isleaf s /\ Permutation (leaves s) (leaves s' ++ Rm) /\
  exists dropped kept, Permutation (bsplits s) (dropped ++ kept) /\
                       Forall (fun d => incl (side d) Rm) dropped /\
                       Forall2 (restr_entry Rm) kept (bsplits s').

Lemma restr_entry_refl Rm l : Forall2 (restr_entry Rm) l l.
Proof. induction l; constructor; auto. repeat split; auto. now left. Qed.

Lemma rrel_base n c sl k e ch :
  nth_error sl k = Some (Some (e, ch)) -> kids_of (remove_nth k sl) <> [] ->
  rrel (leaves ch) (UNode n c sl) (UNode n c (remove_nth k sl)).
Proof.
  intros Hk Hne.
  destruct (kids_of_remove_nth sl k (e, ch) Hk) as [A [B [K1 [K2 _]]]].
  assert (NE : kids_of sl <> []) by (rewrite K1; destruct A; discriminate).
  split; [now rewrite !isleaf_false|]. split.
  - rewrite !leaves_node by assumption. rewrite K1, K2, !kleaves_app, kleaves_cons. cbn [snd]. perm.
  - exists ((e, leaves ch, isleaf ch) :: bsplits ch), (kbs A ++ kbs B). split; [|split].
    + rewrite bsplits_unfold, K1, kbs_app, kbs_cons. cbn [fst snd]. perm.
    + constructor; [unfold side; simpl; apply incl_refl | apply bsplits_sides_incl].
    + rewrite bsplits_unfold, K2, kbs_app. apply restr_entry_refl.
Qed.

Lemma rrel_step Rm n c sl k e0 s s' :
  nth_error sl k = Some (Some (e0, s)) -> rrel Rm s s' ->
  rrel Rm (UNode n c sl) (UNode n c (set_nth k (Some (e0, s')) sl)).
Proof.
  intros Hk [Hl [HL [dropped [kept [P0 [FD F2]]]]]].
  destruct (kids_of_set_nth_some sl k (e0, s) (e0, s') Hk) as [A [B [K1 [K2 _]]]].
  assert (NE : kids_of sl <> []) by (rewrite K1; destruct A; discriminate).
  assert (NE' : kids_of (set_nth k (Some (e0, s')) sl) <> []) by (rewrite K2; destruct A; discriminate).
  split; [now rewrite !isleaf_false|]. split.
  - rewrite !leaves_node by assumption. rewrite K1, K2, !kleaves_app, !kleaves_cons. cbn [snd].
    rewrite HL. perm.
  - exists dropped, (kbs A ++ (e0, leaves s, isleaf s) :: kept ++ kbs B). split; [|split; [exact FD|]].
    + rewrite bsplits_unfold, K1, kbs_app, kbs_cons. cbn [fst snd]. rewrite P0. perm.
    + rewrite bsplits_unfold, K2, kbs_app, kbs_cons. cbn [fst snd].
      apply Forall2_app; [apply restr_entry_refl|]. constructor.
      * repeat split; auto. right. exact HL.
      * apply Forall2_app; [exact F2 | apply restr_entry_refl].
Qed.

Lemma update_at_rrel Rm p : forall t s f s',
  node_at t p = Some s -> f s = Some s' -> rrel Rm s s' ->
  exists t', update_at p f t = Some t' /\ rrel Rm t t'.
Proof.
  induction p as [|k r IH]; intros t s f s' Hn Hf Hb.
  - simpl in *. inversion Hn; subst. eauto.
  - destruct t as [n c sl]. simpl in Hn.
    destruct (nth_error sl k) as [[[e ch]|]|] eqn:Ek; try discriminate.
    destruct (IH ch s f s' Hn Hf Hb) as [ch' [U B]].
    exists (UNode n c (set_nth k (Some (e, ch')) sl)). split.
    + simpl. now rewrite Ek, U.
    + now apply (rrel_step Rm n c sl k e ch ch').
Qed.

(** * sides, up to the names of the leaves *)
Lemma a_side_permL L L' x S : Permutation L L' -> a_side L x S -> a_side L' x S.
Proof. intros P [H|H]; [left; auto|right; now rewrite <- P]. Qed.

(** two entries for the same branch have the same two sides *)
Lemma a_side_bs_eq L d x S : bs_eq L d x -> a_side L d S -> a_side L x S.
Proof.
  intros (_ & _ & Hs) [H|H]; unfold a_side, side in *.
  - destruct Hs as [Hs|Hs]; [left; now rewrite H | right; now rewrite H].
  - destruct Hs as [Hs|Hs]; [right; now rewrite <- Hs|left].
    rewrite <- Hs in H. rewrite (Permutation_app_comm S) in H.
    now apply Permutation_app_inv_l in H.
Qed.

Lemma kbs_sides_incl K : Forall (fun x => incl (side x) (kleaves K)) (kbs K).
Proof.
  destruct K as [|p K]; [constructor|].
  pose proof (bsplits_sides_incl (UNode "" [] (map Some (p :: K)))) as H.
  rewrite bsplits_unfold, kids_of_map_Some in H.
  rewrite leaves_node in H by (rewrite kids_of_map_Some; discriminate).
  now rewrite kids_of_map_Some in H.
Qed.

Definition R2 (L' Rm : list string) (y z : bentry) : Prop :=
  fst (fst y) = fst (fst z) /\ snd y = snd z /\ exists S', minus Rm (side y) S' /\ a_side L' z S'.

Theorem reroot_outgroup_remove_splits strict t names t' :
  wf t = true -> 2 <= degree t -> (rooted t = true -> root_has_inner_child t = true) ->
  NoDup (leaves t) ->
  reroot_outgroup true strict t names = Ok t' ->
  let G := group (unroot t) names in
  let L1 := leaves (unroot t) in
  exists Rm dropped kept kept',
    Permutation L1 (leaves t' ++ Rm) /\ incl G Rm /\
    Permutation (bsplits (unroot t)) (dropped ++ kept) /\ Permutation (bsplits t') kept' /\
    Forall (drop_ok L1 Rm) dropped /\
    Forall2 (restr_of L1 (leaves t') Rm) kept kept'.
Proof.
  intros Hwf Hd Hi HND H G L1.
  destruct (reroot_outgroup_remove_inv _ _ _ _ H)
    as (q&lf&v&p&es&diff&pp&ks&lower&P&Hne&Hf&Hv&HL&Hs&HR&HP&Hcase).
  apply find_some in Hf as [Hq _].
  destruct (setting_facts t names Hwf Hd Hi HND q lf v Hq Hv) as (W1&D1&LL1&W2&D2&L2&ND2&NG&IG&SE).
  assert (Hk : 0 < length (group (unroot t) names))
    by (destruct (group (unroot t) names); [congruence | simpl; lia]).
  destruct (root_edge_inside _ (tv_tree v) Hk W2 D2 ND2 NG IG p es diff pp ks lower HL HR)
    as (P'&e&ch&HP'&HK&Ht&Hfl).
  assert (P' = P) by congruence. subst P'.
  (* the statement in the view *)
  assert (View : exists Rm d2 k2 k2',
             Permutation (leaves (tv_tree v)) (leaves t' ++ Rm) /\ incl G Rm /\
             Permutation (bsplits (tv_tree v)) (d2 ++ k2) /\ Permutation (bsplits t') k2' /\
             Forall (drop_ok (leaves (tv_tree v)) Rm) d2 /\
             Forall2 (R2 (leaves t') Rm) k2 k2').
  { destruct Hcase as [[El [Hdeg [t3 [HU HRr]]]]|[El [e' [nc [cc [slc [HK' [Hdeg Et']]]]]]]].
    - subst lower.
      destruct P as [nP cP slP]. simpl uslots in *. unfold degree in Hdeg. simpl in Hdeg.
      destruct (kids_of_remove_nth slP ks (e, ch) HK) as [A [B [K1 [K2 [K3 K4]]]]].
      assert (UP : n_up slP <= 1).
      { destruct pp as [|k0 r0].
        - simpl in HP. inversion HP as [HPe]. pose proof W2 as W2'. rewrite HPe in W2'.
          rewrite wf_unfold in W2'. apply andb_true_iff in W2' as [W _]. apply Nat.eqb_eq in W. lia.
        - assert (W : wf_sub (UNode nP cP slP) = true)
            by (apply (node_at_wf_sub (k0 :: r0) (tv_tree v)); [left; auto | discriminate | exact HP]).
          rewrite wf_sub_unfold in W. apply andb_true_iff in W as [W _]. apply Nat.eqb_eq in W. lia. }
      assert (NEk : kids_of (remove_nth ks slP) <> []).
      { pose proof (length_slots (remove_nth ks slP)) as HLs. intros K. rewrite K in HLs. simpl in HLs. lia. }
      set (f := fun P0 : utree => Some (UNode (uname P0) (ucom P0) (remove_nth ks (uslots P0)))) in *.
      destruct (update_at_rrel (leaves ch) pp (tv_tree v) (UNode nP cP slP) f (UNode nP cP (remove_nth ks slP))
                  HP eq_refl (rrel_base nP cP slP ks e ch HK NEk)) as [t3' [U1 RR]].
      assert (t3' = t3) by congruence. subst t3'.
      (* the re-rooting step, as in the proof of the theorem on leaves and distances *)
      pose proof (restr_remove_child len0 nP cP slP ks e ch HK NEk) as RB.
      destruct (update_at_restr len0 (leaves ch) pp (tv_tree v) (UNode nP cP slP) f (UNode nP cP (remove_nth ks slP)) HP eq_refl RB)
        as [t3' [U1' [U2 [U3 [U4 [U5 U6]]]]]].
      { rewrite !wf_sub_unfold, K1, K2, K3. intros Hw. apply andb_true_iff in Hw as [H1 H2]. rewrite H1. simpl.
        rewrite !forallb_app in *. apply andb_true_iff in H2 as [Ha Hb]. simpl in Hb.
        apply andb_true_iff in Hb as [_ Hb]. now rewrite Ha, Hb. }
      { rewrite !wf_unfold, K1, K2, K3. intros Hw. apply andb_true_iff in Hw as [H1 H2]. rewrite H1. simpl.
        rewrite !forallb_app in *. apply andb_true_iff in H2 as [Ha Hb]. simpl in Hb.
        apply andb_true_iff in Hb as [_ Hb]. now rewrite Ha, Hb. }
      assert (t3' = t3) by congruence. subst t3'.
      assert (W3 : wf t3 = true) by auto.
      assert (DP' : 2 <= degree (UNode nP cP (remove_nth ks slP))) by (unfold degree; simpl; lia).
      assert (D3 : 2 <= degree t3).
      { destruct pp as [|k0 r0].
        - simpl in U3. inversion U3; subst. exact DP'.
        - rewrite U6 by discriminate. exact D2. }
      assert (PO : path_ok t3 pp) by (eapply node_at_path_ok; eauto).
      destruct (reroot_path_preserves _ _ W3 D3 PO) as [t4 [E4 [_ [_ [L4 _]]]]].
      assert (t4 = t') by congruence. subst t4.
      pose proof (reroot_path_bsplits pp t3 t' W3 D3 PO HRr) as SE3.
      destruct RR as [_ [RL [dropped [kept [P0 [FD F2]]]]]].
      symmetry in SE3.
      destruct (PermR_Forall2 _ (bs_eq_Equivalence (leaves t3)) _ _ SE3) as [m [Pm Fm]].
      exists (leaves ch), dropped, kept, m.
      split; [now rewrite RL, L4|]. split; [now apply Ht|]. split; [exact P0|]. split; [exact Pm|]. split.
      + eapply Forall_impl; [|exact FD]. intros d Hdn. exists (side d). split; [now left | exact Hdn].
      + eapply Forall2_comp; [|exact F2|exact Fm].
        intros y y3 z (E1 & E2 & Hm) (B1 & B2 & B3). split; [congruence|]. split; [congruence|].
        exists (side y3). split; [exact Hm|]. apply (a_side_permL (leaves t3)); [now symmetry|].
        unfold a_side, side. exact B3.
    - subst lower. destruct (Hfl eq_refl) as [Epp Hincl]. subst pp. simpl in HP. inversion HP; subst P.
      destruct (tv_tree v) as [n2 c2 sl2] eqn:E2. simpl uslots in *.
      assert (ch = UNode nc cc slc) by congruence. subst ch.
      destruct (kids_of_remove_nth sl2 ks (e, UNode nc cc slc) HK) as [A [B [K1 [K2 _]]]].
      assert (NE : kids_of sl2 <> []) by (rewrite K1; destruct A; discriminate).
      set (ch := UNode nc cc slc) in *.
      assert (Bt : bsplits t' = bsplits ch) by (rewrite Et'; apply bsplits_kids, kids_of_drop_up).
      assert (Lt : leaves t' = leaves ch) by (rewrite Et'; apply leaves_kids; [reflexivity | apply kids_of_drop_up]).
      assert (RmE : slot_leaves (remove_nth ks sl2) = kleaves A ++ kleaves B).
      { unfold slot_leaves. now rewrite K2, kleaves_app. }
      exists (slot_leaves (remove_nth ks sl2)), (kbs A ++ (e, leaves ch, isleaf ch) :: kbs B), (bsplits ch), (bsplits ch).
      assert (PL : Permutation (leaves (UNode n2 c2 sl2)) (leaves t' ++ slot_leaves (remove_nth ks sl2))).
      { rewrite (leaves_node n2 c2 sl2 NE). fold (slot_leaves sl2). rewrite Lt.
        now apply (slot_leaves_remove sl2 ks e ch). }
      split; [exact PL|]. split; [exact Hincl|]. split; [|split; [now rewrite Bt|split]].
      + rewrite bsplits_unfold, K1, kbs_app, kbs_cons. cbn [fst snd]. perm.
      + rewrite RmE. apply Forall_app. split; [|constructor].
        * eapply Forall_impl; [|apply kbs_sides_incl]. intros d Hdn. exists (side d).
          split; [now left|]. intros x Hx. apply in_or_app. left. now apply Hdn.
        * exists (kleaves A ++ kleaves B). split; [|apply incl_refl]. right. unfold side. cbn [fst snd].
          rewrite PL, Lt, RmE. apply Permutation_app_comm.
        * eapply Forall_impl; [|apply kbs_sides_incl]. intros d Hdn. exists (side d).
          split; [now left|]. intros x Hx. apply in_or_app. right. now apply Hdn.
      + clear. induction (bsplits ch) as [|y r IH]; constructor; auto.
        split; [reflexivity|]. split; [reflexivity|]. exists (side y). split; left; reflexivity. }
  destruct View as (Rm & d2 & k2 & k2' & VL & VG & VP & VP' & VD & VF).
  (* back to the unrooted input tree *)
  destruct (PermR_Forall2 _ (bs_eq_Equivalence (leaves (unroot t))) _ _ SE) as [m1 [Pm1 Fm1]].
  destruct (Forall2_perm_l _ _ _ _ Fm1 VP) as [m1' [Pm1' Fm1']].
  apply Forall2_app_inv_l in Fm1' as (dd & kk & Fd & Fk & Em). subst m1'.
  exists Rm, dd, kk, k2'.
  split; [unfold L1; now rewrite <- L2|]. split; [exact VG|].
  split; [etransitivity; eauto|]. split; [exact VP'|]. split.
  - (* the dropped branches *)
    clear -Fd VD L2. revert VD. induction Fd as [|d x ds xs Hdx Hr IH]; intros VD; [constructor|].
    inversion VD as [|? ? (S & HS & Hi') VD']; subst. constructor; [|auto].
    exists S. split; [|exact Hi'].
    apply (a_side_bs_eq (leaves (unroot t)) d x S Hdx). now apply (a_side_permL (leaves (tv_tree v))).
  - (* the kept branches *)
    assert (Fk' : Forall2 (fun x y => bs_eq (leaves (unroot t)) y x) kk k2).
    { clear -Fk. induction Fk; constructor; auto. }
    eapply Forall2_comp; [|exact Fk'|exact VF].
    intros x y z (B1 & B2 & B3) (E1 & E2 & S' & Hm & Hz).
    split; [congruence|]. split; [congruence|].
    exists (side y), S'. split; [|split; auto]. unfold a_side, side. exact B3.
Qed.
