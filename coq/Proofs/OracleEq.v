(** The oracles of Judge/Common.v and Judge/C05.v do not distinguish two result trees that are equal
    up to [Qeq] ([utree_eqb], [teq]): whatever they say about the model's tree they say about
    the tree decoded from an observation that the correspondence test accepts. *)
From Coq Require Import String ZArith QArith Bool Arith Lia Lqa List Permutation Setoid Morphisms.
From GT Require Import Base.Sexp Base.UTree Spec.Obs Model.Reroot Model.Outgroup Spec.Unrooted
     Judge.Common Judge.C05
     Proofs.RerootBase Proofs.Splits Proofs.USplits Proofs.TreeEq.
Import ListNotations.
Local Close Scope Q_scope.

(** * small facts *)
Lemma qeqb_proper a a' b b' : (a == a')%Q -> (b == b')%Q -> qeqb a b = qeqb a' b'.
Proof.
  intros Ha Hb. unfold qeqb.
  destruct (Qeq_bool a b) eqn:E1, (Qeq_bool a' b') eqn:E2; auto.
  - apply Qeq_bool_iff in E1. apply Qeq_bool_neq in E2. exfalso. apply E2. now rewrite <- Ha, <- Hb.
  - apply Qeq_bool_iff in E2. apply Qeq_bool_neq in E1. exfalso. apply E1. now rewrite Ha, Hb.
Qed.

Definition oqrel (o o' : option Q) : Prop :=
  match o, o' with Some x, Some y => (x == y)%Q | None, None => True | _, _ => False end.

Lemma oq_eqb_r a o o' : oqrel o o' -> oq_eqb a o = oq_eqb a o'.
Proof.
  destruct a, o, o'; simpl; try tauto. intros H. apply qeqb_proper; [reflexivity|exact H].
Qed.
Lemma oq_eqb_l a o o' : oqrel o o' -> oq_eqb o a = oq_eqb o' a.
Proof.
  destruct a, o, o'; simpl; try tauto. intros H. apply qeqb_proper; [exact H|reflexivity].
Qed.

Lemma list_eqb_F2 {A} (f : A -> A -> bool) (R : A -> A -> Prop) :
  (forall a x y, R x y -> f a x = f a y) ->
  forall m l l', Forall2 R l l' -> list_eqb f m l = list_eqb f m l'.
Proof.
  intros Hf. induction m as [|a m IH]; intros l l' H; destruct H; simpl; auto.
  rewrite (Hf a x y H), (IH l l' H0). reflexivity.
Qed.

Lemma forallb_F2 {A B} (R : A -> B -> Prop) (f : A -> bool) (g : B -> bool) l l' :
  Forall2 R l l' -> (forall x y, R x y -> f x = g y) -> forallb f l = forallb g l'.
Proof. induction 1; simpl; intros H'; auto. rewrite (H' x y H), IHForall2; auto. Qed.

Lemma forallb_ext' {A} (f g : A -> bool) l : (forall x, f x = g x) -> forallb f l = forallb g l.
Proof. intros H. induction l; simpl; auto. now rewrite H, IHl. Qed.
Lemma existsb_ext' {A} (f g : A -> bool) l : (forall x, f x = g x) -> existsb f l = existsb g l.
Proof. intros H. induction l; simpl; auto. now rewrite H, IHl. Qed.

Lemma Forall2_length_eq {A B} (R : A -> B -> Prop) l l' : Forall2 R l l' -> length l = length l'.
Proof. induction 1; simpl; congruence. Qed.

(** * the distance matrix *)
Lemma find_tq_F2 (f : string * string -> bool) pd pd' :
  Forall2 tq_eq pd pd' ->
  oqrel (match find (fun p => f (fst p)) pd with Some p => Some (snd p) | None => None end)
        (match find (fun p => f (fst p)) pd' with Some p => Some (snd p) | None => None end).
Proof.
  induction 1 as [|x y l l' [H1 H2] H IH]; simpl; auto.
  rewrite <- H1. destruct (f (fst x)); simpl; auto.
Qed.

Lemma dm_cell_F2 a b pd pd' :
  Forall2 tq_eq pd pd' ->
  oqrel (match find (fun p : string * string * Q => String.eqb (fst (fst p)) a && String.eqb (snd (fst p)) b) pd with
         | Some p => Some (snd p) | None => None end)
        (match find (fun p : string * string * Q => String.eqb (fst (fst p)) a && String.eqb (snd (fst p)) b) pd' with
         | Some p => Some (snd p) | None => None end).
Proof.
  induction 1 as [|x y l l' [H1 H2] H IH]; simpl; auto.
  rewrite <- H1. destruct (String.eqb (fst (fst x)) a && String.eqb (snd (fst x)) b); simpl; auto.
Qed.

Lemma dm_rows_F2 (rows cols : list string) pd pd' :
  Forall2 tq_eq pd pd' ->
  Forall2 (Forall2 oqrel)
    (map (fun a => map (fun b =>
       if String.eqb a b then Some 0%Q else
       match find (fun p : string * string * Q => String.eqb (fst (fst p)) a && String.eqb (snd (fst p)) b) pd with
       | Some p => Some (snd p) | None => None end) cols) rows)
    (map (fun a => map (fun b =>
       if String.eqb a b then Some 0%Q else
       match find (fun p : string * string * Q => String.eqb (fst (fst p)) a && String.eqb (snd (fst p)) b) pd' with
       | Some p => Some (snd p) | None => None end) cols) rows).
Proof.
  intros P. induction rows as [|a rows IH]; simpl; constructor; auto.
  clear IH. induction cols as [|b cols IHb]; simpl; constructor; auto.
  destruct (String.eqb a b); [simpl; reflexivity|]. now apply dm_cell_F2.
Qed.

Theorem dist_matrix_F2 w t g :
  wproper w -> teq t g -> Forall2 (Forall2 oqrel) (dist_matrix w t) (dist_matrix w g).
Proof.
  intros Hw H. unfold dist_matrix. rewrite (teq_leaves t g H).
  apply dm_rows_F2. now apply teq_pairdists.
Qed.

Lemma matrix_eqb_F2 M X X' :
  Forall2 (Forall2 oqrel) X X' -> matrix_eqb M X = matrix_eqb M X'.
Proof.
  unfold matrix_eqb. apply list_eqb_F2. intros a x y Hxy.
  exact (list_eqb_F2 oq_eqb oqrel oq_eqb_r a x y Hxy).
Qed.

(** * [splits_eq] *)
Lemma splits_sub_r cmp a b b' :
  (forall s x y, split_qeq x y -> cmp s x = cmp s y) ->
  Forall2 split_qeq b b' -> splits_sub cmp a b = splits_sub cmp a b'.
Proof.
  intros Hc F. unfold splits_sub. apply forallb_ext'. intros s.
  pose proof (find_split_F2 (sside s) b b' F) as R.
  destruct (find_split (sside s) b), (find_split (sside s) b'); simpl in R; try tauto; auto.
Qed.

Lemma splits_sub_l cmp a b b' :
  (forall s x y, split_qeq x y -> cmp x s = cmp y s) ->
  Forall2 split_qeq b b' -> splits_sub cmp b a = splits_sub cmp b' a.
Proof.
  intros Hc F. unfold splits_sub. apply (forallb_F2 split_qeq); auto.
  intros x y Hxy. pose proof Hxy as (K & _). rewrite <- K.
  destruct (find_split (sside x) a); auto.
Qed.

Lemma same_len_r s x y : split_qeq x y -> same_len s x = same_len s y.
Proof. intros (_ & H & _). unfold same_len. apply qeqb_proper; [reflexivity|exact H]. Qed.
Lemma same_len_flip s x y : split_qeq x y -> same_len s x = same_len s y -> True.
Proof. auto. Qed.

Lemma splits_eq_same_len_r a b b' :
  Forall2 split_qeq b b' -> splits_eq same_len a b = splits_eq same_len a b'.
Proof.
  intros F. unfold splits_eq. rewrite (Forall2_length_eq _ _ _ F).
  rewrite (splits_sub_r same_len a b b' same_len_r F).
  rewrite (splits_sub_l (fun x y => same_len y x) a b b'); auto.
  intros s x y (_ & H & _). unfold same_len. apply qeqb_proper; [reflexivity|exact H].
Qed.

(** * the oracles *)
Theorem same_tree_obs_teq t t' g : teq t' g -> same_tree_obs t g = same_tree_obs t t'.
Proof.
  intros H. unfold same_tree_obs.
  rewrite (proj2 (teq_wf t' g H)), (teq_leaves t' g H).
  rewrite <- (splits_eq_same_len_r (usplits t) (usplits t') (usplits g) (teq_usplits t' g H)).
  rewrite <- (matrix_eqb_F2 (dist_matrix len0 t) _ _ (dist_matrix_F2 len0 t' g len0_wproper H)).
  reflexivity.
Qed.

Theorem oracle_reduced_teq t t' g : teq t' g -> oracle_reduced t g = oracle_reduced t t'.
Proof.
  intros H. unfold oracle_reduced. now rewrite (proj2 (teq_wf t' g H)), (teq_leaves t' g H).
Qed.

Theorem index_ok_data_teq t' g idx st bs : teq t' g -> index_ok_data g idx st bs = index_ok_data t' idx st bs.
Proof. intros H. unfold index_ok_data. now rewrite (teq_leaves t' g H). Qed.

Lemma root_key_teq t' g : teq t' g -> root_key g = root_key t'.
Proof.
  intros H. unfold root_key. rewrite (teq_tipset t' g H).
  destruct (teq_kids t' g H) as (F & _).
  destruct F as [|[e1 c1] [e1' c1'] K K' (_ & T1 & _) F]; auto.
  destruct F as [|x y K K' _ F]; auto.
  destruct F; auto. cbn [snd] in T1. now rewrite (teq_leaves c1 c1' T1).
Qed.

Theorem supports_kept_teq t t' g : teq t' g -> supports_kept t g = supports_kept t t'.
Proof.
  intros H. unfold supports_kept. rewrite (root_key_teq t' g H). apply forallb_ext'. intros s.
  destruct (negb (nontrivial_split (length (tipset t)) s)); auto.
  destruct (match root_key t' with Some k => sset_eqb k (sside s) | None => false end); auto.
  pose proof (teq_lookup t' g (sside s) H) as R.
  destruct (find_split (sside s) (usplits t')), (find_split (sside s) (usplits g)); simpl in R; try tauto; auto.
  destruct R as (_ & _ & R & _). apply qeqb_proper; [reflexivity|now symmetry].
Qed.

Theorem removed_obs_teq ex t t' g P : teq t' g -> removed_obs ex t g P = removed_obs ex t t' P.
Proof.
  intros H. unfold removed_obs.
  rewrite (proj2 (teq_wf t' g H)), (teq_leaves t' g H).
  rewrite <- (matrix_eqb_F2 _ _ _ (dist_matrix_F2 len0 t' g len0_wproper H)). reflexivity.
Qed.

Theorem oracle_outgroup_ok_teq remove strict t t' g names :
  teq t' g -> oracle_outgroup_ok remove strict t g names = oracle_outgroup_ok remove strict t t' names.
Proof.
  intros H. unfold oracle_outgroup_ok.
  rewrite (removed_obs_teq _ t t' g _ H), (same_tree_obs_teq t t' g H), (supports_kept_teq t t' g H).
  destruct (negb (is_side t (present t names)) && strict && negb (sset_eqb (present t names) []) &&
            negb (sset_eqb (present t names) (tipset t))); auto.
  destruct remove; auto.
  destruct (same_tree_obs t t'); auto.
  destruct (negb (supports_kept t t')); auto.
  destruct (teq_kids t' g H) as (F & _).
  destruct F as [|[e1 c1] [e1' c1'] K K' ((L1 & _) & T1 & _) F]; auto.
  destruct F as [|[e2 c2] [e2' c2'] K K' ((L2 & _) & T2 & _) F]; auto.
  destruct F; auto.
  cbn [fst snd] in *. rewrite (teq_leaves c1 c1' T1), (teq_leaves c2 c2' T2).
  rewrite <- (qeqb_proper _ _ _ _ L1 L2).
  match goal with |- context[existsb ?f ?l] =>
    match goal with |- context[existsb ?f' l] =>
      assert (E : existsb f l = existsb f' l)
    end end.
  { reflexivity. }
  clear E.
  assert (EX : forall cands, existsb (fun l => qeqb (elen e1') (l * (1 # 2))%Q) cands =
                             existsb (fun l => qeqb (elen e1) (l * (1 # 2))%Q) cands).
  { intros cands. induction cands as [|l cands IH]; simpl; auto.
    rewrite IH. f_equal. apply qeqb_proper; [now symmetry|reflexivity]. }
  rewrite EX. reflexivity.
Qed.

Lemma depth_of_F2 ds ds' a : Forall2 pq_eq ds ds' -> oqrel (depth_of ds a) (depth_of ds' a).
Proof.
  unfold depth_of. induction 1 as [|x y l l' [H1 H2] H IH]; simpl; auto.
  rewrite <- H1. destruct (String.eqb (fst x) a); simpl; auto.
Qed.

Theorem oracle_midpoint_ok_teq t t' g : teq t' g -> oracle_midpoint_ok t g = oracle_midpoint_ok t t'.
Proof.
  intros H. unfold oracle_midpoint_ok.
  rewrite (same_tree_obs_teq t t' g H), (supports_kept_teq t t' g H).
  destruct (same_tree_obs t t'); auto.
  destruct (negb (supports_kept t t')); auto.
  destruct (teq_kids t' g H) as (F & _).
  pose proof (teq_depths len0 t' g len0_wproper H) as D.
  destruct F as [|x1 y1 K K' _ F]; auto.
  destruct F as [|x2 y2 K K' _ F]; auto.
  destruct F; auto.
  destruct (negb (all_lengths t)); auto.
  match goal with |- (if existsb ?f ?l then _ else _) = (if existsb ?f' ?l then _ else _) =>
    assert (E : existsb f l = existsb f' l) end.
  { apply existsb_ext'. intros x.
    rewrite (oq_eqb_l _ _ _ (depth_of_F2 _ _ (fst (fst x)) D)).
    rewrite (oq_eqb_l _ _ _ (depth_of_F2 _ _ (snd (fst x)) D)). reflexivity. }
  now rewrite E.
Qed.
