(** C05, "the oracle accepts the model": the boolean check [same_tree_obs] of Judge/Common.v
    (well-formed, same sorted tips, [splits_eq same_len] on [usplits], [matrix_eqb] on
    [dist_matrix len0]) returns no complaint on the results of the model, for all well-formed
    trees with distinct tip names. *)
From Coq Require Import String ZArith QArith Bool Arith Lia Lqa List Permutation Setoid Morphisms.
From GT Require Import Base.Sexp Base.UTree Base.Codec Spec.Obs Model.Reroot Model.Outgroup Spec.Unrooted Judge.Common
     Proofs.RerootBase Proofs.Reroot Proofs.Reorder Proofs.Unroot Proofs.Splits Proofs.USplits Proofs.C05Main
     Proofs.OracleDist
     Proofs.OutgroupBase Proofs.OutgroupCut Proofs.OutgroupKeep Proofs.OutgroupMidpoint Proofs.OutgroupSplits Proofs.OutgroupSplitsMain.
Import ListNotations.
Local Close Scope Q_scope.

(** * the keys of [usplits] are pairwise distinct *)
Lemma add_split_keys s l :
  map sside (add_split s l) =
  if existsb (fun x => sset_eqb (sside s) (sside x)) l then map sside l else map sside l ++ [sside s].
Proof.
  induction l as [|x r IH]; simpl; auto. unfold split_key_eqb.
  destruct (sset_eqb (sside s) (sside x)) eqn:E; simpl; auto.
  rewrite IH. destruct (existsb _ r); reflexivity.
Qed.

Lemma NoDup_snoc {A} (a : list A) k : NoDup a -> ~ In k a -> NoDup (a ++ [k]).
Proof.
  induction a as [|x a IH]; simpl; intros H Hk; [repeat constructor; auto|].
  inversion H; subst. constructor.
  - rewrite in_app_iff. simpl. intros [F|[F|[]]]; [contradiction|]. apply Hk. now left.
  - apply IH; auto.
Qed.

Lemma foldsplits_keys_nodup l : NoDup (map sside (foldsplits l)).
Proof.
  unfold foldsplits.
  assert (G : forall l acc, NoDup (map sside acc) ->
                            NoDup (map sside (fold_left (fun acc s => add_split s acc) l acc))).
  { clear l. induction l as [|s l IH]; simpl; intros acc H; auto.
    apply IH. rewrite add_split_keys.
    destruct (existsb (fun x => sset_eqb (sside s) (sside x)) acc) eqn:E; auto.
    apply NoDup_snoc; auto.
    intros Hk. apply in_map_iff in Hk as [x [Ex Hx]].
    assert (existsb (fun x => sset_eqb (sside s) (sside x)) acc = true).
    { apply existsb_exists. exists x. split; auto. apply sset_eqb_eq. auto. }
    congruence. }
  apply G. constructor.
Qed.

Lemma usplits_keys_nodup t : NoDup (map sside (usplits t)).
Proof. rewrite usplits_eq. apply foldsplits_keys_nodup. Qed.

(** * look-ups in a list of splits with distinct keys *)
Lemma find_split_self l s : NoDup (map sside l) -> In s l -> find_split (sside s) l = Some s.
Proof.
  unfold find_split. induction l as [|x r IH]; simpl; intros HN Hin; [tauto|].
  inversion HN as [|? ? Hx HN']; subst. destruct Hin as [->|Hin].
  - assert (E : sset_eqb (sside s) (sside s) = true) by (apply sset_eqb_eq; reflexivity). now rewrite E.
  - destruct (sset_eqb (sside x) (sside s)) eqn:E; auto.
    apply sset_eqb_eq in E. exfalso. apply Hx. rewrite E. now apply in_map.
Qed.

Lemma find_split_key k l s : find_split k l = Some s -> In s l /\ sside s = k.
Proof.
  unfold find_split. intros H. apply find_some in H as [H1 H2]. apply sset_eqb_eq in H2. auto.
Qed.

Lemma find_split_in_keys k l : In k (map sside l) <-> find_split k l <> None.
Proof.
  split.
  - intros H. apply in_map_iff in H as [s [<- Hs]]. unfold find_split. intros E.
    apply (find_none _ _ E) in Hs. assert (sset_eqb (sside s) (sside s) = true) by (apply sset_eqb_eq; auto).
    congruence.
  - intros H. destruct (find_split k l) as [s|] eqn:E; [|congruence].
    apply find_split_key in E as [H1 <-]. now apply in_map.
Qed.

Lemma splits_eq_of_lookup a b :
  NoDup (map sside a) -> NoDup (map sside b) ->
  (forall k, orel split_weq (find_split k b) (find_split k a)) ->
  splits_eq same_len a b = true.
Proof.
  intros Na Nb H. unfold splits_eq.
  assert (Hlen : length a = length b).
  { rewrite <- (map_length sside a), <- (map_length sside b).
    apply Permutation_length. apply NoDup_Permutation; auto.
    intros k. rewrite !find_split_in_keys. specialize (H k).
    destruct (find_split k b), (find_split k a); simpl in H; split; intros; try congruence; tauto. }
  rewrite Hlen, Nat.eqb_refl. simpl. apply andb_true_iff. split.
  - unfold splits_sub. apply forallb_forall. intros s Hs.
    pose proof (H (sside s)) as Hk. rewrite (find_split_self a s Na Hs) in Hk.
    destruct (find_split (sside s) b) as [s'|]; simpl in Hk; [|tauto].
    destruct Hk as [_ Hq]. unfold same_len, qeqb. apply Qeq_bool_iff. now symmetry.
  - unfold splits_sub. apply forallb_forall. intros s' Hs'.
    pose proof (H (sside s')) as Hk. rewrite (find_split_self b s' Nb Hs') in Hk.
    destruct (find_split (sside s') a) as [s|]; simpl in Hk; [|tauto].
    destruct Hk as [_ Hq]. unfold same_len, qeqb. apply Qeq_bool_iff. now symmetry.
Qed.

(** * the generic check *)
Theorem same_tree_obs_accepts t g :
  wf g = true -> NoDup (leaves t) -> Permutation (leaves g) (leaves t) ->
  (forall k, orel split_weq (find_split k (usplits g)) (find_split k (usplits t))) ->
  dists_equiv (pairdists len0 g) (pairdists len0 t) ->
  same_tree_obs t g = None.
Proof.
  intros Hwf ND HL HS HD. unfold same_tree_obs. rewrite Hwf. simpl.
  rewrite (ssort_eq_perm _ _ HL). unfold sset_eqb at 1. rewrite list_eqb_refl_string. simpl.
  rewrite (splits_eq_of_lookup (usplits t) (usplits g) (usplits_keys_nodup t) (usplits_keys_nodup g) HS).
  simpl. now rewrite (dist_matrix_of_equiv t g ND HL HD).
Qed.

Lemma orel_weq_refl o : orel split_weq o o.
Proof. apply orel_refl, split_weq_refl. Qed.

Lemma same_tree_obs_refl t : wf t = true -> NoDup (leaves t) -> same_tree_obs t t = None.
Proof.
  intros. apply same_tree_obs_accepts; auto; try reflexivity. intros k. apply orel_weq_refl.
Qed.

(** * the four basic operations *)
Theorem oracle_accepts_reroot t i t' :
  wf t = true -> 2 <= degree t -> NoDup (leaves t) -> reroot t i = Ok t' ->
  same_tree_obs t t' = None.
Proof.
  intros Hwf Hd ND H.
  destruct (reroot_all t i t' Hwf Hd H) as (W & _ & L & _ & P & _).
  apply same_tree_obs_accepts; auto.
  intros k. eapply orel_mono; [apply split_qeq_weq|]. eapply reroot_usplits; eauto.
Qed.

Theorem oracle_accepts_unroot t :
  wf t = true -> (rooted t = true -> root_has_inner_child t = true) -> NoDup (leaves t) ->
  same_tree_obs t (unroot t) = None.
Proof.
  intros Hwf Hi ND. destruct (rooted t) eqn:Hr.
  - specialize (Hi eq_refl).
    destruct (unroot_all t Hwf Hr Hi) as (W & L & _ & P & _).
    apply same_tree_obs_accepts; auto. now apply unroot_usplits.
  - rewrite (unroot_not_rooted t Hr). now apply same_tree_obs_refl.
Qed.

Theorem oracle_accepts_tperm t t' :
  wf t = true -> NoDup (leaves t) -> tperm t t' -> same_tree_obs t t' = None.
Proof.
  intros Hwf ND H.
  destruct (tperm_all t t' H) as (W & _ & L & _ & _ & P & _).
  apply same_tree_obs_accepts; auto.
  intros k. eapply orel_mono; [apply split_qeq_weq|]. now apply tperm_usplits.
Qed.

Theorem oracle_accepts_rotate t cs :
  wf t = true -> NoDup (leaves t) -> same_tree_obs t (fst (rotate_all t cs)) = None.
Proof. intros. apply oracle_accepts_tperm; auto. apply rotate_all_tperm. Qed.

Theorem oracle_accepts_sort t :
  wf t = true -> NoDup (leaves t) -> same_tree_obs t (sort_by_tips t) = None.
Proof. intros. apply oracle_accepts_tperm; auto. apply sort_by_tips_tperm. Qed.

(** * rooting on an outgroup without removal (the generic part of the oracle) *)
Theorem oracle_accepts_outgroup strict t names t' :
  wf t = true -> 2 <= degree t -> (rooted t = true -> root_has_inner_child t = true) ->
  NoDup (leaves t) ->
  (forall x, In x (bsplits (unroot t)) -> good_len (fst (fst x))) ->
  reroot_outgroup false strict t names = Ok t' ->
  same_tree_obs t t' = None.
Proof.
  intros Hwf Hd Hi ND Hg H.
  destruct (reroot_outgroup_keep_preserves strict t names t' Hwf Hd Hi H) as (W & _ & L & P).
  apply same_tree_obs_accepts; auto. eapply outgroup_usplits_input; eauto.
Qed.

(** * midpoint rooting (the generic part of the oracle) *)
Theorem oracle_accepts_midpoint t t' :
  wf t = true -> 2 <= degree t -> (rooted t = true -> root_has_inner_child t = true) ->
  NoDup (leaves t) ->
  (forall x, In x (bsplits (unroot t)) -> (0 <= elen (fst (fst x)))%Q) ->
  reroot_midpoint t = Ok t' ->
  same_tree_obs t t' = None.
Proof.
  intros Hwf Hd Hi ND Hnn H.
  destruct (OutgroupMidpoint.reroot_midpoint_wf_leaves t t' Hwf Hd Hi H) as (W & _ & L).
  apply same_tree_obs_accepts; auto.
  - eapply midpoint_usplits_input; eauto.
  - eapply midpoint_len0; eauto.
Qed.
