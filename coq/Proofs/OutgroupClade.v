(** C05 (ii)/(iii), rooting on an outgroup: when the search reports a monophyletic group
    (different = 0) and a unique branch for the root, the tips on the outgroup side of that
    branch are exactly the requested tips. *)
From Coq Require Import String ZArith QArith Bool Arith Lia List Permutation Setoid Morphisms.
From GT Require Import Base.UTree Spec.Obs Model.Reroot Model.Outgroup Spec.Unrooted
     Proofs.RerootBase Proofs.Reroot Proofs.Reorder Proofs.Unroot Proofs.Splits Proofs.C05Main
     Proofs.OutgroupBase Proofs.OutgroupCut Proofs.OutgroupKeep Proofs.OutgroupLCA.
Import ListNotations.
Local Close Scope Q_scope.
Local Arguments n_up : simpl never.

(** * lists *)
Lemma filter_length_le {A} (f : A -> bool) l : length (filter f l) <= length l.
Proof. induction l; simpl; auto. destruct (f a); simpl; lia. Qed.

Lemma filter_length_eq {A} (f : A -> bool) l : length (filter f l) = length l -> filter f l = l.
Proof.
  induction l as [|a r IH]; simpl; auto. destruct (f a) eqn:E; simpl; intros H.
  - f_equal. apply IH. lia.
  - pose proof (filter_length_le f r). lia.
Qed.

Lemma nth_error_split_at {A} (l : list A) i x :
  nth_error l i = Some x -> l = firstn i l ++ x :: skipn (S i) l /\ length (firstn i l) = i.
Proof.
  revert i; induction l as [|a r IH]; intros [|i] H; simpl in *; try discriminate.
  - inversion H; subst. auto.
  - destruct (IH _ H) as [E L]. split; [f_equal; exact E | now rewrite L].
Qed.

Lemma remove_nth_app_mid {A} (a b : list A) x : remove_nth (length a) (a ++ x :: b) = a ++ b.
Proof.
  unfold remove_nth. rewrite firstn_app, Nat.sub_diag, firstn_all. simpl. rewrite app_nil_r.
  f_equal. induction a; simpl; auto.
Qed.

Lemma NoDup_app_l {A} (a b : list A) : NoDup (a ++ b) -> NoDup a.
Proof. induction a; simpl; intros H; [constructor|]. inversion H; subst. constructor; auto. rewrite in_app_iff in *. tauto. Qed.
Lemma NoDup_app_r {A} (a b : list A) : NoDup (a ++ b) -> NoDup b.
Proof. induction a; simpl; intros H; auto. inversion H; subst. auto. Qed.
Lemma NoDup_app_incl {A} (a b b' : list A) :
  NoDup (a ++ b) -> NoDup b' -> incl b' b -> NoDup (a ++ b').
Proof.
  induction a as [|x a IH]; simpl; intros H Hb Hi; auto.
  inversion H; subst. constructor; auto.
  rewrite in_app_iff in *. intros [F|F]; [tauto|]. apply H2. right. now apply Hi.
Qed.

(** * the group: requested names that are tips, without repetition *)
Lemma dedup_In x l : In x (dedup l) <-> In x l.
Proof.
  induction l as [|y r IH]; simpl; [tauto|].
  destruct (smem y r) eqn:E.
  - rewrite IH. split; auto. intros [->|H]; auto. now apply smem_In.
  - simpl. now rewrite IH.
Qed.

Lemma dedup_NoDup l : NoDup (dedup l).
Proof.
  induction l as [|y r IH]; simpl; [constructor|].
  destruct (smem y r) eqn:E; auto. constructor; auto.
  rewrite dedup_In. intros H. apply smem_In in H. congruence.
Qed.

Lemma group_NoDup t1 names : NoDup (group t1 names).
Proof. apply dedup_NoDup. Qed.

Lemma group_incl t1 names :
  wf t1 = true -> 2 <= degree t1 -> incl (group t1 names) (leaves t1).
Proof.
  intros Hwf Hd x H. unfold group in H. rewrite dedup_In in H. apply filter_In in H as [_ H].
  apply andb_true_iff in H as [_ H]. apply smem_In in H.
  rewrite (leaves_tip_names t1 Hwf Hd). exact H.
Qed.

Lemma group_In t1 names x :
  wf t1 = true -> 2 <= degree t1 ->
  (In x (group t1 names) <-> In x names /\ In x (leaves t1) /\ x <> ""%string).
Proof.
  intros Hwf Hd. unfold group. rewrite dedup_In, filter_In, andb_true_iff, negb_true_iff.
  rewrite (leaves_tip_names t1 Hwf Hd). unfold tip_names.
  rewrite smem_In, String.eqb_neq. tauto.
Qed.

(** * counting *)
Section Count.
  Variable grp : list string.
  Notation nin := (nin grp).
  Notation nout := (nout grp).
  Notation sel := (sel grp).

  Lemma nout_zero_incl L : nout L = 0 -> incl L grp.
  Proof.
    unfold OutgroupLCA.nout. induction L as [|x r IH]; simpl; intros H y Hy; [destruct Hy|].
    destruct (inb grp x) eqn:E; simpl in H; [|discriminate].
    destruct Hy as [<-|Hy]; [unfold inb in E; now apply smem_In | now apply IH].
  Qed.

  Lemma nin_full L :
    NoDup L -> NoDup grp -> incl grp L -> nin L = length grp.
  Proof.
    intros HL HG HI. unfold OutgroupLCA.nin.
    apply Nat.le_antisymm.
    - apply NoDup_incl_length; [now apply NoDup_filter|].
      intros x Hx. apply filter_In in Hx as [_ Hx]. unfold inb in Hx. now apply smem_In.
    - apply NoDup_incl_length; auto.
      intros x Hx. apply filter_In. split; auto. unfold inb. now apply smem_In.
  Qed.

  Lemma selidx_In l : forall i x,
    In x (selidx grp i l) <-> i <= x /\ exists s, nth_error l (x - i) = Some s /\ sel s = true.
  Proof.
    induction l as [|s r IH]; intros i x; simpl.
    - split; [tauto|]. intros [_ [s [H _]]]. destruct (x - i); discriminate.
    - rewrite in_app_iff, IH. split.
      + intros [H|[H1 [s' [H2 H3]]]].
        * destruct (sel s) eqn:E; simpl in H; [|tauto]. destruct H as [<-|[]].
          split; auto. exists s. rewrite Nat.sub_diag. auto.
        * split; [lia|]. exists s'. replace (x - i) with (S (x - S i)) by lia. auto.
      + intros [H1 [s' [H2 H3]]]. destruct (x - i) as [|m] eqn:Em.
        * left. simpl in H2. inversion H2; subst s'. rewrite H3. left. lia.
        * right. split; [lia|]. exists s'. replace (x - S i) with m by lia. auto.
  Qed.

  Lemma selidx_length l : forall i, length (selidx grp i l) = length (filter sel l).
  Proof.
    induction l as [|s r IH]; intros i; simpl; auto.
    rewrite app_length, IH. destruct (sel s); reflexivity.
  Qed.

  Lemma first_not_in_spec es : forall n i j,
    first_not_in es i n = Some j -> i <= j < i + n /\ ~ In j es.
  Proof.
    induction n as [|n IH]; intros i j H; simpl in H; [discriminate|].
    destruct (existsb (Nat.eqb i) es) eqn:E.
    - destruct (IH _ _ H). split; [lia|auto].
    - inversion H; subst. split; [lia|]. intros Hin.
      assert (existsb (Nat.eqb j) es = true) by (apply existsb_exists; exists j; split; auto; apply Nat.eqb_refl).
      congruence.
  Qed.

  (** exactly one slot is not selected, and [first_not_in] finds it *)
  Lemma one_unselected sl j :
    length sl - length (selidx grp 0 sl) = 1 ->
    first_not_in (selidx grp 0 sl) 0 (length sl) = Some j ->
    exists s, nth_error sl j = Some s /\ sel s = false /\ filter sel sl = remove_nth j sl.
  Proof.
    intros HL HF. apply first_not_in_spec in HF as [Hj Hn].
    destruct (nth_error sl j) as [s|] eqn:Ej; [|apply nth_error_None in Ej; lia].
    exists s. split; auto.
    assert (Es : sel s = false).
    { destruct (sel s) eqn:E; auto. exfalso. apply Hn. apply selidx_In. split; [lia|].
      exists s. rewrite Nat.sub_0_r. auto. }
    split; auto.
    destruct (nth_error_split_at _ _ _ Ej) as [E LA].
    set (A := firstn j sl) in *. set (B := skipn (S j) sl) in *.
    rewrite selidx_length in HL. rewrite E in HL. rewrite filter_app in HL. simpl in HL.
    rewrite Es in HL. rewrite !app_length in HL. simpl in HL.
    pose proof (filter_length_le sel A). pose proof (filter_length_le sel B).
    rewrite E at 1. rewrite filter_app. simpl. rewrite Es.
    rewrite (filter_length_eq sel A) by lia. rewrite (filter_length_eq sel B) by lia.
    reflexivity.
  Qed.

  Lemma sel_slots_some l : Forall (fun s => s <> None) (filter sel l).
  Proof.
    induction l as [|s r IH]; simpl; [constructor|].
    destruct (sel s) eqn:E; auto. constructor; auto. destruct s; [discriminate|discriminate].
  Qed.

  Lemma slot_leaves_filter_NoDup (f : slot -> bool) l :
    NoDup (slot_leaves l) -> NoDup (slot_leaves (filter f l)) /\ incl (slot_leaves (filter f l)) (slot_leaves l).
  Proof.
    induction l as [|s r IH]; simpl; intros H; [split; [constructor | apply incl_refl]|].
    rewrite slot_leaves_cons in H.
    assert (Hr : NoDup (slot_leaves r)) by (destruct s as [[e c]|]; [eapply NoDup_app_r; eauto | auto]).
    destruct (IH Hr) as [N I].
    destruct (f s); rewrite ?slot_leaves_cons; destruct s as [[e c]|]; auto.
    - split.
      + eapply NoDup_app_incl; eauto.
      + intros x Hx. rewrite in_app_iff in *. destruct Hx; auto.
    - split; auto. intros x Hx. rewrite in_app_iff. auto.
  Qed.
End Count.

(** * leaves below a node of the tree *)
Lemma node_at_leaves_split p : forall t n,
  node_at t p = Some n -> exists X Y, leaves t = X ++ leaves n ++ Y.
Proof.
  induction p as [|k r IH]; intros t n H.
  - simpl in H. inversion H; subst. exists [], []. now rewrite app_nil_r.
  - destruct t as [nm c sl]. simpl in H.
    destruct (nth_error sl k) as [[[e ch]|]|] eqn:E; try discriminate.
    destruct (IH _ _ H) as [X2 [Y2 E2]].
    destruct (child_leaves_split sl k e ch E) as [X1 [Y1 E1]].
    assert (NE : kids_of sl <> []).
    { intros K. assert (In (e, ch) (kids_of sl)) by (apply kids_of_In; eapply nth_error_In; eauto).
      rewrite K in H0. destruct H0. }
    rewrite (leaves_node nm c sl NE). fold (slot_leaves sl). rewrite E1, E2.
    exists (X1 ++ X2), (Y2 ++ Y1). now rewrite <- !app_assoc.
Qed.

Lemma node_at_NoDup t p n : NoDup (leaves t) -> node_at t p = Some n -> NoDup (leaves n).
Proof.
  intros H Hn. destruct (node_at_leaves_split _ _ _ Hn) as [X [Y E]]. rewrite E in H.
  apply NoDup_app_r in H. now apply NoDup_app_l in H.
Qed.

Lemma node_at_last t p n :
  p <> [] -> node_at t p = Some n ->
  exists P e, node_at t (removelast p) = Some P /\ nth_error (uslots P) (last p 0) = Some (Some (e, n)).
Proof.
  intros Hp Hn. rewrite (removelast_last_nat p Hp), node_at_app in Hn.
  destruct (node_at t (removelast p)) as [P|]; [|discriminate].
  simpl in Hn. destruct (nth_error (uslots P) (last p 0)) as [[[e ch]|]|] eqn:E; try discriminate.
  inversion Hn; subst. eauto.
Qed.

Lemma n_up_all_some l : Forall (fun s : slot => s <> None) l -> n_up l = 0.
Proof.
  induction 1 as [|s r Hs Hr IH]; [reflexivity|]. rewrite n_up_cons, IH. destruct s; [reflexivity|congruence].
Qed.

Lemma n_up_remove_nth sl j s :
  nth_error sl j = Some s -> n_up sl = n_up (remove_nth j sl) + match s with None => 1 | Some _ => 0 end.
Proof.
  intros H. destruct (nth_error_split_at _ _ _ H) as [E _].
  unfold remove_nth. rewrite E at 1. rewrite !n_up_app, n_up_cons. lia.
Qed.

Lemma kids_of_remove_none sl j :
  nth_error sl j = Some None -> kids_of (remove_nth j sl) = kids_of sl.
Proof.
  intros H. destruct (nth_error_split_at _ _ _ H) as [E _].
  unfold remove_nth. rewrite E at 3. rewrite !kids_of_app. reflexivity.
Qed.

(** * the branch chosen for the root separates exactly the group *)
Section Clade.
  Variable grp : list string.
  Variable t2 : utree.
  Hypothesis Hk : 0 < length grp.
  Hypothesis Hwf : wf t2 = true.
  Hypothesis Hdeg : 2 <= degree t2.
  Hypothesis HND : NoDup (leaves t2).
  Hypothesis HG : NoDup grp.
  Hypothesis HI : incl grp (leaves t2).

  Lemma sel_leaves_group n p :
    node_at t2 p = Some n -> kids n <> [] -> cin grp n = length grp ->
    nout grp (selleaves grp (uslots n)) = 0 ->
    Permutation (selleaves grp (uslots n)) grp.
  Proof.
    intros Hn Hkids Hc Hd.
    set (Ls := selleaves grp (uslots n)) in *.
    assert (Ln : leaves n = slot_leaves (uslots n)).
    { destruct n as [nm c sl]. apply leaves_node. exact Hkids. }
    assert (NDn : NoDup (slot_leaves (uslots n))) by (rewrite <- Ln; eapply node_at_NoDup; eauto).
    destruct (slot_leaves_filter_NoDup (sel grp) (uslots n) NDn) as [ND _].
    fold (selleaves grp (uslots n)) in ND. fold Ls in ND.
    assert (Hin : nin grp Ls = length grp).
    { unfold Ls. rewrite sel_unsel_nin by exact Hk. unfold cin in Hc. rewrite Ln in Hc. exact Hc. }
    pose proof (nin_nout_length grp Hk Ls) as HLen.
    apply NoDup_Permutation_bis; auto; [lia|]. now apply nout_zero_incl.
  Qed.

  Theorem root_edge_clade p es pp ks lower :
    lca_rec grp (length grp) t2 = LFound p es 0 ->
    root_edge t2 p es = Ok (pp, ks, lower) ->
    exists P e ch,
      node_at t2 pp = Some P /\ nth_error (uslots P) ks = Some (Some (e, ch)) /\
      (lower = true -> Permutation (leaves ch) grp) /\
      (lower = false -> pp = [] /\ Permutation (slot_leaves (remove_nth ks (uslots P))) grp).
  Proof.
    intros HL HR.
    pose proof (lca_spec_root grp Hk t2 Hwf Hdeg) as HS. rewrite HL in HS.
    inversion HS as [|p' es' d' n Hn [Hc Hf] _ _]; subst.
    unfold root_edge in HR. rewrite Hn in HR.
    (* the parent branch of n, when n is not the root *)
    assert (PE : forall r, match p with [] => Err "model: the root has no parent branch"%string
                                   | _ :: _ => Ok (removelast p, last p 0, true) end = Ok r ->
                 p <> [] /\ r = (removelast p, last p 0, true)).
    { intros r H. destruct p; [discriminate|]. split; [discriminate|congruence]. }
    destruct Hf as [[Hs [He [_ Hi]]]|[Hkids [He Hd]]].
    - (* n is a tip: the only group tip *)
      assert (Dn : degree n = 1) by (unfold degree; now rewrite Hs).
      rewrite Dn in HR. simpl Nat.eqb in HR. cbv iota in HR.
      destruct (PE _ HR) as [Hp Er]. inversion Er; subst pp ks lower.
      destruct (node_at_last t2 p n Hp Hn) as [P [e [HP HK]]].
      exists P, e, n. split; [exact HP|]. split; [exact HK|]. split; [|discriminate]. intros _.
      assert (Ln : leaves n = [uname n]) by (destruct n as [nm c sl]; simpl in Hs; subst sl; reflexivity).
      unfold cin, nin in Hc. rewrite Ln in Hc. simpl in Hc. rewrite Hi in Hc. simpl in Hc.
      rewrite Ln. destruct grp as [|g [|g2 r]]; simpl in Hc; try discriminate.
      unfold inb in Hi. simpl in Hi. rewrite orb_false_r in Hi. apply String.eqb_eq in Hi.
      subst. reflexivity.
    - (* n is an inner node *)
      assert (Dn : Nat.eqb (degree n) 1 = false).
      { apply Nat.eqb_neq. destruct p as [|k0 r0].
        - simpl in Hn. inversion Hn; subst. lia.
        - assert (W : wf_sub n = true) by (eapply (node_at_wf_sub (k0 :: r0)); eauto; discriminate).
          destruct n as [nm c sl]. rewrite wf_sub_unfold in W. apply andb_true_iff in W as [W _].
          apply Nat.eqb_eq in W. unfold degree, kids in *. simpl in *.
          rewrite length_slots, W. destruct (kids_of sl); [congruence|simpl; lia]. }
      rewrite Dn in HR.
      destruct (Nat.eqb (degree n - length es) 1) eqn:E1; simpl in HR; [|discriminate].
      apply Nat.eqb_eq in E1.
      destruct (first_not_in es 0 (degree n)) as [j|] eqn:EF; [|discriminate].
      rewrite He in E1, EF. unfold degree in E1, EF.
      destruct (one_unselected grp (uslots n) j E1 EF) as [s [Hj [Hsel Hfil]]].
      rewrite Hj in HR.
      assert (SL : selleaves grp (uslots n) = slot_leaves (remove_nth j (uslots n))).
      { unfold selleaves. now rewrite Hfil. }
      assert (PG : Permutation (selleaves grp (uslots n)) grp).
      { eapply sel_leaves_group; eauto. }
      destruct s as [[ei ci]|].
      + (* the free branch leads to a child: n has no parent slot, it is the root *)
        inversion HR; subst pp ks lower.
        assert (U0 : n_up (uslots n) = 0).
        { rewrite (n_up_remove_nth _ _ _ Hj), <- Hfil, Nat.add_0_r.
          apply n_up_all_some, sel_slots_some. }
        assert (Hp : p = []).
        { destruct p as [|k0 r0]; auto.
          assert (W : wf_sub n = true) by (eapply (node_at_wf_sub (k0 :: r0)); eauto; discriminate).
          destruct n as [nm c sl]. rewrite wf_sub_unfold in W. apply andb_true_iff in W as [W _].
          apply Nat.eqb_eq in W. simpl in U0. lia. }
        exists n, ei, ci. split; [exact Hn|]. split; [exact Hj|]. split; [discriminate|].
        intros _. split; [exact Hp | rewrite <- SL; exact PG].
      + (* the free branch is the parent branch *)
        destruct (PE _ HR) as [Hp Er]. inversion Er; subst pp ks lower.
        destruct (node_at_last t2 p n Hp Hn) as [P [e [HP HK]]].
        exists P, e, n. split; [exact HP|]. split; [exact HK|]. split; [|discriminate]. intros _.
        assert (Ln : leaves n = slot_leaves (uslots n)).
        { destruct n as [nm c sl]. apply leaves_node. exact Hkids. }
        rewrite Ln. rewrite SL in PG. unfold slot_leaves in *.
        now rewrite (kids_of_remove_none _ _ Hj) in PG.
  Qed.
End Clade.

(** * without monophyly: the group is still on the outgroup side of the chosen branch *)
Section Inside.
  Variable grp : list string.
  Variable t2 : utree.
  Hypothesis Hk : 0 < length grp.
  Hypothesis Hwf : wf t2 = true.
  Hypothesis Hdeg : 2 <= degree t2.
  Hypothesis HND : NoDup (leaves t2).
  Hypothesis HG : NoDup grp.
  Hypothesis HI : incl grp (leaves t2).

  Lemma nin_full_incl L : NoDup L -> nin grp L = length grp -> incl grp L.
  Proof.
    intros HL Hn. unfold nin in Hn.
    assert (P : Permutation (filter (inb grp) L) grp).
    { apply NoDup_Permutation_bis; [now apply NoDup_filter | lia|].
      intros x Hx. apply filter_In in Hx as [_ Hx]. unfold inb in Hx. now apply smem_In. }
    intros x Hx. apply Permutation_sym in P. apply (Permutation_in _ P) in Hx.
    now apply filter_In in Hx as [Hx _].
  Qed.

  Lemma sel_leaves_incl n p :
    node_at t2 p = Some n -> kids n <> [] -> cin grp n = length grp ->
    incl grp (selleaves grp (uslots n)).
  Proof.
    intros Hn Hkids Hc.
    assert (Ln : leaves n = slot_leaves (uslots n)).
    { destruct n as [nm c sl]. apply leaves_node. exact Hkids. }
    assert (NDn : NoDup (slot_leaves (uslots n))) by (rewrite <- Ln; eapply node_at_NoDup; eauto).
    destruct (slot_leaves_filter_NoDup (sel grp) (uslots n) NDn) as [ND _].
    apply nin_full_incl; auto.
    unfold selleaves. fold (selleaves grp (uslots n)). rewrite sel_unsel_nin by exact Hk.
    unfold cin in Hc. rewrite Ln in Hc. exact Hc.
  Qed.

  Theorem root_edge_inside p es d pp ks lower :
    lca_rec grp (length grp) t2 = LFound p es d ->
    root_edge t2 p es = Ok (pp, ks, lower) ->
    exists P e ch,
      node_at t2 pp = Some P /\ nth_error (uslots P) ks = Some (Some (e, ch)) /\
      (lower = true -> incl grp (leaves ch)) /\
      (lower = false -> pp = [] /\ incl grp (slot_leaves (remove_nth ks (uslots P)))).
  Proof.
    intros HL HR.
    pose proof (lca_spec_root grp Hk t2 Hwf Hdeg) as HS. rewrite HL in HS.
    inversion HS as [|p' es' d' n Hn [Hc Hf] _ _]; subst.
    unfold root_edge in HR. rewrite Hn in HR.
    assert (PE : forall r, match p with [] => Err "model: the root has no parent branch"%string
                                   | _ :: _ => Ok (removelast p, last p 0, true) end = Ok r ->
                 p <> [] /\ r = (removelast p, last p 0, true)).
    { intros r H. destruct p; [discriminate|]. split; [discriminate|congruence]. }
    destruct Hf as [[Hs [He [_ Hi]]]|[Hkids [He Hd]]].
    - assert (Dn : degree n = 1) by (unfold degree; now rewrite Hs).
      rewrite Dn in HR. simpl Nat.eqb in HR. cbv iota in HR.
      destruct (PE _ HR) as [Hp Er]. inversion Er; subst pp ks lower.
      destruct (node_at_last t2 p n Hp Hn) as [P [e [HP HK]]].
      exists P, e, n. split; [exact HP|]. split; [exact HK|]. split; [|discriminate]. intros _.
      assert (Ln : leaves n = [uname n]) by (destruct n as [nm c sl]; simpl in Hs; subst sl; reflexivity).
      unfold cin, nin in Hc. rewrite Ln in Hc. simpl in Hc. rewrite Hi in Hc. simpl in Hc.
      rewrite Ln. destruct grp as [|g [|g2 r]]; simpl in Hc; try discriminate.
      unfold inb in Hi. simpl in Hi. rewrite orb_false_r in Hi. apply String.eqb_eq in Hi.
      subst. apply incl_refl.
    - assert (Dn : Nat.eqb (degree n) 1 = false).
      { apply Nat.eqb_neq. destruct p as [|k0 r0].
        - simpl in Hn. inversion Hn; subst. lia.
        - assert (W : wf_sub n = true) by (eapply (node_at_wf_sub (k0 :: r0)); eauto; discriminate).
          destruct n as [nm c sl]. rewrite wf_sub_unfold in W. apply andb_true_iff in W as [W _].
          apply Nat.eqb_eq in W. unfold degree, kids in *. simpl in *.
          rewrite length_slots, W. destruct (kids_of sl); [congruence|simpl; lia]. }
      rewrite Dn in HR.
      destruct (Nat.eqb (degree n - length es) 1) eqn:E1; simpl in HR; [|discriminate].
      apply Nat.eqb_eq in E1.
      destruct (first_not_in es 0 (degree n)) as [j|] eqn:EF; [|discriminate].
      rewrite He in E1, EF. unfold degree in E1, EF.
      destruct (one_unselected grp (uslots n) j E1 EF) as [s [Hj [Hsel Hfil]]].
      rewrite Hj in HR.
      assert (SL : selleaves grp (uslots n) = slot_leaves (remove_nth j (uslots n))).
      { unfold selleaves. now rewrite Hfil. }
      assert (PG : incl grp (selleaves grp (uslots n))).
      { eapply sel_leaves_incl; eauto. }
      destruct s as [[ei ci]|].
      + inversion HR; subst pp ks lower.
        assert (U0 : n_up (uslots n) = 0).
        { rewrite (n_up_remove_nth _ _ _ Hj), <- Hfil, Nat.add_0_r.
          apply n_up_all_some, sel_slots_some. }
        assert (Hp : p = []).
        { destruct p as [|k0 r0]; auto.
          assert (W : wf_sub n = true) by (eapply (node_at_wf_sub (k0 :: r0)); eauto; discriminate).
          destruct n as [nm c sl]. rewrite wf_sub_unfold in W. apply andb_true_iff in W as [W _].
          apply Nat.eqb_eq in W. simpl in U0. lia. }
        exists n, ei, ci. split; [exact Hn|]. split; [exact Hj|]. split; [discriminate|].
        intros _. split; [exact Hp | rewrite <- SL; exact PG].
      + destruct (PE _ HR) as [Hp Er]. inversion Er; subst pp ks lower.
        destruct (node_at_last t2 p n Hp Hn) as [P [e [HP HK]]].
        exists P, e, n. split; [exact HP|]. split; [exact HK|]. split; [|discriminate]. intros _.
        assert (Ln : leaves n = slot_leaves (uslots n)).
        { destruct n as [nm c sl]. apply leaves_node. exact Hkids. }
        rewrite Ln. rewrite SL in PG. unfold slot_leaves in *.
        now rewrite (kids_of_remove_none _ _ Hj) in PG.
  Qed.
End Inside.
