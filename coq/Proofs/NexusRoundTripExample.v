(** The hypotheses of the general Nexus round-trip theorems are satisfiable: a list of two
    trees (lengths, a support, an inner multifurcation) on one taxon set, with the executable
    strconv model of C01. *)
From Coq Require Import String Ascii ZArith QArith Bool Arith Lia List.
From GT Require Import Base.Sexp Base.UTree Spec.Obs Spec.NewickSpec Model.Newick Model.NewickNum Model.Nexus
     Proofs.NewickNumC Proofs.NexusWords Proofs.NexusRoundTrip Proofs.NexusRoundTripMain Proofs.NexusRoundTripC01
     Proofs.NexusRoundExamples.
Import ListNotations.
Local Close Scope Q_scope.
Local Open Scope string_scope.

Definition ex_list : list (nat * utree) := [(0, t_abc); (1, t_cab)].

Lemma ex_bound : (Z.of_nat (length (final_map ex_list [])) < two63)%Z.
Proof. vm_compute. reflexivity. Qed.

Lemma ex_labels : Forall label_ok (labels_of ex_list).
Proof.
  vm_compute labels_of. repeat constructor; vm_compute; try reflexivity; left; reflexivity.
Qed.

Lemma ex_trees : Forall (fun it => nexus_tree_ok fmt_go numericC parse_numC numokC (labels_of ex_list) (snd it)) ex_list.
Proof.
  repeat constructor; vm_compute; reflexivity.
Qed.
