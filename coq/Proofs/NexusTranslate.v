(** Tree.Rename in the translate chain: structure of renamed trees, the no-duplicate side
    conditions, and what comes back. *)
From Coq Require Import String Ascii ZArith QArith Bool Arith Lia List Permutation.
From GT Require Import Base.Sexp Base.UTree Spec.Obs Spec.NewickSpec Model.Newick Model.Nexus
     Proofs.NewickCanon
     Proofs.NexusLex Proofs.NexusWords Proofs.NexusRoundTrip Proofs.NexusRoundTripMain Proofs.NexusRoundTripTr
     Proofs.NexusRename Proofs.NexusNewickText.
Import ListNotations.
Local Close Scope Q_scope.
Local Open Scope string_scope.

(** * duplicates *)
Lemma mem_in : forall k l, mem k l = true <-> In k l.
Proof.
  intros k l. unfold mem. rewrite existsb_exists. split.
  - intros [x [Hx E]]. apply String.eqb_eq in E. subst. exact Hx.
  - intros H. exists k. split; [exact H|apply String.eqb_refl].
Qed.

Lemma has_dup_nodup : forall l, has_dup l = false <-> NoDup l.
Proof.
  induction l as [|x r IH]; simpl.
  - split; [constructor|reflexivity].
  - rewrite orb_false_iff. split.
    + intros [H1 H2]. constructor; [|apply IH; exact H2].
      intros C. apply mem_in in C. congruence.
    + intros H. inversion H; subst. split; [|apply IH; assumption].
      destruct (mem x r) eqn:E; [apply mem_in in E; contradiction|reflexivity].
Qed.

Lemma nodup_map_on : forall {A B} (f : A -> B) (g : B -> A) (l : list A),
    (forall x, In x l -> g (f x) = x) -> NoDup l -> NoDup (map f l).
Proof.
  intros A B f g. induction l as [|x r IH]; intros Hg H; simpl; [constructor|].
  inversion H; subst. constructor.
  - intros C. apply in_map_iff in C. destruct C as [y [E Hy]].
    assert (y = x) by (rewrite <- (Hg y (or_intror Hy)), E; apply Hg; left; reflexivity). subst. contradiction.
  - apply IH; [|assumption]. intros y Hy. apply Hg. right. exact Hy.
Qed.

(** a selection of the elements keeps distinctness of the non-empty names *)
Lemma nodup_select : forall {A} (f : A -> string) (p : A -> bool) (l : list A),
    (forall x, In x l -> p x = true -> f x <> "") ->
    NoDup (filter (fun n => negb (String.eqb n "")) (map f l)) -> NoDup (map f (filter p l)).
Proof.
  intros A f p. induction l as [|x r IH]; intros Hp H; simpl in *; [constructor|].
  assert (IHr : NoDup (map f (filter p r))).
  { apply IH; [intros y Hy; apply Hp; right; exact Hy|].
    destruct (negb (String.eqb (f x) "")); [inversion H; assumption|exact H]. }
  destruct (p x) eqn:Px; [|exact IHr].
  simpl. constructor; [|exact IHr].
  pose proof (Hp x (or_introl eq_refl) Px) as NE. apply String.eqb_neq in NE. rewrite NE in H. simpl in H.
  inversion H; subst. intros C. apply H2.
  apply in_map_iff in C. destruct C as [y [E Hy]]. apply filter_In in Hy. destruct Hy as [Hy Py].
  apply filter_In. split; [apply in_map_iff; exists y; auto|].
  rewrite <- E. pose proof (Hp y (or_intror Hy) Py) as NEy. apply String.eqb_neq in NEy. rewrite NEy. reflexivity.
Qed.

(** * structure of a renamed tree *)
Lemma rename_unfold : forall m n c sl,
    rename_nodes m (UNode n c sl) =
    UNode (ren_name m n) c (map (fun s : slot => match s with Some (e, ch) => Some (e, rename_nodes m ch) | None => None end) sl).
Proof. reflexivity. Qed.

Lemma degree_rename : forall m t, degree (rename_nodes m t) = degree t.
Proof. intros m [n c sl]. rewrite rename_unfold. unfold degree. simpl. apply map_length. Qed.

Lemma uname_rename : forall m t, uname (rename_nodes m t) = ren_name m (uname t).
Proof. intros m [n c sl]. reflexivity. Qed.

Lemma nodes_rename : forall m t, nodes (rename_nodes m t) = map (rename_nodes m) (nodes t).
Proof.
  intros m. induction t as [n c sl IH] using utree_ind'.
  rewrite rename_unfold. cbn [nodes]. rewrite <- rename_unfold. cbn [map]. f_equal.
  induction sl as [|[[e ch]|] r IHr]; simpl; [reflexivity| |].
  - inversion IH as [|? ? Hc Hr]; subst. rewrite map_app, Hc. f_equal. apply IHr. exact Hr.
  - inversion IH as [|? ? Hc Hr]; subst. apply IHr. exact Hr.
Qed.

Lemma names_rename : forall m t,
    map uname (nodes (rename_nodes m t)) = map (ren_name m) (map uname (nodes t)).
Proof.
  intros m t. rewrite nodes_rename, !map_map. apply map_ext. intros x. apply uname_rename.
Qed.

Lemma tips_filter : forall t, tips t = filter is_tip (nodes t).
Proof.
  induction t as [n c sl IH] using utree_ind'. cbn [tips nodes filter].
  assert (G : flat_map (fun s : slot => match s with Some (_, c0) => tips c0 | None => [] end) sl =
              filter is_tip (flat_map (fun s : slot => match s with Some (_, c0) => nodes c0 | None => [] end) sl)).
  { induction sl as [|[[e ch]|] r IHr]; simpl; [reflexivity| |].
    - inversion IH as [|? ? Hc Hr]; subst. rewrite filter_app, Hc. f_equal. apply IHr. exact Hr.
    - inversion IH as [|? ? Hc Hr]; subst. apply IHr. exact Hr. }
  rewrite G. destruct (is_tip (UNode n c sl)); reflexivity.
Qed.

Lemma tips_rename : forall m t, tip_names (rename_nodes m t) = map (ren_name m) (tip_names t).
Proof.
  intros m t. unfold tip_names. rewrite !tips_filter, nodes_rename.
  induction (nodes t) as [|x r IH]; [reflexivity|].
  cbn [map filter]. unfold is_tip at 1. rewrite degree_rename. fold (is_tip x).
  destruct (is_tip x); cbn [map]; [rewrite uname_rename; f_equal; exact IH|exact IH].
Qed.

(** the canonical form has the nodes of the tree, in order *)
Section Canon.
  Variable fmt : Q -> string.
  Variable parse_num : string -> option Q.

  Lemma names_canon_sub : forall t,
      map uname (nodes (canon_sub fmt parse_num t)) = map uname (nodes t).
  Proof.
    induction t as [n c sl IH] using utree_ind'.
    rewrite canon_sub_eq. cbn [nodes map flat_map app]. f_equal.
    induction sl as [|[[e ch]|] r IHr]; unfold kids_of in *; simpl; [reflexivity| |].
    - inversion IH as [|? ? Hc Hr]; subst. rewrite !map_app, Hc. f_equal. apply IHr. exact Hr.
    - inversion IH as [|? ? Hc Hr]; subst. apply IHr. exact Hr.
  Qed.

  Lemma names_canon_root : forall t,
      map uname (nodes (canon_root fmt parse_num t)) = map uname (nodes t).
  Proof.
    intros [n c sl]. unfold canon_root, kids. cbn [uname ucom uslots nodes map]. f_equal.
    induction sl as [|[[e ch]|] r IHr]; unfold kids_of in *; simpl; [reflexivity| |].
    - rewrite !map_app, names_canon_sub. f_equal. exact IHr.
    - exact IHr.
  Qed.
End Canon.

(** * pointwise inverse *)
Lemma ren_inverse : forall m tbl n, inverse_on m tbl n -> ren_name tbl (ren_name m n) = n.
Proof.
  intros m tbl n [H|H]; [subst; reflexivity|]. unfold ren_name.
  destruct (String.eqb n "") eqn:E; [rewrite E; reflexivity|].
  destruct (assoc_get n m) as [v|] eqn:G.
  - destruct H as [Hv Hg]. apply String.eqb_neq in Hv. rewrite Hv, Hg. reflexivity.
  - rewrite E, H. reflexivity.
Qed.

Lemma ren_nonempty : forall m tbl n, inverse_on m tbl n -> n <> "" -> ren_name m n <> "".
Proof.
  intros m tbl n H NE C. pose proof (ren_inverse m tbl n H) as I. rewrite C in I. unfold ren_name in I. simpl in I. congruence.
Qed.

Lemma filter_ne_map : forall m tbl l, Forall (inverse_on m tbl) l ->
    filter (fun n => negb (String.eqb n "")) (map (ren_name m) l) =
    map (ren_name m) (filter (fun n => negb (String.eqb n "")) l).
Proof.
  induction l as [|x r IH]; intros H; [reflexivity|]. inversion H; subst. simpl.
  destruct (String.eqb x "") eqn:E.
  - apply String.eqb_eq in E. subst. simpl. apply IH. assumption.
  - apply String.eqb_neq in E. pose proof (ren_nonempty m tbl x H2 E) as NE. apply String.eqb_neq in NE.
    rewrite NE. simpl. f_equal. apply IH. assumption.
Qed.

(** * Rename succeeds: the two no-duplicate tests *)
Definition ne_names (t : utree) : list string :=
  filter (fun n => negb (String.eqb n "")) (map uname (nodes t)).

Lemma tip_names_nodup : forall t,
    (forall x, In x (nodes t) -> is_tip x = true -> uname x <> "") ->
    NoDup (ne_names t) -> NoDup (tip_names t).
Proof.
  intros t H N. unfold tip_names. rewrite tips_filter. apply nodup_select; assumption.
Qed.

Theorem rename_tree_ok : forall m tbl t,
    Forall (inverse_on m tbl) (map uname (nodes t)) ->
    NoDup (ne_names t) -> NoDup (tip_names t) ->
    rename_tree m t = inl (rename_nodes m t).
Proof.
  intros m tbl t Hinv N1 N2. unfold rename_tree.
  fold (ne_names t). apply has_dup_nodup in N1. rewrite N1.
  rewrite tips_rename.
  assert (N3 : NoDup (map (ren_name m) (tip_names t))).
  { apply (nodup_map_on (ren_name m) (ren_name tbl)); [|exact N2].
    intros x Hx. apply ren_inverse. rewrite Forall_forall in Hinv. apply Hinv.
    unfold tip_names in Hx. rewrite tips_filter in Hx. apply in_map_iff in Hx. destruct Hx as [y [E Hy]].
    apply filter_In in Hy. apply in_map_iff. exists y. tauto. }
  apply has_dup_nodup in N3. rewrite N3. reflexivity.
Qed.

(** Rename back, applied to any tree [u] with the node names of the renamed tree *)
Theorem rename_back_ok : forall m tbl t u,
    Forall (inverse_on m tbl) (map uname (nodes t)) ->
    NoDup (ne_names t) -> NoDup (tip_names t) ->
    map uname (nodes u) = map uname (nodes (rename_nodes m t)) ->
    tip_names u = tip_names (rename_nodes m t) ->
    rename_tree tbl u = inl (rename_nodes tbl u) /\ tip_names (rename_nodes tbl u) = tip_names t.
Proof.
  intros m tbl t u Hinv N1 N2 Hn Ht.
  assert (T : tip_names (rename_nodes tbl u) = tip_names t).
  { rewrite tips_rename, Ht, tips_rename, map_map.
    rewrite <- (map_id (tip_names t)) at 2. apply map_ext_in. intros x Hx. apply ren_inverse.
    rewrite Forall_forall in Hinv. apply Hinv.
    unfold tip_names in Hx. rewrite tips_filter in Hx. apply in_map_iff in Hx. destruct Hx as [y [E Hy]].
    apply filter_In in Hy. apply in_map_iff. exists y. tauto. }
  split; [|exact T]. unfold rename_tree. rewrite T.
  apply has_dup_nodup in N2. rewrite N2.
  assert (N3 : NoDup (filter (fun n => negb (String.eqb n "")) (map uname (nodes u)))).
  { rewrite Hn, names_rename, (filter_ne_map m tbl _ Hinv).
    apply (nodup_map_on (ren_name m) (ren_name tbl)); [|exact N1].
    intros x Hx. apply ren_inverse. rewrite Forall_forall in Hinv. apply Hinv.
    unfold ne_names in Hx. apply filter_In in Hx. tauto. }
  apply has_dup_nodup in N3. rewrite N3. reflexivity.
Qed.
