(** Heap model: the refinement square of Tree.removeTip against Model/Prune.v [remove_tip]. *)
From Coq Require Import String ZArith QArith Bool Arith Lia Permutation List.
From GT Require Import Base.UTree Model.Reroot Model.Prune Model.NNI Model.Heap Model.HeapSpec Proofs.Enum Proofs.HeapBase Proofs.HeapRep
     Proofs.HeapGood Proofs.HeapGoodRep Proofs.HeapRerootL Proofs.HeapReorder Proofs.HeapReroot Proofs.HeapUnrootL Proofs.HeapUnroot
     Proofs.HeapCtx Proofs.HeapGraft Proofs.HeapCollapse Proofs.HeapPrune Proofs.HeapPaths Proofs.HeapCollapseTree
     Proofs.HeapCollapseSq Proofs.HeapPruneTree Proofs.HeapTips.
Import ListNotations.
Local Close Scope Q_scope.

(** * paths in labelled trees *)
Lemma lnode_at_snoc : forall p lt j x, lnode_at lt (p ++ [j]) = Some x ->
  exists sub e ei, lnode_at lt p = Some sub /\ nth_error (lslots sub) j = Some (Some (e, ei, x)).
Proof.
  induction p as [|k p IH]; intros lt j x H.
  - cbn [app lnode_at] in H. destruct (nth_error (lslots lt) j) as [[[[e ei] c]|]|] eqn:E; try discriminate.
    injection H as <-. exists lt, e, ei. split; [reflexivity|exact E].
  - cbn [app lnode_at] in *. destruct (nth_error (lslots lt) k) as [[[[e ei] c]|]|]; try discriminate. exact (IH c j x H).
Qed.

Lemma lnode_at_cons_sids k p i n c sl sub : lnode_at (LNode i n c sl) (k :: p) = Some sub -> In (lid sub) (sids sl).
Proof.
  cbn [lnode_at lslots]. destruct (nth_error sl k) as [[[[e ei] ch]|]|] eqn:E; try discriminate. intros H.
  eapply in_sids; [eapply nth_error_In; exact E|]. eapply lnode_at_in_lids. exact H.
Qed.

Lemma lnode_at_lreplace new : forall p lt sub, lnode_at lt p = Some sub -> NoDup (lids lt) ->
  lnode_at (lreplace (lid sub) new lt) p = Some new.
Proof.
  induction p as [|k p IH]; intros [i n c sl] sub H Nd.
  - injection H as <-. cbn [lid]. rewrite lreplace_eq, Nat.eqb_refl. reflexivity.
  - pose proof (lnode_at_cons_sids _ _ _ _ _ _ _ H) as Hin.
    rewrite lids_eq in Nd. apply NoDup_cons_iff in Nd. destruct Nd as [Ni Nd]. fold (sids sl) in Ni, Nd.
    rewrite lreplace_eq. destruct (Nat.eqb_spec i (lid sub)) as [E|_]; [exfalso; apply Ni; rewrite E; exact Hin|].
    cbn [lnode_at lslots] in *. rewrite nth_error_map.
    destruct (nth_error sl k) as [[[[e ei] ch]|]|] eqn:E; try discriminate. cbn [option_map lreplace_slot].
    apply IH; [exact H|]. exact (NoDup_flat_map_in _ _ _ Nd (nth_error_In _ _ E)).
Qed.

(** * one deletion step: the leaf at path [p ++ [j]] is removed from its parent at path [p] *)
Lemma drop_leaf_path h lt p j x nmx cmx : Rep h lt -> lnode_at lt (p ++ [j]) = Some (LNode x nmx cmx [None]) ->
  exists q nm cm l1 l2 ex eix hx h1 hq1,
    lnode_at lt p = Some (LNode q nm cm (l1 ++ Some (ex, eix, LNode x nmx cmx [None]) :: l2)) /\ j = length l1 /\
    alookup x (hnodes h) = Some hx /\ hneigh hx = [q] /\ hbr hx = [ex] /\ alookup ex (hedges h) = Some (mkHE q x eix) /\
    (do h0 <- del_neighbor q x h; del_node x h0) = HOk h1 /\
    Rep h1 (lreplace q (LNode q nm cm (l1 ++ l2)) lt) /\
    lnode_at (lreplace q (LNode q nm cm (l1 ++ l2)) lt) p = Some (LNode q nm cm (l1 ++ l2)) /\
    at_path (rm_leaf j) p (erase lt) = Some (erase (lreplace q (LNode q nm cm (l1 ++ l2)) lt)) /\
    alookup q (hnodes h1) = Some hq1 /\ length (hneigh hq1) = length (l1 ++ l2) /\ hroot h1 = hroot h /\
    length (lids (lreplace q (LNode q nm cm (l1 ++ l2)) lt)) < length (lids lt).
Proof.
  intros R Hp. destruct (lnode_at_snoc p lt j _ Hp) as ([q nm cm sl] & ex & eix & Hq & Hj). cbn [lslots] in Hj.
  destruct (nth_error_split _ _ Hj) as (l1 & l2 & Esl & Ej). subst sl. symmetry in Ej.
  destruct (lnode_at_lsubs p lt None _ Hq) as [pp Hsub].
  destruct (DL_facts h lt R pp q nm cm l1 l2 ex eix x nmx cmx Hsub)
    as (hq & hx & c1 & c2 & HQ & Hx0 & _ & _ & _ & _ & _ & _ & _ & Hng & Hbr & Hex & Nqx).
  destruct (drop_leaf_Rep h lt R pp q nm cm l1 l2 ex eix x nmx cmx Hsub) as (h1 & hQ1 & Ev & R1 & HQ1 & HQ' & LQ & Hrt & Nsame & _ & Hgone).
  rewrite HQ in HQ1. injection HQ1 as <-.
  set (new := LNode q nm cm (l1 ++ l2)) in *. set (lt1 := lreplace q new lt) in *.
  exists q, nm, cm, l1, l2, ex, eix, hx, h1. eexists.
  split; [exact Hq|]. split; [exact Ej|]. split; [exact Hx0|]. split; [exact Hng|]. split; [exact Hbr|]. split; [exact Hex|].
  split; [exact Ev|]. split; [exact R1|].
  split; [exact (lnode_at_lreplace new p lt _ Hq (rep_nd _ _ R))|].
  split.
  { apply (erase_lreplace_at_path (rm_leaf j) new p lt _ Hq (rep_nd _ _ R)).
    rewrite erase_eq. cbn [rm_leaf]. rewrite map_app. cbn [map erase_slot]. rewrite erase_eq. cbn [map erase_slot].
    rewrite Ej, <- (map_length erase_slot l1), nth_error_app_mid, remove_nth_app_mid. unfold new. rewrite erase_eq, map_app. reflexivity. }
  split; [exact HQ'|]. split.
  { cbn [hneigh]. pose proof (del_nth_length (length l1) (hneigh hq)) as D. rewrite app_length in *. lia. }
  split; [exact Hrt|].
  change (length (lids lt1) < length (lids lt)).
  assert (S (length (lids lt1)) <= length (lids lt)); [|lia].
  apply (NoDup_incl_length (l := x :: lids lt1)).
  - constructor; [|exact (rep_nd _ _ R1)]. intros Hy. apply (rep_nodes _ _ R1) in Hy. congruence.
  - intros y [<-|Hy]; [apply (rep_nodes _ _ R); congruence|]. apply (rep_nodes _ _ R1) in Hy. apply (rep_nodes _ _ R).
    destruct (Nat.eq_dec y q) as [->|Nm]; [congruence|]. destruct (Nat.eq_dec y x) as [->|Nq]; [congruence|].
    rewrite <- (Nsame y Nm Nq). exact Hy.
Qed.

(** the record of the node at a path *)
Lemma node_at_record h lt p i n c sl : Rep h lt -> lnode_at lt p = Some (LNode i n c sl) ->
  exists hn, alookup i (hnodes h) = Some hn /\ length (hneigh hn) = length sl /\
    (p <> [] -> i <> hroot h /\ lwf_sub (LNode i n c sl)) /\ (p = [] -> i = hroot h /\ lt = LNode i n c sl).
Proof.
  intros R Hp. destruct (lnode_at_lsubs p lt None _ Hp) as [ctx Hsub].
  pose proof (shape_lsubs _ _ _ _ _ _ (rep_shape _ _ R) Hsub) as Sh. pose proof Sh as Sh0.
  apply shape_unfold in Sh. destruct Sh as [hn (A1 & _)]. exists hn. split; [exact A1|].
  split; [exact (proj1 (shape_length _ _ _ _ _ _ _ _ Sh0 A1))|]. split.
  - intros Np. destruct p as [|k p]; [congruence|]. destruct lt as [i0 n0 c0 sl0].
    pose proof (lnode_at_cons_sids _ _ _ _ _ _ _ Hp) as Hin. cbn [lid] in Hin.
    pose proof (rep_nd _ _ R) as Nd. rewrite lids_eq in Nd. apply NoDup_cons_iff in Nd. destruct Nd as [Ni _]. fold (sids sl0) in Ni.
    pose proof (rep_root _ _ R) as Hr. cbn [lid] in Hr.
    split; [intros E; apply Ni; rewrite <- Hr, <- E; exact Hin|].
    destruct (lwf_sub_lsubs _ None _ _ (or_introl (rep_wf _ _ R)) Hsub) as [E|W]; [|exact W].
    exfalso. apply Ni. injection E as _ E1 _ _ _. rewrite <- E1. exact Hin.
  - intros ->. injection Hp as ->. split; [|reflexivity]. symmetry. exact (rep_root _ _ R).
Qed.

(** * the Case 1 loop, with the path of the current node and the answer of the model kept *)
Lemma single_path_loop_path nm : forall fuel h lt q p subq, Rep h lt -> lnode_at lt p = Some subq -> lid subq = q ->
  length (lids lt) < fuel ->
  exists q' h' lt' p' subq', single_path_loop fuel q h = HOk (q', h') /\ Rep h' lt' /\
    lnode_at lt' p' = Some subq' /\ lid subq' = q' /\ (p' = [] \/ length (lslots subq') <> 1) /\
    after_root nm p (erase lt) = after_root nm p' (erase lt').
Proof.
  induction fuel as [|f IH]; intros h lt q p subq R Hp Hq Hf; [lia|].
  destruct subq as [q0 nmq cmq slq]. cbn [lid] in Hq. subst q0.
  destruct (node_at_record h lt p q nmq cmq slq R Hp) as (hq & Eq & Lq & Hne & Hnil).
  cbn [single_path_loop]. unfold get_node. rewrite Eq. cbn [hbind].
  destruct (Nat.eqb_spec (hroot h) q) as [Er|Nr]; cbn [negb andb].
  { exists q, h, lt, p, (LNode q nmq cmq slq). split; [reflexivity|]. split; [exact R|]. split; [exact Hp|]. split; [reflexivity|]. split; [|reflexivity]. left.
    destruct p as [|k p]; [reflexivity|]. exfalso. apply (proj1 (Hne ltac:(discriminate))). symmetry. exact Er. }
  destruct (Nat.eqb_spec (length (hneigh hq)) 1) as [L1|L1].
  2:{ exists q, h, lt, p, (LNode q nmq cmq slq). split; [reflexivity|]. split; [exact R|]. split; [exact Hp|]. split; [reflexivity|]. split; [|reflexivity]. right. cbn [lslots]. lia. }
  assert (Np : p <> []). { intros E. apply Nr. symmetry. exact (proj1 (Hnil E)). }
  destruct (Hne Np) as [_ W]. apply lwf_sub_iff in W. destruct W as [W1 _].
  rewrite Lq in L1. destruct slq as [|s [|s' slq]]; cbn in L1; try lia.
  destruct s as [[[e ei] ch]|]; [cbn in W1; discriminate|].
  destruct (exists_last Np) as (p0 & j & ->).
  destruct (drop_leaf_path h lt p0 j q nmq cmq R Hp)
    as (Q & nm' & cm' & l1 & l2 & ex & eix & hx & h1 & hq1 & HQ & Ej & Hx & Hng & Hbr & Hex & Ev & R1 & HQ1 & Hat & _ & _ & _ & Hlen).
  rewrite Hx in Eq. injection Eq as <-.
  unfold nth_res. rewrite Hbr. cbn [nth_error hbind]. unfold get_edge. rewrite Hex. cbn [hbind hleft].
  destruct (del_neighbor Q q h) as [h0| |] eqn:E0; cbn [hbind] in Ev; try discriminate. cbn [hbind]. rewrite Ev. cbn [hbind].
  set (lt1 := lreplace Q (LNode Q nm' cm' (l1 ++ l2)) lt) in *.
  destruct (IH h1 lt1 Q p0 _ R1 HQ1 eq_refl ltac:(lia)) as (q' & h' & lt' & p' & subq' & A1 & A2 & A3 & A4 & A5 & A6).
  exists q', h', lt', p', subq'. split; [exact A1|]. split; [exact A2|]. split; [exact A3|]. split; [exact A4|]. split; [exact A5|].
  rewrite <- A6. destruct p0 as [|k0 p0].
  - cbn [app]. apply after_root_chain0. exact Hat.
  - apply after_root_chain; [exact Hat|discriminate].
Qed.

(** * what follows the loop: Case 1b, or the tail (Case 2 / Case 3) *)
Definition prune_tail (name : string) (q : nat) (h : heap) : hres heap :=
  do hi <- get_node h q;
  if Nat.eqb (hroot h) q && Nat.eqb (length (hneigh hi)) 1 then
    do c <- nth_res (hneigh hi) 0;
    let h := set_root h c in
    do h <- del_neighbor c q h;
    del_node q h
  else suppress_tail name q h.

Lemma merged_info_eq e1 e2 b1 b2 : merged_info e1 e2 b1 b2 = merge_edge e1 e2 b1 b2.
Proof. reflexivity. Qed.

Lemma after_del_sub_keep nm n c sl : length sl <> 1 -> length sl <> 2 -> after_del_sub nm n c sl = OKeep (UNode n c sl).
Proof.
  intros H1 H2. destruct sl as [|s1 [|s2 [|s3 r]]]; cbn in H1, H2; try lia; [reflexivity|].
  destruct s1 as [[? ?]|], s2 as [[? ?]|]; reflexivity.
Qed.

Lemma after_del_root_keep nm n c (sl : list lslot) : lnup sl = 0 -> length sl <> 1 -> length sl <> 2 ->
  after_del_root nm n c (map erase_slot sl) = Ok (UNode n c (map erase_slot sl)).
Proof.
  intros U H1 H2. destruct sl as [|s1 [|s2 [|s3 r]]]; cbn in H1, H2; try lia; [reflexivity|].
  destruct s1 as [[[? ?] [? ? ? ?]]|], s2 as [[[? ?] [? ? ? ?]]|]; cbn in U; try discriminate. reflexivity.
Qed.

(** the tail on a node with neither one nor two slots does nothing *)
Lemma prune_tail_case3 name h q hq : alookup q (hnodes h) = Some hq -> length (hneigh hq) <> 1 -> length (hneigh hq) <> 2 ->
  prune_tail name q h = HOk h.
Proof.
  intros Hq L1 L2. unfold prune_tail, get_node. rewrite Hq. cbn [hbind].
  destruct (Nat.eqb_spec (length (hneigh hq)) 1) as [E|_]; [lia|]. rewrite andb_false_r.
  unfold suppress_tail, get_node. rewrite Hq. cbn [hbind].
  destruct (Nat.eqb_spec (length (hneigh hq)) 2) as [E|_]; [lia|]. reflexivity.
Qed.

Lemma prune_tail_tail name h q hq : alookup q (hnodes h) = Some hq -> length (hneigh hq) <> 1 ->
  prune_tail name q h = suppress_tail name q h.
Proof.
  intros Hq L1. unfold prune_tail, get_node. rewrite Hq. cbn [hbind].
  destruct (Nat.eqb_spec (length (hneigh hq)) 1) as [E|_]; [lia|]. rewrite andb_false_r. reflexivity.
Qed.

Lemma prune_tail_nonroot name h q hq : alookup q (hnodes h) = Some hq -> q <> hroot h ->
  prune_tail name q h = suppress_tail name q h.
Proof.
  intros Hq L1. unfold prune_tail, get_node. rewrite Hq. cbn [hbind].
  destruct (Nat.eqb_spec (hroot h) q) as [E|_]; [congruence|]. reflexivity.
Qed.

Lemma remove_nth_map_mid {A B} (f : A -> B) l1 a r : remove_nth (length l1) (map f l1 ++ a :: r) = map f l1 ++ r.
Proof. rewrite <- (map_length f l1). apply remove_nth_app_mid. Qed.

(** the model's answer for the parent of a suppressed node *)
Lemma splice_calc nm P nmP cmP l1 l2 eP eiP i nmi cmi (pfirst : bool) eC eiC C nmC cmC slC enew :
  let Cn := LNode C nmC cmC slC in
  let sli : list lslot := if pfirst then [None; Some (eC, eiC, Cn)] else [Some (eC, eiC, Cn); None] in
  let slP := l1 ++ Some (eP, eiP, LNode i nmi cmi sli) :: l2 in
  let newP := LNode P nmP cmP ((l1 ++ l2) ++
       [Some (enew, merged_info eiP eiC (Nat.ltb 1 (length slP)) (Nat.ltb 1 (length slC)), LNode C nmC cmC (ldrop_up slC ++ [None]))]) in
  prop_sub nm nmP cmP (map erase_slot slP) (length l1) eiP (after_sub nm [] (erase (LNode i nmi cmi sli))) = OKeep (erase newP) /\
  prop_root nm nmP cmP (map erase_slot slP) (length l1) eiP (after_sub nm [] (erase (LNode i nmi cmi sli))) = Ok (erase newP).
Proof.
  cbv zeta.
  assert (E : after_sub nm [] (erase (LNode i nmi cmi (if pfirst then [None; Some (eC, eiC, LNode C nmC cmC slC)] else [Some (eC, eiC, LNode C nmC cmC slC); None])))
              = OSplice eiC (erase (LNode C nmC cmC slC))).
  { destruct pfirst; reflexivity. }
  rewrite E. cbn [prop_sub prop_root]. unfold splice. rewrite map_app. cbn [map].
  rewrite !remove_nth_map_mid.
  rewrite !erase_eq. cbn [reparent degree uslots]. rewrite !map_app. cbn [map erase_slot]. rewrite ?erase_eq, ?map_app, ?erase_drop_up.
  cbn [map erase_slot]. unfold degree. cbn [uslots]. unfold merged_info, merge_edge. rewrite !app_length. cbn [length]. rewrite !map_length.
  split; reflexivity.
Qed.

Lemma root_one_child h r nm cm ec eic c nmc cmc slc hr : Rep h (LNode r nm cm [Some (ec, eic, LNode c nmc cmc slc)]) ->
  alookup r (hnodes h) = Some hr -> hneigh hr = [c].
Proof.
  intros R Hr. pose proof (rep_shape _ _ R) as Sh. apply shape_unfold in Sh. destruct Sh as [hr' (A1 & A2 & A3 & A4 & A5)].
  rewrite Hr in A1. injection A1 as <-.
  apply Forall2_cons_inv_r in A5. destruct A5 as ([c0 e0] & tl & Esl & Ok0 & A5). inversion A5. subst tl. clear A5.
  cbn [slot_ok fst snd lid] in Ok0. destruct Ok0 as (_ & <- & <- & _).
  unfold slots_of in Esl. destruct (hneigh hr) as [|a [|a' ng]], (hbr hr) as [|b [|b' bs]]; cbn in A4, Esl; try discriminate; try lia.
  injection Esl as -> ->. reflexivity.
Qed.

Lemma nth_error_map_mid {A B} (f : A -> B) l1 a r : nth_error (map f (l1 ++ a :: r)) (length l1) = Some (f a).
Proof. rewrite map_app. cbn [map]. rewrite <- (map_length f l1). apply nth_error_app_mid. Qed.

Theorem prune_tail_square_k nm h lt p subq : Rep h lt -> lnode_at lt p = Some subq -> (p = [] \/ length (lslots subq) <> 1) ->
  match after_root nm p (erase lt) with
  | Ok t' => exists h' lt', prune_tail nm (lid subq) h = HOk h' /\ Rep h' lt' /\ erase lt' = t' /\ Keeps lt lt'
  | Err m => prune_tail nm (lid subq) h = HErr m
  end.
Proof.
  intros R Hp Hstop. destruct subq as [q nmq cmq slq]. cbn [lid lslots] in *.
  destruct (node_at_record h lt p q nmq cmq slq R Hp) as (hq & Eq & Lq & Hne & Hnil).
  destruct p as [|k0 p0'].
  - (* the root *)
    destruct (Hnil eq_refl) as [Er ->]. rewrite erase_eq. cbn [after_root].
    pose proof (rep_wf _ _ R) as W. apply lwf_iff in W. destruct W as [W0 Wk].
    destruct slq as [|s1 [|s2 [|s3 r]]].
    + rewrite (prune_tail_case3 nm h q hq Eq) by (rewrite Lq; cbn; lia). cbn [map after_del_root].
      exists h. eexists. split; [reflexivity|]. split; [exact R|]. split; [reflexivity|apply keeps_refl].
    + destruct s1 as [[[ec eic] [c nmc cmc slc]]|]; [|cbn in W0; discriminate].
      cbn [map erase_slot]. rewrite erase_eq. cbn [after_del_root].
      destruct (drop_root_Rep h q nmq cmq ec eic c nmc cmc slc R) as (h' & Ev & R').
      assert (Uc : lnup slc = 1) by exact (proj1 (proj1 (lwf_sub_iff c nmc cmc slc) (Wk _ _ _ (or_introl eq_refl)))).
      exists h'. eexists. split; [|split; [exact R'|split; [rewrite erase_eq, erase_drop_up; reflexivity|apply keeps_drop_root; exact Uc]]].
      unfold prune_tail, get_node. rewrite Eq. cbn [hbind]. rewrite <- Er, Nat.eqb_refl, Lq. cbn [length Nat.eqb andb].
      rewrite (root_one_child h q nmq cmq ec eic c nmc cmc slc hq R Eq). cbn [nth_res nth_error hbind]. exact Ev.
    + destruct s1 as [[[e1 ei1] [n1 nm1 cm1 sl1]]|]; [|cbn in W0; discriminate].
      destruct s2 as [[[e2 ei2] [n2 nm2 cm2 sl2]]|]; [|cbn in W0; discriminate].
      pose proof (suppress_root_Rep_x h nm q nmq cmq e1 ei1 n1 nm1 cm1 sl1 e2 ei2 n2 nm2 cm2 sl2 R) as X. cbv zeta in X.
      rewrite (prune_tail_tail nm h q hq Eq) by (rewrite Lq; cbn; lia). rewrite <- Er in X.
      cbn [map erase_slot]. rewrite !erase_eq. cbn [after_del_root uname ucom]. unfold degree. cbn [uslots]. rewrite !map_length.
      assert (U1 : lnup sl1 = 1) by exact (proj1 (proj1 (lwf_sub_iff n1 nm1 cm1 sl1) (Wk _ _ _ (or_introl eq_refl)))).
      assert (U2 : lnup sl2 = 1) by exact (proj1 (proj1 (lwf_sub_iff n2 nm2 cm2 sl2) (Wk _ _ _ (or_intror (or_introl eq_refl))))).
      destruct (Nat.ltb 1 (length sl1 - 1)); [|destruct (Nat.ltb 1 (length sl2 - 1))].
      * destruct X as (h' & Ev & R'). exists h'. eexists. split; [exact Ev|]. split; [exact R'|]. split; [|exact (proj1 (keeps_unroot q nmq cmq e1 ei1 n1 nm1 cm1 sl1 e2 ei2 n2 nm2 cm2 sl2 _ _ U1 U2))].
        rewrite erase_eq, map_app, erase_drop_up. cbn [map erase_slot reparent uslots]. rewrite erase_eq, map_app, erase_drop_up. reflexivity.
      * destruct X as (h' & Ev & R'). exists h'. eexists. split; [exact Ev|]. split; [exact R'|]. split; [|exact (proj2 (keeps_unroot q nmq cmq e1 ei1 n1 nm1 cm1 sl1 e2 ei2 n2 nm2 cm2 sl2 _ _ U1 U2))].
        rewrite erase_eq, map_app, erase_drop_up. cbn [map erase_slot reparent uslots]. rewrite erase_eq, map_app, erase_drop_up. reflexivity.
      * rewrite X. unfold err_no_root, err_two_tips. destruct (Nat.eqb (length sl2 - 1) 1 || Nat.eqb (length sl1 - 1) 1); reflexivity.
    + rewrite (prune_tail_case3 nm h q hq Eq) by (rewrite Lq; cbn; lia).
      rewrite after_del_root_keep by (try exact W0; cbn; lia).
      exists h. eexists. split; [reflexivity|]. split; [exact R|]. split; [rewrite erase_eq; reflexivity|apply keeps_refl].
  - (* an inner node that keeps at least two slots *)
    set (p := k0 :: p0') in *. assert (Np : p <> []) by discriminate. clearbody p.
    destruct (Hne Np) as [Nr W]. apply lwf_sub_iff in W. destruct W as [W1 Wk].
    destruct Hstop as [E|Hstop]; [congruence|].
    destruct (Nat.eq_dec (length slq) 2) as [L2|L2].
    + destruct (exists_last Np) as (p0 & k & ->).
      destruct (lnode_at_snoc p0 lt k _ Hp) as ([P nmP cmP slP] & eP & eiP & HP & Hk). cbn [lslots] in Hk.
      destruct (nth_error_split _ _ Hk) as (l1 & l2 & EslP & Ek). subst slP. symmetry in Ek.
      destruct (two_slots_one_up slq L2 W1) as (eC & eiC & [C nmC cmC slC] & Hsli).
      set (pfirst := match slq with None :: _ => true | _ => false end).
      assert (Esli : slq = if pfirst then [None; Some (eC, eiC, LNode C nmC cmC slC)] else [Some (eC, eiC, LNode C nmC cmC slC); None]).
      { unfold pfirst. destruct Hsli as [E| E]; rewrite E; reflexivity. }
      clearbody pfirst. rewrite Esli in HP.
      destruct (lnode_at_lsubs p0 lt None _ HP) as [pp Hsub].
      destruct (suppress_inner_Rep_x h lt nm pp P nmP cmP l1 l2 eP eiP q nmq cmq pfirst eC eiC C nmC cmC slC R Hsub) as (h' & Ev & R').
      rewrite (prune_tail_nonroot nm h q hq Eq Nr).
      destruct (splice_calc nm P nmP cmP l1 l2 eP eiP q nmq cmq pfirst eC eiC C nmC cmC slC (hnexte h)) as [S1 S2]. cbv zeta in S1, S2.
      match type of R' with Rep _ (lreplace _ ?new _) => set (newP := new) in * end.
      set (subP := LNode P nmP cmP (l1 ++ Some (eP, eiP, LNode q nmq cmq (if pfirst then [None; Some (eC, eiC, LNode C nmC cmC slC)] else [Some (eC, eiC, LNode C nmC cmC slC); None])) :: l2)) in *.
      assert (KP : Keeps lt (lreplace P newP lt)).
      { assert (UC : lnup slC = 1).
        { assert (Hin : In (Some (eC, eiC, LNode C nmC cmC slC)) slq) by (rewrite Esli; destruct pfirst; [right; left|left]; reflexivity).
          exact (proj1 (proj1 (lwf_sub_iff C nmC cmC slC) (Wk _ _ _ Hin))). }
        intros e He _. left. apply (ltips_lreplace P newP lt None pp subP (rep_nd _ _ R) Hsub eq_refl e He).
        intros Hs. exact (ltips_splice P nmP cmP l1 l2 eP eiP q nmq cmq pfirst eC eiC C nmC cmC slC _ _ UC e Hs). }
      destruct p0 as [|k1 p1].
      * injection HP as HP. cbn [app]. rewrite HP. unfold subP. rewrite erase_eq. cbn [after_root]. rewrite Ek, nth_error_map_mid.
        cbn [erase_slot]. rewrite S2. exists h'. eexists. split; [exact Ev|]. split; [exact R'|]. split; [|rewrite HP in KP at 1; exact KP].
        rewrite HP. unfold subP. rewrite lreplace_eq, Nat.eqb_refl. reflexivity.
      * assert (A : at_path (keep_of nm [k]) (k1 :: p1) (erase lt) = Some (erase (lreplace P newP lt))).
        { apply (erase_lreplace_at_path (keep_of nm [k]) newP (k1 :: p1) lt subP HP (rep_nd _ _ R)).
          unfold keep_of, subP. rewrite erase_eq, after_sub_cons, Ek, nth_error_map_mid. cbn [erase_slot]. rewrite S1. reflexivity. }
        rewrite (after_root_keep nm [k] (k1 :: p1) (erase lt) _ A ltac:(discriminate)).
        exists h'. eexists. split; [exact Ev|]. split; [exact R'|]. split; [reflexivity|exact KP].
    + rewrite (prune_tail_case3 nm h q hq Eq) by (rewrite Lq; assumption).
      destruct (lnode_at_lsubs p lt None _ Hp) as [pp Hsub].
      assert (A : at_path (keep_of nm []) p (erase lt) = Some (erase lt)).
      { rewrite <- (lreplace_same lt None pp _ (rep_nd _ _ R) Hsub) at 2.
        apply (erase_lreplace_at_path (keep_of nm []) _ p lt _ Hp (rep_nd _ _ R)).
        unfold keep_of. rewrite erase_eq. cbn [after_sub]. rewrite after_del_sub_keep by (rewrite map_length; assumption). reflexivity. }
      pose proof (after_root_keep nm [] p (erase lt) _ A Np) as K. rewrite app_nil_r in K. rewrite K.
      exists h, lt. split; [reflexivity|]. split; [exact R|]. split; [reflexivity|apply keeps_refl].
Qed.


Theorem prune_tail_square nm h lt p subq : Rep h lt -> lnode_at lt p = Some subq -> (p = [] \/ length (lslots subq) <> 1) ->
  match after_root nm p (erase lt) with
  | Ok t' => exists h' lt', prune_tail nm (lid subq) h = HOk h' /\ Rep h' lt' /\ erase lt' = t'
  | Err m => prune_tail nm (lid subq) h = HErr m
  end.
Proof.
  intros R Hp Hs. pose proof (prune_tail_square_k nm h lt p subq R Hp Hs) as X.
  destruct (after_root nm p (erase lt)); [|exact X]. destruct X as (h' & lt' & A & B & C & _). exists h', lt'. split; [exact A|]. split; [exact B|exact C].
Qed.

(** * the whole function *)
Lemma at_path_weaken (f g : utree -> option utree) : (forall s s', f s = Some s' -> g s = Some s') ->
  forall p t t', at_path f p t = Some t' -> at_path g p t = Some t'.
Proof.
  intros Hfg. induction p as [|k p IH]; intros [n c sl] t' H.
  - apply Hfg. exact H.
  - rewrite at_path_cons in *. destruct (nth_error sl k) as [[[e ch]|]|]; try discriminate.
    destruct (at_path f p ch) as [ch'|] eqn:E; [|discriminate]. rewrite (IH ch ch' E). exact H.
Qed.

Lemma rm_leaf_slot j s s' : rm_leaf j s = Some s' -> rm_slot j s = Some s'.
Proof.
  destruct s as [n c sl]. cbn [rm_leaf rm_slot]. destruct (nth_error sl j) as [[[e [n' c' sl']]|]|]; try discriminate.
  destruct sl' as [|a [|b r]]; try discriminate. intros H. exact H.
Qed.

Lemma after_loop_eq nm q h :
  (do (internal, h, fin) <-
     (do hi <- get_node h q;
      if Nat.eqb (hroot h) q && Nat.eqb (length (hneigh hi)) 1 then
        do c <- nth_res (hneigh hi) 0;
        let h := set_root h c in
        do h <- del_neighbor c q h;
        do h <- del_node q h;
        HOk (q, h, true)
      else HOk (q, h, false));
   if (fin : bool) then HOk h else suppress_tail nm internal h) = prune_tail nm q h.
Proof.
  unfold prune_tail. destruct (get_node h q) as [hi| |]; cbn [hbind]; try reflexivity.
  destruct (Nat.eqb (hroot h) q && Nat.eqb (length (hneigh hi)) 1); cbn [hbind]; [|reflexivity].
  destruct (nth_res (hneigh hi) 0) as [c| |]; cbn [hbind]; try reflexivity.
  destruct (del_neighbor c q (set_root h c)) as [h1| |]; cbn [hbind]; try reflexivity.
  destruct (del_node q h1) as [h2| |]; reflexivity.
Qed.

Theorem remove_tip_heap_path nm h lt p j x nmx cmx t1 : Rep h lt ->
  lnode_at lt (p ++ [j]) = Some (LNode x nmx cmx [None]) -> at_path (rm_slot j) p (erase lt) = Some t1 ->
  match after_root nm p t1 with
  | Ok t' => exists h' lt', remove_tip_heap nm x h = HOk h' /\ Rep h' lt' /\ erase lt' = t'
  | Err m => remove_tip_heap nm x h = HErr m
  end.
Proof.
  intros R Hp Ht1.
  destruct (drop_leaf_path h lt p j x nmx cmx R Hp)
    as (Q & nm' & cm' & l1 & l2 & ex & eix & hx & h1 & hq1 & HQ & Ej & Hx & Hng & Hbr & Hex & Ev & R1 & HQ1 & Hat & Hq1 & Lq1 & Hrt & Hlen).
  set (lt1 := lreplace Q (LNode Q nm' cm' (l1 ++ l2)) lt) in *.
  pose proof (at_path_weaken _ _ (rm_leaf_slot j) _ _ _ Hat) as Hat'. rewrite Ht1 in Hat'. injection Hat' as ->.
  assert (Heq : exists h' lt' p' subq', remove_tip_heap nm x h = prune_tail nm (lid subq') h' /\ Rep h' lt' /\
             lnode_at lt' p' = Some subq' /\ (p' = [] \/ length (lslots subq') <> 1) /\
             after_root nm p (erase lt1) = after_root nm p' (erase lt')).
  { rewrite remove_tip_heap_eq. unfold get_node at 1. rewrite Hx. cbn [hbind]. rewrite Hng. cbn [length Nat.eqb negb].
    unfold nth_res at 1. rewrite Hbr. cbn [nth_error hbind]. unfold get_edge. rewrite Hex. cbn [hbind hleft].
    destruct (del_neighbor Q x h) as [h0| |] eqn:E0; cbn [hbind] in Ev; try discriminate. cbn [hbind]. rewrite Ev. cbn [hbind].
    unfold get_node at 1. rewrite Hq1. cbn [hbind].
    destruct (Nat.eqb_spec (length (hneigh hq1)) 1) as [L1|L1].
    - destruct (single_path_loop_path nm (hfuel h1) h1 lt1 Q p _ R1 HQ1 eq_refl) as (q' & h' & lt' & p' & subq' & A1 & A2 & A3 & A4 & A5 & A6).
      { unfold hfuel. pose proof (lids_le_nodes h1 lt1 (rep_nd _ _ R1) (fun y Hy => proj1 (rep_nodes _ _ R1 y) Hy)). lia. }
      rewrite A1. cbn [hbind]. exists h', lt', p', subq'. rewrite A4.
      split; [exact (after_loop_eq nm q' h')|]. split; [exact A2|]. split; [exact A3|]. split; [exact A5|exact A6].
    - cbn [hbind]. rewrite <- (prune_tail_tail nm h1 Q hq1 Hq1 L1).
      exists h1, lt1, p, (LNode Q nm' cm' (l1 ++ l2)). split; [reflexivity|]. split; [exact R1|]. split; [exact HQ1|]. split; [|reflexivity].
      right. cbn [lslots]. lia. }
  destruct Heq as (h' & lt' & p' & subq' & B1 & B2 & B3 & B4 & B5). rewrite B1, B5.
  exact (prune_tail_square nm h' lt' p' subq' B2 B3 B4).
Qed.

(** * against Model/Prune.v [remove_tip]: the tip is the first one with that name *)
Lemma tip_at_lnode : forall P lt sub, lnode_at lt P = Some sub -> tip_at P (erase lt) -> length (lslots sub) = 1.
Proof.
  induction P as [|k P IH]; intros [i n c sl] sub H T.
  - injection H as <-. unfold tip_at in T. cbn [at_path] in T. rewrite erase_eq in T. unfold is_tip, degree in T. cbn [uslots] in T.
    rewrite map_length in T. cbn [lslots]. destruct (Nat.eqb_spec (length sl) 1); [assumption|congruence].
  - cbn [lnode_at lslots] in H. unfold tip_at in T. rewrite erase_eq, at_path_cons, nth_error_map in T.
    destruct (nth_error sl k) as [[[[e ei] ch]|]|]; try discriminate. cbn [option_map erase_slot] in T.
    apply (IH ch sub H). unfold tip_at. destruct (at_path _ P (erase ch)); [discriminate|congruence].
Qed.

Lemma err_strings : err_node_index = err_not_neighbor.
Proof. reflexivity. Qed.

Theorem remove_tip_square nm h t P lt sub : Good h -> abs h = Some t -> dump h = Some lt ->
  find_tip nm t = Some P -> lnode_at lt P = Some sub ->
  match remove_tip nm t with
  | Ok t' => exists h', remove_tip_heap nm (lid sub) h = HOk h' /\ Good h' /\ abs h' = Some t'
  | Err m => remove_tip_heap nm (lid sub) h = HErr m
  end.
Proof.
  intros G Ha Hd Hfind Hp. destruct (Good_abs_Rep h t G Ha) as (lt0 & R & Et).
  rewrite (Rep_dump _ _ R) in Hd. injection Hd as ->. subst t.
  pose proof (remove_tip_find nm (erase lt)) as L. rewrite Hfind in L.
  destruct sub as [x nmx cmx slx]. cbn [lid].
  destruct (node_at_record h lt P x nmx cmx slx R Hp) as (hx & Ex & Lx & Hne & Hnil).
  destruct P as [|k0 P'].
  - (* the root itself is the named tip *)
    rewrite L. destruct (Hnil eq_refl) as [Er Elt]. subst lt.
    assert (Tip : is_tip (erase (LNode x nmx cmx slx)) = true).
    { unfold find_tip in Hfind. destruct (is_tip (erase (LNode x nmx cmx slx))); [reflexivity|]. cbn [andb] in Hfind.
      destruct (find_sub_at nm _ _ Hfind) as [_ N]. congruence. }
    rewrite erase_eq in Tip. unfold is_tip, degree in Tip. cbn [uslots] in Tip. rewrite map_length in Tip. apply Nat.eqb_eq in Tip.
    pose proof (rep_wf _ _ R) as W. apply lwf_iff in W. destruct W as [W0 _].
    destruct slx as [|s [|s' r]]; cbn in Tip; try lia. destruct s as [[[ec eic] [c nmc cmc slc]]|]; [|cbn in W0; discriminate].
    pose proof (root_one_child h x nmx cmx ec eic c nmc cmc slc hx R Ex) as Hng.
    pose proof (rep_shape _ _ R) as Sh. apply shape_unfold in Sh. destruct Sh as [hr' (A1 & A2 & A3 & A4 & A5)].
    rewrite Ex in A1. injection A1 as <-.
    apply Forall2_cons_inv_r in A5. destruct A5 as ([c0 e0] & tl & Esl & Ok0 & A5). inversion A5. subst tl. clear A5.
    cbn [slot_ok fst snd lid] in Ok0. destruct Ok0 as (_ & <- & <- & [ed (E1 & E2 & E3 & E4)] & _).
    assert (Hbr : hbr hx = [ec]).
    { unfold slots_of in Esl. destruct (hneigh hx) as [|a [|a' ng]], (hbr hx) as [|b [|b' bs]]; cbn in A4, Esl; try discriminate; try lia.
      injection Esl as _ ->. reflexivity. }
    assert (Ncx : c <> x).
    { pose proof (rep_nd _ _ R) as Nd. rewrite lids_eq in Nd. apply NoDup_cons_iff in Nd. intros ->. apply (proj1 Nd). cbn [flat_map]. rewrite lids_eq. left. reflexivity. }
    rewrite remove_tip_heap_eq. unfold get_node at 1. rewrite Ex. cbn [hbind]. rewrite Hng. cbn [length Nat.eqb negb].
    unfold nth_res at 1. rewrite Hbr. cbn [nth_error hbind]. unfold get_edge. rewrite E1. cbn [hbind]. rewrite E3.
    unfold del_neighbor, get_node. rewrite Ex. cbn [hbind]. rewrite Hng. cbn [index_of].
    destruct (Nat.eqb_spec c x) as [E|_]; [congruence|]. reflexivity.
  - destruct L as (p & j & t1 & EP & Hat & Hrm). rewrite Hrm.
    assert (Fs : find_sub nm (erase lt) = Some (k0 :: P')).
    { unfold find_tip in Hfind. destruct (is_tip (erase lt) && String.eqb (uname (erase lt)) nm); [discriminate|exact Hfind]. }
    destruct (find_sub_at nm _ _ Fs) as [T _].
    pose proof (tip_at_lnode _ _ _ Hp T) as L1. cbn [lslots] in L1.
    destruct (Hne ltac:(discriminate)) as [_ W]. apply lwf_sub_iff in W. destruct W as [W1 _].
    destruct slx as [|s [|s' r]]; cbn in L1; try lia. destruct s as [[[e ei] ch]|]; [cbn in W1; discriminate|].
    rewrite EP in Hp.
    pose proof (remove_tip_heap_path nm h lt p j x nmx cmx t1 R Hp Hat) as Sq.
    destruct (after_root nm p t1) as [t'|m]; [|exact Sq].
    destruct Sq as (h' & lt' & Ev & R' & Et'). exists h'. split; [exact Ev|]. split; [exact (Rep_Good _ _ R')|].
    rewrite (Rep_abs _ _ R'), Et'. reflexivity.
Qed.
