(** C16: RandomBalancedBinaryTree and StarTree: shape, tips, well-formedness; sizes below the
    minimum; the crash at depth 1 unrooted. *)
From Coq Require Import String ZArith QArith Bool Arith Lia List Permutation.
From GT Require Import Base.UTree Spec.Obs Spec.GenShape Model.Reroot Model.Rand2 Model.TreeGen
     Proofs.RerootBase Proofs.C05Main Proofs.TreeGenNames Proofs.TreeGenGraft Proofs.TreeGenLoop
     Proofs.TreeGenMain.
Import ListNotations.
Local Close Scope Q_scope.
Local Arguments n_up : simpl never.

Notation tn_sl := (mu_sl tn_own tn_h).

(** the two child slots built by one call of randomBalancedBinaryTreeRecur *)
Definition pair_ok (k : nat) (sl : list slot) : Prop :=
  exists e1 c1 e2 c2, sl = [Some (e1, c1); Some (e2, c2)] /\
    wf_sub c1 = true /\ wf_sub c2 = true /\ bin_sub c1 = true /\ bin_sub c2 = true /\
    perfect k c1 = true /\ perfect k c2 = true.

Lemma inner_of_pair k s : pair_ok k s ->
  let c := UNode EmptyString [] (None :: s) in
  wf_sub c = true /\ bin_sub c = true /\ perfect (S k) c = true /\ tnames c = tn_sl s.
Proof.
  intros [e1 [c1 [e2 [c2 [-> [W1 [W2 [B1 [B2 [P1 P2]]]]]]]]]]. cbv zeta.
  repeat split.
  - rewrite wf_sub_def. unfold sub_all. simpl. now rewrite W1, W2.
  - rewrite bin_sub_def. unfold sub_all. simpl. now rewrite B1, B2.
  - simpl. now rewrite P1, P2.
Qed.

Lemma bal_rec_S d ls id :
  bal_rec (S d) ls id =
  let l1 := hd nilv ls in
  let l2 := hd nilv (tl ls) in
  let ls2 := tl (tl ls) in
  match d with
  | O => ([Some (eL l1, tipn id); Some (eL l2, tipn (S id))], ls2, S (S id))
  | S _ =>
    let '(s1, ls3, id1) := bal_rec d ls2 id in
    let '(s2, ls4, id2) := bal_rec d ls3 id1 in
    ([Some (eL l1, UNode EmptyString [] (None :: s1)); Some (eL l2, UNode EmptyString [] (None :: s2))], ls4, id2)
  end.
Proof. reflexivity. Qed.

Lemma pow2_S d : 2 ^ S d = 2 ^ d + 2 ^ d.
Proof. simpl. lia. Qed.

Lemma bal_rec_spec d : forall ls id,
  let '(sl, _, id') := bal_rec (S d) ls id in
  pair_ok d sl /\ tn_sl sl = map tip_name (seq id (2 ^ S d)) /\ id' = id + 2 ^ S d.
Proof.
  induction d as [|d IH]; intros ls id.
  - rewrite bal_rec_S. cbv zeta. split; [|split].
    + exists (eL (hd nilv ls)), (tipn id), (eL (hd nilv (tl ls))), (tipn (S id)). repeat split.
    + reflexivity.
    + simpl. lia.
  - rewrite bal_rec_S. cbv zeta.
    pose proof (IH (tl (tl ls)) id) as IH1.
    destruct (bal_rec (S d) (tl (tl ls)) id) as [[s1 ls3] id1].
    destruct IH1 as [P1 [T1 I1]].
    pose proof (IH ls3 id1) as IH2.
    destruct (bal_rec (S d) ls3 id1) as [[s2 ls4] id2].
    destruct IH2 as [P2 [T2 I2]].
    destruct (inner_of_pair d s1 P1) as [W1 [B1 [F1 N1]]].
    destruct (inner_of_pair d s2 P2) as [W2 [B2 [F2 N2]]].
    repeat split.
    + eexists _, _, _, _. repeat split; auto.
    + rewrite mu_sl_cons_some, mu_sl_cons_some. unfold tnames, tn_own, tn_h in *. cbn [app].
      rewrite N1, N2, T1, T2. unfold mu_sl. cbn [flat_map]. rewrite app_nil_r.
      rewrite (pow2_S (S d)), seq_app, map_app. subst id1. reflexivity.
    + subst. rewrite (pow2_S (S d)). lia.
Qed.

Lemma depth_small d : Nat.ltb d 1 = false -> exists d', d = S d'.
Proof. intros H. apply Nat.ltb_ge in H. destruct d; [lia|eauto]. Qed.

(** ** rooted *)
Theorem balanced_tree_rooted_ok d ls : 1 <= d ->
  exists t, balanced_tree d true ls = GOk t /\ good_tree true (2 ^ d) t /\
            balanced true d t = true /\ leaves t = map tip_name (seq 0 (2 ^ d)).
Proof.
  intros Hd. destruct d as [|d]; [lia|].
  unfold balanced_tree. cbn [Nat.ltb Nat.leb negb]. rewrite andb_false_r.
  pose proof (bal_rec_spec d ls 0) as H.
  destruct (bal_rec (S d) ls 0) as [[sl ls'] id']. cbn [fst].
  destruct H as [[e1 [c1 [e2 [c2 [-> [W1 [W2 [B1 [B2 [P1 P2]]]]]]]]]] [T I]].
  eexists. split; [reflexivity|].
  assert (TN : tnames (UNode EmptyString [] [Some (e1, c1); Some (e2, c2)]) = map tip_name (seq 0 (2 ^ S d))).
  { unfold tnames. rewrite mu_unfold. exact T. }
  assert (G : good_tree true (2 ^ S d) (UNode EmptyString [] [Some (e1, c1); Some (e2, c2)])).
  { apply good_tree_intro.
    - rewrite wf_def. unfold sub_all. simpl. now rewrite W1, W2.
    - unfold binary, sub_all. simpl. now rewrite B1, B2.
    - now rewrite TN. }
  repeat split; try apply G.
  - unfold balanced. simpl. rewrite Nat.sub_0_r. now rewrite P1, P2.
  - destruct G as [_ [_ [_ [_ [_ L]]]]]. now rewrite L, <- tnames_tip_names.
Qed.

(** ** unrooted, depth >= 2 *)
Theorem balanced_tree_unrooted_ok d ls : 2 <= d ->
  exists t, balanced_tree d false ls = GOk t /\ good_tree false (2 ^ d) t /\
            balanced false d t = true /\ leaves t = map tip_name (seq 0 (2 ^ d)).
Proof.
  intros Hd. destruct d as [|[|d]]; try lia.
  unfold balanced_tree. cbn [Nat.ltb Nat.leb negb andb].
  rewrite bal_rec_S. cbv zeta.
  pose proof (bal_rec_spec d (tl (tl ls)) 0) as H1.
  destruct (bal_rec (S d) (tl (tl ls)) 0) as [[s1 ls3] id1].
  destruct H1 as [P1 [T1 I1]].
  pose proof (bal_rec_spec d ls3 id1) as H2.
  destruct (bal_rec (S d) ls3 id1) as [[s2 ls4] id2].
  destruct H2 as [P2 [T2 I2]]. cbn [fst].
  destruct (inner_of_pair d s2 P2) as [W2 [B2 [F2 N2]]].
  destruct P1 as [ea [a [eb [b [-> [Wa [Wb [Ba [Bb [Pa Pb]]]]]]]]]].
  destruct P2 as [ec [c [ed [d' [-> [Wc [Wd [Bc [Bd [Pc Pd]]]]]]]]]].
  cbn [unroot length Nat.eqb drop_up app negb andb orb].
  set (e3 := mkE _ _ _ _).
  set (t := UNode EmptyString [] [Some (ea, a); Some (eb, b); Some (e3, UNode EmptyString [] [Some (ec, c); Some (ed, d'); None])]).
  eexists. split; [reflexivity|].
  assert (TN : tnames t = map tip_name (seq 0 (2 ^ S (S d)))).
  { unfold t. unfold tnames, tn_own, tn_h in *. rewrite mu_unfold. cbn [length Nat.eqb app].
    change [Some (ea, a); Some (eb, b); Some (e3, UNode EmptyString [] [Some (ec, c); Some (ed, d'); None])]
      with ([Some (ea, a); Some (eb, b)] ++ [Some (e3, UNode EmptyString [] [Some (ec, c); Some (ed, d'); None])]).
    rewrite mu_sl_app, T1, mu_sl_cons_some, mu_unfold. cbn [length Nat.eqb app].
    change [Some (ec, c); Some (ed, d'); None] with ([Some (ec, c); Some (ed, d')] ++ [None]).
    rewrite mu_sl_app, T2. unfold mu_sl. cbn [flat_map]. rewrite !app_nil_r. subst id1.
    rewrite (pow2_S (S d)), seq_app, map_app. reflexivity. }
  assert (G : good_tree false (2 ^ S (S d)) t).
  { apply good_tree_intro.
    - unfold t. rewrite wf_def. unfold sub_all. cbn [forallb]. rewrite Wa, Wb.
      rewrite wf_sub_def. unfold sub_all. cbn [forallb]. now rewrite Wc, Wd.
    - unfold t, binary, sub_all. cbn [degree uslots length Nat.eqb forallb andb]. rewrite Ba, Bb.
      rewrite bin_sub_def. unfold sub_all. cbn [length Nat.eqb orb forallb andb]. now rewrite Bc, Bd.
    - now rewrite TN. }
  repeat split; try apply G.
  - unfold balanced, t. cbn [degree uslots length Nat.eqb andb kids kids_of flat_map app map snd seq existsb nth forallb orb].
    replace (S (S d) - 1) with (S d) by lia. replace (S (S d) - 2) with d by lia.
    rewrite Pa, Pb.
    assert (P3 : perfect (S d) (UNode EmptyString [] [Some (ec, c); Some (ed, d'); None]) = true).
    { simpl. now rewrite Pc, Pd. }
    rewrite P3. cbn [andb orb]. now rewrite !orb_true_r.
  - destruct G as [_ [_ [_ [_ [_ L]]]]]. now rewrite L, <- tnames_tip_names.
Qed.

Theorem balanced_tree_small rooted ls : exists msg, balanced_tree 0 rooted ls = GErr msg.
Proof. unfold balanced_tree. simpl. eauto. Qed.

(** depth 1 unrooted (two tips) is rejected *)
Theorem balanced_depth1_unrooted ls : exists msg, balanced_tree 1 false ls = GErr msg.
Proof. eexists. reflexivity. Qed.

(** ** StarTree *)
Lemma star_slots_tn names :
  tn_sl (map (fun nm => Some (eL one, tip_node nm)) names) = names.
Proof.
  induction names as [|x r IH]; [reflexivity|].
  cbn [map]. rewrite mu_sl_cons_some, IH. reflexivity.
Qed.

Theorem star_of_ok names : 2 <= length names ->
  exists t, star_of names = GOk t /\ wf t = true /\ star t = true /\ degree t = length names /\
            leaves t = names /\ lens_nonneg t = true.
Proof.
  intros H. unfold star_of. destruct (Nat.ltb_spec (length names) 2); [lia|].
  eexists. split; [reflexivity|].
  set (sl := map (fun nm => Some (eL one, tip_node nm)) names).
  assert (A : forall p : slot -> bool, (forall nm, p (Some (eL one, tip_node nm)) = true) -> forallb p sl = true).
  { intros p Hp. apply forallb_forall. intros s Hs. apply in_map_iff in Hs as [nm [<- _]]. apply Hp. }
  assert (U : n_up sl = 0).
  { unfold sl. clear. induction names as [|x r IH]; [reflexivity|]. cbn [map]. now rewrite n_up_cons, IH. }
  assert (W : wf (UNode EmptyString [] sl) = true).
  { rewrite wf_def, U. simpl. apply A. reflexivity. }
  repeat split; auto.
  - apply A. reflexivity.
  - unfold degree, sl. simpl. apply map_length.
  - rewrite leaves_tip_names; auto.
    + rewrite <- tnames_tip_names. unfold tnames. rewrite mu_unfold.
      unfold sl at 1. rewrite map_length.
      destruct (Nat.eqb_spec (length names) 1); [lia|]. apply star_slots_tn.
    + unfold degree, sl. simpl. now rewrite map_length.
  - simpl. apply A. reflexivity.
Qed.

Theorem star_tree_ok n : 2 <= n ->
  exists t, star_tree n = GOk t /\ wf t = true /\ star t = true /\ degree t = n /\
            leaves t = map tip_name (seq 0 n) /\ NoDup (leaves t) /\ lens_nonneg t = true.
Proof.
  intros H. unfold star_tree.
  destruct (star_of_ok (map tip_name (seq 0 n))) as [t [E [W [S [D [L N]]]]]].
  - now rewrite map_length, seq_length.
  - exists t. rewrite map_length, seq_length in D. repeat split; auto.
    rewrite L. apply tip_names_NoDup.
Qed.

Theorem star_tree_small n : n < 2 -> exists msg, star_tree n = GErr msg.
Proof.
  intros H. unfold star_tree, star_of. rewrite map_length, seq_length.
  destruct (Nat.ltb_spec n 2); [eauto|lia].
Qed.
