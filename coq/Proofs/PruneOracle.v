(** C06: the oracle of Judge/C06.v accepts the model's output.  The five boolean clauses about
    the pruned tree (well-formed, tip set, no single-child node, splits = non-trivial
    restrictions of the original splits, path lengths = sub-matrix) are theorems about
    [remove_tips]. *)
From Coq Require Import String ZArith QArith Bool Arith Lia List Permutation Sorted Setoid Morphisms.
From GT Require Import Base.UTree Spec.Obs Spec.Induced Model.Reroot Spec.Unrooted Proofs.RerootBase Proofs.PruneBase
     Model.Prune Proofs.PruneStep Proofs.PruneSub Proofs.PruneRoot Proofs.Prune Proofs.CollapseBase
     Proofs.PruneSplits Proofs.OracleDist Proofs.OracleSets.
From GT Require Proofs.MapOrder.
Import ListNotations.
Local Close Scope Q_scope.
Local Arguments leaves : simpl never.
Local Arguments pairdists : simpl never.

Lemma clades_branches t L : In L (clades t) <-> exists p, In p (branches t) /\ L = leaves (snd p).
Proof.
  unfold clades. rewrite in_map_iff. split; intros [p [H1 H2]]; exists p; auto.
Qed.

(** canonical side of a restricted clade *)
Section Restrict.
  Variable k : string -> bool.
  Variable t : utree.
  Let A := tipset t.
  Let R := Obs.ssort (filter k (leaves t)).
  Hypothesis Hnd : NoDup (leaves t).

  Lemma R_canon : canon R.
  Proof. apply ssort_canon. now apply NoDup_filter. Qed.
  Lemma A_canon : canon A.
  Proof. apply sset_canon. Qed.
  Lemma R_In x : In x R <-> In x (leaves t) /\ k x = true.
  Proof.
    unfold R. rewrite <- filter_In. split; apply Permutation_in; [symmetry|]; apply ssort_perm.
  Qed.

  Lemma restrict_clade c :
    (forall x, In x (leaves c) -> In x (leaves t)) ->
    restrict_side R (canon_side A (sset (leaves c))) = canon_side R (sset (filter k (leaves c))).
  Proof.
    intros Hsub. unfold restrict_side.
    set (S := sset (leaves c)). set (X := sset (filter k (leaves c))).
    assert (HS : canon S) by apply sset_canon.
    assert (HX : canon X) by apply sset_canon.
    assert (XI : forall x, In x X <-> In x (leaves c) /\ k x = true).
    { intros x. unfold X. now rewrite sset_In, filter_In. }
    assert (XR : forall x, In x X -> In x R).
    { intros x Hx. apply XI in Hx. apply R_In. split; [apply Hsub|]; tauto. }
    unfold canon_side at 2. fold A. destruct A as [|m r] eqn:EA.
    - (* no tips at all *)
      f_equal. apply canon_ext; auto.
      + unfold sinter. now apply filter_canon.
      + intros x. rewrite sinter_In, XI. unfold S. rewrite sset_In, R_In. intuition.
    - destruct (smem m S) eqn:Em.
      + (* the canonical side of the clade is its complement *)
        symmetry. apply canon_side_complement; auto.
        * apply R_canon.
        * unfold sinter, sdiff. apply filter_canon, filter_canon. rewrite <- EA. apply A_canon.
        * intros x. rewrite sinter_In, sdiff_In, R_In, XI. unfold S. rewrite sset_In.
          rewrite <- EA. unfold A, tipset. rewrite sset_In. intuition.
      + f_equal. apply canon_ext; auto.
        * unfold sinter. now apply filter_canon.
        * intros x. rewrite sinter_In, XI. unfold S. rewrite sset_In, R_In. intuition.
  Qed.
End Restrict.

Lemma nontrivial_nonempty n key : nontrivial_key n key = true -> key <> [].
Proof. unfold nontrivial_key. intros H E. subst. simpl in H. discriminate. Qed.

Section Oracle.
  Variable revert : bool.
  Variable names : list string.
  Notation k := (kept revert names).

  Theorem remove_tips_oracle t t' :
    wf t = true -> no_single t = true -> 2 <= degree t -> NoDup (leaves t) ->
    remove_tips revert names t = Ok t' ->
    let R := Obs.ssort (filter k (leaves t)) in
    wf t' = true /\ induced_tips t' R = true /\ no_single t' = true /\
    induced_splits t t' R = true /\ induced_dists t t' R = true.
  Proof.
    intros Hwf Hns Hdeg Hnd Hr R.
    destruct (remove_tips_ok revert names t t' Hwf Hns Hdeg Hnd Hr) as [Hwf' [Hns' [Hlv Hpd]]].
    destruct (remove_tips_clades revert names t t' Hwf Hns Hdeg Hnd Hr) as [HS HC].
    assert (Hnd' : NoDup (leaves t')).
    { eapply Permutation_NoDup; [symmetry; exact Hlv|]. now apply NoDup_filter. }
    assert (ER : Obs.ssort (leaves t') = R) by (apply ssort_eq_perm; exact Hlv).
    assert (ET : tipset t' = R) by (unfold tipset; rewrite sset_ssort; auto).
    split; auto. split.
    { unfold induced_tips, sset_eqb. rewrite ER. apply list_eqb_refl_string. }
    split; auto. split.
    2:{ now apply induced_dists_of_restriction. }
    (* splits *)
    unfold induced_splits. apply keys_eq_iff. intros key.
    unfold nontrivial_keys, restrict. rewrite !dedup_keys_In, !filter_In, ET.
    assert (RI : forall x, In x R <-> In x (leaves t) /\ k x = true) by (apply R_In).
    assert (RC : canon R) by (apply R_canon; auto).
    assert (RCl : forall c, (forall x, In x (leaves c) -> In x (leaves t)) ->
                            restrict_side R (canon_side (tipset t) (sset (leaves c))) =
                            canon_side R (sset (filter k (leaves c)))).
    { intros c Hc. exact (restrict_clade k t Hnd c Hc). }
    split.
    - intros [Hk Hnt]. split; auto.
      apply usplits_keys in Hk. destruct Hk as [[e' c'] [Hp' ->]]. simpl snd in *. rewrite ET.
      destruct (HS (leaves c')) as [L [HL P]].
      { apply clades_branches. exists (e', c'). auto. }
      apply clades_branches in HL. destruct HL as [[e c] [Hp ->]]. simpl snd in *.
      apply in_map_iff. exists (canon_side (tipset t) (sset (leaves c))). split.
      + rewrite RCl.
        * now rewrite (sset_perm _ _ P).
        * intros x Hx. destruct (clt_sub t (leaves c)) as [_ Hi]; auto.
          right. apply clades_branches. exists (e, c). auto.
      + apply usplits_keys. exists (e, c). auto.
    - intros [Hk Hnt]. split; auto.
      apply in_map_iff in Hk. destruct Hk as [Kt [<- HKt]].
      apply usplits_keys in HKt. destruct HKt as [[e c] [Hp ->]]. simpl snd in *.
      assert (Hsub : forall x, In x (leaves c) -> In x (leaves t)).
      { intros x Hx. destruct (clt_sub t (leaves c)) as [_ Hi]; auto.
        right. apply clades_branches. exists (e, c). auto. }
      rewrite (RCl c Hsub) in *.
      set (F := filter k (leaves c)) in *.
      assert (HF : F <> []).
      { intros E. rewrite E in Hnt. simpl in Hnt. apply nontrivial_nonempty in Hnt. apply Hnt.
        unfold canon_side. destruct R as [|m r]; auto. }
      assert (HcF : cover t' F).
      { apply HC; auto. apply clades_branches. exists (e, c). auto. }
      apply usplits_keys. rewrite ET.
      destruct HcF as [P|[L' [HL' [P|P]]]].
      + (* the whole leaf set: a trivial split *)
        exfalso. assert (EX : sset F = R).
        { rewrite (sset_perm _ _ P). exact ET. }
        rewrite EX in Hnt. unfold canon_side in Hnt. destruct R as [|m r] eqn:ERm.
        * simpl in Hnt. discriminate.
        * assert (Em : smem m (m :: r) = true) by (apply smem_In; now left).
          rewrite Em in Hnt. unfold nontrivial_key in Hnt.
          assert (E0 : sdiff (m :: r) (m :: r) = []).
          { destruct (sdiff (m :: r) (m :: r)) as [|y l] eqn:E; auto.
            assert (Hy : In y (sdiff (m :: r) (m :: r))) by (rewrite E; now left).
            apply sdiff_In in Hy. tauto. }
          rewrite E0 in Hnt. simpl in Hnt. discriminate.
      + apply clades_branches in HL'. destruct HL' as [p' [Hp' ->]].
        exists p'. split; auto. now rewrite (sset_perm _ _ P).
      + apply clades_branches in HL'. destruct HL' as [p' [Hp' ->]].
        exists p'. split; auto.
        assert (NDa : NoDup (leaves (snd p') ++ F)).
        { eapply Permutation_NoDup; [symmetry; exact P|auto]. }
        apply canon_side_complement; auto; try apply sset_canon.
        * intros x Hx. rewrite sset_In in Hx. apply RI. unfold F in Hx. apply filter_In in Hx.
          split; [apply Hsub|]; tauto.
        * intros x. rewrite !sset_In. split.
          -- intros Hx. split.
             ++ rewrite <- ET. unfold tipset. apply sset_In. apply (Permutation_in _ P). apply in_or_app. auto.
             ++ intros HxF. eapply NoDup_app_disj; eauto.
          -- intros [HxR HxF]. rewrite <- ET in HxR. unfold tipset in HxR. rewrite sset_In in HxR.
             symmetry in P. apply (Permutation_in _ P) in HxR. apply in_app_or in HxR. tauto.
  Qed.
End Oracle.
