(** Heap model: the refinement square of Tree.RotateInternalNodes against Model/Reroot.v
    [rotate_all]. *)
From Coq Require Import String ZArith QArith Bool Arith Lia Permutation List.
From GT Require Import Base.UTree Model.Reroot Model.Heap Model.HeapEdit Proofs.Enum Proofs.Reorder Proofs.HeapBase Proofs.HeapRep
     Proofs.HeapGood Proofs.HeapGoodRep Proofs.HeapRerootL Proofs.HeapReorder Proofs.HeapReroot Proofs.HeapUnrootL Proofs.HeapUnroot
     Proofs.HeapCtx Proofs.HeapGraft Proofs.HeapPermute.
Import ListNotations.
Local Close Scope Q_scope.

(** * positional permutations are natural *)
Lemma swap_nth_map {A B} (f : A -> B) i j l : swap_nth i j (map f l) = map f (swap_nth i j l).
Proof.
  unfold swap_nth. rewrite !nth_error_map.
  destruct (nth_error l i) as [a|]; [|reflexivity]. destruct (nth_error l j) as [b|]; [|reflexivity].
  cbn [option_map]. rewrite !map_set_nth. reflexivity.
Qed.

Lemma rotate_slots_map {A B} (f : A -> B) k : forall i cs l,
  rotate_slots i k cs (map f l) = (map f (fst (rotate_slots i k cs l)), snd (rotate_slots i k cs l)).
Proof.
  induction k as [|k IH]; intros i cs l; [reflexivity|]. destruct cs as [|j cs]; [reflexivity|].
  cbn [rotate_slots]. rewrite swap_nth_map. apply IH.
Qed.

Lemma Forall2_combine {A B} (P : A -> B -> Prop) l m :
  Forall2 P l m <-> length l = length m /\ Forall (fun p => P (fst p) (snd p)) (combine l m).
Proof.
  split.
  - induction 1 as [|a b l m Hab _ [IH1 IH2]]; [split; [reflexivity|constructor]|].
    split; [cbn; congruence|constructor; assumption].
  - revert m. induction l as [|a l IH]; intros [|b m] [Hl Hf]; cbn in Hl; try lia; [constructor|].
    cbn [combine] in Hf. apply Forall_cons_iff in Hf. destruct Hf as [H1 H2]. constructor; [exact H1|apply IH; split; [lia|exact H2]].
Qed.

Lemma Forall2_rotate_slots {A B} (P : A -> B -> Prop) k i cs l m : Forall2 P l m ->
  Forall2 P (fst (rotate_slots i k cs l)) (fst (rotate_slots i k cs m)).
Proof.
  intros F. apply Forall2_combine in F. destruct F as [Hl Hf]. apply Forall2_combine.
  destruct (rotate_slots_combine k i cs l m Hl) as [E1 E2]. split; [exact E2|]. rewrite E1.
  apply Forall_forall. intros p Hp. rewrite Forall_forall in Hf. apply Hf.
  eapply Permutation_in; [symmetry; apply rotate_slots_perm|exact Hp].
Qed.

Lemma rotate_slots_length {A} k : forall i cs (l : list A), length (fst (rotate_slots i k cs l)) = length l.
Proof. intros i cs l. symmetry. apply Permutation_length. apply rotate_slots_perm. Qed.

(** * the rotation on labelled trees *)
Definition lrot_go (f : ltree -> list nat -> ltree * list nat) : list lslot -> list nat -> list lslot * list nat :=
  fix go (l : list lslot) (cs : list nat) : list lslot * list nat :=
    match l with
    | [] => ([], cs)
    | None :: r => let '(r', cs') := go r cs in (None :: r', cs')
    | Some (e, ei, ch) :: r =>
      let '(ch', cs1) := f ch cs in
      let '(r', cs2) := go r cs1 in
      (Some (e, ei, ch') :: r', cs2)
    end.

Fixpoint lrotate_all (lt : ltree) (cs : list nat) {struct lt} : ltree * list nat :=
  match lt with
  | LNode i n c sl =>
    let k := length sl in
    let '(sl', rest') := lrot_go (fun ch cs => lrotate_all ch cs) sl (skipn k cs) in
    (LNode i n c (fst (rotate_slots 0 k (firstn k cs) sl')), rest')
  end.

Lemma lrotate_all_eq i n c sl cs :
  lrotate_all (LNode i n c sl) cs =
  let k := length sl in
  let '(sl', rest') := lrot_go lrotate_all sl (skipn k cs) in
  (LNode i n c (fst (rotate_slots 0 k (firstn k cs) sl')), rest').
Proof. reflexivity. Qed.

Lemma lrot_go_cons_some f e ei ch r cs :
  lrot_go f (Some (e, ei, ch) :: r) cs =
  let '(ch', cs1) := f ch cs in let '(r', cs2) := lrot_go f r cs1 in (Some (e, ei, ch') :: r', cs2).
Proof. reflexivity. Qed.
Lemma lrot_go_cons_none f r cs :
  lrot_go f (None :: r) cs = let '(r', cs') := lrot_go f r cs in (None :: r', cs').
Proof. reflexivity. Qed.

Lemma lrot_go_length f : forall l cs, length (fst (lrot_go f l cs)) = length l.
Proof.
  induction l as [|s l IH]; intros cs; [reflexivity|]. destruct s as [[[e ei] ch]|].
  - rewrite lrot_go_cons_some. destruct (f ch cs) as [ch' cs1]. specialize (IH cs1). destruct (lrot_go f l cs1). cbn in *. congruence.
  - rewrite lrot_go_cons_none. specialize (IH cs). destruct (lrot_go f l cs). cbn in *. congruence.
Qed.

Lemma lid_lrotate_all lt cs : lid (fst (lrotate_all lt cs)) = lid lt.
Proof. destruct lt as [i n c sl]. rewrite lrotate_all_eq. cbv zeta. destruct (lrot_go lrotate_all sl (skipn (length sl) cs)). reflexivity. Qed.

(** erase commutes *)
Theorem erase_lrotate_all : forall lt cs,
  erase (fst (lrotate_all lt cs)) = fst (rotate_all (erase lt) cs) /\ snd (lrotate_all lt cs) = snd (rotate_all (erase lt) cs).
Proof.
  induction lt as [i n c sl IH] using ltree_ind'. intros cs.
  rewrite erase_eq, rotate_all_eq, lrotate_all_eq. cbv zeta. rewrite map_length.
  assert (G : forall cs0, map erase_slot (fst (lrot_go lrotate_all sl cs0)) = fst (rot_go (map erase_slot sl) cs0) /\
                          snd (lrot_go lrotate_all sl cs0) = snd (rot_go (map erase_slot sl) cs0)).
  { clear cs. induction sl as [|s sl IHsl]; intros cs0; [split; reflexivity|].
    apply Forall_cons_iff in IH. destruct IH as [Hs IH]. specialize (IHsl IH).
    destruct s as [[[e ei] ch]|]; cbn [map erase_slot].
    - rewrite lrot_go_cons_some. cbn [rot_go]. fold rot_go. destruct (Hs cs0) as [E1 E2].
      destruct (lrotate_all ch cs0) as [ch' cs1]. destruct (rotate_all (erase ch) cs0) as [uch' ucs1]. cbn [fst snd] in E1, E2. subst ucs1 uch'.
      destruct (IHsl cs1) as [F1 F2]. destruct (lrot_go lrotate_all sl cs1) as [r' cs2]. destruct (rot_go (map erase_slot sl) cs1) as [ur' ucs2].
      cbn [fst snd] in *. subst. split; reflexivity.
    - rewrite lrot_go_cons_none. cbn [rot_go]. fold rot_go.
      destruct (IHsl cs0) as [F1 F2]. destruct (lrot_go lrotate_all sl cs0) as [r' cs2]. destruct (rot_go (map erase_slot sl) cs0) as [ur' ucs2].
      cbn [fst snd] in *. subst. split; reflexivity. }
  destruct (G (skipn (length sl) cs)) as [G1 G2].
  destruct (lrot_go lrotate_all sl (skipn (length sl) cs)) as [sl' rest']. destruct (rot_go (map erase_slot sl) (skipn (length sl) cs)) as [usl' urest'].
  cbn [fst snd] in *. subst. rewrite erase_eq, rotate_slots_map. split; reflexivity.
Qed.

(** the node and branch sets are kept *)
Theorem lrotate_all_perm : forall lt cs,
  Permutation (lids (fst (lrotate_all lt cs))) (lids lt) /\ Permutation (leids (fst (lrotate_all lt cs))) (leids lt).
Proof.
  induction lt as [i n c sl IH] using ltree_ind'. intros cs. rewrite lrotate_all_eq. cbv zeta.
  assert (G : forall cs0, Permutation (sids (fst (lrot_go lrotate_all sl cs0))) (sids sl) /\
                          Permutation (seids (fst (lrot_go lrotate_all sl cs0))) (seids sl)).
  { clear cs. induction sl as [|s sl IHsl]; intros cs0; [split; constructor|].
    apply Forall_cons_iff in IH. destruct IH as [Hs IH]. specialize (IHsl IH).
    destruct s as [[[e ei] ch]|].
    - rewrite lrot_go_cons_some. destruct (Hs cs0) as [E1 E2]. destruct (lrotate_all ch cs0) as [ch' cs1]. cbn [fst] in E1, E2.
      destruct (IHsl cs1) as [F1 F2]. destruct (lrot_go lrotate_all sl cs1) as [r' cs2]. cbn [fst] in *.
      cbn [sids seids flat_map]. split; [apply Permutation_app; assumption|apply perm_skip; apply Permutation_app; assumption].
    - rewrite lrot_go_cons_none. destruct (IHsl cs0) as [F1 F2]. destruct (lrot_go lrotate_all sl cs0) as [r' cs2]. cbn [fst] in *.
      cbn [sids seids flat_map app]. split; assumption. }
  destruct (G (skipn (length sl) cs)) as [G1 G2]. destruct (lrot_go lrotate_all sl (skipn (length sl) cs)) as [sl' rest']. cbn [fst] in *.
  rewrite !lids_eq, !leids_eq. split.
  - apply perm_skip. etransitivity; [|exact G1]. apply Permutation_flat_map. symmetry. apply rotate_slots_perm.
  - etransitivity; [|exact G2]. apply Permutation_flat_map. symmetry. apply rotate_slots_perm.
Qed.

(** * the loop of RotateInternalNodes, with the choices that are left *)
Fixpoint rotn (ns : list nat) (cs : list nat) (h : heap) : hres (heap * list nat) :=
  match ns with
  | [] => HOk (h, cs)
  | n :: r =>
    do hn <- get_node h n;
    let k := length (hneigh hn) in
    do h1 <- rotate_neighbors_heap n (firstn k cs) h;
    rotn r (skipn k cs) h1
  end.

Lemma rotn_fst : forall ns cs h, rotate_nodes_heap ns cs h = do p <- rotn ns cs h; HOk (fst p).
Proof.
  induction ns as [|n r IH]; intros cs h; [reflexivity|]. cbn [rotate_nodes_heap rotn].
  destruct (get_node h n) as [hn| |]; cbn [hbind]; try reflexivity.
  destruct (rotate_neighbors_heap n (firstn (length (hneigh hn)) cs) h) as [h1| |]; cbn [hbind]; try reflexivity. apply IH.
Qed.

Lemma rotn_app : forall a b cs h, rotn (a ++ b) cs h = do p <- rotn a cs h; rotn b (snd p) (fst p).
Proof.
  induction a as [|n a IH]; intros b cs h; [reflexivity|]. cbn [app rotn].
  destruct (get_node h n) as [hn| |]; cbn [hbind]; try reflexivity.
  destruct (rotate_neighbors_heap n (firstn (length (hneigh hn)) cs) h) as [h1| |]; cbn [hbind]; try reflexivity. apply IH.
Qed.

Definition same_but_nodes (h h' : heap) : Prop :=
  hedges h' = hedges h /\ hroot h' = hroot h /\ hnextn h' = hnextn h /\ hnexte h' = hnexte h.

Lemma slots_frame o h h' prev i : forall sl l,
  hedges h' = hedges h -> (forall y, In y (sids sl) -> alookup y (hnodes h') = alookup y (hnodes h)) ->
  Forall2 (slot_ok o h prev i) l sl -> Forall2 (slot_ok o h' prev i) l sl.
Proof.
  intros sl l He Hn F. induction F as [|ce s l sl Hs F IH]; [constructor|]. constructor.
  - destruct s as [[[e ei] ch]|]; cbn [slot_ok] in *; [|exact Hs]. destruct Hs as (B1 & B2 & B3 & B4 & B5).
    repeat split; try assumption.
    + eapply edge_ok_eq; [|exact B4]. rewrite He. reflexivity.
    + eapply shape_frame; [| |exact B5].
      * intros y Hy. apply Hn. cbn [sids flat_map]. apply in_or_app. left. exact Hy.
      * intros y _. rewrite He. reflexivity.
  - apply IH. intros y Hy. apply Hn. cbn [sids flat_map]. apply in_or_app. right. exact Hy.
Qed.

Definition rot_spec (lt : ltree) : Prop := forall cs prev h,
  shape true h prev lt -> NoDup (lids lt) ->
  exists h', rotn (lids lt) cs h = HOk (h', snd (lrotate_all lt cs)) /\ same_but_nodes h h' /\
    (forall y, ~ In y (lids lt) -> alookup y (hnodes h') = alookup y (hnodes h)) /\
    (forall y, alookup y (hnodes h') <> None <-> alookup y (hnodes h) <> None) /\
    shape true h' prev (fst (lrotate_all lt cs)).

Lemma rot_go_ok i prev : forall slr l h cs,
  Forall2 (slot_ok true h prev i) l slr ->
  (forall e ei ch, In (Some (e, ei, ch)) slr -> rot_spec ch) ->
  NoDup (sids slr) ->
  exists h', rotn (sids slr) cs h = HOk (h', snd (lrot_go lrotate_all slr cs)) /\ same_but_nodes h h' /\
     (forall y, ~ In y (sids slr) -> alookup y (hnodes h') = alookup y (hnodes h)) /\
     (forall y, alookup y (hnodes h') <> None <-> alookup y (hnodes h) <> None) /\
     Forall2 (slot_ok true h' prev i) l (fst (lrot_go lrotate_all slr cs)).
Proof.
  induction slr as [|s slr IH]; intros l h cs F Hk Nd.
  - inversion F. subst. exists h. cbn [sids flat_map rotn lrot_go fst snd]. split; [reflexivity|]. split; [repeat split|]. split; [reflexivity|]. split; [reflexivity|constructor].
  - apply Forall2_cons_inv_r in F. destruct F as (ce & l' & -> & Hs & F).
    destruct s as [[[e ei] ch]|].
    + cbn [slot_ok] in Hs. destruct Hs as (B1 & B2 & B3 & B4 & B5).
      cbn [sids flat_map] in Nd |- *. fold (sids slr) in Nd |- *. apply NoDup_app_iff in Nd. destruct Nd as (N1 & N2 & N3).
      destruct (Hk e ei ch (or_introl eq_refl) cs (Some (i, snd ce)) h B5 N1) as (h1 & E1 & (S1 & S2 & S3 & S4) & Fr1 & Dm1 & Sh1).
      rewrite rotn_app, E1. cbn [hbind fst snd]. rewrite lrot_go_cons_some.
      destruct (lrotate_all ch cs) as [ch' cs1] eqn:Ech. cbn [fst snd] in *.
      assert (F1 : Forall2 (slot_ok true h1 prev i) l' slr).
      { eapply slots_frame; [exact S1| |exact F]. intros y Hy. apply Fr1. intros Hy'. exact (N3 y Hy' Hy). }
      destruct (IH l' h1 cs1 F1 (fun e0 ei0 ch0 H0 => Hk e0 ei0 ch0 (or_intror H0)) N2) as (h2 & E2 & (T1 & T2 & T3 & T4) & Fr2 & Dm2 & F2).
      rewrite E2. destruct (lrot_go lrotate_all slr cs1) as [r' cs2]. cbn [fst snd] in *.
      exists h2. split; [reflexivity|]. split; [repeat split; congruence|]. split; [|split].
      * intros y Hy. rewrite Fr2, Fr1; [reflexivity| |]; intros Hy'; apply Hy; apply in_or_app; [left|right]; exact Hy'.
      * intros y. rewrite Dm2. apply Dm1.
      * constructor; [|exact F2]. cbn [slot_ok].
        pose proof (lid_lrotate_all ch cs) as El. rewrite Ech in El. cbn [fst] in El.
        repeat split; try assumption; [congruence| |].
        -- eapply edge_ok_eq; [|eapply edge_ok_eq; [|exact B4]]; [rewrite T1|rewrite S1]; reflexivity.
        -- eapply shape_frame; [| |exact Sh1].
           ++ intros y Hy. apply Fr2. intros Hy'. apply (N3 y); [|exact Hy'].
              destruct (lrotate_all_perm ch cs) as [P _]. rewrite Ech in P. cbn [fst] in P. eapply Permutation_in; [exact P|exact Hy].
           ++ intros y _. rewrite T1. reflexivity.
    + cbn [slot_ok] in Hs. cbn [sids flat_map app] in Nd |- *. fold (sids slr) in Nd |- *.
      destruct (IH l' h cs F (fun e0 ei0 ch0 H0 => Hk e0 ei0 ch0 (or_intror H0)) Nd) as (h2 & E2 & T & Fr2 & Dm2 & F2).
      rewrite lrot_go_cons_none. rewrite E2. destruct (lrot_go lrotate_all slr cs) as [r' cs2]. cbn [fst snd] in *.
      exists h2. split; [reflexivity|]. split; [exact T|]. split; [exact Fr2|]. split; [exact Dm2|].
      constructor; [exact Hs|exact F2].
Qed.

Theorem rot_spec_all : forall lt, rot_spec lt.
Proof.
  induction lt as [i n c sl IH] using ltree_ind'. intros cs prev h Sh Nd.
  apply shape_unfold in Sh. destruct Sh as [hn (A1 & A2 & A3 & A4 & A5)].
  pose proof (Forall2_length' _ _ _ A5) as L5. rewrite combine_length, <- A4, Nat.min_id in L5.
  rewrite lids_eq in Nd |- *. fold (sids sl) in Nd |- *. apply NoDup_cons_iff in Nd. destruct Nd as [Ni Nd].
  cbn [rotn]. unfold get_node. rewrite A1. cbn [hbind]. rewrite L5.
  unfold rotate_neighbors_heap, get_node. rewrite A1. cbn [hbind].
  destruct (Nat.ltb_spec (length (hbr hn)) (length (hneigh hn))) as [Hlt|_]; [lia|]. cbn [hbind]. rewrite L5.
  set (k := length sl) in *.
  set (hn' := mkHN (hname hn) (hcom hn) (fst (rotate_slots 0 k (firstn k cs) (hneigh hn))) (fst (rotate_slots 0 k (firstn k cs) (hbr hn)))).
  set (h0 := set_node h i hn').
  assert (Hi0 : forall y, y <> i -> alookup y (hnodes h0) = alookup y (hnodes h)).
  { intros y Hy. unfold h0. cbn [set_node hnodes]. apply alookup_aupd_ne. exact Hy. }
  assert (F0 : Forall2 (slot_ok true h0 prev i) (combine (hneigh hn) (hbr hn)) sl).
  { apply (slots_frame true h h0 prev i sl _ eq_refl); [|exact A5]. intros y Hy. apply Hi0. intros ->. exact (Ni Hy). }
  rewrite Forall_forall in IH.
  destruct (rot_go_ok i prev sl _ h0 (skipn k cs) F0) as (h' & E & (S1 & S2 & S3 & S4) & Fr & Dm & F').
  { intros e ei ch Hs. exact (IH _ Hs). }
  { exact Nd. }
  rewrite E. rewrite lrotate_all_eq. cbv zeta. fold k.
  destruct (lrot_go lrotate_all sl (skipn k cs)) as [sl' rest'] eqn:Ego. cbn [fst snd] in *.
  exists h'. split; [reflexivity|]. split; [repeat split; assumption|]. split; [|split].
  - intros y Hy. rewrite Fr by (intros Hy'; apply Hy; right; exact Hy'). apply Hi0. intros ->. apply Hy. left. reflexivity.
  - intros y. rewrite Dm. unfold h0. cbn [set_node hnodes]. rewrite alookup_aupd.
    destruct (Nat.eqb_spec y i) as [->|_]; [|reflexivity]. rewrite A1. split; discriminate.
  - apply shape_unfold. exists hn'. split; [|split; [exact A2|split; [exact A3|split]]].
    + rewrite (Fr i Ni). unfold h0. cbn [set_node hnodes]. rewrite alookup_aupd, Nat.eqb_refl. reflexivity.
    + unfold hn'. cbn [hneigh hbr]. rewrite !rotate_slots_length. exact A4.
    + unfold hn'. cbn [hneigh hbr]. rewrite (proj1 (rotate_slots_combine k 0 (firstn k cs) (hneigh hn) (hbr hn) A4)).
      apply Forall2_rotate_slots. exact F'.
Qed.

(** * the square *)
Theorem rotate_internal_nodes_Rep h lt cs : Rep h lt ->
  exists h', rotate_internal_nodes_heap cs h = HOk h' /\ Rep h' (fst (lrotate_all lt cs)).
Proof.
  intros R. unfold rotate_internal_nodes_heap. rewrite (Rep_tree_nodes _ _ R). cbn [hbind]. rewrite rotn_fst.
  destruct (rot_spec_all lt cs None h (rep_shape _ _ R) (rep_nd _ _ R)) as (h' & E & (S1 & S2 & S3 & S4) & Fr & Dm & Sh).
  rewrite E. cbn [hbind fst]. exists h'. split; [reflexivity|].
  destruct (lrotate_all_perm lt cs) as [P1 P2]. destruct (erase_lrotate_all lt cs) as [Ee _].
  constructor.
  - rewrite S2, lid_lrotate_all. exact (rep_root _ _ R).
  - exact Sh.
  - unfold lwf. rewrite Ee. eapply tperm_wf; [apply rotate_all_tperm|exact (rep_wf _ _ R)].
  - eapply Permutation_NoDup; [symmetry; exact P1|exact (rep_nd _ _ R)].
  - eapply Permutation_NoDup; [symmetry; exact P2|exact (rep_ned _ _ R)].
  - intros y. rewrite Dm, <- (rep_nodes _ _ R y). split; intros Hy; (eapply Permutation_in; [|exact Hy]); [exact P1|symmetry; exact P1].
  - intros y. rewrite S1, <- (rep_edges _ _ R y). split; intros Hy; (eapply Permutation_in; [|exact Hy]); [exact P2|symmetry; exact P2].
  - intros y Hy. rewrite S3. apply (rep_fn _ _ R). eapply Permutation_in; [exact P1|exact Hy].
  - intros y Hy. rewrite S4. apply (rep_fe _ _ R). eapply Permutation_in; [exact P2|exact Hy].
Qed.

Theorem rotate_internal_nodes_square h t cs : Good h -> abs h = Some t ->
  exists h', rotate_internal_nodes_heap cs h = HOk h' /\ Good h' /\ abs h' = Some (fst (rotate_all t cs)).
Proof.
  intros G Ha. destruct (Good_abs_Rep h t G Ha) as (lt & R & <-).
  destruct (rotate_internal_nodes_Rep h lt cs R) as (h' & E & R').
  exists h'. split; [exact E|]. split; [exact (Rep_Good _ _ R')|]. rewrite (Rep_abs _ _ R'). f_equal.
  exact (proj1 (erase_lrotate_all lt cs)).
Qed.
