(** C17: for a binary tree with distinct tip names the number of inner branches counted on
    the structure ([inner_branch_count]: [internal_edges], the two root branches of a rooted
    tree counted once) is the number of non-trivial bipartitions of Spec/Obs.v
    ([inner_split_count], through [usplits]). *)
From Coq Require Import String ZArith QArith Bool Arith Lia List Permutation.
From GT Require Import Base.UTree Spec.Obs Spec.Unrooted Spec.NNISpec Model.Reroot
     Proofs.RerootBase Proofs.Splits Proofs.USplits Proofs.NNISem Proofs.NNISets Proofs.NNIKeys
     Proofs.NNIDistinct Proofs.NNITrees.
Import ListNotations.
Local Close Scope Q_scope.
Local Arguments n_up : simpl never.
Local Arguments leaves : simpl never.
Local Arguments bsplits : simpl never.
Local Arguments kleaves : simpl never.
Local Arguments kbs : simpl never.

(** * all ordered pairs of a list *)
Inductive Pw {A} (R : A -> A -> Prop) : list A -> Prop :=
| Pw_nil : Pw R []
| Pw_cons x l : Forall (R x) l -> Pw R l -> Pw R (x :: l).

Lemma Pw_app {A} (R : A -> A -> Prop) l1 l2 :
  Pw R l1 -> Pw R l2 -> (forall x y, In x l1 -> In y l2 -> R x y) -> Pw R (l1 ++ l2).
Proof.
  induction 1 as [|x l F P IH]; intros P2 C; cbn; auto.
  constructor.
  - apply Forall_app. split; auto. apply Forall_forall. intros y Hy. apply C; auto. now left.
  - apply IH; auto. intros a b Ha Hb. apply C; auto. now right.
Qed.

Lemma Pw_map_nodup {A B} (f : A -> B) l : Pw (fun x y => f x <> f y) l -> NoDup (map f l).
Proof.
  induction 1 as [|x l F P IH]; cbn; constructor; auto.
  intros H. apply in_map_iff in H. destruct H as (y & E & Hy).
  rewrite Forall_forall in F. exact (F y Hy (eq_sym E)).
Qed.

Lemma Pw_impl {A} (R R' : A -> A -> Prop) l :
  (forall x y, In x l -> In y l -> R x y -> R' x y) -> Pw R l -> Pw R' l.
Proof.
  intros H P. induction P as [|x l F P IH]; constructor.
  - rewrite Forall_forall in *. intros y Hy. apply H; auto; [now left | now right].
  - apply IH. intros a b Ha Hb. apply H; now right.
Qed.

Lemma Pw_sub {A} (R : A -> A -> Prop) x l1 l2 : Pw R (l1 ++ x :: l2) -> Pw R (l1 ++ l2).
Proof.
  induction l1 as [|a l1 IH]; cbn; intros P; inversion P as [|? ? F P']; subst; auto.
  constructor; auto. rewrite Forall_forall in *. intros y Hy. apply F.
  rewrite in_app_iff in *. cbn. tauto.
Qed.

(** * nodes of a binary tree *)
Definition good (c : utree) : Prop := wf_sub c = true /\ binary_sub c = true.
Definition goodk (p : einfo * utree) : Prop := good (snd p).

Lemma good_kids n c sl : good (UNode n c sl) -> Forall goodk (kids_of sl).
Proof.
  intros [W B]. cbn [wf_sub binary_sub] in *. apply andb_true_iff in W, B. destruct W as [_ W], B as [_ B].
  rewrite forallb_forall in W, B. apply Forall_forall. intros [e ch] H. apply kids_of_In in H.
  split; cbn [snd]; [exact (W _ H) | exact (B _ H)].
Qed.

(** a tip, or exactly two children *)
Lemma good_shape n c sl :
  good (UNode n c sl) -> kids_of sl = [] \/ exists p1 p2, kids_of sl = [p1; p2].
Proof.
  intros [W B]. cbn [wf_sub binary_sub] in *. apply andb_true_iff in W, B. destruct W as [U _], B as [D _].
  apply Nat.eqb_eq in U. pose proof (length_slots sl) as LS. apply orb_true_iff in D.
  destruct D as [D|D]; apply Nat.eqb_eq in D.
  - left. destruct (kids_of sl); auto. cbn in LS. lia.
  - right. destruct (kids_of sl) as [|p1 [|p2 [|p3 K]]]; cbn in LS; try lia. eauto.
Qed.

(** * the entries of [bsplits] below binary nodes *)
Definition nseq (x y : central) : Prop := ~ (forall a, In a (clade x) <-> In a (clade y)).
Definition entry_ok (x : central) : Prop :=
  NoDup (clade x) /\ (if snd x then length (clade x) = 1 else 2 <= length (clade x)).
Definition hd (p : einfo * utree) : central := (fst p, leaves (snd p), isleaf (snd p)).
Definition proper (c : utree) (x : central) : Prop :=
  incl (clade x) (leaves c) /\ exists a, In a (leaves c) /\ ~ In a (clade x).

(** what is known of a subtree *)
Definition sub_ok (c : utree) : Prop :=
  Pw nseq (bsplits c) /\ Forall entry_ok (bsplits c) /\ Forall (proper c) (bsplits c) /\
  (if isleaf c then length (leaves c) = 1 else 2 <= length (leaves c)).

Lemma entry_nonempty x : entry_ok x -> exists a, In a (clade x).
Proof.
  intros [_ H]. destruct (clade x) as [|a l]; [destruct (snd x); cbn in H; lia|]. exists a. now left.
Qed.

Lemma disjoint_nseq x y (A B : list string) :
  entry_ok x -> incl (clade x) A -> incl (clade y) B -> (forall a, In a A -> In a B -> False) -> nseq x y.
Proof.
  intros Hx IA IB D E. destruct (entry_nonempty x Hx) as [a Ha].
  apply (D a); [apply IA, Ha | apply IB, E, Ha].
Qed.

(** the block of a child: its own branch, then the branches below it *)
Definition blk (p : einfo * utree) : list central := hd p :: bsplits (snd p).

Lemma kbs_cons_blk p K : kbs (p :: K) = blk p ++ kbs K.
Proof. rewrite kbs_cons. reflexivity. Qed.

Record blk_ok (p : einfo * utree) : Prop := {
  bo_pw : Pw nseq (blk p);
  bo_entry : Forall entry_ok (blk p);
  bo_incl : forall x, In x (blk p) -> incl (clade x) (leaves (snd p));
  bo_proper : forall x, In x (bsplits (snd p)) -> proper (snd p) x }.

Lemma blk_ok_of p : NoDup (leaves (snd p)) -> sub_ok (snd p) -> blk_ok p.
Proof.
  intros ND (P & E & PR & LN). rewrite Forall_forall in PR.
  assert (EH : entry_ok (hd p)).
  { unfold entry_ok, hd, clade. cbn [fst snd]. split; auto. }
  split.
  - unfold blk. constructor; auto. apply Forall_forall. intros y Hy Q.
    destruct (PR y Hy) as [_ (a & Ha & Na)]. apply Na, Q. exact Ha.
  - unfold blk. constructor; auto.
  - intros x [<-|Hx]; [apply incl_refl | exact (proj1 (PR x Hx))].
  - exact PR.
Qed.

(** the blocks of children with disjoint tips *)
Lemma kbs_ok K :
  Forall blk_ok K -> NoDup (kleaves K) ->
  Pw nseq (kbs K) /\ Forall entry_ok (kbs K) /\
  (forall x, In x (kbs K) -> exists p, In p K /\ In x (blk p)).
Proof.
  induction 1 as [|p K Hp F IH]; intros ND.
  - rewrite kbs_nil. repeat split; [constructor|constructor|intros x []].
  - rewrite kleaves_cons in ND. destruct (IH (NoDup_app_r _ _ ND)) as (P & E & O).
    rewrite kbs_cons_blk. repeat split.
    + apply Pw_app; [apply Hp | exact P |].
      intros x y Hx Hy. destruct (O y Hy) as (q & Hq & Hyq).
      assert (Fq : blk_ok q) by (rewrite Forall_forall in F; auto).
      pose proof (bo_entry p Hp) as Ep. rewrite Forall_forall in Ep.
      eapply (disjoint_nseq x y (leaves (snd p)) (kleaves K)); auto.
      * apply Hp; auto.
      * intros a Ha. unfold kleaves. apply in_flat_map. exists q. split; auto. eapply bo_incl; eauto.
      * intros a H1 H2. eapply NoDup_app_disjoint; eauto.
    + apply Forall_app. split; [apply Hp | exact E].
    + intros x Hx. apply in_app_or in Hx. destruct Hx as [Hx|Hx].
      * exists p. split; auto. now left.
      * destruct (O x Hx) as (q & Hq & Hxq). exists q. split; auto. now right.
Qed.

Lemma kleaves_kid_nodup K p : In p K -> NoDup (kleaves K) -> NoDup (leaves (snd p)).
Proof.
  induction K as [|q K IH]; [intros []|]; intros [->|H] ND; rewrite kleaves_cons in ND.
  - eapply NoDup_app_l; eauto.
  - apply IH; auto. eapply NoDup_app_r; eauto.
Qed.

Lemma kleaves_kid_incl K p : In p K -> incl (leaves (snd p)) (kleaves K).
Proof. intros H a Ha. unfold kleaves. apply in_flat_map. eauto. Qed.

Theorem good_sub_ok c : good c -> NoDup (leaves c) -> sub_ok c.
Proof.
  induction c as [n cm sl IH] using utree_ind'. intros G ND.
  pose proof (good_kids _ _ _ G) as GK.
  assert (IHK : Forall (fun p => NoDup (leaves (snd p)) -> sub_ok (snd p)) (kids_of sl)).
  { rewrite Forall_forall in *. intros [e ch] Hp Hn. apply kids_of_In in Hp. apply (IH _ Hp); auto.
    apply (GK (e, ch)). now apply kids_of_In. }
  unfold sub_ok. rewrite bsplits_unfold. unfold isleaf, kids. cbn [uslots].
  rewrite leaves_unfold in *.
  destruct (good_shape _ _ _ G) as [E|(p1 & p2 & E)]; rewrite E in *.
  - rewrite kbs_nil. repeat split; constructor.
  - assert (BK : Forall blk_ok [p1; p2]).
    { apply Forall_forall. intros p Hp. apply blk_ok_of.
      - eapply kleaves_kid_nodup; eauto.
      - rewrite Forall_forall in IHK. apply IHK; auto. eapply kleaves_kid_nodup; eauto. }
    destruct (kbs_ok _ BK ND) as (P & EO & O). repeat split; auto.
    + (* proper: the other child has a tip *)
      apply Forall_forall. intros x Hx. destruct (O x Hx) as (p & Hp & Hxp).
      assert (Bp : blk_ok p) by (rewrite Forall_forall in BK; auto).
      unfold proper. rewrite leaves_unfold, E.
      split; [intros a Ha; eapply kleaves_kid_incl; eauto; eapply bo_incl; eauto|].
      rewrite !kleaves_cons, kleaves_nil, app_nil_r in *.
      destruct Hp as [<-|[<-|[]]].
      * destruct (pick_leaf (snd p2)) as [a Ha]. exists a. split; [apply in_or_app; now right|].
        intros Hc. eapply NoDup_app_disjoint; [exact ND| |exact Ha]. eapply bo_incl; eauto.
      * destruct (pick_leaf (snd p1)) as [a Ha]. exists a. split; [apply in_or_app; now left|].
        intros Hc. eapply NoDup_app_disjoint; [exact ND|exact Ha|]. eapply bo_incl; eauto.
    + rewrite !kleaves_cons, kleaves_nil, app_nil_r, app_length.
      destruct (pick_leaf (snd p1)) as [a Ha], (pick_leaf (snd p2)) as [b Hb].
      destruct (leaves (snd p1)); [destruct Ha|]. destruct (leaves (snd p2)); [destruct Hb|]. cbn. lia.
Qed.

(** * [internal_edges] are the entries of [bsplits] whose far end is not a leaf *)
Definition nonleaf (x : central) : bool := negb (snd x).

Lemma wf_sub_tip_leaf c : wf_sub c = true -> is_tip c = isleaf c.
Proof.
  destruct c as [n cm sl]. cbn [wf_sub]. intros W. apply andb_true_iff in W. destruct W as [U _].
  apply Nat.eqb_eq in U. unfold is_tip, isleaf, kids, degree. cbn [uslots].
  pose proof (length_slots sl) as LS. rewrite U in LS. destruct (kids_of sl) as [|p K]; cbn in LS.
  - rewrite LS. reflexivity.
  - rewrite LS. reflexivity.
Qed.

Lemma internal_bsplits t :
  forallb (fun s : slot => match s with Some (_, c) => wf_sub c | None => true end) (uslots t) = true ->
  length (internal_edges t) = length (filter nonleaf (bsplits t)).
Proof.
  induction t as [n c sl IH] using utree_ind'. cbn [uslots]. intros W.
  unfold bsplits. cbn [internal_edges]. fold bsplits.
  induction sl as [|[[e ch]|] r IHr]; cbn [flat_map]; auto.
  - inversion IH as [|? ? IHc IHrest]; subst. cbn [forallb] in W. apply andb_true_iff in W. destruct W as [Wc Wr].
    rewrite filter_app, !app_length, (IHr IHrest Wr). f_equal.
    cbn [filter]. unfold nonleaf at 1. cbn [snd]. fold (isleaf ch). rewrite (wf_sub_tip_leaf ch Wc).
    destruct (isleaf ch) eqn:IL; cbn [negb length].
    + unfold isleaf in IL. destruct ch as [cn cc csl]. unfold kids in IL. cbn [uslots] in IL.
      rewrite bsplits_unfold. destruct (kids_of csl); [reflexivity|discriminate].
    + f_equal. assert (D : Nat.ltb 1 (degree ch) = true).
      { apply Nat.ltb_lt. destruct ch as [cn cc csl]. cbn [wf_sub] in Wc. apply andb_true_iff in Wc.
        destruct Wc as [U _]. apply Nat.eqb_eq in U. unfold degree, isleaf, kids in *. cbn [uslots] in *.
        rewrite length_slots, U. destruct (kids_of csl); [discriminate|cbn; lia]. }
      rewrite D. apply IHc. destruct ch as [cn cc csl]. cbn [wf_sub uslots] in *. apply andb_true_iff in Wc. tauto.
  - inversion IH; subst. cbn [forallb] in W. now apply IHr.
Qed.

(** * the root *)
Lemma root_setup t :
  wf t = true -> binary t = true ->
  Forall goodk (kids t) /\ length (kids t) = degree t /\ bsplits t = kbs (kids t) /\
  (degree t = 2 \/ degree t = 3) /\
  forallb (fun s : slot => match s with Some (_, c) => wf_sub c | None => true end) (uslots t) = true.
Proof.
  destruct t as [n c sl]. unfold binary, kids, degree. cbn [wf uslots]. intros W B.
  apply andb_true_iff in W, B. destruct W as [U W], B as [D B]. apply Nat.eqb_eq in U.
  repeat split; auto.
  - rewrite forallb_forall in W, B. apply Forall_forall. intros [e ch] H. apply kids_of_In in H.
    split; cbn [snd]; [exact (W _ H) | exact (B _ H)].
  - rewrite length_slots, U. reflexivity.
  - apply bsplits_unfold.
  - apply orb_true_iff in D. destruct D as [D|D]; apply Nat.eqb_eq in D; auto.
Qed.

Lemma kids_blk_ok K : Forall goodk K -> NoDup (kleaves K) -> Forall blk_ok K.
Proof.
  intros G ND. apply Forall_forall. intros p Hp. rewrite Forall_forall in G.
  pose proof (kleaves_kid_nodup K p Hp ND). apply blk_ok_of; auto. apply good_sub_ok; auto. apply G; auto.
Qed.

Definition compl (L X Y : list string) : Prop := forall a, In a L -> (In a X <-> ~ In a Y).

Lemma agree_cases L X Y :
  incl X L -> incl Y L -> agree L X Y -> (forall a, In a X <-> In a Y) \/ compl L X Y.
Proof.
  intros HX HY [H|H]; [left|right; exact H].
  intros a. split; intros Ha; [apply (H a (HX a Ha)), Ha | apply (H a (HY a Ha)), Ha].
Qed.

Lemma not_compl L X Y a : In a L -> ~ In a X -> ~ In a Y -> ~ compl L X Y.
Proof. intros HL NX NY C. apply NX. apply (C a HL). exact NY. Qed.

Lemma leaves_kids_eq t : kids t <> [] -> leaves t = kleaves (kids t).
Proof.
  destruct t as [n c sl]. rewrite leaves_unfold. unfold kids. cbn [uslots].
  destruct (kids_of sl); congruence.
Qed.

Section Root.
  Variable t : utree.
  Hypothesis W : wf t = true.
  Hypothesis B : binary t = true.
  Hypothesis ND : NoDup (leaves t).

  Let L := leaves t.
  Let K := kids t.
  Definition keyE (x : central) : key := keyof L (clade x).

  Lemma keys_of_tree : map sside (branch_splits (tipset t) t) = map keyE (bsplits t).
  Proof.
    rewrite branch_splits_bsplits, map_map. apply map_ext. intros x. reflexivity.
  Qed.

  Lemma K_nonempty : K <> [].
  Proof.
    destruct (root_setup t W B) as (_ & LK & _ & D & _). fold K in LK. intros E. rewrite E in LK. cbn in LK.
    destruct D; lia.
  Qed.

  Lemma L_kleaves : L = kleaves K.
  Proof.
    apply leaves_kids_eq, K_nonempty.
  Qed.

  Lemma E_kbs : bsplits t = kbs K.
  Proof. apply (root_setup t W B). Qed.

  Lemma K_blk : Forall blk_ok K.
  Proof. apply kids_blk_ok; [apply (root_setup t W B) | rewrite <- L_kleaves; exact ND]. Qed.

  Lemma K_ok :
    Pw nseq (kbs K) /\ Forall entry_ok (kbs K) /\
    (forall x, In x (kbs K) -> exists p, In p K /\ In x (blk p)).
  Proof. apply kbs_ok; [apply K_blk | rewrite <- L_kleaves; exact ND]. Qed.

  Lemma owner_incl p x : In p K -> In x (blk p) -> incl (clade x) L.
  Proof.
    intros Hp Hx a Ha. rewrite L_kleaves. eapply kleaves_kid_incl; eauto.
    pose proof K_blk as KB. rewrite Forall_forall in KB. eapply bo_incl; eauto.
  Qed.

  Lemma entry_incl x : In x (kbs K) -> incl (clade x) L.
  Proof. intros Hx. destruct (proj2 (proj2 K_ok) x Hx) as (p & Hp & Hxp). eapply owner_incl; eauto. Qed.

  (** the size test of a key *)
  Lemma pkey_entry x :
    In x (kbs K) ->
    pkey (length (tipset t)) (keyE x) = Nat.leb 2 (length (clade x)) && Nat.leb 2 (length L - length (clade x)).
  Proof.
    intros Hx. unfold keyE, tipset. apply (pkey_keyof L ND).
    - destruct K_ok as (_ & EO & _). rewrite Forall_forall in EO. apply (EO x Hx).
    - now apply entry_incl.
  Qed.

  Lemma entry_size x : In x (kbs K) -> Nat.leb 2 (length (clade x)) = nonleaf x.
  Proof.
    intros Hx. destruct K_ok as (_ & EO & _). rewrite Forall_forall in EO. destruct (EO x Hx) as [_ H].
    unfold nonleaf. destruct (snd x); cbn [negb].
    - rewrite H. reflexivity.
    - now apply Nat.leb_le.
  Qed.

  (** two entries with the same key: complementary sides *)
  Lemma same_key_compl x y :
    In x (kbs K) -> In y (kbs K) -> nseq x y -> keyE x = keyE y -> compl L (clade x) (clade y).
  Proof.
    intros Hx Hy NS E. apply (keyof_agree L) in E; auto using entry_incl.
    destruct (agree_cases _ _ _ (entry_incl x Hx) (entry_incl y Hy) E) as [S|C]; auto. contradiction.
  Qed.
End Root.

Lemma filter_ext_length {A} (f g : A -> bool) l :
  (forall x, In x l -> f x = g x) -> length (filter f l) = length (filter g l).
Proof. intros H. now rewrite (filter_ext_in _ _ _ H). Qed.

(** * unrooted: three root children *)
Section Three.
  Variables p1 p2 p3 : einfo * utree.
  Let A := leaves (snd p1).
  Let B := leaves (snd p2).
  Let C := leaves (snd p3).
  Hypothesis ND : NoDup (A ++ B ++ C).

  Lemma k3 : kleaves [p1; p2; p3] = A ++ B ++ C.
  Proof. now rewrite !kleaves_cons, kleaves_nil, app_nil_r. Qed.

  Lemma d12 a : In a A -> In a B -> False.
  Proof. intros H1 H2. eapply NoDup_app_disjoint; [exact ND|exact H1|]. apply in_or_app; now left. Qed.
  Lemma d13 a : In a A -> In a C -> False.
  Proof. intros H1 H2. eapply NoDup_app_disjoint; [exact ND|exact H1|]. apply in_or_app; now right. Qed.
  Lemma d23 a : In a B -> In a C -> False.
  Proof. intros H1 H2. eapply NoDup_app_disjoint; [exact (NoDup_app_r _ _ ND)|exact H1|exact H2]. Qed.

  Lemma third_leaf p q :
    In p [p1; p2; p3] -> In q [p1; p2; p3] ->
    exists a, In a (A ++ B ++ C) /\ ~ In a (leaves (snd p)) /\ ~ In a (leaves (snd q)).
  Proof.
    destruct (pick_leaf (snd p1)) as [a1 H1], (pick_leaf (snd p2)) as [a2 H2], (pick_leaf (snd p3)) as [a3 H3].
    fold A in H1. fold B in H2. fold C in H3.
    pose proof d12; pose proof d13; pose proof d23.
    intros [<-|[<-|[<-|[]]]] [<-|[<-|[<-|[]]]]; fold A B C;
      first [ solve [exists a1; rewrite !in_app_iff; repeat split; eauto]
            | solve [exists a2; rewrite !in_app_iff; repeat split; eauto]
            | solve [exists a3; rewrite !in_app_iff; repeat split; eauto] ].
  Qed.

  Lemma leaves_pos c : 1 <= length (leaves c).
  Proof. destruct (pick_leaf c) as [a Ha]. destruct (leaves c); [destruct Ha|cbn; lia]. Qed.

  Lemma three_size p : In p [p1; p2; p3] -> length (leaves (snd p)) + 2 <= length (A ++ B ++ C).
  Proof.
    pose proof (leaves_pos (snd p1)). pose proof (leaves_pos (snd p2)). pose proof (leaves_pos (snd p3)).
    unfold A, B, C. rewrite !app_length.
    intros [<-|[<-|[<-|[]]]]; lia.
  Qed.
End Three.

Theorem inner_counts_unrooted t :
  wf t = true -> binary t = true -> NoDup (leaves t) -> degree t = 3 ->
  inner_split_count t = inner_branch_count t.
Proof.
  intros W B ND D.
  destruct (root_setup t W B) as (_ & LK & _ & _ & WK).
  destruct (K_ok t W B ND) as (P & EO & O).
  pose proof (L_kleaves t W B) as LE. pose proof (E_kbs t W B) as EE.
  rewrite D in LK. destruct (kids t) as [|p1 [|p2 [|p3 [|p4 K']]]] eqn:EK; cbn in LK; try lia.
  assert (ND3 : NoDup (leaves (snd p1) ++ leaves (snd p2) ++ leaves (snd p3))) by (rewrite <- k3, <- LE; exact ND).
  unfold inner_branch_count, rooted. rewrite D. cbn [Nat.eqb]. rewrite Nat.sub_0_r.
  rewrite inner_split_count_keys, (keys_of_tree t), (internal_bsplits t WK), EE.
  (* all keys are different *)
  assert (NK : NoDup (map (keyE t) (kbs [p1; p2; p3]))).
  { apply Pw_map_nodup. eapply Pw_impl; [|exact P]. intros x y Hx Hy NS E.
    rewrite <- EK in Hx, Hy. pose proof (same_key_compl t W B ND x y Hx Hy NS E) as CP. rewrite EK in Hx, Hy.
    destruct (O x Hx) as (p & Hp & Hxp), (O y Hy) as (q & Hq & Hyq).
    destruct (third_leaf p1 p2 p3 ND3 p q Hp Hq) as (a & Ha & Nx & Ny).
    pose proof (K_blk t W B ND) as KB. rewrite EK, Forall_forall in KB.
    revert CP. apply (not_compl _ _ _ a).
    - rewrite LE, k3. exact Ha.
    - intros X. apply Nx. eapply bo_incl; eauto.
    - intros X. apply Ny. eapply bo_incl; eauto. }
  rewrite (dd_nodup _ [] NK). cbn [app].
  rewrite <- (filter_map_length (keyE t) (pkey (length (tipset t)))).
  apply filter_ext_length. intros x Hx. rewrite <- EK in Hx.
  rewrite (pkey_entry t W B ND x Hx), (entry_size t W B ND x Hx).
  rewrite EK in Hx. destruct (O x Hx) as (p & Hp & Hxp).
  pose proof (K_blk t W B ND) as KB. rewrite EK, Forall_forall in KB.
  assert (LX : length (clade x) <= length (leaves (snd p))).
  { apply NoDup_incl_length; [|eapply bo_incl; eauto]. rewrite Forall_forall in EO. apply (EO x Hx). }
  pose proof (three_size p1 p2 p3 p Hp) as TS. rewrite <- k3, <- LE in TS.
  assert (G : Nat.leb 2 (length (leaves t) - length (clade x)) = true) by (apply Nat.leb_le; lia).
  rewrite G. apply andb_true_r.
Qed.

(** * rooted: two root children, their two branches are one bipartition *)
Theorem inner_counts_rooted t :
  wf t = true -> binary t = true -> NoDup (leaves t) -> degree t = 2 ->
  inner_split_count t = inner_branch_count t.
Proof.
  intros W B ND D.
  destruct (root_setup t W B) as (_ & LK & _ & _ & WK).
  destruct (K_ok t W B ND) as (P & EO & O).
  pose proof (L_kleaves t W B) as LE. pose proof (E_kbs t W B) as EE.
  pose proof (K_blk t W B ND) as KB.
  rewrite D in LK. destruct (kids t) as [|p1 [|p2 [|p3 K']]] eqn:EK; cbn in LK; try lia.
  set (L1 := leaves (snd p1)) in *. set (L2 := leaves (snd p2)) in *.
  assert (LE2 : leaves t = L1 ++ L2) by (rewrite LE, !kleaves_cons, kleaves_nil, app_nil_r; reflexivity).
  assert (ND2 : NoDup (L1 ++ L2)) by (rewrite <- LE2; exact ND).
  assert (d12 : forall a, In a L1 -> In a L2 -> False) by (intros a; eapply NoDup_app_disjoint; eauto).
  assert (Ek : kbs [p1; p2] = (hd p1 :: bsplits (snd p1)) ++ hd p2 :: bsplits (snd p2)).
  { rewrite !kbs_cons_blk, kbs_nil, app_nil_r. reflexivity. }
  set (B1 := bsplits (snd p1)) in *. set (B2 := bsplits (snd p2)) in *.
  inversion KB as [|? ? Bp1 KB']; subst. inversion KB' as [|? ? Bp2 _]; subst.
  unfold inner_branch_count, rooted. rewrite D. cbn [Nat.eqb].
  rewrite inner_split_count_keys, (keys_of_tree t), (internal_bsplits t WK), EE, Ek.
  (* membership in the whole list *)
  assert (inE : forall x, In x (hd p1 :: B1 ++ B2) -> In x (kbs (kids t))).
  { intros x Hx. rewrite EK, Ek. apply in_or_app. destruct Hx as [<-|Hx]; [left; now left|].
    apply in_app_or in Hx. destruct Hx as [Hx|Hx]; [left; now right | right; now right]. }
  (* where an entry lives *)
  assert (side : forall x, In x (hd p1 :: B1 ++ B2) ->
                           incl (clade x) L1 \/ (incl (clade x) L2 /\ exists a, In a L2 /\ ~ In a (clade x))).
  { intros x Hx. destruct Hx as [Hx|Hx]; [|apply in_app_or in Hx; destruct Hx as [Hx|Hx]].
    - left. apply (bo_incl p1 Bp1). now left.
    - left. apply (bo_incl p1 Bp1). now right.
    - right. exact (bo_proper p2 Bp2 x Hx). }
  (* the two root branches have the same key *)
  assert (KE : keyE t (hd p1) = keyE t (hd p2)).
  { unfold keyE, keyof, hd, clade. cbn [fst snd]. apply canon_side_complement; auto.
    rewrite LE2. reflexivity. }
  (* every other key occurs once *)
  assert (NK : NoDup (map (keyE t) (hd p1 :: B1 ++ B2))).
  { apply Pw_map_nodup. eapply Pw_impl; [|apply (Pw_sub nseq (hd p2) (hd p1 :: B1) B2); rewrite <- Ek; exact P].
    intros x y Hx Hy NS E.
    pose proof (same_key_compl t W B ND x y (inE x Hx) (inE y Hy) NS E) as CP.
    destruct (pick_leaf (snd p1)) as [a1 H1], (pick_leaf (snd p2)) as [a2 H2]. fold L1 in H1. fold L2 in H2.
    revert CP. destruct (side x Hx) as [IX|(IX & ax & Hax & Nax)], (side y Hy) as [IY|(IY & ay & Hay & Nay)].
    - apply (not_compl _ _ _ a2); [rewrite LE2; apply in_or_app; now right | |];
        intros X; apply (d12 a2); auto.
    - apply (not_compl _ _ _ ay); [rewrite LE2; apply in_or_app; now right | | exact Nay].
      intros X; apply (d12 ay); auto.
    - apply (not_compl _ _ _ ax); [rewrite LE2; apply in_or_app; now right | exact Nax |].
      intros X; apply (d12 ax); auto.
    - apply (not_compl _ _ _ a1); [rewrite LE2; apply in_or_app; now left | |];
        intros X; apply (d12 a1); auto. }
  cbn [map app] in *. rewrite !map_app in *. cbn [map].
  rewrite <- KE. pose proof (dd_one_repeat _ _ _ NK) as DR. unfold key, central in *. rewrite DR. clear DR.
  (* the sizes *)
  assert (sizeB : forall p (Bok : blk_ok p), In p [p1; p2] ->
                  forall x, In x (bsplits (snd p)) -> In x (kbs (kids t)) ->
                            pkey (length (tipset t)) (keyE t x) = nonleaf x).
  { intros p Bok Hp x Hx HxE.
    rewrite (pkey_entry t W B ND x HxE), (entry_size t W B ND x HxE).
    destruct (bo_proper p Bok x Hx) as [IX (a & Ha & Na)].
    assert (NX : NoDup (clade x)) by (rewrite Forall_forall in EO; rewrite EK in HxE; apply (EO x HxE)).
    assert (LX : S (length (clade x)) <= length (leaves (snd p))).
    { apply (NoDup_incl_length (l := a :: clade x)); [constructor; auto|].
      intros b [<-|Hb]; auto. }
    pose proof (leaves_pos (snd p1)). pose proof (leaves_pos (snd p2)).
    assert (G : Nat.leb 2 (length (leaves t) - length (clade x)) = true).
    { apply Nat.leb_le. rewrite LE2, app_length. unfold L1, L2. destruct Hp as [<-|[<-|[]]]; lia. }
    rewrite G. apply andb_true_r. }
  assert (S1 : length (filter (pkey (length (tipset t))) (map (keyE t) B1)) = length (filter nonleaf B1)).
  { rewrite <- filter_map_length. apply filter_ext_length. intros x Hx.
    apply (sizeB p1 Bp1); [now left|exact Hx|]. apply inE. right. apply in_or_app. now left. }
  assert (S2 : length (filter (pkey (length (tipset t))) (map (keyE t) B2)) = length (filter nonleaf B2)).
  { rewrite <- filter_map_length. apply filter_ext_length. intros x Hx.
    apply (sizeB p2 Bp2); [right; now left|exact Hx|]. apply inE. right. apply in_or_app. now right. }
  assert (H1E : In (hd p1) (kbs (kids t))) by (apply inE; now left).
  assert (H2E : In (hd p2) (kbs (kids t))).
  { rewrite EK, Ek. right. apply in_or_app. right. now left. }
  assert (S0 : pkey (length (tipset t)) (keyE t (hd p1)) = nonleaf (hd p1) && nonleaf (hd p2)).
  { rewrite (pkey_entry t W B ND _ H1E), (entry_size t W B ND _ H1E).
    rewrite <- (entry_size t W B ND _ H2E). unfold hd at 2 3, clade. cbn [fst snd]. fold L1 L2.
    rewrite LE2, app_length. replace (length L1 + length L2 - length L1) with (length L2) by lia. reflexivity. }
  cbn [filter]. rewrite S0, !filter_app. cbn [filter].
  assert (leafB : forall p, nonleaf (hd p) = false -> filter nonleaf (bsplits (snd p)) = []).
  { intros p H. unfold nonleaf, hd in H. cbn [snd] in H. apply negb_false_iff in H.
    unfold isleaf, kids in H. destruct (snd p) as [cn cc csl]. cbn [uslots] in H.
    rewrite bsplits_unfold. destruct (kids_of csl); [reflexivity|discriminate]. }
  destruct (nonleaf (hd p1)) eqn:N1, (nonleaf (hd p2)) eqn:N2; cbn [andb]; cbv iota;
    repeat (rewrite ?app_length; cbn [length]); unfold key, central in *; rewrite S1, S2;
    try (unfold B1; rewrite (leafB p1 N1)); try (unfold B2; rewrite (leafB p2 N2)); cbn [length]; lia.
Qed.

(** ** both cases *)
Theorem inner_counts t :
  wf t = true -> binary t = true -> NoDup (leaves t) ->
  inner_branch_count t = inner_split_count t.
Proof.
  intros W B ND. destruct (root_setup t W B) as (_ & _ & _ & [D|D] & _); symmetry.
  - now apply inner_counts_rooted.
  - now apply inner_counts_unrooted.
Qed.
