(** C08/C09, bridge: the instances of the models over the real hash index (Model/EdgeIndex.v over
    Model/HashMap.v) return what the association-list instances return, for good trees on one
    taxon set.  Uses the refinement lemmas of C04 (Proofs/HashMap.v, Proofs/EdgeIndex.v):
    [ei_value_ref], [ei_put_ref], [ei_add_ref], [inv_new].
    The statements are conditional on the hash-index model returning at all ([Some _]): its [None]
    stands for a Go run-time panic (index outside the bucket array), which C04 excludes under a
    no-overflow condition on the load policy ([edgeindex_total]); the sizes are supposed below
    2^64 (Go's uint64 capacity). *)
From Coq Require Import String NArith ZArith QArith Bool Arith Lia List Permutation.
From GT Require Import Base.UTree Spec.Obs Model.Reroot Model.Index Model.HashMap Model.EdgeIndex
     Model.Compare Model.Consensus
     Proofs.IndexBase Proofs.IndexTree Proofs.IndexSplit Proofs.HashMap Proofs.EdgeIndex
     Proofs.CompareBase Proofs.CompareTree Proofs.CompareMain Proofs.ConsensusCount Proofs.ConsensusMain.
Import ListNotations.
Local Close Scope Q_scope.
Local Arguments leaves : simpl never.

Lemma Forall2_Forall_l {A B} (R : A -> B -> Prop) (P : A -> Prop) l l' :
  (forall a b, R a b -> P a) -> Forall2 R l l' -> Forall P l.
Proof. intros H. induction 1; constructor; eauto. Qed.

(** the keys of a good tree on the taxa [L] are keys in the sense of C04 *)
Lemma keys_ok L tag t : good t -> Permutation L (leaves t) -> Forall (ok_key L) (branch_keys tag t).
Proof.
  intros G P. eapply Forall2_Forall_l; [|apply (branch_keys_splits tag t G)].
  intros k s (ec & B & _ & _). exists t, ec. auto.
Qed.

Section Bridge.
  Variable L : list string.
  Notation EInv := (Inv ekey einfo_v ekey_hash ekey_eqb (ok_key L)).

  (** PutEdgeValue for every branch *)
  Lemma put_all_bridge ks : Forall (ok_key L) ks ->
    forall m a i m', EInv m a ->
      put_all eindex (ei_put need75) m i ks = Some m' ->
      exists a', put_all aindex ai_put a i ks = Some a' /\ EInv m' a'.
  Proof.
    induction 1 as [|k ks Hk Hks IH]; intros m a i m' I H; simpl in *.
    - inversion H; subst. eauto.
    - destruct (ei_put need75 m k i (ek_len k)) as [m1|] eqn:P; [|discriminate].
      unfold ai_put at 1. apply (IH m1 _ (i + 1)%Z m'); auto.
      apply (ei_put_ref L need75 m a k (i, ek_len k) m1 Hk I P).
  Qed.

  Lemma build_index_bridge ks m' :
    Forall (ok_key L) ks -> (N.of_nat (length ks * 2) < W64)%N ->
    build_index eindex new_edge_index (ei_put need75) ks = Some m' ->
    exists a', build_index aindex ai_new ai_put ks = Some a' /\ EInv m' a'.
  Proof.
    intros F B H. unfold build_index in *.
    apply (put_all_bridge ks F (new_edge_index (N.of_nat (length ks * 2))) [] 0%Z m'); auto.
    apply inv_new. exact B.
  Qed.

  (** Value *)
  Lemma value_bridge m a k : ok_key L k -> EInv m a -> ei_value m k = ai_value a k.
  Proof. intros Hk I. rewrite (ei_value_ref L m a k Hk I). reflexivity. Qed.

  Lemma cmp_fold_bridge tips ident m a ks : Forall (ok_key L) ks -> EInv m a ->
    forall st, fold_left (cmp_step eindex ei_value tips ident m) ks st =
               fold_left (cmp_step aindex ai_value tips ident a) ks st.
  Proof.
    intros F I. induction F as [|k ks Hk Hks IH]; intros st; simpl; auto.
    rewrite IH. f_equal. unfold cmp_step. now rewrite (value_bridge m a k Hk I).
  Qed.

  Lemma w1_fold_bridge tips ident m a ks : Forall (ok_key L) ks -> EInv m a ->
    forall st, fold_left (w1_step eindex ei_value tips ident m) ks st =
               fold_left (w1_step aindex ai_value tips ident a) ks st.
  Proof.
    intros F I. induction F as [|k ks Hk Hks IH]; intros st; simpl; auto.
    rewrite IH. f_equal. unfold w1_step. now rewrite (value_bridge m a k Hk I).
  Qed.

  Lemma w2_fold_bridge tips ident m a ks : Forall (ok_key L) ks -> EInv m a ->
    forall st, fold_left (w2_step eindex ei_value tips ident m) ks st =
               fold_left (w2_step aindex ai_value tips ident a) ks st.
  Proof.
    intros F I. induction F as [|k ks Hk Hks IH]; intros st; simpl; auto.
    rewrite IH. f_equal. unfold w2_step. now rewrite (value_bridge m a k Hk I).
  Qed.

  (** AddEdgeCount for every branch *)
  Lemma ai_add_ea (a : aindex) k : ai_add a k = Some (ea_add a k).
  Proof. unfold ai_add, ea_add, ea_value, ea_put. destruct (assoc_value ekey einfo_v ekey_eqb a k) as [[c l]|]; reflexivity. Qed.

  Lemma add_list_ea (a : aindex) k : add_list a [k] = ea_add a k.
  Proof. unfold add_list. simpl. now rewrite ai_add_ea. Qed.

  Lemma add_all_bridge ks : Forall (ok_key L) ks ->
    forall m a m', EInv m a -> add_all eindex (ei_add need75) m ks = Some m' -> EInv m' (add_list a ks).
  Proof.
    induction 1 as [|k ks Hk Hks IH]; intros m a m' I H; simpl in H.
    - inversion H; subst. exact I.
    - destruct (ei_add need75 m k) as [m1|] eqn:P; [|discriminate].
      change (k :: ks) with ([k] ++ ks). rewrite add_list_app, add_list_ea.
      apply (IH m1 _ m'); auto. apply (ei_add_ref L need75 m a k m1 Hk I P).
  Qed.
End Bridge.

(** * Compare *)
Theorem compare_hm_refines tips ident t1 t2 r :
  good t1 -> good t2 -> Permutation (leaves t1) (leaves t2) ->
  (N.of_nat (length (branch_keys 0 t1) * 2) < W64)%N ->
  compare_hm tips ident t1 t2 = Some r -> compare tips ident t1 t2 = Some r.
Proof.
  intros G1 G2 P B. unfold compare_hm, compare, compare_gen.
  rewrite (reinit_good 0 t1 G1), (reinit_good 1 t2 G2).
  pose proof (keys_ok (leaves t1) 0 t1 G1 (Permutation_refl _)) as K1.
  pose proof (keys_ok (leaves t1) 1 t2 G2 P) as K2.
  destruct (build_index eindex new_edge_index (ei_put need75) (branch_keys 0 t1)) as [m|] eqn:E; [|discriminate].
  destruct (build_index_bridge (leaves t1) _ m K1 B E) as (a & -> & I).
  rewrite (cmp_fold_bridge (leaves t1) tips ident m a _ K2 I). auto.
Qed.

Theorem compare_weighted_hm_refines tips ident t1 t2 r :
  good t1 -> good t2 -> Permutation (leaves t1) (leaves t2) ->
  (N.of_nat (length (branch_keys 0 t1) * 2) < W64)%N ->
  (N.of_nat (length (branch_keys 1 t2) * 2) < W64)%N ->
  compare_weighted_hm tips ident t1 t2 = Some r -> compare_weighted tips ident t1 t2 = Some r.
Proof.
  intros G1 G2 P B1 B2. unfold compare_weighted_hm, compare_weighted, compare_weighted_gen.
  rewrite (reinit_good 0 t1 G1), (reinit_good 1 t2 G2).
  pose proof (keys_ok (leaves t1) 0 t1 G1 (Permutation_refl _)) as K1.
  pose proof (keys_ok (leaves t1) 1 t2 G2 P) as K2.
  destruct (build_index eindex new_edge_index (ei_put need75) (branch_keys 0 t1)) as [m1|] eqn:E1; [|discriminate].
  destruct (build_index_bridge (leaves t1) _ m1 K1 B1 E1) as (a1 & -> & I1).
  destruct (build_index eindex new_edge_index (ei_put need75) (branch_keys 1 t2)) as [m2|] eqn:E2; [|discriminate].
  destruct (build_index_bridge (leaves t1) _ m2 K2 B2 E2) as (a2 & -> & I2).
  rewrite (w1_fold_bridge (leaves t1) tips ident m1 a1 _ K2 I1).
  destruct (fold_left (w1_step aindex ai_value tips ident a1) (branch_keys 1 t2) (Some ([], [], true, false)))
    as [[[[com cmp] s1] st1]|]; auto.
  rewrite (w2_fold_bridge (leaves t1) tips ident m2 a2 _ K1 I2). auto.
Qed.

(** * Consensus: the counting loop *)
Section Loop.
  Variable t0 : utree.
  Hypothesis G0 : ok_input t0.
  Let L := leaves (prep_input t0).
  Notation EInv := (Inv ekey einfo_v ekey_hash ekey_eqb (ok_key L)).

  Lemma cons_step_hm_first i m :
    cons_step eindex (ei_add need75) i m None t0 =
    match add_all eindex (ei_add need75) m (branch_keys i (prep_input t0)) with
    | None => None
    | Some m' => Some (Ok (m', star_of t0))
    end.
  Proof.
    (* the index plays no part before add_all: same computation as in [cons_step_first] *)
    pose proof (cons_step_first i [] t0 G0) as A. unfold cons_step in *.
    rewrite (reinit_good i _ G0) in *.
    destruct (Nat.ltb (length (map (fun p => (uname (snd p), elen (fst p))) (tip_edges (prep_input t0)))) 2); [discriminate|].
    destruct (has_dup_sorted (sort_names (map fst (map (fun p => (uname (snd p), elen (fst p))) (tip_edges (prep_input t0))))));
      [discriminate|].
    rewrite add_all_assoc in A. inversion A. reflexivity.
  Qed.

  Lemma cons_step_hm_next i m t :
    ok_input t -> Permutation (leaves (prep_input t)) L ->
    cons_step eindex (ei_add need75) i m (Some (star_of t0)) t =
    match add_all eindex (ei_add need75) m (branch_keys i (prep_input t)) with
    | None => None
    | Some m' => Some (Ok (m', star_of t0))
    end.
  Proof.
    intros G P. pose proof (cons_step_next i [] t0 t G0 G P) as A. unfold cons_step in *.
    rewrite (reinit_good i _ G) in *.
    destruct (negb (Nat.eqb (length (all_tip_names (prep_input t))) (length (st_alltips (star_of t0))))); [discriminate|].
    destruct (forallb (fun x => existsb (String.eqb x) (st_ids (star_of t0))) (all_tip_names (prep_input t))); [|discriminate].
    reflexivity.
  Qed.

  Lemma cons_loop_hm_next ts : forall i m a mf s n,
      Forall (fun t => ok_input t /\ Permutation (leaves (prep_input t)) L) ts ->
      EInv m a ->
      cons_loop eindex (ei_add need75) i m (Some (star_of t0)) ts = Some (Ok (mf, s, n)) ->
      EInv mf (add_list a (keys_from i ts)) /\ n = Z.of_nat (i + length ts).
  Proof.
    induction ts as [|t r IH]; intros i m a mf s n F I H.
    - simpl in H. inversion H; subst. simpl. rewrite Nat.add_0_r. auto.
    - inversion F as [|? ? [G P] F']; subst. simpl cons_loop in H.
      rewrite (cons_step_hm_next i m t G P) in H.
      destruct (add_all eindex (ei_add need75) m (branch_keys i (prep_input t))) as [m1|] eqn:A; [|discriminate].
      assert (K : Forall (ok_key L) (branch_keys i (prep_input t))) by (apply keys_ok; auto; now apply Permutation_sym).
      pose proof (add_all_bridge L _ K m a m1 I A) as I1.
      destruct (IH (S i) m1 _ mf s n F' I1 H) as [I2 ->].
      simpl keys_from. rewrite add_list_app. split; auto. simpl. f_equal. lia.
  Qed.
End Loop.

Theorem cons_counts_hm_refines ts kvs n :
  collection_ok ts ->
  cons_counts_hm ts = Some (Ok (kvs, n)) ->
  exists a, cons_counts_assoc ts = Some (Ok (a, n)) /\ Permutation kvs a.
Proof.
  destruct ts as [|t0 r]; [intros []|]. intros [G0 F] H.
  exists (add_list [] (keys_from 0 (t0 :: r))).
  unfold cons_counts_hm, cons_counts in H. simpl cons_loop in H.
  rewrite (cons_step_hm_first t0 G0 0) in H.
  destruct (add_all eindex (ei_add need75) (new_edge_index 128) (branch_keys 0 (prep_input t0))) as [m1|] eqn:A; [|discriminate].
  assert (K : Forall (ok_key (leaves (prep_input t0))) (branch_keys 0 (prep_input t0))) by (apply keys_ok; auto).
  assert (I0 : Inv ekey einfo_v ekey_hash ekey_eqb (ok_key (leaves (prep_input t0))) (new_edge_index 128) []).
  { apply inv_new. reflexivity. }
  pose proof (add_all_bridge _ _ K _ _ m1 I0 A) as I1.
  destruct (cons_loop eindex (ei_add need75) 1 m1 (Some (star_of t0)) r) as [[[[mf s] n']|e]|] eqn:CL; try discriminate.
  destruct (cons_loop_hm_next t0 G0 r 1 m1 _ mf s n' F I1 CL) as [I2 ->].
  inversion H; subst; clear H.
  split.
  - rewrite (cons_counts_ok (t0 :: r)); [|split; auto]. simpl keys_from. rewrite add_list_app.
    repeat f_equal.
  - simpl keys_from. rewrite add_list_app. apply (inv_perm _ _ _ _ _ _ _ I2).
Qed.
