(** C09, selection of the splits: what [keep_split] (the test of the code since the fix 27ef6c9)
    and [keep_split_old] (the bound int(cutoff*float64(n)) of the code before) compute, where they
    differ from "frequency strictly greater than the threshold or present in every tree", and a
    cross-check of the rational model of binary64 ([round53]) against Coq's primitive floats. *)
From Coq Require Import String NArith ZArith QArith Qround Qabs Bool Arith Lia Lqa List Floats.
From GT Require Import Base.UTree Spec.Obs Spec.ConsensusSpec Model.Consensus.
Import ListNotations.
Local Close Scope Q_scope.

(** * the test as coded *)
Lemma keep_count_iff minc maxc c :
  keep_count minc maxc c = true <-> ((minc < c)%Z /\ (c <= maxc)%Z) \/ c = maxc.
Proof.
  unfold keep_count. rewrite orb_true_iff, andb_true_iff, Z.ltb_lt, Z.leb_le, Z.eqb_eq. tauto.
Qed.

(** a split with Count = c among n trees is kept iff 0 < c <= n and
    (the binary64 quotient c/n is strictly greater than the binary64 threshold, or c = n) *)
Theorem keep_split_iff c64 n c :
  (0 < n)%Z ->
  (keep_split c64 n c = true <->
   (0 < c <= n)%Z /\ ((c64 < freq64 c n)%Q \/ c = n)).
Proof.
  intros Hn. unfold keep_split. rewrite andb_true_iff, keep_count_iff, negb_true_iff, andb_false_iff.
  rewrite negb_false_iff, Z.eqb_eq.
  assert (Q1 : Qle_bool (freq64 c n) c64 = false <-> (c64 < freq64 c n)%Q).
  { split.
    - intros H. apply Qnot_le_lt. intro L. apply Qle_bool_iff in L. congruence.
    - intros H. destruct (Qle_bool (freq64 c n) c64) eqn:E; auto. apply Qle_bool_iff in E.
      exfalso. apply (Qlt_not_le _ _ H E). }
  rewrite Q1. intuition lia.
Qed.

(** * exact arithmetic: the bound ]cutoff*n, n] is "frequency > cutoff" *)
Lemma Qfloor_lt_int (x : Q) (c : Z) : (Qfloor x < c)%Z <-> (x < inject_Z c)%Q.
Proof.
  split.
  - intros H. apply Qlt_le_trans with (inject_Z (Qfloor x + 1)).
    + apply Qlt_floor.
    + rewrite <- Zle_Qle. lia.
  - intros H. destruct (Z_lt_le_dec (Qfloor x) c) as [L|L]; auto. exfalso.
    apply (Qlt_not_le _ _ H). apply Qle_trans with (inject_Z (Qfloor x)).
    + rewrite <- Zle_Qle. exact L.
    + apply Qfloor_le.
Qed.

Theorem keep_exact (cutoff : Q) (n c : Z) :
  (0 < n)%Z -> (0 < c <= n)%Z ->
  (keep_count (Qfloor (cutoff * inject_Z n)) n c = true <->
   (cutoff < inject_Z c / inject_Z n)%Q \/ c = n).
Proof.
  intros Hn Hc. rewrite keep_count_iff, Qfloor_lt_int.
  assert (Hq : (0 < inject_Z n)%Q) by (change 0%Q with (inject_Z 0); rewrite <- Zlt_Qlt; exact Hn).
  assert (E : (cutoff * inject_Z n < inject_Z c)%Q <-> (cutoff < inject_Z c / inject_Z n)%Q).
  { split; intros H.
    - apply Qlt_shift_div_l; auto.
    - assert (H' := proj2 (Qmult_lt_r cutoff (inject_Z c / inject_Z n) (inject_Z n) Hq) H).
      assert (NZ : ~ (inject_Z n == 0)%Q) by (intro Z; rewrite Z in Hq; apply (Qlt_irrefl 0), Hq).
      setoid_replace (inject_Z c / inject_Z n * inject_Z n)%Q with (inject_Z c) in H' by (field; exact NZ).
      exact H'. }
  rewrite <- E. split.
  - intros [[H _]|H]; auto.
  - intros [H|H]; auto. left. split; auto. lia.
Qed.

(** * binary64: the bound of the old code keeps a split whose frequency EQUALS the threshold *)
Theorem keep_old_refuted :
  exists (cutoff : Q) (n c : Z),
    (0 < c <= n)%Z /\ c <> n /\ (inject_Z c / inject_Z n == cutoff)%Q /\
    keep_split_old (round53 cutoff) n c = true.
Proof.
  exists (58 # 100)%Q, 50%Z, 29%Z. split; [lia|]. split; [lia|]. split; [reflexivity|].
  vm_compute. reflexivity.
Qed.

(** the test of the fixed code rejects it *)
Example keep_new_witness : keep_split (round53 (58 # 100)) 50 29 = false.
Proof. vm_compute. reflexivity. Qed.

(** * cross-check of the rational model of binary64 with Coq's primitive floats *)
Definition Q_of_float (f : float) : option Q :=
  match Prim2SF f with
  | S754_zero _ => Some 0%Q
  | S754_finite s m e => Some (Qred ((if s then (-1)%Q else 1%Q) * (inject_Z (Zpos m) * pow2Q e))%Q)
  | _ => None
  end.

Definition float_of_Z (z : Z) : float := of_uint63 (Uint63.of_Z z).

Definition oq_eq (a : option Q) (b : Q) : bool :=
  match a with Some x => Qeq_bool x b | None => false end.

(** thresholds used by the generators (and 0.56, 0.57 next to the witness) *)
Definition grid_cutoffs : list (Z * Z) :=
  [(2, 3); (50, 100); (51, 100); (55, 100); (56, 100); (57, 100); (58, 100); (60, 100); (70, 100); (75, 100);
   (80, 100); (90, 100); (100, 100)]%Z.

(** the binary64 nearest to the decimal threshold: p/q computed by one correctly rounded division *)
Definition cutoff_float (pq : Z * Z) : float := (float_of_Z (fst pq) / float_of_Z (snd pq))%float.
Definition cutoff_Q (pq : Z * Z) : Q :=
  match snd pq with Zpos d => Qmake (fst pq) d | _ => 0%Q end.

Definition check_cutoff (pq : Z * Z) : bool := oq_eq (Q_of_float (cutoff_float pq)) (round53 (cutoff_Q pq)).

(** float64(c)/float64(n) <= cutoff, and int(cutoff*float64(n)) *)
Definition check_cell (pq : Z * Z) (n c : Z) : bool :=
  let cf := cutoff_float pq in
  let c64 := round53 (cutoff_Q pq) in
  let fq := (float_of_Z c / float_of_Z n)%float in
  oq_eq (Q_of_float fq) (freq64 c n)
  && Bool.eqb (PrimFloat.leb fq cf) (Qle_bool (freq64 c n) c64)
  && match Q_of_float (cf * float_of_Z n)%float with
     | Some p => Z.eqb (Qfloor p) (min_count c64 n)
     | None => false
     end.

Definition check_grid (nmax : nat) : bool :=
  forallb (fun pq =>
             check_cutoff pq &&
             forallb (fun n => forallb (fun c => check_cell pq (Z.of_nat n) (Z.of_nat c)) (seq 1 n)) (seq 1 nmax))
          grid_cutoffs.

Theorem round53_matches_primitive_floats_on_grid : check_grid 52 = true.
Proof. vm_compute. reflexivity. Qed.

(** on the same grid the fixed test agrees with the exact comparison of the frequency with the
    decimal threshold, and the old bound differs exactly at 0.58, n = 50, c = 29 *)
Definition exact_keep (pq : Z * Z) (n c : Z) : bool :=
  negb (Qle_bool (inject_Z c / inject_Z n)%Q (cutoff_Q pq)) || Z.eqb c n.

Definition new_agrees (nmax : nat) : bool :=
  forallb (fun pq =>
             forallb (fun n => forallb (fun c =>
               Bool.eqb (keep_split (round53 (cutoff_Q pq)) (Z.of_nat n) (Z.of_nat c)) (exact_keep pq (Z.of_nat n) (Z.of_nat c)))
                                       (seq 1 n)) (seq 1 nmax))
          grid_cutoffs.

Definition old_differs (nmax : nat) : list (Z * Z * Z * Z) :=
  flat_map (fun pq =>
     flat_map (fun n => flat_map (fun c =>
        if Bool.eqb (keep_split_old (round53 (cutoff_Q pq)) (Z.of_nat n) (Z.of_nat c)) (exact_keep pq (Z.of_nat n) (Z.of_nat c))
        then [] else [(fst pq, snd pq, Z.of_nat n, Z.of_nat c)]) (seq 1 n)) (seq 1 nmax))
           grid_cutoffs.

Theorem keep_split_exact_on_grid : new_agrees 52 = true.
Proof. vm_compute. reflexivity. Qed.

Theorem keep_split_old_differs_on_grid : old_differs 52 = [(58, 100, 50, 29)%Z].
Proof. vm_compute. reflexivity. Qed.
