(** Heap model: Tree.RemoveSingleNodes.  Part 2: the recursion, and the refinement square
    against Model/LocalEdit.v [remove_single]. *)
From Coq Require Import String ZArith QArith Bool Arith Lia Permutation List.
From GT Require Import Base.UTree Model.Reroot Model.LocalEdit Model.Heap Model.HeapEdit Model.HeapEdit2 Proofs.Enum Proofs.HeapBase Proofs.HeapRep
     Proofs.HeapGood Proofs.HeapGoodRep Proofs.HeapRerootL Proofs.HeapReorder Proofs.HeapReroot Proofs.HeapUnrootL Proofs.HeapUnroot
     Proofs.HeapCtx Proofs.HeapGraft Proofs.HeapCollapse Proofs.HeapPrune Proofs.HeapNNI Proofs.HeapPaths Proofs.HeapCollapseTree Proofs.HeapCollapseSq Proofs.HeapSingle.
Import ListNotations.
Local Close Scope Q_scope.

(** * more on [lreplace] *)
Lemma lreplace_twice x new1 new2 : lid new1 = x -> forall lt, lreplace x new2 (lreplace x new1 lt) = lreplace x new2 lt.
Proof.
  intros Hx. induction lt as [i n c sl IH] using ltree_ind'. rewrite (lreplace_eq x new1). destruct (Nat.eqb_spec i x) as [E|N].
  - destruct new1 as [i1 n1 c1 sl1]. cbn [lid] in Hx. rewrite !lreplace_eq. rewrite (proj2 (Nat.eqb_eq _ _) Hx), (proj2 (Nat.eqb_eq _ _) E). reflexivity.
  - rewrite !lreplace_eq. rewrite (proj2 (Nat.eqb_neq _ _) N). f_equal. rewrite map_map. apply map_ext_in. intros s Hs.
    rewrite Forall_forall in IH. specialize (IH s Hs). destruct s as [[[e ei] ch]|]; [|reflexivity]. cbn [lreplace_slot]. rewrite IH. reflexivity.
Qed.

(** the replaced node sits in the same context *)
Lemma lsubs_lreplace_self x new : lid new = x -> forall lt prev p sub, NoDup (lids lt) -> In (p, sub) (lsubs prev lt) -> lid sub = x ->
  In (p, new) (lsubs prev (lreplace x new lt)).
Proof.
  intros Hx. induction lt as [i n c sl IH] using ltree_ind'. intros prev p sub Nd Hin Hs.
  rewrite lsubs_eq in Hin. rewrite lreplace_eq. destruct Hin as [E|Hin].
  - injection E as <- <-. cbn [lid] in Hs. rewrite (proj2 (Nat.eqb_eq _ _) Hs). apply lsubs_self.
  - apply in_flat_map in Hin. destruct Hin as [s [Hsl Hin]]. destruct s as [[[e ei] ch]|]; [|destruct Hin].
    assert (Hix : i <> x).
    { intros ->. rewrite lids_eq in Nd. apply NoDup_cons_iff in Nd. apply (proj1 Nd). rewrite <- Hs.
      eapply in_sids; [exact Hsl|]. eapply lsubs_in_lids. exact Hin. }
    rewrite (proj2 (Nat.eqb_neq _ _) Hix). rewrite lsubs_eq. right. apply in_flat_map.
    exists (Some (e, ei, lreplace x new ch)). split.
    + apply in_map_iff. exists (Some (e, ei, ch)). split; [reflexivity|exact Hsl].
    + rewrite Forall_forall in IH. apply (IH _ Hsl (Some (i, e)) p sub); [|exact Hin|exact Hs].
      rewrite lids_eq in Nd. apply NoDup_cons_iff in Nd. exact (NoDup_flat_map_in _ _ _ (proj2 Nd) Hsl).
Qed.

(** * the suppression of single nodes on labelled trees *)
Definition lsingle_child (lt : ltree) : option (nat * einfo * ltree) :=
  match lslots lt with
  | [None; Some x] => Some x
  | [Some x; None] => Some x
  | _ => None
  end.

Definition lrs_go (f : ltree -> ltree) : list lslot -> list lslot * list lslot :=
  fix go (l : list lslot) : list lslot * list lslot :=
    match l with
    | [] => ([], [])
    | None :: r => let kp := go r in (None :: fst kp, snd kp)
    | Some (e, ei, ch) :: r =>
      let ch' := f ch in
      let kp := go r in
      match lsingle_child ch' with
      | Some (e2, ei2, gc) => (fst kp, Some (e2, rs_edge ei ei2, gc) :: snd kp)
      | None => (Some (e, ei, ch') :: fst kp, snd kp)
      end
    end.

Fixpoint lrs (lt : ltree) : ltree :=
  match lt with
  | LNode i n c sl => let kp := lrs_go (fun ch => lrs ch) sl in LNode i n c (fst kp ++ snd kp)
  end.

Lemma lrs_eq i n c sl : lrs (LNode i n c sl) = LNode i n c (fst (lrs_go lrs sl) ++ snd (lrs_go lrs sl)).
Proof. reflexivity. Qed.

Lemma lid_lrs lt : lid (lrs lt) = lid lt.
Proof. destruct lt; reflexivity. Qed.

Lemma lrs_go_app f : forall a b, lrs_go f (a ++ b) = (fst (lrs_go f a) ++ fst (lrs_go f b), snd (lrs_go f a) ++ snd (lrs_go f b)).
Proof.
  induction a as [|s a IH]; intros b; [cbn [app lrs_go fst snd]; destruct (lrs_go f b); reflexivity|].
  cbn [app]. destruct s as [[[e ei] ch]|]; cbn [lrs_go]; rewrite IH; cbn [fst snd].
  - destruct (lsingle_child (f ch)) as [[[e2 ei2] gc]|]; reflexivity.
  - reflexivity.
Qed.

Lemma single_child_erase lt : single_child (erase lt) = option_map (fun x : nat * einfo * ltree => (snd (fst x), erase (snd x))) (lsingle_child lt).
Proof.
  destruct lt as [i n c sl]. rewrite erase_eq. unfold single_child, lsingle_child. cbn [uslots lslots].
  destruct sl as [|[[[e1 ei1] c1]|] [|[[[e2 ei2] c2]|] [|s3 r]]]; reflexivity.
Qed.

Theorem erase_lrs : forall lt, erase (lrs lt) = rs_node (erase lt).
Proof.
  induction lt as [i n c sl IH] using ltree_ind'. rewrite lrs_eq, !erase_eq. cbn [rs_node]. f_equal.
  set (ugo := fix go (l : list slot) : list slot * list slot :=
           match l with
           | [] => ([], [])
           | None :: r => let kp := go r in (None :: fst kp, snd kp)
           | Some (e, ch) :: r =>
             let ch' := rs_node ch in
             let kp := go r in
             match single_child ch' with
             | Some (e2, gc) => (fst kp, Some (rs_edge e e2, gc) :: snd kp)
             | None => (Some (e, ch') :: fst kp, snd kp)
             end
           end).
  assert (G : map erase_slot (fst (lrs_go lrs sl)) = fst (ugo (map erase_slot sl)) /\ map erase_slot (snd (lrs_go lrs sl)) = snd (ugo (map erase_slot sl))).
  { induction sl as [|s sl IHsl]; [split; reflexivity|]. apply Forall_cons_iff in IH. destruct IH as [Hs IH]. destruct (IHsl IH) as [F1 F2].
    destruct s as [[[e ei] ch]|]; cbn [map erase_slot lrs_go ugo]; fold ugo.
    - rewrite <- Hs, single_child_erase. destruct (lsingle_child (lrs ch)) as [[[e2 ei2] gc]|]; cbn [option_map fst snd map erase_slot].
      + rewrite F1, F2. split; reflexivity.
      + rewrite F1, F2. split; reflexivity.
    - cbn [fst snd map erase_slot]. rewrite F1, F2. split; reflexivity. }
  rewrite map_app. destruct G as [G1 G2]. rewrite G1, G2. reflexivity.
Qed.

(** * the recursion on the heap *)
Definition ce_of (prev : option (nat * nat)) (ce : nat * nat) (s : lslot) : Prop :=
  match s with None => prev = Some ce | Some (e, _, ch) => ce = (lid ch, e) end.

Definition rs_spec (sub : ltree) : Prop := forall fuel h lt P e p nmP cmP l1 l2 ei,
  Rep h lt -> In (p, LNode P nmP cmP (l1 ++ Some (e, ei, sub) :: l2)) (lsubs None lt) -> lheight sub <= fuel ->
  exists h', rs_rec fuel (lid sub) (Some (P, e)) h = HOk h' /\
    Rep h' (lreplace P (LNode P nmP cmP (match lsingle_child (lrs sub) with
                                         | Some (e2, ei2, gc) => (l1 ++ l2) ++ [Some (e2, rs_edge ei ei2, gc)]
                                         | None => l1 ++ Some (e, ei, lrs sub) :: l2
                                         end)) lt).

Lemma rs_loop_cons rec prev n e r h :
  rs_loop rec prev ((n, e) :: r) h = if opt_nat_eqb (Some n) prev then rs_loop rec prev r h else do h1 <- rec n e h; rs_loop rec prev r h1.
Proof. reflexivity. Qed.

Lemma rs_loop_ok f i n c prev : forall todo l K Pm h lt pi,
  Rep h lt -> In (pi, LNode i n c (K ++ todo ++ Pm)) (lsubs None lt) ->
  Forall2 (ce_of prev) l todo ->
  (forall e ei ch, In (Some (e, ei, ch)) todo -> rs_spec ch /\ lheight ch <= f) ->
  (forall P eP, prev = Some (P, eP) -> ~ In P (sids todo)) ->
  exists h', rs_loop (fun m e h => rs_rec f m (Some (i, e)) h) (option_map fst prev) l h = HOk h' /\
     Rep h' (lreplace i (LNode i n c ((K ++ fst (lrs_go lrs todo)) ++ (Pm ++ snd (lrs_go lrs todo)))) lt).
Proof.
  induction todo as [|s todo IH]; intros l K Pm h lt pi R Hin F Hk Hp.
  - inversion F. subst. exists h. split; [reflexivity|]. cbn [lrs_go fst snd app] in *. rewrite !app_nil_r.
    pose proof (lreplace_same lt None pi _ (rep_nd _ _ R) Hin) as E. cbn [lid] in E. rewrite E. exact R.
  - apply Forall2_cons_inv_r in F. destruct F as (ce & l' & -> & Hs & F). destruct ce as [m e0]. rewrite rs_loop_cons.
    destruct s as [[[e ei] ch]|]; cbn [ce_of] in Hs.
    + injection Hs as -> ->.
      assert (opt_nat_eqb (Some (lid ch)) (option_map fst prev) = false) as ->.
      { destruct prev as [[P eP]|]; [|reflexivity]. cbn. apply Nat.eqb_neq. intros E.
        apply (Hp P eP eq_refl). cbn [sids flat_map]. apply in_or_app. left. rewrite <- E. apply lid_in_lids. }
      destruct (Hk e ei ch (or_introl eq_refl)) as [Sp Hh].
      cbn [app] in Hin.
      destruct (Sp f h lt i e pi n c K (todo ++ Pm) ei R Hin Hh) as (h1 & E1 & R1). rewrite E1. cbn [hbind].
      set (X := match lsingle_child (lrs ch) with
                | Some (e2, ei2, gc) => (K ++ todo ++ Pm) ++ [Some (e2, rs_edge ei ei2, gc)]
                | None => K ++ Some (e, ei, lrs ch) :: todo ++ Pm end) in *.
      assert (Hin1 : In (pi, LNode i n c X) (lsubs None (lreplace i (LNode i n c X) lt))).
      { eapply (lsubs_lreplace_self i (LNode i n c X) eq_refl lt None pi _ (rep_nd _ _ R) Hin). reflexivity. }
      assert (Hk' : forall e0 ei0 ch0, In (Some (e0, ei0, ch0)) todo -> rs_spec ch0 /\ lheight ch0 <= f) by (intros; eapply Hk; right; eassumption).
      assert (Hp' : forall P eP, prev = Some (P, eP) -> ~ In P (sids todo)).
      { intros P eP E Hy. apply (Hp P eP E). cbn [sids flat_map]. apply in_or_app. right. exact Hy. }
      cbn [lrs_go]. unfold X in *. clear X.
      destruct (lsingle_child (lrs ch)) as [[[e2 ei2] gc]|].
      * replace ((K ++ todo ++ Pm) ++ [Some (e2, rs_edge ei ei2, gc)]) with (K ++ todo ++ (Pm ++ [Some (e2, rs_edge ei ei2, gc)])) in * by (rewrite !app_assoc; reflexivity).
        destruct (IH l' K (Pm ++ [Some (e2, rs_edge ei ei2, gc)]) h1 _ pi R1 Hin1 F Hk' Hp') as (h2 & E2 & R2).
        exists h2. split; [exact E2|]. rewrite lreplace_twice in R2 by reflexivity. cbn [fst snd].
        rewrite <- (app_assoc Pm) in R2. exact R2.
      * replace (K ++ Some (e, ei, lrs ch) :: todo ++ Pm) with ((K ++ [Some (e, ei, lrs ch)]) ++ todo ++ Pm) in * by (rewrite <- app_assoc; reflexivity).
        destruct (IH l' (K ++ [Some (e, ei, lrs ch)]) Pm h1 _ pi R1 Hin1 F Hk' Hp') as (h2 & E2 & R2).
        exists h2. split; [exact E2|]. rewrite lreplace_twice in R2 by reflexivity. cbn [fst snd].
        rewrite <- (app_assoc K) in R2. exact R2.
    + assert (opt_nat_eqb (Some m) (option_map fst prev) = true) as ->.
      { rewrite Hs. cbn. apply Nat.eqb_refl. }
      replace (K ++ (None :: todo) ++ Pm) with ((K ++ [None]) ++ todo ++ Pm) in Hin by (rewrite <- app_assoc; reflexivity).
      destruct (IH l' (K ++ [None]) Pm h lt pi R Hin F) as (h2 & E2 & R2).
      { intros; eapply Hk; right; eassumption. }
      { intros P eP E Hy. apply (Hp P eP E). exact Hy. }
      exists h2. split; [exact E2|]. cbn [lrs_go fst snd]. rewrite <- (app_assoc K) in R2. exact R2.
Qed.

Lemma rs_rec_S f cur prev h :
  rs_rec (S f) cur prev h =
  do hn <- get_node h cur;
  if Nat.ltb (length (hbr hn)) (length (hneigh hn)) then HPanic
  else
    do h <- rs_loop (fun n e h => rs_rec f n (Some (cur, e)) h) (option_map fst prev) (combine (hneigh hn) (hbr hn)) h;
    do hc <- get_node h cur;
    if Nat.eqb (length (hneigh hc)) 2 && negb (Nat.eqb cur (hroot h)) then
      match prev with
      | Some (previous, e) => rs_suppress cur previous e h
      | None => HPanic
      end
    else HOk h.
Proof. reflexivity. Qed.

Lemma ce_of_slots o h prev i : forall l sl, Forall2 (slot_ok o h prev i) l sl -> Forall2 (ce_of prev) l sl.
Proof.
  intros l sl F. eapply Forall2_impl_r; [exact F|]. intros ce s _ Hok. destruct s as [[[e ei] ch]|]; cbn [slot_ok ce_of] in *; [|exact Hok].
  destruct Hok as (_ & B2 & B3 & _). destruct ce as [a b]. cbn [fst snd] in *. congruence.
Qed.

Lemma lsingle_child_len lt x : lsingle_child lt = Some x -> length (lslots lt) = 2.
Proof.
  unfold lsingle_child. destruct (lslots lt) as [|[[[e1 ei1] c1]|] [|[[[e2 ei2] c2]|] [|s3 r]]]; try discriminate; reflexivity.
Qed.

(** the record of a node of a represented heap *)
Lemma sub_record h lt p i n c sl : Rep h lt -> In (p, LNode i n c sl) (lsubs None lt) ->
  exists hn, alookup i (hnodes h) = Some hn /\ length (hneigh hn) = length sl /\ length (hneigh hn) = length (hbr hn) /\
             Forall2 (slot_ok true h p i) (combine (hneigh hn) (hbr hn)) sl.
Proof.
  intros R Hin. pose proof (shape_lsubs _ _ _ _ _ _ (rep_shape _ _ R) Hin) as Sh. pose proof Sh as Sh0.
  apply shape_unfold in Sh. destruct Sh as [hn (A1 & A2 & A3 & A4 & A5)]. exists hn. repeat split; try assumption.
  exact (proj1 (shape_length _ _ _ _ _ _ _ _ Sh0 A1)).
Qed.

Theorem rs_spec_all : forall sub, rs_spec sub.
Proof.
  induction sub as [i n c sl IH] using ltree_ind'. intros fuel h lt P e p nmP cmP l1 l2 ei R Hsub Hf.
  destruct fuel as [|f]; [cbn in Hf; lia|]. cbn [lid]. rewrite rs_rec_S.
  assert (HsubI : In (Some (P, e), LNode i n c sl) (lsubs None lt)).
  { eapply lsubs_trans; [exact Hsub|]. eapply lsubs_child. apply in_or_app. right. left. reflexivity. }
  destruct (sub_record h lt _ i n c sl R HsubI) as (hn & A1 & L1 & A4 & A5).
  unfold get_node at 1. rewrite A1. cbn [hbind].
  destruct (Nat.ltb_spec (length (hbr hn)) (length (hneigh hn))) as [Hlt|_]; [lia|].
  destruct (Rep_parent h lt R P e _ HsubI) as (hm0 & ed0 & _ & _ & _ & _ & _ & NP). cbn [lid] in NP.
  rewrite Forall_forall in IH.
  destruct (rs_loop_ok f i n c (Some (P, e)) sl (combine (hneigh hn) (hbr hn)) [] [] h lt (Some (P, e)) R) as (h1 & E1 & R1).
  { cbn [app]. rewrite app_nil_r. exact HsubI. }
  { eapply ce_of_slots. exact A5. }
  { intros e' ei' ch Hs. split; [exact (IH _ Hs)|]. pose proof (lheight_child i n c sl _ _ _ Hs). lia. }
  { intros P0 eP0 E Hy. injection E as E1 _. apply NP. rewrite lids_eq. right. rewrite E1. exact Hy. }
  rewrite E1. cbn [hbind app] in *.
  fold (lrs_go lrs sl) in R1. rewrite <- lrs_eq in R1.
  set (lt1 := lreplace i (lrs (LNode i n c sl)) lt) in *.
  (* lt1 seen from the parent *)
  assert (Elt1 : lt1 = lreplace P (LNode P nmP cmP (l1 ++ Some (e, ei, lrs (LNode i n c sl)) :: l2)) lt).
  { unfold lt1. rewrite <- (set_nth_app l1 (Some (e, ei, LNode i n c sl)) l2).
    symmetry. apply (lreplace_child lt None p P nmP cmP _ (length l1) e ei (LNode i n c sl) _ (rep_nd _ _ R) Hsub).
    apply nth_error_app_mid. }
  assert (HsubP1 : In (p, LNode P nmP cmP (l1 ++ Some (e, ei, lrs (LNode i n c sl)) :: l2)) (lsubs None lt1)).
  { rewrite Elt1. eapply (lsubs_lreplace_self P (LNode P nmP cmP (l1 ++ Some (e, ei, lrs (LNode i n c sl)) :: l2)) eq_refl lt None p _ (rep_nd _ _ R) Hsub). reflexivity. }
  assert (HsubI1 : In (Some (P, e), lrs (LNode i n c sl)) (lsubs None lt1)).
  { eapply lsubs_trans; [exact HsubP1|]. eapply lsubs_child. apply in_or_app. right. left. reflexivity. }
  rewrite lrs_eq in HsubI1, HsubP1. set (sl' := fst (lrs_go lrs sl) ++ snd (lrs_go lrs sl)) in *.
  destruct (sub_record h1 lt1 _ i n c sl' R1 HsubI1) as (hc & C1 & LC & _ & _).
  unfold get_node. rewrite C1. cbn [hbind]. rewrite LC.
  assert (Nroot : Nat.eqb i (hroot h1) = false).
  { apply Nat.eqb_neq. intros E. rewrite (rep_root _ _ R1) in E.
    pose proof (lsubs_head lt1 None _ _ (rep_nd _ _ R1) HsubI1 E) as E2. discriminate. }
  rewrite Nroot. cbn [negb]. rewrite andb_true_r.
  destruct (lwf_sub_lsubs lt1 None _ _ (or_introl (rep_wf _ _ R1)) HsubI1) as [E0|W]; [discriminate|].
  apply lwf_sub_iff in W. destruct W as [W1 _].
  rewrite lrs_eq. fold sl'.
  destruct (Nat.eqb_spec (length sl') 2) as [L2|L2].
  - destruct (two_slots_one_up sl' L2 W1) as (eC & eiC & [C nmC cmC slC] & Hsli).
    set (pfirst := match sl' with None :: _ => true | _ => false end).
    assert (Esli : sl' = if pfirst then [None; Some (eC, eiC, LNode C nmC cmC slC)] else [Some (eC, eiC, LNode C nmC cmC slC); None]).
    { unfold pfirst. destruct Hsli as [E0|E0]; rewrite E0; reflexivity. }
    assert (Esc : lsingle_child (LNode i n c sl') = Some (eC, eiC, LNode C nmC cmC slC)).
    { unfold lsingle_child. cbn [lslots]. destruct Hsli as [E0|E0]; rewrite E0; reflexivity. }
    rewrite Esc. clearbody pfirst. rewrite Esli in HsubP1.
    destruct (rs_suppress_Rep h1 lt1 p P nmP cmP l1 l2 e ei i n c pfirst eC eiC C nmC cmC slC R1 HsubP1) as (h2 & E2 & R2).
    exists h2. split; [exact E2|]. rewrite Elt1 in R2. rewrite lreplace_twice in R2 by reflexivity. exact R2.
  - assert (Esc : lsingle_child (LNode i n c sl') = None).
    { destruct (lsingle_child (LNode i n c sl')) as [x|] eqn:E0; [|reflexivity]. apply lsingle_child_len in E0. cbn [lslots] in E0. contradiction. }
    rewrite Esc. exists h1. split; [reflexivity|].
    replace (lreplace P (LNode P nmP cmP (l1 ++ Some (e, ei, LNode i n c sl') :: l2)) lt) with lt1 by exact Elt1. exact R1.
Qed.

(** * the square *)
Theorem remove_single_nodes_Rep h lt : Rep h lt -> exists h', remove_single_nodes_heap h = HOk h' /\ Rep h' (lrs lt).
Proof.
  intros R. unfold remove_single_nodes_heap. rewrite (rep_root _ _ R).
  destruct lt as [r n c sl]. cbn [lid].
  assert (Hf : exists f, hfuel h = S f /\ lheight (LNode r n c sl) <= S f) by (exists (length (hnodes h)); split; [reflexivity|pose proof (Rep_fuel _ _ R); lia]).
  destruct Hf as (f & -> & Hf). rewrite rs_rec_S.
  pose proof (lsubs_self None (LNode r n c sl)) as Hself.
  destruct (sub_record h _ _ r n c sl R Hself) as (hn & A1 & L1 & A4 & A5).
  unfold get_node at 1. rewrite A1. cbn [hbind].
  destruct (Nat.ltb_spec (length (hbr hn)) (length (hneigh hn))) as [Hlt|_]; [lia|].
  destruct (rs_loop_ok f r n c None sl (combine (hneigh hn) (hbr hn)) [] [] h _ None R) as (h1 & E1 & R1).
  { cbn [app]. rewrite app_nil_r. exact Hself. }
  { eapply ce_of_slots. exact A5. }
  { intros e' ei' ch Hs. split; [apply rs_spec_all|]. pose proof (lheight_child r n c sl _ _ _ Hs). lia. }
  { intros P0 eP0 [=]. }
  rewrite E1. cbn [hbind app] in *.
  fold (lrs_go lrs sl) in R1. rewrite <- lrs_eq in R1. rewrite lreplace_eq, Nat.eqb_refl in R1.
  pose proof (rep_root _ _ R1) as Hr. rewrite lid_lrs in Hr. cbn [lid] in Hr.
  assert (Hc : alookup r (hnodes h1) <> None).
  { apply (rep_nodes _ _ R1). rewrite lrs_eq, lids_eq. left. reflexivity. }
  unfold get_node. destruct (alookup r (hnodes h1)) as [hc|]; [|congruence]. cbn [hbind].
  rewrite Hr, Nat.eqb_refl. cbn [negb]. rewrite andb_false_r. exists h1. split; [reflexivity|exact R1].
Qed.

Theorem remove_single_nodes_square h t : Good h -> abs h = Some t ->
  exists h', remove_single_nodes_heap h = HOk h' /\ Good h' /\ abs h' = Some (remove_single t).
Proof.
  intros G Ha. destruct (Good_abs_Rep h t G Ha) as (lt & R & <-).
  destruct (remove_single_nodes_Rep h lt R) as (h' & E & R').
  exists h'. split; [exact E|]. split; [exact (Rep_Good _ _ R')|]. rewrite (Rep_abs _ _ R'). f_equal. apply erase_lrs.
Qed.
