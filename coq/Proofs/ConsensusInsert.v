(** C09, the single step of the construction of the consensus tree on [utree]
    ([insert_clade], Model/ConsensusTree.v): inserting a side [k] that is laminar with every clade
    of the tree adds exactly one branch, whose leaf set is [k] and whose data are the given ones,
    and keeps every other branch with its leaf set and its data. *)
From Coq Require Import String NArith ZArith QArith Bool Arith Lia List Permutation Sorted.
From GT Require Import Base.UTree Spec.Obs Spec.ConsensusSpec Model.Consensus Model.ConsensusTree
     Proofs.IndexTree Proofs.IndexSplit Proofs.Splits Proofs.USplits
     Proofs.CompareBase Proofs.CompareTree Proofs.CompareMain Proofs.CompareDomain Proofs.CompareDupfree
     Proofs.ConsensusCompat.
Import ListNotations.
Local Close Scope Q_scope.
Local Arguments leaves : simpl never.

(** * small facts *)
Lemma ssubset_incl a b : ssubset a b = true <-> incl a b.
Proof.
  unfold ssubset. rewrite forallb_forall. split; intros H x Hx.
  - apply smem_In. now apply H.
  - apply smem_In. now apply H.
Qed.

Lemma ssubset_false a b : ssubset a b = false -> ~ incl a b.
Proof. intros H I. apply ssubset_incl in I. congruence. Qed.

Definition slot_bs (all : list string) (s : slot) : list split :=
  match s with
  | Some (e, c) => mkSplit (canon_side all (sset (leaves c))) (elen e) (esup e) (isleafb c) :: branch_splits all c
  | None => []
  end.

Lemma branch_splits_unfold all n cm sl : branch_splits all (UNode n cm sl) = flat_map (slot_bs all) sl.
Proof. reflexivity. Qed.

Lemma filter_partition_perm {A} (p : A -> bool) l :
  Permutation (filter (fun x => negb (p x)) l ++ filter p l) l.
Proof.
  induction l as [|a l IH]; simpl; auto. destruct (p a); simpl.
  - apply Permutation_sym, Permutation_cons_app, Permutation_sym, IH.
  - now constructor.
Qed.

Lemma flat_map_perm {A B} (f : A -> list B) l l' : Permutation l l' -> Permutation (flat_map f l) (flat_map f l').
Proof.
  induction 1; simpl; auto.
  - now apply Permutation_app_head.
  - rewrite !app_assoc. apply Permutation_app_tail, Permutation_app_comm.
  - eapply Permutation_trans; eauto.
Qed.

Lemma n_up_filter_out (p : slot -> bool) sl : p None = false -> n_up (filter (fun s => negb (p s)) sl) = n_up sl.
Proof.
  intros H. unfold n_up. induction sl as [|[x|] r IH]; simpl; auto.
  - destruct (p (Some x)); simpl; auto.
  - rewrite H. simpl. now rewrite IH.
Qed.

Lemma n_up_filter_in (p : slot -> bool) sl : p None = false -> n_up (filter p sl) = 0.
Proof.
  intros H. unfold n_up. induction sl as [|[x|] r IH]; simpl; auto.
  - destruct (p (Some x)); simpl; auto.
  - now rewrite H.
Qed.

Lemma children_wf_filter (p : slot -> bool) sl : children_wf sl = true -> children_wf (filter p sl) = true.
Proof.
  unfold children_wf. rewrite !forallb_forall. intros H s Hs. apply filter_In in Hs. apply H. tauto.
Qed.

Lemma n_up_app a b : n_up (a ++ b) = n_up a + n_up b.
Proof. unfold n_up. now rewrite filter_app, app_length. Qed.

Definition new_split (all k : list string) (d : einfo) : split :=
  mkSplit (canon_side all k) (elen d) (esup d) false.

Lemma two_not_in_one (k : list string) x : NoDup k -> 2 <= length k -> ~ incl k [x].
Proof.
  intros ND L I. assert (length k <= length [x]) by (apply NoDup_incl_length; auto). simpl in H. lia.
Qed.

Lemma in_edges_child n cm sl e ch ec :
  In (Some (e, ch)) sl -> wf_sub ch = true -> kids ch <> [] -> In ec (edges_below ch) -> In ec (edges_below (UNode n cm sl)).
Proof.
  intros Hs W K H. simpl. apply in_flat_map. exists (Some (e, ch)). split; auto. right.
  assert (D : Nat.ltb 1 (degree ch) = true).
  { destruct ch as [n' c' sl']. apply wf_sub_inv in W. destruct W as [Hup _]. unfold degree, kids in *. simpl in *.
    pose proof (length_slots sl') as HL. rewrite Hup in HL. apply Nat.ltb_lt. destruct (kids_of sl'); [congruence|simpl in HL; lia]. }
  now rewrite D.
Qed.

Lemma in_edges_self n cm sl e ch : In (Some (e, ch)) sl -> In (e, ch) (edges_below (UNode n cm sl)).
Proof. intros Hs. simpl. apply in_flat_map. exists (Some (e, ch)). split; auto. now left. Qed.

Lemma wf_sub_of u : children_wf (uslots u) = true -> n_up (uslots u) = 1 -> wf_sub u = true.
Proof.
  destruct u as [n c sl]. simpl uslots. intros W U. simpl. rewrite U. simpl. exact W.
Qed.

Lemma wf_sub_n_up u : wf_sub u = true -> n_up (uslots u) = 1.
Proof. destruct u as [n c sl]. intros W. apply wf_sub_inv in W. apply W. Qed.

(** * the step *)
Section Step.
  Variable all : list string.
  Variable k : list string.
  Variable d : einfo.
  Hypothesis Ksorted : StronglySorted slt k.
  Hypothesis Ktwo : 2 <= length k.

  Let Knodup : NoDup k := NoDup_sorted_slt k Ksorted.

  Definition step_ok (u u' : utree) : Prop :=
    Permutation (branch_splits all u') (new_split all k d :: branch_splits all u) /\
    Permutation (leaves u') (leaves u) /\
    children_wf (uslots u') = true /\ n_up (uslots u') = n_up (uslots u) /\ kids u' <> [].

  Theorem insert_clade_spec : forall u,
      children_wf (uslots u) = true -> NoDup (leaves u) -> incl k (leaves u) -> kids u <> [] ->
      (forall ec, In ec (edges_below u) -> nested_or_disjoint k (EL ec)) ->
      step_ok u (insert_clade k d u).
  Proof.
    induction u as [n cm sl IH] using utree_ind'. simpl uslots. intros W ND I K LAM.
    unfold kids in K. simpl in K.
    assert (LV : leaves (UNode n cm sl) = sub_leaves sl) by (apply leaves_node; auto).
    rewrite LV in ND, I.
    simpl insert_clade. destruct (existsb (slot_contains k) sl) eqn:EX.
    - (* the side lies inside one child: go down *)
      set (go := fix go (l : list slot) : list slot :=
                   match l with
                   | [] => []
                   | None :: r => None :: go r
                   | Some (e', ch) :: r =>
                     if ssubset k (leaves ch) then Some (e', insert_clade k d ch) :: r else Some (e', ch) :: go r
                   end).
      assert (G : forall l, incl l sl -> children_wf l = true -> NoDup (sub_leaves l) -> existsb (slot_contains k) l = true ->
                            Permutation (flat_map (slot_bs all) (go l)) (new_split all k d :: flat_map (slot_bs all) l) /\
                            Permutation (sub_leaves (go l)) (sub_leaves l) /\
                            children_wf (go l) = true /\ n_up (go l) = n_up l /\ kids_of (go l) <> []).
      { induction l as [|s r IHr]; intros Il Wl NDl El; [discriminate|].
        destruct s as [[e' ch]|].
        - simpl in Wl. apply andb_prop in Wl. destruct Wl as [Wc Wr].
          assert (Hs : In (Some (e', ch)) sl) by (apply Il; now left).
          cbn [go]. destruct (ssubset k (leaves ch)) eqn:SC.
          + (* this child *)
            apply ssubset_incl in SC.
            assert (NDc : NoDup (leaves ch)).
            { unfold sub_leaves in NDl. simpl in NDl. eapply nodup_app_l; eauto. }
            assert (Kc : kids ch <> []).
            { intro Z. destruct ch as [n' c' sl']. unfold kids in Z. simpl in Z. rewrite leaves_no_kids in SC by auto.
              now apply (two_not_in_one k n'). }
            rewrite Forall_forall in IH. specialize (IH _ Hs). simpl in IH.
            assert (Wcc : children_wf (uslots ch) = true) by (destruct ch; apply wf_sub_inv in Wc; apply Wc).
            assert (LAMc : forall ec, In ec (edges_below ch) -> nested_or_disjoint k (EL ec)).
            { intros ec Hec. apply LAM. eapply in_edges_child; eauto. }
            destruct (IH Wcc NDc SC Kc LAMc) as (P1 & P2 & P3 & P4 & P5).
            set (ch' := insert_clade k d ch) in *.
            assert (Wc' : wf_sub ch' = true).
            { apply wf_sub_of; auto. rewrite P4. now apply wf_sub_n_up. }
            split; [|split; [|split; [|split]]].
            * simpl. rewrite (sset_perm _ _ P2).
              assert (IL : isleafb ch' = isleafb ch).
              { unfold isleafb. destruct (kids ch'), (kids ch); congruence. }
              rewrite IL.
              eapply Permutation_trans; [apply perm_skip; apply Permutation_app_tail; exact P1|].
              simpl. apply perm_swap.
            * unfold sub_leaves. simpl. now apply Permutation_app_tail.
            * simpl. now rewrite Wc', Wr.
            * unfold n_up. reflexivity.
            * unfold kids_of. simpl. discriminate.
          + (* a later child *)
            simpl in El. unfold slot_contains at 1 in El. rewrite SC in El. simpl in El.
            destruct (IHr (fun x Hx => Il x (or_intror Hx)) Wr) as (Q1 & Q2 & Q3 & Q4 & Q5); auto.
            { unfold sub_leaves in NDl. simpl in NDl. eapply nodup_app_r; eauto. }
            split; [|split; [|split; [|split]]].
            * simpl. eapply Permutation_trans; [apply perm_skip; apply Permutation_app_head; exact Q1|].
              apply Permutation_sym.
              apply (Permutation_middle (mkSplit (canon_side all (sset (leaves ch))) (elen e') (esup e') (isleafb ch) :: branch_splits all ch)
                                        (flat_map (slot_bs all) r) (new_split all k d)).
            * unfold sub_leaves. simpl. now apply Permutation_app_head.
            * simpl. now rewrite Wc, Q3.
            * unfold n_up in *. simpl. exact Q4.
            * unfold kids_of. simpl. discriminate.
        - cbn [go]. simpl in El. simpl in Wl.
          destruct (IHr (fun x Hx => Il x (or_intror Hx)) Wl NDl El) as (Q1 & Q2 & Q3 & Q4 & Q5).
          split; [|split; [|split; [|split]]]; auto.
          + unfold n_up in *. simpl. now rewrite Q4.
      }
      destruct (G sl (incl_refl _) W ND EX) as (Q1 & Q2 & Q3 & Q4 & Q5).
      unfold step_ok. rewrite !branch_splits_unfold. simpl uslots. unfold kids. simpl uslots.
      rewrite LV, (leaves_node n cm (go sl) Q5). auto.
    - (* group the children inside the side under a new node *)
      assert (NC : forall e ch, In (Some (e, ch)) sl -> ~ incl k (leaves ch)).
      { intros e ch Hs. apply ssubset_false.
        destruct (ssubset k (leaves ch)) eqn:E; auto.
        assert (existsb (slot_contains k) sl = true) by (apply existsb_exists; exists (Some (e, ch)); auto).
        congruence. }
      assert (INS : forall e ch, In (Some (e, ch)) sl ->
                                 (slot_inside k (Some (e, ch)) = true /\ incl (leaves ch) k) \/
                                 (slot_inside k (Some (e, ch)) = false /\ forall x, In x k -> In x (leaves ch) -> False)).
      { intros e ch Hs. pose proof (LAM (e, ch) (in_edges_self n cm sl e ch Hs)) as H0.
        unfold nested_or_disjoint, EL in H0. simpl snd in H0. destruct H0 as [H|[H|H]].
        - exfalso. apply (NC e ch Hs). exact H.
        - left. split; auto. simpl. now apply ssubset_incl.
        - destruct (slot_inside k (Some (e, ch))) eqn:E; [|right; split; auto].
          simpl in E. apply ssubset_incl in E.
          (* a non-empty child inside k and disjoint from k: impossible *)
          exfalso. assert (Wc : wf_sub ch = true) by apply (children_wf_in _ _ _ W Hs).
          destruct (sub_spec [] ch Wc) as (_ & _ & _ & NE). destruct (leaves ch) as [|x xs] eqn:El; [congruence|].
          apply (H x); [apply E|]; now left. }
      set (ins := filter (slot_inside k) sl).
      set (outs := filter (fun s => negb (slot_inside k s)) sl).
      assert (PN : slot_inside k None = false) by reflexivity.
      (* the leaves of the grouped children are exactly k *)
      assert (LK : forall x, In x (sub_leaves ins) <-> In x k).
      { intros x. unfold sub_leaves, ins. rewrite in_flat_map. split.
        - intros ([[e ch]|] & Hs & Hx); [|destruct Hx]. apply filter_In in Hs. destruct Hs as [Hs Hi].
          simpl in Hi. apply ssubset_incl in Hi. apply Hi. exact Hx.
        - intros Hx. pose proof (I x Hx) as Hu. unfold sub_leaves in Hu. apply in_flat_map in Hu.
          destruct Hu as ([[e ch]|] & Hs & Hc); [|destruct Hc]. exists (Some (e, ch)). split; auto.
          apply filter_In. split; auto.
          destruct (INS e ch Hs) as [[Hi _]|[_ Hd]]; auto. exfalso. apply (Hd x); auto. }
      assert (KI : kids_of ins <> []).
      { destruct k as [|x xs] eqn:Ek; [simpl in Ktwo; lia|].
        assert (Hx : In x (sub_leaves ins)) by (apply LK; now left).
        unfold sub_leaves in Hx. apply in_flat_map in Hx. destruct Hx as ([[e ch]|] & Hs & Hc); [|destruct Hc].
        intro Z. assert (In (e, ch) (kids_of ins)).
        { unfold kids_of. apply in_flat_map. exists (Some (e, ch)). split; auto. now left. }
        rewrite Z in H. destruct H. }
      set (n2 := UNode "" [] (None :: ins)).
      assert (L2 : leaves n2 = sub_leaves ins).
      { unfold n2. rewrite leaves_node; [reflexivity|]. unfold kids_of in *. simpl. exact KI. }
      assert (S2 : sset (leaves n2) = k).
      { apply sorted_ext; [apply sset_sorted|exact Ksorted|]. intros x. rewrite sset_In, L2. apply LK. }
      assert (PP : Permutation (outs ++ ins) sl) by apply filter_partition_perm.
      assert (KO : kids_of (outs ++ [Some (d, n2)]) <> []).
      { rewrite kids_of_app. unfold kids_of at 2. simpl. intro Z. apply app_eq_nil in Z. destruct Z; discriminate. }
      unfold step_ok. rewrite !branch_splits_unfold. simpl uslots. unfold kids. simpl uslots.
      fold ins outs n2.
      split; [|split; [|split; [|split]]].
      + rewrite flat_map_app. simpl flat_map. rewrite app_nil_r.
        unfold slot_bs at 2. rewrite S2.
        assert (IL : isleafb n2 = false).
        { unfold isleafb, n2, kids. simpl uslots. unfold kids_of in *. simpl. destruct (flat_map _ ins); [congruence|reflexivity]. }
        rewrite IL. fold (new_split all k d).
        change (flat_map (fun s : slot => match s with
                                          | Some (e, c) => {| sside := canon_side all (sset (leaves c)); slen := elen e; ssup := esup e;
                                                              stip := match kids c with [] => true | _ :: _ => false end |}
                                                             :: branch_splits all c
                                          | None => [] end)) with (flat_map (slot_bs all)).
        eapply Permutation_trans; [apply Permutation_sym, Permutation_middle|]. apply perm_skip.
        rewrite <- flat_map_app. now apply flat_map_perm.
      + rewrite LV, (leaves_node n cm _ KO).
        unfold sub_leaves. rewrite flat_map_app. simpl flat_map. rewrite app_nil_r. fold (sub_leaves ins).
        unfold slot_leaves at 2. rewrite L2. unfold sub_leaves. rewrite <- flat_map_app. now apply flat_map_perm.
      + unfold children_wf. rewrite forallb_app. apply andb_true_intro. split.
        * apply (children_wf_filter _ _ W).
        * cbn [forallb]. cbv beta iota. rewrite andb_true_r. apply wf_sub_of.
          -- unfold n2. simpl uslots. change (children_wf (None :: ins)) with (children_wf ins).
             apply (children_wf_filter _ _ W).
          -- unfold n2. simpl uslots. change (n_up (None :: ins)) with (S (n_up ins)).
             unfold ins. now rewrite (n_up_filter_in (slot_inside k) sl PN).
      + rewrite n_up_app. unfold outs. rewrite (n_up_filter_out (slot_inside k) sl PN). unfold n_up. simpl. lia.
      + exact KO.
  Qed.
End Step.
