(** C08, the rejection clause at full strength: the record of Compare / CompareWeighted carries no
    error EXACTLY when the two trees have the same taxon MULTISET (distinct names in each tree and
    the same names); a reference tree with a duplicated name makes the call itself fail;
    CommonEdges refuses trees on different taxa. *)
From Coq Require Import String NArith ZArith QArith Bool Arith Lia List ListDec Permutation Sorted.
From GT Require Import Base.UTree Spec.Obs Spec.CompareSpec Model.Reroot Model.Index Model.HashMap Model.EdgeIndex Model.Compare
     Proofs.IndexBase Proofs.IndexTree Proofs.IndexSplit Proofs.CompareBase Proofs.CompareTree Proofs.CompareMain Proofs.CompareCor
     Proofs.CompareTotal.
Import ListNotations.
Local Close Scope Q_scope.
Local Arguments leaves : simpl never.
Local Open Scope string_scope.

Definition dup_msg : string := "Cannot create a tip index when several tips have the same name".

(** * a duplicated name is seen by UpdateTipIndex *)
Lemma name_le_antisym a b : name_le a b -> name_le b a -> a = b.
Proof. unfold name_le. intros H1 H2. apply ltb_total; auto. Qed.

Lemma dup_sorted l : StronglySorted name_le l -> ~ NoDup l -> has_dup_sorted l = true.
Proof.
  induction 1 as [|x r S IH F]; intros ND.
  - exfalso. apply ND. constructor.
  - destruct r as [|y r']; [exfalso; apply ND; repeat constructor; auto|].
    simpl. apply orb_true_iff.
    destruct (in_dec string_dec x (y :: r')) as [Hin|Hn].
    + left. apply String.eqb_eq. rewrite Forall_forall in F.
      destruct Hin as [E|Hin]; [auto|].
      inversion S as [|? ? S' F']; subst. rewrite Forall_forall in F'.
      apply name_le_antisym; [apply F; now left|]. apply F'. exact Hin.
    + right. apply IH. intro N. apply ND. constructor; auto.
Qed.

Lemma reinit_dup tag t :
  wf t = true -> 2 <= degree t -> ~ NoDup (leaves t) -> reinit tag t = Some (Err dup_msg).
Proof.
  intros W D ND. unfold reinit, index_tables.
  assert (H : has_dup_sorted (sorted_tip_names t) = true).
  { unfold sorted_tip_names. destruct (root_NI t W D) as [_ ->]. apply dup_sorted; [apply sort_names_sorted|].
    intro N. apply ND. eapply Permutation_NoDup; [apply sort_names_perm|exact N]. }
  rewrite H. reflexivity.
Qed.

(** * Compare *)
Theorem compare_dup_reference tips ident t1 t2 :
  wf t1 = true -> 2 <= degree t1 -> ~ NoDup (leaves t1) -> compare tips ident t1 t2 = Some (Err dup_msg).
Proof. intros W D N. unfold compare, compare_gen. now rewrite (reinit_dup 0 t1 W D N). Qed.

Theorem compare_dup_compared tips ident t1 t2 :
  good t1 -> wf t2 = true -> 2 <= degree t2 -> ~ NoDup (leaves t2) ->
  exists r, compare tips ident t1 t2 = Some (Ok r) /\ bs_err r = dup_msg.
Proof.
  intros G1 W D N. unfold compare, compare_gen. rewrite (reinit_good 0 t1 G1), (reinit_dup 1 t2 W D N).
  unfold build_index. destruct (put_all_assoc_total (branch_keys 0 t1) (ai_new (N.of_nat (length (branch_keys 0 t1) * 2))) 0%Z) as (a & ->).
  eexists. split; reflexivity.
Qed.

Lemma compare_total tips ident t1 t2 :
  good t1 -> good t2 ->
  exists r, compare tips ident t1 t2 = Some (Ok r) /\
            bs_err r = compare_tip_indexes (sorted_tip_names t1) (sorted_tip_names t2).
Proof.
  intros G1 G2. unfold compare, compare_gen. rewrite (reinit_good 0 t1 G1), (reinit_good 1 t2 G2).
  unfold build_index. destruct (put_all_assoc_total (branch_keys 0 t1) (ai_new (N.of_nat (length (branch_keys 0 t1) * 2))) 0%Z) as (a & ->).
  destruct (fold_cmp_total tips ident a (branch_keys 1 t2) (0%Z, 0%Z, true, false)) as ([[[tt cc] ss] st] & X).
  unfold cmp_state in *. rewrite X. eexists. split; reflexivity.
Qed.

(** accepted exactly when the taxon multisets are the same *)
Theorem compare_accepts_iff tips ident t1 t2 :
  wf t1 = true -> 2 <= degree t1 -> wf t2 = true -> 2 <= degree t2 ->
  ((exists r, compare tips ident t1 t2 = Some (Ok r) /\ bs_err r = "") <->
   (NoDup (leaves t1) /\ NoDup (leaves t2) /\ Permutation (leaves t1) (leaves t2))).
Proof.
  intros W1 D1 W2 D2. split.
  - intros (r & E & Er).
    destruct (NoDup_dec string_dec (leaves t1)) as [N1|N1].
    2:{ rewrite (compare_dup_reference tips ident t1 t2 W1 D1 N1) in E. discriminate. }
    assert (G1 : good t1) by (repeat split; auto).
    destruct (NoDup_dec string_dec (leaves t2)) as [N2|N2].
    2:{ destruct (compare_dup_compared tips ident t1 t2 G1 W2 D2 N2) as (r' & E' & Er'). rewrite E in E'. inversion E'; subst.
        rewrite Er in Er'. discriminate. }
    assert (G2 : good t2) by (repeat split; auto).
    split; auto. split; auto. apply NoDup_Permutation; auto.
    destruct (compare_total tips ident t1 t2 G1 G2) as (r' & E' & Er'). rewrite E in E'. inversion E'; subst. rewrite Er in Er'.
    destruct (tables_spec t1 W1 D1 N1) as (P1 & _ & _). destruct (tables_spec t2 W2 D2 N2) as (P2 & _ & _).
    pose proof (compare_tip_indexes_diff _ _ (Permutation_NoDup (Permutation_sym P1) N1)
                                        (Permutation_NoDup (Permutation_sym P2) N2) (eq_sym Er')) as I.
    intros x. split; intros Hx.
    + apply (Permutation_in _ P2). apply I. apply (Permutation_in _ (Permutation_sym P1)). exact Hx.
    + apply (Permutation_in _ P1). apply I. apply (Permutation_in _ (Permutation_sym P2)). exact Hx.
  - intros (N1 & N2 & P).
    assert (G1 : good t1) by (repeat split; auto). assert (G2 : good t2) by (repeat split; auto).
    destruct (compare_total tips ident t1 t2 G1 G2) as (r & E & Er). exists r. split; auto.
    rewrite Er. apply (compare_tip_indexes_same t1 t2 G1 G2 P).
Qed.

(** * CompareWeighted *)
Theorem compare_weighted_dup_reference tips ident t1 t2 :
  wf t1 = true -> 2 <= degree t1 -> ~ NoDup (leaves t1) -> compare_weighted tips ident t1 t2 = Some (Err dup_msg).
Proof. intros W D N. unfold compare_weighted, compare_weighted_gen. now rewrite (reinit_dup 0 t1 W D N). Qed.

Theorem compare_weighted_dup_compared tips ident t1 t2 :
  good t1 -> wf t2 = true -> 2 <= degree t2 -> ~ NoDup (leaves t2) ->
  exists r, compare_weighted tips ident t1 t2 = Some (Ok r) /\ ws_err r = dup_msg.
Proof.
  intros G1 W D N. unfold compare_weighted, compare_weighted_gen. rewrite (reinit_good 0 t1 G1), (reinit_dup 1 t2 W D N).
  unfold build_index. destruct (put_all_assoc_total (branch_keys 0 t1) (ai_new (N.of_nat (length (branch_keys 0 t1) * 2))) 0%Z) as (a & ->).
  eexists. split; reflexivity.
Qed.

Lemma compare_weighted_total tips ident t1 t2 :
  good t1 -> good t2 ->
  exists r, compare_weighted tips ident t1 t2 = Some (Ok r) /\
            ws_err r = compare_tip_indexes (sorted_tip_names t1) (sorted_tip_names t2).
Proof.
  intros G1 G2. unfold compare_weighted, compare_weighted_gen. rewrite (reinit_good 0 t1 G1), (reinit_good 1 t2 G2).
  unfold build_index.
  destruct (put_all_assoc_total (branch_keys 0 t1) (ai_new (N.of_nat (length (branch_keys 0 t1) * 2))) 0%Z) as (a1 & ->).
  destruct (put_all_assoc_total (branch_keys 1 t2) (ai_new (N.of_nat (length (branch_keys 1 t2) * 2))) 0%Z) as (a2 & ->).
  destruct (fold_w1_total tips ident a1 (branch_keys 1 t2) ([], [], true, false)) as ([[[com cmp] s1] st1] & X1).
  unfold w1_state in *. rewrite X1.
  destruct (fold_w2_total tips ident a2 (branch_keys 0 t1) ([], s1, false)) as ([[rf s2] st2] & X2).
  unfold w2_state in *. rewrite X2. eexists. split; reflexivity.
Qed.

Theorem compare_weighted_accepts_iff tips ident t1 t2 :
  wf t1 = true -> 2 <= degree t1 -> wf t2 = true -> 2 <= degree t2 ->
  ((exists r, compare_weighted tips ident t1 t2 = Some (Ok r) /\ ws_err r = "") <->
   (NoDup (leaves t1) /\ NoDup (leaves t2) /\ Permutation (leaves t1) (leaves t2))).
Proof.
  intros W1 D1 W2 D2. split.
  - intros (r & E & Er).
    destruct (NoDup_dec string_dec (leaves t1)) as [N1|N1].
    2:{ rewrite (compare_weighted_dup_reference tips ident t1 t2 W1 D1 N1) in E. discriminate. }
    assert (G1 : good t1) by (repeat split; auto).
    destruct (NoDup_dec string_dec (leaves t2)) as [N2|N2].
    2:{ destruct (compare_weighted_dup_compared tips ident t1 t2 G1 W2 D2 N2) as (r' & E' & Er'). rewrite E in E'. inversion E'; subst.
        rewrite Er in Er'. discriminate. }
    assert (G2 : good t2) by (repeat split; auto).
    split; auto. split; auto. apply NoDup_Permutation; auto.
    destruct (compare_weighted_total tips ident t1 t2 G1 G2) as (r' & E' & Er'). rewrite E in E'. inversion E'; subst. rewrite Er in Er'.
    destruct (tables_spec t1 W1 D1 N1) as (P1 & _ & _). destruct (tables_spec t2 W2 D2 N2) as (P2 & _ & _).
    pose proof (compare_tip_indexes_diff _ _ (Permutation_NoDup (Permutation_sym P1) N1)
                                        (Permutation_NoDup (Permutation_sym P2) N2) (eq_sym Er')) as I.
    intros x. split; intros Hx.
    + apply (Permutation_in _ P2). apply I. apply (Permutation_in _ (Permutation_sym P1)). exact Hx.
    + apply (Permutation_in _ P1). apply I. apply (Permutation_in _ (Permutation_sym P2)). exact Hx.
  - intros (N1 & N2 & P).
    assert (G1 : good t1) by (repeat split; auto). assert (G2 : good t2) by (repeat split; auto).
    destruct (compare_weighted_total tips ident t1 t2 G1 G2) as (r & E & Er). exists r. split; auto.
    rewrite Er. apply (compare_tip_indexes_same t1 t2 G1 G2 P).
Qed.

(** * CommonEdges *)
Theorem common_edges_different_taxa te t1 t2 :
  good t1 -> good t2 -> ~ (forall x, In x (leaves t1) <-> In x (leaves t2)) ->
  exists m, common_edges te t1 t2 = Err m.
Proof.
  intros G1 G2 ND. unfold common_edges.
  destruct (compare_tip_indexes (sorted_tip_names t1) (sorted_tip_names t2)) eqn:E; [|eauto].
  exfalso. apply ND.
  pose proof G1 as (W1 & D1 & N1). pose proof G2 as (W2 & D2 & N2).
  destruct (tables_spec t1 W1 D1 N1) as (P1 & _ & _). destruct (tables_spec t2 W2 D2 N2) as (P2 & _ & _).
  pose proof (compare_tip_indexes_diff _ _ (Permutation_NoDup (Permutation_sym P1) N1)
                                      (Permutation_NoDup (Permutation_sym P2) N2) E) as I.
  intros x. split; intros Hx.
  - apply (Permutation_in _ P2). apply I. apply (Permutation_in _ (Permutation_sym P1)). exact Hx.
  - apply (Permutation_in _ P1). apply I. apply (Permutation_in _ (Permutation_sym P2)). exact Hx.
Qed.

(** * the clauses are not vacuous: ((a,b),c,d) against a tree with the name a twice / with another name *)
Definition wit_dup : utree :=
  UNode "" [] [br (UNode "" [] [None; br (tipn "a"); br (tipn "a")]); br (tipn "c"); br (tipn "d")].
Definition wit_other : utree :=
  UNode "" [] [br (UNode "" [] [None; br (tipn "a"); br (tipn "z")]); br (tipn "c"); br (tipn "d")].

Example reject_examples :
  compare false false wit_ref wit_dup = Some (Ok (mkBS 1 0 0 false dup_msg)) /\
  compare false false wit_dup wit_ref = Some (Err dup_msg) /\
  (exists r, compare false false wit_ref wit_other = Some (Ok r) /\ bs_err r = "Trees do not have the same tip names") /\
  (exists r, compare false false wit_ref wit_star = Some (Ok r) /\ bs_err r = "").
Proof. repeat split; try (vm_compute; reflexivity); eexists; split; vm_compute; reflexivity. Qed.
