(** C05 (i) for RerootOutGroup with removal: the result is the input tree minus a set of
    leaves [Rm] that contains the requested tips (exactly the requested tips when they are one
    side of a split); the leaves that remain keep their path lengths.
    [restr w Rm s s']: [s'] is [s] restricted to the leaves outside [Rm]. *)
From Coq Require Import String ZArith QArith Bool Arith Lia List Permutation Setoid Morphisms.
From GT Require Import Base.UTree Spec.Obs Model.Reroot Model.Outgroup Spec.Unrooted
     Proofs.RerootBase Proofs.Reroot Proofs.Reorder Proofs.Unroot Proofs.Splits Proofs.C05Main
     Proofs.OutgroupBase Proofs.OutgroupCut Proofs.OutgroupKeep Proofs.OutgroupLCA Proofs.OutgroupClade
     Proofs.OutgroupMain.
Import ListNotations.
Local Close Scope Q_scope.
Local Arguments n_up : simpl never.

Definition ends_in (Rm : list string) (x : string * string * Q) : Prop :=
  In (fst (fst x)) Rm \/ In (snd (fst x)) Rm.

Definition restr (w : einfo -> Q) (Rm : list string) (s s' : utree) : Prop :=
  Permutation (leaves s) (leaves s' ++ Rm) /\
  (exists Dm, deq (depths w s) (depths w s' ++ Dm) /\ Forall (fun x => In (fst x) Rm) Dm) /\
  (exists Em, dists_equiv (pairdists w s) (pairdists w s' ++ Em) /\ Forall (ends_in Rm) Em).

(** * names in the observables *)
Lemma shift_app q a b : shift q (a ++ b) = shift q a ++ shift q b.
Proof. unfold shift. apply map_app. Qed.

Lemma shift_names_Forall (P : string -> Prop) q l :
  Forall (fun x => P (fst x)) l -> Forall (fun x => P (fst x)) (shift q l).
Proof. unfold shift. induction 1; simpl; constructor; auto. Qed.

Lemma cross_ends (P Q' : string -> Prop) a b :
  Forall (fun x => P (fst x)) a -> Forall (fun x => Q' (fst x)) b ->
  Forall (fun y => P (fst (fst y)) /\ Q' (snd (fst y))) (cross a b).
Proof.
  intros Ha Hb. unfold cross. induction Ha as [|x a Hx Ha IH]; simpl; [constructor|].
  apply Forall_app. split; auto.
  clear IH. induction Hb; simpl; constructor; auto.
Qed.

Lemma Forall_True {A} (l : list A) : Forall (fun _ => True) l.
Proof. induction l; constructor; auto. Qed.

Lemma symcross_ends Rm dm C :
  Forall (fun x => In (fst x) Rm) dm -> Forall (ends_in Rm) (symcross dm C).
Proof.
  intros H. unfold symcross. apply Forall_app. split.
  - eapply Forall_impl; [|apply (cross_ends (fun x => In x Rm) (fun _ => True) dm C H (Forall_True C))].
    intros y [Hy _]. now left.
  - eapply Forall_impl; [|apply (cross_ends (fun _ => True) (fun x => In x Rm) C dm (Forall_True C) H)].
    intros y [_ Hy]. now right.
Qed.

Lemma cross_ends_sym Rm d C :
  Forall (fun x => In (fst x) Rm) C -> Forall (ends_in Rm) (symcross d C).
Proof.
  intros H. unfold symcross. apply Forall_app. split.
  - eapply Forall_impl; [|apply (cross_ends (fun _ => True) (fun x => In x Rm) d C (Forall_True d) H)].
    intros y [_ Hy]. now right.
  - eapply Forall_impl; [|apply (cross_ends (fun x => In x Rm) (fun _ => True) C d H (Forall_True d))].
    intros y [Hy _]. now left.
Qed.

Lemma depths_names_in w s : Forall (fun x => In (fst x) (leaves s)) (depths w s).
Proof.
  induction s as [n c sl IH] using utree_ind'.
  rewrite depths_unfold, leaves_unfold.
  destruct (kids_of sl) as [|x K] eqn:EK.
  - constructor; [now left | constructor].
  - rewrite <- EK.
    assert (IH' : Forall (fun p : einfo * utree => Forall (fun x => In (fst x) (leaves (snd p))) (depths w (snd p))) (kids_of sl)).
    { rewrite Forall_forall in *. intros [e ch] Hin. apply kids_of_In in Hin. exact (IH _ Hin). }
    clear IH EK. induction IH' as [|p K' Hp HK IH]; [constructor|].
    rewrite kleaves_cons. simpl kD. simpl concat.
    apply Forall_app. split.
    + apply (shift_names_Forall (fun x => In x (leaves (snd p) ++ kleaves K'))).
      eapply Forall_impl; [|exact Hp].
      intros y Hy. apply in_or_app. now left.
    + eapply Forall_impl; [|exact IH]. intros y Hy. apply in_or_app. now right.
Qed.

Lemma Forall_concat {A} (P : A -> Prop) L : Forall (Forall P) L -> Forall P (concat L).
Proof. induction 1; simpl; [constructor|]. apply Forall_app; auto. Qed.

Lemma cross_all_ends (P : string -> Prop) L :
  Forall (Forall (fun x => P (fst x))) L ->
  Forall (fun y => P (fst (fst y)) /\ P (snd (fst y))) (cross_all L).
Proof.
  induction 1 as [|d r Hd Hr IH]; simpl; [constructor|].
  apply Forall_app. split; auto.
  clear IH. induction Hr as [|d' r' Hd' Hr' IH']; simpl; [constructor|].
  apply Forall_app. split; auto. apply Forall_app. split.
  - apply cross_ends; auto.
  - eapply Forall_impl; [|apply (cross_ends P P d' d Hd' Hd)]. intros y [H1 H2]. auto.
Qed.

Lemma pairdists_names_in w s :
  Forall (fun y => In (fst (fst y)) (leaves s) /\ In (snd (fst y)) (leaves s)) (pairdists w s).
Proof.
  induction s as [n c sl IH] using utree_ind'.
  rewrite pairdists_unfold, leaves_unfold.
  destruct (kids_of sl) as [|x K] eqn:EK; [constructor|]. rewrite <- EK.
  assert (IH' : Forall (fun p : einfo * utree =>
                          Forall (fun y => In (fst (fst y)) (leaves (snd p)) /\ In (snd (fst y)) (leaves (snd p)))
                                 (pairdists w (snd p))) (kids_of sl)).
  { rewrite Forall_forall in *. intros [e ch] Hin. apply kids_of_In in Hin. exact (IH _ Hin). }
  clear IH EK. apply Forall_app. split.
  - apply (cross_all_ends (fun x => In x (kleaves (kids_of sl)))). unfold kD. clear IH'.
    induction (kids_of sl) as [|p K' IHK]; [constructor|].
    rewrite kleaves_cons. simpl map. constructor.
    + apply (shift_names_Forall (fun x => In x (leaves (snd p) ++ kleaves K'))).
      eapply Forall_impl; [|apply depths_names_in].
      intros y Hy. apply in_or_app. now left.
    + eapply Forall_impl; [|exact IHK]. intros d Hd. eapply Forall_impl; [|exact Hd].
      intros y Hy. apply in_or_app. now right.
  - unfold kpd. induction IH' as [|p K' Hp HK IHK]; [constructor|].
    rewrite kleaves_cons. simpl flat_map.
    apply Forall_app. split.
    + eapply Forall_impl; [|exact Hp]. intros y [H1 H2]. split; apply in_or_app; now left.
    + eapply Forall_impl; [|exact IHK]. intros y [H1 H2]. split; apply in_or_app; now right.
Qed.

(** * removing one child *)
Lemma restr_remove_child w n c sl k e ch :
  nth_error sl k = Some (Some (e, ch)) -> kids_of (remove_nth k sl) <> [] ->
  restr w (leaves ch) (UNode n c sl) (UNode n c (remove_nth k sl)).
Proof.
  intros Hk Hne.
  destruct (kids_of_remove_nth sl k (e, ch) Hk) as [A [B [K1 [K2 _]]]].
  assert (NE : kids_of sl <> []) by (rewrite K1; destruct A; discriminate).
  unfold restr. rewrite !leaves_unfold, !depths_unfold, !pairdists_unfold.
  rewrite (nonnil_match _ _ _ NE), (nonnil_match _ _ _ Hne).
  rewrite (nonnil_match (kids_of sl) [(n, 0%Q)] _ NE), (nonnil_match (kids_of (remove_nth k sl)) [(n, 0%Q)] _ Hne).
  rewrite K1, K2. rewrite !kleaves_app, !kD_app, !kpd_app, kleaves_cons. simpl kD. simpl kpd. cbn [fst snd].
  rewrite !concat_app. simpl concat.
  set (dch := shift (w e) (depths w ch)).
  split; [perm|]. split.
  - exists dch. split.
    + apply PermR_of_perm; [exact pq_eq_Equivalence|]. perm.
    + unfold dch. apply (shift_names_Forall (fun x => In x (leaves ch))), depths_names_in.
  - exists (symcross dch (concat (kD w A ++ kD w B)) ++ pairdists w ch). split.
    + apply dists_equiv_perm.
      rewrite (cross_all_insert (kD w A) dch (kD w B)). rewrite concat_app. perm.
    + apply Forall_app. split.
      * apply symcross_ends. unfold dch. apply (shift_names_Forall (fun x => In x (leaves ch))), depths_names_in.
      * eapply Forall_impl; [|apply pairdists_names_in]. intros y [H1 _]. now left.
Qed.

(** * congruence: a child replaced by its restriction *)
Lemma restr_step w Rm n c sl k e s s' :
  nth_error sl k = Some (Some (e, s)) -> restr w Rm s s' ->
  restr w Rm (UNode n c sl) (UNode n c (set_nth k (Some (e, s')) sl)).
Proof.
  intros Hk [RL [[Dm [RD FD]] [Em [RP FE]]]].
  destruct (kids_of_set_nth_some sl k (e, s) (e, s') Hk) as [A [B [K1 [K2 _]]]].
  assert (NE : kids_of sl <> []) by (rewrite K1; destruct A; discriminate).
  assert (NE' : kids_of (set_nth k (Some (e, s')) sl) <> []) by (rewrite K2; destruct A; discriminate).
  unfold restr. rewrite !leaves_unfold, !depths_unfold, !pairdists_unfold.
  rewrite (nonnil_match _ _ _ NE), (nonnil_match _ _ _ NE').
  rewrite (nonnil_match (kids_of sl) [(n, 0%Q)] _ NE),
          (nonnil_match (kids_of (set_nth k (Some (e, s')) sl)) [(n, 0%Q)] _ NE').
  rewrite K1, K2. rewrite !kleaves_app, !kD_app, !kpd_app, !kleaves_cons. simpl kD. simpl kpd. cbn [fst snd].
  rewrite !concat_app. simpl concat.
  set (ds := shift (w e) (depths w s)). set (ds' := shift (w e) (depths w s')).
  set (dm := shift (w e) Dm).
  assert (Hds : deq ds (ds' ++ dm)).
  { unfold ds, ds', dm. rewrite <- shift_app. apply shift_deq; [reflexivity | exact RD]. }
  assert (Fdm : Forall (fun x => In (fst x) Rm) dm) by (apply (shift_names_Forall (fun x => In x Rm)); exact FD).
  split; [rewrite RL; perm|]. split.
  - exists dm. split; auto.
    transitivity (concat (kD w A) ++ (ds' ++ dm) ++ concat (kD w B)).
    + apply PermR_app; [exact pq_eq_Equivalence | reflexivity|].
      apply PermR_app; [exact pq_eq_Equivalence | exact Hds | reflexivity].
    + apply PermR_of_perm; [exact pq_eq_Equivalence|]. perm.
  - exists (symcross dm (concat (kD w A ++ kD w B)) ++ Em). split.
    + transitivity ((cross_all (kD w A ++ (ds' ++ dm) :: kD w B)) ++ kpd w A ++ (pairdists w s' ++ Em) ++ kpd w B).
      * apply dists_equiv_app.
        -- apply cross_all_deq. apply Forall2_app; [|constructor; [exact Hds|]].
           ++ induction (kD w A); constructor; auto; reflexivity.
           ++ induction (kD w B); constructor; auto; reflexivity.
        -- apply dists_equiv_app; [reflexivity|]. apply dists_equiv_app; [exact RP | reflexivity].
      * apply dists_equiv_perm.
        rewrite (cross_all_insert (kD w A) (ds' ++ dm) (kD w B)).
        rewrite (cross_all_insert (kD w A) ds' (kD w B)).
        rewrite symcross_app_l. perm.
    + apply Forall_app. split; auto. now apply symcross_ends.
Qed.

Lemma update_at_restr w Rm p : forall t s f s',
  node_at t p = Some s -> f s = Some s' -> restr w Rm s s' ->
  (wf_sub s = true -> wf_sub s' = true) -> (wf s = true -> wf s' = true) ->
  exists t', update_at p f t = Some t' /\ restr w Rm t t' /\ node_at t' p = Some s' /\
             (wf_sub t = true -> wf_sub t' = true) /\ (wf t = true -> wf t' = true) /\
             (p <> [] -> degree t' = degree t).
Proof.
  induction p as [|k r IH]; intros t s f s' Hn Hf He Hws Hw.
  - simpl in *. inversion Hn; subst. exists s'.
    split; [exact Hf|]. split; [exact He|]. split; [reflexivity|]. repeat split; auto. congruence.
  - destruct t as [n c sl]. simpl in Hn.
    destruct (nth_error sl k) as [[[e ch]|]|] eqn:Ek; try discriminate.
    destruct (IH ch s f s' Hn Hf He Hws Hw) as [ch' [U [E [N [W1 _]]]]].
    exists (UNode n c (set_nth k (Some (e, ch')) sl)).
    destruct (kids_of_set_nth_some sl k (e, ch) (e, ch') Ek) as [A [B [K1 [K2 K3]]]].
    assert (Hk : k < length sl) by (apply nth_error_Some; congruence).
    split; [|split; [|split; [|split; [|split]]]].
    + simpl. now rewrite Ek, U.
    + now apply (restr_step w Rm n c sl k e ch ch').
    + simpl. now rewrite nth_error_set_nth_same.
    + rewrite !wf_sub_unfold, K1, K2, K3. intros H. apply andb_true_iff in H as [H1 H2].
      rewrite H1. simpl. eapply forallb_mid; eauto. simpl. apply W1.
      rewrite forallb_app in H2. apply andb_true_iff in H2 as [_ H2]. simpl in H2.
      now apply andb_true_iff in H2 as [H2 _].
    + rewrite !wf_unfold, K1, K2, K3. intros H. apply andb_true_iff in H as [H1 H2].
      rewrite H1. simpl. eapply forallb_mid; eauto. simpl. apply W1.
      rewrite forallb_app in H2. apply andb_true_iff in H2 as [_ H2]. simpl in H2.
      now apply andb_true_iff in H2 as [H2 _].
    + intros _. unfold degree. simpl. apply length_set_nth.
Qed.

Lemma restr_perm_r w Rm s s' s'' :
  restr w Rm s s' ->
  Permutation (leaves s'') (leaves s') -> dists_equiv (pairdists w s'') (pairdists w s') ->
  Permutation (leaves s) (leaves s'' ++ Rm) /\
  exists Em, dists_equiv (pairdists w s) (pairdists w s'' ++ Em) /\ Forall (ends_in Rm) Em.
Proof.
  intros [RL [_ [Em [RP FE]]]] L P. split; [now rewrite L|].
  exists Em. split; auto. etransitivity; [exact RP|]. apply dists_equiv_app; [now symmetry | reflexivity].
Qed.

Lemma restr_perm_l w Rm s0 s s' :
  Permutation (leaves s0) (leaves s) -> dists_equiv (pairdists w s0) (pairdists w s) ->
  (Permutation (leaves s) (leaves s' ++ Rm) /\
   exists Em, dists_equiv (pairdists w s) (pairdists w s' ++ Em) /\ Forall (ends_in Rm) Em) ->
  Permutation (leaves s0) (leaves s' ++ Rm) /\
  exists Em, dists_equiv (pairdists w s0) (pairdists w s' ++ Em) /\ Forall (ends_in Rm) Em.
Proof.
  intros L P [RL [Em [RP FE]]]. split; [now rewrite L|].
  exists Em. split; auto. etransitivity; eauto.
Qed.

(** * what a success with removal is made of *)
Lemma reroot_outgroup_remove_inv strict t names t' :
  reroot_outgroup true strict t names = Ok t' ->
  let t1 := unroot t in
  let grp := group t1 names in
  exists q lf v p es diff pp ks lower P,
    grp <> [] /\
    find (fun pn => negb (smem (uname (snd pn)) grp)) (tip_paths t1) = Some (q, lf) /\
    view_from t1 q = Some v /\
    lca_rec grp (length grp) (tv_tree v) = LFound p es diff /\
    (diff = 0 \/ strict = false) /\
    root_edge (tv_tree v) p es = Ok (pp, ks, lower) /\
    node_at (tv_tree v) pp = Some P /\
    ((lower = true /\ 2 <= degree P - 1 /\
      exists t3, update_at pp (fun P => Some (UNode (uname P) (ucom P) (remove_nth ks (uslots P)))) (tv_tree v) = Some t3 /\
                 reroot_path t3 pp = Some t') \/
     (lower = false /\
      exists e nc cc slc, nth_error (uslots P) ks = Some (Some (e, UNode nc cc slc)) /\
                          2 <= length (drop_up slc) /\ t' = UNode nc cc (drop_up slc))).
Proof.
  unfold reroot_outgroup. intros H. cbv zeta in *.
  destruct (Nat.ltb (length (tips t)) 3); [discriminate|].
  set (t1 := unroot t) in *. set (grp := group t1 names) in *.
  destruct (has_dup (node_names t1)) eqn:Hdup; [discriminate|].
  destruct (Nat.eqb (length grp) 0) eqn:Hk; [discriminate|].
  destruct (find _ (tip_paths t1)) as [[q lf]|] eqn:Hf; [|discriminate].
  destruct (view_from t1 q) as [v|] eqn:Hv; [|discriminate].
  destruct (is_tip (tv_tree v)) eqn:Ht; [discriminate|].
  destruct (lca_rec grp (length grp) (tv_tree v)) as [p es diff|] eqn:Hl; [|discriminate].
  destruct (negb (Nat.eqb diff 0) && strict) eqn:Hs; [discriminate|].
  destruct (root_edge (tv_tree v) p es) as [[[pp ks] lower]|] eqn:Hr; [|discriminate].
  destruct (node_at (tv_tree v) pp) as [P|] eqn:HP; [|discriminate].
  exists q, lf, v, p, es, diff, pp, ks, lower, P.
  split; [intros E; rewrite E in Hk; discriminate|].
  split; [first [reflexivity | exact Hf]|]. split; [first [reflexivity | exact Hv]|]. split; [first [reflexivity | exact Hl]|].
  split; [apply andb_false_iff in Hs as [Hs|Hs]; [left; apply negb_false_iff, Nat.eqb_eq in Hs; auto | right; auto]|].
  split; [first [reflexivity | exact Hr]|]. split; [first [reflexivity | exact HP]|].
  destruct lower.
  - left. split; auto.
    destruct (Nat.ltb (degree P - 1) 2) eqn:Ed; [discriminate|]. apply Nat.ltb_ge in Ed. split; auto.
    destruct (update_at pp _ (tv_tree v)) as [t3|] eqn:Eu; [|discriminate].
    destruct (reroot_path t3 pp) as [t4|] eqn:Er; [|discriminate].
    inversion H; subst. eauto.
  - right. split; auto.
    destruct (nth_error (uslots P) ks) as [[[e [nc cc slc]]|]|] eqn:Ek; try discriminate.
    destruct (Nat.ltb (length (drop_up slc)) 2) eqn:Ed; [discriminate|]. apply Nat.ltb_ge in Ed.
    inversion H; subst. exists e, nc, cc, slc. auto.
Qed.

(** keeping one child of the root and dropping everything else *)
Lemma keep_child_restr w n c sl k e ch t' :
  nth_error sl k = Some (Some (e, ch)) ->
  leaves t' = leaves ch -> pairdists w t' = pairdists w ch ->
  let Rm := slot_leaves (remove_nth k sl) in
  Permutation (leaves (UNode n c sl)) (leaves t' ++ Rm) /\
  exists Em, dists_equiv (pairdists w (UNode n c sl)) (pairdists w t' ++ Em) /\ Forall (ends_in Rm) Em.
Proof.
  intros Hk Lt Pt Rm.
  destruct (kids_of_remove_nth sl k (e, ch) Hk) as [A [B [K1 [K2 _]]]].
  assert (NE : kids_of sl <> []) by (rewrite K1; destruct A; discriminate).
  split.
  - rewrite (leaves_node n c sl NE). fold (slot_leaves sl). rewrite Lt. now apply (slot_leaves_remove sl k e ch).
  - rewrite Pt, pairdists_unfold, K1. rewrite !kD_app, !kpd_app. simpl kD. simpl kpd. cbn [fst snd].
    set (dch := shift (w e) (depths w ch)).
    exists (symcross dch (concat (kD w A ++ kD w B)) ++ cross_all (kD w A ++ kD w B) ++ kpd w A ++ kpd w B).
    assert (RmE : Rm = kleaves A ++ kleaves B).
    { unfold Rm, slot_leaves. now rewrite K2, kleaves_app. }
    assert (FD : Forall (Forall (fun x => In (fst x) Rm)) (kD w A ++ kD w B)).
    { rewrite RmE. apply Forall_app. split; unfold kD; apply Forall_forall; intros d Hd;
        apply in_map_iff in Hd as [[e' c'] [<- Hin]];
        apply (shift_names_Forall (fun x => In x (kleaves A ++ kleaves B)));
        (eapply Forall_impl; [|apply depths_names_in]); intros y Hy; apply in_or_app; [left|right];
        unfold kleaves; apply in_flat_map; exists (e', c'); auto. }
    split.
    + apply dists_equiv_perm. rewrite (cross_all_insert (kD w A) dch (kD w B)). perm.
    + apply Forall_app. split; [|apply Forall_app; split; [|apply Forall_app; split]].
      * eapply Forall_impl; [|apply (cross_ends_sym Rm dch (concat (kD w A ++ kD w B)))].
        -- intros y Hy. exact Hy.
        -- now apply Forall_concat.
      * eapply Forall_impl; [|apply (cross_all_ends (fun x => In x Rm) _ FD)]. intros y [H1 _]. now left.
      * unfold kpd. apply Forall_forall. intros y Hy. apply in_flat_map in Hy as [[e' c'] [Hin Hy]].
        pose proof (pairdists_names_in w c') as F. rewrite Forall_forall in F. destruct (F _ Hy) as [H1 _].
        left. rewrite RmE. apply in_or_app. left. unfold kleaves. apply in_flat_map. exists (e', c'). auto.
      * unfold kpd. apply Forall_forall. intros y Hy. apply in_flat_map in Hy as [[e' c'] [Hin Hy]].
        pose proof (pairdists_names_in w c') as F. rewrite Forall_forall in F. destruct (F _ Hy) as [H1 _].
        left. rewrite RmE. apply in_or_app. right. unfold kleaves. apply in_flat_map. exists (e', c'). auto.
Qed.
