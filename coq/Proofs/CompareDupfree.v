(** C08, part 6: in an unrooted tree of the domain (root of degree >= 3, no node with a single
    child, distinct tip names) two different branches never define the same bipartition. *)
From Coq Require Import String NArith ZArith QArith Bool Arith Lia List Permutation Sorted.
From GT Require Import Base.UTree Spec.Obs Spec.CompareSpec Model.Reroot Model.Index
     Proofs.IndexBase Proofs.IndexTree Proofs.IndexSplit Proofs.Splits Proofs.USplits
     Proofs.CompareBase Proofs.CompareTree Proofs.CompareMain Proofs.CompareCor Proofs.CompareDomain.
Import ListNotations.
Local Close Scope Q_scope.
Local Arguments leaves : simpl never.

Definition slot_edges (s : slot) : list (einfo * utree) :=
  match s with
  | Some (e, c) => (e, c) :: (if Nat.ltb 1 (degree c) then edges_below c else [])
  | None => []
  end.

Lemma edges_below_unfold n cm sl : edges_below (UNode n cm sl) = flat_map slot_edges sl.
Proof. reflexivity. Qed.

Definition Rsp (all : list string) (a b : einfo * utree) : Prop := ~ same_split all (EL a) (EL b).

Lemma FOP_app {A} (R : A -> A -> Prop) l1 l2 :
  ForallOrdPairs R l1 -> ForallOrdPairs R l2 -> (forall x y, In x l1 -> In y l2 -> R x y) ->
  ForallOrdPairs R (l1 ++ l2).
Proof.
  induction 1 as [|a l Ha Hl IH]; simpl; intros H2 HX; auto.
  constructor.
  - apply Forall_app. split; [exact Ha|]. apply Forall_forall. intros y Hy. apply HX; simpl; auto.
  - apply IH; [assumption|]. intros x y Hx Hy. apply HX; simpl; auto.
Qed.

Lemma FOP_NoDup_map {A B} (R : A -> A -> Prop) (f : A -> B) l :
  ForallOrdPairs R l -> (forall x y, In x l -> In y l -> f x = f y -> ~ R x y) -> NoDup (map f l).
Proof.
  induction 1 as [|a l Ha Hl IH]; simpl; intros H; constructor.
  - intro Hin. apply in_map_iff in Hin. destruct Hin as (y & E & Hy).
    rewrite Forall_forall in Ha. apply (H a y); simpl; auto.
  - apply IH. intros x y Hx Hy. apply H; simpl; auto.
Qed.

Lemma same_side_length all A B :
  same_side all A B -> incl A all -> incl B all -> NoDup A -> NoDup B -> length A = length B.
Proof.
  intros S IA IB NA NB. apply Permutation_length. apply NoDup_Permutation; auto.
  intros x. split; intros Hx.
  - apply (S x); auto.
  - apply (S x); auto.
Qed.

(** facts about the branches listed below one child slot *)
Lemma slot_edges_facts e c ec :
  wf_sub c = true -> In ec (slot_edges (Some (e, c))) ->
  incl (EL ec) (leaves c) /\ EL ec <> [] /\ wf_sub (snd ec) = true /\
  (ec = (e, c) \/ In ec (edges_below c)).
Proof.
  intros W Hin. simpl in Hin. destruct Hin as [<-|Hin].
  - unfold EL. simpl. repeat split; auto.
    + apply incl_refl.
    + apply (sub_spec [] c W).
  - destruct (Nat.ltb 1 (degree c)); [|destruct Hin].
    assert (Wc : children_wf (uslots c) = true) by (destruct c; apply wf_sub_inv in W; apply W).
    pose proof (edges_below_wf c ec Wc Hin) as Wec.
    repeat split; auto.
    + apply edges_below_leaves. exact Hin.
    + apply (sub_spec [] _ Wec).
Qed.

Lemma sub_leaves_in (sl : list slot) e c x : In (Some (e, c)) sl -> In x (leaves c) -> In x (sub_leaves sl).
Proof. intros Hs Hx. unfold sub_leaves. apply in_flat_map. exists (Some (e, c)). auto. Qed.

Lemma flat_slot_edges_in sl ec :
  In ec (flat_map slot_edges sl) -> exists e c, In (Some (e, c)) sl /\ In ec (slot_edges (Some (e, c))).
Proof.
  intros H. apply in_flat_map in H. destruct H as ([[e c]|] & Hs & Hin); [|destruct Hin]. eauto.
Qed.

(** the branches below the children [sl] of a node: pairwise different bipartitions of [all],
    provided a taxon exists outside these children or there are at least three of them *)
Lemma node_pairs all : forall (sl : list slot),
    children_wf sl = true ->
    (forall e c, In (Some (e, c)) sl -> no_single_sub c = true) ->
    NoDup (sub_leaves sl) -> incl (sub_leaves sl) all ->
    ((exists z, In z all /\ ~ In z (sub_leaves sl)) \/ 3 <= length (kids_of sl)) ->
    (forall e c, In (Some (e, c)) sl -> (exists z, In z all /\ ~ In z (leaves c)) ->
                 ForallOrdPairs (Rsp all) (edges_below c)) ->
    ForallOrdPairs (Rsp all) (flat_map slot_edges sl).
Proof.
  induction sl as [|s r IH]; intros W NS ND I Z CH; [constructor|].
  destruct s as [[e c]|].
  2:{ simpl. apply IH; auto.
      - intros e c H. apply (NS e c). now right.
      - intros e c H. apply (CH e c). now right. }
  simpl in W. apply andb_prop in W. destruct W as [Wc Wr].
  assert (SL : sub_leaves (Some (e, c) :: r) = leaves c ++ sub_leaves r) by reflexivity.
  rewrite SL in *.
  assert (NEc : leaves c <> []) by apply (sub_spec [] c Wc).
  assert (NDc : NoDup (leaves c)) by (eapply nodup_app_l; eauto).
  assert (NDr : NoDup (sub_leaves r)) by (eapply nodup_app_r; eauto).
  assert (DIS : forall x, In x (leaves c) -> In x (sub_leaves r) -> False) by (intros x; apply NoDup_app_disjoint; auto).
  (* a taxon outside the child c *)
  assert (Zc : exists z, In z all /\ ~ In z (leaves c)).
  { destruct Z as [(z & Hz & Nz)|K3].
    - exists z. split; auto. intro. apply Nz. apply in_or_app. now left.
    - simpl in K3. pose proof (kids_leaves_ge r Wr) as KL.
      destruct (sub_leaves r) as [|z zs] eqn:Er; [simpl in KL; lia|].
      exists z. split.
      + apply I. apply in_or_app. right. now left.
      + intro Hz. apply (DIS z Hz). now left. }
  change (flat_map slot_edges (Some (e, c) :: r)) with (slot_edges (Some (e, c)) ++ flat_map slot_edges r).
  apply FOP_app.
  - (* the branch to c and the branches below c *)
    simpl. constructor.
    + apply Forall_forall. intros y Hy. destruct (Nat.ltb 1 (degree c)); [|destruct Hy].
      assert (Wcc : children_wf (uslots c) = true) by (destruct c; apply wf_sub_inv in Wc; apply Wc).
      pose proof (edges_below_leaves c y Hy) as Iy.
      pose proof (edges_below_wf c y Wcc Hy) as Wy.
      destruct (sub_sizes c Wc (NS e c (or_introl eq_refl))) as [_ S2]. specialize (S2 y Hy).
      assert (NEy : EL y <> []) by apply (sub_spec [] _ Wy).
      unfold Rsp, EL at 1. simpl snd. intros [S|O].
      * assert (length (leaves c) = length (EL y)).
        { apply (same_side_length all); auto.
          - intros x Hx. apply I. apply in_or_app. now left.
          - intros x Hx. apply I. apply in_or_app. left. now apply Iy.
          - apply (edges_below_nodup c y NDc Hy). }
        lia.
      * destruct (EL y) as [|x xs] eqn:Ey; [congruence|].
        assert (Hx : In x (leaves c)) by (apply Iy; unfold EL in Ey; rewrite Ey; now left).
        assert (Ha : In x all) by (apply I; apply in_or_app; now left).
        apply (O x Ha) in Hx. apply Hx. now left.
    + destruct (Nat.ltb 1 (degree c)); [|constructor].
      apply (CH e c); auto. now left.
  - (* the other children *)
    apply IH; auto.
    + intros e' c' H. apply (NS e' c'). now right.
    + intros x Hx. apply I. apply in_or_app. now right.
    + left. destruct (leaves c) as [|z zs] eqn:Ec; [congruence|]. exists z. split.
      * apply I. apply in_or_app. left. now left.
      * intro Hz. apply (DIS z); auto. now left.
    + intros e' c' H. apply (CH e' c'). now right.
  - (* a branch at or below c against a branch at or below a later child *)
    intros x y Hx Hy.
    destruct (slot_edges_facts e c x Wc Hx) as (Ix & NEx & _ & _).
    destruct (flat_slot_edges_in r y Hy) as (e2 & c2 & Hs2 & Hy2).
    pose proof (children_wf_in _ _ _ Wr Hs2) as Wc2.
    destruct (slot_edges_facts e2 c2 y Wc2 Hy2) as (Iy & NEy & _ & _).
    assert (Iy' : incl (EL y) (sub_leaves r)) by (intros a Ha; eapply sub_leaves_in; eauto).
    unfold Rsp. intros [S|O].
    + destruct (EL x) as [|a xs] eqn:Ex; [congruence|].
      assert (Ha : In a (leaves c)) by (apply Ix; now left).
      assert (Hall : In a all) by (apply I; apply in_or_app; now left).
      apply (DIS a Ha). apply Iy'. apply (S a Hall). now left.
    + (* a taxon outside both *)
      assert (Zxy : exists z, In z all /\ ~ In z (EL x) /\ ~ In z (EL y)).
      { destruct Z as [(z & Hz & Nz)|K3].
        - exists z. repeat split; auto; intro H; apply Nz; apply in_or_app; [left|right]; auto.
        - simpl in K3.
          destruct (split_child r e2 c2 Hs2 Wr) as (pre & post & _ & SLr & KL & KO).
          destruct (sub_leaves pre ++ sub_leaves post) as [|z zs] eqn:Eo; [simpl in KO; lia|].
          assert (Hz : In z (sub_leaves pre ++ sub_leaves post)) by (rewrite Eo; now left).
          assert (Hzr : In z (sub_leaves r)).
          { rewrite SLr. apply in_app_or in Hz. apply in_or_app. destruct Hz; [now left|]. right. apply in_or_app. now right. }
          exists z. repeat split.
          + apply I. apply in_or_app. now right.
          + intro H. apply (DIS z); auto.
          + intro H. apply Iy in H. rewrite SLr in NDr.
            (* z is in pre/post and in c2: contradicts NoDup *)
            apply in_app_or in Hz. destruct Hz as [Hz|Hz].
            * apply (NoDup_app_disjoint _ _ z NDr Hz). apply in_or_app. now left.
            * apply nodup_app_r in NDr. apply (NoDup_app_disjoint _ _ z NDr H Hz). }
      destruct Zxy as (z & Hz & Nx & Ny). apply Ny. destruct (In_dec_str z (EL y)) as [|N]; auto.
      exfalso. apply Nx. apply (O z Hz). exact N.
Qed.

(** inside a subtree that does not hold all the taxa *)
Lemma sub_pairs all u :
  wf_sub u = true -> no_single_sub u = true -> NoDup (leaves u) -> incl (leaves u) all ->
  (exists z, In z all /\ ~ In z (leaves u)) ->
  ForallOrdPairs (Rsp all) (edges_below u).
Proof.
  induction u as [n cm sl IH] using utree_ind'. intros W NS ND I Z.
  pose proof W as W'. apply wf_sub_inv in W'. destruct W' as [Hup Hch].
  destruct (no_single_sub_inv _ _ _ NS) as [_ NSc].
  rewrite edges_below_unfold.
  destruct (kids_of sl) eqn:K.
  - assert (E : flat_map slot_edges sl = []).
    { clear - K. unfold kids_of in K. induction sl as [|[[e c]|] r IHr]; simpl in *; auto. discriminate. }
    rewrite E. constructor.
  - rewrite leaves_node in * by (rewrite K; discriminate).
    apply node_pairs; auto.
    intros e c Hs Zc. rewrite Forall_forall in IH. specialize (IH _ Hs). simpl in IH.
    assert (Wc : wf_sub c = true) by apply (children_wf_in _ _ _ Hch Hs).
    assert (NSc' : no_single_sub c = true) by apply (NSc _ _ Hs).
    assert (Ic : incl (leaves c) all) by (intros x Hx; apply I; eapply sub_leaves_in; eauto).
    assert (NDc : NoDup (leaves c)).
    { apply in_split in Hs. destruct Hs as (pre & post & ->). rewrite sub_leaves_split in ND.
      apply nodup_app_r in ND. apply nodup_app_l in ND. exact ND. }
    exact (IH Wc NSc' NDc Ic Zc).
Qed.

Theorem unrooted_pairs t : unrooted t -> ForallOrdPairs (Rsp (leaves t)) (edges t).
Proof.
  intros U. destruct (unrooted_children t U) as (Hch & Hup & NSc & K3).
  destruct U as ((W & D & ND) & _ & _).
  destruct t as [n cm sl]. simpl uslots in *. unfold edges. rewrite edges_below_unfold.
  assert (E : leaves (UNode n cm sl) = sub_leaves sl) by (apply leaves_node; intro Z; rewrite Z in K3; simpl in K3; lia).
  rewrite E in *.
  apply node_pairs; auto.
  - apply incl_refl.
  - intros e c Hs Zc.
    assert (Wc : wf_sub c = true) by apply (children_wf_in _ _ _ Hch Hs).
    assert (NSc' : no_single_sub c = true) by apply (NSc _ _ Hs).
    assert (Ic : incl (leaves c) (sub_leaves sl)) by (intros x Hx; eapply sub_leaves_in; eauto).
    assert (NDc : NoDup (leaves c)).
    { apply in_split in Hs. destruct Hs as (pre & post & ->). rewrite sub_leaves_split in ND.
      apply nodup_app_r in ND. apply nodup_app_l in ND. exact ND. }
    exact (sub_pairs _ c Wc NSc' NDc Ic Zc).
Qed.

Theorem unrooted_dupfree t : unrooted t -> dupfree t.
Proof.
  intros U. pose proof (unrooted_pairs t U) as FOP.
  destruct (unrooted_children t U) as (Hch & _ & _ & _).
  unfold dupfree. rewrite (branch_splits_edges _ _ Hch). rewrite map_map. fold (edges t).
  apply (FOP_NoDup_map (Rsp (leaves t))); auto.
  intros x y Hx Hy E. unfold Rsp. intro N. apply N.
  unfold split_of in E. simpl in E. unfold tipset in E.
  apply (canon_same_split (leaves t)) in E; auto.
  - apply (edges_below_leaves t x Hx).
  - apply (edges_below_leaves t y Hy).
Qed.

(** the main statement of C08 on the domain of the property *)
Corollary compare_counts_unrooted tips t1 t2 :
  unrooted t1 -> unrooted t2 -> Permutation (leaves t1) (leaves t2) ->
  Model.Compare.compare tips false t1 t2 =
  Some (Ok (Model.Compare.mkBS (Z.of_nat (c_only1 (spec_counts tips t1 t2)))
                               (Z.of_nat (c_only2 (spec_counts tips t1 t2)))
                               (Z.of_nat (c_both (spec_counts tips t1 t2)))
                               (spec_identical tips t1 t2) EmptyString)).
Proof.
  intros U1 U2 P. apply compare_counts; auto.
  - apply U1.
  - apply U2.
  - now apply unrooted_dupfree.
  - now apply unrooted_dupfree.
  - now apply unrooted_tipflags.
  - now apply unrooted_tipflags.
Qed.

(** the domain is inhabited: ((a,b),c,d) and (a,b,c,d) *)
Lemma domain_inhabited : unrooted wit_ref /\ unrooted wit_star /\ Permutation (leaves wit_ref) (leaves wit_star).
Proof.
  assert (N : NoDup ["a"; "b"; "c"; "d"]%string).
  { repeat constructor; simpl; intuition discriminate. }
  assert (L1 : leaves wit_ref = ["a"; "b"; "c"; "d"]%string) by (vm_compute; reflexivity).
  assert (L2 : leaves wit_star = ["a"; "b"; "c"; "d"]%string) by (vm_compute; reflexivity).
  unfold unrooted, good. rewrite L1, L2.
  repeat split; try exact N; try (vm_compute; reflexivity); try (unfold degree; simpl; lia); try apply Permutation_refl.
Qed.
