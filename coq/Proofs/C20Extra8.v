(** C20, round 8: the clause "every input element has a non-zero chance of being selected", for
    every input size n and sample size k, about the loops of cmd/sample.go and cmd/prune.go
    randomTips (Model/Sampling.v), and the exact inclusion probability k/n of every item in the
    selection without replacement. *)
From Coq Require Import String Bool Arith Lia List Permutation.
From GT Require Import Base.UTree Model.Reroot Model.Rand Model.Sampling Spec.Counting
     Proofs.SamplingBase Proofs.SamplingCount Proofs.SamplingRes Proofs.SamplingCode Proofs.SamplingRepl Proofs.SamplingEdge.
Import ListNotations.

(** item [x] is one of the selected items *)
Definition selected (x : nat) (o : option (list (option nat))) : bool :=
  match o with
  | Some out => existsb (onat_eqb (Some x)) out
  | None => false
  end.

(** ** k-subsets: there is one for every k <= length, and one through every element when 1 <= k *)
Lemma subsets_S_cons k y r :
  subsets (S k) (y :: r) = map (cons y) (subsets k r) ++ subsets (S k) r.
Proof. reflexivity. Qed.

Lemma subsets_nonempty : forall l k, k <= length l -> exists s, In s (subsets k l).
Proof.
  induction l as [|a l IH]; intros [|k] H.
  - exists []. now left.
  - simpl in H. lia.
  - exists []. now left.
  - simpl in H. destruct (IH k) as [s Hs]; [lia|].
    exists (a :: s). rewrite subsets_S_cons. apply in_or_app. left. now apply in_map.
Qed.

Lemma subsets_cover : forall l k x, In x l -> 1 <= k -> k <= length l ->
  exists s, In s (subsets k l) /\ In x s.
Proof.
  induction l as [|y r IH]; intros k x Hin H1 H2; [destruct Hin|].
  destruct k as [|k']; [lia|]. simpl in H2. rewrite subsets_S_cons.
  destruct Hin as [->|Hin].
  - destruct (subsets_nonempty r k') as [s Hs]; [lia|].
    exists (x :: s). split; [apply in_or_app; left; now apply in_map|now left].
  - destruct (le_lt_dec (S k') (length r)) as [Hle|Hgt].
    + destruct (IH (S k') x Hin) as [s [Hs Hx]]; [lia|lia|].
      exists s. split; auto. apply in_or_app. now right.
    + destruct k' as [|k''].
      * destruct r as [|z r]; [destruct Hin|simpl in Hgt; lia].
      * destruct (IH (S k'') x Hin) as [s [Hs Hx]]; [lia|lia|].
        exists (y :: s). split; [apply in_or_app; left; now apply in_map|now right].
Qed.

Lemma out_set_selected s x o : In x s -> out_set_is s o = true -> selected x o = true.
Proof.
  destruct o as [out|]; simpl; [|discriminate]. intros Hin H.
  apply nat_list_eqb_eq in H. subst s.
  apply (Permutation_in _ (nsort_perm _)) in Hin. unfold filled in Hin.
  apply in_flat_map in Hin as [[y|] [Hy Hx]]; simpl in Hx; [destruct Hx as [<-|[]]|destruct Hx].
  apply existsb_exists. exists (Some y). split; auto. simpl. apply Nat.eqb_refl.
Qed.

Lemma count_where_le {A} (p q : A -> bool) l :
  (forall a, In a l -> q a = true -> p a = true) -> count_where q l <= count_where p l.
Proof.
  unfold count_where. induction l as [|a l IH]; intros H; simpl; auto.
  assert (IH' : length (filter q l) <= length (filter p l)) by (apply IH; intros; apply H; auto; now right).
  destruct (q a) eqn:Eq.
  - rewrite (H a (or_introl eq_refl) Eq). simpl. lia.
  - destruct (p a); simpl; lia.
Qed.

(** ** without replacement: every item is selected by at least (n-k)! > 0 of the choice vectors *)
Theorem noreplace_item_selectable n k x : 1 <= k -> k <= n -> x < n ->
  fact (n - k) <= count_where (fun cs => selected x (sample_noreplace k (seq 0 n) cs))
                              (all_choices (reservoir_bounds code_bound k n)).
Proof.
  intros H1 H2 Hx.
  destruct (subsets_cover (seq 0 n) k x) as [s [Hs Hin]]; auto.
  - apply in_seq. lia.
  - now rewrite seq_length.
  - rewrite <- (sample_noreplace_uniform n k s H1 H2 Hs).
    apply count_where_le. intros cs _ H. eapply out_set_selected; eauto.
Qed.

Theorem noreplace_item_witness n k x : 1 <= k -> k <= n -> x < n ->
  exists cs out, in_bounds cs (reservoir_bounds code_bound k n) /\
                 sample_noreplace k (seq 0 n) cs = Some out /\ In (Some x) out.
Proof.
  intros H1 H2 Hx. pose proof (noreplace_item_selectable n k x H1 H2 Hx) as H.
  pose proof (lt_O_fact (n - k)) as Hf.
  unfold count_where in H.
  destruct (filter (fun cs => selected x (sample_noreplace k (seq 0 n) cs))
                   (all_choices (reservoir_bounds code_bound k n))) as [|cs r] eqn:E; [simpl in H; lia|].
  assert (Hc : In cs (cs :: r)) by now left. rewrite <- E in Hc.
  apply filter_In in Hc as [Hc1 Hc2]. apply all_choices_in in Hc1.
  destruct (sample_noreplace k (seq 0 n) cs) as [out|] eqn:Eo; simpl in Hc2; [|discriminate].
  exists cs, out. split; auto. split; auto.
  apply existsb_exists in Hc2 as [[y|] [Hy Hxy]]; simpl in Hxy; [|discriminate].
  apply Nat.eqb_eq in Hxy. now subst y.
Qed.

(** ** without replacement: the exact inclusion probability of every item is k/n *)
Definition mem (x : nat) (l : list nat) : bool := existsb (Nat.eqb x) l.

Lemma mem_iff x l : mem x l = true <-> In x l.
Proof.
  unfold mem. rewrite existsb_exists. split.
  - intros [y [Hy E]]. apply Nat.eqb_eq in E. now subst.
  - intros H. exists x. split; auto. apply Nat.eqb_refl.
Qed.

Lemma mem_false x l : ~ In x l -> mem x l = false.
Proof. intros H. destruct (mem x l) eqn:E; auto. apply mem_iff in E. contradiction. Qed.

Lemma filter_all {A} (p : A -> bool) : forall l, (forall y, In y l -> p y = true) -> filter p l = l.
Proof.
  induction l as [|a l IH]; intros H; simpl; auto.
  rewrite (H a) by now left. f_equal. apply IH. intros; apply H; now right.
Qed.

Lemma count_neq x : forall l, NoDup l -> In x l ->
  count_where (fun y => negb (Nat.eqb y x)) l + 1 = length l.
Proof.
  unfold count_where. induction l as [|a l IH]; intros Hn Hin; [destruct Hin|].
  inversion Hn as [|? ? Hna Hn']; subst. simpl.
  destruct (Nat.eqb a x) eqn:E; simpl.
  - apply Nat.eqb_eq in E. subst a.
    assert (Hall : filter (fun y => negb (Nat.eqb y x)) l = l).
    { apply filter_all. intros y Hy.
      apply negb_true_iff, Nat.eqb_neq. intros ->. contradiction. }
    rewrite Hall. lia.
  - apply Nat.eqb_neq in E. destruct Hin as [Hin|Hin]; [contradiction|].
    specialize (IH Hn' Hin). lia.
Qed.

(** overwriting slot j with a new item keeps [x] iff [x] was there and was not in slot j *)
Lemma mem_set_nth x n j l : NoDup l -> j < length l -> x <> n -> In x l ->
  mem x (set_nth j n l) = negb (Nat.eqb (nth j l 0) x).
Proof.
  intros Hn Hj Hxn Hin.
  pose proof (set_nth_perm j n l Hj) as P1. pose proof (nth_perm j l Hj) as P2.
  assert (Hn2 : NoDup (nth j l 0 :: rem_nth j l)) by (eapply Permutation_NoDup; eauto).
  inversion Hn2 as [|? ? Hnot _]; subst.
  destruct (Nat.eqb (nth j l 0) x) eqn:E; simpl.
  - apply Nat.eqb_eq in E. apply mem_false. intros H.
    eapply Permutation_in in H; [|exact P1]. destruct H as [H|H]; [congruence|].
    rewrite E in Hnot. contradiction.
  - apply Nat.eqb_neq in E. apply mem_iff.
    eapply Permutation_in in Hin; [|exact P2]. destruct Hin as [Hin|Hin]; [contradiction|].
    eapply Permutation_in; [symmetry; exact P1|]. now right.
Qed.

Lemma inclusion_count k : forall d x, x < k + d ->
  count_where (fun cs => mem x (content k d cs)) (all_choices (map std_bound (seq k d))) * (k + d)
  = k * prod (map std_bound (seq k d)).
Proof.
  induction d as [|d IH]; intros x Hx.
  - simpl. unfold count_where, content. simpl.
    assert (E : mem x (seq 0 k) = true) by (apply mem_iff, in_seq; lia).
    rewrite E. simpl. lia.
  - rewrite std_bounds_S, count_where_all_choices_snoc, prod_app.
    remember (k + d) as n eqn:En.
    assert (Hseq : seq 0 (S n) = seq 0 k ++ seq k (S d)).
    { rewrite En, <- Nat.add_succ_r. apply seq_app. }
    replace (prod [S n]) with (S n) by (unfold prod; simpl; lia).
    replace (k + S d) with (S n) by lia.
    destruct (Nat.eq_dec x n) as [->|Hne].
    + (* the new item: selected iff the last draw falls in the reservoir *)
      rewrite (sum_over_ext _ (fun _ => k)).
      * rewrite sum_over_const, all_choices_length. lia.
      * intros cs Hcs. apply std_choice_length in Hcs.
        pose proof (content_inv k d cs) as [Il [In_ If]]. rewrite <- En in If.
        set (l := content k d cs) in *.
        rewrite (count_where_ext _ (fun j => mem n (step k l n j))).
        2:{ intros j _. rewrite content_S by auto. fold l. now rewrite <- En. }
        rewrite Hseq, count_where_app.
        rewrite (count_where_ext _ (fun _ => true) (seq 0 k)).
        2:{ intros j Hj. apply in_seq in Hj. unfold step.
            assert (E : Nat.ltb j k = true) by (apply Nat.ltb_lt; lia). rewrite E.
            apply mem_iff. eapply Permutation_in; [symmetry; apply set_nth_perm; lia|now left]. }
        rewrite (count_where_false _ (seq k (S d))).
        2:{ intros j Hj. apply in_seq in Hj. unfold step.
            assert (E : Nat.ltb j k = false) by (apply Nat.ltb_ge; lia). rewrite E.
            apply mem_false. intros Hc. rewrite Forall_forall in If. apply If in Hc. lia. }
        rewrite count_where_const, seq_length. simpl. lia.
    + (* an earlier item: it survives n of the n+1 values of the last draw *)
      assert (Hx' : x < n) by lia.
      rewrite (sum_over_ext _ (fun cs => n * b2n (mem x (content k d cs)))).
      * rewrite sum_over_mul_l, sum_over_b2n.
        specialize (IH x). try rewrite <- En in IH. specialize (IH Hx'). nia.
      * intros cs Hcs. apply std_choice_length in Hcs.
        pose proof (content_inv k d cs) as [Il [In_ If]]. rewrite <- En in If.
        set (l := content k d cs) in *.
        rewrite (count_where_ext _ (fun j => mem x (step k l n j))).
        2:{ intros j _. rewrite content_S by auto. fold l. now rewrite <- En. }
        destruct (in_dec Nat.eq_dec x l) as [Hin|Hnin].
        -- assert (E1 : mem x l = true) by now apply mem_iff. rewrite E1.
           rewrite Hseq, count_where_app.
           rewrite (count_where_ext _ (fun j => negb (Nat.eqb (nth j l 0) x)) (seq 0 k)).
           2:{ intros j Hj. apply in_seq in Hj. unfold step.
               assert (E : Nat.ltb j k = true) by (apply Nat.ltb_lt; lia). rewrite E.
               apply mem_set_nth; auto; lia. }
           rewrite (count_where_ext _ (fun _ => true) (seq k (S d))).
           2:{ intros j Hj. apply in_seq in Hj. unfold step.
               assert (E : Nat.ltb j k = false) by (apply Nat.ltb_ge; lia). now rewrite E. }
           rewrite count_where_const, seq_length.
           rewrite <- Il at 1.
           rewrite <- (count_where_map (fun y => negb (Nat.eqb y x)) (fun j => nth j l 0)).
           rewrite map_nth_seq.
           pose proof (count_neq x l In_ Hin) as Hc. simpl. lia.
        -- rewrite (mem_false x l Hnin). simpl. rewrite Nat.mul_0_r.
           apply count_where_false. intros j _. unfold step.
           destruct (Nat.ltb j k) eqn:E; [|now apply mem_false].
           apply Nat.ltb_lt in E. apply mem_false. intros Hc.
           eapply Permutation_in in Hc; [|apply set_nth_perm; lia].
           destruct Hc as [Hc|Hc]; [congruence|]. apply rem_nth_incl in Hc. contradiction.
Qed.

Lemma selected_map_Some x l : selected x (Some (map Some l)) = mem x l.
Proof.
  unfold selected, mem. induction l as [|a l IH]; simpl; auto. now rewrite IH.
Qed.

(** every item x of the n is in the selection for exactly the fraction k/n of the choice vectors:
    count * n = k * |space|  (k <= n; for k = 0 nothing is selected) *)
Theorem noreplace_inclusion_exact n k x : k <= n -> x < n ->
  count_where (fun cs => selected x (sample_noreplace k (seq 0 n) cs))
              (all_choices (reservoir_bounds code_bound k n)) * n
  = k * length (all_choices (reservoir_bounds code_bound k n)).
Proof.
  intros Hkn Hx. unfold reservoir_bounds, sample_noreplace, code_bound.
  set (d := n - k). replace n with (k + d) in * by (unfold d; lia).
  rewrite all_choices_length.
  rewrite (count_where_ext _ (fun cs => mem x (content k d cs))).
  - now apply inclusion_count.
  - intros cs Hcs. apply std_choice_length in Hcs.
    rewrite reservoir_runl by auto. apply selected_map_Some.
Qed.

(** ** with replacement: every item can fill every slot (all k slots at once) *)
Lemma in_bounds_repeat x n k : x < n -> in_bounds (repeat x k) (repeat n k).
Proof. intros H. induction k as [|k IH]; simpl; constructor; auto. Qed.

Theorem replace_item_selectable n k x : x < n ->
  0 < count_where (fun cs => out_is (repeat x k) (sample_replace k (seq 0 n) cs))
                  (all_choices (replace_bounds k n)).
Proof.
  intros Hx. rewrite sample_replace_uniform; [|lia|now apply in_bounds_repeat].
  apply Nat.neq_0_lt_0, Nat.pow_nonzero, fact_neq_0.
Qed.

(** ** the same on the items themselves (tree files, tip names): prune --random on a tree *)
Local Open Scope string_scope.
Definition selected_name (nm : string) (o : option (list (option string))) : bool :=
  match o with
  | Some out => existsb (fun s => match s with Some y => String.eqb y nm | None => false end) out
  | None => false
  end.

Lemma reservoir_shape n k cs : k <= n -> In cs (all_choices (reservoir_bounds std_bound k n)) ->
  exists l, reservoir std_bound k (seq 0 n) cs = Some (map Some l) /\ Forall (fun x => x < n) l.
Proof.
  intros Hkn Hcs. unfold reservoir_bounds in Hcs.
  remember (n - k) as d eqn:Ed. assert (En : n = k + d) by lia. subst n. clear Ed.
  apply std_choice_length in Hcs. exists (content k d cs). split.
  - now apply reservoir_runl.
  - apply content_inv.
Qed.

Lemma selected_name_positions (names : list string) i : NoDup names -> i < length names ->
  forall l, Forall (fun x => x < length names) l ->
    selected_name (nth i names "")
      (option_map (map (option_map (fun j => nth j names ""))) (Some (map Some l))) = mem i l.
Proof.
  intros Hn Hi. induction l as [|a l IH]; intros Hf; [reflexivity|].
  inversion Hf as [|? ? Ha Hf']; subst. specialize (IH Hf').
  simpl in *. rewrite IH. f_equal.
  destruct (Nat.eqb i a) eqn:E.
  - apply Nat.eqb_eq in E. subst. apply String.eqb_refl.
  - apply Nat.eqb_neq in E. apply String.eqb_neq. intros Heq. apply E.
    symmetry. eapply (proj1 (NoDup_nth names "") Hn); eauto.
Qed.

Theorem names_inclusion_exact (names : list string) k i :
  NoDup names -> k <= length names -> i < length names ->
  count_where (fun cs => selected_name (nth i names "") (reservoir code_bound k names cs))
              (all_choices (reservoir_bounds code_bound k (length names))) * length names
  = k * length (all_choices (reservoir_bounds code_bound k (length names))).
Proof.
  intros Hn Hk Hi.
  rewrite <- (noreplace_inclusion_exact (length names) k i Hk Hi). f_equal.
  apply count_where_ext. intros cs Hcs.
  assert (E : reservoir code_bound k names cs
              = option_map (map (option_map (fun j => nth j names "")))
                           (reservoir code_bound k (seq 0 (length names)) cs)).
  { rewrite <- reservoir_map. now rewrite map_nth_seq_str. }
  rewrite E. unfold sample_noreplace, code_bound in *.
  destruct (reservoir_shape (length names) k cs Hk Hcs) as [l [El Hf]].
  rewrite El, selected_map_Some. now apply selected_name_positions.
Qed.

Theorem random_tips_inclusion_exact k t i :
  NoDup (tip_names t) -> k <= length (tip_names t) -> i < length (tip_names t) ->
  count_where (fun cs => selected_name (nth i (tip_names t) "") (random_tips k t cs))
              (all_choices (reservoir_bounds code_bound k (length (tip_names t)))) * length (tip_names t)
  = k * length (all_choices (reservoir_bounds code_bound k (length (tip_names t)))).
Proof. exact (names_inclusion_exact (tip_names t) k i). Qed.

(** ** all sample sizes at once (k < n, k = n, k > n): inclusion probability min(k,n)/n *)
Theorem noreplace_inclusion_all_sizes n k x : x < n ->
  count_where (fun cs => selected x (sample_noreplace k (seq 0 n) cs))
              (all_choices (reservoir_bounds code_bound k n)) * n
  = Nat.min k n * length (all_choices (reservoir_bounds code_bound k n)).
Proof.
  intros Hx. destruct (le_lt_dec k n) as [Hle|Hgt].
  - rewrite Nat.min_l by auto. now apply noreplace_inclusion_exact.
  - rewrite Nat.min_r by lia.
    destruct (@reservoir_all nat code_bound k (seq 0 n)) as [Hb Hr]; [rewrite seq_length; lia|].
    rewrite seq_length in Hb. rewrite Hb. unfold count_where, sample_noreplace. simpl.
    rewrite Hr, selected_map_Some.
    assert (E : mem x (seq 0 n) = true) by (apply mem_iff, in_seq; lia).
    rewrite E. simpl. lia.
Qed.

Local Close Scope string_scope.

(** ** with replacement: each slot alone is uniform (marginal 1/n), any k, any slot *)
Definition slot_is (j x : nat) (o : option (list (option nat))) : bool :=
  match o with
  | Some out => onat_eqb (nth j out None) (Some x)
  | None => false
  end.

Lemma omatch_wild : forall m out, length out = m -> omatch (repeat None m) out = true.
Proof.
  induction m as [|m IH]; intros [|b out] H; simpl in *; try discriminate; auto.
Qed.

Lemma omatch_slot : forall j m x out, length out = j + S m ->
  omatch (repeat None j ++ Some x :: repeat None m) out = onat_eqb (nth j out None) (Some x).
Proof.
  induction j as [|j IH]; intros m x [|b out] H; simpl in *; try lia.
  - rewrite omatch_wild by lia. apply andb_true_r.
  - apply IH. lia.
Qed.

Lemma prod_wgt_wild n m : prod (map (wgt n) (repeat None m)) = fact n ^ m.
Proof.
  induction m as [|m IH]; [reflexivity|].
  simpl repeat. simpl map. unfold prod in *. simpl fold_right. rewrite IH. simpl. reflexivity.
Qed.

Lemma ovalid_wild n m : Forall (ovalid n) (repeat None m).
Proof. induction m; simpl; constructor; simpl; auto. Qed.

Theorem replace_slot_marginal n k j x : j < k -> x < n ->
  count_where (fun cs => slot_is j x (sample_replace k (seq 0 n) cs)) (all_choices (replace_bounds k n)) * n
  = length (all_choices (replace_bounds k n)).
Proof.
  intros Hj Hx. rewrite replace_space_size.
  set (m := k - S j). assert (Ek : k = j + S m) by (unfold m; lia).
  set (t := repeat None j ++ Some x :: repeat None m).
  rewrite (count_where_ext _ (fun cs => omatch_o t (sample_replace k (seq 0 n) cs))).
  2:{ intros cs Hcs. apply all_choices_in in Hcs.
      destruct (sample_replace_inv k n cs Hcs) as [o [Ho [Lo _]]]. rewrite Ho.
      unfold slot_is, omatch_o, t. symmetry. apply omatch_slot. lia. }
  rewrite replace_pattern_count.
  - unfold t. rewrite map_app, prod_app. simpl map.
    assert (Hp : forall a l, prod (a :: l) = a * prod l) by reflexivity.
    rewrite Hp, !prod_wgt_wild. simpl wgt.
    rewrite Ek, Nat.pow_add_r, Nat.pow_succ_r'.
    destruct n as [|n']; [lia|]. replace (S n' - 1) with n' by lia.
    assert (Hf : fact (S n') = S n' * fact n') by reflexivity.
    remember (fact (S n') ^ j) as A. remember (fact (S n') ^ m) as B.
    rewrite Hf. nia.
  - unfold t. rewrite app_length. simpl. rewrite !repeat_length. lia.
  - unfold t. apply Forall_app. split; [apply ovalid_wild|].
    constructor; [exact Hx|apply ovalid_wild].
Qed.
