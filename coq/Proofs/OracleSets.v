(** Sorted duplicate-free lists of names ([sset]), canonical sides of bipartitions, and the keys
    of [usplits]: the bipartitions of a tree are the canonical sides of its clades. *)
From Coq Require Import String ZArith QArith Bool Arith Lia List Permutation Sorted Setoid Morphisms.
From GT Require Import Base.UTree Spec.Obs Spec.Induced Model.Reroot Spec.Unrooted Proofs.RerootBase Proofs.PruneBase
     Proofs.CollapseBase Proofs.OracleDist.
From GT Require Proofs.MapOrder.
Import ListNotations.
Local Close Scope Q_scope.
Local Arguments leaves : simpl never.

(** * canonical lists: sorted and without repetition *)
Definition canon (l : list string) : Prop := StronglySorted sle l /\ NoDup l.

Lemma canon_ext l1 l2 : canon l1 -> canon l2 -> (forall x, In x l1 <-> In x l2) -> l1 = l2.
Proof.
  intros [S1 N1] [S2 N2] H. apply MapOrder.sorted_perm_unique; auto. now apply NoDup_Permutation.
Qed.

Lemma sinsert_In x l y : In y (sinsert x l) <-> y = x \/ In y l.
Proof.
  induction l as [|z r IH]; simpl; [intuition|].
  destruct (String.compare x z) eqn:E; simpl.
  - apply MapOrder.cmp_eq in E. subst. intuition.
  - intuition.
  - rewrite IH. intuition.
Qed.
Lemma sset_In l y : In y (sset l) <-> In y l.
Proof. induction l as [|x l IH]; simpl; [tauto|]. rewrite sinsert_In, IH. intuition. Qed.

Lemma sinsert_canon x l : canon l -> canon (sinsert x l).
Proof.
  intros [Hs Hn]. revert Hn. induction Hs as [|z r Hr IH Hz]; intros Hn; simpl; [split; repeat constructor; auto|].
  inversion Hn as [|? ? Hzr Hnr]; subst. specialize (IH Hnr). destruct IH as [IS IN].
  destruct (String.compare x z) eqn:E.
  - split; [constructor; auto | auto].
  - assert (Hxz : sle x z) by (unfold MapOrder.sle; congruence).
    split.
    + constructor; [constructor; auto|]. constructor; auto.
      eapply Forall_impl; [|exact Hz]. intros w Hw. eapply MapOrder.sle_trans; eauto.
    + constructor; auto. intros [Ezx|Hin].
      * subst. rewrite (proj2 (MapOrder.cmp_eq x x) eq_refl) in E. discriminate.
      * rewrite Forall_forall in Hz. specialize (Hz x Hin).
        assert (Exz : x = z) by (apply MapOrder.sle_antisym; auto). subst.
        rewrite (proj2 (MapOrder.cmp_eq z z) eq_refl) in E. discriminate.
  - assert (Hzx : sle z x).
    { apply MapOrder.cmp_gt_lt in E. unfold MapOrder.sle. rewrite E. congruence. }
    split.
    + constructor; auto. apply Forall_forall. intros w Hw. apply sinsert_In in Hw.
      destruct Hw as [->|Hw]; auto. rewrite Forall_forall in Hz. auto.
    + constructor; auto. intros Hin. apply sinsert_In in Hin. destruct Hin as [Ezx|Hin]; auto.
      subst. rewrite (proj2 (MapOrder.cmp_eq x x) eq_refl) in E. discriminate.
Qed.

Lemma sset_canon l : canon (sset l).
Proof. induction l as [|x l IH]; simpl; [split; constructor|now apply sinsert_canon]. Qed.

Lemma filter_canon f l : canon l -> canon (filter f l).
Proof.
  intros [Hs Hn]. split; [|now apply NoDup_filter]. clear Hn.
  induction Hs as [|z r Hr IH Hz]; simpl; [constructor|].
  destruct (f z); auto. constructor; auto.
  apply Forall_forall. intros w Hw. apply filter_In in Hw. rewrite Forall_forall in Hz. apply Hz. tauto.
Qed.

Lemma ssort_canon l : NoDup l -> canon (Obs.ssort l).
Proof.
  intros H. split; [apply ssort_sorted|]. eapply Permutation_NoDup; [apply ssort_perm|auto].
Qed.

Lemma sset_ssort l : NoDup l -> sset l = Obs.ssort l.
Proof.
  intros H. apply canon_ext; [apply sset_canon|now apply ssort_canon|].
  intros x. rewrite sset_In. split; intros Hx.
  - eapply Permutation_in; [apply ssort_perm|auto].
  - eapply Permutation_in; [symmetry; apply ssort_perm|auto].
Qed.

Lemma sset_perm l l' : Permutation l l' -> sset l = sset l'.
Proof.
  intros H. apply canon_ext; try apply sset_canon. intros x. rewrite !sset_In.
  split; apply Permutation_in; auto. now symmetry.
Qed.

Lemma smem_In x l : smem x l = true <-> In x l.
Proof.
  unfold smem. rewrite existsb_exists. split.
  - intros [y [Hy E]]. apply String.eqb_eq in E. now subst.
  - intros H. exists x. split; auto. apply String.eqb_refl.
Qed.
Lemma smem_false x l : smem x l = false <-> ~ In x l.
Proof. rewrite <- smem_In. destruct (smem x l); split; intros; try congruence; tauto. Qed.

Lemma list_eqb_eq (a b : list string) : list_eqb String.eqb a b = true <-> a = b.
Proof.
  revert b. induction a as [|x a IH]; intros [|y b]; simpl; split; intros H; try discriminate; auto.
  - apply andb_true_iff in H. destruct H as [H1 H2]. apply String.eqb_eq in H1. apply IH in H2. congruence.
  - inversion H; subst. rewrite String.eqb_refl. simpl. now apply IH.
Qed.

(** * canonical sides *)
Lemma sdiff_In a b x : In x (sdiff a b) <-> In x a /\ ~ In x b.
Proof. unfold sdiff. rewrite filter_In, negb_true_iff, smem_false. tauto. Qed.
Lemma sinter_In a b x : In x (sinter a b) <-> In x a /\ In x b.
Proof. unfold sinter. rewrite filter_In, smem_In. tauto. Qed.

Lemma canon_side_canon all side : canon all -> canon side -> canon (canon_side all side).
Proof.
  intros Ha Hs. unfold canon_side. destruct all as [|m r]; auto.
  destruct (smem m side); auto. unfold sdiff. now apply filter_canon.
Qed.

(** the two sides of a bipartition have the same canonical form *)
Lemma canon_side_complement R X Y :
  canon R -> canon X -> canon Y ->
  (forall x, In x X -> In x R) -> (forall x, In x Y <-> In x R /\ ~ In x X) ->
  canon_side R X = canon_side R Y.
Proof.
  intros HR HX HY HXR HYc. unfold canon_side. destruct R as [|m r] eqn:ER.
  - destruct X as [|x X]; [|exfalso; apply (HXR x); now left].
    destruct Y as [|y Y]; auto. exfalso. destruct (proj1 (HYc y) (or_introl eq_refl)) as [[] _].
  - rewrite <- ER in *.
    destruct (smem m X) eqn:E1.
    + apply smem_In in E1. assert (E2 : smem m Y = false).
      { apply smem_false. intros H. apply HYc in H. tauto. }
      rewrite E2. apply canon_ext; auto.
      * unfold sdiff. now apply filter_canon.
      * intros x. rewrite sdiff_In, HYc. tauto.
    + apply smem_false in E1. assert (E2 : smem m Y = true).
      { apply smem_In. apply HYc. split; auto. rewrite ER. now left. }
      rewrite E2. apply canon_ext; auto.
      * unfold sdiff. now apply filter_canon.
      * intros x. rewrite sdiff_In, HYc. split; [intros H; split; auto|].
        -- intros [_ H2]. tauto.
        -- intros [H1 H2]. destruct (in_dec string_dec x X); auto. exfalso. apply H2. split; auto.
Qed.

(** * keys of [usplits] *)
Lemma add_split_keys s l k : In k (map sside (add_split s l)) <-> k = sside s \/ In k (map sside l).
Proof.
  induction l as [|x r IH]; simpl; [intuition|].
  destruct (split_key_eqb s x) eqn:E; simpl.
  - unfold split_key_eqb, sset_eqb in E. apply list_eqb_eq in E. rewrite E. intuition.
  - rewrite IH. intuition.
Qed.

Lemma fold_add_split_keys l acc k :
  In k (map sside (fold_left (fun a s => add_split s a) l acc)) <-> In k (map sside l) \/ In k (map sside acc).
Proof.
  revert acc. induction l as [|s l IH]; intros acc; simpl; [tauto|].
  rewrite IH, add_split_keys. intuition.
Qed.

Lemma branch_splits_keys all t :
  map sside (branch_splits all t) = map (fun p => canon_side all (sset (leaves (snd p)))) (branches t).
Proof.
  induction t as [n c sl IH] using utree_ind'. rewrite branches_unfold. simpl branch_splits.
  induction sl as [|[[e ch]|] r IHr]; [reflexivity| |].
  - inversion IH as [|? ? Hc Hr]; subst. rewrite brs_cons_some. simpl.
    rewrite !map_app. simpl. rewrite Hc, (IHr Hr). reflexivity.
  - inversion IH; subst. rewrite brs_cons_none. simpl. auto.
Qed.

Theorem usplits_keys t k :
  In k (map sside (usplits t)) <->
  exists p, In p (branches t) /\ k = canon_side (tipset t) (sset (leaves (snd p))).
Proof.
  unfold usplits. rewrite fold_add_split_keys, branch_splits_keys. simpl. rewrite in_map_iff.
  split.
  - intros [[p [E Hp]]|[]]. exists p. auto.
  - intros [p [Hp E]]. left. exists p. auto.
Qed.

Lemma dedup_keys_In l k : In k (dedup_keys l) <-> In k l.
Proof.
  induction l as [|x r IH]; simpl; [tauto|].
  destruct (key_mem x r) eqn:E.
  - rewrite IH. split; auto. intros [->|H]; auto.
    unfold key_mem in E. apply existsb_exists in E. destruct E as [y [Hy E]].
    unfold sset_eqb in E. apply list_eqb_eq in E. now subst.
  - simpl. rewrite IH. tauto.
Qed.

Lemma key_mem_In k l : key_mem k l = true <-> In k l.
Proof.
  unfold key_mem. rewrite existsb_exists. split.
  - intros [y [Hy E]]. unfold sset_eqb in E. apply list_eqb_eq in E. now subst.
  - intros H. exists k. split; auto. unfold sset_eqb. now apply list_eqb_eq.
Qed.

Lemma keys_eq_iff X Y : keys_eq X Y = true <-> (forall k, In k X <-> In k Y).
Proof.
  unfold keys_eq, keys_subset. rewrite andb_true_iff, !forallb_forall. split.
  - intros [H1 H2] k. split; intros H; apply key_mem_In; auto.
  - intros H. split; intros k Hk; apply key_mem_In; apply H; auto.
Qed.
