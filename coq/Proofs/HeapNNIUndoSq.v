(** Heap model: NNI, Undo after Apply gives back the same heap (all lookups, the root and the
    counters), hence the same tree: with Proofs/NNIBase.v [undo_apply] this is the refinement
    square of nni.Undo on the state Apply leaves. *)
From Coq Require Import String ZArith QArith Bool Arith Lia Permutation List.
From GT Require Import Base.UTree Model.Reroot Model.NNI Model.Heap Model.HeapEdit Proofs.Enum Proofs.HeapBase Proofs.HeapRep
     Proofs.HeapGood Proofs.HeapGoodRep Proofs.HeapRerootL Proofs.HeapReorder Proofs.HeapUnrootL Proofs.HeapUnroot
     Proofs.HeapCtx Proofs.HeapGraft Proofs.HeapCollapse Proofs.HeapPrune Proofs.HeapNNI Proofs.HeapNNIDown Proofs.HeapNNIUp
     Proofs.HeapNNIMain Proofs.NNIBase Proofs.HeapPaths Proofs.HeapNNISq.
Import ListNotations.
Local Close Scope Q_scope.

(** two heaps with the same content *)
Definition same_heap (h' h : heap) : Prop :=
  (forall z, alookup z (hnodes h') = alookup z (hnodes h)) /\ (forall e, alookup e (hedges h') = alookup e (hedges h)) /\
  hroot h' = hroot h /\ hnextn h' = hnextn h /\ hnexte h' = hnexte h.

Lemma Rep_same h h' lt : same_heap h' h -> Rep h lt -> Rep h' lt.
Proof.
  intros (Sn & Se & Sr & Sa & Sb) R. constructor.
  - rewrite Sr. exact (rep_root _ _ R).
  - eapply shape_frame; [| |exact (rep_shape _ _ R)]; intros; [apply Sn|apply Se].
  - exact (rep_wf _ _ R).
  - exact (rep_nd _ _ R).
  - exact (rep_ned _ _ R).
  - intros n. rewrite Sn. exact (rep_nodes _ _ R n).
  - intros e. rewrite Se. exact (rep_edges _ _ R e).
  - intros n Hn. rewrite Sa. exact (rep_fn _ _ R n Hn).
  - intros e He. rewrite Sb. exact (rep_fe _ _ R e He).
Qed.

Lemma hnode_eta hn : mkHN (hname hn) (hcom hn) (hneigh hn) (hbr hn) = hn.
Proof. destruct hn; reflexivity. Qed.
Lemma hedge_eta ed : mkHE (hleft ed) (hright ed) (hinfo ed) = ed.
Proof. destruct ed; reflexivity. Qed.

Lemma put_put {A} i (a b : A) l : nth_error l i = Some a -> put_nth i a (put_nth i b l) = l.
Proof. intros H. unfold put_nth. rewrite set_nth_twice. apply set_nth_same. exact H. Qed.

Theorem nni_apply_undo_id h n1 n2 cross q hn1 hn2 ec edc : Good h ->
  alookup n1 (hnodes h) = Some hn1 -> alookup n2 (hnodes h) = Some hn2 ->
  In (n2, ec) (slots_of hn1) -> alookup ec (hedges h) = Some edc -> hleft edc = n1 ->
  length (hneigh hn1) = 3 -> length (hneigh hn2) = 3 ->
  new_nni_heap h n1 n2 cross = HOk q ->
  exists h' h'', nni_apply_heap q h = HOk h' /\ Good h' /\ nni_undo_heap q h' = HOk h'' /\ same_heap h'' h.
Proof.
  intros G H1 H2 Hin Ec Lc D1 D2 Eq.
  pose proof (g_len _ G n1 hn1 H1) as L1. pose proof (g_len _ G n2 hn2 H2) as L2.
  pose proof (g_nodup _ G n1 hn1 H1) as Nd1. pose proof (g_nodup _ G n2 hn2 H2) as Nd2.
  destruct (In_nth_error _ _ Hin) as [ic Kc]. destruct (nth_slots_neigh hn1 ic n2 ec L1 Kc) as [Kcn Kcb].
  assert (Ic : index_of n2 (hneigh hn1) = Some ic) by (apply index_of_NoDup; assumption).
  assert (Lic : ic < 3) by (rewrite <- D1; apply nth_error_Some; congruence).
  assert (Hs12 : has_slot h n1 n2 ec) by (exists hn1; split; assumption).
  destruct (g_sym _ G n1 n2 ec Hs12) as [hn2' [H2' Hin2]]. rewrite H2 in H2'. injection H2' as <-.
  destruct (In_nth_error _ _ Hin2) as [j Kj]. destruct (nth_slots_neigh hn2 j n1 ec L2 Kj) as [Kjn Kjb].
  assert (Ij : index_of n1 (hneigh hn2) = Some j) by (apply index_of_NoDup; assumption).
  assert (Lj : j < 3) by (rewrite <- D2; apply nth_error_Some; congruence).
  (* what newNNI read *)
  unfold new_nni_heap, get_node in Eq. rewrite H1, H2 in Eq. cbn [hbind] in Eq. rewrite Ic, Ij in Eq. cbn [idx_plus] in Eq.
  unfold nth_res in Eq.
  destruct (nth_error (hneigh hn1) (Nat.modulo (ic + 1) 3)) as [n11|] eqn:E11; [|discriminate]. cbn [hbind] in Eq.
  destruct (nth_error (hneigh hn1) (Nat.modulo (ic + 2) 3)) as [n12|] eqn:E12; [|discriminate]. cbn [hbind] in Eq.
  destruct (nth_error (hneigh hn2) (Nat.modulo (j + 1) 3)) as [n21|] eqn:E21; [|discriminate]. cbn [hbind] in Eq.
  destruct (nth_error (hneigh hn2) (Nat.modulo (j + 2) 3)) as [n22|] eqn:E22; [|discriminate]. cbn [hbind] in Eq.
  injection Eq as <-.
  set (ix := Nat.modulo (ic + 2) 3) in *.
  set (iy := if cross then Nat.modulo (j + 1) 3 else Nat.modulo (j + 2) 3).
  set (ym := if cross then n21 else n22).
  assert (Eym : nth_error (hneigh hn2) iy = Some ym) by (unfold iy, ym; destruct cross; assumption).
  destruct (mod3_facts ic 2 Lic (or_intror eq_refl)) as [Lix Nix]. fold ix in Lix, Nix.
  assert (Liy : iy < 3 /\ iy <> j) by (unfold iy; destruct cross; [apply mod3_facts; [exact Lj|left; reflexivity]|apply mod3_facts; [exact Lj|right; reflexivity]]).
  destruct Liy as [Liy Niy].
  assert (Ix : index_of n12 (hneigh hn1) = Some ix) by (apply index_of_NoDup; assumption).
  assert (Iy : index_of ym (hneigh hn2) = Some iy) by (apply index_of_NoDup; assumption).
  destruct (nth_error_lt_some (hbr hn1) ix) as [e1 B1]; [rewrite <- L1, D1; exact Lix|].
  destruct (nth_error_lt_some (hbr hn2) iy) as [e2 B2]; [rewrite <- L2, D2; exact Liy|].
  pose proof (nth_combine _ _ _ _ _ E12 B1) as Kx. pose proof (nth_combine _ _ _ _ _ Eym B2) as Ky.
  change (combine (hneigh hn1) (hbr hn1)) with (slots_of hn1) in Kx. change (combine (hneigh hn2) (hbr hn2)) with (slots_of hn2) in Ky.
  assert (Hsx : has_slot h n1 n12 e1) by (exists hn1; split; [exact H1|eapply nth_error_In; exact Kx]).
  assert (Hsy : has_slot h n2 ym e2) by (exists hn2; split; [exact H2|eapply nth_error_In; exact Ky]).
  destruct (g_slot_exists _ G _ _ _ Hsx) as [Xm Xe]. destruct (g_slot_exists _ G _ _ _ Hsy) as [Ym Ye].
  destruct (alookup n12 (hnodes h)) as [hxm|] eqn:Hxm; [clear Xm|congruence].
  destruct (alookup ym (hnodes h)) as [hym|] eqn:Hym; [clear Ym|congruence].
  destruct (alookup e1 (hedges h)) as [ed1|] eqn:E1; [clear Xe|congruence].
  destruct (alookup e2 (hedges h)) as [ed2|] eqn:E2; [clear Ye|congruence].
  assert (Nxmy : n12 <> n2).
  { intros E0. apply Nix. apply (proj1 (NoDup_nth_error _) Nd1); [apply nth_error_Some; congruence|congruence]. }
  assert (Nymx : ym <> n1).
  { intros E0. apply Niy. apply (proj1 (NoDup_nth_error _) Nd2); [apply nth_error_Some; congruence|congruence]. }
  destruct (g_sym _ G _ _ _ Hsx) as [hxm' [Hxm' Inx]]. rewrite Hxm in Hxm'. injection Hxm' as <-.
  destruct (g_sym _ G _ _ _ Hsy) as [hym' [Hym' Iny]]. rewrite Hym in Hym'. injection Hym' as <-.
  destruct (index_of_In n1 (hneigh hxm) (slots_of_in_neigh _ _ _ Inx)) as [jx Jx].
  destruct (index_of_In n2 (hneigh hym) (slots_of_in_neigh _ _ _ Iny)) as [jy Jy].
  destruct (exchange_distinct h n1 n2 n12 ym ic ix iy e1 e2 ec hn1 hn2 hxm hym ed1 ed2 edc G H1 H2 Hxm Hym Kc Ec Lc Kx Nxmy E1 Ky Nymx E2)
    as (N1 & N2 & N3 & N4 & N5 & N6 & M1 & M2 & M3).
  destruct (nni_apply_eval h (mkHNNI n1 n2 n11 n12 n21 n22 cross) hn1 hn2 hxm hym ix iy jx jy ic e1 e2 ec ed1 ed2 edc) as [h' [Ev D]];
    cbn [q_n1 q_n2 q_n12 q_n21 q_n22 q_cross]; fold ym; try assumption.
  - rewrite D1. exact Lix.
  - rewrite D2. exact Liy.
  - apply nth_error_Some. destruct (index_of_spec _ _ _ Jx) as [X _]. congruence.
  - apply nth_error_Some. destruct (index_of_spec _ _ _ Jy) as [X _]. congruence.
  - cbn [q_n1 q_n2 q_n12 q_n21 q_n22 q_cross] in D. fold ym in D.
    rewrite (flag_down h n1 n2 ym ec e2 edc ed2 G Hs12 Hsy Ec E2 Lc M3), orb_false_r in D.
    pose proof (exchange_good h h' n1 n2 n12 ym ic ix iy jx jy e1 e2 ec hn1 hn2 hxm hym ed1 ed2 edc G H1 H2 Hxm Hym Kc Ec Lc Kx Nxmy E1 Ky Nymx E2 Jx Jy D) as G'.
    (* the state Apply leaves *)
    assert (Hl2 : hleft ed2 = n2).
    { destruct (g_ends _ G n2 ym e2 ed2 Hsy E2) as [[X _]|[_ X]]; [exact X|]. exfalso. apply M3.
      eapply (g_one_parent _ G n2 ym e2 ed2 n1 ec edc); [exact Hsy|apply (g_sym _ G); exact Hs12|exact E2|exact Ec|exact X|].
      destruct (g_ends _ G n1 n2 ec edc Hs12 Ec) as [[_ Y]|[Y _]]; [exact Y|congruence]. }
    assert (Hx' : alookup n1 (hnodes h') = Some (mkHN (hname hn1) (hcom hn1) (put_nth ix ym (hneigh hn1)) (put_nth ix e2 (hbr hn1)))).
    { rewrite (nd_nodes _ _ _ _ _ _ _ _ _ _ _ _ _ _ _ _ _ _ _ _ _ D), Nat.eqb_refl. reflexivity. }
    assert (Hy' : alookup n2 (hnodes h') = Some (mkHN (hname hn2) (hcom hn2) (put_nth iy n12 (hneigh hn2)) (put_nth iy e1 (hbr hn2)))).
    { rewrite (nd_nodes _ _ _ _ _ _ _ _ _ _ _ _ _ _ _ _ _ _ _ _ _ D). destruct (Nat.eqb_spec n2 n1); [congruence|]. rewrite Nat.eqb_refl. reflexivity. }
    assert (Hxm' : alookup n12 (hnodes h') <> None).
    { rewrite (nd_nodes _ _ _ _ _ _ _ _ _ _ _ _ _ _ _ _ _ _ _ _ _ D). destruct (Nat.eqb_spec n12 n1); [congruence|]. destruct (Nat.eqb_spec n12 n2); [congruence|].
      rewrite Nat.eqb_refl. discriminate. }
    assert (Hym' : alookup ym (hnodes h') <> None).
    { rewrite (nd_nodes _ _ _ _ _ _ _ _ _ _ _ _ _ _ _ _ _ _ _ _ _ D). destruct (Nat.eqb_spec ym n1); [congruence|]. destruct (Nat.eqb_spec ym n2); [congruence|].
      destruct (Nat.eqb_spec ym n12); [congruence|]. rewrite Nat.eqb_refl. discriminate. }
    destruct (alookup n12 (hnodes h')) as [hxm2|] eqn:Hxm2; [clear Hxm'|congruence].
    destruct (alookup ym (hnodes h')) as [hym2|] eqn:Hym2; [clear Hym'|congruence].
    assert (Ee1' : alookup e1 (hedges h') = Some (move_end ed1 n1 n2)).
    { rewrite (nd_edges _ _ _ _ _ _ _ _ _ _ _ _ _ _ _ _ _ _ _ _ _ D), Nat.eqb_refl. reflexivity. }
    assert (Ee2' : alookup e2 (hedges h') = Some (move_end ed2 n2 n1)).
    { rewrite (nd_edges _ _ _ _ _ _ _ _ _ _ _ _ _ _ _ _ _ _ _ _ _ D). destruct (Nat.eqb_spec e2 e1); [congruence|]. rewrite Nat.eqb_refl. reflexivity. }
    assert (Eec' : alookup ec (hedges h') = Some (if Nat.eqb (hright ed1) n1 then flip edc else edc)).
    { rewrite (nd_edges _ _ _ _ _ _ _ _ _ _ _ _ _ _ _ _ _ _ _ _ _ D). destruct (Nat.eqb_spec ec e1); [congruence|]. destruct (Nat.eqb_spec ec e2); [congruence|].
      rewrite Nat.eqb_refl. reflexivity. }
    assert (Sx' : slots_of (mkHN (hname hn1) (hcom hn1) (put_nth ix ym (hneigh hn1)) (put_nth ix e2 (hbr hn1))) = set_nth ix (ym, e2) (slots_of hn1)).
    { unfold slots_of, put_nth. cbn [hneigh hbr]. apply combine_set_nth_both. }
    assert (Sy' : slots_of (mkHN (hname hn2) (hcom hn2) (put_nth iy n12 (hneigh hn2)) (put_nth iy e1 (hbr hn2))) = set_nth iy (n12, e1) (slots_of hn2)).
    { unfold slots_of, put_nth. cbn [hneigh hbr]. apply combine_set_nth_both. }
    assert (Exm2 : hxm2 = mkHN (hname hxm) (hcom hxm) (put_nth jx n2 (hneigh hxm)) (hbr hxm)).
    { rewrite (nd_nodes _ _ _ _ _ _ _ _ _ _ _ _ _ _ _ _ _ _ _ _ _ D) in Hxm2. destruct (Nat.eqb_spec n12 n1); [congruence|].
      destruct (Nat.eqb_spec n12 n2); [congruence|]. rewrite Nat.eqb_refl in Hxm2. congruence. }
    assert (Eym2 : hym2 = mkHN (hname hym) (hcom hym) (put_nth jy n1 (hneigh hym)) (hbr hym)).
    { rewrite (nd_nodes _ _ _ _ _ _ _ _ _ _ _ _ _ _ _ _ _ _ _ _ _ D) in Hym2. destruct (Nat.eqb_spec ym n1); [congruence|].
      destruct (Nat.eqb_spec ym n2); [congruence|]. destruct (Nat.eqb_spec ym n12); [congruence|]. rewrite Nat.eqb_refl in Hym2. congruence. }
    subst hxm2 hym2.
    set (hx' := mkHN (hname hn1) (hcom hn1) (put_nth ix ym (hneigh hn1)) (put_nth ix e2 (hbr hn1))) in *.
    set (hy' := mkHN (hname hn2) (hcom hn2) (put_nth iy n12 (hneigh hn2)) (put_nth iy e1 (hbr hn2))) in *.
    set (hxm' := mkHN (hname hxm) (hcom hxm) (put_nth jx n2 (hneigh hxm)) (hbr hxm)) in *.
    set (hym' := mkHN (hname hym) (hcom hym) (put_nth jy n1 (hneigh hym)) (hbr hym)) in *.
    assert (Ljx : jx < length (hneigh hxm)) by (apply nth_error_Some; destruct (index_of_spec _ _ _ Jx) as [X _]; congruence).
    assert (Ljy : jy < length (hneigh hym)) by (apply nth_error_Some; destruct (index_of_spec _ _ _ Jy) as [X _]; congruence).
    assert (Lbx : ix < length (hbr hn1)) by (apply nth_error_Some; congruence).
    assert (Lby : iy < length (hbr hn2)) by (apply nth_error_Some; congruence).
    assert (Lnx : ix < length (hneigh hn1)) by (rewrite D1; exact Lix).
    assert (Lny : iy < length (hneigh hn2)) by (rewrite D2; exact Liy).
    pose proof (g_nodup _ G' n1 hx' Hx') as Ndx'. pose proof (g_nodup _ G' n2 hy' Hy') as Ndy'.
    pose proof (g_nodup _ G' n12 hxm' Hxm2) as Ndxm'. pose proof (g_nodup _ G' ym hym' Hym2) as Ndym'.
    destruct (nni_undo_eval h' (mkHNNI n1 n2 n11 n12 n21 n22 cross) hx' hy' hym' hxm' ix iy jy jx ic e2 e1 ec
                (move_end ed2 n2 n1) (move_end ed1 n1 n2) (if Nat.eqb (hright ed1) n1 then flip edc else edc)) as [h'' [Ev2 DU]];
      cbn [q_n1 q_n2 q_n12 q_n21 q_n22 q_cross]; fold ym; try assumption; try congruence.
    + apply index_of_NoDup; [exact Ndx'|]. unfold hx', put_nth. cbn [hneigh]. rewrite nth_error_set_nth_ne by (intros E0; apply Nix; symmetry; exact E0). exact Kcn.
    + apply index_of_NoDup; [exact Ndx'|]. unfold hx', put_nth. cbn [hneigh]. apply nth_error_set_nth_eq. exact Lnx.
    + apply index_of_NoDup; [exact Ndym'|]. unfold hym', put_nth. cbn [hneigh]. apply nth_error_set_nth_eq. exact Ljy.
    + apply index_of_NoDup; [exact Ndy'|]. unfold hy', put_nth. cbn [hneigh]. apply nth_error_set_nth_eq. exact Lny.
    + apply index_of_NoDup; [exact Ndxm'|]. unfold hxm', put_nth. cbn [hneigh]. apply nth_error_set_nth_eq. exact Ljx.
    + unfold hx', put_nth. cbn [hbr]. apply nth_error_set_nth_eq. exact Lbx.
    + unfold hy', put_nth. cbn [hbr]. apply nth_error_set_nth_eq. exact Lby.
    + unfold hx', put_nth. cbn [hbr]. rewrite nth_error_set_nth_ne by (intros E0; apply Nix; symmetry; exact E0). exact Kcb.
    + unfold hx', put_nth. cbn [hneigh]. rewrite length_set_nth. exact Lnx.
    + unfold hy', put_nth. cbn [hneigh]. rewrite length_set_nth. exact Lny.
    + unfold hym', put_nth. cbn [hneigh]. rewrite length_set_nth. exact Ljy.
    + unfold hxm', put_nth. cbn [hneigh]. rewrite length_set_nth. exact Ljx.
    + cbn [q_n1 q_n2 q_n12 q_n21 q_n22 q_cross] in DU. fold ym in DU.
      exists h', h''. split; [exact Ev|]. split; [exact G'|]. split; [exact Ev2|].
      assert (Njx : nth_error (hneigh hxm) jx = Some n1) by (destruct (index_of_spec _ _ _ Jx) as [X _]; exact X).
      assert (Njy : nth_error (hneigh hym) jy = Some n2) by (destruct (index_of_spec _ _ _ Jy) as [X _]; exact X).
      assert (Hr2 : hright ed2 = ym).
      { destruct (g_ends _ G n2 ym e2 ed2 Hsy E2) as [[_ X]|[X _]]; [exact X|]. rewrite Hl2 in X. congruence. }
      split; [|split; [|split; [|split]]].
      * intros z. rewrite (nd_nodes _ _ _ _ _ _ _ _ _ _ _ _ _ _ _ _ _ _ _ _ _ DU).
        destruct (Nat.eqb_spec z n1) as [->|Z1].
        { rewrite H1. unfold hx'. cbn [hname hcom hneigh hbr]. rewrite !put_put by assumption. rewrite hnode_eta. reflexivity. }
        destruct (Nat.eqb_spec z n2) as [->|Z2].
        { rewrite H2. unfold hy'. cbn [hname hcom hneigh hbr]. rewrite !put_put by assumption. rewrite hnode_eta. reflexivity. }
        destruct (Nat.eqb_spec z ym) as [->|Z3].
        { rewrite Hym. unfold hym'. cbn [hname hcom hneigh hbr]. rewrite !put_put by assumption. rewrite hnode_eta. reflexivity. }
        destruct (Nat.eqb_spec z n12) as [->|Z4].
        { rewrite Hxm. unfold hxm'. cbn [hname hcom hneigh hbr]. rewrite !put_put by assumption. rewrite hnode_eta. reflexivity. }
        rewrite (nd_nodes _ _ _ _ _ _ _ _ _ _ _ _ _ _ _ _ _ _ _ _ _ D).
        rewrite (proj2 (Nat.eqb_neq _ _) Z1), (proj2 (Nat.eqb_neq _ _) Z2), (proj2 (Nat.eqb_neq _ _) Z4), (proj2 (Nat.eqb_neq _ _) Z3). reflexivity.
      * intros e. rewrite (nd_edges _ _ _ _ _ _ _ _ _ _ _ _ _ _ _ _ _ _ _ _ _ DU).
        destruct (Nat.eqb_spec e e2) as [->|Z1].
        { rewrite E2. unfold move_end. rewrite Hl2, Nat.eqb_refl. cbn [hleft hright hinfo]. rewrite Nat.eqb_refl. rewrite <- Hl2, hedge_eta. reflexivity. }
        destruct (Nat.eqb_spec e e1) as [->|Z2].
        { rewrite E1. f_equal. unfold move_end.
          destruct (g_ends _ G n1 n12 e1 ed1 Hsx E1) as [[X Y]|[X Y]]; rewrite X.
          -- rewrite Nat.eqb_refl. cbn [hleft hright hinfo]. rewrite Nat.eqb_refl. rewrite <- X, hedge_eta. reflexivity.
          -- destruct (Nat.eqb_spec n12 n1) as [E0|_]; [congruence|]. cbn [hleft hright hinfo].
            destruct (Nat.eqb_spec n12 n2) as [E0|_]; [congruence|]. rewrite <- X, <- Y, hedge_eta. reflexivity. }
        destruct (Nat.eqb_spec e ec) as [->|Z3].
        { rewrite Ec. f_equal.
          assert (Fl : Nat.eqb (hright (move_end ed1 n1 n2)) n2 = Nat.eqb (hright ed1) n1).
          { unfold move_end. destruct (g_ends _ G n1 n12 e1 ed1 Hsx E1) as [[X Y]|[X Y]]; rewrite X, Y.
            -- rewrite Nat.eqb_refl. cbn [hright]. destruct (Nat.eqb_spec n12 n2); [congruence|]. destruct (Nat.eqb_spec n12 n1); [congruence|reflexivity].
            -- destruct (Nat.eqb_spec n12 n1) as [E0|_]; [congruence|]. cbn [hright]. rewrite !Nat.eqb_refl. reflexivity. }
          assert (Fl2 : Nat.eqb (hright (move_end ed2 n2 n1)) n1 = false).
          { unfold move_end. rewrite Hl2, Nat.eqb_refl. cbn [hright]. rewrite Hr2. apply Nat.eqb_neq. exact Nymx. }
          rewrite Fl, Fl2, orb_false_r. destruct (Nat.eqb (hright ed1) n1); [|reflexivity]. unfold flip. cbn [hleft hright hinfo]. apply hedge_eta. }
        rewrite (nd_edges _ _ _ _ _ _ _ _ _ _ _ _ _ _ _ _ _ _ _ _ _ D).
        rewrite (proj2 (Nat.eqb_neq _ _) Z1), (proj2 (Nat.eqb_neq _ _) Z2), (proj2 (Nat.eqb_neq _ _) Z3). reflexivity.
      * rewrite (nd_root _ _ _ _ _ _ _ _ _ _ _ _ _ _ _ _ _ _ _ _ _ DU). exact (nd_root _ _ _ _ _ _ _ _ _ _ _ _ _ _ _ _ _ _ _ _ _ D).
      * rewrite (nd_nextn _ _ _ _ _ _ _ _ _ _ _ _ _ _ _ _ _ _ _ _ _ DU). exact (nd_nextn _ _ _ _ _ _ _ _ _ _ _ _ _ _ _ _ _ _ _ _ _ D).
      * rewrite (nd_nexte _ _ _ _ _ _ _ _ _ _ _ _ _ _ _ _ _ _ _ _ _ DU). exact (nd_nexte _ _ _ _ _ _ _ _ _ _ _ _ _ _ _ _ _ _ _ _ _ D).
Qed.

(** the square of Apply followed by Undo: the heap after Undo represents the tree [undo] gives,
    which is the tree before Apply (Proofs/NNIBase.v [undo_apply]) *)
Theorem nni_apply_undo_square h lt r n1 n2 q hn1 hn2 ec edc sub : Rep h lt ->
  alookup n1 (hnodes h) = Some hn1 -> alookup n2 (hnodes h) = Some hn2 ->
  In (n2, ec) (slots_of hn1) -> alookup ec (hedges h) = Some edc -> hleft edc = n1 ->
  length (hneigh hn1) = 3 -> length (hneigh hn2) = 3 ->
  new_nni_heap h n1 n2 (r_cross r) = HOk q ->
  lnode_at lt (r_path r) = Some sub -> lid sub = n1 ->
  nth_error (hneigh hn1) (r_k r) = Some n2 -> nth_error (hneigh hn2) (r_j r) = Some n1 ->
  valid r (erase lt) ->
  exists h' lt' h'', nni_apply_heap q h = HOk h' /\ Rep h' lt' /\ apply r (erase lt) = Some (erase lt') /\
    nni_undo_heap q h' = HOk h'' /\ Rep h'' lt /\ undo r (erase lt') = Some (erase lt).
Proof.
  intros R H1 H2 Hin Ec Lc D1 D2 Eq Hpath Hlid Hrk Hrj V.
  destruct (nni_apply_square h lt r n1 n2 q hn1 hn2 ec edc sub R H1 H2 Hin Ec Lc D1 D2 Eq Hpath Hlid Hrk Hrj) as (h' & lt' & Ev & R' & Ha).
  destruct (nni_apply_undo_id h n1 n2 (r_cross r) q hn1 hn2 ec edc (Rep_Good _ _ R) H1 H2 Hin Ec Lc D1 D2 Eq) as (h0 & h'' & Ev0 & _ & Ev2 & Same).
  rewrite Ev in Ev0. injection Ev0 as <-.
  destruct (undo_apply r (erase lt) (rep_wf _ _ R) V) as (t' & A1 & A2). rewrite Ha in A1. injection A1 as <-.
  exists h', lt', h''. split; [exact Ev|]. split; [exact R'|]. split; [exact Ha|]. split; [exact Ev2|]. split; [exact (Rep_same h h'' lt Same R)|exact A2].
Qed.
