(** Reservoir sampling WITHOUT replacement with the textbook index rand.Intn(i+1)
    ([std_bound]; Model/Sampling.v [reservoir]): in the space of all choice vectors within
    [reservoir_bounds std_bound k n] (n!/k! of them), every k-subset of the n items is the
    content of the reservoir for exactly (n-k)! vectors, i.e. has probability 1/C(n,k).

    Proof: the loop is first reduced to a fold [runl] on plain lists (phase 1 fills the
    reservoir with the first k items, phase 2 overwrites slot j when the draw j is < k); the
    content is always a duplicate-free list of k items; then induction on the number of
    items after the k-th, peeling the LAST draw. *)
From Coq Require Import Bool Arith Lia List Permutation Sorted.
From GT Require Import Model.Reroot Model.Sampling Spec.Counting Proofs.SamplingBase Proofs.SamplingCount.
Import ListNotations.

(** ** size of the space *)
Lemma std_bounds_S k d :
  map std_bound (seq k (S d)) = map std_bound (seq k d) ++ [S (k + d)].
Proof. now rewrite seq_S, map_app. Qed.

Lemma std_space_size k d : prod (map std_bound (seq k d)) * fact k = fact (k + d).
Proof.
  induction d as [|d IH].
  - simpl. now rewrite !Nat.add_0_r.
  - rewrite std_bounds_S, prod_app, Nat.add_succ_r.
    change (fact (S (k + d))) with (S (k + d) * fact (k + d)). rewrite <- IH.
    unfold prod at 2. simpl. lia.
Qed.

Theorem reservoir_space_size n k : k <= n ->
  length (all_choices (reservoir_bounds std_bound k n)) * fact k = fact n.
Proof.
  intros H. rewrite all_choices_length. unfold reservoir_bounds.
  rewrite std_space_size. f_equal. lia.
Qed.

(** ** the loop commutes with renaming the items *)
Lemma res_loop_map {A B} (f : A -> B) bnd k : forall xs i cs out,
  res_loop bnd k i (map f xs) cs (map (option_map f) out)
  = option_map (map (option_map f)) (res_loop bnd k i xs cs out).
Proof.
  induction xs as [|x xs IH]; intros i cs out; simpl.
  - destruct (Nat.ltb i k); simpl; auto. now rewrite firstn_map.
  - destruct (Nat.ltb i k).
    + rewrite <- IH. f_equal. apply (set_nth_map (option_map f) i (Some x)).
    + destruct cs as [|j cs]; auto. rewrite <- IH. f_equal.
      destruct (Nat.ltb j k); auto. apply (set_nth_map (option_map f) j (Some x)).
Qed.

Theorem reservoir_map {A B} (f : A -> B) bnd k xs cs :
  reservoir bnd k (map f xs) cs = option_map (map (option_map f)) (reservoir bnd k xs cs).
Proof.
  unfold reservoir. rewrite <- res_loop_map. f_equal.
  induction k as [|k IH]; simpl; auto. now rewrite <- IH.
Qed.

(** ** the loop as a fold on plain lists *)
Definition step (k : nat) (l : list nat) (x j : nat) : list nat :=
  if Nat.ltb j k then set_nth j x l else l.

Fixpoint runl (k : nat) (l : list nat) (xs cs : list nat) : list nat :=
  match xs, cs with
  | x :: xs', j :: cs' => runl k (step k l x j) xs' cs'
  | _, _ => l
  end.

Lemma res_phase2 bnd k : forall xs i cs (l : list nat),
  k <= i -> length cs = length xs ->
  res_loop bnd k i xs cs (map Some l) = Some (map Some (runl k l xs cs)).
Proof.
  induction xs as [|x xs IH]; intros i [|j cs] l Hi Hl; simpl in Hl; try discriminate; simpl.
  - apply Nat.ltb_ge in Hi. now rewrite Hi.
  - pose proof Hi as Hi'. apply Nat.ltb_ge in Hi'. rewrite Hi'.
    replace (if Nat.ltb j k then set_nth j (Some x) (map Some l) else map Some l)
      with (map Some (step k l x j))
      by (unfold step; destruct (Nat.ltb j k); auto; symmetry; apply (set_nth_map Some)).
    apply IH; lia.
Qed.

Lemma res_phase1 bnd k (xs2 : list nat) cs : forall xs1 ys i,
  i = length ys -> i + length xs1 = k ->
  res_loop bnd k i (xs1 ++ xs2) cs (map Some ys ++ repeat None (length xs1))
  = res_loop bnd k k xs2 cs (map Some (ys ++ xs1)).
Proof.
  induction xs1 as [|x xs1 IH]; intros ys i Hi Hk; simpl in *.
  - rewrite !app_nil_r. now replace i with k by lia.
  - assert (Hlt : Nat.ltb i k = true) by (apply Nat.ltb_lt; lia). rewrite Hlt.
    subst i. rewrite <- (map_length Some ys) at 2. rewrite set_nth_app_exact.
    replace (map Some ys ++ Some x :: repeat None (length xs1))
      with (map Some (ys ++ [x]) ++ repeat None (length xs1))
      by (rewrite map_app, <- app_assoc; reflexivity).
    rewrite (IH (ys ++ [x]) (S (length ys))).
    + now rewrite <- app_assoc.
    + rewrite app_length. simpl. lia.
    + lia.
Qed.

Lemma reservoir_runl bnd k d cs : length cs = d ->
  reservoir bnd k (seq 0 (k + d)) cs = Some (map Some (runl k (seq 0 k) (seq k d) cs)).
Proof.
  intros Hl. unfold reservoir. rewrite seq_app. simpl.
  pose proof (res_phase1 bnd k (seq k d) cs (seq 0 k) [] 0 eq_refl) as H.
  rewrite seq_length in H. simpl in H. rewrite H by lia.
  apply res_phase2; auto. now rewrite seq_length.
Qed.

Lemma runl_snoc k x j : forall xs cs l, length cs = length xs ->
  runl k l (xs ++ [x]) (cs ++ [j]) = step k (runl k l xs cs) x j.
Proof.
  induction xs as [|y xs IH]; intros [|c cs] l H; simpl in H; try discriminate; simpl; auto.
Qed.

(** ** permutations, [set_nth], [nsort] *)
Definition rem_nth (j : nat) (l : list nat) : list nat := firstn j l ++ skipn (S j) l.

Lemma skipn_nth (l : list nat) : forall j, j < length l -> skipn j l = nth j l 0 :: skipn (S j) l.
Proof.
  induction l as [|a l IH]; intros [|j] H; simpl in *; try lia; auto.
  apply IH. lia.
Qed.

Lemma set_nth_perm j x l : j < length l -> Permutation (set_nth j x l) (x :: rem_nth j l).
Proof.
  intros H. unfold set_nth, rem_nth. rewrite (skipn_nth l j H).
  symmetry. apply Permutation_middle.
Qed.

Lemma nth_perm j l : j < length l -> Permutation l (nth j l 0 :: rem_nth j l).
Proof.
  intros H. unfold rem_nth. rewrite <- (firstn_skipn j l) at 1. rewrite (skipn_nth l j H).
  symmetry. apply Permutation_middle.
Qed.

Lemma ninsert_perm x l : Permutation (ninsert x l) (x :: l).
Proof.
  induction l as [|y l IH]; simpl; auto.
  destruct (Nat.leb x y); auto.
  rewrite IH. apply perm_swap.
Qed.

Lemma nsort_perm l : Permutation (nsort l) l.
Proof.
  induction l as [|x l IH]; simpl; auto. rewrite ninsert_perm. now constructor.
Qed.

Lemma ninsert_comm x y : forall l, ninsert x (ninsert y l) = ninsert y (ninsert x l).
Proof.
  induction l as [|z l IH]; simpl.
  - destruct (Nat.leb x y) eqn:E1, (Nat.leb y x) eqn:E2; auto.
    + apply Nat.leb_le in E1, E2. now replace y with x by lia.
    + apply Nat.leb_gt in E1, E2. lia.
  - destruct (Nat.leb x z) eqn:E1, (Nat.leb y z) eqn:E2; simpl; rewrite ?E1, ?E2.
    + destruct (Nat.leb x y) eqn:E3, (Nat.leb y x) eqn:E4; auto.
      * apply Nat.leb_le in E3, E4. now replace y with x by lia.
      * apply Nat.leb_gt in E3, E4. lia.
    + apply Nat.leb_le in E1. apply Nat.leb_gt in E2.
      destruct (Nat.leb y x) eqn:E4; auto. apply Nat.leb_le in E4. lia.
    + apply Nat.leb_gt in E1. apply Nat.leb_le in E2.
      destruct (Nat.leb x y) eqn:E4; auto. apply Nat.leb_le in E4. lia.
    + now rewrite IH.
Qed.

Lemma perm_nsort l1 l2 : Permutation l1 l2 -> nsort l1 = nsort l2.
Proof.
  induction 1; simpl; auto.
  - now rewrite IHPermutation.
  - apply ninsert_comm.
  - congruence.
Qed.

Lemma nat_list_eqb_eq a : forall b, nat_list_eqb a b = true <-> a = b.
Proof.
  unfold nat_list_eqb. induction a as [|x a IH]; intros [|y b]; simpl; split; intros H;
    try discriminate; auto.
  - apply andb_true_iff in H as [H1 H2]. apply Nat.eqb_eq in H1. apply IH in H2. congruence.
  - injection H as -> ->. rewrite Nat.eqb_refl. simpl. now apply IH.
Qed.

(** equality of contents as sets/multisets, decided through [nsort] *)
Definition peqb (l s : list nat) : bool := nat_list_eqb (nsort l) (nsort s).

Lemma peqb_iff l s : peqb l s = true <-> Permutation l s.
Proof.
  unfold peqb. rewrite nat_list_eqb_eq. split.
  - intros H. rewrite <- (nsort_perm l), H. apply nsort_perm.
  - apply perm_nsort.
Qed.

Lemma peqb_congr l s l' s' :
  (Permutation l s <-> Permutation l' s') -> peqb l s = peqb l' s'.
Proof.
  intros H. destruct (peqb l s) eqn:E1, (peqb l' s') eqn:E2; auto.
  - apply peqb_iff in E1. apply H in E1. apply peqb_iff in E1. congruence.
  - apply peqb_iff in E2. apply H in E2. apply peqb_iff in E2. congruence.
Qed.

Lemma peqb_false l s : ~ Permutation l s -> peqb l s = false.
Proof.
  intros H. destruct (peqb l s) eqn:E; auto. apply peqb_iff in E. contradiction.
Qed.

(** overwriting slot j by a new item [n] gives the target [n :: s0] iff the old content was
    [s0] plus the overwritten item *)
Lemma peqb_set_nth j n l s0 : j < length l ->
  peqb (set_nth j n l) (n :: s0) = peqb l (nth j l 0 :: s0).
Proof.
  intros H. apply peqb_congr.
  pose proof (set_nth_perm j n l H) as P1. pose proof (nth_perm j l H) as P2.
  split; intros P.
  - eapply perm_trans; [exact P2|]. apply perm_skip. apply (Permutation_cons_inv (a := n)).
    eapply perm_trans; [symmetry; exact P1|exact P].
  - eapply perm_trans; [exact P1|]. apply perm_skip. apply (Permutation_cons_inv (a := nth j l 0)).
    eapply perm_trans; [symmetry; exact P2|exact P].
Qed.

(** ** invariant: k pairwise distinct items, all seen so far *)
Definition inv (k n : nat) (l : list nat) : Prop :=
  length l = k /\ NoDup l /\ Forall (fun x => x < n) l.

Lemma rem_nth_incl j l : incl (rem_nth j l) l.
Proof.
  unfold rem_nth. intros x Hx. apply in_app_or in Hx as [Hx|Hx].
  - rewrite <- (firstn_skipn j l). apply in_or_app. now left.
  - rewrite <- (firstn_skipn (S j) l). apply in_or_app. now right.
Qed.

Lemma step_inv k n l j : inv k n l -> inv k (S n) (step k l n j).
Proof.
  intros [Hl [Hn Hf]]. unfold step. destruct (Nat.ltb j k) eqn:E.
  - apply Nat.ltb_lt in E. rewrite <- Hl in E.
    pose proof (set_nth_perm j n l E) as P. pose proof (nth_perm j l E) as P2.
    assert (Hn2 : NoDup (nth j l 0 :: rem_nth j l)) by (eapply Permutation_NoDup; eauto).
    rewrite Forall_forall in Hf.
    split; [now rewrite set_nth_length|]. split.
    + eapply Permutation_NoDup; [symmetry; exact P|].
      constructor; [|now inversion Hn2].
      intros Hin. apply rem_nth_incl in Hin. apply Hf in Hin. lia.
    + apply Forall_forall. intros x Hx. eapply Permutation_in in Hx; [|exact P].
      destruct Hx as [<-|Hx]; [lia|]. apply rem_nth_incl in Hx. apply Hf in Hx. lia.
  - split; auto. split; auto. eapply Forall_impl; [|exact Hf]. simpl. intros; lia.
Qed.

Lemma runl_inv k : forall d i l cs, inv k i l -> inv k (i + d) (runl k l (seq i d) cs).
Proof.
  induction d as [|d IH]; intros i l cs H; simpl.
  - now rewrite Nat.add_0_r.
  - destruct cs as [|j cs].
    + destruct H as [H1 [H2 H3]]. split; auto. split; auto.
      eapply Forall_impl; [|exact H3]. simpl. intros; lia.
    + rewrite Nat.add_succ_r. apply (IH (S i)). now apply step_inv.
Qed.

Lemma seq_inv k : inv k k (seq 0 k).
Proof.
  split; [apply seq_length|]. split; [apply seq_NoDup|].
  apply Forall_forall. intros x Hx. apply in_seq in Hx. lia.
Qed.

(** ** counting helpers *)
Lemma map_nth_seq (l : list nat) : map (fun j => nth j l 0) (seq 0 (length l)) = l.
Proof.
  induction l as [|a l IH]; simpl; auto.
  f_equal. rewrite <- seq_shift, map_map. exact IH.
Qed.

Lemma count_where_same_support (q : nat -> bool) l1 l2 :
  NoDup l1 -> NoDup l2 -> (forall x, q x = true -> In x l1 /\ In x l2) ->
  count_where q l1 = count_where q l2.
Proof.
  intros N1 N2 H. unfold count_where. apply Permutation_length.
  apply NoDup_Permutation; try now apply NoDup_filter.
  intros x. rewrite !filter_In. split; intros [_ Hq]; split; auto; now apply H.
Qed.

Definition notin (s : list nat) (x : nat) : bool := negb (existsb (Nat.eqb x) s).

Lemma notin_iff s x : notin s x = true <-> ~ In x s.
Proof.
  unfold notin. rewrite negb_true_iff, <- not_true_iff_false, existsb_exists.
  split; intros H C.
  - apply H. exists x. split; auto. apply Nat.eqb_refl.
  - destruct C as [y [Hy E]]. apply Nat.eqb_eq in E. subst. contradiction.
Qed.

Lemma complement_length s n :
  NoDup s -> Forall (fun x => x < n) s ->
  length s + length (filter (notin s) (seq 0 n)) = n.
Proof.
  intros Hn Hf. rewrite <- app_length.
  transitivity (length (seq 0 n)); [|apply seq_length].
  apply Permutation_length. apply NoDup_Permutation.
  - apply NoDup_app_intro; auto.
    + apply NoDup_filter, seq_NoDup.
    + intros x H1 H2. apply filter_In in H2 as [_ H2]. apply notin_iff in H2. contradiction.
  - apply seq_NoDup.
  - intros x. rewrite in_app_iff, filter_In, notin_iff, in_seq. rewrite Forall_forall in Hf.
    split.
    + intros [H|[H _]]; [apply Hf in H|]; lia.
    + intros H. destruct (in_dec Nat.eq_dec x s); [now left|right]. split; auto.
Qed.

(** ** the count, by induction on the number of items after the k-th *)
Definition content (k d : nat) (cs : list nat) : list nat := runl k (seq 0 k) (seq k d) cs.

Lemma content_inv k d cs : inv k (k + d) (content k d cs).
Proof. apply runl_inv, seq_inv. Qed.

Lemma content_S k d cs j : length cs = d ->
  content k (S d) (cs ++ [j]) = step k (content k d cs) (k + d) j.
Proof.
  intros H. unfold content. rewrite seq_S. apply runl_snoc. now rewrite seq_length.
Qed.

Lemma std_choice_length k d cs : In cs (all_choices (map std_bound (seq k d))) -> length cs = d.
Proof.
  intros H. apply all_choices_in, in_bounds_length in H. now rewrite map_length, seq_length in H.
Qed.

Lemma reservoir_count k : forall d s,
  NoDup s -> length s = k -> Forall (fun x => x < k + d) s ->
  count_where (fun cs => peqb (content k d cs) s) (all_choices (map std_bound (seq k d))) = fact d.
Proof.
  induction d as [|d IH]; intros s Hn Hl Hf.
  - simpl. unfold count_where. simpl. unfold content. simpl.
    assert (P : Permutation (seq 0 k) s).
    { symmetry. apply NoDup_Permutation_bis; auto.
      - rewrite seq_length. lia.
      - intros x Hx. rewrite Forall_forall in Hf. apply Hf in Hx. apply in_seq. lia. }
    apply peqb_iff in P. now rewrite P.
  - rewrite std_bounds_S, count_where_all_choices_snoc.
    remember (k + d) as n eqn:En.
    assert (Hseq : seq 0 (S n) = seq 0 k ++ seq k (S d)).
    { rewrite En, <- Nat.add_succ_r. apply seq_app. }
    destruct (in_dec Nat.eq_dec n s) as [Hin|Hnin].
    + (* the new item n is in the target *)
      apply in_split in Hin as [s1 [s2 ->]].
      set (s0 := s1 ++ s2).
      assert (P : Permutation (s1 ++ n :: s2) (n :: s0)) by (symmetry; apply Permutation_middle).
      assert (Hn0 : NoDup (n :: s0)) by (eapply Permutation_NoDup; eauto).
      assert (Hl0 : S (length s0) = k) by (apply Permutation_length in P; simpl in P; lia).
      pose proof (proj1 (NoDup_cons_iff n s0) Hn0) as [Hn1 Hn2].
      assert (Hf0 : Forall (fun x => x < n) s0).
      { apply Forall_forall. intros x Hx.
        assert (x <> n) by (intros ->; contradiction).
        rewrite Forall_forall in Hf. specialize (Hf x).
        assert (In x (s1 ++ n :: s2)) by (eapply Permutation_in; [symmetry; exact P|now right]).
        apply Hf in H0. lia. }
      set (cand := filter (notin s0) (seq 0 n)).
      rewrite (sum_over_ext _ (fun cs => sum_over (fun x => b2n (peqb (content k d cs) (x :: s0))) cand)).
      * rewrite sum_over_swap.
        rewrite (sum_over_ext _ (fun _ => fact d)).
        -- rewrite sum_over_const.
           pose proof (complement_length s0 n Hn2 Hf0) as HC. fold cand in HC.
           replace (length cand) with (S d) by lia.
           reflexivity.
        -- intros x Hx. rewrite sum_over_b2n. apply filter_In in Hx as [Hx1 Hx2].
           apply notin_iff in Hx2. apply in_seq in Hx1. apply IH.
           ++ now constructor.
           ++ simpl. lia.
           ++ constructor; [lia|exact Hf0].
      * intros cs Hcs. apply std_choice_length in Hcs.
        pose proof (content_inv k d cs) as [Il [In_ If]]. rewrite <- En in If.
        set (l := content k d cs) in *.
        rewrite (count_where_ext _ (fun j => peqb (step k l n j) (n :: s0))).
        2:{ intros j _. rewrite content_S by auto. fold l. rewrite <- En.
            apply peqb_congr. split; intros Q.
            - now rewrite Q, P.
            - now rewrite Q, <- P. }
        rewrite Hseq, count_where_app.
        rewrite (count_where_false _ (seq k (S d))).
        2:{ intros j Hj. apply in_seq in Hj. unfold step.
            assert (E : Nat.ltb j k = false) by (apply Nat.ltb_ge; lia). rewrite E.
            apply peqb_false. intros Q. rewrite Forall_forall in If.
            assert (Hc : In n l) by (eapply Permutation_in; [symmetry; exact Q|now left]).
            apply If in Hc. lia. }
        rewrite Nat.add_0_r.
        rewrite (count_where_ext _ (fun j => peqb l (nth j l 0 :: s0))).
        2:{ intros j Hj. apply in_seq in Hj. unfold step.
            assert (E : Nat.ltb j k = true) by (apply Nat.ltb_lt; lia). rewrite E.
            apply peqb_set_nth. lia. }
        rewrite <- Il at 1.
        rewrite <- (count_where_map (fun x => peqb l (x :: s0)) (fun j => nth j l 0)).
        rewrite map_nth_seq, sum_over_b2n.
        apply count_where_same_support; auto.
        -- apply NoDup_filter, seq_NoDup.
        -- intros x Hx. apply peqb_iff in Hx.
           assert (Hxl : In x l) by (eapply Permutation_in; [symmetry; exact Hx|now left]).
           split; auto. unfold cand. apply filter_In. split.
           ++ rewrite Forall_forall in If. apply If in Hxl. apply in_seq. lia.
           ++ apply notin_iff. assert (N : NoDup (x :: s0)) by (eapply Permutation_NoDup; eauto).
              now inversion N.
    + (* the new item n is not in the target: the last draw must miss the reservoir *)
      assert (Hf' : Forall (fun x => x < n) s).
      { apply Forall_forall. intros x Hx. rewrite Forall_forall in Hf. specialize (Hf x Hx).
        assert (x <> n) by (intros ->; contradiction). lia. }
      rewrite (sum_over_ext _ (fun cs => S d * b2n (peqb (content k d cs) s))).
      * rewrite sum_over_mul_l, sum_over_b2n, IH by auto. reflexivity.
      * intros cs Hcs. apply std_choice_length in Hcs.
        pose proof (content_inv k d cs) as [Il [In_ If]]. rewrite <- En in If.
        set (l := content k d cs) in *.
        rewrite (count_where_ext _ (fun j => peqb (step k l n j) s)).
        2:{ intros j _. rewrite content_S by auto. now rewrite <- En. }
        rewrite Hseq, count_where_app.
        rewrite (count_where_false _ (seq 0 k)).
        2:{ intros j Hj. apply in_seq in Hj. unfold step.
            assert (E : Nat.ltb j k = true) by (apply Nat.ltb_lt; lia). rewrite E.
            apply peqb_false. intros Q. apply Hnin.
            eapply Permutation_in; [exact Q|].
            eapply Permutation_in; [symmetry; apply set_nth_perm; lia|now left]. }
        rewrite (count_where_ext _ (fun _ => peqb l s) (seq k (S d))).
        2:{ intros j Hj. apply in_seq in Hj. unfold step.
            assert (E : Nat.ltb j k = false) by (apply Nat.ltb_ge; lia). now rewrite E. }
        now rewrite count_where_const, seq_length.
Qed.

(** ** k-subsets of [seq 0 n] are strictly increasing lists of k items < n *)
Lemma subsets_sorted : forall l k s, StronglySorted lt l -> In s (subsets k l) ->
  length s = k /\ incl s l /\ StronglySorted lt s.
Proof.
  induction l as [|x r IH]; intros [|k] s Hs Hin; simpl in Hin.
  - destruct Hin as [<-|[]]. repeat split; auto. intros y [].
  - destruct Hin.
  - destruct Hin as [<-|[]]. repeat split; auto; [intros y []|constructor].
  - inversion Hs as [|? ? Hs' Hx]; subst.
    apply in_app_or in Hin as [Hin|Hin].
    + apply in_map_iff in Hin as [s' [<- Hin]].
      destruct (IH _ _ Hs' Hin) as [H1 [H2 H3]]. split; [simpl; lia|]. split.
      * intros y [<-|Hy]; [now left|right; auto].
      * constructor; auto. rewrite Forall_forall in *. intros y Hy. apply Hx. now apply H2.
    + destruct (IH _ _ Hs' Hin) as [H1 [H2 H3]]. split; auto. split; auto.
      intros y Hy. right. now apply H2.
Qed.

Lemma seq_sorted : forall n a, StronglySorted lt (seq a n).
Proof.
  induction n as [|n IH]; intros a; simpl; constructor; auto.
  apply Forall_forall. intros x Hx. apply in_seq in Hx. lia.
Qed.

Lemma sorted_NoDup s : StronglySorted lt s -> NoDup s.
Proof.
  induction 1 as [|x s Hs IH Hx]; constructor; auto.
  intros Hin. rewrite Forall_forall in Hx. apply Hx in Hin. lia.
Qed.

Lemma sorted_nsort s : StronglySorted lt s -> nsort s = s.
Proof.
  induction 1 as [|x s Hs IH Hx]; simpl; auto. rewrite IH.
  destruct s as [|y s]; simpl; auto.
  inversion Hx; subst. assert (E : Nat.leb x y = true) by (apply Nat.leb_le; lia).
  now rewrite E.
Qed.

Lemma filled_map_Some {A} (l : list A) : filled (map Some l) = l.
Proof. unfold filled. induction l as [|x l IH]; simpl; auto. now rewrite IH. Qed.

(** ** the property *)
Theorem reservoir_std_uniform n k s : 1 <= k -> k <= n -> In s (subsets k (seq 0 n)) ->
  count_where (fun cs => out_set_is s (reservoir std_bound k (seq 0 n) cs))
              (all_choices (reservoir_bounds std_bound k n)) = fact (n - k).
Proof.
  intros _ Hkn Hs. unfold reservoir_bounds.
  destruct (subsets_sorted _ _ _ (seq_sorted n 0) Hs) as [Hl [Hi Hsort]].
  set (d := n - k). replace n with (k + d) in * by (unfold d; lia).
  rewrite (count_where_ext _ (fun cs => peqb (content k d cs) s)).
  - apply reservoir_count; auto.
    + now apply sorted_NoDup.
    + apply Forall_forall. intros x Hx. apply Hi in Hx. apply in_seq in Hx. lia.
  - intros cs Hcs. apply std_choice_length in Hcs.
    rewrite reservoir_runl by auto. unfold out_set_is, peqb, content.
    now rewrite filled_map_Some, (sorted_nsort s Hsort).
Qed.
