(** C05 (ii), rooting on an outgroup that is one side of a split, strict or not: the search
    reports different = 0, so the outgroup is exactly one of the two root clades. *)
From Coq Require Import String ZArith QArith Bool Arith Lia List Permutation Setoid Morphisms.
From GT Require Import Base.UTree Spec.Obs Model.Reroot Model.Outgroup Spec.Unrooted
     Proofs.RerootBase Proofs.Reroot Proofs.Reorder Proofs.Unroot Proofs.Splits Proofs.C05Main
     Proofs.OutgroupBase Proofs.OutgroupCut Proofs.OutgroupKeep Proofs.OutgroupLCA Proofs.OutgroupClade
     Proofs.OutgroupMain.
Import ListNotations.
Local Close Scope Q_scope.
Local Arguments n_up : simpl never.

(** * small facts *)
Definition good (s : utree) : Prop := wf_sub s = true \/ (wf s = true /\ 2 <= degree s).

Lemma good_child n c sl e ch : good (UNode n c sl) -> In (Some (e, ch)) sl -> wf_sub ch = true.
Proof.
  intros [H|[H _]] Hin.
  - rewrite wf_sub_unfold in H. apply andb_true_iff in H as [_ H]. rewrite forallb_forall in H.
    apply (H (e, ch)). now apply kids_of_In.
  - rewrite wf_unfold in H. apply andb_true_iff in H as [_ H]. rewrite forallb_forall in H.
    apply (H (e, ch)). now apply kids_of_In.
Qed.

Lemma good_inner n c sl : good (UNode n c sl) -> kids_of sl <> [] -> Nat.eqb (length sl) 1 = false.
Proof.
  intros [H|[H D]] K.
  - rewrite wf_sub_unfold in H. apply andb_true_iff in H as [H _]. apply Nat.eqb_eq in H.
    apply Nat.eqb_neq. rewrite length_slots, H. destruct (kids_of sl); [congruence|simpl; lia].
  - unfold degree in D. simpl in D. apply Nat.eqb_neq. lia.
Qed.

Lemma node_at_incl t p n : node_at t p = Some n -> incl (leaves n) (leaves t).
Proof.
  intros H. destruct (node_at_leaves_split _ _ _ H) as [X [Y E]]. rewrite E.
  intros x Hx. rewrite !in_app_iff. auto.
Qed.

Lemma two_children_disjoint sl j1 j2 e1 c1 e2 c2 x :
  nth_error sl j1 = Some (Some (e1, c1)) -> nth_error sl j2 = Some (Some (e2, c2)) -> j1 <> j2 ->
  NoDup (slot_leaves sl) -> In x (leaves c1) -> In x (leaves c2) -> False.
Proof.
  revert j1 j2. induction sl as [|s r IH]; intros [|j1] [|j2] H1 H2 Hne HN X1 X2; simpl in *;
    try discriminate; try congruence.
  - inversion H1; subst s. rewrite slot_leaves_cons in HN.
    destruct (child_leaves_split r j2 e2 c2 H2) as [A [B E]]. rewrite E in HN.
    eapply (NoDup_app_disjoint (leaves c1) (A ++ leaves c2 ++ B) x HN); auto.
    rewrite !in_app_iff. auto.
  - inversion H2; subst s. rewrite slot_leaves_cons in HN.
    destruct (child_leaves_split r j1 e1 c1 H1) as [A [B E]]. rewrite E in HN.
    eapply (NoDup_app_disjoint (leaves c2) (A ++ leaves c1 ++ B) x HN); auto.
    rewrite !in_app_iff. auto.
  - apply (IH j1 j2); auto. rewrite slot_leaves_cons in HN.
    destruct s as [[e c]|]; auto. eapply NoDup_app_r; eauto.
Qed.

Section Diff0.
  Variable grp : list string.
  Hypothesis Hk : 0 < length grp.
  Hypothesis HG : NoDup grp.
  Notation k := (length grp).

  Lemma nout_incl L : incl L grp -> nout grp L = 0.
  Proof.
    unfold nout. induction L as [|x r IH]; simpl; intros H; auto.
    assert (E : inb grp x = true) by (unfold inb; apply smem_In; apply H; now left).
    rewrite E. simpl. apply IH. intros y Hy. apply H. now right.
  Qed.

  Lemma nin_pos_exists L : 0 < nin grp L -> exists x, In x L /\ In x grp.
  Proof.
    unfold nin. induction L as [|x r IH]; simpl; intros H; [lia|].
    destruct (inb grp x) eqn:E.
    - exists x. split; auto. unfold inb in E. now apply smem_In.
    - destruct (IH H) as [y [H1 H2]]. exists y. auto.
  Qed.

  Lemma selleaves_In sl x :
    In x (selleaves grp sl) ->
    exists j e c, nth_error sl j = Some (Some (e, c)) /\ 0 < cin grp c /\ In x (leaves c).
  Proof.
    unfold selleaves. induction sl as [|s r IH]; simpl; intros H; [destruct H|].
    destruct (sel grp s) eqn:E.
    - rewrite slot_leaves_cons in H. destruct s as [[e c]|]; [|discriminate].
      apply in_app_or in H as [H|H].
      + exists 0, e, c. simpl in E. apply Nat.ltb_lt in E. auto.
      + destruct (IH H) as (j & e' & c' & H1 & H2 & H3). exists (S j), e', c'. auto.
    - destruct (IH H) as (j & e' & c' & H1 & H2 & H3). exists (S j), e', c'. auto.
  Qed.

  (** ** the group is exactly the leaves below some node: different = 0 *)
  Lemma lca_clade_diff0 pv : forall s vv p es d,
    good s -> NoDup (leaves s) -> node_at s pv = Some vv -> Permutation (leaves vv) grp ->
    lca_rec grp k s = LFound p es d -> d = 0.
  Proof.
    induction pv as [|j pv' IH]; intros s vv p es d Hg HN Hn HP HL.
    - simpl in Hn. inversion Hn; subst vv.
      assert (HS : lca_spec grp s (lca_rec grp k s)).
      { destruct Hg as [H|[H D]]; [now apply lca_spec_sub | now apply lca_spec_root]. }
      rewrite HL in HS. inversion HS as [|p' es' d' n' _ _ Hd _]; subst.
      unfold cout in Hd. rewrite nout_incl in Hd; [lia|].
      intros x Hx. now apply (Permutation_in _ HP).
    - destruct s as [n c sl]. simpl in Hn.
      destruct (nth_error sl j) as [[[e cj]|]|] eqn:Ej; try discriminate.
      assert (NE : kids_of sl <> []).
      { intros K. assert (In (e, cj) (kids_of sl)) by (apply kids_of_In; eapply nth_error_In; eauto).
        rewrite K in H. destruct H. }
      assert (Ls : leaves (UNode n c sl) = slot_leaves sl) by (apply leaves_node; exact NE).
      rewrite Ls in HN.
      assert (Wj : wf_sub cj = true) by (eapply good_child; eauto; eapply nth_error_In; eauto).
      assert (Ij : incl grp (leaves cj)).
      { intros x Hx. apply (node_at_incl cj pv' vv Hn). apply Permutation_sym in HP.
        now apply (Permutation_in _ HP). }
      assert (Nj : NoDup (leaves cj)).
      { destruct (child_leaves_split sl j e cj Ej) as [A [B E]]. rewrite E in HN.
        apply NoDup_app_r in HN. now apply NoDup_app_l in HN. }
      rewrite lca_rec_unfold in HL. cbv zeta in HL. rewrite (good_inner n c sl Hg NE) in HL.
      cbn [andb] in HL.
      assert (HNok : Forall (not_ok grp (lca_rec grp k)) sl).
      { rewrite Forall_forall. intros [[e' ch]|] Hin; simpl; auto. intros com dd E.
        assert (W : wf_sub ch = true) by (eapply good_child; eauto).
        pose proof (lca_spec_sub grp Hk ch W) as HS. rewrite E in HS. inversion HS; subst. auto. }
      destruct (lca_go_spec grp Hk (lca_rec grp k) sl HNok 0 0 [] 0 0)
        as [(j0&e0&c0&p0&es0&d0&N0&R0&G0)|[AN G0]].
      + rewrite G0 in HL. inversion HL; subst. clear HL.
        destruct (Nat.eq_dec j0 j) as [->|Hne].
        * rewrite Ej in N0. inversion N0; subst. eapply (IH c0); eauto. left. exact Wj.
        * exfalso.
          assert (W0 : wf_sub c0 = true) by (eapply good_child; eauto; eapply nth_error_In; eauto).
          pose proof (lca_spec_sub grp Hk c0 W0) as HS. rewrite R0 in HS.
          inversion HS as [|p' es' d' n' _ _ _ Hc]; subst.
          destruct (nin_pos_exists (leaves c0)) as [x [X1 X2]]; [unfold cin in Hc; lia|].
          eapply (two_children_disjoint sl j0 j); eauto.
      + exfalso. destruct (AN j e cj Ej) as [com [dd E]].
        pose proof (lca_spec_sub grp Hk cj Wj) as HS. rewrite E in HS.
        inversion HS as [com' d' Hc _ Hne|]; subst.
        apply Hne. unfold cin. now apply nin_full.
  Qed.

  (** ** the group is everything but the temporary root tip: different = 0 *)
  Lemma lca_cotip_diff0 n c sl ja ea a p es d :
    wf (UNode n c sl) = true -> 2 <= length sl -> NoDup (slot_leaves sl) ->
    nth_error sl ja = Some (Some (ea, a)) -> leaves a = [uname a] -> ~ In (uname a) grp ->
    Permutation (uname a :: grp) (slot_leaves sl) ->
    lca_rec grp k (UNode n c sl) = LFound p es d -> d = 0.
  Proof.
    intros Hwf Hd HN Ha La Hna HP HL.
    assert (Hg : good (UNode n c sl)) by (right; split; auto).
    assert (NE : kids_of sl <> []).
    { intros K. assert (In (ea, a) (kids_of sl)) by (apply kids_of_In; eapply nth_error_In; eauto).
      rewrite K in H. destruct H. }
    (* a leaf of another child is in the group *)
    assert (Other : forall j e ch x, nth_error sl j = Some (Some (e, ch)) -> j <> ja ->
                                     In x (leaves ch) -> In x grp).
    { intros j e ch x Hj Hne Hx.
      destruct (child_leaves_split sl j e ch Hj) as [A [B E]].
      assert (Hin : In x (slot_leaves sl)) by (rewrite E, !in_app_iff; auto).
      apply Permutation_sym in HP. apply (Permutation_in _ HP) in Hin. destruct Hin as [<-|Hin]; auto.
      exfalso. eapply (two_children_disjoint sl j ja); eauto. rewrite La. now left. }
    assert (Ca : cin grp a = 0).
    { unfold cin, nin. rewrite La. simpl. unfold inb.
      destruct (smem (uname a) grp) eqn:E; auto. apply smem_In in E. contradiction. }
    rewrite lca_rec_unfold in HL. cbv zeta in HL. rewrite (good_inner n c sl Hg NE) in HL.
    cbn [andb] in HL.
    assert (HNok : Forall (not_ok grp (lca_rec grp k)) sl).
    { rewrite Forall_forall. intros [[e' ch]|] Hin; simpl; auto. intros com dd E.
      assert (W : wf_sub ch = true) by (eapply good_child; eauto).
      pose proof (lca_spec_sub grp Hk ch W) as HS. rewrite E in HS. inversion HS; subst. auto. }
    destruct (lca_go_spec grp Hk (lca_rec grp k) sl HNok 0 0 [] 0 0)
      as [(j0&e0&c0&p0&es0&d0&N0&R0&G0)|[AN G0]].
    - rewrite G0 in HL. inversion HL; subst. clear HL.
      assert (W0 : wf_sub c0 = true) by (eapply good_child; eauto; eapply nth_error_In; eauto).
      pose proof (lca_spec_sub grp Hk c0 W0) as HS. rewrite R0 in HS.
      inversion HS as [|p' es' d' n' _ _ Hd0 Hc]; subst.
      assert (Hne : j0 <> ja).
      { intros ->. rewrite Ha in N0. inversion N0; subst. lia. }
      unfold cout in Hd0. rewrite nout_incl in Hd0; [lia|].
      intros x Hx. eapply Other; eauto.
    - rewrite G0 in HL. simpl Nat.add in HL.
      destruct (Nat.eqb (nin grp (slot_leaves sl)) k); [|discriminate].
      inversion HL; subst. clear HL.
      apply nout_incl. intros x Hx.
      destruct (selleaves_In sl x Hx) as (j & e & ch & Hj & Hc & Hin).
      eapply (Other j e ch); eauto. intros ->. rewrite Ha in Hj. inversion Hj; subst. lia.
  Qed.
End Diff0.

(** * every branch leads to a node *)
Lemma bsplits_In_node t : forall x,
  In x (bsplits t) -> exists p vv, p <> [] /\ node_at t p = Some vv /\ snd (fst x) = leaves vv.
Proof.
  induction t as [n c sl IH] using utree_ind'. intros x Hx.
  simpl in Hx. apply in_flat_map in Hx as [s [Hs Hx]].
  destruct s as [[e ch]|]; [|destruct Hx].
  destruct (In_nth_error _ _ Hs) as [j Hj].
  destruct Hx as [<-|Hx].
  - exists [j], ch. simpl. rewrite Hj. repeat split. discriminate.
  - rewrite Forall_forall in IH. specialize (IH _ Hs). simpl in IH.
    destruct (IH x Hx) as (p & vv & Hp & Hn & E).
    exists (j :: p), vv. simpl. rewrite Hj. repeat split; auto. discriminate.
Qed.

(** unrooting keeps the sides (forward direction) *)
Lemma side_unroot_fwd t G :
  wf t = true -> rooted t = true -> Permutation (leaves (unroot t)) (leaves t) ->
  side_of t G -> side_of (unroot t) G.
Proof.
  intros Hwf Hr HL (e & L0 & b & Hin & Hs).
  destruct (unroot_splits t Hwf Hr) as (e1&N1&e2&N2&e3&far&K&Hfar&_&_&B&BU&_).
  assert (Lt : leaves t = leaves N1 ++ leaves N2).
  { destruct t as [n c sl]. unfold kids in K. simpl in K.
    rewrite leaves_node by (rewrite K; discriminate). rewrite K. simpl. now rewrite app_nil_r. }
  assert (In3 : In (e3, leaves far, isleaf far) (bsplits (unroot t))).
  { apply Permutation_sym in BU. apply (Permutation_in _ BU). now left. }
  rewrite Lt in Hs.
  rewrite B in Hin. destruct Hin as [Hin|Hin]; [|apply in_app_or in Hin as [Hin|[Hin|Hin]]].
  - (* the first root branch *)
    inversion Hin; subst e L0 b. exists e3, (leaves far), (isleaf far). split; auto. rewrite HL, Lt.
    destruct Hfar as [->| ->].
    + exact Hs.
    + destruct Hs as [Hs|Hs].
      * right. rewrite <- Hs. apply Permutation_app_comm.
      * left. apply Permutation_app_inv_l in Hs. now symmetry.
  - exists e, L0, b. split; [|now rewrite HL, Lt].
    apply Permutation_sym in BU. apply (Permutation_in _ BU). right. apply in_or_app. now left.
  - (* the second root branch *)
    inversion Hin; subst e L0 b. exists e3, (leaves far), (isleaf far). split; auto. rewrite HL, Lt.
    destruct Hfar as [->| ->].
    + destruct Hs as [Hs|Hs].
      * right. now rewrite <- Hs.
      * left. rewrite (Permutation_app_comm (leaves N1)) in Hs.
        apply Permutation_app_inv_l in Hs. now symmetry.
    + exact Hs.
  - exists e, L0, b. split; [|now rewrite HL, Lt].
    apply Permutation_sym in BU. apply (Permutation_in _ BU). right. apply in_or_app. now right.
Qed.

(** * the temporary root tip is a child of the root of the view *)
Lemma view_tip_slot t1 q lf v :
  node_at t1 q = Some lf -> view_from t1 q = Some v ->
  exists ea, nth_error (uslots (tv_tree v)) (tv_slot v) = Some (Some (ea, lf)).
Proof.
  intros Hn Hv. unfold view_from in Hv.
  destruct q as [|k0 r0]; [discriminate|]. cbv zeta in Hv.
  assert (Hq : k0 :: r0 = removelast (k0 :: r0) ++ [last (k0 :: r0) 0])
    by (apply removelast_last_nat; discriminate).
  remember (removelast (k0 :: r0)) as q' eqn:Eq'.
  remember (last (k0 :: r0) 0) as j eqn:Ej'.
  destruct (reroot_path t1 q') as [t2|] eqn:E2; [|discriminate].
  inversion Hv; subst v. cbn [tv_tree tv_slot].
  rewrite Hq, node_at_app in Hn.
  destruct (node_at t1 q') as [A|] eqn:EA; [|discriminate].
  cbn [node_at] in Hn.
  destruct (nth_error (uslots A) j) as [[[e ch]|]|] eqn:Ej; try discriminate.
  inversion Hn; subst ch. exists e.
  destruct q' as [|k1 r1].
  - simpl in EA, E2. inversion EA; inversion E2; subst. exact Ej.
  - assert (Hq' : k1 :: r1 = removelast (k1 :: r1) ++ [last (k1 :: r1) 0])
      by (apply removelast_last_nat; discriminate).
    rewrite Hq' in EA, E2. rewrite node_at_app in EA.
    destruct (node_at t1 (removelast (k1 :: r1))) as [PA|] eqn:EPA; [|discriminate].
    cbn [node_at] in EA.
    destruct (nth_error (uslots PA) (last (k1 :: r1) 0)) as [[[e' A']|]|] eqn:EA'; try discriminate.
    inversion EA; subst A'.
    destruct (reroot_path_shape _ _ _ _ _ _ EPA EA') as [R ER].
    rewrite ER in E2. inversion E2; subst t2. simpl uslots.
    now apply nth_error_replace_up.
Qed.

(** * (ii) for an outgroup that is one side of a split, strict or not *)
Section SideSetting.
  Variables (t : utree) (names : list string).
  Hypothesis Hwf : wf t = true.
  Hypothesis Hdeg : 2 <= degree t.
  Hypothesis Hin : rooted t = true -> root_has_inner_child t = true.
  Hypothesis HND : NoDup (leaves t).
  Let t1 := unroot t.
  Let grp := group t1 names.
  Hypothesis Hside : side_of t grp.

  Variables (q : list nat) (lf : utree) (v : tipview).
  Hypothesis Hq : In (q, lf) (tip_paths t1).
  Hypothesis Hout : negb (smem (uname lf) grp) = true.
  Hypothesis Hv : view_from t1 q = Some v.
  Let t2 := tv_tree v.

  Lemma side_diff0 p es diff :
    grp <> [] -> lca_rec grp (length grp) (tv_tree v) = LFound p es diff -> diff = 0.
  Proof.
    intros Hne HL.
    destruct (setting_facts t names Hwf Hdeg Hin HND q lf v Hq Hv) as (W1&D1&L1&W2&D2&L2&ND2&NG&IG&SE).
    assert (Hk : 0 < length grp) by (destruct grp; [congruence | simpl; lia]).
    (* the side, seen in the view *)
    assert (S1 : side_of t1 grp).
    { destruct (rooted t) eqn:Hr.
      - apply side_unroot_fwd; auto.
      - unfold t1. now rewrite (unroot_not_rooted t Hr). }
    destruct S1 as [e S1].
    assert (S2 : side_of_e (tv_tree v) grp e).
    { apply (side_transport (leaves t1) (tv_tree v) t1 grp e);
        [symmetry; exact SE | reflexivity | exact L2 | exact S1]. }
    destruct S2 as (L0 & b & Hin0 & Hs).
    destruct (bsplits_In_node (tv_tree v) _ Hin0) as (pv & vv & Hpv & Hnv & E). simpl in E. subst L0.
    destruct Hs as [Hs|Hs].
    - (* the group is the clade below vv *)
      eapply (lca_clade_diff0 grp Hk NG pv (tv_tree v) vv); eauto. right. auto.
    - (* the group is the complement: vv is the temporary root tip *)
      pose proof Hq as Hq'. apply tip_paths_In in Hq' as [Hnq Htip].
      destruct (view_tip_slot t1 q lf v Hnq Hv) as [ea Ha]. 
      destruct (tv_tree v) as [n2 c2 sl2] eqn:E2. simpl uslots in Ha.
      assert (Wlf : wf_sub lf = true).
      { rewrite wf_unfold in W2. apply andb_true_iff in W2 as [_ W2]. rewrite forallb_forall in W2.
        apply (W2 (ea, lf)). apply kids_of_In. eapply nth_error_In; eauto. }
      assert (Slf : uslots lf = [None]).
      { destruct lf as [nl cl sll]. rewrite wf_sub_unfold in Wlf. apply andb_true_iff in Wlf as [U _].
        apply Nat.eqb_eq in U. unfold is_tip, degree in Htip. simpl in *. apply Nat.eqb_eq in Htip.
        destruct sll as [|s [|s2 r]]; simpl in Htip; try lia.
        destruct s; [unfold n_up in U; simpl in U; lia | reflexivity]. }
      assert (Llf : leaves lf = [uname lf]) by (destruct lf as [nl cl sll]; simpl in Slf; subst sll; reflexivity).
      assert (Hna : ~ In (uname lf) grp).
      { intros H. apply smem_In in H. rewrite H in Hout. discriminate. }
      assert (NE : kids_of sl2 <> []).
      { intros K. assert (In (ea, lf) (kids_of sl2)) by (apply kids_of_In; eapply nth_error_In; eauto).
        rewrite K in H. destruct H. }
      assert (Ls : leaves (UNode n2 c2 sl2) = slot_leaves sl2) by (apply leaves_node; exact NE).
      rewrite Ls in *.
      (* the temporary root tip is below vv, hence vv is that tip *)
      assert (Ain : In (uname lf) (leaves vv)).
      { assert (In (uname lf) (slot_leaves sl2)).
        { destruct (child_leaves_split sl2 _ ea lf Ha) as [A [B E]]. rewrite E, Llf, !in_app_iff. simpl. auto. }
        apply Permutation_sym in Hs. apply (Permutation_in _ Hs) in H.
        apply in_app_or in H as [H|H]; [auto | contradiction]. }
      destruct pv as [|j pv']; [congruence|]. simpl in Hnv.
      destruct (nth_error sl2 j) as [[[ej cj]|]|] eqn:Ej; try discriminate.
      assert (Hj : j = tv_slot v).
      { destruct (Nat.eq_dec j (tv_slot v)) as [|Hne']; auto. exfalso.
        eapply (two_children_disjoint sl2 j (tv_slot v)); eauto.
        - apply (node_at_incl cj pv' vv Hnv). exact Ain.
        - rewrite Llf. now left. }
      subst j. rewrite Ha in Ej. inversion Ej; subst ej cj.
      assert (pv' = []).
      { destruct pv' as [|k2 r2]; auto. simpl in Hnv. rewrite Slf in Hnv.
        destruct k2 as [|[|k2]]; simpl in Hnv; discriminate. }
      subst pv'. simpl in Hnv. inversion Hnv; subst vv.
      unfold degree in D2. simpl in D2.
      rewrite Llf in Hs. simpl in Hs.
      eapply (lca_cotip_diff0 grp Hk); eauto.
  Qed.
End SideSetting.

Theorem outgroup_side_clade strict t names t' :
  wf t = true -> 2 <= degree t -> (rooted t = true -> root_has_inner_child t = true) ->
  NoDup (leaves t) ->
  side_of t (group (unroot t) names) ->
  reroot_outgroup false strict t names = Ok t' ->
  let G := group (unroot t) names in
  exists e e1 c1 e2 c2,
    kids t' = [(e1, c1); (e2, c2)] /\ degree t' = 2 /\
    e1 = half_edge e /\ e2 = half_edge e /\
    side_of_e (unroot t) G e /\
    (Permutation (leaves c1) G \/ Permutation (leaves c2) G).
Proof.
  intros Hwf Hd Hi HND Hside H G.
  destruct (reroot_outgroup_keep_inv _ _ _ _ H)
    as (q&lf&v&p&es&diff&pp&ks&lower&P&e&_&Hne&Hf&Hv&_&HL&_&HR&HP&He&Hc).
  apply find_some in Hf as [Hq Hout]. simpl in Hout.
  assert (diff = 0) by (eapply (side_diff0 t names); eauto). subst diff.
  destruct (chosen_branch_side t names Hwf Hd Hi HND q lf v Hq Hv p es pp ks lower Hne HL HR)
    as (P'&e'&ch&HP'&HK&Hs&Ht&Hfl).
  assert (P' = P) by congruence. subst P'.
  assert (e' = e) by (unfold edge_at in He; rewrite HK in He; congruence). subst e'.
  destruct (setting_facts t names Hwf Hd Hi HND q lf v Hq Hv) as (W1&D1&L1&W2&D2&L2&ND2&NG&IG&SE).
  destruct (cut_and_root_spec len0 (tv_tree v) pp ks (is_prefix (pp ++ [ks]) (tv_root v))
              (half_edge e) (half_edge e) P e ch W2 D2 HP HK (len0_half_edge e))
    as [t4 [R [E4 [S4 [W4 [L4 _]]]]]].
  assert (Et : t4 = t') by congruence. rewrite Et in *. clear Et E4.
  assert (LC : leaves (cut_child ch) = leaves ch) by (destruct (cut_child_obs len0 ch) as [LC _]; exact LC).
  assert (LR : lower = false -> Permutation (leaves R) G).
  { intros El. destruct (Hfl El) as [Epp Hperm]. subst pp. simpl in HP. inversion HP; subst P.
    assert (NE : kids_of (uslots (tv_tree v)) <> []).
    { intros K. assert (In (e, ch) (kids_of (uslots (tv_tree v)))) by (apply kids_of_In; eapply nth_error_In; eauto).
      rewrite K in H0. destruct H0. }
    destruct (tv_tree v) as [n2 c2 sl2] eqn:E2. simpl uslots in *.
    rewrite (leaves_node n2 c2 sl2 NE) in L4. fold (slot_leaves sl2) in L4.
    rewrite (slot_leaves_remove sl2 ks e ch HK), Hperm in L4.
    rewrite S4 in L4.
    destruct (is_prefix _ _).
    - rewrite leaves_node in L4 by (simpl; discriminate). simpl in L4. rewrite app_nil_r, LC in L4.
      now apply Permutation_app_inv_l in L4.
    - rewrite leaves_node in L4 by (simpl; discriminate). simpl in L4. rewrite app_nil_r, LC in L4.
      rewrite Permutation_app_comm in L4. now apply Permutation_app_inv_l in L4. }
  rewrite S4. destruct (is_prefix (pp ++ [ks]) (tv_root v)).
  - exists e, (half_edge e), (cut_child ch), (half_edge e), R. repeat split; auto.
    destruct lower; [left; rewrite LC; now apply Ht | right; now apply LR].
  - exists e, (half_edge e), R, (half_edge e), (cut_child ch). repeat split; auto.
    destruct lower; [right; rewrite LC; now apply Ht | left; now apply LR].
Qed.

(** * any success without removal (in particular a non-monophyletic outgroup in non-strict
    mode): the requested tips are all below one of the two children of the new root *)
Theorem outgroup_inside_one_clade strict t names t' :
  wf t = true -> 2 <= degree t -> (rooted t = true -> root_has_inner_child t = true) ->
  NoDup (leaves t) ->
  reroot_outgroup false strict t names = Ok t' ->
  let G := group (unroot t) names in
  exists e1 c1 e2 c2,
    kids t' = [(e1, c1); (e2, c2)] /\ degree t' = 2 /\
    (incl G (leaves c1) \/ incl G (leaves c2)).
Proof.
  intros Hwf Hd Hi HND H G.
  destruct (reroot_outgroup_keep_inv _ _ _ _ H)
    as (q&lf&v&p&es&diff&pp&ks&lower&P&e&_&Hne&Hf&Hv&_&HL&_&HR&HP&He&Hc).
  apply find_some in Hf as [Hq _].
  destruct (setting_facts t names Hwf Hd Hi HND q lf v Hq Hv) as (W1&D1&L1&W2&D2&L2&ND2&NG&IG&SE).
  assert (Hk : 0 < length (group (unroot t) names)) by (destruct (group (unroot t) names); [congruence | simpl; lia]).
  destruct (root_edge_inside (group (unroot t) names) (tv_tree v) Hk W2 D2 ND2 NG IG p es diff pp ks lower HL HR)
    as (P'&e'&ch&HP'&HK&Ht&Hfl).
  assert (P' = P) by congruence. subst P'.
  assert (e' = e) by (unfold edge_at in He; rewrite HK in He; congruence). subst e'.
  destruct (cut_and_root_spec len0 (tv_tree v) pp ks (is_prefix (pp ++ [ks]) (tv_root v))
              (half_edge e) (half_edge e) P e ch W2 D2 HP HK (len0_half_edge e))
    as [t4 [R [E4 [S4 [W4 [L4 _]]]]]].
  assert (Et : t4 = t') by congruence. rewrite Et in *. clear Et E4.
  assert (LC : leaves (cut_child ch) = leaves ch) by (destruct (cut_child_obs len0 ch) as [LC _]; exact LC).
  assert (LR : lower = false -> incl G (leaves R)).
  { intros El. destruct (Hfl El) as [Epp Hincl]. subst pp. simpl in HP. inversion HP; subst P.
    assert (NE : kids_of (uslots (tv_tree v)) <> []).
    { intros K. assert (In (e, ch) (kids_of (uslots (tv_tree v)))) by (apply kids_of_In; eapply nth_error_In; eauto).
      rewrite K in H0. destruct H0. }
    destruct (tv_tree v) as [n2 c2 sl2] eqn:E2. simpl uslots in *.
    rewrite (leaves_node n2 c2 sl2 NE) in L4, ND2. fold (slot_leaves sl2) in L4, ND2.
    rewrite (slot_leaves_remove sl2 ks e ch HK) in L4.
    assert (LR' : Permutation (leaves R) (slot_leaves (remove_nth ks sl2))).
    { rewrite S4 in L4. destruct (is_prefix _ _).
      - rewrite leaves_node in L4 by (simpl; discriminate). simpl in L4. rewrite app_nil_r, LC in L4.
        now apply Permutation_app_inv_l in L4.
      - rewrite leaves_node in L4 by (simpl; discriminate). simpl in L4. rewrite app_nil_r, LC in L4.
        rewrite Permutation_app_comm in L4. now apply Permutation_app_inv_l in L4. }
    intros x Hx. apply Permutation_sym in LR'. apply (Permutation_in _ LR'). now apply Hincl. }
  rewrite S4. destruct (is_prefix (pp ++ [ks]) (tv_root v)).
  - exists (half_edge e), (cut_child ch), (half_edge e), R. repeat split; auto.
    destruct lower; [left; rewrite LC; now apply Ht | right; now apply LR].
  - exists (half_edge e), R, (half_edge e), (cut_child ch). repeat split; auto.
    destruct lower; [right; rewrite LC; now apply Ht | left; now apply LR].
Qed.
