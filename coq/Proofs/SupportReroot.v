(** C10: independence of the rooting and of the child order of every tree.
    Bridge from the C05 theorems (re-rooting, unrooting and reordering preserve the branches of
    the tree seen as unrooted: [reroot_all], [unroot_splits], [tperm_all]) to [same_bips], and
    from there, with SupportInvariance.v, to the supports. *)
From Coq Require Import String ZArith QArith Bool Arith Lia Permutation List.
From GT Require Import Base.UTree Spec.Obs Spec.Support Spec.Unrooted Model.Reroot Model.Support
     Proofs.RerootBase Proofs.Splits Proofs.Unroot Proofs.C05Main
     Proofs.SupportBase Proofs.SupportMTD Proofs.SupportClosed Proofs.SupportSpec Proofs.SupportInvariance.
Import ListNotations.
Local Close Scope Q_scope.

(** * [clades] is the list of the far sides of [bsplits] *)
Definition far_side (x : einfo * list string * bool) : list string := snd (fst x).

Lemma clades_bsplits : forall t, clades t = map far_side (bsplits t).
Proof.
  induction t as [n c sl IH] using utree_ind'. simpl.
  induction sl as [|s sl IHsl]; [reflexivity|]. simpl.
  rewrite map_app. rewrite IHsl by (inversion IH; assumption).
  destruct s as [[e ch]|]; [|reflexivity]. simpl. inversion IH as [|? ? H1 H2]; subst.
  rewrite H1. reflexivity.
Qed.

(** * the same branch of the unrooted tree defines the same bipartition *)
Lemma perm_mem : forall A B x, Permutation A B -> mem x A = mem x B.
Proof.
  intros A B x P. destruct (mem x A) eqn:E1, (mem x B) eqn:E2; try reflexivity; exfalso.
  - apply mem_In in E1. apply mem_false in E2. apply E2. eapply Permutation_in; eassumption.
  - apply mem_In in E2. apply mem_false in E1. apply E1. eapply Permutation_in; [apply Permutation_sym|]; eassumption.
Qed.

Lemma perm_app_compl : forall (A B L : list string) x,
    NoDup L -> Permutation (A ++ B) L -> In x L -> mem x A = negb (mem x B).
Proof.
  intros A B L x N P Hx.
  assert (N' : NoDup (A ++ B)) by (eapply Permutation_NoDup; [apply Permutation_sym; exact P|exact N]).
  assert (Hin : In x (A ++ B)) by (eapply Permutation_in; [apply Permutation_sym; exact P|exact Hx]).
  destruct (mem x A) eqn:E1, (mem x B) eqn:E2; try reflexivity; exfalso.
  - apply mem_In in E1. apply mem_In in E2. apply in_split in E1. destruct E1 as [a1 [a2 ->]].
    rewrite <- app_assoc in N'. simpl in N'. apply nodup_app_r in N'. inversion N' as [|? ? H1 H2]; subst.
    apply H1. apply in_or_app. right. exact E2.
  - apply mem_false in E1. apply mem_false in E2. apply in_app_or in Hin. tauto.
Qed.

Lemma bs_eq_same_split : forall L X x y,
    NoDup L -> incl X L -> bs_eq L x y -> same_split X (far_side x) (far_side y) = true.
Proof.
  intros L X x y N I (_ & _ & [H|H]); apply same_split_spec; unfold far_side.
  - left. intros z _. apply perm_mem. exact H.
  - right. intros z Hz. apply (perm_app_compl _ _ L z N H). apply I. exact Hz.
Qed.

Lemma splits_equiv_same_bips : forall L X T T',
    NoDup L -> incl X L -> splits_equiv L (bsplits T') (bsplits T) -> same_bips X T T'.
Proof.
  intros L X T T' N I S. unfold splits_equiv in S.
  pose proof (PermR_In _ _ (bs_eq_Equivalence L) _ _ S) as H1.
  pose proof (PermR_In _ _ (bs_eq_Equivalence L) _ _ (PermR_sym _ _ (bs_eq_Equivalence L) _ _ S)) as H2.
  unfold same_bips. rewrite !clades_bsplits. split; intros B HB; apply in_map_iff in HB; destruct HB as [x [<- Hx]].
  - destruct (H2 x Hx) as [y [Hy R]]. exists (far_side y). split; [apply in_map; exact Hy|].
    eapply bs_eq_same_split; eassumption.
  - destruct (H1 x Hx) as [y [Hy R]]. exists (far_side y). split; [apply in_map; exact Hy|].
    eapply bs_eq_same_split; eassumption.
Qed.

Lemma bs_same_same_bips : forall X T T', PermR bs_same (bsplits T') (bsplits T) -> same_bips X T T'.
Proof.
  intros X T T' S.
  pose proof (PermR_In _ _ bs_same_Equivalence _ _ S) as H1.
  pose proof (PermR_In _ _ bs_same_Equivalence _ _ (PermR_sym _ _ bs_same_Equivalence _ _ S)) as H2.
  assert (R : forall x y, bs_same x y -> same_split X (far_side x) (far_side y) = true).
  { intros x y (_ & _ & P). apply same_split_spec. left. intros z _. apply perm_mem. exact P. }
  unfold same_bips. rewrite !clades_bsplits. split; intros B HB; apply in_map_iff in HB; destruct HB as [x [<- Hx]].
  - destruct (H2 x Hx) as [y [Hy Rxy]]. exists (far_side y). split; [apply in_map; exact Hy|apply R; exact Rxy].
  - destruct (H1 x Hx) as [y [Hy Rxy]]. exists (far_side y). split; [apply in_map; exact Hy|apply R; exact Rxy].
Qed.

(** unrooting: the two root branches (one bipartition) become one branch *)
Lemma unroot_same_bips : forall X t,
    wf t = true -> rooted t = true -> NoDup (leaves t) -> incl X (leaves t) ->
    same_bips X t (unroot t).
Proof.
  intros X t W R N I.
  destruct (unroot_splits t W R) as (e1 & N1 & e2 & N2 & e3 & far & K & Hfar & _ & _ & B & P & _).
  assert (L : leaves t = leaves N1 ++ leaves N2).
  { destruct t as [n c sl]. unfold kids in K. cbn [uslots] in K.
    rewrite leaves_root by (rewrite K; discriminate).
    rewrite flat_map_kids, K. simpl. rewrite app_nil_r. reflexivity. }
  assert (C12 : same_split X (leaves N1) (leaves N2) = true).
  { apply same_split_spec. right. intros x Hx. apply (perm_app_compl _ _ (leaves t) x N).
    - rewrite L. reflexivity.
    - apply I. exact Hx. }
  assert (Cfar1 : same_split X (leaves N1) (leaves far) = true)
    by (destruct Hfar as [->| ->]; [apply same_split_refl|exact C12]).
  assert (Cfar2 : same_split X (leaves N2) (leaves far) = true)
    by (destruct Hfar as [->| ->]; [apply same_split_sym; exact C12|apply same_split_refl]).
  unfold same_bips. rewrite !clades_bsplits, B. split.
  - intros A HA. apply in_map_iff in HA. destruct HA as [x [<- Hx]].
    assert (Hcase : x = (e1, leaves N1, isleaf N1) \/ x = (e2, leaves N2, isleaf N2) \/
                    In x (bsplits N1 ++ bsplits N2)).
    { destruct Hx as [<-|Hx]; [left; reflexivity|]. apply in_app_or in Hx.
      destruct Hx as [Hx|[<-|Hx]]; [right; right; apply in_or_app; left; exact Hx|right; left; reflexivity|
                                    right; right; apply in_or_app; right; exact Hx]. }
    destruct Hcase as [->|[->|Hx']].
    + exists (leaves far). split; [|exact Cfar1].
      apply in_map_iff. exists (e3, leaves far, isleaf far). split; [reflexivity|].
      eapply Permutation_in; [apply Permutation_sym; exact P|left; reflexivity].
    + exists (leaves far). split; [|exact Cfar2].
      apply in_map_iff. exists (e3, leaves far, isleaf far). split; [reflexivity|].
      eapply Permutation_in; [apply Permutation_sym; exact P|left; reflexivity].
    + exists (far_side x). split; [|apply same_split_refl].
      apply in_map. eapply Permutation_in; [apply Permutation_sym; exact P|right; exact Hx'].
  - intros A HA. apply in_map_iff in HA. destruct HA as [x [<- Hx]].
    apply (Permutation_in _ P) in Hx. destruct Hx as [<-|Hx].
    + exists (leaves far). split; [|apply same_split_refl]. unfold far_side. cbn [fst snd].
      destruct Hfar as [->| ->].
      * apply in_map_iff. exists (e1, leaves N1, isleaf N1). split; [reflexivity|left; reflexivity].
      * apply in_map_iff. exists (e2, leaves N2, isleaf N2). split; [reflexivity|].
        right. apply in_or_app. right. left. reflexivity.
    + exists (far_side x). split; [|apply same_split_refl]. apply in_map. right.
      apply in_app_or in Hx. apply in_or_app. destruct Hx as [Hx|Hx]; [left; exact Hx|right; right; exact Hx].
Qed.

(** * the operations *)
(** [t'] is [t] re-rooted, or [t] with the children of its nodes in another order (Reroot,
    RotateInternalNodes, SortNeighborsByTips, any [tperm]), or a rooted [t] unrooted (UnRoot), or
    a succession of such steps *)
Inductive rearranged : utree -> utree -> Prop :=
| Rr_refl : forall t, rearranged t t
| Rr_reroot : forall t i t', reroot t i = Ok t' -> rearranged t t'
| Rr_order : forall t t', tperm t t' -> rearranged t t'
| Rr_unroot : forall t, rooted t = true -> root_has_inner_child t = true -> no_single t = true ->
                        rearranged t (unroot t)
| Rr_trans : forall t1 t2 t3, rearranged t1 t2 -> rearranged t2 t3 -> rearranged t1 t3.

Lemma good_perm_leaves : forall t t',
    wf t' = true -> 2 <= degree t' -> Permutation (leaves t') (leaves t) -> good t -> good t'.
Proof.
  intros t t' W D P [_ [_ N]]. split; [exact W|]. split; [exact D|].
  eapply Permutation_NoDup; [apply Permutation_sym; exact P|exact N].
Qed.

Theorem rearranged_good : forall t t',
    rearranged t t' -> good t ->
    good t' /\ Permutation (leaves t') (leaves t) /\ forall X, incl X (leaves t) -> same_bips X t t'.
Proof.
  intros t t' R. induction R as [t|t i t' H|t t' H|t Hr Hi Hs|t1 t2 t3 R1 IH1 R2 IH2]; intros G.
  - split; [exact G|]. split; [reflexivity|]. intros X _. apply same_bips_refl.
  - destruct G as [W [D N]].
    destruct (reroot_all t i t' W D H) as [W' [D' [P [_ [_ [S _]]]]]].
    split; [eapply good_perm_leaves; try eassumption; repeat split; assumption|]. split; [exact P|].
    intros X I. eapply splits_equiv_same_bips; eassumption.
  - destruct G as [W [D N]].
    destruct (tperm_all t t' H) as [W' [D' [P [_ [_ [_ [S _]]]]]]].
    split; [eapply good_perm_leaves; try eassumption; [apply W'; exact W|lia|repeat split; assumption]|].
    split; [exact P|]. intros X _. apply bs_same_same_bips. exact S.
  - destruct G as [W [D N]].
    destruct (unroot_all t W Hr Hi) as [W' [P [_ [_ [_ [_ D']]]]]].
    split; [eapply good_perm_leaves; try eassumption; [specialize (D' Hs); lia|repeat split; assumption]|].
    split; [exact P|]. intros X I. apply unroot_same_bips; assumption.
  - destruct (IH1 G) as [G2 [P2 B2]]. destruct (IH2 G2) as [G3 [P3 B3]].
    split; [exact G3|]. split; [etransitivity; eassumption|].
    intros X I. eapply same_bips_trans; [apply B2; exact I|]. apply B3.
    intros x Hx. eapply Permutation_in; [apply Permutation_sym; exact P2|]. apply I. exact Hx.
Qed.

(** * the supports do not depend on the rooting or child order of the bootstrap trees *)
Lemma domain_rearranged : forall ref boots boots',
    domain ref boots -> Forall2 rearranged boots boots' ->
    domain ref boots' /\ Forall2 (same_bips (leaves ref)) boots boots'.
Proof.
  intros ref boots boots' [G F] R. induction R as [|b b' l l' H R IH].
  - split; [split; [exact G|constructor]|constructor].
  - inversion F as [|? ? [Gb Sb] F']; subst.
    destruct (IH F') as [[_ D'] B'].
    destruct (rearranged_good b b' H Gb) as [Gb' [P Bb]].
    split; [split; [exact G|]|].
    + constructor; [|exact D']. split; [exact Gb'|].
      intros x. rewrite (Sb x). split; intros Hx; eapply Permutation_in; try eassumption.
      apply Permutation_sym. exact P.
    + constructor; [|exact B']. apply Bb. intros x Hx. apply Sb. exact Hx.
Qed.

Theorem fbp_bootstrap_rooting : forall ref boots boots' e c,
    domain ref boots -> Forall2 rearranged boots boots' ->
    In (e, c) (edges ref) -> 2 <= topo_depth ref c ->
    fbp_val ref boots c = fbp_val ref boots' c.
Proof.
  intros ref boots boots' e c D R Hin P. destruct (domain_rearranged ref boots boots' D R) as [D' B].
  eapply fbp_model_bips; eassumption.
Qed.

Theorem tbe_bootstrap_rooting : forall ref boots boots' e c,
    domain ref boots -> Forall2 rearranged boots boots' ->
    In (e, c) (edges ref) -> 2 <= topo_depth ref c -> boots <> [] ->
    tbe_val ref boots c = tbe_val ref boots' c.
Proof.
  intros ref boots boots' e c D R Hin P NE. destruct (domain_rearranged ref boots boots' D R) as [D' B].
  eapply tbe_model_bips; eassumption.
Qed.

(** * ... nor on those of the reference tree: a branch of the rearranged reference defining
    the same bipartition gets the same supports *)
Lemma forallb_perm : forall A (f : A -> bool) l l', Permutation l l' -> forallb f l = forallb f l'.
Proof.
  intros A f l l' P. induction P; simpl; try congruence.
  destruct (f x), (f y); reflexivity.
Qed.

Lemma same_split_permX : forall X X' A B, Permutation X X' -> same_split X A B = same_split X' A B.
Proof.
  intros X X' A B P.
  destruct (same_split X A B) eqn:E1, (same_split X' A B) eqn:E2; try reflexivity; exfalso.
  - apply same_split_spec in E1. assert (same_split X' A B = true); [|congruence].
    apply same_split_spec. destruct E1 as [H|H]; [left|right]; intros x Hx; apply H;
      (eapply Permutation_in; [apply Permutation_sym; exact P|exact Hx]).
  - apply same_split_spec in E2. assert (same_split X A B = true); [|congruence].
    apply same_split_spec. destruct E2 as [H|H]; [left|right]; intros x Hx; apply H;
      (eapply Permutation_in; [exact P|exact Hx]).
Qed.

Lemma fbp_spec_permX : forall X X' A boots, Permutation X X' -> fbp_spec X A boots = fbp_spec X' A boots.
Proof.
  intros X X' A boots P. unfold fbp_spec, n_with_split.
  rewrite (filter_ext (has_split X A) (has_split X' A)); [reflexivity|].
  intros T. unfold has_split. apply existsb_ext_in. intros B _. apply same_split_permX. exact P.
Qed.

Lemma tdist_perm : forall X X' L L' B,
    Permutation X X' -> (forall x, In x X -> mem x L = mem x L') -> tdist X L B = tdist X' L' B.
Proof.
  intros X X' L L' B P H. unfold tdist, symdiff.
  fold (cnt (fun x => xorb (smem x L) (smem x B)) X). fold (cnt (fun x => xorb (smem x L') (smem x B)) X').
  rewrite (Permutation_length P).
  rewrite <- (cnt_perm _ (fun x => xorb (smem x L') (smem x B)) _ _ P).
  rewrite (cnt_ext_in _ (fun x => xorb (smem x L) (smem x B)) (fun x => xorb (smem x L') (smem x B)) X); [reflexivity|].
  intros x Hx. change (smem x L) with (mem x L). change (smem x L') with (mem x L'). rewrite (H x Hx). reflexivity.
Qed.

Lemma light_perm : forall X X' A, Permutation X X' -> Permutation (light X A) (light X' A).
Proof.
  intros X X' A P. unfold light, sinter, sdiff.
  assert (P1 : Permutation (filter (fun x => smem x A) X) (filter (fun x => smem x A) X')).
  { clear -P. induction P; simpl; try (destruct (smem x A)); try (destruct (smem y A)); auto.
    - apply perm_swap.
    - etransitivity; eassumption. }
  assert (P2 : Permutation (filter (fun x => negb (smem x A)) X) (filter (fun x => negb (smem x A)) X')).
  { clear -P. induction P; simpl; try (destruct (smem x A)); try (destruct (smem y A)); simpl; auto.
    - apply perm_swap.
    - etransitivity; eassumption. }
  rewrite (Permutation_length P1), (Permutation_length P2).
  destruct (Nat.leb _ _); assumption.
Qed.

Lemma tbe_spec_permX : forall X X' A boots, Permutation X X' -> tbe_spec X A boots = tbe_spec X' A boots.
Proof.
  intros X X' A boots P. unfold tbe_spec.
  pose proof (light_perm X X' A P) as PL. rewrite (Permutation_length PL).
  assert (E : sum_delta X (light X A) boots = sum_delta X' (light X' A) boots).
  { induction boots as [|T l IH]; [reflexivity|]. simpl. rewrite IH. f_equal.
    unfold delta. rewrite (Permutation_length P). f_equal. apply map_ext. intros B.
    apply tdist_perm; [exact P|]. intros x _. apply perm_mem. exact PL. }
  rewrite E. reflexivity.
Qed.

Theorem reference_rooting : forall ref ref' boots e c e' c',
    domain ref boots -> rearranged ref ref' ->
    In (e, c) (edges ref) -> In (e', c') (edges ref') ->
    same_split (leaves ref) (leaves c) (leaves c') = true ->
    2 <= topo_depth ref c -> 2 <= topo_depth ref' c' -> boots <> [] ->
    fbp_val ref boots c = fbp_val ref' boots c' /\ tbe_val ref boots c = tbe_val ref' boots c'.
Proof.
  intros ref ref' boots e c e' c' [G F] R Hin Hin' S P P' NE.
  destruct (rearranged_good ref ref' R G) as [G' [PL _]].
  assert (D' : domain ref' boots).
  { split; [exact G'|]. eapply Forall_impl; [|exact F]. intros b [Gb Sb]. split; [exact Gb|].
    intros x. rewrite <- (Sb x). split; intros Hx; eapply Permutation_in; try eassumption.
    apply Permutation_sym. exact PL. }
  rewrite (fbp_model_spec ref boots e c (conj G F) Hin P), (fbp_model_spec ref' boots e' c' D' Hin' P').
  rewrite (tbe_model_spec ref boots e c (conj G F) Hin P NE), (tbe_model_spec ref' boots e' c' D' Hin' P' NE).
  rewrite <- (fbp_spec_permX _ _ (leaves c') boots (Permutation_sym PL)).
  rewrite <- (tbe_spec_permX _ _ (leaves c') boots (Permutation_sym PL)).
  split; [apply fbp_spec_same_split|apply tbe_spec_same_split]; exact S.
Qed.
