(** C16: branch lengths of RandomBalancedBinaryTree are the gostats.Exp values (and, for the
    branch created by UnRoot, the sum of two of them): non-negative when those are. *)
From Coq Require Import String ZArith QArith Bool Arith Lia List Permutation.
From GT Require Import Base.UTree Spec.Obs Spec.GenShape Model.Reroot Model.Rand2 Model.TreeGen
     Proofs.TreeGenLens Proofs.TreeGenBal.
Import ListNotations.
Local Close Scope Q_scope.

Lemma nonneg_hd ls : Forall nonneg ls -> 1 <= length ls -> nonneg (hd nilv ls).
Proof. intros H L. destruct ls; [simpl in L; lia|]. now inversion H. Qed.
Lemma nonneg_tl ls : Forall nonneg ls -> Forall nonneg (tl ls).
Proof. intros H. destruct ls; auto. now inversion H. Qed.
Lemma length_tl {A} (l : list A) : length (tl l) = length l - 1.
Proof. destruct l; simpl; lia. Qed.

Lemma pow2_pos d : 1 <= 2 ^ d.
Proof. induction d; simpl; lia. Qed.

Lemma bal_rec_lens d : forall ls id,
  Forall nonneg ls -> 2 ^ S (S d) - 2 <= length ls ->
  let '(sl, ls', _) := bal_rec (S d) ls id in
  lens_nonneg (UNode EmptyString [] sl) = true /\ Forall nonneg ls' /\
  length ls' = length ls - (2 ^ S (S d) - 2).
Proof.
  induction d as [|d IH]; intros ls id Hn Hl.
  - rewrite bal_rec_S. cbv zeta. simpl in Hl.
    assert (H1 : nonneg (hd nilv ls)) by (apply nonneg_hd; auto; lia).
    assert (H2 : nonneg (hd nilv (tl ls))) by (apply nonneg_hd; [now apply nonneg_tl|rewrite length_tl; lia]).
    split; [|split].
    + rewrite lens_nonneg_def. cbn [forallb eL elen]. unfold nonneg in *. now rewrite H1, H2.
    + now do 2 apply nonneg_tl.
    + rewrite !length_tl. simpl. lia.
  - rewrite bal_rec_S. cbv zeta.
    pose proof (pow2_pos d) as Pd.
    assert (E : 2 ^ S (S (S d)) = 2 ^ S (S d) + 2 ^ S (S d)) by (simpl; lia).
    assert (E2 : 2 ^ S (S d) = 4 * 2 ^ d) by (simpl; lia).
    assert (H1 : nonneg (hd nilv ls)) by (apply nonneg_hd; auto; lia).
    assert (H2 : nonneg (hd nilv (tl ls))) by (apply nonneg_hd; [now apply nonneg_tl|rewrite length_tl; lia]).
    assert (Hn2 : Forall nonneg (tl (tl ls))) by now do 2 apply nonneg_tl.
    assert (Hl2 : 2 ^ S (S d) - 2 <= length (tl (tl ls))) by (rewrite !length_tl; lia).
    pose proof (IH (tl (tl ls)) id Hn2 Hl2) as IH1.
    destruct (bal_rec (S d) (tl (tl ls)) id) as [[s1 ls3] id1].
    destruct IH1 as [N1 [F1 L1]].
    assert (Hl3 : 2 ^ S (S d) - 2 <= length ls3) by (rewrite L1, !length_tl; lia).
    pose proof (IH ls3 id1 F1 Hl3) as IH2.
    destruct (bal_rec (S d) ls3 id1) as [[s2 ls4] id2].
    destruct IH2 as [N2 [F2 L2]].
    split; [|split]; auto.
    + rewrite lens_nonneg_def in *. cbn [forallb eL elen]. unfold nonneg in *. rewrite H1, H2.
      rewrite !lens_nonneg_def. cbn [forallb]. now rewrite N1, N2.
    + rewrite L2, L1, !length_tl. lia.
Qed.

Theorem balanced_tree_rooted_lens d ls t : 1 <= d ->
  Forall nonneg ls -> length ls = plan_floats (balanced_plan d true) ->
  balanced_tree d true ls = GOk t -> lens_nonneg t = true.
Proof.
  intros Hd Hn Hl. destruct d as [|d]; [lia|].
  unfold balanced_plan in Hl. cbn [Nat.ltb Nat.leb negb andb orb] in Hl. rewrite ?andb_false_r in Hl. cbn [orb] in Hl.
  unfold plan_floats in Hl.
  assert (F : forall k, length (filter (fun d0 : draw => match d0 with DFloat => true | _ => false end) (repeat DFloat k)) = k).
  { induction k; simpl; auto. }
  rewrite F in Hl.
  unfold balanced_tree. cbn [Nat.ltb Nat.leb negb]. rewrite andb_false_r.
  pose proof (bal_rec_lens d ls 0 Hn) as H. rewrite Hl in H. specialize (H (le_n _)).
  destruct (bal_rec (S d) ls 0) as [[sl ls'] id']. cbn [fst].
  intros E. inversion E; subst. apply H.
Qed.

Lemma qmax_nonneg a b : nonneg a -> nonneg (qmax a b).
Proof.
  unfold qmax, nonneg. intros H. destruct (Qle_bool a b) eqn:E; auto.
  apply Qle_bool_iff in H. apply Qle_bool_iff in E. apply Qle_bool_iff. eapply Qle_trans; eauto.
Qed.

Theorem balanced_tree_unrooted_lens d ls t : 2 <= d ->
  Forall nonneg ls -> length ls = plan_floats (balanced_plan d false) ->
  balanced_tree d false ls = GOk t -> lens_nonneg t = true.
Proof.
  intros Hd Hn Hl. destruct d as [|[|d]]; try lia.
  unfold balanced_plan in Hl. cbn [Nat.ltb Nat.leb negb andb orb] in Hl.
  unfold plan_floats in Hl.
  assert (F : forall k, length (filter (fun d0 : draw => match d0 with DFloat => true | _ => false end) (repeat DFloat k)) = k).
  { induction k; simpl; auto. }
  rewrite F in Hl.
  unfold balanced_tree. cbn [Nat.ltb Nat.leb negb andb].
  pose proof (bal_rec_lens (S d) ls 0 Hn) as H. rewrite Hl in H. specialize (H (le_n _)).
  pose proof (bal_rec_spec (S d) ls 0) as Hs.
  destruct (bal_rec (S (S d)) ls 0) as [[sl ls'] id']. cbn [fst].
  destruct H as [N _]. destruct Hs as [[e1 [c1 [e2 [c2 [-> [W1 [W2 [B1 [B2 [P1 P2]]]]]]]]]] _].
  intros E. inversion E; subst. clear E.
  rewrite lens_nonneg_def in N. cbn [forallb] in N.
  apply andb_true_iff in N as [N1 N2]. apply andb_true_iff in N1 as [L1 N1].
  apply andb_true_iff in N2 as [N2 _]. apply andb_true_iff in N2 as [L2 N2].
  destruct c1 as [n1 cc1 sl1], c2 as [n2 cc2 sl2].
  simpl in P1, P2.
  (* both children are inner nodes with three neighbours *)
  apply andb_true_iff in P1 as [P1 _]. apply andb_true_iff in P1 as [_ D1]. apply Nat.eqb_eq in D1.
  unfold degree in D1. simpl in D1.
  cbn [unroot]. rewrite D1. cbn [Nat.eqb negb andb orb].
  assert (Z : nonneg 0%Q) by reflexivity.
  assert (Q1 : (negb (qeqb (elen e1) nilv) || negb (qeqb (elen e2) nilv)) = true).
  { apply orb_true_iff. left. apply negb_true_iff. unfold qeqb.
    destruct (Qeq_bool (elen e1) nilv) eqn:Eq; auto.
    apply Qeq_bool_iff in Eq. apply Qle_bool_iff in L1. rewrite Eq in L1. unfold nilv in L1.
    exfalso. apply (Qlt_not_le _ _ (eq_refl : (-1 < 0)%Q)). exact L1. }
  rewrite Q1.
  rewrite lens_nonneg_def in N1, N2 |- *.
  assert (A : forall sl x, forallb (fun s : slot => match s with
             | Some (e, ch) => Qle_bool 0%Q (elen e) && lens_nonneg ch | None => true end) sl = true ->
             forallb (fun s : slot => match s with
             | Some (e, ch) => Qle_bool 0%Q (elen e) && lens_nonneg ch | None => true end) (drop_up sl ++ x) =
             forallb (fun s : slot => match s with
             | Some (e, ch) => Qle_bool 0%Q (elen e) && lens_nonneg ch | None => true end) x).
  { intros sl x Hs. rewrite forallb_app.
    assert (Hd' : forallb (fun s : slot => match s with
             | Some (e, ch) => Qle_bool 0%Q (elen e) && lens_nonneg ch | None => true end) (drop_up sl) = true).
    { induction sl as [|[p|] r IHr]; simpl in *; auto.
      apply andb_true_iff in Hs as [Hs1 Hs2]. now rewrite Hs1, IHr. }
    now rewrite Hd'. }
  rewrite A by exact N1. cbn [forallb elen].
  rewrite lens_nonneg_def, A by exact N2. cbn [forallb]. rewrite !andb_true_r.
  apply Qle_bool_iff. 
  assert (M1 := qmax_nonneg 0%Q (elen e1) Z). assert (M2 := qmax_nonneg 0%Q (elen e2) Z).
  apply Qle_bool_iff in M1. apply Qle_bool_iff in M2.
  replace 0%Q with (0 + 0)%Q by reflexivity. apply Qplus_le_compat; assumption.
Qed.
