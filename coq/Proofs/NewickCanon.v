(** The tree the parser builds from the writer's output, as a function of the written tree
    ([canon_root]): parent slot first in every non-root node, every number replaced by what
    ParseFloat reads back from its text.  It has the same [rose] view (up to Qeq), the same
    text, and TrimSpace does not change it. *)
From Coq Require Import String Ascii ZArith QArith Bool Arith Lia List.
From GT Require Import Base.UTree Model.Newick Spec.NewickSpec Proofs.NewickLex.
Import ListNotations.
Local Close Scope Q_scope.
Local Open Scope string_scope.

(** The assumed behaviour of strconv.FormatFloat(x,'f',-1,64) / ParseFloat on the numbers
    [numok] of the implementation (DESIGN 3.2). *)
Record strconv_ok (fmt : Q -> string) (numeric : string -> bool)
       (parse_num : string -> option Q) (numok : Q -> bool) : Prop := {
  h_fmt_nonempty : forall x, numok x = true -> fmt x <> "";
  h_fmt_chars : forall x, numok x = true -> forall_chars num_char (fmt x) = true;
  h_numeric : forall x, numok x = true -> numeric (fmt x) = true;
  h_parse : forall x, numok x = true -> exists y, parse_num (fmt x) = Some y /\ Qeq y x;
  h_fmt_eq : forall x y, Qeq x y -> fmt x = fmt y;
  h_slash : forall s, no_slash s = false -> numeric s = false
}.

Lemma qeqb_compat : forall a b c, Qeq a b -> qeqb a c = qeqb b c.
Proof.
  intros a b c H. unfold qeqb.
  destruct (Qeq_bool a c) eqn:E1, (Qeq_bool b c) eqn:E2; try reflexivity.
  - apply Qeq_bool_iff in E1. assert (Qeq b c) by (rewrite <- H; exact E1).
    apply Qeq_bool_iff in H0. congruence.
  - apply Qeq_bool_iff in E2. assert (Qeq a c) by (rewrite H; exact E2).
    apply Qeq_bool_iff in H0. congruence.
Qed.

Lemma present_compat : forall a b, Qeq a b -> present a = present b.
Proof. intros. unfold present. f_equal. apply qeqb_compat. assumption. Qed.

Lemma list_eqb_refl : forall l, list_eqb String.eqb l l = true.
Proof. induction l; simpl; [reflexivity|]. rewrite String.eqb_refl, IHl. reflexivity. Qed.

Lemma n_up_length : forall sl : list slot, length sl = n_up sl + length (kids_of sl).
Proof.
  induction sl as [|[[e c]|] r IH]; unfold n_up in *; simpl in *; [reflexivity| |]; lia.
Qed.

Section Canon.
  Variable fmt : Q -> string.
  Variable numeric : string -> bool.
  Variable parse_num : string -> option Q.
  Variable numok : Q -> bool.
  Hypothesis SC : strconv_ok fmt numeric parse_num numok.

  Notation write_node := (write_node fmt).
  Notation deco := (deco fmt).

  (** what ParseFloat reads back from the text of x *)
  Definition pvl (x : Q) : Q := match parse_num (fmt x) with Some y => y | None => x end.
  Definition cv (x : Q) : Q := if present x then pvl x else nilv.

  Lemma pvl_eq : forall x, numok x = true -> Qeq (pvl x) x.
  Proof.
    intros x H. unfold pvl. destruct (h_parse _ _ _ _ SC x H) as [y [Hy Heq]]. rewrite Hy. exact Heq.
  Qed.

  Lemma cv_eq : forall x, num_ok numok x = true -> Qeq (cv x) x.
  Proof.
    intros x H. unfold cv, num_ok in *. destruct (present x) eqn:E.
    - simpl in H. apply pvl_eq. exact H.
    - unfold present in E. apply negb_false_iff in E. unfold qeqb in E.
      apply Qeq_bool_iff in E. symmetry. exact E.
  Qed.

  Lemma present_cv : forall x, num_ok numok x = true -> present (cv x) = present x.
  Proof. intros. apply present_compat. apply cv_eq. assumption. Qed.

  Lemma fmt_cv : forall x, num_ok numok x = true -> fmt (cv x) = fmt x.
  Proof. intros. apply (h_fmt_eq _ _ _ _ SC). apply cv_eq. assumption. Qed.

  Definition canon_e (e : einfo) : einfo := mkE (cv (elen e)) (cv (esup e)) (cv (epv e)) (ecom e).

  Fixpoint canon_sub (t : utree) : utree :=
    match t with
    | UNode n c sl =>
      UNode n c (None :: (fix go (l : list slot) : list slot :=
                            match l with
                            | [] => []
                            | None :: r => go r
                            | Some (e, ch) :: r => Some (canon_e e, canon_sub ch) :: go r
                            end) sl)
    end.

  Definition ckids (l : list (einfo * utree)) : list slot :=
    map (fun p => Some (canon_e (fst p), canon_sub (snd p))) l.

  Lemma canon_sub_eq : forall n c sl, canon_sub (UNode n c sl) = UNode n c (None :: ckids (kids_of sl)).
  Proof.
    intros. simpl. f_equal. f_equal.
    induction sl as [|[[e ch]|] r IH]; simpl; [reflexivity| |]; rewrite IH; reflexivity.
  Qed.

  Definition canon_root (t : utree) : utree := UNode (uname t) (ucom t) (ckids (kids t)).

  Lemma kids_of_ckids : forall l, kids_of (ckids l) = map (fun p => (canon_e (fst p), canon_sub (snd p))) l.
  Proof. induction l as [|[e c] r IH]; simpl; [reflexivity|]. unfold kids_of in *. simpl. rewrite IH. reflexivity. Qed.

  Lemma kids_of_none : forall l : list slot, kids_of (None :: l) = kids_of l.
  Proof. reflexivity. Qed.

  Lemma length_ckids : forall l, length (ckids l) = length l.
  Proof. intros. unfold ckids. apply map_length. Qed.

  (** * the writer on a node, over its children *)
  Fixpoint joinF (first : bool) (l : list (einfo * utree)) : string :=
    match l with
    | [] => ""
    | (e, ch) :: r => (if first then "" else ",") ++ write_node ch ++ deco e ch ++ joinF false r
    end.

  Lemma write_node_eq : forall n c sl,
      write_node (UNode n c sl) =
      (if Nat.ltb 1 (length sl) then "(" ++ joinF true (kids_of sl) ++ ")" else joinF true (kids_of sl)) ++ n.
  Proof.
    intros n c sl. cbn [Newick.write_node].
    assert (H : forall first,
               (fix go (first : bool) (l : list slot) {struct l} : string :=
                  match l with
                  | [] => ""
                  | Some (e, ch) :: r => (if first then "" else ",") ++ write_node ch ++ deco e ch ++ go false r
                  | None :: r => go first r
                  end) first sl = joinF first (kids_of sl)).
    { induction sl as [|[[e ch]|] r IH]; intros first; [reflexivity| |].
      - unfold kids_of. simpl. rewrite IH. reflexivity.
      - unfold kids_of. simpl. apply IH. }
    rewrite H. reflexivity.
  Qed.

  (** * what the quantifier gives about one branch and one node *)
  Definition nums_ok (e : einfo) : Prop :=
    num_ok numok (elen e) = true /\ num_ok numok (esup e) = true /\ num_ok numok (epv e) = true.

  Lemma edge_ok_nums : forall e n, edge_ok numok e n = true -> nums_ok e.
  Proof.
    intros e n H. unfold edge_ok in H. repeat (apply andb_true_iff in H; destruct H as [H ?]).
    repeat split; assumption.
  Qed.

  Lemma deco_canon : forall e ch ch', nums_ok e -> uname ch' = uname ch -> ucom ch' = ucom ch ->
      deco (canon_e e) ch' = deco e ch.
  Proof.
    intros e ch ch' [H1 [H2 H3]] Hn Hc. unfold Newick.deco, canon_e. simpl.
    rewrite Hn, Hc, !present_cv, !fmt_cv by assumption. reflexivity.
  Qed.

  Lemma uname_canon : forall t, uname (canon_sub t) = uname t.
  Proof. destruct t; reflexivity. Qed.
  Lemma ucom_canon : forall t, ucom (canon_sub t) = ucom t.
  Proof. destruct t; reflexivity. Qed.

  Lemma wfN_sub_inv : forall e n c sl, wfN_sub numeric numok e (UNode n c sl) = true ->
      n_up sl = 1 /\
      (match kids_of sl with [] => tip_name_ok n | _ => inner_name_ok numeric n end) = true /\
      forallb comment_ok c = true /\ edge_ok numok e n = true /\
      Forall (fun p => wfN_sub numeric numok (fst p) (snd p) = true) (kids_of sl).
  Proof.
    intros e n c sl H. cbn [wfN_sub] in H.
    repeat (apply andb_true_iff in H; destruct H as [H ?]).
    apply Nat.eqb_eq in H. repeat split; try assumption.
    clear - H0. induction sl as [|[[e' ch]|] r IH]; unfold kids_of; simpl in *.
    - constructor.
    - apply andb_true_iff in H0. destruct H0. constructor; [assumption|]. apply IH. assumption.
    - apply IH. assumption.
  Qed.

  Lemma Forall_slots_kids : forall (P : utree -> Prop) (sl : list slot),
      Forall (fun s => match s with Some (_, t) => P t | None => True end) sl ->
      Forall (fun p => P (snd p)) (kids_of sl).
  Proof.
    intros P sl H. induction H as [|[[e ch]|] r Hx Hr IH]; unfold kids_of; simpl.
    - constructor.
    - constructor; assumption.
    - assumption.
  Qed.

  (** * same text *)
  Lemma write_canon_sub : forall t e, wfN_sub numeric numok e t = true ->
      write_node (canon_sub t) = write_node t.
  Proof.
    induction t as [n c sl IH] using utree_ind'. intros e H.
    apply wfN_sub_inv in H. destruct H as [Hup [_ [_ [_ Hk]]]].
    apply Forall_slots_kids in IH.
    rewrite canon_sub_eq, !write_node_eq. simpl length. rewrite kids_of_none, length_ckids, kids_of_ckids.
    rewrite (n_up_length sl), Hup.
    assert (HJ : forall first, joinF first (map (fun p => (canon_e (fst p), canon_sub (snd p))) (kids_of sl)) =
                               joinF first (kids_of sl)).
    { clear Hup. induction (kids_of sl) as [|[e' ch] r IHr]; intros first; [reflexivity|].
      inversion IH; subst. inversion Hk; subst. simpl in *.
      rewrite (H1 e' H3), (IHr H2 H4).
      rewrite (deco_canon e' ch (canon_sub ch)); [reflexivity| |apply uname_canon|apply ucom_canon].
      destruct ch as [n' c' sl']. apply wfN_sub_inv in H3. destruct H3 as [_ [_ [_ [He _]]]].
      eapply edge_ok_nums; eassumption. }
    rewrite HJ. reflexivity.
  Qed.

  Lemma wfN_inv : forall n c sl, wfN numeric numok (UNode n c sl) = true ->
      n_up sl = 0 /\ 2 <= length (kids_of sl) /\ inner_name_ok numeric n = true /\
      forallb comment_ok c = true /\
      Forall (fun p => wfN_sub numeric numok (fst p) (snd p) = true) (kids_of sl).
  Proof.
    intros n c sl H. cbn [wfN] in H.
    repeat (apply andb_true_iff in H; destruct H as [H ?]).
    apply Nat.eqb_eq in H. apply Nat.leb_le in H3. repeat split; try assumption.
    clear - H0. induction sl as [|[[e' ch]|] r IH]; unfold kids_of; simpl in *.
    - constructor.
    - apply andb_true_iff in H0. destruct H0. constructor; [assumption|]. apply IH. assumption.
    - apply IH. assumption.
  Qed.

  Lemma joinF_canon : forall l first,
      Forall (fun p => wfN_sub numeric numok (fst p) (snd p) = true) l ->
      joinF first (map (fun p => (canon_e (fst p), canon_sub (snd p))) l) = joinF first l.
  Proof.
    induction l as [|[e' ch] r IHr]; intros first Hk; [reflexivity|].
    inversion Hk; subst. simpl in *.
    rewrite (write_canon_sub ch e' H1), (IHr false H2).
    rewrite (deco_canon e' ch (canon_sub ch)); [reflexivity| |apply uname_canon|apply ucom_canon].
    destruct ch as [n' c' sl']. apply wfN_sub_inv in H1. destruct H1 as [_ [_ [_ [He _]]]].
    eapply edge_ok_nums; eassumption.
  Qed.

  Lemma write_canon_root : forall t, wfN numeric numok t = true ->
      write fmt (canon_root t) = write fmt t.
  Proof.
    intros [n c sl] H. apply wfN_inv in H. destruct H as [Hup [Hlen [_ [_ Hk]]]].
    unfold write, canon_root. simpl uname. simpl ucom. unfold kids. simpl uslots.
    rewrite !write_node_eq. rewrite length_ckids, kids_of_ckids, (n_up_length sl), Hup.
    rewrite joinF_canon by assumption. reflexivity.
  Qed.

  (** * same rose view *)
  Definition rkids (l : list (einfo * utree)) : list (einfo * rose) :=
    map (fun p => (fst p, rose_of (snd p))) l.

  Lemma rose_of_eq : forall n c sl, rose_of (UNode n c sl) = RNode n c (rkids (kids_of sl)).
  Proof.
    intros. simpl. f_equal.
    induction sl as [|[[e ch]|] r IH]; unfold kids_of in *; simpl; [reflexivity| |]; rewrite IH; reflexivity.
  Qed.

  Lemma einfo_eqb_canon : forall e, nums_ok e -> einfo_eqb (canon_e e) e = true.
  Proof.
    intros e [H1 [H2 H3]]. unfold einfo_eqb, canon_e. simpl.
    assert (Hq : forall x, num_ok numok x = true -> qeqb (cv x) x = true).
    { intros x Hx. unfold qeqb. apply Qeq_bool_iff. apply cv_eq. assumption. }
    rewrite !Hq by assumption. rewrite list_eqb_refl. reflexivity.
  Qed.

  Definition rose_kids_eqb :=
    fix go (l1 l2 : list (einfo * rose)) : bool :=
      match l1, l2 with
      | [], [] => true
      | (e1, t1) :: r1, (e2, t2) :: r2 => einfo_eqb e1 e2 && rose_eqb t1 t2 && go r1 r2
      | _, _ => false
      end.

  Lemma rose_eqb_eq : forall n1 c1 k1 n2 c2 k2,
      rose_eqb (RNode n1 c1 k1) (RNode n2 c2 k2) =
      String.eqb n1 n2 && list_eqb String.eqb c1 c2 && rose_kids_eqb k1 k2.
  Proof. reflexivity. Qed.

  Lemma rose_canon_sub : forall t e, wfN_sub numeric numok e t = true ->
      rose_eqb (rose_of (canon_sub t)) (rose_of t) = true.
  Proof.
    induction t as [n c sl IH] using utree_ind'. intros e H.
    apply wfN_sub_inv in H. destruct H as [_ [_ [_ [_ Hk]]]].
    apply Forall_slots_kids in IH.
    rewrite canon_sub_eq, !rose_of_eq, rose_eqb_eq, String.eqb_refl, list_eqb_refl. simpl.
    change (kids_of (None :: ckids (kids_of sl))) with (kids_of (ckids (kids_of sl))).
    rewrite kids_of_ckids.
    induction (kids_of sl) as [|[e' ch] r IHr]; [reflexivity|].
    inversion IH; subst. inversion Hk; subst. simpl in *.
    rewrite (H1 e' H3), (IHr H2 H4), einfo_eqb_canon; [reflexivity|].
    destruct ch as [n' c' sl']. apply wfN_sub_inv in H3. destruct H3 as [_ [_ [_ [He _]]]].
    eapply edge_ok_nums; eassumption.
  Qed.

  Lemma rose_canon_root : forall t, wfN numeric numok t = true ->
      rose_eqb (rose_of (canon_root t)) (rose_of t) = true.
  Proof.
    intros [n c sl] H. apply wfN_inv in H. destruct H as [_ [_ [_ [_ Hk]]]].
    unfold canon_root. simpl uname. simpl ucom. unfold kids. simpl uslots.
    rewrite !rose_of_eq, rose_eqb_eq, String.eqb_refl, list_eqb_refl. simpl.
    rewrite kids_of_ckids.
    induction (kids_of sl) as [|[e' ch] r IHr]; [reflexivity|].
    inversion Hk; subst. simpl in *.
    rewrite (rose_canon_sub ch e' H1), (IHr H2), einfo_eqb_canon; [reflexivity|].
    destruct ch as [n' c' sl']. apply wfN_sub_inv in H1. destruct H1 as [_ [_ [_ [He _]]]].
    eapply edge_ok_nums; eassumption.
  Qed.

  (** * TrimSpace changes nothing *)
  Lemma trim_canon_sub : forall t e, wfN_sub numeric numok e t = true ->
      trim_tips (canon_sub t) = canon_sub t.
  Proof.
    induction t as [n c sl IH] using utree_ind'. intros e H.
    apply wfN_sub_inv in H. destruct H as [_ [Hname [_ [_ Hk]]]].
    apply Forall_slots_kids in IH.
    rewrite canon_sub_eq. cbn [trim_tips]. f_equal.
    - simpl length. rewrite length_ckids.
      destruct (kids_of sl) as [|k r]; [|reflexivity]. simpl.
      unfold tip_name_ok in Hname. apply andb_true_iff in Hname. destruct Hname as [Hname _].
      apply andb_true_iff in Hname. destruct Hname as [_ Hb].
      unfold no_blank_around in Hb. apply String.eqb_eq in Hb. exact Hb.
    - simpl. f_equal. clear Hname.
      induction (kids_of sl) as [|[e' ch] r IHr]; [reflexivity|].
      inversion IH; subst. inversion Hk; subst. simpl in *.
      rewrite (H1 e' H3), (IHr H2 H4). reflexivity.
  Qed.

  Lemma trim_ckids : forall l,
      Forall (fun p => wfN_sub numeric numok (fst p) (snd p) = true) l ->
      map (fun s : slot => match s with Some (e, ch) => Some (e, trim_tips ch) | None => None end) (ckids l) = ckids l.
  Proof.
    induction l as [|[e' ch] r IHr]; intros Hk; [reflexivity|].
    inversion Hk; subst. simpl in *.
    rewrite (trim_canon_sub ch e' H1), (IHr H2). reflexivity.
  Qed.

  Lemma trim_canon_root : forall t, wfN numeric numok t = true ->
      trim_tips (canon_root t) = canon_root t.
  Proof.
    intros [n c sl] H. apply wfN_inv in H. destruct H as [_ [Hlen [_ [_ Hk]]]].
    unfold canon_root. simpl uname. simpl ucom. unfold kids. simpl uslots.
    cbn [trim_tips]. f_equal.
    - rewrite length_ckids. destruct (kids_of sl) as [|a [|b r]]; simpl in *; try lia. reflexivity.
    - apply trim_ckids. assumption.
  Qed.
End Canon.
