(** C07, collapse: unfolding equations for [proc] (Model/Collapse.v), the ghost lists of kept and
    contracted branches, and the basic invariants (parent slots, well-formedness, leaves). *)
From Coq Require Import String ZArith QArith Bool Arith Lia List Permutation Setoid Morphisms.
From GT Require Import Base.UTree Spec.Obs Model.Reroot Spec.Unrooted Proofs.RerootBase Proofs.PruneBase
     Model.Prune Model.Collapse Proofs.PruneStep Proofs.PruneSub.
Import ListNotations.
Local Close Scope Q_scope.
Local Arguments n_up : simpl never.
Local Arguments leaves : simpl never.
Local Arguments wf_sub : simpl never.

(** every branch below a node, with the subtree hanging from it *)
Fixpoint branches (t : utree) : list (einfo * utree) :=
  match t with
  | UNode _ _ sl =>
    flat_map (fun s => match s with Some (e, c) => (e, c) :: branches c | None => [] end) sl
  end.
Definition brs (sl : list slot) : list (einfo * utree) :=
  flat_map (fun s => match s with Some (e, c) => (e, c) :: branches c | None => [] end) sl.

Lemma branches_unfold n c sl : branches (UNode n c sl) = brs sl.
Proof. reflexivity. Qed.
Lemma brs_app a b : brs (a ++ b) = brs a ++ brs b.
Proof. apply flat_map_app. Qed.
Lemma brs_cons_some e c r : brs (Some (e, c) :: r) = (e, c) :: branches c ++ brs r.
Proof. reflexivity. Qed.
Lemma brs_cons_none r : brs (None :: r) = brs r.
Proof. reflexivity. Qed.

Section Collapse.
  Variable rr rt : bool.
  Variable sel : nat -> einfo -> utree -> bool.

  (** is the branch contracted, the array of its left node having [curlen] entries now *)
  Definition decide (k : nat) (e : einfo) (c : utree) (curlen : nat) : bool :=
    sel k e c && negb (is_tip c) && (rr || negb (Nat.eqb (degree c) 2 || Nat.eqb curlen 2)).
  (** branch data of a branch that stays *)
  Definition adj (k : nat) (e : einfo) (c : utree) : einfo :=
    if sel k e c && is_tip c && rt then set_len0 e else e.

  Notation proc := (proc rr rt sel).

  Definition proc_go (top : bool) : list slot -> nat -> nat -> list slot * list slot :=
    fix go (l : list slot) (k m : nat) {struct l} : list slot * list slot :=
      match l with
      | [] => ([], [])
      | None :: r => if top then let '(b, a) := go r k (S m) in (None :: b, a) else go r k m
      | Some (e, c) :: r =>
        let cnt_r := if top then length r else length (kids_of r) in
        let k' := k + 1 + span c in
        if decide k e c (m + 1 + cnt_r) then
          let '(bc, ac) := proc c false (S k) (m + cnt_r) in
          let '(b, a) := go r k' (m + length bc + length ac) in
          (b, bc ++ ac ++ a)
        else
          let '(b1, a1) := proc c true (S k) 0 in
          let '(b, a) := go r k' (S m) in
          (Some (adj k e c, UNode (uname c) (ucom c) (b1 ++ a1)) :: b, a)
      end.

  (** the inner loop of [proc], verbatim *)
  Definition orig_go (top : bool) : list slot -> nat -> nat -> list slot * list slot :=
    fix go (l : list slot) (k m : nat) {struct l} : list slot * list slot :=
      match l with
      | [] => ([], [])
      | None :: r =>
        if top then let '(b, a) := go r k (S m) in (None :: b, a) else go r k m
      | Some (e, c) :: r =>
        let cnt_r := if top then length r else length (kids_of r) in
        let k' := k + 1 + span c in
        let keep (e' : einfo) :=
            let '(b1, a1) := proc c true (S k) 0 in
            let '(b, a) := go r k' (S m) in
            (Some (e', UNode (uname c) (ucom c) (b1 ++ a1)) :: b, a) in
        if sel k e c then
          if is_tip c then keep (if rt then set_len0 e else e)
          else if negb rr && (Nat.eqb (degree c) 2 || Nat.eqb (m + 1 + cnt_r) 2) then keep e
          else
            let '(bc, ac) := proc c false (S k) (m + cnt_r) in
            let '(b, a) := go r k' (m + length bc + length ac) in
            (b, (bc ++ ac ++ a)%list)
        else keep e
      end.

  Lemma proc_orig n cm sl top k m : proc (UNode n cm sl) top k m = orig_go top sl k m.
  Proof. reflexivity. Qed.

  Lemma orig_go_some top e c r k m :
    orig_go top (Some (e, c) :: r) k m =
    let cnt_r := if top then length r else length (kids_of r) in
    let k' := k + 1 + span c in
    let keep (e' : einfo) :=
        let '(b1, a1) := proc c true (S k) 0 in
        let '(b, a) := orig_go top r k' (S m) in
        (Some (e', UNode (uname c) (ucom c) (b1 ++ a1)) :: b, a) in
    if sel k e c then
      if is_tip c then keep (if rt then set_len0 e else e)
      else if negb rr && (Nat.eqb (degree c) 2 || Nat.eqb (m + 1 + cnt_r) 2) then keep e
      else
        let '(bc, ac) := proc c false (S k) (m + cnt_r) in
        let '(b, a) := orig_go top r k' (m + length bc + length ac) in
        (b, (bc ++ ac ++ a)%list)
    else keep e.
  Proof. reflexivity. Qed.

  Lemma orig_go_none top r k m :
    orig_go top (None :: r) k m =
    if top then let '(b, a) := orig_go top r k (S m) in (None :: b, a) else orig_go top r k m.
  Proof. reflexivity. Qed.

  Lemma proc_go_some top e c r k m :
    proc_go top (Some (e, c) :: r) k m =
    let cnt_r := if top then length r else length (kids_of r) in
    let k' := k + 1 + span c in
    if decide k e c (m + 1 + cnt_r) then
      let '(bc, ac) := proc c false (S k) (m + cnt_r) in
      let '(b, a) := proc_go top r k' (m + length bc + length ac) in
      (b, bc ++ ac ++ a)
    else
      let '(b1, a1) := proc c true (S k) 0 in
      let '(b, a) := proc_go top r k' (S m) in
      (Some (adj k e c, UNode (uname c) (ucom c) (b1 ++ a1)) :: b, a).
  Proof. reflexivity. Qed.

  Lemma proc_go_none top r k m :
    proc_go top (None :: r) k m =
    if top then let '(b, a) := proc_go top r k (S m) in (None :: b, a) else proc_go top r k m.
  Proof. reflexivity. Qed.

  Lemma proc_eq n cm sl top k m : proc (UNode n cm sl) top k m = proc_go top sl k m.
  Proof.
    rewrite proc_orig. revert k m. induction sl as [|[[e c]|] r IH]; intros k m; [reflexivity| |].
    - rewrite orig_go_some, proc_go_some. cbv zeta.
      destruct (proc c false (S k) (m + (if top then length r else length (kids_of r)))) as [bc ac].
      destruct (proc c true (S k) 0) as [b1 a1]. rewrite !IH. unfold decide, adj.
      destruct (sel k e c), (is_tip c), rr, rt; simpl;
        try reflexivity;
        destruct (Nat.eqb (degree c) 2 || Nat.eqb (m + 1 + (if top then length r else length (kids_of r))) 2); reflexivity.
    - rewrite orig_go_none, proc_go_none. destruct top; rewrite IH; reflexivity.
  Qed.

  (** ghost: the branches of the original subtree that stay (original data, data in the
      result, original subtree) and those that are contracted, following [proc] *)
  Fixpoint ghost (t : utree) (top : bool) (k m : nat) {struct t}
    : list (einfo * einfo * utree) * list (einfo * utree) :=
    match t with
    | UNode _ _ sl =>
      (fix go (l : list slot) (k m : nat) {struct l} : list (einfo * einfo * utree) * list (einfo * utree) :=
         match l with
         | [] => ([], [])
         | None :: r => if top then go r k (S m) else go r k m
         | Some (e, c) :: r =>
           let cnt_r := if top then length r else length (kids_of r) in
           let k' := k + 1 + span c in
           if decide k e c (m + 1 + cnt_r) then
             let '(bc, ac) := proc c false (S k) (m + cnt_r) in
             let '(kc, cc) := ghost c false (S k) (m + cnt_r) in
             let '(kr, cr) := go r k' (m + length bc + length ac) in
             (kc ++ kr, (e, c) :: cc ++ cr)
           else
             let '(k1, c1) := ghost c true (S k) 0 in
             let '(kr, cr) := go r k' (S m) in
             ((e, adj k e c, c) :: k1 ++ kr, c1 ++ cr)
         end) sl k m
    end.

  Definition ghost_go (top : bool) : list slot -> nat -> nat -> list (einfo * einfo * utree) * list (einfo * utree) :=
    fix go (l : list slot) (k m : nat) {struct l} : list (einfo * einfo * utree) * list (einfo * utree) :=
      match l with
      | [] => ([], [])
      | None :: r => if top then go r k (S m) else go r k m
      | Some (e, c) :: r =>
        let cnt_r := if top then length r else length (kids_of r) in
        let k' := k + 1 + span c in
        if decide k e c (m + 1 + cnt_r) then
          let '(bc, ac) := proc c false (S k) (m + cnt_r) in
          let '(kc, cc) := ghost c false (S k) (m + cnt_r) in
          let '(kr, cr) := go r k' (m + length bc + length ac) in
          (kc ++ kr, (e, c) :: cc ++ cr)
        else
          let '(k1, c1) := ghost c true (S k) 0 in
          let '(kr, cr) := go r k' (S m) in
          ((e, adj k e c, c) :: k1 ++ kr, c1 ++ cr)
      end.
  Lemma ghost_eq n cm sl top k m : ghost (UNode n cm sl) top k m = ghost_go top sl k m.
  Proof. reflexivity. Qed.

  (** ** basic invariants *)
  Lemma leaves_nonempty t : leaves t <> [].
  Proof.
    induction t as [n c sl IH] using utree_ind'. rewrite leaves_unfold.
    destruct (kids_of sl) as [|[e ch] r] eqn:E; [discriminate|].
    assert (Hin : In (Some (e, ch)) sl) by (apply kids_of_In; rewrite E; now left).
    rewrite Forall_forall in IH. specialize (IH _ Hin). simpl in IH.
    rewrite kleaves_cons. simpl. destruct (leaves ch); [congruence|discriminate].
  Qed.

  Lemma kleaves_nil_iff ks : kleaves ks = [] <-> ks = [].
  Proof.
    split; [|intros ->; reflexivity]. destruct ks as [|[e c] r]; auto. rewrite kleaves_cons. simpl.
    generalize (leaves_nonempty c). destruct (leaves c); [congruence|discriminate].
  Qed.

  Definition basic_inv (top : bool) (sl b a : list slot) : Prop :=
    n_up b = (if top then n_up sl else 0) /\ n_up a = 0 /\
    forallb (fun p => wf_sub (snd p)) (kids_of (b ++ a)) = true /\
    Permutation (kleaves (kids_of (b ++ a))) (kleaves (kids_of sl)).

  Ltac kidsplit :=
    repeat (rewrite ?kids_of_app, ?kids_of_cons_some, ?kids_of_cons_none, ?forallb_app, ?andb_true_iff,
            ?n_up_app, ?n_up_cons, ?n_up_nil, ?app_length, ?kleaves_app, ?kleaves_cons in *; simpl forallb in *; simpl snd in *;
            simpl length in *).

  Lemma rebuilt_leaves c b1 a1 :
    wf_sub c = true -> n_up b1 = n_up (uslots c) -> n_up a1 = 0 ->
    Permutation (kleaves (kids_of (b1 ++ a1))) (kleaves (kids_of (uslots c))) ->
    Permutation (leaves (UNode (uname c) (ucom c) (b1 ++ a1))) (leaves c).
  Proof.
    destruct c as [n cm sl]. simpl. intros _ _ _ H. rewrite !leaves_unfold.
    destruct (kids_of sl) as [|p r] eqn:E.
    - change (kleaves []) with (@nil string) in H. symmetry in H. apply Permutation_nil in H. apply kleaves_nil_iff in H. now rewrite H.
    - destruct (kids_of (b1 ++ a1)) eqn:E2; [|exact H].
      change (kleaves []) with (@nil string) in H. apply Permutation_nil in H. apply kleaves_nil_iff in H. discriminate.
  Qed.

  Lemma wf_sub_kids c : wf_sub c = true -> forallb (fun p => wf_sub (snd p)) (kids_of (uslots c)) = true.
  Proof. destruct c as [n1 c1 sl1]. rewrite wf_sub_unfold. simpl. intros H. apply andb_true_iff in H. tauto. Qed.
  Lemma wf_sub_up c : wf_sub c = true -> n_up (uslots c) = 1.
  Proof. destruct c as [n1 c1 sl1]. rewrite wf_sub_unfold. simpl. intros H. apply andb_true_iff in H. destruct H as [H _]. now apply Nat.eqb_eq. Qed.

  Lemma nontip_leaves c :
    wf_sub c = true -> is_tip c = false -> kids_of (uslots c) <> [] /\ leaves c = kleaves (kids_of (uslots c)).
  Proof.
    intros Hw Ht. generalize (wf_sub_up c Hw). destruct c as [n1 c1 sl1]. simpl. intros Hu.
    unfold is_tip, degree in Ht. simpl in Ht. apply Nat.eqb_neq in Ht.
    generalize (length_slots sl1). rewrite Hu. intros El. rewrite leaves_unfold.
    destruct (kids_of sl1); [simpl in El; lia|]. split; [discriminate|reflexivity].
  Qed.

  Lemma decide_nontip k e c n : decide k e c n = true -> is_tip c = false.
  Proof. unfold decide. intros H. apply andb_true_iff in H. destruct H as [H _]. apply andb_true_iff in H. destruct H as [_ H]. now apply negb_true_iff. Qed.
  Lemma decide_sel k e c n : decide k e c n = true -> sel k e c = true.
  Proof. unfold decide. intros H. apply andb_true_iff in H. destruct H as [H _]. apply andb_true_iff in H. tauto. Qed.

  Lemma proc_go_basic top sl :
    Forall (fun s : slot => match s with
                            | Some (_, c) => forall top k m b a, wf_sub c = true -> proc c top k m = (b, a) -> basic_inv top (uslots c) b a
                            | None => True end) sl ->
    forallb (fun p => wf_sub (snd p)) (kids_of sl) = true ->
    forall k m b a, proc_go top sl k m = (b, a) -> basic_inv top sl b a.
  Proof.
    induction sl as [|[[e c]|] r IHr]; intros IH Hw k m b a Hp.
    - simpl in Hp. injection Hp as Hb Ha. subst. unfold basic_inv. simpl. destruct top; repeat split; auto.
    - inversion IH as [|? ? Hc Hr]; subst. kidsplit. destruct Hw as [Hwc Hwr]. specialize (IHr Hr Hwr).
      rewrite proc_go_some in Hp. cbv zeta in Hp.
      destruct (decide k e c (m + 1 + (if top then length r else length (kids_of r)))) eqn:Ed.
      + destruct (proc c false (S k) (m + (if top then length r else length (kids_of r)))) as [bc ac] eqn:Ec.
        destruct (proc_go top r (k + 1 + span c) (m + length bc + length ac)) as [b' a'] eqn:Er.
        injection Hp as Hb Ha. subst b a.
        destruct (Hc false _ _ _ _ Hwc Ec) as [H1 [H2 [H3 H4]]].
        destruct (IHr _ _ _ _ Er) as [G1 [G2 [G3 G4]]].
        destruct (nontip_leaves c Hwc (decide_nontip _ _ _ _ Ed)) as [_ Hlc].
        unfold basic_inv. kidsplit. repeat split; try tauto; try lia.
        all: try (rewrite G1; destruct top; reflexivity).
        rewrite Hlc, <- H4, <- G4. perm.
      + destruct (proc c true (S k) 0) as [b1 a1] eqn:Ec.
        destruct (proc_go top r (k + 1 + span c) (S m)) as [b' a'] eqn:Er.
        injection Hp as Hb Ha. subst b a.
        destruct (Hc true _ _ _ _ Hwc Ec) as [H1 [H2 [H3 H4]]].
        destruct (IHr _ _ _ _ Er) as [G1 [G2 [G3 G4]]].
        unfold basic_inv. simpl app. kidsplit. repeat split; try tauto; try lia.
        * rewrite wf_sub_unfold. kidsplit. repeat split; try tauto.
          apply Nat.eqb_eq. rewrite H1, H2, (wf_sub_up c Hwc). reflexivity.
        * rewrite (rebuilt_leaves c b1 a1) by (try assumption; kidsplit; assumption).
          rewrite <- G4. reflexivity.
    - inversion IH as [|? ? _ Hr]; subst. kidsplit. specialize (IHr Hr Hw).
      rewrite proc_go_none in Hp. destruct top.
      + destruct (proc_go true r k (S m)) as [b' a'] eqn:Er. injection Hp as Hb Ha. subst b a.
        destruct (IHr _ _ _ _ Er) as [G1 [G2 [G3 G4]]].
        simpl in G1. unfold basic_inv. simpl app. kidsplit. repeat split; try tauto; try lia.
      + destruct (IHr _ _ _ _ Hp) as [G1 [G2 [G3 G4]]].
        unfold basic_inv. kidsplit. repeat split; try tauto; try lia.
  Qed.

  Lemma proc_basic : forall t top k m b a,
      wf_sub t = true -> proc t top k m = (b, a) -> basic_inv top (uslots t) b a.
  Proof.
    induction t as [n cm sl IH] using utree_ind'. intros top k m b a Hw Hp.
    rewrite proc_eq in Hp. simpl uslots.
    exact (proc_go_basic top sl IH (wf_sub_kids (UNode n cm sl) Hw) k m b a Hp).
  Qed.

  (** the root: no parent slot *)
  Lemma proc_basic_root n cm sl k m b a :
    wf (UNode n cm sl) = true -> proc (UNode n cm sl) true k m = (b, a) -> basic_inv true sl b a.
  Proof.
    intros Hw Hp. rewrite proc_eq in Hp. rewrite wf_unfold in Hw. apply andb_true_iff in Hw.
    destruct Hw as [_ Hw]. refine (proc_go_basic true sl _ Hw k m b a Hp).
    apply Forall_forall. intros [[e c]|] _; auto. intros. eapply proc_basic; eauto.
  Qed.

  Theorem remove_edges_wf t : wf t = true -> wf (remove_edges rr rt sel t) = true.
  Proof.
    destruct t as [n cm sl]. intros Hw. unfold remove_edges.
    destruct (proc (UNode n cm sl) true 0 0) as [b a] eqn:Ep.
    destruct (proc_basic_root _ _ _ _ _ _ _ Hw Ep) as [H1 [H2 [H3 H4]]].
    rewrite wf_unfold in Hw. apply andb_true_iff in Hw. destruct Hw as [Hu _]. apply Nat.eqb_eq in Hu.
    simpl uname. simpl ucom. rewrite wf_unfold, H3, n_up_app, H1, H2, Hu. reflexivity.
  Qed.

  Theorem remove_edges_leaves t :
    wf t = true -> Permutation (leaves (remove_edges rr rt sel t)) (leaves t).
  Proof.
    destruct t as [n cm sl]. intros Hw. unfold remove_edges.
    destruct (proc (UNode n cm sl) true 0 0) as [b a] eqn:Ep.
    destruct (proc_basic_root _ _ _ _ _ _ _ Hw Ep) as [H1 [H2 [H3 H4]]].
    simpl uname. simpl ucom. rewrite !leaves_unfold.
    destruct (kids_of sl) as [|p r] eqn:E.
    - change (kleaves []) with (@nil string) in H4. symmetry in H4. apply Permutation_nil in H4.
      apply kleaves_nil_iff in H4. now rewrite H4.
    - destruct (kids_of (b ++ a)) eqn:E2; [|exact H4].
      change (kleaves []) with (@nil string) in H4. apply Permutation_nil in H4. apply kleaves_nil_iff in H4. discriminate.
  Qed.
End Collapse.
