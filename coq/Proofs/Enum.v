(** C03: the node, tip and branch enumerations (mirrors of Tree.Nodes, Tips, Edges,
    InternalEdges, TipEdges) agree with each other on every well-formed tree. *)
From Coq Require Import String ZArith QArith Bool Arith Lia Permutation List.
From GT Require Import Base.UTree.
Import ListNotations.
Local Close Scope Q_scope.

Definition slotP (P : utree -> Prop) (s : slot) : Prop :=
  match s with Some (_, t) => P t | None => True end.

Lemma length_flat_map_eq {A B C} (f : A -> list B) (g : A -> list C) (l : list A) :
  Forall (fun a => length (f a) = length (g a)) l -> length (flat_map f l) = length (flat_map g l).
Proof.
  induction 1 as [|a l Ha _ IH]; cbn [flat_map]; [reflexivity|].
  rewrite !app_length, Ha, IH. reflexivity.
Qed.

Lemma wf_sub_slots n c sl : wf_sub (UNode n c sl) = true ->
  n_up sl = 1 /\ Forall (slotP (fun t => wf_sub t = true)) sl.
Proof.
  cbn [wf_sub]. intros H. apply andb_true_iff in H. destruct H as [H1 H2].
  apply Nat.eqb_eq in H1. split; [exact H1|].
  rewrite forallb_forall in H2. apply Forall_forall. intros s Hs. specialize (H2 s Hs).
  destruct s as [[e t]|]; cbn; [exact H2|exact I].
Qed.

Lemma wf_slots n c sl : wf (UNode n c sl) = true ->
  n_up sl = 0 /\ Forall (slotP (fun t => wf_sub t = true)) sl.
Proof.
  cbn [wf]. intros H. apply andb_true_iff in H. destruct H as [H1 H2].
  apply Nat.eqb_eq in H1. split; [exact H1|].
  rewrite forallb_forall in H2. apply Forall_forall. intros s Hs. specialize (H2 s Hs).
  destruct s as [[e t]|]; cbn; [exact H2|exact I].
Qed.

(** a non-root node with at most one neighbour has only its parent slot *)
Lemma wf_sub_small n c sl : wf_sub (UNode n c sl) = true -> length sl <= 1 -> sl = [None].
Proof.
  intros H Hl. apply wf_sub_slots in H. destruct H as [Hu _].
  destruct sl as [|s [|s' r]]; cbn in Hl; try lia.
  - cbn in Hu. discriminate.
  - destruct s as [p|]; [cbn in Hu; discriminate|reflexivity].
Qed.

(** ** branches = nodes - 1 *)
Lemma edges_nodes_sub : forall t, wf_sub t = true -> length (edges_below t) + 1 = length (nodes t).
Proof.
  induction t as [n c sl IH] using utree_ind'. intros Hwf.
  destruct (wf_sub_slots _ _ _ Hwf) as [_ Hk].
  cbn [edges_below nodes length]. rewrite Nat.add_1_r. f_equal.
  apply length_flat_map_eq. rewrite Forall_forall in *. intros s Hs.
  specialize (IH s Hs). specialize (Hk s Hs). destruct s as [[e t]|]; cbn [slotP] in *; [|reflexivity].
  destruct (Nat.ltb_spec 1 (degree t)) as [Hd|Hd].
  - rewrite <- (IH Hk). cbn [length]. lia.
  - destruct t as [n' c' sl']. unfold degree in Hd; cbn [uslots] in Hd.
    rewrite (wf_sub_small _ _ _ Hk Hd). reflexivity.
Qed.

Theorem edges_nodes : forall t, wf t = true -> length (edges t) + 1 = length (nodes t).
Proof.
  intros [n c sl] Hwf. destruct (wf_slots _ _ _ Hwf) as [_ Hk].
  unfold edges. cbn [edges_below nodes length]. rewrite Nat.add_1_r. f_equal.
  apply length_flat_map_eq. rewrite Forall_forall in *. intros s Hs.
  specialize (Hk s Hs). destruct s as [[e t]|]; cbn [slotP] in *; [|reflexivity].
  destruct (Nat.ltb_spec 1 (degree t)) as [Hd|Hd].
  - rewrite <- (edges_nodes_sub t Hk). cbn [length]. lia.
  - destruct t as [n' c' sl']. unfold degree in Hd; cbn [uslots] in Hd.
    rewrite (wf_sub_small _ _ _ Hk Hd). reflexivity.
Qed.

(** ** all branches = internal + external *)
Lemma flat_map_app_perm {A B} (f g h : A -> list B) (l : list A) :
  Forall (fun a => Permutation (f a) (g a ++ h a)) l ->
  Permutation (flat_map f l) (flat_map g l ++ flat_map h l).
Proof.
  induction 1 as [|a l Ha _ IH]; cbn [flat_map]; [reflexivity|].
  rewrite Ha, IH. rewrite <- !app_assoc. apply Permutation_app_head.
  rewrite !app_assoc. apply Permutation_app_tail. apply Permutation_app_comm.
Qed.

Theorem edges_split : forall t, Permutation (edges t) (internal_edges t ++ tip_edges t).
Proof.
  unfold edges. induction t as [n c sl IH] using utree_ind'.
  cbn [edges_below internal_edges tip_edges].
  apply flat_map_app_perm. rewrite Forall_forall in *. intros s Hs. specialize (IH s Hs).
  destruct s as [[e t]|]; cbn [slotP] in *; [|reflexivity].
  unfold is_tip. destruct (Nat.eqb_spec (degree t) 1) as [E|E].
  - rewrite E. cbn. reflexivity.
  - destruct (Nat.ltb_spec 1 (degree t)) as [Hd|Hd]; cbn.
    + constructor. rewrite app_nil_r || idtac. exact IH.
    + reflexivity.
Qed.

(** every branch listed by internal_edges leads to an inner node, every branch of tip_edges to a tip *)
Lemma tip_edges_are_tips : forall t p, In p (tip_edges t) -> is_tip (snd p) = true.
Proof.
  induction t as [n c sl IH] using utree_ind'. intros p Hp. cbn [tip_edges] in Hp.
  apply in_flat_map in Hp. destruct Hp as [s [Hs Hp]]. rewrite Forall_forall in IH. specialize (IH s Hs).
  destruct s as [[e t]|]; [|destruct Hp]. apply in_app_or in Hp. destruct Hp as [Hp|Hp].
  - destruct (is_tip t) eqn:E; [|destruct Hp]. destruct Hp as [<-|[]]. exact E.
  - destruct (Nat.ltb 1 (degree t)); [|destruct Hp]. apply IH. exact Hp.
Qed.

Lemma internal_edges_are_inner : forall t p, In p (internal_edges t) -> is_tip (snd p) = false.
Proof.
  induction t as [n c sl IH] using utree_ind'. intros p Hp. cbn [internal_edges] in Hp.
  apply in_flat_map in Hp. destruct Hp as [s [Hs Hp]]. rewrite Forall_forall in IH. specialize (IH s Hs).
  destruct s as [[e t]|]; [|destruct Hp]. destruct (is_tip t) eqn:E; [destruct Hp|].
  destruct Hp as [<-|Hp]; [exact E|]. destruct (Nat.ltb 1 (degree t)); [|destruct Hp]. apply IH. exact Hp.
Qed.

(** ** external branches = tips *)
Lemma tip_edges_tips_sub : forall t, wf_sub t = true ->
  length (tip_edges t) + (if is_tip t then 1 else 0) = length (tips t).
Proof.
  induction t as [n c sl IH] using utree_ind'. intros Hwf.
  destruct (wf_sub_slots _ _ _ Hwf) as [_ Hk].
  cbn [tip_edges tips]. rewrite app_length.
  assert (length (flat_map (fun s : slot => match s with
            | Some (e, c0) => (if is_tip c0 then [(e, c0)] else []) ++ (if 1 <? degree c0 then tip_edges c0 else [])
            | None => [] end) sl) =
          length (flat_map (fun s : slot => match s with Some (_, c0) => tips c0 | None => [] end) sl)) as ->.
  { apply length_flat_map_eq. rewrite Forall_forall in *. intros s Hs.
    specialize (IH s Hs). specialize (Hk s Hs). destruct s as [[e t]|]; cbn [slotP] in *; [|reflexivity].
    specialize (IH Hk). rewrite app_length. rewrite <- IH.
    unfold is_tip in *. destruct (Nat.eqb_spec (degree t) 1) as [E|E].
    - rewrite E. cbn. destruct t as [n' c' sl']. unfold degree in E; cbn [uslots] in E.
      assert (sl' = [None]) as -> by (apply (wf_sub_small n' c'); [exact Hk|lia]). cbn. reflexivity.
    - destruct (Nat.ltb_spec 1 (degree t)) as [Hd|Hd]; cbn; [lia|].
      destruct t as [n' c' sl']. unfold degree in Hd, E; cbn [uslots] in Hd, E.
      assert (sl' = [None]) as -> by (apply (wf_sub_small n' c'); assumption). cbn in E. congruence. }
  destruct (is_tip (UNode n c sl)); cbn [length]; lia.
Qed.

Theorem tip_edges_tips : forall t, wf t = true -> is_tip t = false ->
  length (tip_edges t) = length (tips t).
Proof.
  intros [n c sl] Hwf Hnt. destruct (wf_slots _ _ _ Hwf) as [_ Hk].
  cbn [tip_edges tips]. rewrite Hnt. cbn [app].
  apply length_flat_map_eq. rewrite Forall_forall in *. intros s Hs.
  specialize (Hk s Hs). destruct s as [[e t]|]; cbn [slotP] in *; [|reflexivity].
  pose proof (tip_edges_tips_sub t Hk) as IH. rewrite app_length. rewrite <- IH.
  unfold is_tip in *. destruct (Nat.eqb_spec (degree t) 1) as [E|E].
  - rewrite E. cbn. destruct t as [n' c' sl']. unfold degree in E; cbn [uslots] in E.
    assert (sl' = [None]) as -> by (apply (wf_sub_small n' c'); [exact Hk|lia]). cbn. reflexivity.
  - destruct (Nat.ltb_spec 1 (degree t)) as [Hd|Hd]; cbn; [lia|].
    destruct t as [n' c' sl']. unfold degree in Hd, E; cbn [uslots] in Hd, E.
    assert (sl' = [None]) as -> by (apply (wf_sub_small n' c'); assumption). cbn in E. congruence.
Qed.
