(** C06: one call of removeTip.  What [rm_sub]/[remove_tip] do to the observables of the
    tree: the removed name is filtered out of the leaves and of the pair distances, nothing
    else changes; well-formedness and "no single-child node" are kept. *)
From Coq Require Import String ZArith QArith Bool Arith Lia List Permutation Setoid Morphisms.
From GT Require Import Base.UTree Spec.Obs Model.Reroot Spec.Unrooted Proofs.RerootBase Proofs.PruneBase Model.Prune.
Import ListNotations.
Local Close Scope Q_scope.
Local Arguments n_up : simpl never.

(** * small facts *)
Lemma Qle_bool_qeq a b c : (b == c)%Q -> Qle_bool a b = Qle_bool a c.
Proof.
  intros H. destruct (Qle_bool a b) eqn:E1, (Qle_bool a c) eqn:E2; auto.
  - apply Qle_bool_iff in E1. rewrite H in E1. apply Qle_bool_iff in E1. congruence.
  - apply Qle_bool_iff in E2. rewrite <- H in E2. apply Qle_bool_iff in E2. congruence.
Qed.

Lemma len0_nonneg e : (0 <= len0 e)%Q.
Proof.
  unfold len0. destruct (Qle_bool 0 (elen e)) eqn:E.
  - now apply Qle_bool_iff.
  - apply Qle_refl.
Qed.

Lemma len0_merge e1 e2 b1 b2 : (len0 (merge_edge e1 e2 b1 b2) == len0 e1 + len0 e2)%Q.
Proof.
  unfold len0 at 1, merge_edge. simpl elen.
  destruct (negb (qeqb (elen e1) nilv) || negb (qeqb (elen e2) nilv)) eqn:E.
  - change (qmax 0 (elen e1)) with (len0 e1). change (qmax 0 (elen e2)) with (len0 e2).
    assert (H : Qle_bool 0 (len0 e1 + len0 e2) = true).
    { apply Qle_bool_iff. generalize (len0_nonneg e1) (len0_nonneg e2). intros.
      replace 0%Q with (0 + 0)%Q by reflexivity. apply Qplus_le_compat; auto. }
    rewrite H. reflexivity.
  - apply orb_false_iff in E. destruct E as [E1 E2].
    apply negb_false_iff in E1, E2. unfold qeqb in *. apply Qeq_bool_iff in E1, E2.
    unfold len0. rewrite (Qle_bool_qeq 0 _ _ E1), (Qle_bool_qeq 0 _ _ E2).
    reflexivity.
Qed.

Lemma remove_nth_app {A} (a : list A) x b : remove_nth (length a) (a ++ x :: b) = a ++ b.
Proof.
  unfold remove_nth. induction a as [|y a IH]; [reflexivity|].
  change (y :: firstn (length a) (a ++ x :: b) ++ skipn (S (length a)) (a ++ x :: b) = y :: a ++ b).
  now rewrite IH.
Qed.

Lemma set_nth_app {A} (a : list A) x y b : set_nth (length a) y (a ++ x :: b) = a ++ y :: b.
Proof.
  unfold set_nth. induction a as [|z a IH]; [reflexivity|].
  change (z :: firstn (length a) (a ++ x :: b) ++ match skipn (length a) (a ++ x :: b) with [] => [] | _ :: r => y :: r end = z :: a ++ y :: b).
  now rewrite IH.
Qed.

Lemma nss_unfold n c sl :
  no_single_sub (UNode n c sl) =
  negb (Nat.eqb (length sl) 2) && forallb (fun p => no_single_sub (snd p)) (kids_of sl).
Proof.
  simpl. f_equal. induction sl as [|[[e ch]|] r IH]; simpl; auto. now rewrite IH.
Qed.

Lemma forallb_kids_app (f : einfo * utree -> bool) (a b : list slot) :
  forallb f (kids_of (a ++ b)) = forallb f (kids_of a) && forallb f (kids_of b).
Proof. now rewrite kids_of_app, forallb_app. Qed.

Lemma kids_of_cons_some p r : kids_of (Some p :: r) = p :: kids_of r.
Proof. reflexivity. Qed.
Lemma kids_of_cons_none r : kids_of (None :: r) = kids_of r.
Proof. reflexivity. Qed.

Lemma reparent_kids t : kids (reparent t) = kids t.
Proof.
  destruct t as [n c sl]. unfold kids. simpl. rewrite kids_of_app, kids_of_drop_up. simpl.
  now rewrite app_nil_r.
Qed.
Lemma reparent_depths w t : depths w (reparent t) = depths w t.
Proof.
  destruct t as [n c sl]. simpl reparent. apply depths_kids; auto.
  rewrite kids_of_app, kids_of_drop_up. simpl. now rewrite app_nil_r.
Qed.
Lemma reparent_pairdists w t : pairdists w (reparent t) = pairdists w t.
Proof.
  destruct t as [n c sl]. simpl reparent. apply pairdists_kids.
  rewrite kids_of_app, kids_of_drop_up. simpl. now rewrite app_nil_r.
Qed.
Lemma reparent_leaves t : leaves (reparent t) = leaves t.
Proof.
  destruct t as [n c sl]. simpl reparent. apply leaves_kids; auto.
  rewrite kids_of_app, kids_of_drop_up. simpl. now rewrite app_nil_r.
Qed.
Lemma reparent_wf_sub t : wf_sub t = true -> wf_sub (reparent t) = true.
Proof.
  destruct t as [n c sl]. simpl reparent. rewrite !wf_sub_unfold, !andb_true_iff.
  intros [H1 H2]. apply Nat.eqb_eq in H1. split.
  - apply Nat.eqb_eq. rewrite n_up_app, n_up_drop_up, H1. reflexivity.
  - rewrite kids_of_app, kids_of_drop_up. simpl. now rewrite app_nil_r.
Qed.
Lemma reparent_degree t : wf_sub t = true -> degree (reparent t) = degree t.
Proof.
  destruct t as [n c sl]. rewrite wf_sub_unfold, andb_true_iff. unfold degree. simpl uslots. simpl reparent. simpl uslots.
  intros [H1 _]. apply Nat.eqb_eq in H1. rewrite app_length, length_drop_up by lia. simpl.
  assert (1 <= length sl) by (rewrite length_slots; lia). lia.
Qed.
Lemma reparent_nss t : wf_sub t = true -> no_single_sub t = true -> no_single_sub (reparent t) = true.
Proof.
  intros Hw. generalize (reparent_degree t Hw). destruct t as [n c sl]. unfold degree. simpl uslots.
  simpl reparent. rewrite !nss_unfold. intros ->. rewrite kids_of_app, kids_of_drop_up. simpl.
  now rewrite app_nil_r.
Qed.

(** * search *)
Lemma first_hit_some f j sl i e o :
  first_hit f j sl = Some (i, e, o) ->
  exists A ch B, sl = A ++ Some (e, ch) :: B /\ i = j + length A /\ f ch = o /\ o <> ONotFound /\
                 (forall e' c', In (Some (e', c')) A -> f c' = ONotFound).
Proof.
  revert j. induction sl as [|[[e0 c0]|] r IH]; simpl; intros j H; [discriminate| |].
  - destruct (f c0) eqn:E.
    + destruct (IH _ H) as [A [ch [B [-> [-> [H1 [H2 H3]]]]]]].
      exists (Some (e0, c0) :: A), ch, B. simpl. repeat split; auto; try lia.
      intros e' c' [Hx|Hx]; [inversion Hx; subst; auto | eauto].
    + inversion H; subst. exists [], c0, r. simpl. repeat split; auto; try lia; try congruence; try tauto.
    + inversion H; subst. exists [], c0, r. simpl. repeat split; auto; try lia; try congruence; try tauto.
    + inversion H; subst. exists [], c0, r. simpl. repeat split; auto; try lia; try congruence; try tauto.
    + inversion H; subst. exists [], c0, r. simpl. repeat split; auto; try lia; try congruence; try tauto.
  - destruct (IH _ H) as [A [ch [B [-> [-> [H1 [H2 H3]]]]]]].
    exists (None :: A), ch, B. simpl. repeat split; auto; try lia.
    intros e' c' [Hx|Hx]; [discriminate | eauto].
Qed.

Lemma first_hit_none f j sl :
  first_hit f j sl = None -> forall e c, In (Some (e, c)) sl -> f c = ONotFound.
Proof.
  revert j. induction sl as [|[[e0 c0]|] r IH]; simpl; intros j H e c Hin; [tauto| |].
  - destruct (f c0) eqn:E; try discriminate.
    destruct Hin as [Hx|Hx]; [inversion Hx; subst; auto | eauto].
  - destruct Hin as [Hx|Hx]; [discriminate | eauto].
Qed.

(** * the observables of a node when one child changes *)
Section Agg.
  Variable nm : string.
  Definition knm (x : string) : bool := negb (String.eqb x nm).
  Notation w := len0.
  Notation k := knm.

  Lemma knm_false : k nm = false.
  Proof. unfold knm. now rewrite String.eqb_refl. Qed.
  Lemma knm_true x : x <> nm -> k x = true.
  Proof. unfold knm. intros H. apply negb_true_iff. now apply String.eqb_neq. Qed.

  Variables KA KB : list (einfo * utree).
  Hypothesis HA : ~ In nm (kleaves KA).
  Hypothesis HB : ~ In nm (kleaves KB).
  Variable p : einfo * utree.

  Lemma old_filtered :
    map (fC k) (contribs w (KA ++ p :: KB)) = contribs w KA ++ fC k (contrib_of w p) :: contribs w KB.
  Proof.
    unfold contribs at 1. rewrite map_app, map_app. simpl.
    fold (contribs w KA). fold (contribs w KB).
    rewrite !fC_id_all; auto.
    - intros x Hx. apply knm_true. intros ->. auto.
    - intros x Hx. apply knm_true. intros ->. auto.
  Qed.

  (** the child is replaced (in place, or moved to the end) by an equivalent of its filtered self *)
  Lemma agg_keep q :
    ceq (contrib_of w q) (fC k (contrib_of w p)) ->
    deq (aggD (contribs w (KA ++ q :: KB))) (fD k (aggD (contribs w (KA ++ p :: KB)))) /\
    dists_equiv (aggP (contribs w (KA ++ q :: KB))) (fP k (aggP (contribs w (KA ++ p :: KB)))).
  Proof.
    intros H. rewrite fD_aggD, fP_aggP, old_filtered.
    assert (F : Forall2 ceq (contribs w (KA ++ q :: KB)) (contribs w KA ++ fC k (contrib_of w p) :: contribs w KB)).
    { unfold contribs at 1. rewrite map_app. simpl. apply Forall2_app; [apply Forall2_ceq_refl|].
      constructor; auto. apply Forall2_ceq_refl. }
    split; [apply aggD_ceq | apply aggP_ceq]; auto.
  Qed.

  Lemma agg_move q :
    ceq (contrib_of w q) (fC k (contrib_of w p)) ->
    deq (aggD (contribs w ((KA ++ KB) ++ [q]))) (fD k (aggD (contribs w (KA ++ p :: KB)))) /\
    dists_equiv (aggP (contribs w ((KA ++ KB) ++ [q]))) (fP k (aggP (contribs w (KA ++ p :: KB)))).
  Proof.
    intros H. destruct (agg_keep q H) as [H1 H2].
    assert (P : Permutation (contribs w ((KA ++ KB) ++ [q])) (contribs w (KA ++ q :: KB))).
    { apply Permutation_map. perm. }
    split.
    - etransitivity; [apply deq_perm, aggD_perm, P | exact H1].
    - etransitivity; [apply dists_equiv_perm, aggP_perm, P | exact H2].
  Qed.

  (** the child vanishes *)
  Lemma agg_gone :
    fC k (contrib_of w p) = ([], []) ->
    deq (aggD (contribs w (KA ++ KB))) (fD k (aggD (contribs w (KA ++ p :: KB)))) /\
    dists_equiv (aggP (contribs w (KA ++ KB))) (fP k (aggP (contribs w (KA ++ p :: KB)))).
  Proof.
    intros H. rewrite fD_aggD, fP_aggP, old_filtered, H.
    assert (P : Permutation (contribs w KA ++ ([], []) :: contribs w KB) (([], []) :: contribs w (KA ++ KB))).
    { unfold contribs. rewrite map_app. perm. }
    split.
    - rewrite <- (aggD_nil (contribs w (KA ++ KB))). apply deq_perm, aggD_perm. now symmetry.
    - rewrite <- (aggP_nil (contribs w (KA ++ KB))). apply dists_equiv_perm, aggP_perm. now symmetry.
  Qed.
End Agg.
