(** C14, round 8: the average over collections of trees ON THE SAME TAXA whatever the order
    in which each tree lists them; invariance of the matrix under re-rooting and reordering
    of the neighbour lists; what the cut does with absent lengths and thresholds <= 0. *)
From Coq Require Import String ZArith QArith Bool Arith Lia List Permutation Sorted Setoid Morphisms.
From GT Require Import Base.UTree Spec.Obs Model.Reroot Spec.Unrooted Proofs.RerootBase
     Model.Matrix Proofs.MatrixWalk Proofs.MatrixCells Proofs.MatrixMain Proofs.MatrixOracle
     Spec.Cut Proofs.CutPaths Proofs.C05Main Proofs.MapOrder.
Import ListNotations.
Local Close Scope Q_scope.

(** * sorting by name does not depend on the order of the input *)
Lemma leb_sle a b : MatrixMain.sle a b -> MapOrder.sle a b.
Proof.
  unfold MatrixMain.sle, MapOrder.sle, String.leb. intros H E. rewrite E in H. discriminate.
Qed.

Lemma sorted_leb_strong l : Sorted MatrixMain.sle l -> StronglySorted MapOrder.sle l.
Proof.
  intros H. apply Sorted_StronglySorted.
  - intros x y z. apply MapOrder.sle_trans.
  - induction H as [|x l Hs IH Hh]; constructor; auto.
    destruct Hh as [|y l' Hxy]; constructor. now apply leb_sle.
Qed.

Theorem name_sort_perm_eq l l' : Permutation l l' -> name_sort l = name_sort l'.
Proof.
  intros HP. apply MapOrder.sorted_perm_unique.
  - apply sorted_leb_strong, name_sort_sorted.
  - apply sorted_leb_strong, name_sort_sorted.
  - etransitivity; [apply Permutation_sym, name_sort_perm|].
    etransitivity; [exact HP|apply name_sort_perm].
Qed.

Lemma name_sort_eq_perm l l' : name_sort l = name_sort l' -> Permutation l l'.
Proof.
  intros E. etransitivity; [apply name_sort_perm|]. rewrite E. apply Permutation_sym, name_sort_perm.
Qed.

(** the trees the matrix is defined on: the tips of the code are the leaves *)
Definition shaped (t : utree) : Prop := wf t = true /\ 2 <= degree t.

Lemma shaped_names m t : shaped t -> fst (to_matrix m t) = name_sort (leaves t).
Proof. intros [Hw Hd]. now rewrite to_matrix_shape. Qed.

(** * the average over trees on the same taxa *)
(** sum over the trees of the cell of tips [a] and [b] *)
Definition sum_named (m : metric) (ts : list utree) (a b : string) : Q :=
  fold_right (fun t acc => (cell m t a b + acc)%Q) 0%Q ts.

Lemma sum_cells_named m nms i j : forall ts,
  Forall shaped ts -> Forall (fun t => fst (to_matrix m t) = nms) ts ->
  i < length nms -> j < length nms ->
  (sum_cells m ts i j == sum_named m ts (nth i nms ""%string) (nth j nms ""%string))%Q.
Proof.
  induction ts as [|t r IH]; intros HS HN Hi Hj; [reflexivity|].
  inversion HS as [|? ? [Hw Hd] HS']; subst. inversion HN as [|? ? Hn HN']; subst.
  change (sum_cells m (t :: r) i j) with (mcell (snd (to_matrix m t)) i j + sum_cells m r i j)%Q.
  cbn [sum_named fold_right]. fold (sum_named m r (nth i (fst (to_matrix m t)) ""%string)
                                              (nth j (fst (to_matrix m t)) ""%string)).
  rewrite (to_matrix_entry m t i j Hw Hd Hi Hj).
  rewrite (IH HS' HN' Hi Hj). reflexivity.
Qed.

(** the average exists exactly when the trees have the same taxa, in whatever order each tree
    lists them; rows are the sorted names and every cell is the mean of the trees' cells for
    that pair of names *)
Theorem avg_same_taxa m t r :
  Forall shaped (t :: r) ->
  Forall (fun t' => Permutation (leaves t') (leaves t)) r ->
  exists M, avg_matrix m (t :: r) = Ok (name_sort (leaves t), M) /\
    forall i j, i < length (leaves t) -> j < length (leaves t) ->
      (mcell M i j ==
       sum_named m (t :: r) (nth i (name_sort (leaves t)) ""%string) (nth j (name_sort (leaves t)) ""%string)
       / inject_Z (Z.of_nat (length (t :: r))))%Q.
Proof.
  intros HS HP. inversion HS as [|? ? Ht HSr]; subst.
  assert (F : Forall (fun t' => fst (to_matrix m t') = fst (to_matrix m t)) r).
  { rewrite Forall_forall in *. intros t' Hin. rewrite (shaped_names m t' (HSr _ Hin)), (shaped_names m t Ht).
    apply name_sort_perm_eq. auto. }
  destruct (avg_matrix_defined m t r F) as [M HM]. rewrite (shaped_names m t Ht) in HM.
  exists M. split; [exact HM|]. intros i j Hi Hj.
  destruct (avg_matrix_mean m t r _ _ HM) as [FN Hc]. rewrite Hc.
  assert (L : length (name_sort (leaves t)) = length (leaves t)).
  { symmetry. apply Permutation_length, name_sort_perm. }
  rewrite (sum_cells_named m (name_sort (leaves t)) i j (t :: r) HS FN) by (rewrite L; assumption).
  reflexivity.
Qed.

Theorem avg_defined_iff_same_taxa m t r :
  Forall shaped (t :: r) ->
  ((exists nms M, avg_matrix m (t :: r) = Ok (nms, M)) <->
   Forall (fun t' => Permutation (leaves t') (leaves t)) r).
Proof.
  intros HS. split.
  - intros [nms [M H]]. destruct (avg_matrix_mean m t r _ _ H) as [FN _].
    inversion HS as [|? ? Ht HSr]; subst. inversion FN as [|? ? Hn FNr]; subst.
    rewrite Forall_forall in *. intros t' Hin. apply name_sort_eq_perm.
    rewrite <- (shaped_names m t' (HSr _ Hin)), <- (shaped_names m t Ht). apply FNr, Hin.
  - intros HP. destruct (avg_same_taxa m t r HS HP) as [M [H _]]. eauto.
Qed.

(** a tree whose taxa differ makes the call fail (the Go code returns an error or indexes out
    of range: both are [Err] in the model) *)
Corollary avg_fails_on_other_taxa m t r t' :
  Forall shaped (t :: r) -> In t' r -> ~ Permutation (leaves t') (leaves t) ->
  exists e, avg_matrix m (t :: r) = Err e.
Proof.
  intros HS Hin HN. destruct (avg_matrix m (t :: r)) as [[nms M]|e] eqn:E; [|eauto].
  exfalso. apply HN. assert (X : exists nms M, avg_matrix m (t :: r) = Ok (nms, M)) by eauto.
  apply (avg_defined_iff_same_taxa m t r HS) in X. rewrite Forall_forall in X. auto.
Qed.

(** * the matrix of a tree does not depend on where it is rooted nor on the order of the
      neighbour lists *)
Lemma cell_invariant m t t' :
  good t -> good t' ->
  dists_equiv (pairdists (mweight m) t') (pairdists (mweight m) t) ->
  forall a b, (cell m t' a b == cell m t a b)%Q.
Proof.
  intros G G' E a b.
  assert (E' : dists_equiv (pairdists (mweight m) t) (pairdists (mweight m) t')) by (symmetry; exact E).
  destruct (cell_dicho m t G a b) as [H|[d [H Hq]]].
  - destruct (cell_dicho m t' G' a b) as [H'|[d' [H' Hq']]].
    + rewrite H, H'. reflexivity.
    + destruct (dists_equiv_In _ _ E a b d' H') as [d [Hd Hdd]].
      rewrite Hq', (cell_path_sum m t G a b d Hd). exact Hdd.
  - destruct (dists_equiv_In _ _ E' a b d H) as [d' [Hd Hdd]].
    rewrite Hq, (cell_path_sum m t' G' a b d' Hd). symmetry. exact Hdd.
Qed.

Theorem matrix_invariant m t t' :
  good t -> wf t' = true -> 2 <= degree t' -> Permutation (leaves t') (leaves t) ->
  (forall w, dists_equiv (pairdists w t') (pairdists w t)) ->
  fst (to_matrix m t') = fst (to_matrix m t) /\
  Forall2 (Forall2 Qeq) (snd (to_matrix m t')) (snd (to_matrix m t)) /\
  forall a b, (cell m t' a b == cell m t a b)%Q.
Proof.
  intros G Hw' Hd' HP HE.
  assert (G' : good t').
  { split; [|split]; auto. destruct G as [_ [_ ND]]. eapply Permutation_NoDup; [apply Permutation_sym, HP|exact ND]. }
  assert (C := cell_invariant m t t' G G' (HE _)).
  destruct G as [Hw [Hd ND]].
  rewrite (to_matrix_shape m t' Hw' Hd'), (to_matrix_shape m t Hw Hd). cbn [fst snd].
  rewrite (name_sort_perm_eq _ _ HP). split; [reflexivity|]. split; [|exact C].
  set (nm := name_sort (leaves t)).
  assert (X : forall l1 l2 : list string, Forall2 (Forall2 Qeq)
            (map (fun a => map (fun b => cell m t' a b) l2) l1)
            (map (fun a => map (fun b => cell m t a b) l2) l1)).
  { induction l1 as [|a l1 IH]; intros l2; cbn [map]; constructor; [|apply IH].
    induction l2 as [|b l2 IH2]; cbn [map]; constructor; [apply C|exact IH2]. }
  apply X.
Qed.

Theorem matrix_reroot m t i t' :
  good t -> reroot t i = Ok t' ->
  fst (to_matrix m t') = fst (to_matrix m t) /\
  Forall2 (Forall2 Qeq) (snd (to_matrix m t')) (snd (to_matrix m t)) /\
  forall a b, (cell m t' a b == cell m t a b)%Q.
Proof.
  intros G H. destruct G as [Hw [Hd ND]].
  destruct (reroot_all t i t' Hw Hd H) as [W [D [HL [_ [HP _]]]]].
  apply matrix_invariant; auto. split; auto.
Qed.

Theorem matrix_tperm m t t' :
  good t -> tperm t t' ->
  fst (to_matrix m t') = fst (to_matrix m t) /\
  Forall2 (Forall2 Qeq) (snd (to_matrix m t')) (snd (to_matrix m t)) /\
  forall a b, (cell m t' a b == cell m t a b)%Q.
Proof.
  intros G H. destruct G as [Hw [Hd ND]].
  destruct (tperm_all t t' H) as [W [D [HL [_ [_ [HP _]]]]]].
  apply matrix_invariant; auto; [split; auto|lia].
Qed.

(** * the cut: the stored number is compared, an absent length is -1 *)
Lemma short_iff maxlen e : short maxlen e = true <-> (elen e < maxlen)%Q.
Proof.
  unfold short. rewrite negb_true_iff. split.
  - intros H. apply Qnot_le_lt. intros L. apply Qle_bool_iff in L. congruence.
  - intros H. destruct (Qle_bool maxlen (elen e)) eqn:E; auto.
    apply Qle_bool_iff in E. exfalso. eapply Qlt_not_le; eauto.
Qed.

Lemma short_absent maxlen e :
  (elen e == nilv)%Q -> (short maxlen e = true <-> (-1 < maxlen)%Q).
Proof.
  intros E. rewrite short_iff, E. unfold nilv. reflexivity.
Qed.

(** with lengths that are absent or not negative: a threshold <= -1 cuts every branch, a
    threshold in (-1, 0] cuts exactly the branches that have a length (zero included) and
    keeps those without *)
Lemma short_low_threshold maxlen e :
  ((elen e == nilv)%Q \/ (0 <= elen e)%Q) ->
  ((maxlen <= -1)%Q -> short maxlen e = false) /\
  ((-1 < maxlen)%Q -> (maxlen <= 0)%Q -> (short maxlen e = true <-> (elen e == nilv)%Q)).
Proof.
  intros D. split.
  - intros L. destruct (short maxlen e) eqn:S; auto. apply short_iff in S.
    exfalso. destruct D as [D|D].
    + rewrite D in S. unfold nilv in S. eapply Qlt_not_le; [exact S|exact L].
    + eapply Qlt_not_le; [exact S|]. eapply Qle_trans; [exact L|]. eapply Qle_trans; [|exact D]. discriminate.
  - intros L1 L2. rewrite short_iff. split.
    + intros S. destruct D as [D|D]; auto. exfalso. eapply Qlt_not_le; [exact S|].
      eapply Qle_trans; eauto.
    + intros E. rewrite E. exact L1.
Qed.

(** * the cut when no branch, or every branch, is shorter than the threshold *)
Fixpoint all_edges (P : einfo -> Prop) (t : utree) : Prop :=
  match t with
  | UNode _ _ sl =>
    (fix go (l : list slot) : Prop :=
       match l with
       | [] => True
       | None :: r => go r
       | Some (e, c) :: r => P e /\ all_edges P c /\ go r
       end) sl
  end.

Lemma all_edges_slot P n c sl e ch :
  all_edges P (UNode n c sl) -> In (Some (e, ch)) sl -> P e /\ all_edges P ch.
Proof.
  cbn [all_edges]. induction sl as [|[[e0 c0]|] r IH]; intros H Hin; [destruct Hin| |].
  - destruct H as [H1 [H2 H3]]. destruct Hin as [E|Hin]; [inversion E; subst; auto|auto].
  - destruct Hin as [E|Hin]; [discriminate|auto].
Qed.

Lemma all_edges_impl (P P' : einfo -> Prop) : (forall e, P e -> P' e) ->
  forall t, all_edges P t -> all_edges P' t.
Proof.
  intros HPQ. induction t as [n c sl IH] using utree_ind'. cbn [all_edges].
  induction IH as [|[[e ch]|] r Hc _ IHr]; auto.
  intros [H1 [H2 H3]]. split; [auto|]. split; [apply Hc, H2|apply IHr, H3].
Qed.

Lemma depths_inv w n c sl a d :
  In (a, d) (depths w (UNode n c sl)) ->
  d = 0%Q \/ exists e ch d', In (Some (e, ch)) sl /\ In (a, d') (depths w ch) /\ d = (w e + d')%Q.
Proof.
  cbn [depths]. destruct (kids_of sl).
  - intros [E|[]]. inversion E. now left.
  - intros H. right. apply in_flat_map in H. destruct H as [[[e ch]|] [Hs H]]; [|destruct H].
    apply in_map_iff in H. destruct H as [[a' d'] [E H]]. cbn [fst snd] in E. inversion E; subst.
    exists e, ch, d'. auto.
Qed.

Lemma pairdists_inv w n c sl a b d :
  In (a, b, d) (pairdists w (UNode n c sl)) ->
  (exists e1 c1 d1 e2 c2 d2, In (Some (e1, c1)) sl /\ In (Some (e2, c2)) sl /\
      In (a, d1) (depths w c1) /\ In (b, d2) (depths w c2) /\ d = ((w e1 + d1) + (w e2 + d2))%Q) \/
  (exists e ch, In (Some (e, ch)) sl /\ In (a, b, d) (pairdists w ch)).
Proof.
  cbn [pairdists]. rewrite in_app_iff. intros [H|H].
  - left. apply cross_all_In in H. destruct H as [l1 [l2 [dx [dy [H1 [H2 [Hx [Hy E]]]]]]]].
    apply in_flat_map in H1. destruct H1 as [[[e1 c1]|] [Hs1 H1]]; [|destruct H1].
    apply in_flat_map in H2. destruct H2 as [[[e2 c2]|] [Hs2 H2]]; [|destruct H2].
    destruct H1 as [H1|[]]. destruct H2 as [H2|[]]. subst l1 l2.
    apply in_map_iff in Hx. destruct Hx as [[a' d1] [Ea Hx]]. cbn [fst snd] in Ea. inversion Ea; subst.
    apply in_map_iff in Hy. destruct Hy as [[b' d2] [Eb Hy]]. cbn [fst snd] in Eb. inversion Eb; subst.
    exists e1, c1, d1, e2, c2, d2. auto.
  - right. apply in_flat_map in H. destruct H as [[[e ch]|] [Hs H]]; [|destruct H]. eauto.
Qed.

Lemma depths_nonneg w (P : einfo -> Prop) : (forall e, P e -> (0 <= w e)%Q) ->
  forall t, all_edges P t -> forall a d, In (a, d) (depths w t) -> (0 <= d)%Q.
Proof.
  intros HP. induction t as [n c sl IH] using utree_ind'. intros HA a d H.
  apply depths_inv in H. destruct H as [->|[e [ch [d' [Hs [H ->]]]]]]; [apply Qle_refl|].
  destruct (all_edges_slot _ _ _ _ _ _ HA Hs) as [Pe Ac].
  rewrite Forall_forall in IH. specialize (IH _ Hs). cbn in IH.
  specialize (IH Ac a d' H). specialize (HP e Pe).
  replace 0%Q with (0 + 0)%Q by reflexivity. apply Qplus_le_compat; assumption.
Qed.

Lemma depths_null w (P : einfo -> Prop) : (forall e, P e -> (w e == 0)%Q) ->
  forall t, all_edges P t -> forall a d, In (a, d) (depths w t) -> (d == 0)%Q.
Proof.
  intros HP. induction t as [n c sl IH] using utree_ind'. intros HA a d H.
  apply depths_inv in H. destruct H as [->|[e [ch [d' [Hs [H ->]]]]]]; [reflexivity|].
  destruct (all_edges_slot _ _ _ _ _ _ HA Hs) as [Pe Ac].
  rewrite Forall_forall in IH. specialize (IH _ Hs). cbn in IH.
  rewrite (IH Ac a d' H), (HP e Pe). reflexivity.
Qed.

(** every path sum is at least 1 when every branch weighs at least 1 *)
Lemma pairdists_lower w (P : einfo -> Prop) : (forall e, P e -> (1 <= w e)%Q) ->
  forall t, all_edges P t -> forall a b d, In (a, b, d) (pairdists w t) -> (1 <= d)%Q.
Proof.
  intros HP.
  assert (HP0 : forall e, P e -> (0 <= w e)%Q).
  { intros e Pe. eapply Qle_trans; [|apply HP, Pe]. discriminate. }
  induction t as [n c sl IH] using utree_ind'. intros HA a b d H.
  apply pairdists_inv in H.
  destruct H as [[e1 [c1 [d1 [e2 [c2 [d2 [Hs1 [Hs2 [H1 [H2 ->]]]]]]]]]]|[e [ch [Hs H]]]].
  - destruct (all_edges_slot _ _ _ _ _ _ HA Hs1) as [P1 A1].
    destruct (all_edges_slot _ _ _ _ _ _ HA Hs2) as [P2 A2].
    assert (N1 := depths_nonneg w P HP0 c1 A1 a d1 H1).
    assert (N2 := depths_nonneg w P HP0 c2 A2 b d2 H2).
    assert (W1 := HP e1 P1). assert (W2 := HP0 e2 P2).
    replace 1%Q with ((1 + 0) + (0 + 0))%Q by reflexivity.
    repeat apply Qplus_le_compat; assumption.
  - destruct (all_edges_slot _ _ _ _ _ _ HA Hs) as [Pe Ac].
    rewrite Forall_forall in IH. specialize (IH _ Hs). cbn in IH. eapply IH; eauto.
Qed.

Lemma pairdists_null w (P : einfo -> Prop) : (forall e, P e -> (w e == 0)%Q) ->
  forall t, all_edges P t -> forall a b d, In (a, b, d) (pairdists w t) -> (d == 0)%Q.
Proof.
  intros HP. induction t as [n c sl IH] using utree_ind'. intros HA a b d H.
  apply pairdists_inv in H.
  destruct H as [[e1 [c1 [d1 [e2 [c2 [d2 [Hs1 [Hs2 [H1 [H2 ->]]]]]]]]]]|[e [ch [Hs H]]]].
  - destruct (all_edges_slot _ _ _ _ _ _ HA Hs1) as [P1 A1].
    destruct (all_edges_slot _ _ _ _ _ _ HA Hs2) as [P2 A2].
    rewrite (depths_null w P HP c1 A1 a d1 H1), (depths_null w P HP c2 A2 b d2 H2),
            (HP e1 P1), (HP e2 P2). reflexivity.
  - destruct (all_edges_slot _ _ _ _ _ _ HA Hs) as [Pe Ac].
    rewrite Forall_forall in IH. specialize (IH _ Hs). cbn in IH. eapply IH; eauto.
Qed.

Lemma w_long_short maxlen e : short maxlen e = true -> w_long maxlen e = 0%Q.
Proof. unfold w_long, is_short, short. now intros ->. Qed.
Lemma w_long_long maxlen e : short maxlen e = false -> w_long maxlen e = 1%Q.
Proof. unfold w_long, is_short, short. now intros ->. Qed.

(** no branch shorter than the threshold: no two distinct tips share a bag; every branch
    shorter: any two tips share a bag *)
Theorem cut_none_short maxlen t :
  wf t = true -> 2 <= degree t -> NoDup (leaves t) ->
  all_edges (fun e => short maxlen e = false) t ->
  forall a b, In a (leaves t) -> In b (leaves t) -> a <> b ->
    ~ exists bag, In bag (cut maxlen t) /\ In a bag /\ In b bag.
Proof.
  intros W D N HA a b Ha Hb Hab HB.
  destruct (pairdists_complete (w_long maxlen) t a b Ha Hb Hab) as [d Hd].
  apply (cut_classes maxlen t W D N a b d Hd) in HB.
  assert (L : (1 <= d)%Q).
  { eapply (pairdists_lower (w_long maxlen) (fun e => short maxlen e = false)); eauto.
    intros e He. rewrite (w_long_long _ _ He). apply Qle_refl. }
  rewrite HB in L. exact (Qlt_not_le 0 1 eq_refl L).
Qed.

Theorem cut_all_short maxlen t :
  wf t = true -> 2 <= degree t -> NoDup (leaves t) ->
  all_edges (fun e => short maxlen e = true) t ->
  forall a b, In a (leaves t) -> In b (leaves t) -> a <> b ->
    exists bag, In bag (cut maxlen t) /\ In a bag /\ In b bag.
Proof.
  intros W D N HA a b Ha Hb Hab.
  destruct (pairdists_complete (w_long maxlen) t a b Ha Hb Hab) as [d Hd].
  apply (cut_classes maxlen t W D N a b d Hd).
  eapply (pairdists_null (w_long maxlen) (fun e => short maxlen e = true)); eauto.
  intros e He. rewrite (w_long_short _ _ He). reflexivity.
Qed.

(** lengths absent or not negative and a threshold <= -1 (in particular every threshold <= 0
    when every branch has a length >= 0): every tip is alone *)
Corollary cut_threshold_le_minus1 maxlen t :
  wf t = true -> 2 <= degree t -> NoDup (leaves t) ->
  all_edges (fun e => (elen e == nilv)%Q \/ (0 <= elen e)%Q) t -> (maxlen <= -1)%Q ->
  forall a b, In a (leaves t) -> In b (leaves t) -> a <> b ->
    ~ exists bag, In bag (cut maxlen t) /\ In a bag /\ In b bag.
Proof.
  intros W D N HA L. apply cut_none_short; auto.
  revert HA. apply all_edges_impl. intros e H1.
    apply (proj1 (short_low_threshold maxlen e H1) L).
Qed.

Corollary cut_threshold_le_0_all_lengths maxlen t :
  wf t = true -> 2 <= degree t -> NoDup (leaves t) ->
  all_edges (fun e => (0 <= elen e)%Q) t -> (maxlen <= 0)%Q ->
  forall a b, In a (leaves t) -> In b (leaves t) -> a <> b ->
    ~ exists bag, In bag (cut maxlen t) /\ In a bag /\ In b bag.
Proof.
  intros W D N HA L. apply cut_none_short; auto.
  revert HA. apply all_edges_impl. intros e H1.
    destruct (short maxlen e) eqn:S; auto. apply short_iff in S. exfalso.
    eapply Qlt_not_le; [exact S|]. eapply Qle_trans; eauto.
Qed.

(** no branch has a length and the threshold is above -1 (0 included): one bag *)
Corollary cut_no_lengths maxlen t :
  wf t = true -> 2 <= degree t -> NoDup (leaves t) ->
  all_edges (fun e => (elen e == nilv)%Q) t -> (-1 < maxlen)%Q ->
  forall a b, In a (leaves t) -> In b (leaves t) -> a <> b ->
    exists bag, In bag (cut maxlen t) /\ In a bag /\ In b bag.
Proof.
  intros W D N HA L. apply cut_all_short; auto.
  revert HA. apply all_edges_impl. intros e H1.
    apply (short_absent maxlen e H1). exact L.
Qed.

(** * examples *)
(** (c:4,(b:2,a:1)0.5:3,d); the tree of C14_example_matrix with the tips in another order *)
Definition c14_tree_b : utree :=
  UNode "" [] [Some (mkE 4 nilv nilv [], UNode "c" [] [None]);
               Some (mkE 3 (1#2) nilv [], UNode "" [] [None; Some (mkE 2 nilv nilv [], UNode "b" [] [None]);
                                                        Some (mkE 1 nilv nilv [], UNode "a" [] [None])]);
               Some (mkE nilv nilv nilv [], UNode "d" [] [None])]%string.

(** ((d:1,a:1):1,b:1,c:1); same taxa, another topology, tips in another order *)
Definition c14_tree_c : utree :=
  UNode "" [] [Some (mkE 1 nilv nilv [], UNode "" [] [None; Some (mkE 1 nilv nilv [], UNode "d" [] [None]);
                                                     Some (mkE 1 nilv nilv [], UNode "a" [] [None])]);
               Some (mkE 1 nilv nilv [], UNode "b" [] [None]);
               Some (mkE 1 nilv nilv [], UNode "c" [] [None])]%string.

Definition qmat_eqb (a b : list (list Q)) : bool := list_eqb (list_eqb Qeq_bool) a b.

Lemma avg_example_orders :
  Forall shaped [c14_tree; c14_tree_c] /\
  leaves c14_tree = ["a"; "b"; "c"; "d"]%string /\ leaves c14_tree_c = ["d"; "a"; "b"; "c"]%string /\
  match avg_matrix MBrlen [c14_tree; c14_tree_c] with
  | Ok (nms, M) => list_eqb String.eqb nms ["a"; "b"; "c"; "d"]%string &&
                   qmat_eqb M [[0; 3; 11#2; 3]; [3; 0; 11#2; 4]; [11#2; 11#2; 0; 7#2]; [3; 4; 7#2; 0]]%Q
  | Err _ => false
  end = true.
Proof.
  split; [repeat constructor; vm_compute; auto; try lia|].
  vm_compute. auto.
Qed.

(** a tree with one taxon less (or one more) makes the average fail *)
Definition c14_tree_3 : utree :=
  UNode "" [] [Some (mkE 1 nilv nilv [], UNode "a" [] [None]);
               Some (mkE 1 nilv nilv [], UNode "b" [] [None]);
               Some (mkE 1 nilv nilv [], UNode "c" [] [None])]%string.

Lemma avg_example_fails :
  shaped c14_tree_3 /\
  avg_matrix MBrlen [c14_tree; c14_tree_3] = Err "index out of range"%string /\
  avg_matrix MBrlen [c14_tree_3; c14_tree] = Err "index out of range"%string.
Proof. split; [split; vm_compute; auto; lia|]. vm_compute. auto. Qed.

Lemma tperm_example :
  good c14_tree /\ fst (to_matrix MBrlen c14_tree_b) = fst (to_matrix MBrlen c14_tree) /\
  leaves c14_tree_b <> leaves c14_tree /\
  qmat_eqb (snd (to_matrix MBrlen c14_tree_b)) (snd (to_matrix MBrlen c14_tree)) = true.
Proof.
  split; [exact c14_tree_good|]. split; [vm_compute; reflexivity|]. split; [vm_compute; discriminate|].
  vm_compute. reflexivity.
Qed.

Lemma reroot_example :
  match reroot c14_tree 1 with
  | Ok t' => negb (utree_eqb t' c14_tree) &&
             qmat_eqb (snd (to_matrix MBrlen t')) (snd (to_matrix MBrlen c14_tree)) &&
             qmat_eqb (snd (to_matrix MBoots t')) (snd (to_matrix MBoots c14_tree))
  | Err _ => false
  end = true.
Proof. vm_compute. reflexivity. Qed.

(** ((a,b):0,c:0,d:1); cut at 0, at -1/2 and at -1: the branches without a length (a, b) are
    "shorter" than any threshold above -1, those of length 0 are not shorter than 0 *)
Definition cut_tree0 : utree :=
  UNode "" [] [Some (mkE 0 nilv nilv [], UNode "" [] [None; Some (mkE nilv nilv nilv [], UNode "a" [] [None]);
                                                     Some (mkE nilv nilv nilv [], UNode "b" [] [None])]);
               Some (mkE 0 nilv nilv [], UNode "c" [] [None]);
               Some (mkE 1 nilv nilv [], UNode "d" [] [None])]%string.

Lemma cut_low_example :
  cut 0 cut_tree0 = [["a"; "b"]; ["c"]; ["d"]]%string /\
  cut (-1#2) cut_tree0 = [["a"; "b"]; ["c"]; ["d"]]%string /\
  cut (-1) cut_tree0 = [["a"]; ["b"]; ["c"]; ["d"]]%string /\
  cut (1#2) cut_tree0 = [["a"; "b"; "c"]; ["d"]]%string.
Proof. vm_compute. repeat split. Qed.

Lemma cut_low_example_hyps :
  good cut_tree0 /\ all_edges (fun e => (elen e == nilv)%Q \/ (0 <= elen e)%Q) cut_tree0.
Proof.
  split.
  - split; [vm_compute; reflexivity|]. split; [vm_compute; lia|].
    vm_compute. repeat constructor; simpl; intuition discriminate.
  - cbn. repeat split; try (left; reflexivity); right; discriminate.
Qed.

(** ((a,b),c,d); no branch has a length *)
Definition nolen_tree : utree :=
  UNode "" [] [Some (mkE nilv nilv nilv [], UNode "" [] [None; Some (mkE nilv nilv nilv [], UNode "a" [] [None]);
                                                     Some (mkE nilv nilv nilv [], UNode "b" [] [None])]);
               Some (mkE nilv nilv nilv [], UNode "c" [] [None]);
               Some (mkE nilv nilv nilv [], UNode "d" [] [None])]%string.

Lemma nolen_example :
  good nolen_tree /\ all_edges (fun e => (elen e == nilv)%Q) nolen_tree /\
  cut 0 nolen_tree = [["a"; "b"; "c"; "d"]]%string /\
  cut (-1) nolen_tree = [["a"]; ["b"]; ["c"]; ["d"]]%string.
Proof.
  split; [|split].
  - split; [vm_compute; reflexivity|]. split; [vm_compute; lia|].
    vm_compute. repeat constructor; simpl; intuition discriminate.
  - cbn. repeat split; reflexivity.
  - vm_compute. split; reflexivity.
Qed.

(** * how the average fails on other taxa: the exact model (Model/C14Extra8.v) and [avg_matrix] *)
From GT Require Import Model.C14Extra8 Proofs.CollapseBase.

Lemma names_check_refl n : names_check n n = NCOk.
Proof. induction n as [|a r IH]; cbn; auto. now rewrite String.eqb_refl. Qed.

Lemma names_check_ok_len n1 : forall n2, names_check n1 n2 = NCOk -> length n1 <= length n2.
Proof.
  induction n1 as [|a r IH]; intros [|b r2]; cbn; intros H; try lia; try discriminate.
  destruct (String.eqb a b); [|discriminate]. specialize (IH _ H). lia.
Qed.

Lemma names_check_ok_eq n1 : forall n2, names_check n1 n2 = NCOk -> length n1 = length n2 -> n1 = n2.
Proof.
  induction n1 as [|a r IH]; intros [|b r2]; cbn; intros H L; try discriminate; auto.
  destruct (String.eqb a b) eqn:E; [|discriminate]. apply String.eqb_eq in E. subst b.
  f_equal. apply IH; auto.
Qed.

(** the two models agree on success (same result) and on failure (both fail), as soon as the
    first tree has a tip *)
Lemma avg_loop_x_agrees m n1 : n1 <> [] -> forall ts acc,
  match avg_loop_x m n1 acc ts with
  | AOk s => avg_loop m n1 acc ts = Ok s
  | AErr _ | APanic => exists e, avg_loop m n1 acc ts = Err e
  end.
Proof.
  intros NE. induction ts as [|t r IH]; intros acc; [reflexivity|].
  rewrite avg_loop_cons. cbn [avg_loop_x]. destruct (to_matrix m t) as [n2 m2].
  assert (L0 : Nat.eqb (length n1) 0 = false).
  { destruct n1; [congruence|reflexivity]. }
  assert (BAD : names_check n1 n2 <> NCOk ->
                exists e, (if negb (Nat.eqb (length n1) (length n2)) then Err "index out of range"%string
                           else if negb (list_eqb String.eqb n1 n2)
                                then Err "trees do not have the same sets of tip names"%string
                                else avg_loop m n1 (madd acc m2) r) = Err e).
  { intros HN. destruct (Nat.eqb (length n1) (length n2)); cbn [negb]; [|eauto].
    destruct (list_eqb String.eqb n1 n2) eqn:E; cbn [negb]; [|eauto].
    apply list_eqb_string_eq in E. subst n2. exfalso. apply HN, names_check_refl. }
  destruct (names_check n1 n2) eqn:NC.
  - rewrite L0. cbn [negb andb]. destruct (Nat.ltb (length n1) (length n2)) eqn:LT.
    + apply Nat.ltb_lt in LT. assert (Nat.eqb (length n1) (length n2) = false) as -> by (apply Nat.eqb_neq; lia).
      cbn [negb]. eauto.
    + apply Nat.ltb_ge in LT. pose proof (names_check_ok_len _ _ NC) as LE.
      assert (EL : length n1 = length n2) by lia.
      pose proof (names_check_ok_eq _ _ NC EL) as ->.
      rewrite Nat.eqb_refl. cbn [negb].
      assert (list_eqb String.eqb n2 n2 = true) as ->.
      { clear. induction n2; simpl; auto. now rewrite String.eqb_refl. }
      cbn [negb]. apply IH.
  - apply BAD. discriminate.
  - apply BAD. discriminate.
Qed.

Theorem avg_matrix_x_agrees m t r :
  fst (to_matrix m t) <> [] ->
  match avg_matrix_x m (t :: r) with
  | AOk x => avg_matrix m (t :: r) = Ok x
  | AErr _ | APanic => exists e, avg_matrix m (t :: r) = Err e
  end.
Proof.
  intros NE. unfold avg_matrix_x, avg_matrix. destruct (to_matrix m t) as [n1 m1]. cbn [fst] in NE.
  pose proof (avg_loop_x_agrees m n1 NE r m1) as H.
  destruct (avg_loop_x m n1 m1 r) as [s|e|].
  - rewrite H. reflexivity.
  - destruct H as [e' ->]. eauto.
  - destruct H as [e' ->]. eauto.
Qed.

(** on the same taxa the exact model never reports a crash or an error *)
Corollary avg_x_same_taxa m t r :
  Forall shaped (t :: r) -> Forall (fun t' => Permutation (leaves t') (leaves t)) r ->
  exists M, avg_matrix_x m (t :: r) = AOk (name_sort (leaves t), M).
Proof.
  intros HS HP. destruct (avg_same_taxa m t r HS HP) as [M [H _]].
  assert (NE : fst (to_matrix m t) <> []).
  { inversion HS as [|? ? Ht _]; subst. rewrite (shaped_names m t Ht).
    intros E. assert (P := name_sort_perm (leaves t)). rewrite E in P.
    apply Permutation_sym, Permutation_nil in P. exact (CollapseBase.leaves_nonempty t P). }
  pose proof (avg_matrix_x_agrees m t r NE) as X. rewrite H in X.
  destruct (avg_matrix_x m (t :: r)) as [x|e|]; [inversion X; subst; eauto| |]; destruct X as [e' X]; discriminate.
Qed.

(** the inputs of the reviewer's remark: (a,b,c,d) then (a,b,c) and the converse crash, (a,b,c,d)
    then (a,b,x) is refused *)
Definition c14_tree_abx : utree :=
  UNode "" [] [Some (mkE 1 nilv nilv [], UNode "a" [] [None]);
               Some (mkE 1 nilv nilv [], UNode "b" [] [None]);
               Some (mkE 1 nilv nilv [], UNode "x" [] [None])]%string.

Lemma avg_x_example :
  avg_matrix_x MBrlen [c14_tree; c14_tree_3] = APanic /\
  avg_matrix_x MBrlen [c14_tree_3; c14_tree] = APanic /\
  avg_matrix_x MBrlen [c14_tree; c14_tree_abx] = AErr "trees do not have the same sets of tip names"%string.
Proof. vm_compute. auto. Qed.
