(** C14 (cut), part 5c: the union-find specification of Spec/Cut.v ([cut_groups], what the
    run-time oracle computes), the model [cut] and the path form are one statement: two tip
    names are in a common class of [cut_groups] iff they are in a common bag of [cut]
    (iff, by Proofs/CutPaths.v, no branch on their path is as long as the threshold). *)
From Coq Require Import String ZArith QArith Bool Arith Lia List Permutation.
From GT Require Import Base.UTree Spec.Obs Spec.Cut Model.Reroot Proofs.RerootBase
     Model.Matrix Proofs.CutBase Proofs.CutSem Proofs.CutSpec Proofs.CutPaths
     Proofs.CutUF Proofs.CutReps.
Import ListNotations.
Local Close Scope Q_scope.

Section Union.
  Variable maxlen : Q.
  Notation comp_down := (comp_down maxlen).
  Notation tops_below := (tops_below maxlen).
  Notation nreps := (nreps maxlen).

  Lemma short_is_short e : short maxlen e = is_short maxlen e.
  Proof. reflexivity. Qed.

  (** ** tips and the top node of their piece *)
  Lemma tip_rep_comp t : forall id top j x r,
      In (j, x, r) (nreps t id top) -> is_tip x = true ->
      (r = top /\ In (uname x) (comp_down t)) \/
      (exists v, In v (tops_below t) /\ In (r, v, r) (nreps t id top) /\ In (uname x) (comp_down v)).
  Proof.
    induction t as [n c sl IH] using utree_ind'. intros id top j x r H T.
    rewrite nreps_unfold in H. destruct H as [E|H].
    { inversion E; subst. left. split; auto. rewrite comp_down_unfold.
      unfold is_tip, degree in T. simpl in T. rewrite T. now left. }
    assert (G : forall l next,
               Forall (fun s : slot => match s with
                 | Some (_, t) => forall id top j x r, In (j, x, r) (nreps t id top) -> is_tip x = true ->
                     (r = top /\ In (uname x) (comp_down t)) \/
                     (exists v, In v (tops_below t) /\ In (r, v, r) (nreps t id top) /\ In (uname x) (comp_down v))
                 | None => True end) l ->
               In (j, x, r) (nreps_go maxlen nreps top l next) ->
               (r = top /\ In (uname x) (side_tips maxlen l)) \/
               (exists v, In v (tops_slots maxlen l) /\ In (r, v, r) (nreps_go maxlen nreps top l next) /\
                          In (uname x) (comp_down v))).
    { clear H. induction l as [|[[e ch]|] r0 IHr]; intros next HF H; simpl in H; [destruct H| |].
      - apply Forall_cons_iff in HF as [Hc HFr].
        unfold CutBase.side_tips, CutSpec.tops_slots. simpl flat_map.
        fold (side_tips maxlen r0). fold (tops_slots maxlen r0). simpl nreps_go.
        rewrite short_is_short.
        apply in_app_iff in H. destruct H as [H|H].
        + destruct (Hc next (if is_short maxlen e then top else next) j x r H T) as [[-> A]|[v [A [B C]]]].
          * destruct (is_short maxlen e) eqn:S.
            -- left. split; auto. apply in_app_iff. now left.
            -- right. exists ch. split; [apply in_app_iff; left; now left|]. split; auto.
               apply in_app_iff. left. destruct (nreps_head maxlen ch next next) as [r1 ->]. now left.
          * right. exists v. split; [rewrite !in_app_iff; left; now right|]. split; auto.
            apply in_app_iff. now left.
        + destruct (IHr (next + usize ch) HFr H) as [[-> A]|[v [A [B C]]]].
          * left. split; auto. apply in_app_iff. now right.
          * right. exists v. split; [rewrite !in_app_iff; now right|]. split; auto.
            apply in_app_iff. now right.
      - apply Forall_cons_iff in HF as [_ HFr]. apply (IHr next HFr H). }
    destruct (G sl (S id) IH H) as [[-> A]|[v [A [B C]]]].
    - left. split; auto. rewrite comp_down_unfold. apply in_app_iff. now right.
    - right. exists v. split; [exact A|]. split; auto. rewrite nreps_unfold. now right.
  Qed.

  Lemma comp_tip_rep t : forall id top a,
      In a (comp_down t) ->
      exists j x, In (j, x, top) (nreps t id top) /\ is_tip x = true /\ uname x = a.
  Proof.
    induction t as [n c sl IH] using utree_ind'. intros id top a H.
    rewrite comp_down_unfold in H. rewrite nreps_unfold. apply in_app_iff in H. destruct H as [H|H].
    - destruct (Nat.eqb (length sl) 1) eqn:T; [|destruct H]. destruct H as [<-|[]].
      exists id, (UNode n c sl). split; [now left|]. split; auto.
    - assert (G : forall l next,
                 Forall (fun s : slot => match s with
                   | Some (_, t) => forall id top a, In a (comp_down t) ->
                       exists j x, In (j, x, top) (nreps t id top) /\ is_tip x = true /\ uname x = a
                   | None => True end) l ->
                 In a (side_tips maxlen l) ->
                 exists j x, In (j, x, top) (nreps_go maxlen nreps top l next) /\ is_tip x = true /\ uname x = a).
      { clear H. induction l as [|[[e ch]|] r0 IHr]; intros next HF H;
          unfold CutBase.side_tips in H; simpl in H; [destruct H| |].
        - apply Forall_cons_iff in HF as [Hc HFr]. fold (side_tips maxlen r0) in H. simpl nreps_go.
          rewrite short_is_short in H. apply in_app_iff in H. destruct H as [H|H].
          + destruct (is_short maxlen e) eqn:S; [|destruct H].
            destruct (Hc next top a H) as [j [x [A B]]]. exists j, x. split; auto. apply in_app_iff. now left.
          + destruct (IHr (next + usize ch) HFr H) as [j [x [A B]]]. exists j, x. split; auto.
            apply in_app_iff. now right.
        - apply Forall_cons_iff in HF as [_ HFr]. apply (IHr next HFr H). }
      destruct (G sl (S id) IH H) as [j [x [A B]]]. exists j, x. split; auto. now right.
  Qed.

  Lemma nreps_sub t : forall id top j v r,
      In (j, v, r) (nreps t id top) -> incl (nreps v j r) (nreps t id top).
  Proof.
    induction t as [n c sl IH] using utree_ind'. intros id top j v r H.
    rewrite nreps_unfold in H. destruct H as [E|H].
    { inversion E; subst. apply incl_refl. }
    rewrite nreps_unfold. apply incl_tl. revert H. generalize (S id).
    induction IH as [|[[e ch]|] r0 Hs _ IHr]; intros next H; simpl in *; [destruct H| |auto].
    apply in_app_iff in H. destruct H as [H|H].
    - apply incl_appl. eapply Hs; eauto.
    - apply incl_appr. eapply IHr; eauto.
  Qed.

  Lemma top_has_id t : forall id top v,
      In v (tops_below t) -> exists rv, In (rv, v, rv) (nreps t id top).
  Proof.
    induction t as [n c sl IH] using utree_ind'. intros id top v H. simpl in H.
    rewrite nreps_unfold.
    assert (G : forall l next,
               Forall (fun s : slot => match s with
                 | Some (_, t) => forall id top v, In v (tops_below t) -> exists rv, In (rv, v, rv) (nreps t id top)
                 | None => True end) l ->
               In v (tops_slots maxlen l) -> exists rv, In (rv, v, rv) (nreps_go maxlen nreps top l next)).
    { clear H. induction l as [|[[e ch]|] r0 IHr]; intros next HF H;
        unfold CutSpec.tops_slots in H; simpl in H; [destruct H| |].
      - apply Forall_cons_iff in HF as [Hc HFr]. fold (tops_slots maxlen r0) in H. simpl nreps_go.
        rewrite short_is_short in H. rewrite !in_app_iff in H. destruct H as [[H|H]|H].
        + destruct (is_short maxlen e) eqn:S; [destruct H|]. destruct H as [<-|[]].
          exists next. apply in_app_iff. left. destruct (nreps_head maxlen ch next next) as [r1 ->]. now left.
        + destruct (Hc next (if is_short maxlen e then top else next) v H) as [rv A].
          exists rv. apply in_app_iff. now left.
        + destruct (IHr (next + usize ch) HFr H) as [rv A]. exists rv. apply in_app_iff. now right.
      - apply Forall_cons_iff in HF as [_ HFr]. apply (IHr next HFr H). }
    destruct (G sl (S id) IH H) as [rv A]. exists rv. now right.
  Qed.

  (** ** positions in [nodes t] *)
  Lemma seq_nth_error a n p x : nth_error (seq a n) p = Some x -> x = a + p.
  Proof.
    revert a p. induction n as [|n IH]; intros a [|p] H; simpl in H; try discriminate.
    - inversion H. lia.
    - apply IH in H. lia.
  Qed.

  Lemma nreps_nth t i x r : In (i, x, r) (nreps t 0 0) -> nth_error (nodes t) i = Some x.
  Proof.
    intros H. apply In_nth_error in H. destruct H as [p Hp].
    assert (A := map_nth_error (fun q : nat * utree * nat => fst (fst q)) p _ Hp).
    assert (B := map_nth_error (fun q : nat * utree * nat => snd (fst q)) p _ Hp).
    fold (ids (nreps t 0 0)) in A. rewrite nreps_ids in A. rewrite nreps_nodes in B. simpl in A, B.
    apply seq_nth_error in A. simpl in A. now subst.
  Qed.

  Lemma nth_nreps t i x : nth_error (nodes t) i = Some x -> exists r, In (i, x, r) (nreps t 0 0).
  Proof.
    intros H. rewrite <- (nreps_nodes maxlen t 0 0) in H.
    destruct (nth_error (nreps t 0 0) i) as [[[i' x'] r]|] eqn:E.
    - assert (A := map_nth_error (fun q : nat * utree * nat => fst (fst q)) i _ E).
      assert (B := map_nth_error (fun q : nat * utree * nat => snd (fst q)) i _ E).
      fold (ids (nreps t 0 0)) in A. rewrite nreps_ids in A. simpl in A, B.
      apply seq_nth_error in A. simpl in A. subst i'. rewrite H in B. inversion B; subst.
      exists r. eapply nth_error_In; eauto.
    - exfalso. apply nth_error_None in E. assert (X : nth_error (map (fun p => snd (fst p)) (nreps t 0 0)) i <> None) by congruence.
      apply nth_error_Some in X. rewrite map_length in X. lia.
  Qed.

  Lemma nodes_length t : length (nodes t) = usize t.
  Proof.
    rewrite <- (nreps_nodes maxlen t 0 0), map_length.
    assert (X := nreps_ids maxlen t 0 0). apply (f_equal (@length nat)) in X.
    unfold ids in X. rewrite map_length, seq_length in X. exact X.
  Qed.

  Lemma gedges_range t : forall id u v e,
      In (u, v, e) (gedges t id) -> id <= u < id + usize t /\ id <= v < id + usize t.
  Proof.
    induction t as [n c sl IH] using utree_ind'. intros id u v e H.
    rewrite gedges_unfold in H. rewrite usize_unfold.
    assert (G : forall l next, id < next ->
               Forall (fun s : slot => match s with
                 | Some (_, t) => forall id u v e, In (u, v, e) (gedges t id) ->
                                                   id <= u < id + usize t /\ id <= v < id + usize t
                 | None => True end) l ->
               In (u, v, e) (gedges_go l id next) ->
               id <= u < next + kids_size l /\ id <= v < next + kids_size l).
    { clear H. induction l as [|[[e0 ch]|] r IHr]; intros next Ln HF H; simpl in H; [destruct H| |].
      - apply Forall_cons_iff in HF as [Hc HFr]. simpl kids_size.
        assert (P : 1 <= usize ch) by (destruct ch; simpl; lia).
        destruct H as [E|H]; [inversion E; subst; lia|].
        apply in_app_iff in H. destruct H as [H|H].
        + destruct (Hc next u v e H). lia.
        + destruct (IHr (next + usize ch) ltac:(lia) HFr H). lia.
      - apply Forall_cons_iff in HF as [_ HFr]. simpl kids_size. apply (IHr next Ln HFr H). }
    destruct (G sl (S id) ltac:(lia) IH H). lia.
  Qed.

  Lemma ssort_In a l : In a (ssort l) <-> In a l.
  Proof.
    unfold ssort. induction l as [|x r IH]; simpl; [tauto|].
    rewrite <- IH. generalize (fold_right minsert [] r) as s0.
    induction s0 as [|y s0 IHs]; simpl; [tauto|].
    destruct (String.leb x y); simpl; [tauto|]. rewrite IHs. tauto.
  Qed.

  Lemma class_tips_In t c a :
    In a (class_tips t c) <->
    exists i x, In i c /\ nth_error (nodes t) i = Some x /\ is_tip x = true /\ uname x = a.
  Proof.
    unfold class_tips. rewrite in_flat_map. split.
    - intros [i [Hi H]]. destruct (nth_error (nodes t) i) as [x|] eqn:E; [|destruct H].
      destruct (is_tip x) eqn:T; [|destruct H]. destruct H as [<-|[]]. exists i, x. auto.
    - intros [i [x [Hi [E [T <-]]]]]. exists i. split; auto. rewrite E, T. now left.
  Qed.

  (** ** the theorem *)
  Theorem cut_groups_same_bag t : wf t = true ->
    forall a b,
      (exists g, In g (cut_groups maxlen t) /\ In a g /\ In b g) <->
      (exists bag, In bag (cut maxlen t) /\ In a bag /\ In b bag).
  Proof.
    intros W a b.
    set (L := nreps t 0 0). set (E := short_pairs (is_short maxlen) (gedges t 0)).
    assert (UF : forall i j, i < usize t -> j < usize t ->
                             (sc (classes maxlen t) i j <-> conn E i j)).
    { intros i j Hi Hj. unfold classes. rewrite nodes_length.
      apply (uf_classes (is_short maxlen) (usize t) (gedges t 0)); auto.
      intros u v e H. destruct (gedges_range t 0 u v e H). lia. }
    assert (Hhead : In (0, t, 0) L).
    { unfold L. destruct (nreps_head maxlen t 0 0) as [r ->]. now left. }
    split.
    - intros [g [Hg [Ha Hb]]]. unfold cut_groups in Hg. apply filter_In in Hg. destruct Hg as [Hg _].
      apply in_map_iff in Hg. destruct Hg as [c [<- Hc]].
      apply ssort_In, class_tips_In in Ha. apply ssort_In, class_tips_In in Hb.
      destruct Ha as [i [xa [Ic [Na [Ta Ua]]]]]. destruct Hb as [j [xb [Jc [Nb [Tb Ub]]]]].
      destruct (nth_nreps t i xa Na) as [ra Ra]. destruct (nth_nreps t j xb Nb) as [rb Rb].
      assert (Li := nreps_range maxlen t 0 0 i xa ra Ra). assert (Lj := nreps_range maxlen t 0 0 j xb rb Rb).
      assert (C : conn E i j).
      { apply UF; try lia. exists c. auto. }
      apply (conn_same_top maxlen t i xa ra j xb rb Ra Rb) in C. subst rb.
      (* the common top node *)
      assert (V : exists v, In v (t :: tops_below t) /\ In a (comp_down v) /\ In b (comp_down v)).
      { destruct (tip_rep_comp t 0 0 i xa ra Ra Ta) as [[-> A]|[va [A1 [A2 A3]]]];
          destruct (tip_rep_comp t 0 0 j xb _ Rb Tb) as [[Eq B]|[vb [B1 [B2 B3]]]].
        - exists t. rewrite <- Ua, <- Ub. split; [now left|auto].
        - exists t. rewrite <- Ua, <- Ub. split; [now left|]. split; auto.
          destruct (nreps_key_unique maxlen t 0 0 0 vb 0 t 0 B2 Hhead) as [-> _]. exact B3.
        - subst ra. exists t. rewrite <- Ua, <- Ub. split; [now left|]. split; auto.
          destruct (nreps_key_unique maxlen t 0 0 0 va 0 t 0 A2 Hhead) as [-> _]. exact A3.
        - destruct (nreps_key_unique maxlen t 0 0 ra va ra vb ra A2 B2) as [-> _].
          exists vb. rewrite <- Ua, <- Ub. split; [now right|auto]. }
      destruct V as [v [Hv [Av Bv]]].
      assert (Nv : comp_down v <> []) by (intros X; rewrite X in Av; destruct Av).
      destruct (sgroups_conv maxlen t false v) as [g [Hg Pg]]; auto.
      { right. exact W. }
      exists (bag_of g). rewrite (cut_sgroups maxlen t W). split; [now apply in_map|].
      split; apply bag_of_In; apply (Permutation_in _ (Permutation_sym Pg)); auto.
    - intros [bag [Hbag [Ha Hb]]]. rewrite (cut_sgroups maxlen t W) in Hbag.
      apply in_map_iff in Hbag. destruct Hbag as [g [<- Hg]].
      apply (proj1 (bag_of_In a g)) in Ha. apply (proj1 (bag_of_In b g)) in Hb.
      destruct (sgroups_grp maxlen t false g) as [v [Hv Pv]]; auto.
      apply (Permutation_in _ Pv) in Ha, Hb.
      assert (R : exists rv, In (rv, v, rv) L).
      { destruct Hv as [<-|Hv]; [exists 0; exact Hhead|]. now apply top_has_id. }
      destruct R as [rv Rv].
      destruct (comp_tip_rep v rv rv a Ha) as [i [xa [Ia [Ta Ua]]]].
      destruct (comp_tip_rep v rv rv b Hb) as [j [xb [Jb [Tb Ub]]]].
      apply (nreps_sub t 0 0 rv v rv Rv) in Ia, Jb. fold L in Ia, Jb.
      assert (Li := nreps_range maxlen t 0 0 i xa rv Ia). assert (Lj := nreps_range maxlen t 0 0 j xb rv Jb).
      assert (C : conn E i j) by (apply (conn_same_top maxlen t i xa rv j xb rv Ia Jb); reflexivity).
      apply UF in C; try lia. destruct C as [c [Hc [Ic Jc]]].
      exists (ssort (class_tips t c)).
      assert (Xa : In a (class_tips t c)).
      { apply class_tips_In. exists i, xa. split; auto. split; [now apply nreps_nth with (r := rv)|auto]. }
      assert (Xb : In b (class_tips t c)).
      { apply class_tips_In. exists j, xb. split; auto. split; [now apply nreps_nth with (r := rv)|auto]. }
      split; [|split; now apply ssort_In].
      unfold cut_groups. apply filter_In. split; [apply in_map_iff; eauto|].
      destruct (ssort (class_tips t c)) eqn:Es; auto.
      apply ssort_In in Xa. rewrite Es in Xa. destruct Xa.
  Qed.
End Union.

(** the oracle's union-find groups, the path form and the model's bags: one statement *)
Theorem cut_groups_classes maxlen t :
  wf t = true -> 2 <= degree t -> NoDup (leaves t) ->
  forall a b d, In (a, b, d) (pairdists (w_long maxlen) t) ->
    ((d == 0)%Q <-> exists g, In g (cut_groups maxlen t) /\ In a g /\ In b g).
Proof.
  intros W D N a b d H. rewrite (cut_classes maxlen t W D N a b d H).
  symmetry. apply cut_groups_same_bag. exact W.
Qed.
