(** C05, rooting on an outgroup: what LeastCommonAncestorRecur computes.
    [lca_rec grp k s] (k = number of requested tips) on a subtree [s]:
    - not found: (number of tips of [s] in the group, number of tips of [s] outside), and the
      first number is not k;
    - found (p, es, d): the node n at [p] carries all k group tips; if it is a tip, it is the only
      group tip; otherwise [es] lists the slots of its children that contain a group tip and
      [d] counts the tips outside the group below those children. *)
From Coq Require Import String ZArith QArith Bool Arith Lia List Permutation Setoid Morphisms.
From GT Require Import Base.UTree Spec.Obs Model.Reroot Model.Outgroup Spec.Unrooted
     Proofs.RerootBase Proofs.Reroot Proofs.Reorder Proofs.Unroot Proofs.Splits
     Proofs.OutgroupBase Proofs.OutgroupCut Proofs.OutgroupKeep.
Import ListNotations.
Local Close Scope Q_scope.
Local Arguments n_up : simpl never.

Section LCASpec.
  Variable grp : list string.
  Let k := length grp.
  Hypothesis Hk : 0 < k.

  Definition inb (x : string) : bool := smem x grp.
  Definition nin (L : list string) : nat := length (filter inb L).
  Definition nout (L : list string) : nat := length (filter (fun x => negb (inb x)) L).
  Definition cin (s : utree) : nat := nin (leaves s).
  Definition cout (s : utree) : nat := nout (leaves s).

  Lemma nin_app a b : nin (a ++ b) = nin a + nin b.
  Proof. unfold nin. now rewrite filter_app, app_length. Qed.
  Lemma nout_app a b : nout (a ++ b) = nout a + nout b.
  Proof. unfold nout. now rewrite filter_app, app_length. Qed.
  Lemma nin_nout_length L : nin L + nout L = length L.
  Proof.
    unfold nin, nout. induction L as [|x r IH]; simpl; auto.
    destruct (inb x); simpl; lia.
  Qed.

  Definition sel (s : slot) : bool :=
    match s with Some (_, c) => Nat.ltb 0 (cin c) | None => false end.
  Fixpoint selidx (i : nat) (l : list slot) : list nat :=
    match l with
    | [] => []
    | s :: r => (if sel s then [i] else []) ++ selidx (S i) r
    end.
  Definition slot_leaves (l : list slot) : list string := kleaves (kids_of l).
  Definition selleaves (l : list slot) : list string := slot_leaves (filter sel l).
  Definition unselleaves (l : list slot) : list string := slot_leaves (filter (fun s => negb (sel s)) l).

  Lemma slot_leaves_cons s r :
    slot_leaves (s :: r) = match s with Some (_, c) => leaves c ++ slot_leaves r | None => slot_leaves r end.
  Proof. destruct s as [[e c]|]; reflexivity. Qed.

  Lemma sel_unsel_nout l : nout (selleaves l) + nout (unselleaves l) = nout (slot_leaves l).
  Proof.
    unfold selleaves, unselleaves. induction l as [|s r IH]; simpl; auto.
    destruct (sel s) eqn:E; simpl; rewrite !slot_leaves_cons; destruct s as [[e c]|];
      rewrite ?nout_app; lia.
  Qed.

  Lemma unsel_nin l : nin (unselleaves l) = 0.
  Proof.
    unfold unselleaves. induction l as [|s r IH]; simpl; auto.
    destruct (sel s) eqn:E; simpl; auto. rewrite slot_leaves_cons.
    destruct s as [[e c]|]; auto. rewrite nin_app, IH. simpl in E.
    apply Nat.ltb_ge in E. unfold cin in E. lia.
  Qed.

  Lemma sel_unsel_nin l : nin (selleaves l) = nin (slot_leaves l).
  Proof.
    unfold selleaves. induction l as [|s r IH]; simpl; auto.
    destruct (sel s) eqn:E; simpl; rewrite !slot_leaves_cons; destruct s as [[e c]|];
      rewrite ?nin_app; auto.
    simpl in E. apply Nat.ltb_ge in E. unfold cin in E. lia.
  Qed.

  (** ** the loop of LeastCommonAncestorRecur over the neighbours *)
  Definition lca_go (rec : utree -> lca_res) :=
    fix go (i : nat) (l : list slot) (common : nat) (es : list nat) (different tmpdiff : nat) : lca_res :=
      match l with
      | [] => if Nat.eqb common k then LFound [] es different else LNot common (different + tmpdiff)
      | None :: r => go (S i) r common es different tmpdiff
      | Some (_, c) :: r =>
        match rec c with
        | LFound p es' d => LFound (i :: p) es' d
        | LNot com d =>
          if Nat.ltb 0 com then go (S i) r (common + com) (es ++ [i]) (different + d) tmpdiff
          else go (S i) r common es different (tmpdiff + d)
        end
      end.

  Lemma lca_rec_unfold n c sl :
    lca_rec grp k (UNode n c sl) =
    let tip := Nat.eqb (length sl) 1 in
    let ing := tip && smem n grp in
    lca_go (lca_rec grp k) 0 sl (if ing then 1 else 0) (if ing then [up_index sl] else [])
           (if tip && negb ing then 1 else 0) 0.
  Proof. reflexivity. Qed.

  (** what is known of a child that reports "not found" *)
  Definition not_ok (rec : utree -> lca_res) (s : slot) : Prop :=
    match s with
    | Some (_, c) => forall com d, rec c = LNot com d -> com = cin c /\ d = cout c
    | None => True
    end.

  Lemma lca_go_spec rec l : Forall (not_ok rec) l -> forall i common es different tmpdiff,
    (exists j e c p es' d, nth_error l j = Some (Some (e, c)) /\ rec c = LFound p es' d /\
                           lca_go rec i l common es different tmpdiff = LFound ((i + j) :: p) es' d)
    \/ ((forall j e c, nth_error l j = Some (Some (e, c)) -> exists com d, rec c = LNot com d) /\
        lca_go rec i l common es different tmpdiff =
        (if Nat.eqb (common + nin (slot_leaves l)) k
         then LFound [] (es ++ selidx i l) (different + nout (selleaves l))
         else LNot (common + nin (slot_leaves l))
                   (different + nout (selleaves l) + (tmpdiff + nout (unselleaves l))))).
  Proof.
    induction 1 as [|s r Hs Hr IH]; intros i common es different tmpdiff.
    - right. split; [intros [|j] e c H; discriminate|].
      simpl. unfold selleaves, unselleaves, slot_leaves, nin, nout. simpl.
      rewrite !Nat.add_0_r, app_nil_r. reflexivity.
    - destruct s as [[e c]|].
      + simpl lca_go. destruct (rec c) as [p es' d|com d] eqn:Ec.
        * left. exists 0, e, c, p, es', d. rewrite Nat.add_0_r. auto.
        * destruct (Hs com d Ec) as [-> ->].
          assert (SL : slot_leaves (Some (e, c) :: r) = leaves c ++ slot_leaves r) by reflexivity.
          destruct (Nat.ltb 0 (cin c)) eqn:E0.
          -- destruct (IH (S i) (common + cin c) (es ++ [i]) (different + cout c) tmpdiff)
               as [(j&e'&c'&p&es'&d&N&R&G)|[AN G]].
             ++ left. exists (S j), e', c', p, es', d. simpl nth_error.
                replace (i + S j) with (S i + j) by lia. auto.
             ++ right. split; [intros [|j] e' c' Hj; simpl in Hj; [inversion Hj; subst; eauto | eapply AN; eauto]|].
                rewrite G. rewrite SL, nin_app.
                unfold selleaves, unselleaves. simpl filter. simpl sel. rewrite E0. simpl negb.
                cbn [selidx sel]. rewrite E0.
                change (slot_leaves (Some (e, c) :: filter sel r)) with (leaves c ++ slot_leaves (filter sel r)).
                rewrite nout_app. fold (cin c) (cout c).
                replace (common + cin c + nin (slot_leaves r)) with (common + (cin c + nin (slot_leaves r))) by lia.
                rewrite <- !app_assoc. simpl app.
                replace (different + cout c + nout (slot_leaves (filter sel r)))
                  with (different + (cout c + nout (slot_leaves (filter sel r)))) by lia.
                reflexivity.
          -- destruct (IH (S i) common es different (tmpdiff + cout c))
               as [(j&e'&c'&p&es'&d&N&R&G)|[AN G]].
             ++ left. exists (S j), e', c', p, es', d. simpl nth_error.
                replace (i + S j) with (S i + j) by lia. auto.
             ++ right. split; [intros [|j] e' c' Hj; simpl in Hj; [inversion Hj; subst; eauto | eapply AN; eauto]|].
                rewrite G. rewrite SL, nin_app.
                unfold selleaves, unselleaves. simpl filter. simpl sel. rewrite E0. simpl negb.
                cbn [selidx sel]. rewrite E0. simpl app.
                change (slot_leaves (Some (e, c) :: filter (fun s => negb (sel s)) r))
                  with (leaves c ++ slot_leaves (filter (fun s => negb (sel s)) r)).
                rewrite nout_app. fold (cin c) (cout c).
                apply Nat.ltb_ge in E0.
                replace (cin c) with 0 by lia. simpl.
                replace (tmpdiff + cout c + nout (slot_leaves (filter (fun s : slot => negb (sel s)) r)))
                  with (tmpdiff + (cout c + nout (slot_leaves (filter (fun s : slot => negb (sel s)) r)))) by lia.
                reflexivity.
      + simpl lca_go.
        destruct (IH (S i) common es different tmpdiff) as [(j&e'&c'&p&es'&d&N&R&G)|[AN G]].
        * left. exists (S j), e', c', p, es', d. simpl nth_error.
          replace (i + S j) with (S i + j) by lia. auto.
        * right. split; [intros [|j] e' c' Hj; simpl in Hj; [discriminate | eapply AN; eauto]|].
          rewrite G. reflexivity.
  Qed.

  (** ** specification of the result *)
  Definition found_at (n : utree) (es : list nat) (d : nat) : Prop :=
    cin n = k /\
    ((uslots n = [None] /\ es = [0] /\ d = 0 /\ inb (uname n) = true) \/
     (kids n <> [] /\ es = selidx 0 (uslots n) /\ d = nout (selleaves (uslots n)))).

  Inductive lca_spec (s : utree) : lca_res -> Prop :=
  | LS_not com d : com = cin s -> d = cout s -> com <> k -> lca_spec s (LNot com d)
  | LS_found p es d n :
      node_at s p = Some n -> found_at n es d -> d <= cout s -> k <= cin s ->
      lca_spec s (LFound p es d).

  Lemma child_leaves_split sl j e c :
    nth_error sl j = Some (Some (e, c)) ->
    exists X Y, slot_leaves sl = X ++ leaves c ++ Y.
  Proof.
    revert j; induction sl as [|s r IH]; intros [|j] H; simpl in H; try discriminate.
    - inversion H; subst. exists [], (slot_leaves r). reflexivity.
    - destruct (IH _ H) as [X [Y E]]. rewrite slot_leaves_cons. destruct s as [[e' c']|].
      + exists (leaves c' ++ X), Y. rewrite E. now rewrite <- app_assoc.
      + exists X, Y. exact E.
  Qed.

  Lemma lca_go_single rec i c0 es d tm :
    lca_go rec i [None] c0 es d tm = if Nat.eqb c0 k then LFound [] es d else LNot c0 (d + tm).
  Proof. reflexivity. Qed.

  Lemma lca_spec_node n c sl :
    Forall (fun s => match s with Some (_, ch) => lca_spec ch (lca_rec grp k ch) | None => True end) sl ->
    (kids_of sl = [] -> sl = [None]) ->
    (kids_of sl <> [] -> Nat.eqb (length sl) 1 = false) ->
    lca_spec (UNode n c sl) (lca_rec grp k (UNode n c sl)).
  Proof.
    intros HF Htip Hint. rewrite lca_rec_unfold. cbv zeta.
    destruct (kids_of sl) as [|x K] eqn:EK.
    - (* a tip *)
      rewrite (Htip eq_refl). simpl length. simpl Nat.eqb. cbn [andb].
      assert (L : leaves (UNode n c [None]) = [n]) by reflexivity.
      rewrite lca_go_single.
      destruct (smem n grp) eqn:Eg; cbn [andb negb up_index].
      + destruct (Nat.eqb 1 k) eqn:E1.
        * apply Nat.eqb_eq in E1.
          apply (LS_found _ [] [0] 0 (UNode n c [None])); try reflexivity.
          -- split.
             ++ unfold cin, nin. rewrite L. simpl. unfold inb. rewrite Eg. simpl. exact E1.
             ++ left. repeat split. exact Eg.
          -- lia.
          -- unfold cin, nin. rewrite L. simpl. unfold inb. rewrite Eg. simpl. lia.
        * apply Nat.eqb_neq in E1. apply LS_not.
          -- unfold cin, nin. rewrite L. simpl. unfold inb. now rewrite Eg.
          -- unfold cout, nout. rewrite L. simpl. unfold inb. now rewrite Eg.
          -- exact E1.
      + destruct (Nat.eqb 0 k) eqn:E0; [apply Nat.eqb_eq in E0; lia|].
        apply LS_not.
        * unfold cin, nin. rewrite L. simpl. unfold inb. now rewrite Eg.
        * unfold cout, nout. rewrite L. simpl. unfold inb. now rewrite Eg.
        * lia.
    - (* an inner node *)
      assert (NE : kids_of sl <> []) by (rewrite EK; discriminate).
      rewrite Hint by discriminate. cbn [andb].
      assert (L : leaves (UNode n c sl) = slot_leaves sl) by (apply leaves_node; exact NE).
      assert (HN : Forall (not_ok (lca_rec grp k)) sl).
      { eapply Forall_impl; [|exact HF]. intros [[e ch]|] H; simpl; auto.
        intros com d E. rewrite E in H. inversion H; subst. auto. }
      destruct (lca_go_spec (lca_rec grp k) sl HN 0 0 [] 0 0) as [(j&e&ch&p&es'&d&N&R&G)|[_ G]].
      + rewrite G. simpl Nat.add.
        assert (Hc : lca_spec ch (lca_rec grp k ch)).
        { rewrite Forall_forall in HF. apply (HF (Some (e, ch))). eapply nth_error_In; eauto. }
        rewrite R in Hc. inversion Hc as [|p' es'' d' n' Hn Hf Hd Hkc]; subst.
        destruct (child_leaves_split sl j e ch N) as [X [Y E]].
        apply (LS_found _ (j :: p) es' d n').
        * simpl. now rewrite N.
        * exact Hf.
        * unfold cout in *. rewrite L, E, !nout_app. lia.
        * unfold cin in *. rewrite L, E, !nin_app. lia.
      + rewrite G. simpl Nat.add. simpl app.
        destruct (Nat.eqb (nin (slot_leaves sl)) k) eqn:E1.
        * apply Nat.eqb_eq in E1.
          apply (LS_found _ [] _ _ (UNode n c sl)); try reflexivity.
          -- split; [unfold cin; now rewrite L|].
             right. unfold kids. simpl uslots. repeat split. exact NE.
          -- unfold cout. rewrite L. rewrite <- (sel_unsel_nout sl). lia.
          -- unfold cin. rewrite L. lia.
        * apply Nat.eqb_neq in E1. apply LS_not.
          -- unfold cin. now rewrite L.
          -- unfold cout. rewrite L. rewrite <- (sel_unsel_nout sl). lia.
          -- exact E1.
  Qed.

  Lemma wf_sub_tip_shape sl :
    n_up sl = 1 -> (kids_of sl = [] -> sl = [None]) /\ (kids_of sl <> [] -> Nat.eqb (length sl) 1 = false).
  Proof.
    intros H. pose proof (length_slots sl) as HL. split.
    - intros K. rewrite K, H in HL. simpl in HL.
      destruct sl as [|s [|s2 r]]; simpl in HL; try lia.
      destruct s as [p|]; [unfold n_up in H; simpl in H; lia | reflexivity].
    - intros K. apply Nat.eqb_neq. destruct (kids_of sl); [congruence|]. simpl in HL. lia.
  Qed.

  Theorem lca_spec_sub s : wf_sub s = true -> lca_spec s (lca_rec grp k s).
  Proof.
    induction s as [n c sl IH] using utree_ind'. intros Hwf.
    rewrite wf_sub_unfold in Hwf. apply andb_true_iff in Hwf as [H1 H2]. apply Nat.eqb_eq in H1.
    destruct (wf_sub_tip_shape sl H1) as [T1 T2].
    apply lca_spec_node; auto.
    rewrite Forall_forall in *. intros [[e ch]|] Hin; auto.
    apply (IH _ Hin). rewrite forallb_forall in H2.
    apply (H2 (e, ch)). now apply kids_of_In.
  Qed.

  Theorem lca_spec_root t : wf t = true -> 2 <= degree t -> lca_spec t (lca_rec grp k t).
  Proof.
    destruct t as [n c sl]. intros Hwf Hd. unfold degree in Hd. simpl in Hd.
    rewrite wf_unfold in Hwf. apply andb_true_iff in Hwf as [H1 H2]. apply Nat.eqb_eq in H1.
    pose proof (length_slots sl) as HL.
    apply lca_spec_node.
    - rewrite Forall_forall. intros [[e ch]|] Hin; auto.
      apply lca_spec_sub. rewrite forallb_forall in H2. apply (H2 (e, ch)). now apply kids_of_In.
    - intros K. rewrite K in HL. simpl in HL. lia.
    - intros _. apply Nat.eqb_neq. lia.
  Qed.
End LCASpec.
