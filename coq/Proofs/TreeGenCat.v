(** C16: RandomCaterpillarBinaryTree has the caterpillar shape: the tree under construction is
    a "spine" whose end is the last inserted tip; grafting on that tip's branch extends it. *)
From Coq Require Import String ZArith QArith Bool Arith Lia List Permutation.
From GT Require Import Base.UTree Spec.Obs Spec.GenShape Spec.Counting Model.Reroot Model.Rand2 Model.TreeGen
     Proofs.RerootBase Proofs.C05Main Proofs.SamplingBase Proofs.TreeGenNames Proofs.TreeGenGraft
     Proofs.TreeGenLoop Proofs.TreeGenMain.
Import ListNotations.
Local Close Scope Q_scope.
Local Arguments n_up : simpl never.

(** a subtree is a spine ending in the tip named L: the tip itself, or a node
    [spine; parent; tip] (GraftTipOnEdge puts the new tip first, the old child last) *)
Fixpoint spine (L : string) (t : utree) : bool :=
  match t with
  | UNode n _ [None] => String.eqb n L
  | UNode _ _ [Some (_, x); None; Some (_, UNode _ _ [None])] => spine L x
  | _ => false
  end.

(** the creation index of the branch above the end of the spine hanging on branch [e] *)
Fixpoint spine_eid (e : einfo) (t : utree) : nat :=
  match t with
  | UNode _ _ [Some (e1, x); None; _] => spine_eid e1 x
  | _ => eid e
  end.

Lemma spine_cases L t : spine L t = true ->
  (exists n c, t = UNode n c [None] /\ String.eqb n L = true) \/
  (exists n c e1 x e2 n2 c2, t = UNode n c [Some (e1, x); None; Some (e2, UNode n2 c2 [None])] /\ spine L x = true).
Proof.
  destruct t as [n c sl]. simpl.
  destruct sl as [|[[e1 x]|] [|[p|] [|[[e2 [n2 c2 [|[q|] [|? ?]]]]|] [|? ?]]]]; try discriminate; intros H.
  - right. eexists _, _, _, _, _, _, _. split; [reflexivity|exact H].
  - left. eauto.
Qed.

(** the branch of the end tip is found *)
Lemma find_in_spine L : forall x e r, spine L x = true ->
  fold_right (fun s acc =>
                match s with
                | None => acc
                | Some (e, ch) =>
                  if is_tip ch && String.eqb (uname ch) L then Some (eid e)
                  else match find_tip_edge L ch with Some k => Some k | None => acc end
                end) None (Some (e, x) :: r) = Some (spine_eid e x).
Proof.
  induction x as [n c sl IH] using utree_ind'. intros e r H.
  destruct (spine_cases L _ H) as [[n0 [c0 [E Hn]]]|[n0 [c0 [e1 [x [e2 [n2 [c2 [E Hx]]]]]]]]].
  - inversion E; subst. cbn [fold_right]. unfold is_tip, degree. cbn [uslots length Nat.eqb uname andb].
    rewrite Hn. reflexivity.
  - inversion E; subst. cbn [fold_right]. unfold is_tip at 1, degree. cbn [uslots length Nat.eqb andb].
    rewrite find_tip_edge_unfold.
    inversion IH as [|? ? IH1 _]; subst.
    rewrite (IH1 e1 _ Hx). reflexivity.
Qed.

Lemma spine_eid_in L : forall x e, spine L x = true -> In (spine_eid e x) (eid e :: eids x).
Proof.
  induction x as [n c sl IHx] using utree_ind'. intros e Hx.
  destruct (spine_cases L _ Hx) as [[n0 [c0 [E Hn]]]|[n0 [c0 [e1' [x' [e2 [n2 [c2 [E Hx']]]]]]]]].
  - inversion E; subst. now left.
  - inversion E; subst. cbn [spine_eid]. right.
    inversion IHx as [|? ? I1 _]; subst.
    rewrite eids_unfold, eids_sl_cons_some. apply in_or_app. left. now apply I1.
Qed.

Section Step.
  Variables (L : string) (i m : nat).
  Let e1' := eI m.
  Let e2' := eI (S m).
  Let tip' := tipn i.

  (** grafting on that branch extends the spine; the new end is the new tip *)
  Lemma graft_on_spine : forall x e, spine L x = true -> NoDup (eid e :: eids x) ->
    exists x', G (spine_eid e x) e1' e2' tip' (Some (e, x)) = Some (e, x') /\ spine (tip_name i) x' = true.
  Proof.
    induction x as [n c sl IH] using utree_ind'. intros e H Hnd.
    destruct (spine_cases L _ H) as [[n0 [c0 [E Hn]]]|[n0 [c0 [e1 [x [e2 [n2 [c2 [E Hx]]]]]]]]].
    - inversion E; subst. cbn [spine_eid G]. rewrite Nat.eqb_refl.
      eexists. split; [reflexivity|]. unfold graft_node, tip', tipn, tip_node. cbn [spine].
      apply String.eqb_refl.
    - inversion E; subst. cbn [spine_eid].
      inversion IH as [|? ? IH1 _]; subst.
      apply NoDup_cons_iff in Hnd as [Hni Hnd'].
      rewrite eids_unfold, eids_sl_cons_some in Hni, Hnd'.
      assert (N1 : NoDup (eid e1 :: eids x)) by now apply NoDup_app_l in Hnd'.
      destruct (IH1 e1 Hx N1) as [x' [Gx Sx]].
      pose proof (spine_eid_in L x e1 Hx) as Hk.
      assert (Hne : eid e <> spine_eid e1 x).
      { intros Heq. apply Hni. rewrite Heq. apply in_or_app. now left. }
      assert (Hne2 : eid e2 <> spine_eid e1 x).
      { intros Heq. eapply NoDup_app_disj; [exact Hnd'|exact Hk|].
        rewrite <- Heq. unfold eids_sl, mu_sl. cbn [flat_map app]. now left. }
      cbn [G]. apply Nat.eqb_neq in Hne. rewrite Hne.
      rewrite graft_id_unfold. cbn [map]. rewrite Gx.
      cbn [G]. apply Nat.eqb_neq in Hne2. rewrite Hne2.
      rewrite graft_id_unfold. cbn [map G].
      eexists. split; [reflexivity|]. cbn [spine]. exact Sx.
  Qed.
End Step.

(** ** the shape of the whole tree under construction *)
Definition cat_shape (rooted : bool) (L : string) (t : utree) : Prop :=
  if rooted then exists n c e x e0 n0 c0, t = UNode n c [Some (e, x); Some (e0, UNode n0 c0 [None])] /\ spine L x = true
  else exists e x, t = UNode (tip_name 0) [] [Some (e, x)] /\ spine L x = true.

Lemma cat_shape_init rooted : cat_shape rooted (tip_name 1) (st_tree (init_state rooted)).
Proof.
  destruct rooted; unfold cat_shape, st_tree; simpl.
  - eexists _, _, _, _, _, _, _. split; [reflexivity|]. reflexivity.
  - eexists _, _. split; [reflexivity|]. reflexivity.
Qed.

Lemma cat_step rooted i st : 2 <= i -> inv rooted i st ->
  cat_shape rooted (tip_name (i - 1)) (st_tree st) ->
  exists st', tip_step st i (i - 1) = Some st' /\ inv rooted (S i) st' /\
              cat_shape rooted (tip_name i) (st_tree st').
Proof.
  intros Hi Hinv Hs.
  assert (Hnd : NoDup (eids (st_tree st))).
  { eapply Permutation_NoDup; [symmetry; apply (inv_ids _ _ _ Hinv)|apply seq_NoDup]. }
  destruct st as [[t m] asg]. unfold st_tree in *. cbn [fst] in *.
  unfold tip_step. cbn [fst].
  unfold cat_shape in *. destruct rooted.
  - destruct Hs as [n [c [e [x [e0 [n0 [c0 [-> Sx]]]]]]]].
    assert (F : tip_br0 (tip_name (i - 1)) (UNode n c [Some (e, x); Some (e0, UNode n0 c0 [None])]) = Some (spine_eid e x)).
    { unfold tip_br0, is_tip, degree. cbn [uslots length Nat.eqb andb].
      rewrite find_tip_edge_unfold. now apply find_in_spine. }
    rewrite F. eexists. split; [reflexivity|]. split.
    + apply inv_step; auto.
      destruct (tip_br0_found true i (UNode n c [Some (e, x); Some (e0, UNode n0 c0 [None])], m, asg) (i - 1) Hi Hinv) as [k [Hk Hlt]]; [lia|].
      unfold st_tree in Hk. cbn [fst] in Hk. rewrite F in Hk. inversion Hk; subst k. exact Hlt.
    + unfold graft_step. cbn [fst]. rewrite graft_id_unfold.
      rewrite eids_unfold, eids_sl_cons_some in Hnd.
      destruct (graft_on_spine (tip_name (i - 1)) i m x e Sx (NoDup_app_l _ _ Hnd)) as [x' [Gx Sx']].
      cbn [map]. rewrite Gx.
      pose proof (spine_eid_in _ x e Sx) as Hk.
      assert (Hne : eid e0 <> spine_eid e x).
      { intros Heq. eapply NoDup_app_disj; [exact Hnd|exact Hk|].
        rewrite <- Heq. unfold eids_sl, mu_sl. cbn [flat_map app]. now left. }
      cbn [G]. apply Nat.eqb_neq in Hne. rewrite Hne. rewrite graft_id_unfold. cbn [map].
      eexists _, _, _, _, _, _, _. split; [reflexivity|exact Sx'].
  - destruct Hs as [e [x [-> Sx]]].
    assert (F : tip_br0 (tip_name (i - 1)) (UNode (tip_name 0) [] [Some (e, x)]) = Some (spine_eid e x)).
    { unfold tip_br0, is_tip, degree. cbn [uslots length Nat.eqb andb uname].
      destruct (String.eqb_spec (tip_name 0) (tip_name (i - 1))) as [E|E].
      - apply tip_name_inj in E. lia.
      - rewrite find_tip_edge_unfold. now apply find_in_spine. }
    rewrite F. eexists. split; [reflexivity|]. split.
    + apply inv_step; auto.
      destruct (tip_br0_found false i (UNode (tip_name 0) [] [Some (e, x)], m, asg) (i - 1) Hi Hinv) as [k [Hk Hlt]]; [lia|].
      unfold st_tree in Hk. cbn [fst] in Hk. rewrite F in Hk. inversion Hk; subst k. exact Hlt.
    + unfold graft_step. cbn [fst]. rewrite graft_id_unfold.
      rewrite eids_unfold, eids_sl_cons_some in Hnd.
      destruct (graft_on_spine (tip_name (i - 1)) i m x e Sx (NoDup_app_l _ _ Hnd)) as [x' [Gx Sx']].
      cbn [map]. rewrite Gx.
      eexists _, _. split; [reflexivity|exact Sx'].
Qed.

Lemma cat_loop_shape rooted fuel : forall i st, 2 <= i -> inv rooted i st ->
  cat_shape rooted (tip_name (i - 1)) (st_tree st) ->
  exists st', cat_loop fuel i st = Some st' /\ inv rooted (i + fuel) st' /\
              cat_shape rooted (tip_name (i + fuel - 1)) (st_tree st').
Proof.
  induction fuel as [|f IH]; intros i st Hi Hinv Hs; simpl.
  - rewrite Nat.add_0_r. eauto.
  - destruct (cat_step rooted i st Hi Hinv Hs) as [st1 [E1 [I1 S1]]].
    rewrite E1. replace (i + S f) with (S i + f) by lia.
    apply IH; auto. replace (S i - 1) with i by lia. exact S1.
Qed.

(** ** from the spine to the specification's caterpillar *)
Lemma spine_set_lens L f t : spine L (set_lens f t) = spine L t.
Proof.
  induction t as [n c sl IH] using utree_ind'.
  rewrite set_lens_unfold.
  destruct sl as [|[[e1 x]|] [|[[? ?]|] [|[[e2 [n2 c2 [|[[? ?]|] [|? ?]]]]|] [|? ?]]]]; try reflexivity.
  cbn [map spine set_lens]. inversion IH; subst. assumption.
Qed.

Lemma spine_cat_sub L t : spine L t = true -> cat_sub t = true.
Proof.
  induction t as [n c sl IH] using utree_ind'. intros H.
  destruct (spine_cases L _ H) as [[n0 [c0 [E Hn]]]|[n0 [c0 [e1 [x [e2 [n2 [c2 [E Hx]]]]]]]]].
  - inversion E; subst. reflexivity.
  - inversion E; subst. inversion IH as [|? ? IH1 _]; subst.
    simpl. unfold sub_all. simpl. rewrite (IH1 Hx).
    unfold n_tip_kids, kids. simpl.
    destruct (is_tip x); reflexivity.
Qed.

Theorem caterpillar_tree_shape n rooted ls :
  3 <= n -> exists t, caterpillar_tree n rooted ls = GOk t /\ caterpillar t = true.
Proof.
  intros Hn. unfold caterpillar_tree.
  destruct (Nat.ltb_spec n 3); [lia|]. cbn [andb].
  destruct (cat_loop_shape rooted (n - 2) 2 (init_state rooted)) as [st [E [I S]]];
    [lia|apply inv_init|apply cat_shape_init|].
  rewrite E. replace (2 + (n - 2)) with n in * by lia.
  destruct (close_state_ok rooted n st ls Hn I) as [t [Et Gt]].
  exists t. split; auto.
  destruct st as [[t0 m] asg]. unfold st_tree in *. cbn [fst] in *.
  unfold close_state in Et. set (f := fun k => last_assign asg ls k nilv) in *.
  unfold finish, cat_shape in *. destruct rooted.
  - destruct S as [n1 [c1 [e [x [e0 [n0 [c0 [-> Sx]]]]]]]].
    rewrite set_lens_unfold in Et. cbn [map set_lens] in Et.
    inversion Et; subst. clear Et.
    unfold caterpillar, n_tip_kids, kids, sub_all. cbn [uslots kids_of flat_map app filter snd is_tip degree length Nat.eqb forallb].
    rewrite (spine_cat_sub (tip_name (n - 1))) by (rewrite spine_set_lens; exact Sx).
    repeat match goal with |- context [if ?b then _ else _] => destruct b end; reflexivity.
  - destruct S as [e [x [-> Sx]]].
    rewrite set_lens_unfold in Et. cbn [map] in Et.
    assert (Sx' : spine (tip_name (n - 1)) (set_lens f x) = true) by (rewrite spine_set_lens; exact Sx).
    destruct (spine_cases _ _ Sx') as [[n0 [c0 [E0 Hn0]]]|[n0 [c0 [e1 [x1 [e2 [n2 [c2 [E0 Hx1]]]]]]]]].
    + (* impossible: a single tip below the root means 2 tips only *)
      exfalso. rewrite E0 in Et. simpl in Et. discriminate.
    + rewrite E0 in Et.
      rewrite (reroot_first_tip_root (tip_name 0) _ n0 c0 [Some (e1, x1); None; Some (e2, UNode n2 c2 [None])] eq_refl) in Et.
      cbn [replace_up] in Et. inversion Et; subst. clear Et.
      unfold caterpillar, n_tip_kids, kids, sub_all. cbn [uslots kids_of flat_map app filter snd is_tip degree length Nat.eqb forallb].
      rewrite (spine_cat_sub _ _ Hx1).
      repeat match goal with |- context [if ?b then _ else _] => destruct b end; reflexivity.
Qed.
