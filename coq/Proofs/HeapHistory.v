(** Heap model: histories.  After ANY sequence of the operations whose refinement square is
    proved, started on a good heap, the heap is good (connected, acyclic, symmetric adjacency
    through shared edges, every branch pointing away from the root) and its abstraction is the
    tree obtained by the same history on the tree model. *)
From Coq Require Import String ZArith QArith Bool Arith Lia Permutation List.
From GT Require Import Base.UTree Model.Reroot Model.Prune Model.Collapse Model.NNI Model.History Model.Heap Model.HeapEdit Model.HeapSpec
     Proofs.Enum Proofs.HeapBase Proofs.HeapRep Proofs.HeapGood Proofs.HeapGoodRep Proofs.HeapReroot Proofs.HeapUnroot
     Proofs.HeapNocheck Proofs.HeapGraft Proofs.HeapGraftSq Proofs.HeapCollapseTree Proofs.HeapPaths Proofs.HeapCollapseSq
     Proofs.HeapRerootL Proofs.HeapNNIMain Proofs.HeapNNISq Proofs.HeapPruneTree Proofs.HeapPruneSq Proofs.HeapRotateSq Model.HeapEdit2 Proofs.HeapSortSq Proofs.HeapSingleSq Proofs.NNIBase Proofs.HeapNNIUndoSq Proofs.HeapEdgesSeq Proofs.HeapEdgesSq.
Import ListNotations.
Local Close Scope Q_scope.

Lemma edges_length_leids lt : lwf lt -> length (edges (erase lt)) = length (leids lt).
Proof.
  intros W. unfold edges. destruct lt as [i n c sl]. rewrite erase_eq, edges_below_espan.
  apply lwf_iff in W. exact (espan_leids (LNode i n c sl) (proj2 W)).
Qed.

Lemma walk_lnode_at h : forall p lt prev n, shape true h prev lt ->
  walk h (option_map fst prev) (lid lt) p = HOk n -> exists sub, lnode_at lt p = Some sub /\ lid sub = n.
Proof.
  induction p as [|k q IH]; intros lt prev n Sh E.
  - cbn in E. injection E as <-. exists lt. split; reflexivity.
  - destruct lt as [i nm cm sl]. cbn [walk lid] in E. apply shape_unfold in Sh. destruct Sh as [hn (A1 & A2 & A3 & A4 & A5)].
    unfold get_node in E. rewrite A1 in E. cbn [hbind] in E.
    destruct (nth_error (hneigh hn) k) as [m|] eqn:Em; [|discriminate].
    assert (exists e, nth_error (slots_of hn) k = Some (m, e)) as [e Ke].
    { destruct (nth_error (hbr hn) k) as [e|] eqn:Eb; [exists e; apply nth_combine; assumption|].
      apply nth_error_None in Eb. assert (k < length (hneigh hn)) by (apply nth_error_Some; congruence). lia. }
    destruct (Forall2_nth _ _ _ _ _ A5 Ke) as [s [Hs Hok]]. destruct s as [[[e' ei] ch]|]; cbn [slot_ok fst snd] in Hok.
    + destruct Hok as (_ & _ & Lc & _ & Shc). destruct (opt_nat_eqb (Some m) (option_map fst prev)); [discriminate|].
      rewrite <- Lc in E. destruct (IH ch (Some (i, e)) n Shc E) as [sub [S1 S2]]. exists sub. cbn [lnode_at lslots]. rewrite Hs. split; assumption.
    + subst prev. cbn [option_map fst opt_nat_eqb] in E. rewrite Nat.eqb_refl in E. discriminate.
Qed.

(** what the guard of [nni_pre] establishes *)
Lemma nni_pre_ok h lt r q : Rep h lt -> nni_pre r h = HOk q ->
  exists n1 n2 hn1 hn2 ec edc sub,
    alookup n1 (hnodes h) = Some hn1 /\ alookup n2 (hnodes h) = Some hn2 /\
    In (n2, ec) (slots_of hn1) /\ alookup ec (hedges h) = Some edc /\ hleft edc = n1 /\
    length (hneigh hn1) = 3 /\ length (hneigh hn2) = 3 /\
    new_nni_heap h n1 n2 (r_cross r) = HOk q /\
    lnode_at lt (r_path r) = Some sub /\ lid sub = n1 /\
    nth_error (hneigh hn1) (r_k r) = Some n2 /\ nth_error (hneigh hn2) (r_j r) = Some n1.
Proof.
  intros R E. unfold nni_pre in E.
  destruct (walk h None (hroot h) (r_path r)) as [n1| |] eqn:Ew; cbn [hbind] in E; try discriminate.
  pose proof (rep_shape _ _ R) as Sh. rewrite (rep_root _ _ R) in Ew.
  destruct (walk_lnode_at h (r_path r) lt None n1 Sh Ew) as [sub [Hp Hl]].
  unfold get_node at 1 in E. destruct (alookup n1 (hnodes h)) as [hn1|] eqn:H1; cbn [hbind] in E; [|discriminate].
  destruct (nth_error (hneigh hn1) (r_k r)) as [n2|] eqn:Ek; [|discriminate].
  destruct (nth_error (hbr hn1) (r_k r)) as [ec|] eqn:Eb; [|discriminate].
  unfold get_node at 1 in E. destruct (alookup n2 (hnodes h)) as [hn2|] eqn:H2; cbn [hbind] in E; [|discriminate].
  unfold get_edge at 1 in E. destruct (alookup ec (hedges h)) as [edc|] eqn:Ec; cbn [hbind] in E; [|discriminate].
  match type of E with (if ?c then _ else _) = _ => destruct c eqn:Eg end; [|discriminate].
  apply andb_true_iff in Eg. destruct Eg as [Eg Ej]. apply andb_true_iff in Eg. destruct Eg as [Eg El].
  apply andb_true_iff in Eg. destruct Eg as [D1 D2]. apply Nat.eqb_eq in D1, D2, El.
  destruct (nth_error (hneigh hn2) (r_j r)) as [m|] eqn:Erj; cbn [opt_nat_eqb] in Ej; [|discriminate]. apply Nat.eqb_eq in Ej. subst m.
  assert (Hin : In (n2, ec) (slots_of hn1)) by (eapply nth_error_In; apply nth_combine; eassumption).
  exists n1, n2, hn1, hn2, ec, edc, sub. repeat split; assumption.
Qed.

Theorem run_hop_square o h t h' : Good h -> abs h = Some t -> run_hop_heap o h = HOk h' ->
  Good h' /\ exists t', run_hop_tree o t = Ok t' /\ abs h' = Some t'.
Proof.
  intros G Ha E. destruct o as [i|i| |name k|rr rt k|r|nm|cs| | |k undo|rr rt idx|l rr rt|s rr]; cbn [run_hop_heap run_hop_tree] in *.
  - destruct (tree_nodes h) as [ns| |] eqn:En; cbn [hbind] in E; try discriminate.
    destruct (nth_error ns i) as [n|] eqn:Ei; [|discriminate].
    pose proof (reroot_heap_refines h t ns i n G Ha En Ei) as H. rewrite E in H.
    split; [exact (proj1 (reroot_heap_good h n h' G E))|exact H].
  - destruct (tree_nodes h) as [ns| |] eqn:En; cbn [hbind] in E; try discriminate.
    destruct (nth_error ns i) as [n|] eqn:Ei; [|discriminate].
    pose proof (reroot_nocheck_refines h t ns i n G Ha En Ei) as H. rewrite E in H.
    split; [exact (proj1 (reroot_nocheck_good h n h' G E))|exact H].
  - split; [exact (unroot_heap_good h h' G E)|]. exists (unroot t). split; [reflexivity|exact (unroot_heap_square h t h' G Ha E)].
  - unfold kth_edge in E. destruct (dump h) as [lt|] eqn:Ed; [|discriminate].
    destruct (nth_error (leids lt) k) as [e|] eqn:Ek; cbn [hbind] in E; [|discriminate].
    destruct (graft_new_tip_square h t name k e G Ha (ex_intro _ lt (conj Ed Ek))) as (tip & ne & ne2 & nn & h2 & t' & Ev & G2 & Hu & Ha2).
    rewrite Ev in E. cbn [hbind snd] in E. injection E as <-. split; [exact G2|]. exists t'. rewrite Hu. split; [reflexivity|exact Ha2].
  - unfold kth_edge in E. destruct (dump h) as [lt|] eqn:Ed; [|discriminate].
    destruct (nth_error (leids lt) k) as [e|] eqn:Ek; cbn [hbind] in E; [|discriminate].
    destruct (remove_edge_square rr rt h t k e G Ha (ex_intro _ lt (conj Ed Ek))) as (h2 & Ev & G2 & Ha2).
    rewrite Ev in E. injection E as <-. split; [exact G2|]. exists (remove_edges_idx rr rt [k] t). split; [|exact Ha2].
    destruct (Good_Rep h G) as [lt2 R]. rewrite (Rep_dump _ _ R) in Ed. injection Ed as <-. rewrite (Rep_abs _ _ R) in Ha. injection Ha as <-.
    rewrite (edges_length_leids lt2 (rep_wf _ _ R)).
    assert (k < length (leids lt2)) by (apply nth_error_Some; congruence). apply Nat.ltb_lt in H. rewrite H. reflexivity.
  - destruct (Good_Rep h G) as [lt R]. rewrite (Rep_abs _ _ R) in Ha. injection Ha as <-.
    unfold nni_apply_at in E. destruct (walk h None (hroot h) (r_path r)) as [n1| |] eqn:Ew; cbn [hbind] in E; try discriminate.
    pose proof (rep_shape _ _ R) as Sh. rewrite (rep_root _ _ R) in Ew.
    destruct (walk_lnode_at h (r_path r) lt None n1 Sh Ew) as [sub [Hp Hl]].
    unfold get_node at 1 in E. destruct (alookup n1 (hnodes h)) as [hn1|] eqn:H1; cbn [hbind] in E; [|discriminate].
    destruct (nth_error (hneigh hn1) (r_k r)) as [n2|] eqn:Ek; [|discriminate].
    destruct (nth_error (hbr hn1) (r_k r)) as [ec|] eqn:Eb; [|discriminate].
    unfold get_node at 1 in E. destruct (alookup n2 (hnodes h)) as [hn2|] eqn:H2; cbn [hbind] in E; [|discriminate].
    unfold get_edge at 1 in E. destruct (alookup ec (hedges h)) as [edc|] eqn:Ec; cbn [hbind] in E; [|discriminate].
    match type of E with (if ?c then _ else _) = _ => destruct c eqn:Eg end; [|discriminate].
    apply andb_true_iff in Eg. destruct Eg as [Eg Ej]. apply andb_true_iff in Eg. destruct Eg as [Eg El].
    apply andb_true_iff in Eg. destruct Eg as [D1 D2]. apply Nat.eqb_eq in D1, D2, El.
    destruct (nth_error (hneigh hn2) (r_j r)) as [m|] eqn:Erj; cbn [opt_nat_eqb] in Ej; [|discriminate]. apply Nat.eqb_eq in Ej. subst m.
    destruct (new_nni_heap h n1 n2 (r_cross r)) as [q| |] eqn:Eq; cbn [hbind] in E; try discriminate.
    assert (Hin : In (n2, ec) (slots_of hn1)) by (eapply nth_error_In; apply nth_combine; eassumption).
    destruct (nni_apply_square h lt r n1 n2 q hn1 hn2 ec edc sub R H1 H2 Hin Ec El D1 D2 Eq Hp Hl Ek Erj) as (h2 & lt' & Ev & R' & Hap).
    rewrite Ev in E. injection E as <-. split; [eapply Rep_Good; exact R'|]. exists (erase lt'). rewrite Hap. split; [reflexivity|apply Rep_abs; exact R'].
  - destruct (Good_Rep h G) as [lt R]. pose proof (Rep_abs _ _ R) as Ha'. rewrite Ha in Ha'. injection Ha' as ->.
    rewrite Ha in E. destruct (find_tip nm (erase lt)) as [P|] eqn:Ef; [|discriminate].
    destruct (walk h None (hroot h) P) as [x| |] eqn:Ew; cbn [hbind] in E; try discriminate.
    pose proof (rep_shape _ _ R) as Sh. rewrite (rep_root _ _ R) in Ew.
    destruct (walk_lnode_at h P lt None x Sh Ew) as [sub [Hp Hl]].
    pose proof (remove_tip_square nm h (erase lt) P lt sub G Ha (Rep_dump _ _ R) Ef Hp) as Sq. rewrite Hl in Sq.
    destruct (remove_tip nm (erase lt)) as [t'|m]; [|congruence].
    destruct Sq as (h2 & Ev & G2 & A2). rewrite Ev in E. injection E as <-. split; [exact G2|]. exists t'. split; [reflexivity|exact A2].
  - destruct (rotate_internal_nodes_square h t cs G Ha) as (h2 & Ev & G2 & A2). rewrite Ev in E. injection E as <-.
    split; [exact G2|]. eexists. split; [reflexivity|exact A2].
  - destruct (sort_neighbors_square h t G Ha) as (h2 & Ev & G2 & A2). rewrite Ev in E. injection E as <-.
    split; [exact G2|]. eexists. split; [reflexivity|exact A2].
  - destruct (remove_single_nodes_square h t G Ha) as (h2 & Ev & G2 & A2). rewrite Ev in E. injection E as <-.
    split; [exact G2|]. eexists. split; [reflexivity|exact A2].
  - rewrite Ha in E. unfold nni_step. destruct (nni_pick k t) as [r|] eqn:Epick.
    2:{ injection E as <-. split; [exact G|]. exists t. split; [reflexivity|exact Ha]. }
    assert (V : valid r t).
    { apply nni_list_valid. unfold nni_pick in Epick. destruct (nni_list t) as [|r0 l0] eqn:El; [discriminate|]. eapply nth_error_In. exact Epick. }
    destruct (Good_Rep h G) as [lt R]. pose proof (Rep_abs _ _ R) as Ha'. rewrite Ha in Ha'. injection Ha' as ->.
    unfold nni_apply_undo_at in E. destruct (nni_pre r h) as [q| |] eqn:Epre; cbn [hbind] in E; try discriminate.
    destruct (nni_pre_ok h lt r q R Epre) as (n1 & n2 & hn1 & hn2 & ec & edc & sub & H1 & H2 & Hin & Ec & El & D1 & D2 & Eq & Hp & Hl & Ek & Erj).
    destruct (nni_apply_undo_square h lt r n1 n2 q hn1 hn2 ec edc sub R H1 H2 Hin Ec El D1 D2 Eq Hp Hl Ek Erj V)
      as (h1 & lt' & h2 & Ev & R' & Hap & Ev2 & R2 & Hun).
    rewrite Ev in E. cbn [hbind] in E. rewrite Hap. destruct undo.
    + rewrite Ev2 in E. injection E as <-. rewrite Hun. split; [exact (Rep_Good _ _ R2)|]. eexists. split; [reflexivity|exact (Rep_abs _ _ R2)].
    + injection E as <-. split; [exact (Rep_Good _ _ R')|]. eexists. split; [reflexivity|exact (Rep_abs _ _ R')].
  - destruct (remove_edges_idx_heap_square rr rt idx h t G Ha) as (lt & h2 & Ed & Ev & G2 & A2). rewrite Ed, Ev in E. injection E as <-.
    split; [exact G2|]. eexists. split; [reflexivity|exact A2].
  - destruct (remove_edges_where_square rr rt (sel_len l) h t G Ha) as (lt & h2 & Ed & Ev & G2 & A2). rewrite Ed, Ev in E. injection E as <-.
    split; [exact G2|]. eexists. split; [reflexivity|exact A2].
  - destruct (remove_edges_where_square rr false (sel_sup s) h t G Ha) as (lt & h2 & Ed & Ev & G2 & A2). rewrite Ed, Ev in E. injection E as <-.
    split; [exact G2|]. eexists. split; [reflexivity|exact A2].
Qed.

(** the pointer-level half of C03 for these operations, as one statement *)
Theorem heap_history : forall ops h t h', Good h -> abs h = Some t -> run_heap ops h = HOk h' ->
  Good h' /\ exists t', run_tree ops t = Ok t' /\ abs h' = Some t' /\ wf t' = true.
Proof.
  induction ops as [|o ops IH]; intros h t h' G Ha E; cbn [run_heap run_tree] in *.
  - injection E as <-. split; [exact G|]. exists t. split; [reflexivity|]. split; [exact Ha|].
    destruct (Good_abs h G) as [t0 [Ha0 W]]. congruence.
  - destruct (run_hop_heap o h) as [h1| |] eqn:E1; cbn [hbind] in E; try discriminate.
    destruct (run_hop_square o h t h1 G Ha E1) as [G1 [t1 [Ht1 Ha1]]]. rewrite Ht1. exact (IH h1 t1 h' G1 Ha1 E).
Qed.

(** [HReroot], [HUnroot] are the steps of Model/History.v *)
Lemma run_hop_tree_history_reroot i t : run_hop_tree (HReroot i) t = run_op (OReroot i) t.
Proof. reflexivity. Qed.
Lemma run_hop_tree_history_unroot t : run_hop_tree HUnroot t = run_op OUnroot t.
Proof. reflexivity. Qed.
Lemma run_hop_tree_history_rotate cs t : run_hop_tree (HRotate cs) t = run_op (ORotate cs) t.
Proof. reflexivity. Qed.
Lemma run_hop_tree_history_sort t : run_hop_tree HSort t = run_op OSort t.
Proof. reflexivity. Qed.
Lemma run_hop_tree_history_rmsingle t : run_hop_tree HRmSingle t = run_op ORmSingle t.
Proof. reflexivity. Qed.
Lemma run_hop_tree_history_nni k undo t : run_hop_tree (HNni k undo) t = run_op (ONni k undo) t.
Proof. reflexivity. Qed.
Lemma run_hop_tree_history_collapse_len l rr rt t : run_hop_tree (HCollapseLen l rr rt) t = run_op (OCollapseLen l rr rt) t.
Proof. reflexivity. Qed.
Lemma run_hop_tree_history_collapse_sup s rr t : run_hop_tree (HCollapseSup s rr) t = run_op (OCollapseSup s rr) t.
Proof. reflexivity. Qed.
