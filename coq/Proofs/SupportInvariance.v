(** C10: the supports depend on the trees only through their sets of bipartitions.
    [same_bips X T T']: every branch of T defines the bipartition of some branch of T' and
    conversely -- what re-rooting a tree or reordering the children of its nodes preserves.
    The definitions (Spec/Support.v) give the same supports for collections whose trees are
    pairwise [same_bips], and for reference branches defining the same bipartition; through
    model = definition this carries over to the model. *)
From Coq Require Import String ZArith QArith Bool Arith Lia Permutation List.
From GT Require Import Base.UTree Spec.Obs Spec.Support Model.Support
     Proofs.SupportBase Proofs.SupportMTD Proofs.SupportClosed Proofs.SupportSpec.
Import ListNotations.
Local Close Scope Q_scope.

Definition same_bips (X : list string) (T T' : utree) : Prop :=
  (forall B, In B (clades T) -> exists B', In B' (clades T') /\ same_split X B B' = true) /\
  (forall B', In B' (clades T') -> exists B, In B (clades T) /\ same_split X B' B = true).

(** * equality of bipartitions is an equivalence *)
Lemma same_split_refl : forall X A, same_split X A A = true.
Proof. intros. apply same_split_spec. left. reflexivity. Qed.

Lemma same_split_sym : forall X A B, same_split X A B = true -> same_split X B A = true.
Proof.
  intros X A B H. apply same_split_spec in H. apply same_split_spec.
  destruct H as [H|H]; [left|right]; intros x Hx; specialize (H x Hx);
    destruct (mem x A), (mem x B); simpl in *; congruence.
Qed.

Lemma same_split_trans : forall X A B C,
    same_split X A B = true -> same_split X B C = true -> same_split X A C = true.
Proof.
  intros X A B C H1 H2. apply same_split_spec in H1. apply same_split_spec in H2. apply same_split_spec.
  destruct H1 as [H1|H1], H2 as [H2|H2]; [left|right|right|left]; intros x Hx;
    specialize (H1 x Hx); specialize (H2 x Hx);
    destruct (mem x A), (mem x B), (mem x C); simpl in *; congruence.
Qed.

Lemma same_bips_refl : forall X T, same_bips X T T.
Proof. intros X T. split; intros B HB; exists B; split; try exact HB; apply same_split_refl. Qed.

Lemma same_bips_sym : forall X T T', same_bips X T T' -> same_bips X T' T.
Proof. intros X T T' [H1 H2]. split; assumption. Qed.

Lemma same_bips_trans : forall X T1 T2 T3, same_bips X T1 T2 -> same_bips X T2 T3 -> same_bips X T1 T3.
Proof.
  intros X T1 T2 T3 [A1 A2] [B1 B2]. split.
  - intros B HB. destruct (A1 B HB) as [B' [HB' S1]]. destruct (B1 B' HB') as [B'' [HB'' S2]].
    exists B''. split; [exact HB''|]. eapply same_split_trans; eassumption.
  - intros B HB. destruct (B2 B HB) as [B' [HB' S1]]. destruct (A2 B' HB') as [B'' [HB'' S2]].
    exists B''. split; [exact HB''|]. eapply same_split_trans; eassumption.
Qed.

(** * the definitions only see the bipartitions of the bootstrap trees *)
Lemma has_split_bips : forall X A T T', same_bips X T T' -> has_split X A T = has_split X A T'.
Proof.
  intros X A T T' [H1 H2]. unfold has_split.
  destruct (existsb (same_split X A) (clades T)) eqn:E1, (existsb (same_split X A) (clades T')) eqn:E2;
    try reflexivity; exfalso.
  - apply existsb_exists in E1. destruct E1 as [B [HB S]]. destruct (H1 B HB) as [B' [HB' S']].
    assert (existsb (same_split X A) (clades T') = true); [|congruence].
    apply existsb_exists. exists B'. split; [exact HB'|]. eapply same_split_trans; eassumption.
  - apply existsb_exists in E2. destruct E2 as [B [HB S]]. destruct (H2 B HB) as [B' [HB' S']].
    assert (existsb (same_split X A) (clades T) = true); [|congruence].
    apply existsb_exists. exists B'. split; [exact HB'|]. eapply same_split_trans; eassumption.
Qed.

Lemma symdiff_ext : forall X L B B',
    (forall x, In x X -> mem x B = mem x B') -> symdiff X L B = symdiff X L B'.
Proof.
  intros X L B B' H. unfold symdiff. apply (cnt_ext_in _ _ _ X). intros x Hx.
  change (smem x B) with (mem x B). change (smem x B') with (mem x B'). rewrite (H x Hx). reflexivity.
Qed.

Lemma symdiff_compl : forall X L B B',
    (forall x, In x X -> mem x B = negb (mem x B')) -> symdiff X L B = length X - symdiff X L B'.
Proof.
  intros X L B B' H. unfold symdiff.
  pose proof (cnt_neg _ (fun x => xorb (smem x L) (smem x B')) X) as N.
  assert (E : cnt (fun x => xorb (smem x L) (smem x B)) X
              = cnt (fun x => negb (xorb (smem x L) (smem x B'))) X).
  { apply cnt_ext_in. intros x Hx.
    change (smem x B) with (mem x B). change (smem x B') with (mem x B'). rewrite (H x Hx).
    destruct (smem x L), (mem x B'); reflexivity. }
  unfold cnt in *. lia.
Qed.

Lemma tdist_same_split_r : forall X L B B', same_split X B B' = true -> tdist X L B = tdist X L B'.
Proof.
  intros X L B B' H. apply same_split_spec in H. unfold tdist. pose proof (symdiff_le X L B').
  destruct H as [H|H].
  - rewrite (symdiff_ext X L B B' H). reflexivity.
  - rewrite (symdiff_compl X L B B' H). lia.
Qed.

Lemma symdiff_comm : forall X L B, symdiff X L B = symdiff X B L.
Proof.
  intros. unfold symdiff. apply (cnt_ext_in _ _ _ X). intros x _. apply xorb_comm.
Qed.

Lemma tdist_comm : forall X L B, tdist X L B = tdist X B L.
Proof. intros. unfold tdist. rewrite (symdiff_comm X L B). reflexivity. Qed.

Lemma tdist_same_split_l : forall X L L' B, same_split X L L' = true -> tdist X L B = tdist X L' B.
Proof.
  intros X L L' B H. rewrite (tdist_comm X L B), (tdist_comm X L' B). apply tdist_same_split_r. exact H.
Qed.

Lemma lmin_dominated : forall m l l',
    (forall d', In d' l' -> exists d, In d l /\ d <= d') -> lmin m l <= lmin m l'.
Proof.
  intros m l l'. induction l' as [|d' l' IH]; intros H.
  - apply lmin_le_init.
  - rewrite lmin_cons. destruct (H d' (or_introl eq_refl)) as [d [Hd Hle]].
    pose proof (lmin_le_in l m d Hd). assert (lmin m l <= lmin m l') by (apply IH; intros; apply H; right; assumption).
    lia.
Qed.

Lemma delta_bips : forall X L T T', same_bips X T T' -> delta X L T = delta X L T'.
Proof.
  intros X L T T' [H1 H2]. unfold delta.
  fold (lmin (length X) (map (tdist X L) (clades T))). fold (lmin (length X) (map (tdist X L) (clades T'))).
  apply Nat.le_antisymm; apply lmin_dominated; intros d Hd; apply in_map_iff in Hd; destruct Hd as [B [<- HB]].
  - destruct (H2 B HB) as [B' [HB' S]]. exists (tdist X L B'). split; [apply in_map; exact HB'|].
    rewrite (tdist_same_split_r X L B B' S). lia.
  - destruct (H1 B HB) as [B' [HB' S]]. exists (tdist X L B'). split; [apply in_map; exact HB'|].
    rewrite (tdist_same_split_r X L B B' S). lia.
Qed.

Lemma forall2_length : forall A B (R : A -> B -> Prop) l l', Forall2 R l l' -> length l = length l'.
Proof. intros A B R l l' F. induction F; simpl; congruence. Qed.

(** ** collections: trees replaced one by one by trees with the same bipartitions *)
Theorem fbp_spec_bips : forall X A boots boots',
    Forall2 (same_bips X) boots boots' -> fbp_spec X A boots = fbp_spec X A boots'.
Proof.
  intros X A boots boots' F. unfold fbp_spec, n_with_split.
  rewrite (forall2_length _ _ _ _ _ F).
  assert (E : length (filter (has_split X A) boots) = length (filter (has_split X A) boots')).
  { induction F as [|T T' l l' H F IH]; [reflexivity|].
    simpl. rewrite (has_split_bips X A T T' H). destruct (has_split X A T'); simpl; rewrite IH; reflexivity. }
  rewrite E. reflexivity.
Qed.

Theorem tbe_spec_bips : forall X A boots boots',
    Forall2 (same_bips X) boots boots' -> tbe_spec X A boots = tbe_spec X A boots'.
Proof.
  intros X A boots boots' F. unfold tbe_spec.
  rewrite (forall2_length _ _ _ _ _ F).
  assert (E : sum_delta X (light X A) boots = sum_delta X (light X A) boots').
  { induction F as [|T T' l l' H F IH]; [reflexivity|].
    simpl. rewrite (delta_bips X (light X A) T T' H), IH. reflexivity. }
  rewrite E. reflexivity.
Qed.

(** ** reference branches defining the same bipartition (e.g. the same branch seen from
    another root, or the two branches at a degree-2 root) get the same supports *)
Lemma has_split_same_split : forall X A A' T,
    same_split X A A' = true -> has_split X A T = has_split X A' T.
Proof.
  intros X A A' T S. unfold has_split. apply existsb_ext_in. intros B _.
  destruct (same_split X A B) eqn:E1, (same_split X A' B) eqn:E2; try reflexivity; exfalso.
  - assert (same_split X A' B = true); [|congruence].
    eapply same_split_trans; [apply same_split_sym; exact S|exact E1].
  - assert (same_split X A B = true); [|congruence].
    eapply same_split_trans; [exact S|exact E2].
Qed.

Theorem fbp_spec_same_split : forall X A A' boots,
    same_split X A A' = true -> fbp_spec X A boots = fbp_spec X A' boots.
Proof.
  intros X A A' boots S. unfold fbp_spec, n_with_split.
  rewrite (filter_ext _ _ (fun T => has_split_same_split X A A' T S)). reflexivity.
Qed.

Lemma light_split : forall X A, same_split X (light X A) A = true.
Proof.
  intros X A. apply same_split_spec. destruct (light_cases X A) as [H|H]; [left|right]; exact H.
Qed.

Lemma light_len_min : forall X A, length (light X A) = Nat.min (length (sinter X A)) (length (sdiff X A)).
Proof.
  intros X A. unfold light. destruct (Nat.leb (length (sinter X A)) (length (sdiff X A))) eqn:E.
  - apply Nat.leb_le in E. lia.
  - apply Nat.leb_gt in E. lia.
Qed.

Lemma sides_length : forall X A, length (sinter X A) + length (sdiff X A) = length X.
Proof.
  intros X A. unfold sinter, sdiff. apply (cnt_neg _ (fun x => smem x A) X).
Qed.

Lemma light_length_same_split : forall X A A',
    same_split X A A' = true -> length (light X A) = length (light X A').
Proof.
  intros X A A' S. rewrite !light_len_min.
  pose proof (sides_length X A). pose proof (sides_length X A').
  apply same_split_spec in S. destruct S as [S|S].
  - assert (length (sinter X A) = length (sinter X A')).
    { unfold sinter. apply (cnt_ext_in _ _ _ X). intros x Hx. apply (S x Hx). }
    lia.
  - assert (length (sinter X A) = length (sdiff X A')).
    { unfold sinter, sdiff. apply (cnt_ext_in _ _ _ X). intros x Hx.
      change (smem x A) with (mem x A). change (smem x A') with (mem x A'). apply (S x Hx). }
    lia.
Qed.

Theorem tbe_spec_same_split : forall X A A' boots,
    same_split X A A' = true -> tbe_spec X A boots = tbe_spec X A' boots.
Proof.
  intros X A A' boots S. unfold tbe_spec.
  rewrite (light_length_same_split X A A' S).
  assert (SL : same_split X (light X A) (light X A') = true).
  { eapply same_split_trans; [apply light_split|].
    eapply same_split_trans; [exact S|]. apply same_split_sym. apply light_split. }
  assert (E : sum_delta X (light X A) boots = sum_delta X (light X A') boots).
  { induction boots as [|T l IH]; [reflexivity|]. simpl. rewrite IH. f_equal.
    unfold delta. f_equal. apply map_ext. intros B. apply tdist_same_split_l. exact SL. }
  rewrite E. reflexivity.
Qed.

(** * the same for the model, through model = definition *)
Theorem fbp_model_bips : forall ref boots boots' e c,
    domain ref boots -> domain ref boots' -> In (e, c) (edges ref) -> 2 <= topo_depth ref c ->
    Forall2 (same_bips (leaves ref)) boots boots' ->
    fbp_val ref boots c = fbp_val ref boots' c.
Proof.
  intros ref boots boots' e c D D' Hin P F.
  rewrite (fbp_model_spec ref boots e c D Hin P), (fbp_model_spec ref boots' e c D' Hin P).
  apply fbp_spec_bips. exact F.
Qed.

Theorem tbe_model_bips : forall ref boots boots' e c,
    domain ref boots -> domain ref boots' -> In (e, c) (edges ref) -> 2 <= topo_depth ref c ->
    boots <> [] ->
    Forall2 (same_bips (leaves ref)) boots boots' ->
    tbe_val ref boots c = tbe_val ref boots' c.
Proof.
  intros ref boots boots' e c D D' Hin P NE F.
  assert (NE' : boots' <> []).
  { intros E. subst boots'. inversion F. subst. congruence. }
  rewrite (tbe_model_spec ref boots e c D Hin P NE), (tbe_model_spec ref boots' e c D' Hin P NE').
  apply tbe_spec_bips. exact F.
Qed.

Theorem specs_bips : forall X A boots boots',
    Forall2 (same_bips X) boots boots' ->
    fbp_spec X A boots = fbp_spec X A boots' /\ tbe_spec X A boots = tbe_spec X A boots'.
Proof. intros X A boots boots' F. split; [apply fbp_spec_bips|apply tbe_spec_bips]; exact F. Qed.
