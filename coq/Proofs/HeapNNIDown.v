(** Heap model: NNI, part 2: the exchange below a node (the moved neighbour of the upper node
    is one of its children): the heap described by [nni_desc] with fl = false is the tree in
    which the two subtrees have changed places. *)
From Coq Require Import String ZArith QArith Bool Arith Lia Permutation List.
From GT Require Import Base.UTree Model.Reroot Model.Heap Model.HeapEdit Proofs.Enum Proofs.HeapBase Proofs.HeapRep
     Proofs.HeapGood Proofs.HeapGoodRep Proofs.HeapRerootL Proofs.HeapReorder Proofs.HeapUnrootL Proofs.HeapUnroot
     Proofs.HeapCtx Proofs.HeapGraft Proofs.HeapCollapse Proofs.HeapNNI.
Import ListNotations.
Local Close Scope Q_scope.

(** permutations of lists of naturals by counting *)
Ltac perm_count :=
  repeat match goal with H : Permutation _ _ |- _ => rewrite (Permutation_count_occ Nat.eq_dec) in H end;
  rewrite (Permutation_count_occ Nat.eq_dec); intros zz;
  repeat match goal with H : forall x : nat, count_occ _ _ x = count_occ _ _ x |- _ => specialize (H zz) end;
  repeat (rewrite count_occ_app in * || rewrite count_occ_cons_eq in * by reflexivity);
  cbn [count_occ] in *;
  repeat match goal with |- context [Nat.eq_dec ?a ?b] => destruct (Nat.eq_dec a b) end;
  repeat match goal with H : context [Nat.eq_dec ?a ?b] |- _ => destruct (Nat.eq_dec a b) end;
  try lia.

Lemma perm_nni (A B N M S T2 T2' : list nat) (y : nat) :
  Permutation (A ++ N) (B ++ M) -> Permutation ((y :: T2) ++ M) ((y :: T2') ++ S) ->
  Permutation (B ++ T2') (A ++ T2) -> Permutation N S.
Proof. intros H1 H2 H3. perm_count. Qed.

Lemma Forall2_pointwise {A B} (Q : A -> B -> Prop) : forall l sl, length l = length sl ->
  (forall j a b, nth_error l j = Some a -> nth_error sl j = Some b -> Q a b) -> Forall2 Q l sl.
Proof.
  induction l as [|a l IH]; intros [|b sl] L H; cbn in L; try lia; constructor.
  - exact (H 0 a b eq_refl eq_refl).
  - apply IH; [lia|]. intros j a' b' X Y. exact (H (S j) a' b' X Y).
Qed.

(** siblings are disjoint, a head is not inside its own slot *)
Lemma sib_disj_n sl j1 j2 a1 b1 c1 a2 b2 c2 z : NoDup (sids sl) ->
  nth_error sl j1 = Some (Some (a1, b1, c1)) -> nth_error sl j2 = Some (Some (a2, b2, c2)) -> j1 <> j2 ->
  In z (lids c1) -> In z (lids c2) -> False.
Proof. intros Nd H1 H2 Hne Z1 Z2. apply Hne. eapply (NoDup_flat_map_nth _ _ _ _ _ _ z Nd H1 H2); cbn; assumption. Qed.

Lemma sib_disj_e sl j1 j2 a1 b1 c1 a2 b2 c2 z : NoDup (seids sl) ->
  nth_error sl j1 = Some (Some (a1, b1, c1)) -> nth_error sl j2 = Some (Some (a2, b2, c2)) -> j1 <> j2 ->
  In z (a1 :: leids c1) -> In z (a2 :: leids c2) -> False.
Proof. intros Nd H1 H2 Hne Z1 Z2. apply Hne. eapply (NoDup_flat_map_nth _ _ _ _ _ _ z Nd H1 H2); cbn; assumption. Qed.

Lemma slot_nd sl j a b c : NoDup (sids sl) -> NoDup (seids sl) -> nth_error sl j = Some (Some (a, b, c)) ->
  NoDup (lids c) /\ NoDup (a :: leids c).
Proof.
  intros N1 N2 H. apply nth_error_In in H. split; [exact (NoDup_flat_map_in _ _ _ N1 H)|].
  exact (NoDup_flat_map_in (fun s : lslot => match s with Some (e, _, ch) => e :: leids ch | None => [] end) _ _ N2 H).
Qed.

Lemma lnup_set_nth_some sl k a b c s' : nth_error sl k = Some (Some (a, b, c)) -> (exists a' b' c', s' = Some (a', b', c')) ->
  lnup (set_nth k s' sl) = lnup sl.
Proof.
  intros H (a' & b' & c' & ->). unfold lnup. revert k H. induction sl as [|s sl IH]; intros k H; [destruct k; discriminate|].
  destruct k as [|k]; cbn in H.
  - injection H as ->. reflexivity.
  - rewrite set_nth_cons. cbn [filter]. destruct s; cbn [length]; rewrite (IH k H); reflexivity.
Qed.

Section Down.
  Variables (h h' : heap) (lt : ltree).
  Hypothesis R : Rep h lt.
  Variables (p1 : option (nat * nat)) (x : nat) (nmx : string) (cmx : list string) (sl1 : list lslot) (k ix : nat).
  Variables (ec : nat) (eic : einfo) (y : nat) (nmy : string) (cmy : list string) (sl2 : list lslot) (iy : nat).
  Variables (e1 : nat) (ei1 : einfo) (xm : nat) (nmA : string) (cmA : list string) (slA : list lslot).
  Variables (e2 : nat) (ei2 : einfo) (ym : nat) (nmB : string) (cmB : list string) (slB : list lslot).
  Let A := LNode xm nmA cmA slA.
  Let B := LNode ym nmB cmB slB.
  Let Ysub := LNode y nmy cmy sl2.
  Let sub1 := LNode x nmx cmx sl1.
  Hypothesis Hsub : In (p1, sub1) (lsubs None lt).
  Hypothesis Hk : nth_error sl1 k = Some (Some (ec, eic, Ysub)).
  Hypothesis Hix : nth_error sl1 ix = Some (Some (e1, ei1, A)).
  Hypothesis Hne : ix <> k.
  Hypothesis Hiy : nth_error sl2 iy = Some (Some (e2, ei2, B)).
  Variables (hx hy hxm hym : hnode) (jx jy : nat) (edc : hedge).
  Hypothesis Hx : alookup x (hnodes h) = Some hx.
  Hypothesis Hy : alookup y (hnodes h) = Some hy.
  Hypothesis Hxm : alookup xm (hnodes h) = Some hxm.
  Hypothesis Hym : alookup ym (hnodes h) = Some hym.
  Hypothesis Jx : index_of x (hneigh hxm) = Some jx.
  Hypothesis Jy : index_of y (hneigh hym) = Some jy.
  Hypothesis Hec : alookup ec (hedges h) = Some edc.
  Hypothesis D : nni_desc h h' x y xm ym ix iy jx jy e1 e2 ec false hx hy hxm hym (mkHE x xm ei1) (mkHE y ym ei2) edc.
  Let Y' := LNode y nmy cmy (set_nth iy (Some (e1, ei1, A)) sl2).
  Let new1 := LNode x nmx cmx (set_nth ix (Some (e2, ei2, B)) (set_nth k (Some (ec, eic, Y')) sl1)).

  Definition TN (z : nat) : Prop := z <> x /\ z <> y /\ z <> xm /\ z <> ym.
  Definition TE (z : nat) : Prop := z <> e1 /\ z <> e2 /\ z <> ec.

  Lemma ND_same_n z : TN z -> alookup z (hnodes h') = alookup z (hnodes h).
  Proof.
    intros (A1 & A2 & A3 & A4). rewrite (nd_nodes _ _ _ _ _ _ _ _ _ _ _ _ _ _ _ _ _ _ _ _ _ D).
    destruct (Nat.eqb_spec z x); [contradiction|]. destruct (Nat.eqb_spec z y); [contradiction|].
    destruct (Nat.eqb_spec z xm); [contradiction|]. destruct (Nat.eqb_spec z ym); [contradiction|]. reflexivity.
  Qed.
  Lemma ND_same_e z : TE z -> alookup z (hedges h') = alookup z (hedges h).
  Proof.
    intros (A1 & A2 & A3). rewrite (nd_edges _ _ _ _ _ _ _ _ _ _ _ _ _ _ _ _ _ _ _ _ _ D).
    destruct (Nat.eqb_spec z e1); [contradiction|]. destruct (Nat.eqb_spec z e2); [contradiction|].
    destruct (Nat.eqb_spec z ec); [contradiction|]. reflexivity.
  Qed.

  Lemma ND_untouched q X a b ce P : (forall z, In z (lids X) -> TN z) -> (forall z, In z (a :: leids X) -> TE z) ->
    q <> Some ce -> forall i, slot_ok true h P i ce (Some (a, b, X)) ->
    slot_ok true h' q i ce (Some (a, b, X)).
  Proof.
    intros Hn He Hq i Hok. cbn [slot_ok] in *. destruct Hok as (_ & B2 & B3 & B4 & B5). repeat split; try assumption.
    - eapply edge_ok_eq; [|exact B4]. rewrite <- B2. apply ND_same_e. apply He. left. reflexivity.
    - eapply shape_frame; [| |exact B5].
      + intros z Hz. apply ND_same_n. apply Hn. exact Hz.
      + intros z Hz. apply ND_same_e. apply He. right. exact Hz.
  Qed.

  (** all the separation facts *)
  Lemma ND_sep :
    NoDup (sids sl1) /\ NoDup (seids sl1) /\ ~ In x (sids sl1) /\
    NoDup (sids sl2) /\ NoDup (seids sl2) /\ ~ In y (sids sl2) /\ ~ In ec (seids sl2) /\
    ~ In xm (sids slA) /\ ~ In e1 (seids slA) /\ ~ In ym (sids slB) /\ ~ In e2 (seids slB) /\
    (forall j a b c, nth_error sl1 j = Some (Some (a, b, c)) -> j <> k -> j <> ix ->
       (forall z, In z (lids c) -> TN z) /\ (forall z, In z (a :: leids c) -> TE z)) /\
    (forall j a b c, nth_error sl2 j = Some (Some (a, b, c)) -> j <> iy ->
       (forall z, In z (lids c) -> TN z) /\ (forall z, In z (a :: leids c) -> TE z)) /\
    (forall z, In z (sids slA) -> TN z) /\ (forall z, In z (seids slA) -> TE z) /\
    (forall z, In z (sids slB) -> TN z) /\ (forall z, In z (seids slB) -> TE z) /\
    x <> y /\ x <> xm /\ x <> ym /\ y <> xm /\ y <> ym /\ xm <> ym /\ e1 <> e2 /\ e1 <> ec /\ e2 <> ec.
  Proof.
    assert (NdS : NoDup (lids sub1)) by (eapply lsubs_NoDup; [exact (rep_nd _ _ R)|exact Hsub]).
    pose proof (shape_lsubs _ _ _ _ _ _ (rep_shape _ _ R) Hsub) as Shsub.
    pose proof (shape_NoDup_leids _ _ _ Shsub NdS) as NedS.
    unfold sub1 in NdS, NedS. rewrite lids_eq in NdS. rewrite leids_eq in NedS. fold (sids sl1) in NdS. fold (seids sl1) in NedS.
    apply NoDup_cons_iff in NdS. destruct NdS as [Nx N1].
    destruct (slot_nd sl1 k _ _ _ N1 NedS Hk) as [NY NYe]. unfold Ysub in NY, NYe. rewrite lids_eq in NY. rewrite leids_eq in NYe.
    fold (sids sl2) in NY. fold (seids sl2) in NYe. apply NoDup_cons_iff in NY. destruct NY as [Ny N2]. apply NoDup_cons_iff in NYe. destruct NYe as [Nec NE2].
    destruct (slot_nd sl1 ix _ _ _ N1 NedS Hix) as [NA NAe]. unfold A in NA, NAe. rewrite lids_eq in NA. rewrite leids_eq in NAe.
    fold (sids slA) in NA. fold (seids slA) in NAe. apply NoDup_cons_iff in NA. destruct NA as [Nxm NA]. apply NoDup_cons_iff in NAe. destruct NAe as [Ne1 NAe].
    destruct (slot_nd sl2 iy _ _ _ N2 NE2 Hiy) as [NB NBe]. unfold B in NB, NBe. rewrite lids_eq in NB. rewrite leids_eq in NBe.
    fold (sids slB) in NB. fold (seids slB) in NBe. apply NoDup_cons_iff in NB. destruct NB as [Nym NB]. apply NoDup_cons_iff in NBe. destruct NBe as [Ne2 NBe].
    assert (InY : forall z, In z (lids Ysub) -> In z (sids sl1)) by (intros z Hz; eapply in_sids; [eapply nth_error_In; exact Hk|exact Hz]).
    assert (InA : forall z, In z (lids A) -> In z (sids sl1)) by (intros z Hz; eapply in_sids; [eapply nth_error_In; exact Hix|exact Hz]).
    assert (InB : forall z, In z (lids B) -> In z (sids sl2)) by (intros z Hz; eapply in_sids; [eapply nth_error_In; exact Hiy|exact Hz]).
    assert (In2Y : forall z, In z (sids sl2) -> In z (lids Ysub)) by (intros z Hz; unfold Ysub; rewrite lids_eq; right; exact Hz).
    assert (In2Ye : forall z, In z (seids sl2) -> In z (leids Ysub)) by (intros z Hz; unfold Ysub; rewrite leids_eq; exact Hz).
    assert (InBe : forall z, In z (e2 :: leids B) -> In z (seids sl2)).
    { intros z [<-|Hz]; [eapply in_seids_here|eapply in_seids]; try (eapply nth_error_In; exact Hiy); exact Hz. }
    assert (Yy : In y (lids Ysub)) by (left; reflexivity).
    assert (Aa : In xm (lids A)) by (left; reflexivity).
    assert (Bb : In ym (lids B)) by (left; reflexivity).
    assert (YB : In ym (lids Ysub)) by (apply In2Y, InB, Bb).
    assert (DYA : forall z, In z (lids Ysub) -> In z (lids A) -> False).
    { intros z Z1 Z2. exact (sib_disj_n sl1 k ix _ _ _ _ _ _ z N1 Hk Hix (not_eq_sym Hne) Z1 Z2). }
    assert (DYAe : forall z, In z (ec :: leids Ysub) -> In z (e1 :: leids A) -> False).
    { intros z Z1 Z2. exact (sib_disj_e sl1 k ix _ _ _ _ _ _ z NedS Hk Hix (not_eq_sym Hne) Z1 Z2). }
    assert (E2Y : In e2 (leids Ysub)) by (apply In2Ye, InBe; left; reflexivity).
    split; [exact N1|]. split; [exact NedS|]. split; [exact Nx|]. split; [exact N2|]. split; [exact NE2|].
    split; [exact Ny|]. split; [exact Nec|]. split; [exact Nxm|]. split; [exact Ne1|]. split; [exact Nym|]. split; [exact Ne2|].
    split; [|split; [|split; [|split; [|split; [|split]]]]].
    - intros j a b c Hj Hjk Hjx. split.
      + intros z Hz. assert (Zs : In z (sids sl1)) by (eapply in_sids; [eapply nth_error_In; exact Hj|exact Hz]). repeat split; intros ->.
        * exact (Nx Zs).
        * exact (sib_disj_n sl1 j k _ _ _ _ _ _ _ N1 Hj Hk Hjk Hz Yy).
        * exact (sib_disj_n sl1 j ix _ _ _ _ _ _ _ N1 Hj Hix Hjx Hz Aa).
        * exact (sib_disj_n sl1 j k _ _ _ _ _ _ _ N1 Hj Hk Hjk Hz YB).
      + intros z Hz. repeat split; intros ->.
        * exact (sib_disj_e sl1 j ix _ _ _ _ _ _ _ NedS Hj Hix Hjx Hz (or_introl eq_refl)).
        * exact (sib_disj_e sl1 j k _ _ _ _ _ _ _ NedS Hj Hk Hjk Hz (or_intror E2Y)).
        * exact (sib_disj_e sl1 j k _ _ _ _ _ _ _ NedS Hj Hk Hjk Hz (or_introl eq_refl)).
    - intros j a b c Hj Hjy. split.
      + intros z Hz. assert (Zs : In z (sids sl2)) by (eapply in_sids; [eapply nth_error_In; exact Hj|exact Hz]). repeat split; intros ->.
        * exact (Nx (InY _ (In2Y _ Zs))).
        * exact (Ny Zs).
        * exact (DYA _ (In2Y _ Zs) Aa).
        * exact (sib_disj_n sl2 j iy _ _ _ _ _ _ _ N2 Hj Hiy Hjy Hz Bb).
      + intros z Hz. assert (Zs : In z (seids sl2)).
        { destruct Hz as [<-|Hz]; [eapply in_seids_here|eapply in_seids]; try (eapply nth_error_In; exact Hj); exact Hz. }
        repeat split; intros ->.
        * exact (DYAe _ (or_intror (In2Ye _ Zs)) (or_introl eq_refl)).
        * exact (sib_disj_e sl2 j iy _ _ _ _ _ _ _ NE2 Hj Hiy Hjy Hz (or_introl eq_refl)).
        * exact (Nec Zs).
    - intros z Hz. assert (ZA : In z (lids A)) by (unfold A; rewrite lids_eq; right; exact Hz). repeat split; intros ->.
      + exact (Nx (InA _ ZA)).
      + exact (DYA _ Yy ZA).
      + exact (Nxm Hz).
      + exact (DYA _ YB ZA).
    - intros z Hz. assert (ZA : In z (e1 :: leids A)) by (right; unfold A; rewrite leids_eq; exact Hz). repeat split; intros ->.
      + exact (Ne1 Hz).
      + exact (DYAe _ (or_intror E2Y) ZA).
      + exact (DYAe _ (or_introl eq_refl) ZA).
    - intros z Hz. assert (ZB : In z (lids B)) by (unfold B; rewrite lids_eq; right; exact Hz). repeat split; intros ->.
      + exact (Nx (InY _ (In2Y _ (InB _ ZB)))).
      + exact (Ny (InB _ ZB)).
      + exact (DYA _ (In2Y _ (InB _ ZB)) Aa).
      + exact (Nym Hz).
    - intros z Hz. assert (ZB : In z (e2 :: leids B)) by (right; unfold B; rewrite leids_eq; exact Hz). repeat split; intros ->.
      + exact (DYAe _ (or_intror (In2Ye _ (InBe _ ZB))) (or_introl eq_refl)).
      + exact (Ne2 Hz).
      + exact (Nec (InBe _ ZB)).
    - repeat split; intros E0.
      + apply Nx. rewrite E0. exact (InY _ Yy).
      + apply Nx. rewrite E0. exact (InA _ Aa).
      + apply Nx. rewrite E0. exact (InY _ YB).
      + apply (DYA y Yy). rewrite E0. exact Aa.
      + apply Ny. rewrite E0. exact (InB _ Bb).
      + apply (DYA ym YB). rewrite <- E0. exact Aa.
      + apply (DYAe e2 (or_intror E2Y)). rewrite <- E0. left. reflexivity.
      + apply (DYAe ec (or_introl eq_refl)). rewrite <- E0. left. reflexivity.
      + apply Nec. rewrite <- E0. apply InBe. left. reflexivity.
  Qed.

  Lemma ND_facts :
    length (hneigh hx) = length (hbr hx) /\ hname hx = nmx /\ hcom hx = cmx /\
    Forall2 (slot_ok true h p1 x) (slots_of hx) sl1 /\
    length (hneigh hy) = length (hbr hy) /\ hname hy = nmy /\ hcom hy = cmy /\
    Forall2 (slot_ok true h (Some (x, ec)) y) (slots_of hy) sl2 /\
    nth_error (slots_of hx) k = Some (y, ec) /\ nth_error (slots_of hx) ix = Some (xm, e1) /\
    nth_error (slots_of hy) iy = Some (ym, e2) /\
    edge_ok true h ec x y eic /\ shape true h (Some (x, e1)) A /\ shape true h (Some (y, e2)) B /\
    p1 <> Some (y, ec) /\ lwf_sub A /\ lwf_sub B.
  Proof.
    pose proof (shape_lsubs _ _ _ _ _ _ (rep_shape _ _ R) Hsub) as Sh. unfold sub1 in Sh.
    apply shape_unfold in Sh. destruct Sh as [hx0 (A1 & A2 & A3 & A4 & A5)]. rewrite Hx in A1. injection A1 as <-.
    destruct (Forall2_nth_r _ _ _ _ _ A5 Hk) as [[c0 e0] [K1 K2]]. cbn [slot_ok fst snd lid] in K2.
    destruct K2 as (K3 & K4 & K5 & K6 & K7). unfold Ysub in K5. cbn [lid] in K5. subst c0 e0.
    destruct (Forall2_nth_r _ _ _ _ _ A5 Hix) as [[c0 e0] [X1 X2]]. cbn [slot_ok fst snd lid] in X2.
    destruct X2 as (_ & X4 & X5 & _ & X7). unfold A in X5. cbn [lid] in X5. subst c0 e0.
    unfold Ysub in K7. apply shape_unfold in K7. destruct K7 as [hy0 (B1 & B2 & B3 & B4 & B5)]. rewrite Hy in B1. injection B1 as <-.
    destruct (Forall2_nth_r _ _ _ _ _ B5 Hiy) as [[c0 e0] [Y1 Y2]]. cbn [slot_ok fst snd lid] in Y2.
    destruct Y2 as (_ & Y4 & Y5 & _ & Y7). unfold B in Y5. cbn [lid] in Y5. subst c0 e0.
    assert (HsubY : In (Some (x, ec), Ysub) (lsubs None lt)).
    { eapply lsubs_trans; [exact Hsub|]. unfold sub1. eapply lsubs_child. eapply nth_error_In. exact Hk. }
    assert (HsubA : In (Some (x, e1), A) (lsubs None lt)).
    { eapply lsubs_trans; [exact Hsub|]. unfold sub1. eapply lsubs_child. eapply nth_error_In. exact Hix. }
    assert (HsubB : In (Some (y, e2), B) (lsubs None lt)).
    { eapply lsubs_trans; [exact HsubY|]. unfold Ysub. eapply lsubs_child. eapply nth_error_In. exact Hiy. }
    destruct (lwf_sub_lsubs lt None _ _ (or_introl (rep_wf _ _ R)) HsubA) as [E|WA]; [discriminate|].
    destruct (lwf_sub_lsubs lt None _ _ (or_introl (rep_wf _ _ R)) HsubB) as [E|WB]; [discriminate|].
    repeat split; assumption.
  Qed.

  Lemma ND_shape_new : shape true h' p1 new1.
  Proof.
    destruct ND_facts as (Lx & Nx & Cx & F1 & Ly & Ny & Cy & F2 & Kk & Kix & Kiy & Eck & ShA & ShB & Pne & WA & WB).
    destruct ND_sep as (N1 & NE1 & Nxs & N2 & NE2 & Nys & Necs & NxmA & Ne1A & NymB & Ne2B & Sib1 & Sib2 & InAn & InAe & InBn & InBe &
                        Dxy & Dxxm & Dxym & Dyxm & Dyym & Dxmym & De12 & De1c & De2c).
    unfold A in WA. apply lwf_sub_iff in WA. destruct WA as [WA1 _]. unfold B in WB. apply lwf_sub_iff in WB. destruct WB as [WB1 _].
    (* lookups in the new heap *)
    assert (Lx' : alookup x (hnodes h') = Some (mkHN (hname hx) (hcom hx) (put_nth ix ym (hneigh hx)) (put_nth ix e2 (hbr hx)))).
    { rewrite (nd_nodes _ _ _ _ _ _ _ _ _ _ _ _ _ _ _ _ _ _ _ _ _ D), Nat.eqb_refl. reflexivity. }
    assert (Ly' : alookup y (hnodes h') = Some (mkHN (hname hy) (hcom hy) (put_nth iy xm (hneigh hy)) (put_nth iy e1 (hbr hy)))).
    { rewrite (nd_nodes _ _ _ _ _ _ _ _ _ _ _ _ _ _ _ _ _ _ _ _ _ D). destruct (Nat.eqb_spec y x); [congruence|]. rewrite Nat.eqb_refl. reflexivity. }
    assert (Lxm' : alookup xm (hnodes h') = Some (mkHN (hname hxm) (hcom hxm) (put_nth jx y (hneigh hxm)) (hbr hxm))).
    { rewrite (nd_nodes _ _ _ _ _ _ _ _ _ _ _ _ _ _ _ _ _ _ _ _ _ D). destruct (Nat.eqb_spec xm x); [congruence|]. destruct (Nat.eqb_spec xm y); [congruence|].
      rewrite Nat.eqb_refl. reflexivity. }
    assert (Lym' : alookup ym (hnodes h') = Some (mkHN (hname hym) (hcom hym) (put_nth jy x (hneigh hym)) (hbr hym))).
    { rewrite (nd_nodes _ _ _ _ _ _ _ _ _ _ _ _ _ _ _ _ _ _ _ _ _ D). destruct (Nat.eqb_spec ym x); [congruence|]. destruct (Nat.eqb_spec ym y); [congruence|].
      destruct (Nat.eqb_spec ym xm); [congruence|]. rewrite Nat.eqb_refl. reflexivity. }
    assert (Le1' : alookup e1 (hedges h') = Some (mkHE y xm ei1)).
    { rewrite (nd_edges _ _ _ _ _ _ _ _ _ _ _ _ _ _ _ _ _ _ _ _ _ D), Nat.eqb_refl. unfold move_end. cbn. rewrite Nat.eqb_refl. reflexivity. }
    assert (Le2' : alookup e2 (hedges h') = Some (mkHE x ym ei2)).
    { rewrite (nd_edges _ _ _ _ _ _ _ _ _ _ _ _ _ _ _ _ _ _ _ _ _ D). destruct (Nat.eqb_spec e2 e1); [congruence|]. rewrite Nat.eqb_refl.
      unfold move_end. cbn. rewrite Nat.eqb_refl. reflexivity. }
    assert (Lec' : alookup ec (hedges h') = alookup ec (hedges h)).
    { rewrite (nd_edges _ _ _ _ _ _ _ _ _ _ _ _ _ _ _ _ _ _ _ _ _ D). destruct (Nat.eqb_spec ec e1); [congruence|]. destruct (Nat.eqb_spec ec e2); [congruence|].
      rewrite Nat.eqb_refl. symmetry. exact Hec. }
    (* the two moved subtrees *)
    assert (ShA' : shape true h' (Some (y, e1)) A).
    { unfold A in *. eapply (reparent_shape h h' x y e1 xm nmA cmA slA hxm jx ShA WA1 Hxm Jx); [|exact Lxm'| |].
      - intros z Hz. apply (InAn z Hz).
      - intros z Hz. split; [apply ND_same_n; apply InAn; exact Hz|apply (InAn z Hz)].
      - intros z Hz. apply ND_same_e. apply InAe. exact Hz. }
    assert (ShB' : shape true h' (Some (x, e2)) B).
    { unfold B in *. eapply (reparent_shape h h' y x e2 ym nmB cmB slB hym jy ShB WB1 Hym Jy); [|exact Lym'| |].
      - intros z Hz. apply (InBn z Hz).
      - intros z Hz. split; [apply ND_same_n; apply InBn; exact Hz|apply (InBn z Hz)].
      - intros z Hz. apply ND_same_e. apply InBe. exact Hz. }
    (* the lower node *)
    assert (LenY : iy < length (slots_of hy)) by (apply nth_error_Some; congruence).
    assert (LenX : ix < length (slots_of hx) /\ k < length (slots_of hx)) by (split; apply nth_error_Some; congruence).
    assert (ShY' : shape true h' (Some (x, ec)) Y').
    { unfold Y'. apply shape_unfold. eexists. split; [exact Ly'|]. cbn [hname hcom hneigh hbr].
      split; [exact Ny|]. split; [exact Cy|]. split; [unfold put_nth; rewrite !length_set_nth; exact Ly|].
      unfold put_nth. rewrite combine_set_nth_both. change (combine (hneigh hy) (hbr hy)) with (slots_of hy).
      apply Forall2_pointwise; [rewrite !length_set_nth; exact (Forall2_length' _ _ _ F2)|].
      intros j ce s Hj Hs. destruct (Nat.eq_dec j iy) as [->|Hjy].
      - rewrite nth_error_set_nth_eq in Hj by exact LenY. injection Hj as <-.
        rewrite nth_error_set_nth_eq in Hs by (rewrite <- (Forall2_length' _ _ _ F2); exact LenY). injection Hs as <-.
        cbn [slot_ok fst snd lid A]. split; [intros [= E0 _]; congruence|]. split; [reflexivity|]. split; [reflexivity|].
        split; [eexists; split; [exact Le1'|]; repeat split|]. exact ShA'.
      - rewrite nth_error_set_nth_ne in Hj by exact Hjy. rewrite nth_error_set_nth_ne in Hs by exact Hjy.
        destruct (Forall2_nth _ _ _ _ _ F2 Hj) as [s' [Hs' Hok]]. rewrite Hs in Hs'. injection Hs' as <-.
        destruct s as [[[a b] X]|]; [|exact Hok].
        destruct (Sib2 j a b X Hs Hjy) as [U1 U2].
        eapply ND_untouched; [exact U1|exact U2| |exact Hok]. cbn in Hok. apply Hok. }
    (* the upper node *)
    unfold new1. apply shape_unfold. eexists. split; [exact Lx'|]. cbn [hname hcom hneigh hbr].
    split; [exact Nx|]. split; [exact Cx|]. split; [unfold put_nth; rewrite !length_set_nth; exact Lx|].
    unfold put_nth. rewrite combine_set_nth_both. change (combine (hneigh hx) (hbr hx)) with (slots_of hx).
    apply Forall2_pointwise; [rewrite !length_set_nth; exact (Forall2_length' _ _ _ F1)|].
    intros j ce s Hj Hs. destruct (Nat.eq_dec j ix) as [->|Hjx].
    - rewrite nth_error_set_nth_eq in Hj by apply LenX. injection Hj as <-.
      rewrite nth_error_set_nth_eq in Hs by (rewrite length_set_nth, <- (Forall2_length' _ _ _ F1); apply LenX). injection Hs as <-.
      cbn [slot_ok fst snd lid B]. split.
      { destruct p1 as [[pp pe]|]; [|discriminate]. intros [= E0 _]. subst pp.
        destruct (Rep_parent h lt R ym pe sub1 Hsub) as (hm & ed0 & _ & _ & _ & _ & _ & P6). apply P6.
        unfold sub1. rewrite lids_eq. right. eapply in_sids; [eapply nth_error_In; exact Hk|]. unfold Ysub. rewrite lids_eq. right.
        eapply in_sids; [eapply nth_error_In; exact Hiy|left; reflexivity]. }
      split; [reflexivity|]. split; [reflexivity|]. split; [eexists; split; [exact Le2'|]; repeat split|]. exact ShB'.
    - rewrite nth_error_set_nth_ne in Hj by exact Hjx. rewrite nth_error_set_nth_ne in Hs by exact Hjx.
      destruct (Nat.eq_dec j k) as [->|Hjk].
      + rewrite Kk in Hj. injection Hj as <-.
        rewrite nth_error_set_nth_eq in Hs by (rewrite <- (Forall2_length' _ _ _ F1); apply LenX). injection Hs as <-.
        cbn [slot_ok fst snd lid Y']. split; [exact Pne|]. split; [reflexivity|]. split; [reflexivity|].
        split; [eapply edge_ok_eq; [exact Lec'|exact Eck]|]. exact ShY'.
      + rewrite nth_error_set_nth_ne in Hs by exact Hjk.
        destruct (Forall2_nth _ _ _ _ _ F1 Hj) as [s' [Hs' Hok]]. rewrite Hs in Hs'. injection Hs' as <-.
        destruct s as [[[a b] X]|]; [|exact Hok].
        destruct (Sib1 j a b X Hs Hjk Hjx) as [U1 U2].
        eapply ND_untouched; [exact U1|exact U2| |exact Hok]. cbn in Hok. apply Hok.
  Qed.

  Lemma ND_perm : Permutation (lids new1) (lids sub1) /\ Permutation (leids new1) (leids sub1).
  Proof.
    assert (Hix' : nth_error (set_nth k (Some (ec, eic, Y')) sl1) ix = Some (Some (e1, ei1, A))) by (rewrite nth_error_set_nth_ne by exact Hne; exact Hix).
    unfold new1, sub1. rewrite !lids_eq, !leids_eq.
    fold (sids (set_nth ix (Some (e2, ei2, B)) (set_nth k (Some (ec, eic, Y')) sl1))) (sids sl1)
         (seids (set_nth ix (Some (e2, ei2, B)) (set_nth k (Some (ec, eic, Y')) sl1))) (seids sl1). split.
    - apply perm_skip.
      pose proof (flat_set_nth_swap (fun s : lslot => match s with Some (_, _, ch) => lids ch | None => [] end) _ ix _ (Some (e2, ei2, B)) Hix') as P1.
      pose proof (flat_set_nth_swap (fun s : lslot => match s with Some (_, _, ch) => lids ch | None => [] end) _ k _ (Some (ec, eic, Y')) Hk) as P2.
      pose proof (flat_set_nth_swap (fun s : lslot => match s with Some (_, _, ch) => lids ch | None => [] end) _ iy _ (Some (e1, ei1, A)) Hiy) as P3.
      unfold Ysub, Y' in P2. rewrite !lids_eq in P2.
      eapply (perm_nni (lids A) (lids B) _ _ _ _ _ y); [exact P1|exact P2|exact P3].
    - pose proof (flat_set_nth_swap (fun s : lslot => match s with Some (e, _, ch) => e :: leids ch | None => [] end) _ ix _ (Some (e2, ei2, B)) Hix') as P1.
      pose proof (flat_set_nth_swap (fun s : lslot => match s with Some (e, _, ch) => e :: leids ch | None => [] end) _ k _ (Some (ec, eic, Y')) Hk) as P2.
      pose proof (flat_set_nth_swap (fun s : lslot => match s with Some (e, _, ch) => e :: leids ch | None => [] end) _ iy _ (Some (e1, ei1, A)) Hiy) as P3.
      unfold Ysub, Y' in P2. rewrite !leids_eq in P2.
      eapply (perm_nni (e1 :: leids A) (e2 :: leids B) _ _ _ _ _ ec); [exact P1|exact P2|exact P3].
  Qed.

  Theorem ND_Rep : Rep h' (lreplace x new1 lt).
  Proof.
    destruct ND_perm as [PN PE].
    destruct ND_sep as (N1 & NE1 & Nxs & N2 & NE2 & Nys & Necs & NxmA & Ne1A & NymB & Ne2B & Sib1 & Sib2 & InAn & InAe & InBn & InBe &
                        Dxy & Dxxm & Dxym & Dyxm & Dyym & Dxmym & De12 & De1c & De2c).
    destruct ND_facts as (Lx & Nx & Cx & F1 & Ly & Ny & Cy & F2 & Kk & Kix & Kiy & Eck & ShA & ShB & Pne & WA & WB).
    assert (NdS : NoDup (lids sub1)) by (eapply lsubs_NoDup; [exact (rep_nd _ _ R)|exact Hsub]).
    pose proof (shape_lsubs _ _ _ _ _ _ (rep_shape _ _ R) Hsub) as Shsub.
    pose proof (shape_NoDup_leids _ _ _ Shsub NdS) as NedS.
    assert (SubN : forall z, In z (lids sub1) -> In z (lids lt)) by (intros z Hz; eapply lsubs_sub_lids; eassumption).
    assert (SubE : forall z, In z (leids sub1) -> In z (leids lt)) by (intros z Hz; eapply lsubs_sub_leids; eassumption).
    assert (Inx : In x (lids sub1)) by (left; reflexivity).
    assert (InYs : forall z, In z (lids Ysub) -> In z (lids sub1)) by (intros z Hz; unfold sub1; eapply in_lids_child; [eapply nth_error_In; exact Hk|exact Hz]).
    assert (Iny : In y (lids sub1)) by (apply InYs; left; reflexivity).
    assert (Inxm : In xm (lids sub1)) by (unfold sub1; eapply in_lids_child; [eapply nth_error_In; exact Hix|left; reflexivity]).
    assert (Inym : In ym (lids sub1)) by (apply InYs; unfold Ysub; eapply in_lids_child; [eapply nth_error_In; exact Hiy|left; reflexivity]).
    assert (Ine1 : In e1 (leids sub1)) by (unfold sub1; eapply in_leids_here; eapply nth_error_In; exact Hix).
    assert (Inec : In ec (leids sub1)) by (unfold sub1; eapply in_leids_here; eapply nth_error_In; exact Hk).
    assert (Ine2 : In e2 (leids sub1)).
    { unfold sub1. eapply in_leids_child; [eapply nth_error_In; exact Hk|]. unfold Ysub. eapply in_leids_here. eapply nth_error_In. exact Hiy. }
    assert (DomN : forall z, alookup z (hnodes h') <> None <-> alookup z (hnodes h) <> None).
    { intros z. rewrite (nd_nodes _ _ _ _ _ _ _ _ _ _ _ _ _ _ _ _ _ _ _ _ _ D).
      destruct (Nat.eqb_spec z x) as [->|]; [split; intros _; congruence|].
      destruct (Nat.eqb_spec z y) as [->|]; [split; intros _; congruence|].
      destruct (Nat.eqb_spec z xm) as [->|]; [split; intros _; congruence|].
      destruct (Nat.eqb_spec z ym) as [->|]; [split; intros _; congruence|]. reflexivity. }
    assert (He1 : alookup e1 (hedges h) <> None) by (apply (rep_edges _ _ R), SubE, Ine1).
    assert (He2 : alookup e2 (hedges h) <> None) by (apply (rep_edges _ _ R), SubE, Ine2).
    assert (DomE : forall z, alookup z (hedges h') <> None <-> alookup z (hedges h) <> None).
    { intros z. rewrite (nd_edges _ _ _ _ _ _ _ _ _ _ _ _ _ _ _ _ _ _ _ _ _ D).
      destruct (Nat.eqb_spec z e1) as [->|]; [split; intros _; [exact He1|discriminate]|].
      destruct (Nat.eqb_spec z e2) as [->|]; [split; intros _; [exact He2|discriminate]|].
      destruct (Nat.eqb_spec z ec) as [->|]; [split; intros _; congruence|]. reflexivity. }
    assert (InN : forall z, In z (lids new1) <-> In z (lids sub1)).
    { intros z. split; intros Hz; [eapply Permutation_in; [exact PN|exact Hz]|eapply Permutation_in; [symmetry; exact PN|exact Hz]]. }
    assert (InE : forall z, In z (leids new1) <-> In z (leids sub1)).
    { intros z. split; intros Hz; [eapply Permutation_in; [exact PE|exact Hz]|eapply Permutation_in; [symmetry; exact PE|exact Hz]]. }
    assert (Kwf : forall (sl sl' : list lslot), (forall a b c, In (Some (a, b, c)) sl -> lwf_sub c) ->
                  (forall s, In s sl' -> In s sl \/ (exists a b c, s = Some (a, b, c) /\ lwf_sub c)) ->
                  forall a b c, In (Some (a, b, c)) sl' -> lwf_sub c).
    { intros sl sl' H1 H2 a b c Hin. destruct (H2 _ Hin) as [Hi|(a' & b' & c' & E0 & W)]; [exact (H1 _ _ _ Hi)|]. injection E0 as -> -> ->. exact W. }
    assert (WY' : (forall a b c, In (Some (a, b, c)) sl2 -> lwf_sub c) -> lnup sl2 = 1 -> lwf_sub Y').
    { intros K2 U2. unfold Y'. apply lwf_sub_iff. split.
      - rewrite (lnup_set_nth_some sl2 iy _ _ _ _ Hiy); [exact U2|eauto].
      - apply (Kwf sl2); [exact K2|]. intros s Hs. apply in_set_nth in Hs. destruct Hs as [->|Hs]; [right; eauto|left; exact Hs]. }
    assert (HsubY : In (Some (x, ec), Ysub) (lsubs None lt)).
    { eapply lsubs_trans; [exact Hsub|]. unfold sub1. eapply lsubs_child. eapply nth_error_In. exact Hk. }
    destruct (lwf_sub_lsubs lt None _ _ (or_introl (rep_wf _ _ R)) HsubY) as [E|WY]; [discriminate|].
    unfold Ysub in WY. apply lwf_sub_iff in WY. destruct WY as [WY1 WY2].
    assert (Wnew : forall (U : nat), lnup sl1 = U -> (forall a b c, In (Some (a, b, c)) sl1 -> lwf_sub c) ->
              lnup (set_nth ix (Some (e2, ei2, B)) (set_nth k (Some (ec, eic, Y')) sl1)) = U /\
              forall a b c, In (Some (a, b, c)) (set_nth ix (Some (e2, ei2, B)) (set_nth k (Some (ec, eic, Y')) sl1)) -> lwf_sub c).
    { intros U HU K1. split.
      - rewrite (lnup_set_nth_some _ ix e1 ei1 A); [|rewrite nth_error_set_nth_ne by exact Hne; exact Hix|eauto].
        rewrite (lnup_set_nth_some sl1 k _ _ _ _ Hk); [exact HU|eauto].
      - apply (Kwf sl1); [exact K1|]. intros s Hs. apply in_set_nth in Hs. destruct Hs as [->|Hs]; [right; eauto|].
        apply in_set_nth in Hs. destruct Hs as [->|Hs]; [right; do 3 eexists; split; [reflexivity|exact (WY' WY2 WY1)]|left; exact Hs]. }
    apply (Rep_replace h h' lt x p1 sub1 new1 R Hsub eq_refl eq_refl).
    - exact ND_shape_new.
    - intros z Hz Hz'. apply ND_same_n. repeat split; intros ->; contradiction.
    - intros z Hz Hz'. apply ND_same_e. repeat split; intros ->; contradiction.
    - intros W. unfold sub1 in W. apply lwf_iff in W. destruct W as [X1 X2]. unfold new1. apply lwf_iff. exact (Wnew 0 X1 X2).
    - intros W. unfold sub1 in W. apply lwf_sub_iff in W. destruct W as [X1 X2]. unfold new1. apply lwf_sub_iff. exact (Wnew 1 X1 X2).
    - exact (nd_root _ _ _ _ _ _ _ _ _ _ _ _ _ _ _ _ _ _ _ _ _ D).
    - eapply Permutation_NoDup; [symmetry; exact PN|exact NdS].
    - intros z Hz. left. apply InN. exact Hz.
    - eapply Permutation_NoDup; [symmetry; exact PE|exact NedS].
    - intros z Hz. left. apply InE. exact Hz.
    - intros z. rewrite DomN, InN, <- (rep_nodes _ _ R z). split.
      + intros Hz. destruct (in_dec Nat.eq_dec z (lids sub1)); tauto.
      + intros [X|[X _]]; [apply SubN; exact X|exact X].
    - intros z. rewrite DomE, InE, <- (rep_edges _ _ R z). split.
      + intros Hz. destruct (in_dec Nat.eq_dec z (leids sub1)); tauto.
      + intros [X|[X _]]; [apply SubE; exact X|exact X].
    - intros z Hz. rewrite (nd_nextn _ _ _ _ _ _ _ _ _ _ _ _ _ _ _ _ _ _ _ _ _ D). apply (rep_fn _ _ R), (rep_nodes _ _ R), DomN. exact Hz.
    - intros z Hz. rewrite (nd_nexte _ _ _ _ _ _ _ _ _ _ _ _ _ _ _ _ _ _ _ _ _ D). apply (rep_fe _ _ R), (rep_edges _ _ R), DomE. exact Hz.
  Qed.
End Down.
