(** Heap model: NNI, part 2: the exchange below a node (the moved neighbour of the upper node
    is one of its children): the heap described by [nni_desc] with fl = false is the tree in
    which the two subtrees have changed places. *)
From Coq Require Import String ZArith QArith Bool Arith Lia Permutation List.
From GT Require Import Base.UTree Model.Reroot Model.Heap Model.HeapEdit Proofs.Enum Proofs.HeapBase Proofs.HeapRep
     Proofs.HeapGood Proofs.HeapGoodRep Proofs.HeapRerootL Proofs.HeapReorder Proofs.HeapUnrootL Proofs.HeapUnroot
     Proofs.HeapCtx Proofs.HeapGraft Proofs.HeapCollapse Proofs.HeapNNI.
Import ListNotations.
Local Close Scope Q_scope.

(** permutations of lists of naturals by counting *)
Ltac perm_count :=
  repeat match goal with H : Permutation _ _ |- _ => rewrite (Permutation_count_occ Nat.eq_dec) in H end;
  rewrite (Permutation_count_occ Nat.eq_dec); intros zz;
  repeat match goal with H : forall x : nat, count_occ _ _ x = count_occ _ _ x |- _ => specialize (H zz) end;
  repeat (rewrite count_occ_app in * || rewrite count_occ_cons_eq in * by reflexivity);
  cbn [count_occ] in *;
  repeat match goal with |- context [Nat.eq_dec ?a ?b] => destruct (Nat.eq_dec a b) end;
  repeat match goal with H : context [Nat.eq_dec ?a ?b] |- _ => destruct (Nat.eq_dec a b) end;
  try lia.

Lemma perm_nni (A B N M S T2 T2' : list nat) (y : nat) :
  Permutation (A ++ N) (B ++ M) -> Permutation ((y :: T2) ++ M) ((y :: T2') ++ S) ->
  Permutation (B ++ T2') (A ++ T2) -> Permutation N S.
Proof. intros H1 H2 H3. perm_count. Qed.

Lemma Forall2_pointwise {A B} (Q : A -> B -> Prop) : forall l sl, length l = length sl ->
  (forall j a b, nth_error l j = Some a -> nth_error sl j = Some b -> Q a b) -> Forall2 Q l sl.
Proof.
  induction l as [|a l IH]; intros [|b sl] L H; cbn in L; try lia; constructor.
  - exact (H 0 a b eq_refl eq_refl).
  - apply IH; [lia|]. intros j a' b' X Y. exact (H (S j) a' b' X Y).
Qed.

(** siblings are disjoint, a head is not inside its own slot *)
Lemma sib_disj_n sl j1 j2 a1 b1 c1 a2 b2 c2 z : NoDup (sids sl) ->
  nth_error sl j1 = Some (Some (a1, b1, c1)) -> nth_error sl j2 = Some (Some (a2, b2, c2)) -> j1 <> j2 ->
  In z (lids c1) -> In z (lids c2) -> False.
Proof. intros Nd H1 H2 Hne Z1 Z2. apply Hne. eapply (NoDup_flat_map_nth _ _ _ _ _ _ z Nd H1 H2); cbn; assumption. Qed.

Lemma sib_disj_e sl j1 j2 a1 b1 c1 a2 b2 c2 z : NoDup (seids sl) ->
  nth_error sl j1 = Some (Some (a1, b1, c1)) -> nth_error sl j2 = Some (Some (a2, b2, c2)) -> j1 <> j2 ->
  In z (a1 :: leids c1) -> In z (a2 :: leids c2) -> False.
Proof. intros Nd H1 H2 Hne Z1 Z2. apply Hne. eapply (NoDup_flat_map_nth _ _ _ _ _ _ z Nd H1 H2); cbn; assumption. Qed.

Lemma slot_nd sl j a b c : NoDup (sids sl) -> NoDup (seids sl) -> nth_error sl j = Some (Some (a, b, c)) ->
  NoDup (lids c) /\ NoDup (a :: leids c).
Proof.
  intros N1 N2 H. apply nth_error_In in H. split; [exact (NoDup_flat_map_in _ _ _ N1 H)|].
  exact (NoDup_flat_map_in (fun s : lslot => match s with Some (e, _, ch) => e :: leids ch | None => [] end) _ _ N2 H).
Qed.
