(** Model/Pool2.v, liveness: with wg.Done() on every exit path (or the Continue pattern) the
    caller can always still finish — from every reachable state, for all capacities (including
    unbuffered channels) — and the Stop-mode leak: when the workers have all returned on errors,
    the caller finishes while the producer stays blocked on its send for ever. *)
From Coq Require Import Bool Arith Lia List Permutation.
From GT Require Import Model.Pool Model.Pool2 Proofs.Pool Proofs.PoolLive Proofs.Pool2.
Import ListNotations.

Local Arguments ws {job res err} s.
Local Arguments busy_jobs {job res err} s.
Local Arguments is_exited {job} w.
Local Arguments pending2 {job res err} s.
Local Arguments closed2 {job res err} s.
Local Arguments queue2 {job res err} s.
Local Arguments ws2 {job res err} s.
Local Arguments rchan {job res err} s.
Local Arguments closed_out {job res err} s.
Local Arguments recvd {job res err} s.
Local Arguments caller_done {job res err} s.
Local Arguments errs2 {job res err} s.
Local Arguments mkSt2 {job res err}.
Local Arguments producer_step2 {job res err}.
Local Arguments closer_step {job res err}.
Local Arguments caller_step {job res err}.
Local Arguments send_result {job res err}.
Local Arguments worker_step2 {job res err}.
Local Arguments step2 {job res err}.
Local Arguments run2 {job res err}.
Local Arguments init2 {job res err}.
Local Arguments abs {job res err}.
Local Arguments inv {job res err}.
Local Arguments inv_abs {job res err}.
Local Arguments inv2 {job res err}.
Local Arguments inv2_reach {job res err}.
Local Arguments run2_snoc {job res err}.
Local Arguments worker_step2_spec {job res err}.

Definition wt2 {job} (w : wstate job) : nat :=
  match w with Idle => 1 | Busy _ => 3 | _ => 0 end.
Definition wsum {job} (l : list (wstate job)) : nat := list_sum (map wt2 l).
Definition b2n (b : bool) : nat := if b then 0 else 1.

Lemma wsum_mid {job} (l1 l2 : list (wstate job)) w : wsum (l1 ++ w :: l2) = wsum l1 + wt2 w + wsum l2.
Proof. unfold wsum. rewrite map_app, list_sum_app. simpl. lia. Qed.

Definition ni {job} (w : wstate job) : nat := match w with Idle => 0 | _ => 1 end.
Definition nonidle {job} (l : list (wstate job)) : nat := list_sum (map ni l).

Lemma nonidle_mid {job} (l1 l2 : list (wstate job)) w :
  nonidle (l1 ++ w :: l2) = nonidle l1 + ni w + nonidle l2.
Proof. unfold nonidle. rewrite map_app, list_sum_app. simpl. lia. Qed.

Lemma nonidle_le {job} (l : list (wstate job)) : nonidle l <= length l.
Proof. unfold nonidle. induction l as [|w l IH]; simpl; auto. destruct w; simpl; lia. Qed.

Lemma not_all_exited {job} (l : list (wstate job)) :
  forallb is_exited l = false -> exists l1 w l2, l = l1 ++ w :: l2 /\ is_exited w = false.
Proof.
  induction l as [|w l IH]; simpl; [discriminate|].
  destruct (is_exited w) eqn:E; simpl.
  - intros H. destruct (IH H) as (l1 & w' & l2 & Hl & Hw).
    exists (w :: l1), w', l2. subst. auto.
  - intros _. exists [], w, l. auto.
Qed.

Lemma all_exited_nth {job} (l : list (wstate job)) i w :
  forallb is_exited l = true -> nth_error l i = Some w -> w = Exited.
Proof.
  intros H E. apply nth_error_In in E. rewrite forallb_forall in H. specialize (H w E).
  destruct w; simpl in H; congruence.
Qed.

Section Pool2Live.
  Variables (job res err : Type).
  Variable f : job -> res.
  Variable fails : job -> bool.
  Variable e_of : job -> err.
  Variable on_fail : fail_mode.
  Variable done_on_exit : bool.
  Variables cj cr : nat.

  Local Notation state2 := (st2 job res err).
  Local Notation wstep2f := (worker_step2 f fails e_of on_fail done_on_exit cj cr).
  Local Notation step2f := (step2 f fails e_of on_fail done_on_exit cj cr).
  Local Notation run2f := (run2 f fails e_of on_fail done_on_exit cj cr).

  (** * Progress *)

  Definition M (s : state2) : nat :=
    4 * length (pending2 s) + b2n (closed2 s) + 3 * length (queue2 s) + wsum (ws2 s)
    + length (rchan s) + b2n (closed_out s) + b2n (caller_done s).

  Lemma progress (s : state2) :
    ~ In Dead (ws2 s) -> caller_done s = false -> exists a, M (step2f s a) < M s.
  Proof.
    intros Hd D.
    destruct (rchan s) as [|r rc] eqn:R.
    2:{ exists 2. simpl. unfold caller_step. rewrite D, R. unfold M. simpl. rewrite R, D. simpl. lia. }
    destruct (forallb is_exited (ws2 s)) eqn:F.
    - destruct (closed_out s) eqn:Co.
      + exists 2. simpl. unfold caller_step. rewrite D, R, Co. unfold M. simpl.
        rewrite R, D, Co. simpl. lia.
      + exists 1. simpl. unfold closer_step. rewrite F. unfold M. simpl. rewrite Co. simpl. lia.
    - destruct (not_all_exited _ F) as (l1 & w & l2 & Hw & Hne).
      assert (E : forall x, nth_error (l1 ++ x :: l2) (length l1) = Some x)
        by (intros; apply nth_error_mid_eq).
      destruct w as [|j| |]; try discriminate.
      + (* an Idle worker *)
        destruct (queue2 s) as [|j q] eqn:Q.
        * destruct (pending2 s) as [|j p] eqn:P.
          -- destruct (closed2 s) eqn:Cl.
             ++ exists (3 + length l1). simpl. unfold worker_step2. rewrite Hw, E, Q, P, Cl.
                rewrite set_nth_mid.
                destruct cj; unfold M; simpl; rewrite Hw, Q, P, Cl, !wsum_mid; simpl; lia.
             ++ exists 0. simpl. unfold producer_step2. rewrite P. unfold M. simpl.
                rewrite P, Cl. simpl. lia.
          -- destruct cj as [|c] eqn:C.
             ++ exists (3 + length l1). simpl. unfold worker_step2. rewrite Hw, E, Q, P.
                rewrite set_nth_mid. unfold M. simpl. rewrite Hw, Q, P, !wsum_mid. simpl. lia.
             ++ exists 0. simpl. unfold producer_step2. rewrite P, Q. simpl.
                unfold M. simpl. rewrite P, Q. simpl. lia.
        * exists (3 + length l1). simpl. unfold worker_step2. rewrite Hw, E, Q.
          rewrite set_nth_mid. unfold M. simpl. rewrite Hw, Q, !wsum_mid. simpl. lia.
      + (* a Busy worker: the result channel is empty, it can send *)
        exists (3 + length l1). simpl. unfold worker_step2. rewrite Hw, E.
        assert (Hsend : forall e',
                  M (send_result f cr s (length l1) j e') < M s).
        { intros e'. unfold send_result. rewrite R. simpl.
          destruct cr as [|c]; simpl.
          - rewrite D, Hw, set_nth_mid. unfold M. simpl. rewrite R, D, Hw, !wsum_mid. simpl. lia.
          - rewrite Hw, set_nth_mid. unfold M. simpl. rewrite R, Hw, !wsum_mid. simpl. lia. }
        destruct (fails j); [destruct on_fail|]; auto.
        rewrite set_nth_mid. unfold M. simpl. rewrite Hw, !wsum_mid.
        destruct done_on_exit; simpl; lia.
      + exfalso. apply Hd. rewrite Hw. apply in_or_app. right. left. reflexivity.
  Qed.

  (** * Deadlock freedom: from every reachable state the caller can still finish *)

  Lemma can_finish jobs n :
    live_mode on_fail done_on_exit ->
    forall m sched, M (run2f sched (init2 jobs n)) <= m ->
    exists cont, caller_done (run2f cont (run2f sched (init2 jobs n))) = true.
  Proof.
    intros L m. induction m as [|m IH]; intros sched Hm.
    - destruct (caller_done (run2f sched (init2 jobs n))) eqn:D.
      + exists []. exact D.
      + unfold M in Hm. rewrite D in Hm. simpl in Hm. lia.
    - destruct (caller_done (run2f sched (init2 jobs n))) eqn:D.
      + exists []. exact D.
      + pose proof (inv_abs f fails e_of on_fail done_on_exit cj cr jobs n sched) as I.
        pose proof (inv_nodead _ _ _ _ _ _ _ _ _ _ _ I L) as Hd. simpl in Hd.
        destruct (progress _ Hd D) as (a & Ha).
        destruct (IH (sched ++ [a])) as (cont & Hc).
        * rewrite run2_snoc. lia.
        * exists (a :: cont). rewrite run2_snoc in Hc. exact Hc.
  Qed.

  Lemma deadlock_free jobs n sched :
    live_mode on_fail done_on_exit ->
    exists cont, caller_done (run2f cont (run2f sched (init2 jobs n))) = true.
  Proof. intros L. eapply can_finish; eauto. Qed.

  (** * The leak: the producer blocked for ever *)

  Lemma blocked_step (s : state2) a :
    forallb is_exited (ws2 s) = true -> pending2 s <> [] -> cj <= length (queue2 s) ->
    let s' := step2f s a in
    ws2 s' = ws2 s /\ pending2 s' = pending2 s /\ queue2 s' = queue2 s /\ closed2 s' = closed2 s.
  Proof.
    intros F P Q. destruct a as [|[|[|i]]]; simpl.
    - unfold producer_step2. destruct (pending2 s) as [|j p] eqn:Pd; [congruence|].
      assert (length (queue2 s) <? cj = false) as X by (apply Nat.ltb_ge; lia).
      rewrite X. auto.
    - unfold closer_step. destruct (forallb _ _); auto.
    - unfold caller_step. destruct (caller_done s); auto.
      destruct (rchan s); [destruct (closed_out s)|]; auto.
    - unfold worker_step2. destruct (nth_error (ws2 s) i) as [w|] eqn:E; auto.
      rewrite (all_exited_nth _ _ _ F E). auto.
  Qed.

  Lemma blocked_forever (s : state2) cont :
    forallb is_exited (ws2 s) = true -> pending2 s <> [] -> cj <= length (queue2 s) ->
    let s' := run2f cont s in
    ws2 s' = ws2 s /\ pending2 s' = pending2 s /\ queue2 s' = queue2 s /\ closed2 s' = closed2 s.
  Proof.
    revert s. induction cont as [|a cont IH]; intros s F P Q; simpl; auto.
    destruct (blocked_step s a F P Q) as (H1 & H2 & H3 & H4).
    destruct (IH (step2f s a)) as (G1 & G2 & G3 & G4).
    - rewrite H1; auto.
    - rewrite H2; auto.
    - rewrite H3; auto.
    - simpl. rewrite G1, G2, G3, G4. auto.
  Qed.

  (** a reachable state in which every worker has returned while the producer still has a job
      it cannot send: in EVERY continuation the producer never gets further (its goroutine
      leaks, the job channel is never closed), in SOME continuation the caller finishes *)
  Lemma leak_not_hang jobs n sched :
    live_mode on_fail done_on_exit ->
    let s := run2f sched (init2 jobs n) in
    forallb is_exited (ws2 s) = true -> pending2 s <> [] -> cj <= length (queue2 s) ->
    (forall cont, pending2 (run2f cont s) = pending2 s /\ closed2 (run2f cont s) = false)
    /\ (exists cont, caller_done (run2f cont s) = true).
  Proof.
    intros L s F P Q. split.
    - intros cont. destruct (blocked_forever s cont F P Q) as (_ & H2 & _ & H4).
      split; auto. rewrite H4.
      pose proof (inv_abs f fails e_of on_fail done_on_exit cj cr jobs n sched) as I.
      pose proof (inv_closed _ _ _ _ _ _ _ _ _ _ _ I) as Hc. simpl in Hc. fold s in Hc.
      destruct (closed2 s); auto. exfalso. apply P. auto.
    - apply deadlock_free. exact L.
  Qed.

End Pool2Live.

(** * Stop mode: the leak is reachable, and unavoidable when there are more erroneous jobs than
    workers + buffer slots *)
Section Pool2Stop.
  Variables (job res err : Type).
  Variable f : job -> res.
  Variable fails : job -> bool.
  Variable e_of : job -> err.
  Variable done_on_exit : bool.
  Variables cj cr : nat.

  Local Notation state2 := (st2 job res err).
  Local Notation step2f := (step2 f fails e_of Stop done_on_exit cj cr).
  Local Notation run2f := (run2 f fails e_of Stop done_on_exit cj cr).

  Lemma stop_leak_invariant jobs n :
    (forall j, In j jobs -> fails j = true) ->
    forall sched, let s := run2f sched (init2 jobs n) in
    length jobs <= length (pending2 s) + length (queue2 s) + nonidle (ws2 s).
  Proof.
    intros Hf sched. induction sched as [|a sched IH] using rev_ind.
    - simpl. lia.
    - rewrite run2_snoc. set (s := run2f sched (init2 jobs n)) in *. simpl in IH.
      pose proof (inv_abs f fails e_of Stop done_on_exit cj cr jobs n sched) as I. fold s in I.
      destruct (inv_cons _ _ _ _ _ _ _ _ _ _ _ I) as (pr & Hp & _ & _). simpl in Hp.
      assert (Hbusy : forall l1 l2 j, ws2 s = l1 ++ Busy j :: l2 -> fails j = true).
      { intros l1 l2 j Hw. apply Hf. eapply Permutation_in; [symmetry; exact Hp|].
        apply in_or_app. right. apply in_or_app. left.
        unfold busy_jobs. simpl. rewrite Hw. rewrite flat_map_app. apply in_or_app. right.
        simpl. auto. }
      clearbody s.
      destruct a as [|[|[|i]]]; simpl.
      + unfold producer_step2. destruct (pending2 s) as [|j p] eqn:P; simpl;
          try rewrite P in IH; simpl in IH; [lia|].
        destruct (length (queue2 s) <? cj); simpl; rewrite ?P, ?app_length; simpl; lia.
      + unfold closer_step. destruct (forallb _ _); simpl; lia.
      + unfold caller_step. destruct (caller_done s); [lia|].
        destruct (rchan s); [destruct (closed_out s)|]; simpl; lia.
      + destruct (worker_step2_spec f fails e_of Stop done_on_exit cj cr s i) as
          [ | l1 l2 j q Hw Hi Q | l1 l2 j p Hw Hi Q C P | l1 l2 pd Hw Hi Q Cl Pd
            | l1 l2 j Hw Hi Hm L | l1 l2 j Hw Hi Hm C R D | l1 l2 j Hw Hi F O ];
          simpl; try lia; rewrite Hw in IH; rewrite ?nonidle_mid in *; simpl in *.
        * rewrite Q in IH. simpl in IH. lia.
        * rewrite P, Q in IH. simpl in IH. lia.
        * subst pd. rewrite Q in IH. simpl in IH. lia.
        * destruct Hm as [Hm|Hm]; [|discriminate]. rewrite (Hbusy _ _ _ Hw) in Hm. discriminate.
        * destruct Hm as [Hm|Hm]; [|discriminate]. rewrite (Hbusy _ _ _ Hw) in Hm. discriminate.
        * destruct done_on_exit; simpl; lia.
  Qed.

  (** every job erroneous, more jobs than workers + buffer slots: under every schedule the
      producer never finishes (never closes the job channel) *)
  Lemma stop_leak_unavoidable jobs n sched :
    (forall j, In j jobs -> fails j = true) -> n + cj < length jobs ->
    let s := run2f sched (init2 jobs n) in
    pending2 s <> [] /\ closed2 s = false.
  Proof.
    intros Hf Hlen s.
    pose proof (stop_leak_invariant jobs n Hf sched) as K. cbv zeta in K. fold s in K.
    pose proof (inv_abs f fails e_of Stop done_on_exit cj cr jobs n sched) as I. fold s in I.
    pose proof (inv_len _ _ _ _ _ _ _ _ _ _ _ I) as Hl. simpl in Hl.
    pose proof (inv_closed _ _ _ _ _ _ _ _ _ _ _ I) as Hc. simpl in Hc.
    destruct (inv2_reach f fails e_of Stop done_on_exit cj cr jobs n sched) as [Hq _ _ _]. fold s in Hq.
    pose proof (nonidle_le (ws2 s)).
    assert (P : pending2 s <> []) by (intros E; rewrite E in K; simpl in K; lia).
    split; auto. destruct (closed2 s); auto. exfalso. auto.
  Qed.

  (** a concrete way into the leak: one worker, unbuffered job channel, the first job is
      erroneous and there is a second one *)
  Lemma stop_leak_witness j1 j2 rest :
    fails j1 = true -> cj = 0 ->
    let s := run2f [3; 3] (init2 (j1 :: j2 :: rest) 1) in
    forallb (is_exited) (ws2 s) = done_on_exit /\ pending2 s = j2 :: rest /\ queue2 s = []
    /\ closed2 s = false /\ errs2 s = [e_of j1].
  Proof.
    intros F C. subst cj. simpl. unfold worker_step2. simpl. unfold worker_step2. simpl.
    rewrite F. simpl. destruct done_on_exit; auto.
  Qed.
End Pool2Stop.
