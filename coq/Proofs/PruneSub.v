(** C06: what [rm_sub] returns for a non-root subtree (by induction over the tree). *)
From Coq Require Import String ZArith QArith Bool Arith Lia List Permutation Setoid Morphisms.
From GT Require Import Base.UTree Spec.Obs Model.Reroot Spec.Unrooted Proofs.RerootBase Proofs.PruneBase
     Model.Prune Proofs.PruneStep.
Import ListNotations.
Local Close Scope Q_scope.
Local Arguments n_up : simpl never.
Local Arguments depths : simpl never.
Local Arguments pairdists : simpl never.
Local Arguments leaves : simpl never.
Local Arguments wf_sub : simpl never.
Local Arguments no_single_sub : simpl never.
Local Arguments merge_edge : simpl never.
Local Arguments reparent : simpl never.

Lemma NoDup_app_remove_l {A} (X Y : list A) : NoDup (X ++ Y) -> NoDup Y.
Proof. induction X; simpl; auto. intros H. inversion H; auto. Qed.
Lemma NoDup_app_remove_r {A} (X Y : list A) : NoDup (X ++ Y) -> NoDup X.
Proof.
  induction X as [|x X IH]; simpl; intros H; [constructor|].
  inversion H; subst. constructor; auto. intros Hx. apply H2. apply in_or_app. auto.
Qed.

Lemma NoDup_app_disj {A} (X Y : list A) a : NoDup (X ++ Y) -> In a X -> In a Y -> False.
Proof.
  induction X as [|x X IH]; simpl; intros H H1 H2; [tauto|].
  inversion H; subst. destruct H1 as [->|H1].
  - apply H4. apply in_or_app. auto.
  - eauto.
Qed.

Lemma NoDup_mid {A} (X Y Z : list A) a :
  NoDup (X ++ Y ++ Z) -> In a Y -> NoDup Y /\ ~ In a X /\ ~ In a Z.
Proof.
  intros H Ha. split; [|split].
  - apply NoDup_app_remove_l in H. now apply NoDup_app_remove_r in H.
  - intros Hx. eapply NoDup_app_disj; eauto. apply in_or_app. auto.
  - intros Hz. apply NoDup_app_remove_l in H. eapply NoDup_app_disj; eauto.
Qed.

Lemma n_up_nil : n_up (@nil slot) = 0.
Proof. reflexivity. Qed.

Lemma kleaves_cons p r : kleaves (p :: r) = leaves (snd p) ++ kleaves r.
Proof. reflexivity. Qed.

Section Sub.
  Variable nm : string.
  Notation w := len0.
  Notation k := (knm nm).

  Definition out_spec (t : utree) (o : outcome) : Prop :=
    match o with
    | ONotFound => ~ In nm (leaves t)
    | OKeep t' =>
      In nm (leaves t) /\ wf_sub t' = true /\ no_single_sub t' = true /\ kids t' <> [] /\
      deq (depths w t') (fD k (depths w t)) /\ dists_equiv (pairdists w t') (fP k (pairdists w t))
    | OGone => kids t = [] /\ uname t = nm
    | OSplice e c =>
      In nm (leaves t) /\ wf_sub c = true /\ no_single_sub c = true /\
      deq (shift (w e) (depths w c)) (fD k (depths w t)) /\ dists_equiv (pairdists w c) (fP k (pairdists w t))
    | OFail _ => False
    end.

  Lemma out_spec_in t o : out_spec t o -> o <> ONotFound -> In nm (leaves t).
  Proof.
    destruct o; simpl; try tauto.
    intros [H1 H2] _. destruct t as [n c sl]. unfold kids in H1. simpl in *.
    rewrite leaves_unfold, H1. subst. now left.
  Qed.

  (** ** the contribution of the child in which the tip was found *)
  Lemma contrib_keep e ch ch' :
    deq (depths w ch') (fD k (depths w ch)) -> dists_equiv (pairdists w ch') (fP k (pairdists w ch)) ->
    ceq (contrib_of w (e, ch')) (fC k (contrib_of w (e, ch))).
  Proof.
    intros H1 H2. split; simpl; auto.
    rewrite fD_shift. apply shift_deq; auto. reflexivity.
  Qed.

  Lemma contrib_gone e ch : kids ch = [] -> uname ch = nm -> fC k (contrib_of w (e, ch)) = ([], []).
  Proof.
    destruct ch as [n c sl]. unfold kids. simpl. intros H ->. unfold fC, contrib_of. simpl.
    rewrite depths_leaf, pairdists_agg, H by auto. simpl. now rewrite knm_false.
  Qed.

  Lemma contrib_splice e ch ec cc b1 b2 :
    deq (shift (w ec) (depths w cc)) (fD k (depths w ch)) ->
    dists_equiv (pairdists w cc) (fP k (pairdists w ch)) ->
    ceq (contrib_of w (merge_edge e ec b1 b2, reparent cc)) (fC k (contrib_of w (e, ch))).
  Proof.
    intros H1 H2. split; simpl.
    - rewrite reparent_depths, fD_shift.
      transitivity (shift (w e) (shift (w ec) (depths w cc))).
      + transitivity (shift (w e + w ec)%Q (depths w cc)).
        * apply shift_deq; [apply len0_merge | reflexivity].
        * symmetry. apply deq_Forall2, shift_shift.
      + apply shift_deq; auto. reflexivity.
    - now rewrite reparent_pairdists.
  Qed.

  (** ** searching the children of a node *)
  Definition hit_ok (t : utree) : Prop :=
    wf_sub t = true -> no_single_sub t = true -> NoDup (leaves t) -> out_spec t (hit nm (rm_sub nm) t).

  Lemma node_hit sl :
    Forall (fun s : slot => match s with Some (_, c) => hit_ok c | None => True end) sl ->
    forallb (fun p => wf_sub (snd p)) (kids_of sl) = true ->
    forallb (fun p => no_single_sub (snd p)) (kids_of sl) = true ->
    NoDup (kleaves (kids_of sl)) ->
    match first_hit (hit nm (rm_sub nm)) 0 sl with
    | None => ~ In nm (kleaves (kids_of sl))
    | Some (i, e, o) =>
      exists A ch B, sl = A ++ Some (e, ch) :: B /\ i = length A /\ out_spec ch o /\ o <> ONotFound /\
                     ~ In nm (kleaves (kids_of A)) /\ ~ In nm (kleaves (kids_of B)) /\ In nm (leaves ch) /\
                     wf_sub ch = true /\ no_single_sub ch = true /\ hit nm (rm_sub nm) ch = o
    end.
  Proof.
    intros IH Hw Hs Hnd. rewrite Forall_forall in IH.
    destruct (first_hit (hit nm (rm_sub nm)) 0 sl) as [[[i e] o]|] eqn:E.
    - destruct (first_hit_some _ _ _ _ _ _ E) as [A [ch [B [-> [-> [H1 [H2 H3]]]]]]].
      exists A, ch, B. rewrite kids_of_app, kids_of_cons_some in *.
      rewrite forallb_app in Hw, Hs. simpl in Hw, Hs.
      rewrite !andb_true_iff in Hw, Hs. destruct Hw as [_ [Hw _]]. destruct Hs as [_ [Hs _]].
      rewrite kleaves_app, kleaves_cons in Hnd. simpl snd in Hnd.
      assert (Hch : hit_ok ch).
      { apply (IH (Some (e, ch))). apply in_or_app. right. now left. }
      assert (Hnd' : NoDup (leaves ch)).
      { apply NoDup_app_remove_l in Hnd. now apply NoDup_app_remove_r in Hnd. }
      specialize (Hch Hw Hs Hnd'). rewrite H1 in Hch.
      assert (Hin : In nm (leaves ch)) by (eapply out_spec_in; eauto).
      destruct (NoDup_mid _ _ _ _ Hnd Hin) as [_ [Ha Hb]].
      repeat split; auto.
    - intros Hin. unfold kleaves in Hin. rewrite in_flat_map in Hin. destruct Hin as [[e c] [Hp Hin]].
      simpl in Hin. apply kids_of_In in Hp.
      generalize (first_hit_none _ _ _ E e c Hp). intros Hnf.
      assert (Hc : hit_ok c) by (apply (IH (Some (e, c))); auto).
      apply kids_of_In in Hp.
      rewrite forallb_forall in Hw, Hs. specialize (Hw _ Hp). specialize (Hs _ Hp). simpl in Hw, Hs.
      assert (Hnd' : NoDup (leaves c)).
      { clear -Hnd Hp. induction (kids_of sl) as [|q r IHr]; [destruct Hp|].
        rewrite kleaves_cons in Hnd. destruct Hp as [->|Hp].
        - now apply NoDup_app_remove_r in Hnd.
        - apply IHr; auto. now apply NoDup_app_remove_l in Hnd. }
      specialize (Hc Hw Hs Hnd'). rewrite Hnf in Hc. simpl in Hc. auto.
  Qed.
End Sub.

Section SubInd.
  Variable nm : string.
  Notation w := len0.
  Notation k := (knm nm).

  Ltac kidsplit :=
    repeat (rewrite ?kids_of_app, ?kids_of_cons_some, ?kids_of_cons_none, ?forallb_app, ?andb_true_iff,
            ?n_up_app, ?n_up_cons, ?n_up_nil, ?app_length, ?kleaves_app, ?kleaves_cons in *; simpl forallb in *; simpl snd in *;
            simpl length in *).

  Lemma rm_sub_ok : forall t, hit_ok nm t.
  Proof.
    induction t as [n c sl IH] using utree_ind'.
    intros Hwf Hns Hnd. unfold hit.
    rewrite wf_sub_unfold in Hwf. rewrite nss_unfold in Hns.
    apply andb_true_iff in Hwf. destruct Hwf as [Hup Hwk]. apply Nat.eqb_eq in Hup.
    apply andb_true_iff in Hns. destruct Hns as [Hlen Hsk]. apply negb_true_iff, Nat.eqb_neq in Hlen.
    destruct (is_tip (UNode n c sl) && String.eqb (uname (UNode n c sl)) nm) eqn:Etip.
    { (* the node is the tip *)
      apply andb_true_iff in Etip. destruct Etip as [E1 E2]. apply Nat.eqb_eq in E1. apply String.eqb_eq in E2.
      unfold degree in E1. simpl in E1, E2. simpl. split; auto. unfold kids. simpl.
      generalize (length_slots sl). rewrite E1, Hup. destruct (kids_of sl); simpl; auto. lia. }
    (* search below *)
    simpl rm_sub. change (fun ch : utree => rm_sub nm ch) with (rm_sub nm).
    assert (Hndk : kids_of sl <> [] -> NoDup (kleaves (kids_of sl))).
    { intros Hne. rewrite leaves_unfold in Hnd. destruct (kids_of sl); [congruence|auto]. }
    destruct (kids_of sl) as [|k0 kr] eqn:Ek.
    { (* no child: a tip with another name *)
      assert (El : length sl = 1) by (rewrite length_slots, Ek, Hup; reflexivity).
      destruct sl as [|[p|] [|s2 r]]; simpl in El; try lia; try (simpl in Ek; discriminate).
      simpl. intros [->|[]].
      unfold is_tip, degree in Etip. simpl in Etip. now rewrite String.eqb_refl in Etip. }
    rewrite <- Ek in *. assert (Hne : kids_of sl <> []) by (rewrite Ek; discriminate). clear Ek k0 kr.
    specialize (Hndk Hne).
    generalize (node_hit nm sl IH Hwk Hsk Hndk).
    destruct (first_hit (hit nm (rm_sub nm)) 0 sl) as [[[i e] o]|].
    2:{ intros Hnot. simpl. rewrite leaves_unfold. destruct (kids_of sl); [congruence|auto]. }
    intros [A [ch [B [-> [-> [Ho [Hnf [HA [HB [Hin [Hwch [Hsch Heqo]]]]]]]]]]]].
    assert (Hint : In nm (leaves (UNode n c (A ++ Some (e, ch) :: B)))).
    { rewrite leaves_unfold. kidsplit.
      destruct (kids_of A ++ (e, ch) :: kids_of B) eqn:E0; [destruct (kids_of A); discriminate|].
      rewrite !in_app_iff. auto. }
    assert (Dt : depths w (UNode n c (A ++ Some (e, ch) :: B)) =
                 aggD (contribs w (kids_of A ++ (e, ch) :: kids_of B))).
    { rewrite depths_agg; kidsplit; auto. }
    assert (Pt : pairdists w (UNode n c (A ++ Some (e, ch) :: B)) =
                 aggP (contribs w (kids_of A ++ (e, ch) :: kids_of B))).
    { rewrite pairdists_agg. now kidsplit. }
    kidsplit. destruct Hwk as [HwA [_ HwB]]. destruct Hsk as [HsA [_ HsB]].
    destruct o as [|ch'| |ec cc|m]; simpl in Ho.
    - congruence.
    - (* the surgery ended below *)
      destruct Ho as [_ [Hw' [Hs' [Hk' [HD HP]]]]].
      rewrite set_nth_app. simpl. rewrite Dt, Pt.
      destruct (agg_keep nm (kids_of A) (kids_of B) HA HB (e, ch) (e, ch') (contrib_keep nm e ch ch' HD HP)) as [G1 G2].
      repeat split; auto.
      + rewrite wf_sub_unfold. kidsplit. repeat split; auto. apply Nat.eqb_eq; lia.
      + rewrite nss_unfold. kidsplit. repeat split; auto. apply negb_true_iff, Nat.eqb_neq; lia.
      + unfold kids. simpl. kidsplit. destruct (kids_of A); discriminate.
      + rewrite depths_agg; kidsplit; auto; destruct (kids_of A); discriminate.
      + rewrite pairdists_agg. now kidsplit.
    - (* the child is the tip: Case 1 / 2 / 3 at this node *)
      destruct Ho as [Hk0 Hn0].
      rewrite remove_nth_app.
      destruct (agg_gone nm (kids_of A) (kids_of B) HA HB (e, ch) (contrib_gone nm e ch Hk0 Hn0)) as [G1 G2].
      rewrite <- Dt in G1. rewrite <- Pt in G2. rewrite <- kids_of_app in G1, G2.
      assert (HwL : forallb (fun p => wf_sub (snd p)) (kids_of (A ++ B)) = true) by (kidsplit; auto).
      assert (HsL : forallb (fun p => no_single_sub (snd p)) (kids_of (A ++ B)) = true) by (kidsplit; auto).
      assert (HuL : n_up (A ++ B) = 1) by (kidsplit; lia).
      assert (HlL : length (A ++ B) <> 1) by (kidsplit; lia).
      remember (A ++ B) as L. clear HeqL.
      destruct L as [|s1 [|s2 [|s3 L]]].
      + unfold n_up in HuL. simpl in HuL. lia.
      + simpl in HlL. lia.
      + destruct s1 as [[e1 c1]|], s2 as [[e2 c2]|]; rewrite ?n_up_cons in HuL; unfold n_up in HuL; simpl in HuL; try lia.
        * (* [Some; None] *)
          simpl after_del_sub. simpl. simpl in HwL, HsL. rewrite andb_true_r in HwL, HsL.
          unfold aggD, aggP, contrib_of in G1, G2. simpl in G1, G2. rewrite app_nil_r in G1. rewrite app_nil_r in G2.
          repeat split; auto.
        * simpl after_del_sub. simpl. simpl in HwL, HsL. rewrite andb_true_r in HwL, HsL.
          unfold aggD, aggP, contrib_of in G1, G2. simpl in G1, G2. rewrite app_nil_r in G1. rewrite app_nil_r in G2.
          repeat split; auto.
      + assert (Hk3 : kids_of (s1 :: s2 :: s3 :: L) <> []).
        { intros E0. generalize (length_slots (s1 :: s2 :: s3 :: L)). rewrite E0, HuL. simpl. lia. }
        assert (E3 : after_del_sub nm n c (s1 :: s2 :: s3 :: L) = OKeep (UNode n c (s1 :: s2 :: s3 :: L))).
        { destruct s1 as [[? ?]|], s2 as [[? ?]|]; reflexivity. }
        rewrite E3. simpl. repeat split; auto.
        * rewrite wf_sub_unfold, HuL, HwL. reflexivity.
        * rewrite nss_unfold, HsL. reflexivity.
        * rewrite depths_agg; auto.
        * rewrite pairdists_agg; auto.
    - (* the child was suppressed: reconnect its remaining child here *)
      destruct Ho as [_ [Hw' [Hs' [HD HP]]]].
      unfold splice. rewrite remove_nth_app. simpl. rewrite Dt, Pt.
      set (e' := merge_edge e ec (Nat.ltb 1 (length (A ++ Some (e, ch) :: B))) (Nat.ltb 1 (degree cc))).
      destruct (agg_move nm (kids_of A) (kids_of B) HA HB (e, ch) (e', reparent cc)
                         (contrib_splice nm e ch ec cc _ _ HD HP)) as [G1 G2].
      repeat split; auto.
      + rewrite wf_sub_unfold. kidsplit. repeat split; auto using reparent_wf_sub. apply Nat.eqb_eq; lia.
      + rewrite nss_unfold. kidsplit. repeat split; auto using reparent_nss. apply negb_true_iff, Nat.eqb_neq; lia.
      + unfold kids. simpl. kidsplit. destruct (kids_of A ++ kids_of B); discriminate.
      + rewrite depths_agg; kidsplit; auto; destruct (kids_of A ++ kids_of B); discriminate.
      + rewrite pairdists_agg. now kidsplit.
    - destruct Ho.
  Qed.
End SubInd.
