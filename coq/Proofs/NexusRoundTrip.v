(** Token-level round trip of the Nexus writer and parser (Model/Nexus.v), without translate
    table: the parser reads back from the text of [write_nexus] the taxon labels, the tree
    names and -- token by token -- the Newick strings the writer embedded, and hands them to
    the single-tree Newick parser.  The Newick writer [wnewick] and parser [nparse] are
    parameters; what is required of the embedded strings is stated on their bytes. *)
From Coq Require Import String Ascii ZArith Bool Arith Lia List.
From GT Require Import Base.Sexp Base.UTree Spec.Obs Model.Nexus Proofs.NexusLex Proofs.NexusWords.
Import ListNotations.
Local Open Scope string_scope.

Definition nl : string := String "010" "".
Definition cat (l : list string) : string := fold_right append "" l.

Lemma concat_with_empty : forall l, concat_with "" l = cat l.
Proof.
  induction l as [|x r IH]; [reflexivity|].
  destruct r as [|y r']; simpl in *; [rewrite app_nil_r_s; reflexivity|]. rewrite <- IH. reflexivity.
Qed.

Lemma length_app_s : forall a b : string, String.length (a ++ b) = String.length a + String.length b.
Proof. induction a; simpl; intros; auto. Qed.

Ltac tk := cbv beta iota zeta delta [tok_eqb tok_id Nat.eqb negb orb andb is_err tree_tok].
Ltac len := repeat rewrite length_app_s in *; simpl String.length in *; lia.
Ltac fuel1 f := destruct f as [|f]; [exfalso; len|].

(** a label: one token, an identifier or a number *)
Definition label_ok (s : string) : Prop := word s = true /\ (classify s = IDENT \/ classify s = NUMERIC).

(** * scanning the fixed parts of the text *)
Lemma sc_nexus : forall x, scan_iw ("#NEXUS" ++ x) = (if delim x then (NEXUS, "#NEXUS", x) else scan_iw ("#NEXUS" ++ x)).
Proof. intros x. destruct (delim x) eqn:D; [|reflexivity]. rewrite scan_iw_word; [reflexivity|reflexivity|exact D|reflexivity]. Qed.

Lemma sc_nl : forall x, scan_iw (nl ++ x) = (ENDOFLINE, "", x).
Proof. reflexivity. Qed.
Lemma sc_semi : forall x, scan_iw (";" ++ x) = (ENDOFCOMMAND, ";", x).
Proof. reflexivity. Qed.
Lemma sc_begin_taxa : forall x, scan_iw ("BEGIN TAXA;" ++ x) = (BEGIN, "BEGIN", " TAXA;" ++ x).
Proof. reflexivity. Qed.
Lemma sc_taxa : forall x, scan_iw (" TAXA;" ++ x) = (TAXA, "TAXA", ";" ++ x).
Proof. reflexivity. Qed.
Lemma sc_begin_trees : forall x, scan_iw ("BEGIN TREES;" ++ x) = (BEGIN, "BEGIN", " TREES;" ++ x).
Proof. reflexivity. Qed.
Lemma sc_trees : forall x, scan_iw (" TREES;" ++ x) = (TREES, "TREES", ";" ++ x).
Proof. reflexivity. Qed.
Lemma sc_dimensions : forall x, scan_iw (" DIMENSIONS NTAX=" ++ x) = (DIMENSIONS, "DIMENSIONS", " NTAX=" ++ x).
Proof. reflexivity. Qed.
Lemma sc_ntax : forall x, scan_iw (" NTAX=" ++ x) = (NTAX, "NTAX", "=" ++ x).
Proof. reflexivity. Qed.
Lemma sc_equal : forall x, scan_iw ("=" ++ x) = (EQUAL, "=", x).
Proof. reflexivity. Qed.
Lemma sc_taxlabels_sp : forall x, scan_iw (" TAXLABELS " ++ x) = (TAXLABELS, "TAXLABELS", " " ++ x).
Proof. reflexivity. Qed.
Lemma sc_taxlabels_semi : forall x, scan_iw (" TAXLABELS;" ++ x) = (TAXLABELS, "TAXLABELS", ";" ++ x).
Proof. reflexivity. Qed.
Lemma sc_end : forall x, scan_iw ("END;" ++ x) = (END, "END", ";" ++ x).
Proof. reflexivity. Qed.
Lemma sc_tree_kw : forall x, scan_iw ("  TREE tree" ++ x) = (TREE, "TREE", " tree" ++ x).
Proof. reflexivity. Qed.
Lemma sc_eq_sp : forall x, scan_iw (" = " ++ x) = (EQUAL, "=", " " ++ x).
Proof. reflexivity. Qed.
Lemma sc_comma : forall x, scan_iw ("," ++ x) = (COMMA, ",", x).
Proof. reflexivity. Qed.
Lemma sc_eof : scan_iw "" = (EOF, "", "").
Proof. reflexivity. Qed.

(** * TAXLABELS *)
Definition labels_text (labels : list string) : string := cat (map (fun n => " " ++ n) labels).

Lemma delim_labels : forall labels rest, delim (labels_text labels ++ ";" ++ rest) = true.
Proof. intros [|l r] rest; reflexivity. Qed.

Lemma taxa_labels_spec : forall labels acc fuel rest,
    Forall label_ok labels ->
    String.length (labels_text labels ++ ";" ++ rest) < fuel ->
    taxa_labels fuel acc None (labels_text labels ++ ";" ++ rest) =
    Ret (fold_left (fun a n => set_add n a) labels acc) None rest.
Proof.
  induction labels as [|l r IH]; intros acc fuel rest HF Hf.
  - fuel1 fuel. cbn [taxa_labels labels_text map cat fold_right append fold_left].
    change (String ";" rest) with (";" ++ rest). rewrite sc_semi. tk. reflexivity.
  - inversion HF as [|? ? [Hw Hc] Hr]; subst.
    fuel1 fuel. cbn [taxa_labels fold_left].
    change (labels_text (l :: r)) with ((" " ++ l) ++ labels_text r).
    rewrite !app_assoc_s.
    rewrite (scan_iw_blanks_word " " l (labels_text r ++ ";" ++ rest) eq_refl Hw (delim_labels r rest)).
    assert (Hf' : String.length (labels_text r ++ ";" ++ rest) < fuel).
    { change (labels_text (l :: r)) with ((" " ++ l) ++ labels_text r) in Hf. len. }
    destruct Hc as [Hc|Hc]; rewrite Hc; tk; apply IH; assumption.
Qed.

(** without duplicates the set is the list *)
Lemma set_add_new : forall l x, ~ In x l -> set_add x l = (l ++ [x])%list.
Proof.
  induction l as [|y l IH]; intros x H; simpl; [reflexivity|].
  destruct (String.eqb y x) eqn:E.
  - apply String.eqb_eq in E. subst. exfalso. apply H. left. reflexivity.
  - rewrite IH; [reflexivity|]. intros C. apply H. right. exact C.
Qed.

Lemma fold_set_add : forall labels acc,
    NoDup (acc ++ labels)%list -> fold_left (fun a n => set_add n a) labels acc = (acc ++ labels)%list.
Proof.
  induction labels as [|l r IH]; intros acc H; simpl; [rewrite app_nil_r; reflexivity|].
  rewrite set_add_new.
  - rewrite IH; [rewrite <- app_assoc; reflexivity|]. rewrite <- app_assoc. exact H.
  - intros C. apply NoDup_remove_2 in H. apply H. apply in_or_app. left. exact C.
Qed.

(** * the TAXA block *)
Definition taxa_text (n : nat) (labels : list string) (rest : string) : string :=
  nl ++ " DIMENSIONS NTAX=" ++ itoa n ++ ";" ++ nl ++ " TAXLABELS" ++ labels_text labels ++ ";" ++ nl ++ "END;" ++ rest.

Lemma taxa_dims_spec : forall n fuel ntax rest,
    (Z.of_nat n < two63)%Z ->
    String.length (" NTAX=" ++ itoa n ++ ";" ++ rest) < fuel ->
    taxa_dims fuel ntax None false (" NTAX=" ++ itoa n ++ ";" ++ rest) = Ret (Z.of_nat n, false) None rest.
Proof.
  intros n fuel ntax rest Hn Hf.
  fuel1 fuel. cbn [taxa_dims]. rewrite sc_ntax. tk. rewrite sc_equal.
  rewrite (scan_iw_word (itoa n) (";" ++ rest) (itoa_word n) eq_refl (classify_not_ws _)).
  rewrite (itoa_classify n Hn). tk. rewrite (itoa_parse_int n Hn).
  fuel1 fuel. cbn [taxa_dims]. rewrite sc_semi. tk. reflexivity.
Qed.

Lemma sc_taxlabels : forall x, delim x = true -> scan_iw (" TAXLABELS" ++ x) = (TAXLABELS, "TAXLABELS", x).
Proof. intros x D. apply (scan_iw_blanks_word " " "TAXLABELS" x eq_refl eq_refl D). Qed.

Lemma parse_taxa_spec : forall n labels fuel rest,
    (Z.of_nat n < two63)%Z -> Forall label_ok labels -> NoDup labels ->
    String.length (taxa_text n labels rest) < fuel ->
    parse_taxa fuel (-1)%Z [] None (taxa_text n labels rest) = Ret (Z.of_nat n, labels) None rest.
Proof.
  intros n labels fuel rest Hn HL ND Hf. unfold taxa_text in *.
  fuel1 fuel. cbn [parse_taxa]. rewrite sc_nl. tk.
  fuel1 fuel. cbn [parse_taxa]. rewrite sc_dimensions. tk.
  rewrite taxa_dims_spec; [|exact Hn|len]. tk.
  fuel1 fuel. cbn [parse_taxa]. rewrite sc_nl. tk.
  fuel1 fuel. cbn [parse_taxa]. rewrite (sc_taxlabels _ (delim_labels labels _)). tk.
  rewrite taxa_labels_spec; [|exact HL|len]. tk.
  rewrite (fold_set_add labels [] ND). simpl app.
  fuel1 fuel. cbn [parse_taxa]. rewrite sc_nl. tk.
  fuel1 fuel. cbn [parse_taxa]. rewrite sc_end. tk. rewrite sc_semi. tk. reflexivity.
Qed.

Lemma word_length : forall w, word w = true -> 1 <= String.length w.
Proof. intros [|c w] H; [discriminate H|simpl; lia]. Qed.

(** * the Newick string of a TREE command: words separated by commas *)
(** a word the TREE command accepts *)
Definition tword (s : string) : Prop := word s = true /\ (classify s = IDENT \/ classify s = NUMERIC).

Definition tail_text (ws : list string) (rest : string) : string :=
  fold_right (fun w acc => "," ++ w ++ acc) (";" ++ rest) ws.
Definition body_of (w0 : string) (ws : list string) : string := w0 ++ cat (map (fun w => "," ++ w) ws).

Lemma delim_tail : forall ws rest, delim (tail_text ws rest) = true.
Proof. intros [|w r] rest; reflexivity. Qed.

Lemma tail_text_length : forall ws rest, String.length rest < String.length (tail_text ws rest).
Proof.
  induction ws as [|w r IH]; intros rest; simpl; [lia|].
  rewrite length_app_s. specialize (IH rest). lia.
Qed.

Lemma tree_tokens_spec : forall ws w fuel rest,
    tword w -> Forall tword ws ->
    String.length (tail_text ws rest) + 1 < fuel ->
    tree_tokens fuel (classify w) w (tail_text ws rest) = Ret (inl (body_of w ws)) None rest.
Proof.
  induction ws as [|w' r IH]; intros w fuel rest [Hw Hc] HF Hf.
  - fuel1 fuel. cbn [tree_tokens tail_text fold_right].
    assert (E : tree_tokens fuel ENDOFCOMMAND ";" rest = Ret (inl "") None rest).
    { fuel1 fuel. reflexivity. }
    destruct Hc as [Hc|Hc]; rewrite Hc; tk; rewrite sc_semi; rewrite E;
      unfold body_of; simpl; rewrite app_nil_r_s; reflexivity.
  - inversion HF as [|? ? Hw' Hr]; subst.
    fuel1 fuel. cbn [tree_tokens tail_text fold_right].
    assert (E : tree_tokens fuel COMMA "," (w' ++ tail_text r rest) =
                Ret (inl ("," ++ body_of w' r)) None rest).
    { fuel1 fuel. cbn [tree_tokens]. tk.
      destruct Hw' as [Hw1 Hw2].
      rewrite (scan_iw_word w' (tail_text r rest) Hw1 (delim_tail r rest) (classify_not_ws _)).
      rewrite (IH w' fuel rest (conj Hw1 Hw2) Hr); [reflexivity|].
      cbn [tail_text fold_right] in Hf. fold (tail_text r rest) in Hf.
      pose proof (word_length w' Hw1). len. }
    fold (tail_text r rest).
    destruct Hc as [Hc|Hc]; rewrite Hc; tk; rewrite sc_comma; rewrite E;
      unfold body_of; simpl; rewrite ?app_assoc_s; reflexivity.
Qed.

(** * the TREES block *)
Lemma tree_name_word : forall id, word ("tree" ++ itoa id) = true.
Proof.
  intros id. unfold word. apply andb_true_iff. split; [reflexivity|].
  simpl. eapply all_chars_impl; [apply digit_is_wchar|apply itoa_digits].
Qed.

Lemma tree_name_classify : forall id, classify ("tree" ++ itoa id) = IDENT.
Proof.
  intros id. pose proof (itoa_digits id) as D. pose proof (itoa_nonempty id) as NE.
  destruct (itoa id) as [|d ds]; [contradiction NE; reflexivity|].
  simpl in D. apply andb_true_iff in D. destruct D as [Dd _].
  destruct d as [b0 b1 b2 b3 b4 b5 b6 b7].
  destruct b0, b1, b2, b3, b4, b5, b6, b7; try discriminate Dd; destruct ds; reflexivity.
Qed.

Lemma sc_tree_name : forall id y, delim y = true ->
    scan_iw (" tree" ++ itoa id ++ y) = (IDENT, "tree" ++ itoa id, y).
Proof.
  intros id y D.
  change (" tree" ++ itoa id ++ y) with (" " ++ ("tree" ++ itoa id) ++ y).
  rewrite (scan_iw_blanks_word " " ("tree" ++ itoa id) y eq_refl (tree_name_word id) D).
  rewrite tree_name_classify. reflexivity.
Qed.

(** one TREE command: id, first word and the other words of its Newick string *)
Definition entry : Type := (nat * string * list string)%type.
Definition entry_ok (e : entry) : Prop := let '(_, w0, ws) := e in tword w0 /\ Forall tword ws.
Definition entry_name (e : entry) : string := let '(id, _, _) := e in "tree" ++ itoa id.
Definition entry_body (e : entry) : string := let '(_, w0, ws) := e in body_of w0 ws.

Fixpoint lines_text (es : list entry) (rest : string) : string :=
  match es with
  | [] => rest
  | (id, w0, ws) :: r => "  TREE tree" ++ itoa id ++ " = " ++ w0 ++ tail_text ws (nl ++ lines_text r rest)
  end.

Lemma parse_trees_spec : forall es st fuel rest,
    Forall entry_ok es ->
    String.length (lines_text es ("END;" ++ rest)) < fuel ->
    parse_trees fuel st None (lines_text es ("END;" ++ rest)) =
    Ret (mkTS (tnames st ++ map entry_name es) (tstrings st ++ map entry_body es) (ttable st)) None rest.
Proof.
  induction es as [|[[id w0] ws] r IH]; intros st fuel rest HF Hf.
  - cbn [lines_text] in *. fuel1 fuel. cbn [parse_trees]. rewrite sc_end. tk. rewrite sc_semi. tk.
    destruct st. simpl. rewrite !app_nil_r. reflexivity.
  - inversion HF as [|? ? Hok Hr]; subst. cbn in Hok. destruct Hok as [[Hw Hc] Hws].
    cbn [lines_text] in *.
    fuel1 fuel. cbn [parse_trees]. rewrite sc_tree_kw. tk.
    rewrite sc_tree_name by reflexivity. tk. rewrite sc_eq_sp. tk.
    rewrite (scan_iw_blanks_word " " w0 _ eq_refl Hw (delim_tail ws _)).
    pose proof (tree_tokens_spec ws w0 fuel (nl ++ lines_text r ("END;" ++ rest)) (conj Hw Hc) Hws) as TT.
    assert (TT' : tree_tokens fuel (classify w0) w0 (tail_text ws (nl ++ lines_text r ("END;" ++ rest))) =
                  Ret (inl (body_of w0 ws)) None (nl ++ lines_text r ("END;" ++ rest))) by (apply TT; len).
    clear TT.
    destruct Hc as [Hc|Hc]; rewrite Hc in *; tk; rewrite TT';
    (cbv beta iota zeta;
     fuel1 fuel; cbn [parse_trees]; rewrite sc_nl; tk;
     rewrite IH; [|exact Hr|];
     [ cbn [tnames tstrings ttable map entry_name entry_body]; rewrite <- !app_assoc; reflexivity
     | pose proof (tail_text_length ws (nl ++ lines_text r ("END;" ++ rest))); len ]).
Qed.

(** * the whole document *)
Definition doc_text (n : nat) (labels : list string) (es : list entry) : string :=
  "#NEXUS" ++ nl ++ "BEGIN TAXA;" ++
  taxa_text n labels (nl ++ "BEGIN TREES;" ++ nl ++ lines_text es ("END;" ++ nl)).

Definition doc_state (n : nat) (labels : list string) (es : list entry) : nexus_st :=
  mkNS (Z.of_nat n) (Some labels) (Some (map entry_name es, map entry_body es)) None None "*"%char "-"%char
       (map (fun _ => None) (map entry_name es)).

Lemma sc_nl0 : scan_iw nl = (ENDOFLINE, "", "").
Proof. reflexivity. Qed.

Section Doc.
  Variable nparse : string -> utree + string.

  Theorem parse_doc_text : forall n labels es fuel,
      (Z.of_nat n < two63)%Z -> Forall label_ok labels -> NoDup labels -> Forall entry_ok es ->
      String.length (doc_text n labels es) + 2 <= fuel ->
      nexus_parse_fuel nparse fuel (doc_text n labels es) = finish nparse (doc_state n labels es).
  Proof.
    intros n labels es fuel Hn HL ND HE Hf. unfold nexus_parse_fuel, doc_text in *.
    rewrite (scan_iw_word "#NEXUS") by reflexivity.
    change (classify "#NEXUS") with NEXUS. tk.
    fuel1 fuel. cbn [main_loop]. rewrite sc_nl. tk.
    fuel1 fuel. cbn [main_loop]. rewrite sc_begin_taxa. tk. rewrite sc_taxa. rewrite sc_semi. tk.
    rewrite parse_taxa_spec; [|exact Hn|exact HL|exact ND|unfold taxa_text in *; len]. tk.
    fuel1 fuel. cbn [main_loop]. rewrite sc_nl. tk.
    fuel1 fuel. cbn [main_loop]. rewrite sc_begin_trees. tk. rewrite sc_trees. rewrite sc_semi. tk.
    assert (PT : parse_trees fuel (mkTS [] [] (ns_table nexus0)) None (nl ++ lines_text es ("END;" ++ nl)) =
                 Ret (mkTS (map entry_name es) (map entry_body es) None) None nl).
    { fuel1 fuel. cbn [parse_trees]. rewrite sc_nl. tk.
      rewrite parse_trees_spec; [reflexivity|exact HE|unfold taxa_text in *; len]. }
    cbn [ns_table nexus0 ns_taxantax ns_taxlabels ns_trees ns_data ns_missing ns_gap ns_tabs] in *.
    rewrite PT. tk. cbn [tnames tstrings ttable app prev_trees ns_trees fst snd].
    fuel1 fuel. cbn [main_loop]. rewrite sc_nl0. tk.
    fuel1 fuel. cbn [main_loop]. rewrite sc_eof. tk. reflexivity.
  Qed.
End Doc.

(** * splitting a Newick string at its commas (always possible; rejoining gives it back) *)
Fixpoint comma_split (s : string) : string * list string :=
  match s with
  | EmptyString => (EmptyString, [])
  | String c r => let '(w0, ws) := comma_split r in
                  if Ascii.eqb c "," then (EmptyString, w0 :: ws) else (String c w0, ws)
  end.

Lemma comma_split_join : forall s, body_of (fst (comma_split s)) (snd (comma_split s)) = s.
Proof.
  induction s as [|c r IH]; [reflexivity|]. simpl.
  destruct (comma_split r) as [w0 ws]. simpl in IH.
  destruct (Ascii.eqb c ",") eqn:E.
  - apply Ascii.eqb_eq in E. subst c. unfold body_of in *. simpl. f_equal. exact IH.
  - unfold body_of in *. simpl. f_equal. exact IH.
Qed.

(** the string without its final ';' *)
Fixpoint chop_semi (s : string) : option string :=
  match s with
  | EmptyString => None
  | String c EmptyString => if Ascii.eqb c ";" then Some EmptyString else None
  | String c r => match chop_semi r with Some b => Some (String c b) | None => None end
  end.

Lemma chop_semi_app : forall s b, chop_semi s = Some b -> s = b ++ ";".
Proof.
  induction s as [|c r IH]; intros b H; simpl in H; [discriminate|].
  destruct r as [|c2 r2].
  - destruct (Ascii.eqb c ";") eqn:E; [|discriminate]. apply Ascii.eqb_eq in E. inversion H; subst. reflexivity.
  - destruct (chop_semi (String c2 r2)) as [b'|] eqn:E; [|discriminate]. inversion H; subst.
    simpl. rewrite (IH b' eq_refl). reflexivity.
Qed.

Definition tword_b (w : string) : bool :=
  word w && (tok_eqb (classify w) IDENT || tok_eqb (classify w) NUMERIC).

Lemma tword_b_ok : forall w, tword_b w = true -> tword w.
Proof.
  intros w H. unfold tword_b in H. apply andb_true_iff in H. destruct H as [H1 H2].
  split; [exact H1|]. apply orb_true_iff in H2. destruct H2 as [H2|H2]; apply tok_eqb_true in H2; auto.
Qed.

(** a Newick text the Nexus scanner reads back token by token inside a TREE command: it ends
    with ';', and what is in front of the ';' is, split at the commas, a list of non-empty
    words (identifier bytes only: no blank, line break, bracket, '=', ';', NUL) none of which
    is a Nexus keyword *)
Definition newick_ok (s : string) : bool :=
  match chop_semi s with
  | Some b => let '(w0, ws) := comma_split b in tword_b w0 && forallb tword_b ws
  | None => false
  end.

Definition entry_of (id : nat) (s : string) : entry :=
  match chop_semi s with
  | Some b => (id, fst (comma_split b), snd (comma_split b))
  | None => (id, "", [])
  end.

Lemma newick_ok_entry : forall id s, newick_ok s = true ->
    entry_ok (entry_of id s) /\ s = entry_body (entry_of id s) ++ ";".
Proof.
  intros id s H. unfold newick_ok, entry_of in *.
  destruct (chop_semi s) as [b|] eqn:C; [|discriminate].
  pose proof (comma_split_join b) as J. destruct (comma_split b) as [w0 ws]. simpl in *.
  apply andb_true_iff in H. destruct H as [H1 H2]. split.
  - split; [apply tword_b_ok; exact H1|]. apply Forall_forall. intros x Hx.
    apply tword_b_ok. rewrite forallb_forall in H2. apply H2. exact Hx.
  - rewrite J. apply chop_semi_app. exact C.
Qed.

Lemma body_tail : forall ws w0 rest, body_of w0 ws ++ ";" ++ rest = w0 ++ tail_text ws rest.
Proof.
  intros ws w0 rest. unfold body_of. rewrite app_assoc_s. f_equal.
  induction ws as [|w r IH]; [reflexivity|].
  cbn [map cat fold_right tail_text]. fold (tail_text r rest). fold (cat (map (fun w => "," ++ w) r)).
  rewrite !app_assoc_s. rewrite IH. reflexivity.
Qed.

(** * the writer's text is such a document *)
Section Writer.
  Variable wnewick : utree -> string.

  Definition tree_line (p : nat * utree) : string :=
    "  TREE tree" ++ itoa (fst p) ++ " = " ++ wnewick (snd p) ++ nl.

  Definition final_map (l : list (nat * utree)) (m : list (string * string)) : list (string * string) :=
    fold_left (fun m p => add_tips (all_tip_names (snd p)) m) l m.

  Lemma write_trees_false : forall l m,
      write_trees wnewick false m l = (final_map l m, cat (map tree_line l)).
  Proof.
    induction l as [|[id t] r IH]; intros m; simpl; [reflexivity|].
    rewrite IH. unfold renamed. reflexivity.
  Qed.

  Definition entries_of (l : list (nat * utree)) : list entry :=
    map (fun p => entry_of (fst p) (wnewick (snd p))) l.

  Lemma lines_of_trees : forall l rest,
      Forall (fun p => newick_ok (wnewick (snd p)) = true) l ->
      cat (map tree_line l) ++ rest = lines_text (entries_of l) rest.
  Proof.
    induction l as [|[id t] r IH]; intros rest H; [reflexivity|].
    inversion H as [|? ? Hp Hr]; subst. cbn [snd] in Hp.
    destruct (newick_ok_entry id (wnewick t) Hp) as [_ Hb].
    cbn [map cat fold_right]. fold (cat (map tree_line r)).
    unfold entries_of. cbn [map fst snd]. fold (entries_of r).
    destruct (entry_of id (wnewick t)) as [[id' w0] ws] eqn:E.
    assert (id' = id).
    { unfold entry_of in E. destruct (chop_semi (wnewick t)); inversion E; reflexivity. }
    subst id'. cbn [entry_body] in Hb.
    cbn [lines_text]. unfold tree_line at 1. cbn [fst snd].
    rewrite !app_assoc_s. rewrite (IH rest Hr).
    rewrite Hb. rewrite !app_assoc_s.
    rewrite <- (body_tail ws w0). reflexivity.
  Qed.

  Theorem write_nexus_doc_text : forall l,
      Forall (fun p => newick_ok (wnewick (snd p)) = true) l ->
      write_nexus wnewick false l =
      doc_text (length (final_map l [])) (ssort (map fst (final_map l []))) (entries_of l).
  Proof.
    intros l H. unfold write_nexus. rewrite write_trees_false.
    unfold doc_text, taxa_text, labels_text. rewrite concat_with_empty.
    rewrite <- (lines_of_trees l ("END;" ++ nl) H).
    reflexivity.
  Qed.
End Writer.
