(** Sequence reconstruction agrees site by site with single-character reconstruction
    (unambiguous nucleotide alignments, either case): the sequence variant at site j is the
    character variant run on the states "A" "C" "G" "T" "-" found at that site, its vectors
    embedded in the fixed six-letter alphabet. *)
From Coq Require Import String Ascii ZArith QArith Bool Arith Lia List Sorted OrderedTypeEx.
From GT Require Import Base.UTree Spec.Obs Spec.Parsimony Model.Reroot Model.Parsimony
     Proofs.ParsimonyVec Proofs.ParsimonyHartigan Proofs.ParsimonyReroot Proofs.ParsimonyMain
     Proofs.ParsimonyCtx Proofs.ParsimonyDown Proofs.ParsimonyFinal Proofs.ParsimonyTips
     Proofs.ParsimonyUnamb Proofs.ParsimonyDeltran Proofs.ParsimonyInst Proofs.ParsimonyEmbed.
Import ListNotations.
Local Close Scope Q_scope.

(** * the sorted alphabet has no duplicates *)
Definition slt (a b : string) : Prop := String.compare a b = Lt.

Lemma slt_trans : forall a b c, slt a b -> slt b c -> slt a c.
Proof.
  unfold slt. intros a b c H1 H2.
  apply String_as_OT.cmp_lt. apply String_as_OT.cmp_lt in H1. apply String_as_OT.cmp_lt in H2.
  eapply String_as_OT.lt_trans; eauto.
Qed.

Lemma slt_irrefl : forall a, ~ slt a a.
Proof.
  unfold slt. intros a H. pose proof (String.compare_antisym a a) as Q. rewrite H in Q. discriminate.
Qed.

Lemma sinsert_sorted : forall y l, StronglySorted slt l -> StronglySorted slt (sinsert y l).
Proof.
  induction l as [|z l IH]; intros Hs; simpl.
  - constructor; constructor.
  - inversion Hs; subst.
    destruct (String.compare y z) eqn:E.
    + exact Hs.
    + constructor; [exact Hs|]. constructor; [exact E|].
      eapply Forall_impl; [|exact H2]. intros w Hw. eapply slt_trans; eauto.
    + constructor; [apply IH; exact H1|].
      apply Forall_forall. intros w Hw. apply In_sinsert in Hw. destruct Hw as [Hw|Hw].
      * subst w. unfold slt. rewrite String.compare_antisym, E. reflexivity.
      * rewrite Forall_forall in H2. apply H2. exact Hw.
Qed.

Lemma sset_sorted : forall l, StronglySorted slt (sset l).
Proof. induction l; simpl; [constructor|]. unfold sset in *. simpl. apply sinsert_sorted. exact IHl. Qed.

Lemma sorted_NoDup : forall l, StronglySorted slt l -> NoDup l.
Proof.
  induction 1; constructor; auto.
  intro Hin. rewrite Forall_forall in H0. apply (slt_irrefl a). apply H0. exact Hin.
Qed.

Lemma sset_NoDup : forall l, NoDup (sset l).
Proof. intros. apply sorted_NoDup. apply sset_sorted. Qed.

(** * the five unambiguous characters *)
Local Open Scope char_scope.
Definition unamb_chars : list ascii := ["A"; "C"; "G"; "T"; "-"].

Definition nt_index (c : ascii) : nat :=
  if Ascii.eqb c "A" then 0 else if Ascii.eqb c "C" then 1 else if Ascii.eqb c "G" then 2
  else if Ascii.eqb c "T" then 3 else if Ascii.eqb c "-" then 4 else 5.
Local Close Scope char_scope.

Definition code (s : string) : nat := match s with String c _ => nt_index c | EmptyString => 5 end.
Definition unamb_state (s : string) : Prop := exists c, s = String c EmptyString /\ In c unamb_chars.

Lemma nt_index_lt : forall c, In c unamb_chars -> nt_index c < 6.
Proof. intros c H. simpl in H. repeat (destruct H as [H|H]; [subst; vm_compute; lia|]). destruct H. Qed.

Lemma nt_index_inj : forall c d, In c unamb_chars -> In d unamb_chars -> nt_index c = nt_index d -> c = d.
Proof.
  intros c d Hc Hd. simpl in Hc, Hd.
  repeat (destruct Hc as [Hc|Hc]; [subst c; repeat (destruct Hd as [Hd|Hd]; [subst d; vm_compute; intros Q; try reflexivity; discriminate|]); destruct Hd|]).
  destruct Hc.
Qed.

Lemma nt_vec_unamb : forall c, In (upper c) unamb_chars -> nt_vec c = onehot 6 (nt_index (upper c)).
Proof.
  intros c H. unfold nt_vec. remember (upper c) as u. clear Hequ. simpl in H.
  repeat (destruct H as [H|H]; [subst u; vm_compute; reflexivity|]). destruct H.
Qed.

(** * embedding a single state *)
Lemma embed_onehot : forall pi k2 i q, NoDup pi -> (forall j, In j pi -> j < k2) ->
  nth_error pi i = Some q -> embed pi k2 (onehot (length pi) i) = onehot k2 q.
Proof.
  intros pi k2 i q Hnd Hlt Hq.
  assert (Hi : i < length pi) by (apply nth_error_Some; congruence).
  assert (Hq2 : q < k2) by (apply Hlt; eapply nth_error_In; eauto).
  symmetry. apply embed_ext; [apply onehot_length|].
  intros j Hj. rewrite nth_onehot by exact Hq2. unfold E.
  destruct (find_idx j pi) as [i'|] eqn:F.
  - pose proof (find_idx_some pi j i' F) as F'.
    assert (i' < length pi) by (apply nth_error_Some; congruence).
    rewrite nth_onehot by exact Hi.
    destruct (Nat.eqb j q) eqn:E1; destruct (Nat.eqb i' i) eqn:E2; try reflexivity.
    + apply Nat.eqb_eq in E1. subst j. rewrite (find_idx_nth pi i q Hnd Hq) in F. inversion F; subst.
      rewrite Nat.eqb_refl in E2. discriminate.
    + apply Nat.eqb_eq in E2. subst i'. rewrite Hq in F'. inversion F'; subst. rewrite Nat.eqb_refl in E1. discriminate.
  - destruct (Nat.eqb j q) eqn:E1; [|reflexivity].
    apply Nat.eqb_eq in E1. subst j. rewrite (find_idx_nth pi i q Hnd Hq) in F. discriminate.
Qed.

Lemma index_of_nth : forall s l i, index_of s l = Some i -> nth_error l i = Some s.
Proof.
  induction l as [|x l IH]; intros i H; simpl in H; [discriminate|].
  destruct (String.eqb x s) eqn:E.
  - inversion H; subst. apply String.eqb_eq in E. subst. reflexivity.
  - destruct (index_of s l) as [i'|]; [|discriminate]. inversion H; subst. simpl. apply IH. reflexivity.
Qed.

(** * ACCTRAN: skipping tip children or rewriting them is the same when tips hold one state *)
Lemma acctran_skip : forall k vt v',
  (forall v, In v (vtips vt) -> forall p, good k p -> refine p v = v) ->
  good k v' -> vall (good k) vt -> acctran false v' vt = acctran true v' vt.
Proof.
  induction vt using vtree_ind'. intros v' Hst Gv' Hg.
  apply vall_node in Hg. destruct Hg as [Gv Gk].
  simpl. f_equal. apply map_ext_in. intros c Hc.
  rewrite Forall_forall in H, Gk.
  assert (Hsub : forall w, In w (vtips c) -> In w (vtips (VNode v ks))).
  { intros w Hw. simpl. destruct ks as [|k0 ks']; [destruct Hc|]. apply in_flat_map. eauto. }
  assert (Gc : good k (vroot c)) by (apply vall_root; apply Gk; exact Hc).
  assert (Earg : refine v' (vroot c) = if is_vtip c then vroot c else refine v' (vroot c)).
  { destruct c as [vc [|c1 kc]]; simpl; [|reflexivity].
    apply Hst; [|exact Gv']. apply Hsub. simpl. left. reflexivity. }
  rewrite <- Earg.
  apply (H c Hc); [intros w Hw; apply Hst; apply Hsub; exact Hw | apply refine_good; assumption | apply Gk; exact Hc].
Qed.

(** * the site *)
Local Open Scope string_scope.

(** the states of the character run at site j: the upper-cased character of every sequence *)
Definition site_map (aln : list (string * string)) (j : nat) : list (string * string) :=
  flat_map (fun p => match string_nth j (snd p) with
                     | Some c => [(fst p, String (upper c) "")]
                     | None => [] end) aln.

Lemma lookup_site_map_gen : forall (l : list (string * string)) j n s c,
  (forall k w, In (k, w) l -> exists cw, string_nth j w = Some cw) ->
  lookup n l = Some s -> string_nth j s = Some c ->
  lookup n (site_map l j) = Some (String (upper c) "").
Proof.
  induction l as [|[k w] l IH]; intros j n s c Hall Hl Hc; simpl in *; [discriminate|].
  destruct (Hall k w (or_introl eq_refl)) as [cw Hcw]. rewrite Hcw. simpl.
  destruct (String.eqb k n) eqn:E.
  - inversion Hl; subst. rewrite Hcw in Hc. inversion Hc; subst. reflexivity.
  - apply (IH j n s c); auto. intros k0 w0 H0. apply (Hall k0 w0). right. exact H0.
Qed.

Section Site.
Variable aln : list (string * string).
Variable j : nat.
Variable t : utree.
Hypothesis Hwf : wf t = true.
Hypothesis Hdeg : 2 <= degree t.
(** the alignment has a character at site j for every sequence, and it is unambiguous *)
Hypothesis Hsite : forall n s, In (n, s) aln -> exists c, string_nth j s = Some c /\ In (upper c) unamb_chars.
(** every tip has a sequence *)
Hypothesis Htips : forall n, In n (leaves t) -> exists s, lookup n aln = Some s.

Notation m := (site_map aln j).
Notation alpha := (acr_alphabet m).
Definition site_pi : list nat := map code alpha.

Lemma lookup_In_pair : forall A n (l : list (string * A)) v, lookup n l = Some v -> In (n, v) l.
Proof.
  induction l as [|[k w] l IH]; intros v H; simpl in *; [discriminate|].
  destruct (String.eqb k n) eqn:E; [apply String.eqb_eq in E; inversion H; subst; left; reflexivity | right; auto].
Qed.

Lemma lookup_site_map : forall n s c, lookup n aln = Some s -> string_nth j s = Some c ->
  lookup n m = Some (String (upper c) "").
Proof.
  intros n s c. apply lookup_site_map_gen.
  intros k w Hkw. destruct (Hsite k w Hkw) as [cw [Hcw _]]. eauto.
Qed.

Lemma site_states_unamb : forall st, In st (map snd m) -> unamb_state st.
Proof.
  intros st H. apply in_map_iff in H. destruct H as [[n s'] [Es Hin]]. simpl in Es. subst s'.
  unfold site_map in Hin. apply in_flat_map in Hin. destruct Hin as [[k w] [Hkw Hin]]. simpl in Hin.
  destruct (Hsite k w Hkw) as [c [Hc Hu]]. rewrite Hc in Hin. destruct Hin as [Q|[]]. inversion Q; subst.
  exists (upper c). split; [reflexivity | exact Hu].
Qed.

Lemma alpha_unamb : forall st, In st alpha -> unamb_state st.
Proof. intros st H. apply site_states_unamb. unfold acr_alphabet in H. apply (proj1 (In_sset _ _)) in H. exact H. Qed.

Lemma site_pi_lt : forall q, In q site_pi -> q < 6.
Proof.
  intros q H. unfold site_pi in H. apply in_map_iff in H. destruct H as [st [Eq Hst]]. subst q.
  destruct (alpha_unamb st Hst) as [c [Es Hc]]. subst st. simpl. apply nt_index_lt. exact Hc.
Qed.

Lemma site_pi_NoDup : NoDup site_pi.
Proof.
  unfold site_pi.
  assert (Hnd : NoDup alpha) by apply sset_NoDup.
  assert (Hu : forall st, In st alpha -> unamb_state st) by apply alpha_unamb.
  induction alpha as [|a l IH]; simpl; [constructor|].
  inversion Hnd; subst. constructor.
  - intro Hin. apply in_map_iff in Hin. destruct Hin as [b [Eb Hb]].
    destruct (Hu a (or_introl eq_refl)) as [ca [Ea Hca]]. destruct (Hu b (or_intror Hb)) as [cb [Ebb Hcb]].
    subst a b. simpl in Eb. apply H1. rewrite (nt_index_inj ca cb Hca Hcb (eq_sym Eb)). exact Hb.
  - apply IH; [exact H2 | intros st Hst; apply Hu; right; exact Hst].
Qed.

Lemma site_pi_length : length site_pi = length alpha.
Proof. unfold site_pi. apply map_length. Qed.

Lemma site_tips_emb : tips_emb site_pi 6 (acr_tipvec m alpha) (asr_tipvec aln j) t.
Proof.
  intros n Hn. destruct (Htips n Hn) as [s Hs].
  destruct (Hsite n s (lookup_In_pair _ n aln s Hs)) as [c [Hc Hu]].
  pose proof (lookup_site_map n s c Hs Hc) as Hm.
  assert (Hin : In (String (upper c) "") alpha).
  { unfold acr_alphabet. apply In_sset. eapply lookup_In; eauto. }
  destruct (index_of_In _ _ Hin) as [i [Hi Hl]].
  unfold acr_tipvec, asr_tipvec. rewrite Hm, Hi, Hs, Hc. rewrite site_pi_length.
  split.
  - split; [apply onehot_length|]. split.
    + intros x. rewrite nth_onehot by exact Hl. destruct (Nat.eqb x i); lia.
    + exists i. rewrite nth_onehot by exact Hl. rewrite Nat.eqb_refl. reflexivity.
  - rewrite nt_vec_unamb by exact Hu.
    rewrite <- site_pi_length. symmetry.
    apply embed_onehot; [apply site_pi_NoDup | apply site_pi_lt|].
    unfold site_pi. rewrite nth_error_map, (index_of_nth _ _ _ Hi). reflexivity.
Qed.

Lemma site_tips_map : forall n, In n (leaves t) -> exists s, lookup n m = Some s.
Proof.
  intros n Hn. destruct (Htips n Hn) as [s Hs].
  destruct (Hsite n s (lookup_In_pair _ n aln s Hs)) as [c [Hc _]].
  eexists. eapply lookup_site_map; eauto.
Qed.

(** the character variant (which rewrites tip children in ACCTRAN) computes the same as with
    tips skipped *)
Lemma acr_skip_irrelevant : forall a,
  parsimony false (acr_tipvec m alpha) (length alpha) a t = parsimony true (acr_tipvec m alpha) (length alpha) a t.
Proof.
  intros a. destruct a; try reflexivity.
  pose proof (acr_tips m t site_tips_map) as Htok. unfold acr_tv, acr_k in Htok.
  destruct (root_facts _ _ _ t Hwf Hdeg Htok) as [Htip _].
  pose proof (uppass_good_root _ _ _ t Hwf Hdeg Htok) as Gu.
  unfold parsimony. rewrite Htip.
  destruct (uppass (acr_tipvec m alpha) (length alpha) t) as [u s] eqn:Eu. simpl in *. f_equal.
  apply (acctran_skip (length alpha)); [| apply vall_root; exact Gu | exact Gu].
  intros w Hw p Gp.
  replace u with (fst (uppass (acr_tipvec m alpha) (length alpha) t)) in Hw by (rewrite Eu; reflexivity).
  destruct (uppass_vtips _ _ t w (or_intror (conj Hwf Hdeg)) Hw) as [n [Hn En]]. subst w.
  destruct (site_tips_map n Hn) as [st Hst].
  assert (Hin : In st alpha) by (unfold acr_alphabet; apply In_sset; eapply lookup_In; eauto).
  destruct (index_of_In _ _ Hin) as [i [Hi Hl]].
  unfold acr_tipvec. rewrite Hst, Hi. apply refine_onehot; assumption.
Qed.

(** C12: the sequence variant at site j is the character variant on the states of that site
    (steps equal; every vector is the character variant's, embedded in the six-letter alphabet of the sequence variant) *)
Theorem site_agreement : forall a,
  parsimony true (asr_tipvec aln j) 6 a t
  = emb_res site_pi 6 (parsimony false (acr_tipvec m alpha) (length alpha) a t).
Proof.
  intros a. rewrite acr_skip_irrelevant. rewrite <- site_pi_length.
  apply parsimony_embed; auto.
  - apply site_pi_NoDup.
  - apply site_pi_lt.
  - apply site_tips_emb.
Qed.

Corollary site_steps_agree : forall a,
  snd (parsimony true (asr_tipvec aln j) 6 a t) = snd (parsimony false (acr_tipvec m alpha) (length alpha) a t).
Proof. intros a. rewrite site_agreement. reflexivity. Qed.

End Site.
