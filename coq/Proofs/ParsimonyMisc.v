(** Two documented behaviours of the model:
    - a tip without any state (a character outside the IUPAC table in a nucleotide alignment:
      X . ? and the star) adds exactly one step at its parent and nothing to the parent's vector;
    - the returned map of ParsimonyAcr keeps, for a key, the states of the LAST inner node
      (pre-order) with that key. *)
From Coq Require Import String Ascii ZArith QArith Bool Arith Lia List.
From GT Require Import Base.Sexp Base.UTree Spec.Obs Spec.Parsimony Model.Reroot Model.Parsimony
     Proofs.ParsimonyVec Proofs.ParsimonyHartigan Proofs.ParsimonyReroot Proofs.ParsimonyCtx.
Import ListNotations.
Local Close Scope Q_scope.

(** * a tip without state *)
Lemma vadd_vzero : forall k a, length a = k -> vadd a (vzero k) = a.
Proof.
  induction k; intros [|x a] H; simpl in *; try discriminate; auto.
  f_equal; [lia | apply IHk; lia].
Qed.

Lemma fold_remove_zero : forall k l j acc, length acc = k -> nth_error l j = Some (vzero k) ->
  fold_left vadd l acc = fold_left vadd (remove_nth j l) acc.
Proof.
  induction l as [|v l IH]; intros j acc La H; [destruct j; discriminate|].
  destruct j; simpl in *.
  - inversion H; subst. rewrite vadd_vzero by reflexivity. reflexivity.
  - apply IH; [rewrite vadd_length; exact La | exact H].
Qed.

Lemma sumc_remove : forall rs j r, nth_error rs j = Some r -> sumc rs = sumc (remove_nth j rs) + snd r.
Proof.
  induction rs as [|a rs IH]; intros j r H; [destruct j; discriminate|].
  destruct j; simpl in *; [inversion H; subst; lia | rewrite (IH j r H); lia].
Qed.

Lemma filter_remove : forall A (f : A -> bool) l j a, nth_error l j = Some a -> f a = true ->
  length (filter f l) = S (length (filter f (remove_nth j l))).
Proof.
  induction l as [|x l IH]; intros j a H Hf; [destruct j; discriminate|].
  destruct j; simpl in *.
  - inversion H; subst. rewrite Hf. reflexivity.
  - destruct (f x); simpl; rewrite (IH j a H Hf); reflexivity.
Qed.

Lemma set_nth_len : forall A (l : list A) i x, length (set_nth i x l) = length l.
Proof.
  induction l as [|a l IH]; intros i x.
  - unfold set_nth. destruct i; reflexivity.
  - destruct i; [reflexivity|]. change (set_nth (S i) x (a :: l)) with (a :: set_nth i x l). simpl. f_equal. apply IH.
Qed.

(** removing a stateless tip child leaves the vector of the node unchanged and removes
    exactly one step *)
Theorem stateless_tip_costs_one_step : forall tv k n cm sl i e d,
  nth_error sl i = Some (Some (e, d)) ->
  Nat.eqb (length (uslots d)) 1 = true -> tv (uname d) = vzero k ->
  Nat.eqb (length sl) 1 = false ->
  vroot (fst (uppass tv k (UNode n cm sl))) = vroot (fst (uppass tv k (UNode n cm (set_nth i None sl)))) /\
  snd (uppass tv k (UNode n cm sl)) = S (snd (uppass tv k (UNode n cm (set_nth i None sl)))).
Proof.
  intros tv k n cm sl i e d Hi Hd Hz Hnt.
  rewrite !uppass_unfold, set_nth_len, Hnt. cbv zeta.
  rewrite (kid_results_set_nth tv k sl i e d Hi).
  set (rs := kid_results tv k sl). set (j := kidx sl i).
  assert (Hr : nth_error rs j = Some (VNode (vzero k) [], 0)).
  { unfold rs, j. rewrite (kid_results_nth tv k sl i e d Hi). destruct d as [nd cd sld]. simpl in Hd, Hz.
    rewrite uppass_unfold, Hd, Hz. reflexivity. }
  assert (Hv : nth_error (kvecs rs) j = Some (vzero k)).
  { unfold kvecs. rewrite nth_error_map, Hr. reflexivity. }
  assert (Hk : kvecs (remove_nth j rs) = remove_nth j (kvecs rs)) by (unfold kvecs; apply map_remove_nth).
  assert (Hsum : vsum k (kvecs rs) = vsum k (kvecs (remove_nth j rs))).
  { rewrite Hk. unfold vsum. apply (fold_remove_zero k); [apply vzero_length | exact Hv]. }
  simpl fst. simpl snd. simpl vroot. rewrite <- Hsum. split; [reflexivity|].
  rewrite (sumc_remove rs j _ Hr). simpl snd. rewrite Hk.
  rewrite (filter_remove _ _ (kvecs rs) j (vzero k) Hv); [rewrite Nat.add_0_r, Nat.add_succ_r; reflexivity|].
  rewrite nth_vzero. reflexivity.
Qed.

(** the characters of a nucleotide alignment that are not in the IUPAC table give such a tip *)
Lemma nt_vec_unknown : forall c, iupac (upper c) = [] -> nt_vec c = vzero 6.
Proof. intros c H. unfold nt_vec. rewrite H. reflexivity. Qed.

Local Open Scope char_scope.
Example unknown_characters_have_no_state :
  nt_vec "X" = vzero 6 /\ nt_vec "." = vzero 6 /\ nt_vec "?" = vzero 6 /\ nt_vec "*" = vzero 6 /\
  nt_vec "x" = vzero 6.
Proof. vm_compute. repeat split; reflexivity. Qed.
Local Close Scope char_scope.

(** * the returned map: last inner node wins *)
Lemma lookup_assoc_set : forall A k k' (v : A) m,
  lookup k (assoc_set k' v m) = if String.eqb k' k then Some v else lookup k m.
Proof.
  induction m as [|[q w] m IH]; simpl.
  - reflexivity.
  - destruct (String.eqb k' q) eqn:E.
    + apply String.eqb_eq in E. subst q. simpl. destruct (String.eqb k' k); reflexivity.
    + simpl. destruct (String.eqb q k) eqn:E2.
      * apply String.eqb_eq in E2. subst q. rewrite E. reflexivity.
      * exact IH.
Qed.

Lemma lookup_app : forall A k (a b : list (string * A)),
  lookup k (a ++ b) = match lookup k a with Some v => Some v | None => lookup k b end.
Proof.
  induction a as [|[q w] a IH]; intros b; simpl; [reflexivity|].
  destruct (String.eqb q k); [reflexivity | apply IH].
Qed.

Lemma lookup_fold_set : forall A (es : list (string * A)) acc k,
  lookup k (fold_left (fun acc p => assoc_set (fst p) (snd p) acc) es acc)
  = match lookup k (rev es) with Some v => Some v | None => lookup k acc end.
Proof.
  induction es as [|[q w] es IH]; intros acc k; simpl; [reflexivity|].
  rewrite IH, lookup_app, lookup_assoc_set. simpl.
  destruct (lookup k (rev es)); [reflexivity|]. destruct (String.eqb q k); reflexivity.
Qed.

Local Open Scope string_scope.
(** the (key, states) pairs of the inner nodes, in pre-order *)
Definition map_entries (t : utree) (alpha : list string) (vs : list vec) : list (string * string) :=
  flat_map (fun p => let '(i, n, v) := p in
                     if is_tip n then []
                     else [(if String.eqb (uname n) "" then string_of_nat i else uname n,
                            concat_with "," (ssort (states_of alpha v)))])
           (combine (combine (seq 0 (length vs)) (nodes t)) vs).

Lemma acr_map_of_entries : forall t alpha vs,
  acr_map_of t alpha vs = fold_left (fun acc p => assoc_set (fst p) (snd p) acc) (map_entries t alpha vs) [].
Proof.
  intros. unfold acr_map_of, map_entries.
  set (E := fun p : nat * utree * vec =>
              let '(i, n, v) := p in
              if is_tip n then []
              else [(if String.eqb (uname n) "" then string_of_nat i else uname n,
                     concat_with "," (ssort (states_of alpha v)))]).
  assert (G : forall l (acc : list (string * string)),
            fold_left (fun acc p => let '(i, n, v) := p in
                                    if is_tip n then acc
                                    else assoc_set (if String.eqb (uname n) "" then string_of_nat i else uname n)
                                                   (concat_with "," (ssort (states_of alpha v))) acc) l acc
            = fold_left (fun acc p => assoc_set (fst p) (snd p) acc) (flat_map E l) acc).
  { induction l as [|[[i n] v] l IH]; intros acc; simpl; [reflexivity|].
    destruct (is_tip n); simpl; apply IH. }
  apply G.
Qed.

(** buildInternalNamesToStatesMap: when several inner nodes have the same key (same name, or a
    name equal to the id of an unnamed node) the map holds the states of the last one *)
Theorem acr_map_last_wins : forall t alpha vs key,
  lookup key (acr_map_of t alpha vs) = lookup key (rev (map_entries t alpha vs)).
Proof.
  intros. rewrite acr_map_of_entries, lookup_fold_set. simpl.
  destruct (lookup key (rev (map_entries t alpha vs))); reflexivity.
Qed.

Lemma assoc_set_keys : forall A k (v : A) m, NoDup (map fst m) -> NoDup (map fst (assoc_set k v m)).
Proof.
  induction m as [|[q w] m IH]; intros H; simpl.
  - constructor; [intros [] | constructor].
  - inversion H; subst. destruct (String.eqb k q) eqn:E.
    + apply String.eqb_eq in E. subst q. simpl. constructor; assumption.
    + simpl. constructor; [|apply IH; assumption].
      intro Hin. apply H2.
      clear -Hin E. induction m as [|[q' w'] m IHm]; simpl in *.
      * destruct Hin as [Q|[]]. subst. rewrite String.eqb_refl in E. discriminate.
      * destruct (String.eqb k q') eqn:E'.
        -- apply String.eqb_eq in E'. subst q'. simpl in Hin. exact Hin.
        -- simpl in Hin. destruct Hin as [Q|Q]; [left; exact Q | right; apply IHm; exact Q].
Qed.

(** every key occurs once in the returned map *)
Theorem acr_map_keys_unique : forall t alpha vs, NoDup (map fst (acr_map_of t alpha vs)).
Proof.
  intros. rewrite acr_map_of_entries.
  assert (G : forall es acc, NoDup (map fst acc) ->
              NoDup (map fst (fold_left (fun acc (p : string * string) => assoc_set (fst p) (snd p) acc) es acc))).
  { induction es as [|p es IH]; intros acc H; simpl; [exact H|]. apply IH. apply assoc_set_keys. exact H. }
  apply G. constructor.
Qed.
