(** Heap model, UnRoot, part 1: the labelled-tree side and the generic re-attachment lemma:
    once the bifurcating root [r] is gone and its two neighbours [a], [b] are joined by the
    fresh edge [e3] (a -> b), the heap is the labelled tree rooted at [a]. *)
From Coq Require Import String ZArith QArith Bool Arith Lia Permutation List.
From GT Require Import Base.UTree Model.Reroot Model.Heap Proofs.Enum Proofs.HeapBase Proofs.HeapRep
     Proofs.HeapGood Proofs.HeapGoodRep Proofs.HeapRerootL Proofs.HeapReorder.
Import ListNotations.
Local Close Scope Q_scope.

Fixpoint ldrop_up (sl : list lslot) : list lslot :=
  match sl with
  | [] => []
  | None :: r => r
  | s :: r => s :: ldrop_up r
  end.

Lemma erase_drop_up sl : map erase_slot (ldrop_up sl) = drop_up (map erase_slot sl).
Proof. induction sl as [|[[[e ei] ch]|] sl IH]; cbn; [reflexivity| |reflexivity]. f_equal. exact IH. Qed.

Lemma in_ldrop_up sl s : In s (ldrop_up sl) -> In s sl.
Proof.
  induction sl as [|[[[e ei] ch]|] sl IH]; cbn; [tauto| |tauto].
  intros [<-|H]; [left; reflexivity|right; exact (IH H)].
Qed.

Lemma lnup_drop_up sl : lnup (ldrop_up sl) = pred (lnup sl).
Proof.
  unfold lnup. induction sl as [|[[[e ei] ch]|] sl IH]; cbn; [reflexivity|exact IH|reflexivity].
Qed.

Lemma lnup_app sl1 sl2 : lnup (sl1 ++ sl2) = lnup sl1 + lnup sl2.
Proof. unfold lnup. rewrite filter_app, app_length. reflexivity. Qed.

Lemma sids_drop_up sl : sids (ldrop_up sl) = sids sl.
Proof. unfold sids. induction sl as [|[[[e ei] ch]|] sl IH]; cbn; [reflexivity| |reflexivity]. f_equal. exact IH. Qed.
Lemma seids_drop_up sl : seids (ldrop_up sl) = seids sl.
Proof. unfold seids. induction sl as [|[[[e ei] ch]|] sl IH]; cbn; [reflexivity| |reflexivity]. f_equal. f_equal. exact IH. Qed.

Lemma del_nth_S {A} i (a : A) l : del_nth (S i) (a :: l) = a :: del_nth i l.
Proof. reflexivity. Qed.
Lemma del_nth_0 {A} (a : A) l : del_nth 0 (a :: l) = l.
Proof. reflexivity. Qed.

Lemma del_nth_length {A} i (l : list A) : i < length l -> S (length (del_nth i l)) = length l.
Proof.
  revert i. induction l as [|a l IH]; intros i H; [cbn in H; lia|]. destruct i as [|i]; [reflexivity|].
  rewrite del_nth_S. cbn [length] in *. rewrite IH; [reflexivity|lia].
Qed.

(** dropping the parent slot on both sides: delNeighbor(parent) *)
Lemma drop_up_Forall2 (P : nat * nat -> lslot -> Prop) r : forall sl neigh br,
  length neigh = length br -> Forall2 P (combine neigh br) sl ->
  (forall j x, nth_error neigh j = Some x -> (x = r <-> nth_error sl j = Some None)) ->
  In None sl ->
  exists i, index_of r neigh = Some i /\ i < length br /\
            Forall2 P (combine (del_nth i neigh) (del_nth i br)) (ldrop_up sl).
Proof.
  induction sl as [|s sl IH]; intros neigh br Hl F Hr Hin; [destruct Hin|].
  destruct neigh as [|x neigh], br as [|b br]; cbn in Hl; try lia; cbn [combine] in F; inversion F as [|? ? ? ? F0 F1]; subst.
  destruct s as [[[e ei] ch]|].
  - destruct Hin as [E|Hin]; [discriminate|].
    destruct (IH neigh br) as [i (I1 & I2 & I3)]; [lia|exact F1| |exact Hin|].
    + intros j y Hj. apply (Hr (S j) y Hj).
    + exists (S i). cbn [index_of].
      destruct (Nat.eqb_spec x r) as [E|_].
      * exfalso. pose proof (proj1 (Hr 0 x eq_refl) E) as H0. discriminate.
      * rewrite I1. split; [reflexivity|]. split; [cbn; lia|]. rewrite !del_nth_S. cbn [combine ldrop_up]. constructor; assumption.
  - exists 0. cbn [index_of]. assert (x = r) as -> by (apply (Hr 0 x eq_refl); reflexivity).
    rewrite Nat.eqb_refl. split; [reflexivity|]. split; [cbn; lia|]. rewrite !del_nth_0. exact F1.
Qed.

Lemma combine_app_eq {A B} (l1 l2 : list A) (m1 m2 : list B) : length l1 = length m1 ->
  combine (l1 ++ l2) (m1 ++ m2) = combine l1 m1 ++ combine l2 m2.
Proof.
  revert m1. induction l1 as [|a l1 IH]; intros [|b m1] H; cbn in *; try lia; [reflexivity|]. f_equal. apply IH. lia.
Qed.

Lemma sids_app sl1 sl2 : sids (sl1 ++ sl2) = sids sl1 ++ sids sl2.
Proof. unfold sids. apply flat_map_app. Qed.
Lemma seids_app sl1 sl2 : seids (sl1 ++ sl2) = seids sl1 ++ seids sl2.
Proof. unfold seids. apply flat_map_app. Qed.

(** UnRoot's new edge: length and support as tree.go:1489-1494 *)
Definition unroot_info (ei1 ei2 : einfo) (n1tip n2tip : bool) : einfo :=
  mkE (if negb (qeqb (elen ei1) nilv) || negb (qeqb (elen ei2) nilv)
       then (qmax 0%Q (elen ei1) + qmax 0%Q (elen ei2))%Q else nilv)
      (if negb n1tip && negb n2tip && (negb (qeqb (esup ei1) nilv) || negb (qeqb (esup ei2) nilv))
       then qmax (qmax 0%Q (esup ei1)) (qmax 0%Q (esup ei2)) else nilv)
      nilv [].

Definition lunroot (e3 : nat) (lt : ltree) : ltree :=
  match lt with
  | LNode _ _ _ [Some (e1, ei1, LNode n1 nm1 cm1 sl1); Some (e2, ei2, LNode n2 nm2 cm2 sl2)] =>
    let n1tip := Nat.eqb (length sl1) 1 in
    let n2tip := Nat.eqb (length sl2) 1 in
    let e3i := unroot_info ei1 ei2 n1tip n2tip in
    if n1tip
    then LNode n2 nm2 cm2 (ldrop_up sl2 ++ [Some (e3, e3i, LNode n1 nm1 cm1 (ldrop_up sl1 ++ [None]))])
    else LNode n1 nm1 cm1 (ldrop_up sl1 ++ [Some (e3, e3i, LNode n2 nm2 cm2 (ldrop_up sl2 ++ [None]))])
  | _ => lt
  end.

Lemma erase_lunroot e3 lt : erase (lunroot e3 lt) = unroot (erase lt).
Proof.
  destruct lt as [i n c sl]. destruct sl as [|[[[e1 ei1] [n1 nm1 cm1 sl1]]|] [|[[[e2 ei2] [n2 nm2 cm2 sl2]]|] [|s3 sl]]]; try reflexivity.
  - cbn [lunroot]. rewrite !erase_eq. cbn [map erase_slot]. rewrite !erase_eq. cbn [unroot]. rewrite !map_length.
    unfold unroot_info. destruct (Nat.eqb (length sl1) 1); rewrite erase_eq, map_app, erase_drop_up; cbn [map erase_slot];
      rewrite erase_eq, map_app, erase_drop_up; reflexivity.
Qed.

(** * the heap after UnRoot, described by its lookups *)
Record unroot_desc (h h' : heap) (r a b ea eb e3 : nat) (Xa Xb : hnode) (e3i : einfo) : Prop := {
  ud_nodes : forall x, alookup x (hnodes h') =
             if Nat.eqb x r then None else if Nat.eqb x a then Some Xa else if Nat.eqb x b then Some Xb
             else alookup x (hnodes h);
  ud_edges : forall e, alookup e (hedges h') =
             if Nat.eqb e ea then None else if Nat.eqb e eb then None else if Nat.eqb e e3 then Some (mkHE a b e3i)
             else alookup e (hedges h);
  ud_root : hroot h' = a;
  ud_nextn : hnextn h' = hnextn h;
  ud_nexte : hnexte h' = S e3
}.

Lemma neigh_iff_none (h : heap) (r : nat) x e0 hn sl : Forall2 (slot_ok true h (Some (r, e0)) x) (slots_of hn) sl ->
    length (hneigh hn) = length (hbr hn) -> (forall y, In y (sids sl) -> y <> r) ->
    forall j y, nth_error (hneigh hn) j = Some y -> (y = r <-> nth_error sl j = Some None).
  Proof.
    intros F Hl Hr j y Hj.
    rewrite <- (slots_of_fst hn Hl), nth_error_map in Hj.
    destruct (nth_error (slots_of hn) j) as [[y' e']|] eqn:E; [|discriminate]. cbn in Hj. injection Hj as ->.
    destruct (Forall2_nth _ _ _ _ _ F E) as [s [Hs Hok]]. rewrite Hs.
    destruct s as [[[e ei] ch]|]; cbn [slot_ok fst snd] in Hok.
    - destruct Hok as (_ & _ & B3 & _). split; [|discriminate]. intros ->. exfalso.
      apply (Hr (lid ch)); [|exact B3]. eapply in_sids; [eapply nth_error_In; exact Hs|apply lid_in_lids].
    - injection Hok as -> ->. split; reflexivity.
  Qed.


Section Generic.
  Variables (h h' : heap) (r a b ea eb e3 : nat).
  Variables (nma nmb : string) (cma cmb : list string) (sla slb : list lslot).
  Variables (hna hnb : hnode) (ia ib : nat) (e3i : einfo).

  Hypothesis Ha : alookup a (hnodes h) = Some hna.
  Hypothesis Hb : alookup b (hnodes h) = Some hnb.
  Hypothesis Hnma : hname hna = nma.   Hypothesis Hcma : hcom hna = cma.
  Hypothesis Hnmb : hname hnb = nmb.   Hypothesis Hcmb : hcom hnb = cmb.
  Hypothesis Hlena : length (hneigh hna) = length (hbr hna).
  Hypothesis Hlenb : length (hneigh hnb) = length (hbr hnb).
  Hypothesis Fa : Forall2 (slot_ok true h (Some (r, ea)) a) (slots_of hna) sla.
  Hypothesis Fb : Forall2 (slot_ok true h (Some (r, eb)) b) (slots_of hnb) slb.
  Hypothesis Hupa : lnup sla = 1.
  Hypothesis Hupb : lnup slb = 1.
  Hypothesis Hka : forall e ei ch, In (Some (e, ei, ch)) sla -> lwf_sub ch.
  Hypothesis Hkb : forall e ei ch, In (Some (e, ei, ch)) slb -> lwf_sub ch.
  Hypothesis Hnd : NoDup (r :: a :: b :: sids sla ++ sids slb).
  Hypothesis Hned : NoDup (ea :: eb :: seids sla ++ seids slb).
  Hypothesis Hdomn : forall x, alookup x (hnodes h) <> None <-> In x (r :: a :: b :: sids sla ++ sids slb).
  Hypothesis Hdome : forall e, alookup e (hedges h) <> None <-> In e (ea :: eb :: seids sla ++ seids slb).
  Hypothesis Hfn : forall x, alookup x (hnodes h) <> None -> x < hnextn h.
  Hypothesis Hfe : forall e, alookup e (hedges h) <> None -> e < hnexte h.
  Hypothesis He3 : e3 = hnexte h.
  Hypothesis Hia : index_of r (hneigh hna) = Some ia.
  Hypothesis Hib : index_of r (hneigh hnb) = Some ib.

  Let Xa := mkHN (hname hna) (hcom hna) (del_nth ia (hneigh hna) ++ [b]) (del_nth ia (hbr hna) ++ [e3]).
  Let Xb := mkHN (hname hnb) (hcom hnb) (del_nth ib (hneigh hnb) ++ [a]) (del_nth ib (hbr hnb) ++ [e3]).
  Hypothesis D : unroot_desc h h' r a b ea eb e3 Xa Xb e3i.

  Let Tb := LNode b nmb cmb (ldrop_up slb ++ [None]).
  Let lt' := LNode a nma cma (ldrop_up sla ++ [Some (e3, e3i, Tb)]).

  Lemma e3_fresh e : alookup e (hedges h) <> None -> e <> e3.
  Proof. intros H. apply Hfe in H. lia. Qed.

  Lemma G_in_sids_a x : In x (sids sla) -> x <> r /\ x <> a /\ x <> b.
  Proof.
    intros Hx. pose proof Hnd as N0; apply NoDup_cons_iff in N0; destruct N0 as [N1 N2]; apply NoDup_cons_iff in N2; destruct N2 as [N3 N4]; apply NoDup_cons_iff in N4; destruct N4 as [N5 N6].
    repeat split; intros ->.
    - apply N1. right. right. apply in_or_app. left. exact Hx.
    - apply N3. right. apply in_or_app. left. exact Hx.
    - apply N5. apply in_or_app. left. exact Hx.
  Qed.
  Lemma G_in_sids_b x : In x (sids slb) -> x <> r /\ x <> a /\ x <> b.
  Proof.
    intros Hx. pose proof Hnd as N0; apply NoDup_cons_iff in N0; destruct N0 as [N1 N2]; apply NoDup_cons_iff in N2; destruct N2 as [N3 N4]; apply NoDup_cons_iff in N4; destruct N4 as [N5 N6].
    repeat split; intros ->.
    - apply N1. right. right. apply in_or_app. right. exact Hx.
    - apply N3. right. apply in_or_app. right. exact Hx.
    - apply N5. apply in_or_app. right. exact Hx.
  Qed.
  Lemma G_in_seids e : In e (seids sla ++ seids slb) -> e <> ea /\ e <> eb /\ e <> e3.
  Proof.
    intros Hx. pose proof Hned as N0; apply NoDup_cons_iff in N0; destruct N0 as [N1 N2]; apply NoDup_cons_iff in N2; destruct N2 as [N3 N4].
    repeat split; try (intros ->).
    - apply N1. right. exact Hx.
    - apply N3. exact Hx.
    - apply (e3_fresh e3); [apply Hdome; right; right; exact Hx|reflexivity].
  Qed.

  Lemma G_node_same x : In x (sids sla ++ sids slb) -> alookup x (hnodes h') = alookup x (hnodes h).
  Proof.
    intros Hx. rewrite (ud_nodes _ _ _ _ _ _ _ _ _ _ _ D).
    assert (x <> r /\ x <> a /\ x <> b) as (N1 & N2 & N3).
    { apply in_app_or in Hx. destruct Hx as [Hx|Hx]; [apply G_in_sids_a|apply G_in_sids_b]; exact Hx. }
    destruct (Nat.eqb_spec x r); [contradiction|]. destruct (Nat.eqb_spec x a); [contradiction|].
    destruct (Nat.eqb_spec x b); [contradiction|]. reflexivity.
  Qed.
  Lemma G_edge_same e : In e (seids sla ++ seids slb) -> alookup e (hedges h') = alookup e (hedges h).
  Proof.
    intros Hx. rewrite (ud_edges _ _ _ _ _ _ _ _ _ _ _ D). destruct (G_in_seids e Hx) as (N1 & N2 & N3).
    destruct (Nat.eqb_spec e ea); [contradiction|]. destruct (Nat.eqb_spec e eb); [contradiction|].
    destruct (Nat.eqb_spec e e3); [contradiction|]. reflexivity.
  Qed.

  (** a child slot of a or b is still a child slot in the new heap *)
  Lemma G_slot_transfer (side : bool) P P' x ce e ei ch :
    In (Some (e, ei, ch)) (if side then sla else slb) -> P' <> Some ce ->
    slot_ok true h P x ce (Some (e, ei, ch)) -> slot_ok true h' P' x ce (Some (e, ei, ch)).
  Proof.
    intros Hin Hne Hok. cbn [slot_ok] in *. destruct Hok as (_ & B2 & B3 & B4 & B5).
    assert (Hsub : (forall y, In y (lids ch) -> In y (sids sla ++ sids slb)) /\
                   (forall y, In y (e :: leids ch) -> In y (seids sla ++ seids slb))).
    { destruct side; split; intros y Hy; apply in_or_app; [left|left|right|right];
        try (eapply in_sids; eassumption);
        (destruct Hy as [<-|Hy]; [eapply in_seids_here|eapply in_seids]; eassumption). }
    destruct Hsub as [Hs1 Hs2]. repeat split; try assumption.
    - eapply edge_ok_eq; [|exact B4]. apply G_edge_same. apply Hs2. left. exact B2.
    - eapply shape_frame; [| |exact B5].
      + intros y Hy. apply G_node_same. apply Hs1. exact Hy.
      + intros y Hy. apply G_edge_same. apply Hs2. right. exact Hy.
  Qed.

  Theorem unroot_generic : Rep h' lt'.
  Proof.
    (* the two dropped slot lists *)
    destruct (drop_up_Forall2 (slot_ok true h (Some (r, ea)) a) r sla (hneigh hna) (hbr hna) Hlena Fa) as [ia' (A1 & A2 & A3)].
    { intros j y Hj. apply (neigh_iff_none h r a ea hna sla Fa Hlena); [|exact Hj]. intros z Hz. apply G_in_sids_a. exact Hz. }
    { apply lnup_pos_in. lia. }
    destruct (drop_up_Forall2 (slot_ok true h (Some (r, eb)) b) r slb (hneigh hnb) (hbr hnb) Hlenb Fb) as [ib' (B1 & B2 & B3)].
    { intros j y Hj. apply (neigh_iff_none h r b eb hnb slb Fb Hlenb); [|exact Hj]. intros z Hz. apply G_in_sids_b. exact Hz. }
    { apply lnup_pos_in. lia. }
    rewrite Hia in A1. injection A1 as <-. rewrite Hib in B1. injection B1 as <-.
    assert (Lia : ia < length (hneigh hna)) by lia. assert (Lib : ib < length (hneigh hnb)) by lia.
    pose proof (del_nth_length ia (hneigh hna) Lia) as La1. pose proof (del_nth_length ia (hbr hna) A2) as La2.
    pose proof (del_nth_length ib (hneigh hnb) Lib) as Lb1. pose proof (del_nth_length ib (hbr hnb) B2) as Lb2.
    assert (Nab : a <> b /\ a <> r /\ b <> r).
    { pose proof Hnd as N0; apply NoDup_cons_iff in N0; destruct N0 as [N1 N2]; apply NoDup_cons_iff in N2; destruct N2 as [N3 N4]. repeat split; intros E; rewrite E in *.
      - apply N3. left. reflexivity.
      - apply N1. left. reflexivity.
      - apply N1. right. left. reflexivity. }
    destruct Nab as (Nab & Nar & Nbr).
    assert (Ea' : alookup a (hnodes h') = Some Xa).
    { rewrite (ud_nodes _ _ _ _ _ _ _ _ _ _ _ D). destruct (Nat.eqb_spec a r); [contradiction|]. rewrite Nat.eqb_refl. reflexivity. }
    assert (Eb' : alookup b (hnodes h') = Some Xb).
    { rewrite (ud_nodes _ _ _ _ _ _ _ _ _ _ _ D). destruct (Nat.eqb_spec b r); [contradiction|].
      destruct (Nat.eqb_spec b a); [congruence|]. rewrite Nat.eqb_refl. reflexivity. }
    assert (Ee3 : alookup e3 (hedges h') = Some (mkHE a b e3i)).
    { rewrite (ud_edges _ _ _ _ _ _ _ _ _ _ _ D).
      assert (e3 <> ea) by (intros E; apply (e3_fresh ea); [apply Hdome; left; reflexivity|congruence]).
      assert (e3 <> eb) by (intros E; apply (e3_fresh eb); [apply Hdome; right; left; reflexivity|congruence]).
      destruct (Nat.eqb_spec e3 ea); [contradiction|]. destruct (Nat.eqb_spec e3 eb); [contradiction|].
      rewrite Nat.eqb_refl. reflexivity. }
    assert (Zb : lnup (ldrop_up slb) = 0) by (rewrite lnup_drop_up, Hupb; reflexivity).
    assert (Za : lnup (ldrop_up sla) = 0) by (rewrite lnup_drop_up, Hupa; reflexivity).
    (* shape of the b side *)
    assert (Sb : shape true h' (Some (a, e3)) Tb).
    { apply shape_unfold. exists Xb. split; [exact Eb'|]. split; [exact Hnmb|]. split; [exact Hcmb|].
      split; [unfold Xb; cbn; rewrite !app_length; cbn; lia|].
      unfold Xb. cbn [hneigh hbr]. rewrite combine_app_eq by lia. apply Forall2_app.
      - eapply Forall2_impl_r; [exact B3|]. intros ce s Hs Hok. destruct s as [[[e ei] ch]|].
        + apply in_ldrop_up in Hs. eapply (G_slot_transfer false); [exact Hs| |exact Hok].
          destruct ce as [c0 e0]. cbn [slot_ok fst snd] in Hok. destruct Hok as (_ & E2 & _). intros [= E3 E4].
          destruct (G_in_seids e) as (_ & _ & N); [|apply N; congruence]. apply in_or_app. right. eapply in_seids_here. exact Hs.
        + exfalso. exact (lnup_zero_notin _ Zb Hs).
      - constructor; [reflexivity|constructor]. }
    constructor.
    - rewrite (ud_root _ _ _ _ _ _ _ _ _ _ _ D). reflexivity.
    - apply shape_unfold. exists Xa. split; [exact Ea'|]. split; [exact Hnma|]. split; [exact Hcma|].
      split; [unfold Xa; cbn; rewrite !app_length; cbn; lia|].
      unfold Xa. cbn [hneigh hbr]. rewrite combine_app_eq by lia. apply Forall2_app.
      + eapply Forall2_impl_r; [exact A3|]. intros ce s Hs Hok. destruct s as [[[e ei] ch]|].
        * apply in_ldrop_up in Hs. eapply (G_slot_transfer true); [exact Hs|discriminate|exact Hok].
        * exfalso. exact (lnup_zero_notin _ Za Hs).
      + constructor; [|constructor]. cbn [slot_ok fst snd]. repeat split; [discriminate| |exact Sb].
        exists (mkHE a b e3i). repeat split. exact Ee3.
    - apply lwf_iff. split; [rewrite lnup_app, Za; reflexivity|].
      intros e ei ch Hin. apply in_app_or in Hin. destruct Hin as [Hin|[[= <- <- <-]|[]]].
      + apply in_ldrop_up in Hin. exact (Hka _ _ _ Hin).
      + apply lwf_sub_iff. split; [rewrite lnup_app, Zb; reflexivity|].
        intros e' ei' ch' Hin'. apply in_app_or in Hin'. destruct Hin' as [Hin'|[E|[]]]; [|discriminate].
        apply in_ldrop_up in Hin'. exact (Hkb _ _ _ Hin').
    - unfold lt', Tb. rewrite lids_eq. fold (sids (ldrop_up sla ++ [Some (e3, e3i, LNode b nmb cmb (ldrop_up slb ++ [None]))])).
      rewrite sids_app, sids_drop_up. cbn [sids flat_map]. rewrite lids_eq.
      fold (sids (ldrop_up slb ++ [None])). rewrite sids_app, sids_drop_up. cbn [sids flat_map]. rewrite !app_nil_r.
      pose proof Hnd as N0; apply NoDup_cons_iff in N0; destruct N0 as [_ N2]. eapply Permutation_NoDup; [|exact N2].
      apply perm_skip. apply Permutation_middle.
    - unfold lt', Tb. rewrite leids_eq. fold (seids (ldrop_up sla ++ [Some (e3, e3i, LNode b nmb cmb (ldrop_up slb ++ [None]))])).
      rewrite seids_app, seids_drop_up. cbn [seids flat_map]. rewrite leids_eq.
      fold (seids (ldrop_up slb ++ [None])). rewrite seids_app, seids_drop_up. cbn [seids flat_map]. rewrite !app_nil_r.
      pose proof Hned as N0; apply NoDup_cons_iff in N0; destruct N0 as [_ N2]; apply NoDup_cons_iff in N2; destruct N2 as [_ N3].
      eapply Permutation_NoDup; [apply Permutation_middle|]. constructor; [|exact N3].
      intros Hx. destruct (G_in_seids e3 Hx) as (_ & _ & N). congruence.
    - intros x. unfold lt', Tb. rewrite lids_eq. fold (sids (ldrop_up sla ++ [Some (e3, e3i, LNode b nmb cmb (ldrop_up slb ++ [None]))])).
      rewrite sids_app, sids_drop_up. cbn [sids flat_map]. rewrite lids_eq.
      fold (sids (ldrop_up slb ++ [None])). rewrite sids_app, sids_drop_up. cbn [sids flat_map]. rewrite !app_nil_r.
      rewrite (ud_nodes _ _ _ _ _ _ _ _ _ _ _ D).
      destruct (Nat.eqb_spec x r) as [->|Nr].
      { split; [|congruence]. intros Hx. exfalso. pose proof Hnd as N0; apply NoDup_cons_iff in N0; destruct N0 as [N1 _]. apply N1.
        destruct Hx as [<-|Hx]; [left; reflexivity|]. right. apply in_app_or in Hx. destruct Hx as [Hx|[<-|Hx]].
        - right. apply in_or_app. left. exact Hx.
        - left. reflexivity.
        - right. apply in_or_app. right. exact Hx. }
      destruct (Nat.eqb_spec x a) as [->|Na]; [split; [discriminate|left; reflexivity]|].
      destruct (Nat.eqb_spec x b) as [->|Nb]; [split; [discriminate|right; apply in_or_app; right; left; reflexivity]|].
      rewrite Hdomn. split.
      + intros [E|Hx]; [congruence|]. right. right. right. apply in_app_or in Hx. destruct Hx as [Hx|[E|Hx]]; [|congruence|];
          apply in_or_app; [left|right]; exact Hx.
      + intros [E|[E|[E|Hx]]]; try congruence. right. apply in_app_or in Hx. apply in_or_app.
        destruct Hx as [Hx|Hx]; [left; exact Hx|right; right; exact Hx].
    - intros e. unfold lt', Tb. rewrite leids_eq. fold (seids (ldrop_up sla ++ [Some (e3, e3i, LNode b nmb cmb (ldrop_up slb ++ [None]))])).
      rewrite seids_app, seids_drop_up. cbn [seids flat_map]. rewrite leids_eq.
      fold (seids (ldrop_up slb ++ [None])). rewrite seids_app, seids_drop_up. cbn [seids flat_map]. rewrite !app_nil_r.
      rewrite (ud_edges _ _ _ _ _ _ _ _ _ _ _ D).
      pose proof Hned as N0; apply NoDup_cons_iff in N0; destruct N0 as [N1 N2]; apply NoDup_cons_iff in N2; destruct N2 as [N3 _].
      destruct (Nat.eqb_spec e ea) as [->|Nea].
      { split; [|congruence]. intros Hx. exfalso. apply in_app_or in Hx. destruct Hx as [Hx|[E|Hx]].
        - apply N1. right. apply in_or_app. left. exact Hx.
        - apply (e3_fresh ea); [apply Hdome; left; reflexivity|congruence].
        - apply N1. right. apply in_or_app. right. exact Hx. }
      destruct (Nat.eqb_spec e eb) as [->|Neb].
      { split; [|congruence]. intros Hx. exfalso. apply in_app_or in Hx. destruct Hx as [Hx|[E|Hx]].
        - apply N3. apply in_or_app. left. exact Hx.
        - apply (e3_fresh eb); [apply Hdome; right; left; reflexivity|congruence].
        - apply N3. apply in_or_app. right. exact Hx. }
      destruct (Nat.eqb_spec e e3) as [->|Ne3]; [split; [discriminate|intros _; apply in_or_app; right; left; reflexivity]|].
      rewrite Hdome. split.
      + intros Hx. right. right. apply in_app_or in Hx. apply in_or_app. destruct Hx as [Hx|[E|Hx]]; [left; exact Hx|congruence|right; exact Hx].
      + intros [E|[E|Hx]]; try congruence. apply in_app_or in Hx. apply in_or_app.
        destruct Hx as [Hx|Hx]; [left; exact Hx|right; right; exact Hx].
    - intros x Hx. rewrite (ud_nextn _ _ _ _ _ _ _ _ _ _ _ D). apply Hfn. apply Hdomn.
      unfold lt', Tb in Hx. rewrite lids_eq in Hx. fold (sids (ldrop_up sla ++ [Some (e3, e3i, LNode b nmb cmb (ldrop_up slb ++ [None]))])) in Hx.
      rewrite sids_app, sids_drop_up in Hx. cbn [sids flat_map] in Hx. rewrite lids_eq in Hx.
      fold (sids (ldrop_up slb ++ [None])) in Hx. rewrite sids_app, sids_drop_up in Hx. cbn [sids flat_map] in Hx. rewrite !app_nil_r in Hx.
      destruct Hx as [<-|Hx]; [right; left; reflexivity|]. right. right. apply in_app_or in Hx.
      destruct Hx as [Hx|[<-|Hx]]; [right; apply in_or_app; left; exact Hx|left; reflexivity|right; apply in_or_app; right; exact Hx].
    - intros e Hx. rewrite (ud_nexte _ _ _ _ _ _ _ _ _ _ _ D).
      unfold lt', Tb in Hx. rewrite leids_eq in Hx. fold (seids (ldrop_up sla ++ [Some (e3, e3i, LNode b nmb cmb (ldrop_up slb ++ [None]))])) in Hx.
      rewrite seids_app, seids_drop_up in Hx. cbn [seids flat_map] in Hx. rewrite leids_eq in Hx.
      fold (seids (ldrop_up slb ++ [None])) in Hx. rewrite seids_app, seids_drop_up in Hx. cbn [seids flat_map] in Hx. rewrite !app_nil_r in Hx.
      apply in_app_or in Hx. destruct Hx as [Hx|[<-|Hx]]; [|lia|].
      + assert (e < hnexte h); [|lia]. apply Hfe. apply Hdome. right. right. apply in_or_app. left. exact Hx.
      + assert (e < hnexte h); [|lia]. apply Hfe. apply Hdome. right. right. apply in_or_app. right. exact Hx.
  Qed.
End Generic.
