(** The TRANSLATE table read back is the inverse of the writer's taxon map on the declared
    labels, and Tree.Rename with an inverse table undoes a renaming. *)
From Coq Require Import String Ascii ZArith Bool Arith Lia List Permutation.
From GT Require Import Base.Sexp Base.UTree Spec.Obs Model.Nexus Proofs.NexusWords
     Proofs.NexusRoundTrip Proofs.NexusRoundTripMain Proofs.NexusRoundTripTr.
Import ListNotations.
Local Open Scope string_scope.

Lemma itoa_inj : forall a b, itoa a = itoa b -> a = b.
Proof.
  intros a b H. pose proof (itoa_val a) as Va. pose proof (itoa_val b) as Vb.
  rewrite H in Va. rewrite Va in Vb. inversion Vb. lia.
Qed.

Lemma assoc_get_set_same : forall k v tbl, assoc_get k (assoc_set k v tbl) = Some v.
Proof.
  intros k v. induction tbl as [|[x y] r IH]; simpl.
  - rewrite String.eqb_refl. reflexivity.
  - destruct (String.eqb x k) eqn:E; simpl.
    + rewrite String.eqb_refl. reflexivity.
    + rewrite E. exact IH.
Qed.

Lemma assoc_get_set_other : forall k k' v tbl, k <> k' -> assoc_get k (assoc_set k' v tbl) = assoc_get k tbl.
Proof.
  intros k k' v. induction tbl as [|[x y] r IH]; intros H; simpl.
  - destruct (String.eqb k' k) eqn:E; [apply String.eqb_eq in E; congruence|reflexivity].
  - destruct (String.eqb x k') eqn:E; simpl.
    + apply String.eqb_eq in E. subst x.
      destruct (String.eqb k' k) eqn:E2; [apply String.eqb_eq in E2; congruence|reflexivity].
    + destruct (String.eqb x k); [reflexivity|apply IH; exact H].
Qed.

Lemma tr_table_other : forall ps tbl key,
    ~ In key (map (fun p => itoa (fst p)) ps) -> assoc_get key (tr_table ps tbl) = assoc_get key tbl.
Proof.
  unfold tr_table. induction ps as [|[k n] r IH]; intros tbl key H; simpl; [reflexivity|].
  rewrite IH.
  - apply assoc_get_set_other. intros C. apply H. left. simpl. congruence.
  - intros C. apply H. right. exact C.
Qed.

Lemma tr_table_get : forall ps tbl k n,
    NoDup (map (fun p => itoa (fst p)) ps) -> In (k, n) ps ->
    assoc_get (itoa k) (tr_table ps tbl) = Some n.
Proof.
  unfold tr_table. induction ps as [|[k0 n0] r IH]; intros tbl k n ND Hin; [contradiction|].
  simpl in *. inversion ND as [|? ? Hn Hr]; subst. destruct Hin as [E|Hin].
  - inversion E; subst. fold (tr_table r (assoc_set (itoa k) n tbl)).
    rewrite tr_table_other; [apply assoc_get_set_same|exact Hn].
  - apply IH; assumption.
Qed.

Lemma assoc_pos_inj : forall m a b,
    In a (map fst m) -> In b (map fst m) -> assoc_pos a m = assoc_pos b m -> a = b.
Proof.
  induction m as [|[x v] m IH]; intros a b Ha Hb H; simpl in *; [contradiction|].
  destruct (String.eqb x a) eqn:Ea; destruct (String.eqb x b) eqn:Eb.
  - apply String.eqb_eq in Ea. apply String.eqb_eq in Eb. congruence.
  - discriminate.
  - discriminate.
  - apply String.eqb_neq in Ea. apply String.eqb_neq in Eb.
    destruct Ha as [Ha|Ha]; [contradiction|]. destruct Hb as [Hb|Hb]; [contradiction|].
    apply IH; [assumption|assumption|lia].
Qed.

Lemma nodup_idx : forall (L : list string) (m : list (string * string)),
    NoDup L -> (forall x, In x L -> In x (map fst m)) ->
    NoDup (map (fun x => itoa (assoc_pos x m)) L).
Proof.
  induction L as [|a r IH]; intros m ND IN; simpl; [constructor|].
  inversion ND as [|? ? Ha Hr]; subst. constructor.
  - intros C. apply in_map_iff in C. destruct C as [b [Hb Hbin]].
    apply itoa_inj in Hb. apply assoc_pos_inj in Hb; [subst b; contradiction| |].
    + apply IN. right. exact Hbin.
    + apply IN. left. reflexivity.
  - apply IH; [exact Hr|]. intros x Hx. apply IN. right. exact Hx.
Qed.

Section Table.
  Variable l : list (nat * utree).
  Let m := final_map l [].

  (** for every declared label: the writer's map sends it to an index, the table read back
      sends that index to the label *)
  Theorem translate_table_inverse : forall n, In n (labels_of l) ->
      exists k, assoc_get n m = Some (itoa k) /\ assoc_get (itoa k) (tr_table (pairs_of l) []) = Some n.
  Proof.
    intros n Hn. exists (assoc_pos n m).
    destruct (assoc_pos_spec m 0 n (final_map_vals l [] eq_refl) (labels_in_map l n Hn)) as [A _].
    split; [exact A|].
    apply tr_table_get.
    - unfold pairs_of. rewrite map_map. cbn [fst]. fold m.
      apply nodup_idx; [apply labels_nodup|]. intros x Hx. apply labels_in_map. exact Hx.
    - unfold pairs_of. apply in_map_iff. exists n. split; [reflexivity|exact Hn].
  Qed.
End Table.

(** * Rename with an inverse table undoes a renaming *)
Definition inverse_on (m tbl : list (string * string)) (n : string) : Prop :=
  n = "" \/
  match assoc_get n m with
  | Some v => v <> "" /\ assoc_get v tbl = Some n
  | None => assoc_get n tbl = None
  end.

Theorem rename_nodes_inverse : forall m tbl t,
    Forall (inverse_on m tbl) (map uname (nodes t)) ->
    rename_nodes tbl (rename_nodes m t) = t.
Proof.
  intros m tbl. induction t as [n c sl IH] using utree_ind'. intros H.
  simpl in H. inversion H as [|? ? Hn Hk]; subst.
  simpl. f_equal.
  - destruct Hn as [Hn|Hn]; [subst; reflexivity|].
    destruct (String.eqb n "") eqn:E; [rewrite E; reflexivity|].
    destruct (assoc_get n m) as [v|] eqn:G.
    + destruct Hn as [Hv Hg]. apply String.eqb_neq in Hv. rewrite Hv. rewrite Hg. reflexivity.
    + rewrite E. rewrite Hn. reflexivity.
  - rewrite map_map. clear Hn H.
    induction sl as [|[[e ch]|] r IHr]; simpl in *; [reflexivity| |].
    + inversion IH as [|? ? Hc Hr]; subst.
      rewrite map_app in Hk. apply Forall_app in Hk. destruct Hk as [Hk1 Hk2].
      rewrite (Hc Hk1). f_equal. apply IHr; assumption.
    + inversion IH as [|? ? Hc Hr]; subst. f_equal. apply IHr; assumption.
Qed.

(** * renaming respects equality of roses: if the Newick layer gives back a tree with the
    rose of the printed (renamed) tree, Rename with the inverse table gives back a tree with
    the rose of the original *)
From GT Require Import Spec.NewickSpec.

Definition ren_name (tbl : list (string * string)) (n : string) : string :=
  if String.eqb n "" then n else match assoc_get n tbl with Some v => v | None => n end.

Fixpoint rename_rose (tbl : list (string * string)) (r : rose) : rose :=
  match r with
  | RNode n c ks => RNode (ren_name tbl n) c (map (fun p => (fst p, rename_rose tbl (snd p))) ks)
  end.

Definition rose_kids (sl : list slot) : list (einfo * rose) :=
  (fix go (l : list slot) : list (einfo * rose) :=
     match l with
     | [] => []
     | None :: r => go r
     | Some (e, ch) :: r => (e, rose_of ch) :: go r
     end) sl.

Lemma rose_of_unfold : forall n c sl, rose_of (UNode n c sl) = RNode n c (rose_kids sl).
Proof. reflexivity. Qed.

Lemma rose_of_rename : forall tbl t, rose_of (rename_nodes tbl t) = rename_rose tbl (rose_of t).
Proof.
  intros tbl. induction t as [n c sl IH] using utree_ind'.
  change (rename_nodes tbl (UNode n c sl)) with
      (UNode (ren_name tbl n) c (map (fun s : slot => match s with Some (e, ch) => Some (e, rename_nodes tbl ch) | None => None end) sl)).
  rewrite !rose_of_unfold. simpl rename_rose. f_equal.
  induction sl as [|[[e ch]|] r IHr]; simpl; [reflexivity| |].
  - inversion IH as [|? ? Hc Hr]; subst. rewrite Hc. f_equal. apply IHr. exact Hr.
  - inversion IH as [|? ? Hc Hr]; subst. apply IHr. exact Hr.
Qed.

Section RoseInd.
  Variable P : rose -> Prop.
  Hypothesis H : forall n c ks, Forall (fun p => P (snd p)) ks -> P (RNode n c ks).
  Fixpoint rose_ind' (r : rose) : P r :=
    match r with
    | RNode n c ks =>
      H n c ks ((fix go (l : list (einfo * rose)) : Forall (fun p => P (snd p)) l :=
                   match l with
                   | [] => Forall_nil _
                   | (e, k) :: r' => Forall_cons (e, k) (rose_ind' k) (go r')
                   end) ks)
    end.
End RoseInd.

Definition kids_eqb (l1 l2 : list (einfo * rose)) : bool :=
  (fix go (l1 l2 : list (einfo * rose)) : bool :=
     match l1, l2 with
     | [], [] => true
     | (e1, t1) :: r1, (e2, t2) :: r2 => einfo_eqb e1 e2 && rose_eqb t1 t2 && go r1 r2
     | _, _ => false
     end) l1 l2.

Lemma rose_eqb_unfold : forall n1 c1 k1 n2 c2 k2,
    rose_eqb (RNode n1 c1 k1) (RNode n2 c2 k2) =
    String.eqb n1 n2 && list_eqb String.eqb c1 c2 && kids_eqb k1 k2.
Proof. reflexivity. Qed.

Lemma rename_rose_compat : forall tbl a b,
    rose_eqb a b = true -> rose_eqb (rename_rose tbl a) (rename_rose tbl b) = true.
Proof.
  intros tbl. induction a as [n1 c1 k1 IH] using rose_ind'. intros [n2 c2 k2] H.
  rewrite rose_eqb_unfold in H. apply andb_true_iff in H. destruct H as [H Hk].
  apply andb_true_iff in H. destruct H as [Hn Hc]. apply String.eqb_eq in Hn. subst n2.
  simpl rename_rose. rewrite rose_eqb_unfold. rewrite String.eqb_refl, Hc. simpl.
  revert k2 Hk. induction k1 as [|[e1 t1] r1 IHr]; intros [|[e2 t2] r2] Hk; simpl in *; try discriminate; [reflexivity|].
  inversion IH as [|? ? Ht Hr]; subst. cbn [snd] in Ht.
  apply andb_true_iff in Hk. destruct Hk as [Hk Hg]. apply andb_true_iff in Hk. destruct Hk as [He Ht'].
  rewrite He. rewrite (Ht t2 Ht'). simpl. apply IHr; assumption.
Qed.

Theorem translate_rose : forall m tbl t u,
    rose_eqb (rose_of u) (rose_of (rename_nodes m t)) = true ->
    Forall (inverse_on m tbl) (map uname (nodes t)) ->
    rose_eqb (rose_of (rename_nodes tbl u)) (rose_of t) = true.
Proof.
  intros m tbl t u H Hinv.
  rewrite rose_of_rename.
  replace (rose_of t) with (rose_of (rename_nodes tbl (rename_nodes m t)))
    by (rewrite (rename_nodes_inverse m tbl t Hinv); reflexivity).
  rewrite rose_of_rename. apply rename_rose_compat. exact H.
Qed.
