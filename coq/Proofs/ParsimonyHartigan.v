(** Hartigan's theorem for the up-pass of Model/Parsimony.v: on every well-formed tree (any
    degree) whose tips carry non-empty state sets, the step count is the minimum cost over all
    labellings, and the root vector marks exactly the states of the optimal labellings. *)
From Coq Require Import String ZArith QArith Bool Arith Lia List.
From GT Require Import Base.UTree Spec.Obs Spec.Parsimony Model.Parsimony Proofs.ParsimonyVec.
Import ListNotations.
Local Close Scope Q_scope.

(** * structure lemmas *)
Lemma length_up_kids : forall sl : list slot, length sl = n_up sl + length (kids_of sl).
Proof.
  induction sl as [|[p|] sl IH]; simpl; auto;
    unfold n_up in *; simpl; rewrite IH; lia.
Qed.

Lemma wf_sub_tip_leaf : forall n c sl, wf_sub (UNode n c sl) = true ->
  Nat.eqb (length sl) 1 = is_leaf (UNode n c sl).
Proof.
  intros n c sl H. simpl in H. apply andb_prop in H. destruct H as [H _].
  apply Nat.eqb_eq in H. unfold is_leaf, kids. simpl.
  pose proof (length_up_kids sl) as L. rewrite H in L.
  destruct (kids_of sl) eqn:E; simpl in L.
  - apply Nat.eqb_eq. lia.
  - apply Nat.eqb_neq. lia.
Qed.

Lemma wf_sub_slots : forall n c sl, wf_sub (UNode n c sl) = true ->
  Forall (fun s => match s with Some (_, t) => wf_sub t = true | None => True end) sl.
Proof.
  intros n c sl H. simpl in H. apply andb_prop in H. destruct H as [_ H].
  rewrite forallb_forall in H. apply Forall_forall. intros [[e t]|] Hin; auto.
  apply (H _ Hin).
Qed.

Lemma wf_slots : forall n c sl, wf (UNode n c sl) = true ->
  Forall (fun s => match s with Some (_, t) => wf_sub t = true | None => True end) sl.
Proof.
  intros n c sl H. simpl in H. apply andb_prop in H. destruct H as [_ H].
  rewrite forallb_forall in H. apply Forall_forall. intros [[e t]|] Hin; auto.
  apply (H _ Hin).
Qed.

Lemma leaves_child : forall n c sl e t x, In (Some (e, t)) sl -> In x (leaves t) ->
  In x (leaves (UNode n c sl)).
Proof.
  intros n c sl e t x Hin Hx. simpl.
  destruct (kids_of sl) eqn:E.
  - exfalso. unfold kids_of in E.
    assert (In (e, t) (flat_map (fun s : slot => match s with Some p => [p] | None => [] end) sl)).
    { apply in_flat_map. exists (Some (e, t)). split; [assumption | left; reflexivity]. }
    rewrite E in H. destruct H.
  - apply in_flat_map. exists (Some (e, t)). split; assumption.
Qed.

(** a labelling of the right shape always exists *)
Fixpoint dflt (t : utree) : ltree :=
  match t with
  | UNode _ _ sl =>
    LNode 0 (map (fun s => match s with Some (_, c) => Some (dflt c) | None => None end) sl)
  end.

Lemma shape_dflt : forall t, shape_ok t (dflt t) = true.
Proof.
  induction t using utree_ind'. simpl.
  induction H as [|[[e t]|] sl Hs Hf IH]; simpl; auto.
  rewrite Hs. simpl. apply IH.
Qed.

Lemma shape_ok_unfold : forall n c sl x ll,
  shape_ok (UNode n c sl) (LNode x ll) = shape_slots shape_ok sl ll.
Proof. reflexivity. Qed.

Lemma cost_unfold : forall ts n c sl x ll,
  cost ts (UNode n c sl) (LNode x ll) = cost_slots ts (cost ts) x sl ll.
Proof. reflexivity. Qed.

Definition miss (x : nat) (v : vec) : nat := 1 - nth x v 0.
Arguments miss : simpl never.

Section Hartigan.
Variable tv : string -> vec.
Variable ts : string -> list nat.
Variable k : nat.

(** the vector of a tip is the indicator of its (non-empty) state set *)
Definition tip_ok (n : string) : Prop :=
  length (tv n) = k /\
  (forall x, nth x (tv n) 0 = if mem x (ts n) then 1 else 0) /\
  exists x, mem x (ts n) = true.

Definition kid_results (sl : list slot) : list (vtree * nat) :=
  flat_map (fun s => match s with Some (_, c) => [uppass tv k c] | None => [] end) sl.

Definition sumc (rs : list (vtree * nat)) : nat := fold_right (fun r acc => snd r + acc) 0 rs.
Definition kvecs (rs : list (vtree * nat)) : list vec := map (fun r => vroot (fst r)) rs.

Lemma uppass_unfold : forall n c sl,
  uppass tv k (UNode n c sl) =
  if Nat.eqb (length sl) 1 then (VNode (tv n) [], 0)
  else let rs := kid_results sl in
       let sum := vsum k (kvecs rs) in
       (VNode (compute_parsimony sum) (map fst rs),
        sumc rs + length (filter (fun v => Nat.eqb (nth (first_max sum) v 0) 0) (kvecs rs))).
Proof. reflexivity. Qed.

Definition U (t : utree) : vec := vroot (fst (uppass tv k t)).
Definition C (t : utree) : nat := snd (uppass tv k t).

Definition vec_ok (v : vec) : Prop :=
  length v = k /\ (forall x, nth x v 0 <= 1) /\ exists x, nth x v 0 = 1.

(** what a child contributes to its parent, for every state [x] of the parent *)
Definition edge_ok (c : utree) : Prop :=
  vec_ok (U c) /\
  (forall x lc, shape_ok c lc = true -> C c + miss x (U c) <= branch_cost ts (cost ts) x c lc) /\
  (forall x, exists lc, shape_ok c lc = true /\ branch_cost ts (cost ts) x c lc = C c + miss x (U c)).

(** Hartigan's invariant at an inner node *)
Definition node_ok (t : utree) : Prop :=
  vec_ok (U t) /\
  (forall l, shape_ok t l = true -> C t + miss (lroot l) (U t) <= cost ts t l) /\
  (forall x, nth x (U t) 0 = 1 -> exists l, shape_ok t l = true /\ lroot l = x /\ cost ts t l = C t).

Definition edge_slot (s : slot) : Prop := match s with Some (_, c) => edge_ok c | None => True end.

Definition contrib (x : nat) (rs : list (vtree * nat)) : nat :=
  fold_right (fun r acc => snd r + miss x (vroot (fst r)) + acc) 0 rs.

Lemma kid_results_ok : forall sl, Forall edge_slot sl -> Forall (fun r => vec_ok (vroot (fst r))) (kid_results sl).
Proof.
  induction 1 as [|[[e c]|] sl Hs Hf IH]; simpl; auto.
  constructor; auto. destruct Hs as [Hv _]. exact Hv.
Qed.

Lemma slots_LB : forall sl ll x, Forall edge_slot sl -> shape_slots shape_ok sl ll = true ->
  contrib x (kid_results sl) <= cost_slots ts (cost ts) x sl ll.
Proof.
  induction sl as [|[[e c]|] sl IH]; intros ll x Hf Hs.
  - destruct ll; simpl in *; [lia | discriminate].
  - destruct ll as [|[lc|] ll]; simpl in Hs; try discriminate.
    apply andb_prop in Hs. destruct Hs as [Hc Hr].
    inversion Hf; subst.
    simpl. specialize (IH ll x H2 Hr).
    destruct H1 as [_ [LB _]]. specialize (LB x lc Hc).
    unfold U, C in LB. lia.
  - destruct ll as [|[lc|] ll]; simpl in Hs; try discriminate.
    inversion Hf; subst. simpl. apply IH; assumption.
Qed.

Lemma slots_UB : forall sl x, Forall edge_slot sl ->
  exists ll, shape_slots shape_ok sl ll = true /\
             cost_slots ts (cost ts) x sl ll = contrib x (kid_results sl).
Proof.
  induction sl as [|[[e c]|] sl IH]; intros x Hf.
  - exists []. split; reflexivity.
  - inversion Hf; subst. destruct (IH x H2) as [ll [Hs Hc]].
    destruct H1 as [_ [_ UB]]. destruct (UB x) as [lc [Hlc Hb]].
    exists (Some lc :: ll). split.
    + simpl. rewrite Hlc, Hs. reflexivity.
    + simpl. rewrite Hb, Hc. unfold U, C. lia.
  - inversion Hf; subst. destruct (IH x H2) as [ll [Hs Hc]].
    exists (None :: ll). split; simpl; assumption.
Qed.

Lemma contrib_eq : forall x rs, Forall (fun r => vec_ok (vroot (fst r))) rs ->
  contrib x rs + nsum x (kvecs rs) = sumc rs + length rs.
Proof.
  induction 1 as [|r rs Hr Hf IH]; simpl; [reflexivity|].
  destruct Hr as [_ [H01 _]]. specialize (H01 x). unfold miss. lia.
Qed.

Lemma kvecs_forall : forall (P : vec -> Prop) rs,
  Forall (fun r => P (vroot (fst r))) rs -> Forall P (kvecs rs).
Proof. induction 1; simpl; constructor; auto. Qed.

Lemma nsum_ge : forall x (l : list vec) v, In v l -> nth x v 0 <= nsum x l.
Proof.
  induction l as [|w l IH]; intros v Hv; simpl in *; [contradiction|].
  destruct Hv as [E|Hin].
  - subst. lia.
  - specialize (IH v Hin). lia.
Qed.

Lemma kid_results_nonempty : forall sl, kids_of sl <> [] -> kid_results sl <> [].
Proof.
  induction sl as [|[[e c]|] sl IH]; simpl; intros H; try congruence.
  apply IH. exact H.
Qed.

(** ** the inductive step at an inner node *)
Lemma node_ok_of_kids : forall n c sl,
  Nat.eqb (length sl) 1 = false -> kids_of sl <> [] -> Forall edge_slot sl ->
  node_ok (UNode n c sl).
Proof.
  intros n c sl Hlen Hk Hf.
  pose proof (kid_results_ok sl Hf) as Hrs.
  pose proof (kid_results_nonempty sl Hk) as Hne.
  set (rs := kid_results sl) in *.
  set (sum := vsum k (kvecs rs)).
  set (ms := first_max sum).
  assert (HU : U (UNode n c sl) = compute_parsimony sum).
  { unfold U. rewrite uppass_unfold, Hlen. reflexivity. }
  assert (HC : C (UNode n c sl) = sumc rs + length (filter (fun v => Nat.eqb (nth ms v 0) 0) (kvecs rs))).
  { unfold C. rewrite uppass_unfold, Hlen. reflexivity. }
  assert (Hlenk : Forall (fun v => length v = k) (kvecs rs)).
  { apply kvecs_forall. eapply Forall_impl; [|exact Hrs]. intros r [H _]. exact H. }
  assert (Hsum : forall x, nth x sum 0 = nsum x (kvecs rs)).
  { intros. apply nth_vsum. exact Hlenk. }
  assert (Hsl : length sum = k) by apply vsum_length.
  assert (H01 : forall x, Forall (fun v => nth x v 0 <= 1) (kvecs rs)).
  { intros x. apply kvecs_forall. eapply Forall_impl; [|exact Hrs]. intros r [_ [H _]]. apply H. }
  assert (Hcnt : C (UNode n c sl) + vmax sum = sumc rs + length rs).
  { assert (Hms : nsum ms (kvecs rs) = vmax sum).
    { rewrite <- Hsum. unfold ms. apply first_max_spec. }
    assert (Hlk : length (kvecs rs) = length rs) by (unfold kvecs; apply map_length).
    rewrite HC. pose proof (nsum_count ms (kvecs rs) (H01 ms)) as Q. lia. }
  assert (Hcontrib : forall x, contrib x rs + nth x sum 0 = C (UNode n c sl) + vmax sum).
  { intros x. rewrite Hsum, Hcnt. apply contrib_eq. exact Hrs. }
  (* some child has a state: the maximum is positive and k > 0 *)
  assert (Hpos : 1 <= vmax sum /\ 0 < k).
  { destruct rs as [|r0 rs'] eqn:E; [congruence|].
    inversion Hrs; subst. destruct H1 as [L [_ [y Hy]]].
    split.
    - pose proof (nth_le_vmax sum y). rewrite Hsum in H.
      pose proof (nsum_ge y (kvecs (r0 :: rs')) (vroot (fst r0)) (or_introl eq_refl)). lia.
    - destruct (Nat.lt_ge_cases y (length (vroot (fst r0)))) as [Q|Q]; [lia|].
      rewrite nth_overflow in Hy by assumption. discriminate. }
  destruct Hpos as [Hpos Hk0].
  assert (HnthU : forall x, nth x (U (UNode n c sl)) 0 =
                            if Nat.ltb x k then (if Nat.eqb (nth x sum 0) (vmax sum) then 1 else 0) else 0).
  { intros. rewrite HU, nth_compute_parsimony, Hsl. reflexivity. }
  split; [|split].
  - (* vec_ok *)
    split; [|split].
    + rewrite HU, compute_parsimony_length. exact Hsl.
    + intros. rewrite HU. apply compute_parsimony_01.
    + exists ms. rewrite HnthU.
      assert (ms < k).
      { unfold ms. rewrite <- Hsl. apply first_max_lt. intro Q. rewrite Q in Hsl. simpl in Hsl. lia. }
      apply Nat.ltb_lt in H. rewrite H. unfold ms. rewrite first_max_spec, Nat.eqb_refl. reflexivity.
  - (* lower bound *)
    intros [x ll] Hs. rewrite shape_ok_unfold in Hs. rewrite cost_unfold. simpl lroot.
    pose proof (slots_LB sl ll x Hf Hs) as LB. fold rs in LB.
    pose proof (Hcontrib x) as Q. pose proof (nth_le_vmax sum x) as M.
    unfold miss. rewrite HnthU.
    destruct (Nat.ltb x k) eqn:Ex.
    + destruct (Nat.eqb (nth x sum 0) (vmax sum)) eqn:Em.
      * lia.
      * apply Nat.eqb_neq in Em. lia.
    + apply Nat.ltb_ge in Ex. rewrite (nth_overflow sum) in Q by lia. lia.
  - (* upper bound *)
    intros x Hx. rewrite HnthU in Hx.
    destruct (Nat.ltb x k) eqn:Ex; [|discriminate].
    destruct (Nat.eqb (nth x sum 0) (vmax sum)) eqn:Em; [|discriminate].
    apply Nat.eqb_eq in Em.
    destruct (slots_UB sl x Hf) as [ll [Hs Hc]]. fold rs in Hc.
    exists (LNode x ll). split; [|split].
    + rewrite shape_ok_unfold. exact Hs.
    + reflexivity.
    + rewrite cost_unfold, Hc. pose proof (Hcontrib x). lia.
Qed.

(** ** from a node to the branch above it *)
Lemma edge_of_node : forall c, is_leaf c = false -> node_ok c -> edge_ok c.
Proof.
  intros c Hl [Hv [LB UB]]. unfold edge_ok, miss in *. split; [exact Hv|]. split.
  - intros x lc Hs. unfold branch_cost. rewrite Hl.
    specialize (LB lc Hs). destruct Hv as [_ [H01 _]].
    pose proof (H01 x). pose proof (H01 (lroot lc)).
    destruct (Nat.eqb x (lroot lc)) eqn:E.
    + apply Nat.eqb_eq in E. subst. lia.
    + lia.
  - intros x. unfold branch_cost. rewrite Hl.
    destruct Hv as [_ [H01 [y Hy]]].
    destruct (Nat.eq_dec (nth x (U c) 0) 1) as [Hx|Hx].
    + destruct (UB x Hx) as [l [Hs [Hr Hc]]]. exists l. split; [exact Hs|].
      rewrite Hr, Nat.eqb_refl, Hc, Hx. lia.
    + destruct (UB y Hy) as [l [Hs [Hr Hc]]]. exists l. split; [exact Hs|].
      rewrite Hr, Hc.
      destruct (Nat.eqb x y) eqn:E.
      * apply Nat.eqb_eq in E. subst. congruence.
      * pose proof (H01 x). lia.
Qed.

Lemma edge_leaf : forall n c sl, Nat.eqb (length sl) 1 = true -> is_leaf (UNode n c sl) = true ->
  tip_ok n -> edge_ok (UNode n c sl).
Proof.
  intros n c sl Hlen Hl [L [B [y Hy]]].
  assert (HU : U (UNode n c sl) = tv n) by (unfold U; rewrite uppass_unfold, Hlen; reflexivity).
  assert (HC : C (UNode n c sl) = 0) by (unfold C; rewrite uppass_unfold, Hlen; reflexivity).
  split; [|split].
  - rewrite HU. split; [exact L|]. split.
    + intros x. rewrite B. destruct (mem x (ts n)); lia.
    + exists y. rewrite B, Hy. reflexivity.
  - intros x lc _. unfold branch_cost, miss. rewrite Hl, HC, HU, B. simpl uname.
    destruct (mem x (ts n)); lia.
  - intros x. exists (dflt (UNode n c sl)). split; [apply shape_dflt|].
    unfold branch_cost, miss. rewrite Hl, HC, HU, B. simpl uname.
    destruct (mem x (ts n)); lia.
Qed.

Theorem edge_ok_all : forall c, wf_sub c = true -> (forall n, In n (leaves c) -> tip_ok n) -> edge_ok c.
Proof.
  induction c using utree_ind'. intros Hwf Htips.
  pose proof (wf_sub_tip_leaf n c sl Hwf) as Htl.
  destruct (is_leaf (UNode n c sl)) eqn:El.
  - apply edge_leaf; auto. apply Htips. simpl. unfold is_leaf, kids in El. simpl in El.
    destruct (kids_of sl); [left; reflexivity | discriminate].
  - apply edge_of_node; [exact El|].
    apply node_ok_of_kids; auto.
    + unfold is_leaf, kids in El. simpl in El. destruct (kids_of sl); congruence.
    + pose proof (wf_sub_slots n c sl Hwf) as Hw.
      apply Forall_forall. intros [[e t]|] Hin; simpl; auto.
      rewrite Forall_forall in H, Hw.
      apply (H _ Hin).
      * apply (Hw _ Hin).
      * intros m Hm. apply Htips. eapply leaves_child; eauto.
Qed.

Lemma cost_no_kids : forall sl ll x, kids_of sl = [] -> cost_slots ts (cost ts) x sl ll = 0.
Proof.
  induction sl as [|[[e c]|] sl IH]; intros ll x Hk; simpl in *.
  - destruct ll; reflexivity.
  - discriminate.
  - destruct ll as [|[lc|] ll]; auto.
Qed.

(** ** the theorem at the root *)
Theorem root_node_ok : forall t, wf t = true -> degree t <> 1 -> is_leaf t = false ->
  (forall n, In n (leaves t) -> tip_ok n) -> node_ok t.
Proof.
  intros [n c sl] Hwf Hdeg Hl Htips.
  apply node_ok_of_kids.
  - apply Nat.eqb_neq. exact Hdeg.
  - unfold is_leaf, kids in Hl. simpl in Hl. destruct (kids_of sl); congruence.
  - pose proof (wf_slots n c sl Hwf) as Hw.
    apply Forall_forall. intros [[e t]|] Hin; simpl; auto.
    rewrite Forall_forall in Hw.
    apply edge_ok_all.
    + apply (Hw _ Hin).
    + intros m Hm. apply Htips. eapply leaves_child; eauto.
Qed.

Theorem up_steps_mincost : forall t, wf t = true -> degree t <> 1 ->
  (forall n, In n (leaves t) -> tip_ok n) ->
  is_mincost ts t (up_steps tv k t).
Proof.
  intros t Hwf Hdeg Htips.
  destruct (is_leaf t) eqn:El.
  - (* a single node *)
    destruct t as [n c sl]. unfold is_leaf, kids in El. simpl in El.
    assert (Hk : kids_of sl = []) by (destruct (kids_of sl); [reflexivity | discriminate]).
    assert (Hs : up_steps tv k (UNode n c sl) = 0).
    { unfold up_steps. rewrite uppass_unfold.
      assert (Nat.eqb (length sl) 1 = false) by (apply Nat.eqb_neq; exact Hdeg).
      rewrite H. simpl.
      assert (kid_results sl = []).
      { clear -Hk. induction sl as [|[[e c]|] sl IH]; simpl in *; auto; discriminate. }
      rewrite H0. reflexivity. }
    rewrite Hs. split.
    + exists (dflt (UNode n c sl)). split; [apply shape_dflt|].
      simpl. apply cost_no_kids. exact Hk.
    + intros; lia.
  - destruct (root_node_ok t Hwf Hdeg El Htips) as [[_ [_ [y Hy]]] [LB UB]].
    unfold up_steps. fold (C t). split.
    + destruct (UB y Hy) as [l [Hs [_ Hc]]]. exists l. auto.
    + intros l Hs. specialize (LB l Hs). lia.
Qed.

(** the root vector marks exactly the states that the root takes in optimal labellings *)
Theorem up_root_states : forall t x, wf t = true -> degree t <> 1 -> is_leaf t = false ->
  (forall n, In n (leaves t) -> tip_ok n) ->
  (nth x (U t) 0 = 1 <-> exists l, optimal ts t l /\ lroot l = x).
Proof.
  intros t x Hwf Hdeg El Htips.
  destruct (root_node_ok t Hwf Hdeg El Htips) as [[_ [H01 [y Hy]]] [LB UB]].
  split.
  - intros Hx. destruct (UB x Hx) as [l [Hs [Hr Hc]]]. exists l. split; [|exact Hr].
    split; [exact Hs|]. intros l' Hs'. specialize (LB l' Hs'). lia.
  - intros [l [[Hs Hopt] Hr]]. subst x.
    destruct (UB y Hy) as [l0 [Hs0 [_ Hc0]]].
    specialize (Hopt l0 Hs0). specialize (LB l Hs). pose proof (H01 (lroot l)). unfold miss in LB. lia.
Qed.

End Hartigan.
