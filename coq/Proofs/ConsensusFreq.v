(** C09, frequencies: on a collection of good trees on the same taxa whose (prepared) trees have
    pairwise distinct bipartitions, the Count stored for a bipartition is the number of TREES
    containing it; this number does not depend on the order of the collection; the kept splits
    are those whose count passes [keep_split]. *)
From Coq Require Import String NArith ZArith QArith Bool Arith Lia List Permutation Sorted.
From GT Require Import Base.UTree Spec.Obs Spec.CompareSpec Spec.ConsensusSpec Model.Reroot Model.Index Model.HashMap Model.EdgeIndex
     Model.Compare Model.Consensus Proofs.IndexBase Proofs.IndexTree Proofs.IndexSplit Proofs.Splits Proofs.USplits
     Proofs.CompareBase Proofs.CompareTree Proofs.CompareMain Proofs.CompareCor Proofs.ConsensusCount Proofs.ConsensusMain.
Import ListNotations.
Local Close Scope Q_scope.
Local Arguments leaves : simpl never.

(** the splits of the tree as the loop sees it (a rooted input is unrooted first) *)
Definition psplits (t : utree) : list split := branch_splits (tipset (prep_input t)) (prep_input t).

(** number of trees of the collection containing the split [s] *)
Definition tree_freq (s : split) (ts : list utree) : nat :=
  length (filter (fun t => has_key (psplits t) s) ts).

Lemma filter_key_nodup (B : list split) (s : split) :
  NoDup (map sside B) ->
  length (filter (fun s' => split_key_eqb s' s) B) = if has_key B s then 1 else 0.
Proof.
  induction B as [|x B IH]; simpl; intros ND; auto.
  inversion ND as [|? ? Hn ND']; subst. unfold has_key in *. simpl.
  assert (SYM : split_key_eqb s x = split_key_eqb x s).
  { unfold split_key_eqb. destruct (sset_eqb (sside s) (sside x)) eqn:E1, (sset_eqb (sside x) (sside s)) eqn:E2; auto.
    - apply USplits.sset_eqb_eq in E1. apply USplits.sset_eqb_false in E2. congruence.
    - apply USplits.sset_eqb_eq in E2. apply USplits.sset_eqb_false in E1. congruence. }
  rewrite SYM. destruct (split_key_eqb x s) eqn:E; simpl; rewrite (IH ND'); auto.
  destruct (existsb (split_key_eqb s) B) eqn:X; auto. exfalso.
  apply existsb_exists in X. destruct X as (y & Hy & Ey).
  unfold split_key_eqb in *. apply USplits.sset_eqb_eq in E. apply USplits.sset_eqb_eq in Ey.
  apply Hn. rewrite E, Ey. now apply in_map.
Qed.

Section Freq.
  Variable t0 : utree.
  Hypothesis G0 : ok_input t0.
  (** the trees of the collection: good, on the taxa of [t0], pairwise distinct bipartitions *)
  Definition member (t : utree) : Prop :=
    ok_input t /\ Permutation (leaves (prep_input t)) (leaves (prep_input t0)) /\ dupfree (prep_input t).

  Lemma class_count_tree i t tj k s :
    member t -> member tj -> key_of (prep_input tj) k s ->
    class_count k (branch_keys i (prep_input t)) = Z.of_nat (if has_key (psplits t) s then 1 else 0).
  Proof.
    intros (G & P & D) (Gj & Pj & _) Hk. unfold class_count.
    destruct (count_transport (key_of (prep_input t)) (fun k' => ekey_eqb k' k) (fun s' => split_key_eqb s' s)
                              (branch_keys i (prep_input t)) (psplits t)) as [E _].
    - apply branch_keys_splits. exact G.
    - intros k' s' H'. apply (key_of_eqb (prep_input t) (prep_input tj)); auto.
      eapply Permutation_trans; [exact P|]. now apply Permutation_sym.
    - rewrite E. f_equal. apply filter_key_nodup. exact D.
  Qed.

  Theorem count_is_tree_frequency ts : forall i tj k s,
      Forall member ts -> member tj -> key_of (prep_input tj) k s ->
      class_count k (keys_from i ts) = Z.of_nat (tree_freq s ts).
  Proof.
    induction ts as [|t r IH]; intros i tj k s F Mj Hk.
    - reflexivity.
    - inversion F as [|? ? M F']; subst. simpl keys_from. rewrite class_count_app.
      rewrite (class_count_tree i t tj k s M Mj Hk), (IH (S i) tj k s F' Mj Hk).
      unfold tree_freq. simpl. destruct (has_key (psplits t) s); simpl length; lia.
  Qed.
End Freq.

(** the frequency does not depend on the order of the collection *)
Theorem tree_freq_perm s ts ts' : Permutation ts ts' -> tree_freq s ts = tree_freq s ts'.
Proof. intros P. unfold tree_freq. apply Permutation_length. now apply filter_perm'. Qed.

(** nor does the fact of being an acceptable collection *)
Lemma member_base t0 t1 t :
  ok_input t1 -> Permutation (leaves (prep_input t1)) (leaves (prep_input t0)) ->
  member t0 t -> member t1 t.
Proof.
  intros G1 P1 (G & P & D). split; [exact G|]. split; [|exact D].
  eapply Permutation_trans; [exact P|]. now apply Permutation_sym.
Qed.

(** * the selection on the stored counts *)
(** every entry of the index after the loop: its Count is the number of trees containing its
    bipartition, and it is selected exactly when that number passes the test of the code *)
Theorem selected_iff_frequency t0 r c64 :
  ok_input t0 -> dupfree (prep_input t0) -> Forall (member t0) r ->
  exists a, cons_counts_assoc (t0 :: r) = Some (Ok (a, Z.of_nat (length (t0 :: r)))) /\
    forall k c l, In (k, (c, l)) a ->
      exists tj s, In tj (t0 :: r) /\ key_of (prep_input tj) k s /\
                   c = Z.of_nat (tree_freq s (t0 :: r)) /\
                   (In (k, (c, l)) (filter (fun kv => keep_split c64 (Z.of_nat (length (t0 :: r))) (fst (snd kv))) a)
                    <-> keep_split c64 (Z.of_nat (length (t0 :: r))) (Z.of_nat (tree_freq s (t0 :: r))) = true).
Proof.
  intros G0 D0 F.
  assert (M0 : member t0 t0) by (split; [exact G0|split; [apply Permutation_refl|exact D0]]).
  assert (FA : Forall (member t0) (t0 :: r)) by (constructor; auto).
  assert (CO : collection_ok (t0 :: r)).
  { split; auto. eapply Forall_impl; [|exact F]. intros t (G & P & _). auto. }
  exists (add_list [] (keys_from 0 (t0 :: r))). split; [now apply cons_counts_ok|].
  intros k c l Hin.
  destruct (inv_add_list (keys_from 0 (t0 :: r)) [] [] inv_nil) as [Hv Ha Hs]. simpl app in *.
  destruct (Hv k c l Hin) as [Ec _].
  (* the key of an entry is one of the branches *)
  assert (Hk : exists tj s, In tj (t0 :: r) /\ key_of (prep_input tj) k s).
  { assert (KIN : forall ks (a0 : aindex) d, (forall kv, In kv a0 -> In (fst kv) d) ->
                                           forall kv, In kv (add_list a0 ks) -> In (fst kv) (d ++ ks)).
    { induction ks as [|b ks IHk]; intros a0 d H0 kv Hkv.
      - simpl in Hkv. rewrite app_nil_r. auto.
      - change (b :: ks) with ([b] ++ ks) in *. rewrite add_list_app in Hkv. rewrite app_assoc.
        apply (IHk (add_list a0 [b]) (d ++ [b])); auto.
        intros kv' Hkv'. unfold add_list in Hkv'. simpl in Hkv'. unfold ai_add in Hkv'.
        assert (PUT : forall v, In kv' (assoc_put ekey einfo_v ekey_eqb a0 b v) -> In (fst kv') (d ++ [b])).
        { intros v. unfold assoc_put.
          destruct (bucket_set ekey einfo_v ekey_eqb b v a0) as [a1|] eqn:BS.
          - intros Hx. apply in_or_app. left.
            assert (MK : map fst a1 = map fst a0).
            { clear - BS. revert a1 BS. induction a0 as [|[k0 v0] a0 IH0]; simpl; intros a1 BS; [discriminate|].
              destruct (ekey_eqb b k0).
              - inversion BS; subst. reflexivity.
              - destruct (bucket_set ekey einfo_v ekey_eqb b v a0) eqn:B0; [|discriminate].
                inversion BS; subst. simpl. f_equal. now apply IH0. }
            assert (In (fst kv') (map fst a1)) by (now apply in_map).
            rewrite MK in H. apply in_map_iff in H. destruct H as (x & <- & Hx0). now apply H0.
          - intros Hx. apply in_app_or in Hx. destruct Hx as [Hx|[<-|[]]].
            + apply in_or_app. left. now apply H0.
            + apply in_or_app. right. now left. }
        destruct (assoc_value ekey einfo_v ekey_eqb a0 b) as [[c0 l0]|]; apply (PUT _ Hkv'). }
    pose proof (KIN (keys_from 0 (t0 :: r)) [] [] (fun kv H => match H with end) (k, (c, l)) Hin) as KI.
    simpl in KI.
    assert (KF : forall ts i k, In k (keys_from i ts) -> Forall (member t0) ts ->
                                exists tj s, In tj ts /\ key_of (prep_input tj) k s).
    { induction ts as [|t ts IHt]; intros i k1 H1 FF; [destruct H1|].
      inversion FF as [|? ? M FF']; subst. simpl in H1. apply in_app_or in H1. destruct H1 as [H1|H1].
      - destruct M as (G & _ & _).
        destruct (Forall2_in_l _ _ _ _ (branch_keys_splits i _ G) H1) as (s & _ & Hs1).
        exists t, s. split; auto. now left.
      - destruct (IHt (S i) k1 H1 FF') as (tj & s & Hj & Hs1). exists tj, s. split; auto. now right. }
    apply (KF (t0 :: r) 0 k KI FA). }
  destruct Hk as (tj & s & Hj & Hks). exists tj, s.
  assert (Mj : member t0 tj) by (rewrite Forall_forall in FA; now apply FA).
  pose proof (count_is_tree_frequency t0 (t0 :: r) 0 tj k s FA Mj Hks) as CF.
  simpl keys_from in CF. rewrite <- Ec in CF.
  repeat split; auto.
  - intros H. apply filter_In in H. destruct H as [_ H]. simpl in H. now rewrite <- CF.
  - intros H. apply filter_In. split; auto. simpl. now rewrite CF.
Qed.

(** * unrooted inputs: the loop sees the trees themselves, and [tree_freq] is the frequency of the
    specification ([freq_count] of Spec/ConsensusSpec.v, over [usplits]) *)
From GT Require Import Proofs.CompareDomain Proofs.CompareDupfree Proofs.CompareWeighted.

Lemma prep_unrooted t : unrooted t -> prep_input t = t.
Proof.
  intros (_ & D & _). unfold prep_input, rooted.
  destruct (Nat.eqb_spec (degree t) 2); [lia|reflexivity].
Qed.

Lemma unrooted_member t0 t :
  unrooted t0 -> unrooted t -> Permutation (leaves t) (leaves t0) -> member t0 t.
Proof.
  intros U0 U P. unfold member, ok_input. rewrite (prep_unrooted t U), (prep_unrooted t0 U0).
  split; [apply U|]. split; [exact P|]. now apply unrooted_dupfree.
Qed.

Lemma psplits_usplits t : unrooted t -> psplits t = usplits t.
Proof.
  intros U. unfold psplits. rewrite (prep_unrooted t U). symmetry. apply usplits_dupfree. now apply unrooted_dupfree.
Qed.

Theorem tree_freq_spec s ts : Forall unrooted ts -> tree_freq s ts = freq_count ts (sside s).
Proof.
  intros F. unfold tree_freq, freq_count. f_equal. apply filter_ext_in'. intros t Ht.
  rewrite Forall_forall in F. rewrite (psplits_usplits t (F t Ht)).
  unfold tree_has, tree_split. rewrite find_split_has_key. destruct (find_split (sside s) (usplits t)); reflexivity.
Qed.

(** the selection on a collection of unrooted trees of the domain, in the vocabulary of the
    specification: an entry is kept iff the number of trees containing its split passes the test *)
Corollary selected_iff_freq_count t0 r c64 :
  unrooted t0 -> Forall (fun t => unrooted t /\ Permutation (leaves t) (leaves t0)) r ->
  exists a, cons_counts_assoc (t0 :: r) = Some (Ok (a, Z.of_nat (length (t0 :: r)))) /\
    forall k c l, In (k, (c, l)) a ->
      exists tj s, In tj (t0 :: r) /\ key_of tj k s /\
                   c = Z.of_nat (freq_count (t0 :: r) (sside s)) /\
                   (In (k, (c, l)) (filter (fun kv => keep_split c64 (Z.of_nat (length (t0 :: r))) (fst (snd kv))) a)
                    <-> keep_split c64 (Z.of_nat (length (t0 :: r))) (Z.of_nat (freq_count (t0 :: r) (sside s))) = true).
Proof.
  intros U0 F.
  assert (G0 : ok_input t0) by (unfold ok_input; rewrite (prep_unrooted t0 U0); apply U0).
  assert (D0 : dupfree (prep_input t0)) by (rewrite (prep_unrooted t0 U0); now apply unrooted_dupfree).
  assert (FM : Forall (member t0) r).
  { eapply Forall_impl; [|exact F]. intros t [U P]. now apply unrooted_member. }
  assert (FU : Forall unrooted (t0 :: r)).
  { constructor; auto. eapply Forall_impl; [|exact F]. intros t [U _]. exact U. }
  destruct (selected_iff_frequency t0 r c64 G0 D0 FM) as (a & E & H).
  exists a. split; auto. intros k c l Hin.
  destruct (H k c l Hin) as (tj & s & Hj & Hk & Ec & Hsel).
  exists tj, s. rewrite Forall_forall in FU. rewrite (prep_unrooted tj (FU tj Hj)) in Hk.
  rewrite <- (tree_freq_spec s (t0 :: r)) by (apply Forall_forall; exact FU).
  auto.
Qed.
