(** C14 (cut), part 6: the path form for a root with a single neighbour (the root is then a tip
    for the code, and not a leaf of the specification's [pairdists]).  With this file the
    statement "two tips are in the same bag iff no branch on their path is as long as the
    threshold" covers every well-formed tree with distinct tip names: roots with at least two
    neighbours (Proofs/CutPaths.v) and roots with one (here: paths between two tips below the
    root, and paths from the root to a tip, whose number of long branches is the depth). *)
From Coq Require Import String ZArith QArith Bool Arith Lia Lqa List Permutation.
From GT Require Import Base.UTree Spec.Obs Spec.Unrooted Spec.Cut Model.Reroot
     Proofs.RerootBase Proofs.PruneBase Model.Matrix Proofs.MatrixWalk Proofs.MatrixCells
     Proofs.CutBase Proofs.CutSem Proofs.CutSpec Proofs.CutPaths.
Import ListNotations.
Local Close Scope Q_scope.
Local Arguments n_up : simpl never.

Lemma nodes_wf_sub c0 : forall x, wf_sub c0 = true -> In x (nodes c0) -> wf_sub x = true.
Proof.
  induction c0 as [n0 c1 sl0 IH0] using utree_ind'. intros x Wc0 Hx. simpl in Hx.
  destruct Hx as [<-|Hx]; auto. apply in_flat_map in Hx. destruct Hx as [[[e0 c2]|] [Hs Hx]]; [|destruct Hx].
  rewrite Forall_forall in IH0. apply (IH0 _ Hs x); auto.
  apply (wf_sub_kids_all n0 c1 sl0 Wc0 e0 c2). now apply kids_of_In.
Qed.

Lemma nodes_leaves c0 : forall v a, In v (nodes c0) -> In a (leaves v) -> In a (leaves c0).
Proof.
  induction c0 as [n0 c1 sl0 IH0] using utree_ind'. intros v a Hx Lv. simpl in Hx.
  destruct Hx as [<-|Hx]; auto. apply in_flat_map in Hx. destruct Hx as [[[e0 c2]|] [Hs Hx]]; [|destruct Hx].
  rewrite Forall_forall in IH0. specialize (IH0 _ Hs v a Hx Lv).
  rewrite leaves_unfold. assert (Hk : In (e0, c2) (kids_of sl0)) by (now apply kids_of_In).
  destruct (kids_of sl0) eqn:Ek; [destruct Hk|]. rewrite <- Ek in *. unfold kleaves. apply in_flat_map.
  exists (e0, c2). split; auto.
Qed.

Section Root1.
  Variable maxlen : Q.
  Notation w := (w_long maxlen).
  Notation comp_down := (comp_down maxlen).
  Notation sgroups := (sgroups maxlen).

  (** below a node that is not the root, with the piece of the node already collected or not *)
  Theorem groups_classes_sub ch fl :
    wf_sub ch = true -> 1 < degree ch -> NoDup (leaves ch) ->
    forall a b d, In (a, b, d) (pairdists w ch) ->
      ((d == 0)%Q <->
       (exists g, In g (sgroups ch fl) /\ In a g /\ In b g) \/
       (fl = true /\ In a (comp_down ch) /\ In b (comp_down ch))).
  Proof.
    intros W D N a b d H. assert (O : okn ch) by (left; auto).
    destruct (pairdists_keys w ch N) as [K Kne]. split.
    - intros Z. destruct (zero_entry_common maxlen ch a b d O H Z) as [u [Hu [Ha Hb]]].
      destruct (node_top maxlen ch u Hu) as [v [Hv I]].
      assert (Nv : comp_down v <> []) by (intros X; apply I in Ha; rewrite X in Ha; destruct Ha).
      destruct fl.
      + destruct Hv as [<-|Hv]; [right; split; auto|].
        left. destruct (sgroups_conv maxlen ch true v) as [g [Hg Pg]]; auto.
        exists g. split; auto. split; apply (Permutation_in _ (Permutation_sym Pg)); auto.
      + left. destruct (sgroups_conv maxlen ch false v) as [g [Hg Pg]]; auto.
        { left. auto. }
        exists g. split; auto. split; apply (Permutation_in _ (Permutation_sym Pg)); auto.
    - assert (X : forall v, In v (nodes ch) -> In a (comp_down v) -> In b (comp_down v) -> (d == 0)%Q).
      { intros v Hn Ha Hb. assert (Ov := nodes_okn ch O v Hn).
        destruct (common_zero_entry maxlen v a b Ov) as [d0 [H0 Z0]]; auto.
        - eapply Kne; eauto.
        - apply (pairdists_sub maxlen ch v Hn) in H0.
          rewrite (key_unique _ (a, b) d d0 K H H0). exact Z0. }
      intros [[g [Hg [Ha Hb]]]|[_ [Ha Hb]]].
      + destruct (sgroups_grp maxlen ch fl g) as [v [Hv Pv]]; auto.
        { destruct fl; auto. }
        apply (X v).
        * rewrite in_app_iff in Hv. destruct Hv as [Hv|Hv].
          -- destruct fl; [destruct Hv|]. destruct Hv as [<-|[]]. destruct ch. now left.
          -- now apply tops_nodes with (maxlen := maxlen).
        * apply (Permutation_in _ Pv); auto.
        * apply (Permutation_in _ Pv); auto.
      + apply (X ch); auto. destruct ch. now left.
  Qed.

  (** the groups of a tree whose root has a single neighbour *)
  Lemma sgroups_root1 n cm e ch :
    sgroups (UNode n cm [Some (e, ch)]) false =
    (if short maxlen e then [n :: comp_down ch] else [[n]] ++ (if is_tip ch then [[uname ch]] else []))
    ++ (if Nat.ltb 1 (degree ch) then sgroups ch (short maxlen e) else []) ++ [].
  Proof.
    rewrite sgroups_unfold. simpl. destruct (short maxlen e); reflexivity.
  Qed.

  Variables (n : string) (cm : list string) (e : einfo) (ch : utree).
  Let t := UNode n cm [Some (e, ch)].
  Hypothesis W : wf t = true.
  Hypothesis N : NoDup (n :: leaves ch).

  Lemma Wch : wf_sub ch = true.
  Proof. assert (W' := W). unfold t in W'. rewrite wf_unfold in W'. simpl in W'. now rewrite andb_true_r in W'. Qed.

  Lemma leaf_or_inner : (is_tip ch = true /\ Nat.ltb 1 (degree ch) = false /\ pairdists w ch = [] /\ comp_down ch = [uname ch] /\ leaves ch = [uname ch]) \/
                        (is_tip ch = false /\ Nat.ltb 1 (degree ch) = true).
  Proof.
    assert (Wc := Wch). destruct ch as [nc cc sl]. destruct (wf_sub_shape nc cc sl Wc) as [->|[Hne T]].
    - left. repeat split; reflexivity.
    - right. unfold is_tip, degree. simpl uslots. rewrite T. split; auto.
      apply Nat.ltb_lt. apply Nat.eqb_neq in T.
      rewrite wf_sub_unfold in Wc. apply andb_true_iff in Wc as [U _]. apply Nat.eqb_eq in U.
      assert (Hl := length_slots sl). destruct (kids_of sl); [congruence|]. simpl in Hl. lia.
  Qed.

  Lemma not_root a : In a (leaves ch) -> a <> n.
  Proof. intros H ->. inversion N; auto. Qed.

  (** two tips below the root *)
  Theorem root1_pairs a b d :
    In (a, b, d) (pairdists w ch) ->
    ((d == 0)%Q <-> exists g, In g (sgroups t false) /\ In a g /\ In b g).
  Proof.
    intros H. unfold t. rewrite sgroups_root1.
    assert (Nc : NoDup (leaves ch)) by (inversion N; auto).
    destruct (pairdists_names w ch a b d H) as [La Lb].
    destruct leaf_or_inner as [[T [D [P _]]]|[T D]].
    { rewrite P in H. destruct H. }
    rewrite D, T. apply Nat.ltb_lt in D.
    rewrite (groups_classes_sub ch (short maxlen e) Wch D Nc a b d H).
    destruct (short maxlen e) eqn:S; simpl app.
    - split.
      + intros [[g [Hg X]]|[_ [Ha Hb]]].
        * exists g. split; [right; rewrite app_nil_r; exact Hg|exact X].
        * exists (n :: comp_down ch). split; [now left|]. split; now right.
      + intros [g [[<-|Hg] [Ha Hb]]].
        * right. split; auto. destruct Ha as [Ha|Ha]; [exfalso; symmetry in Ha; now apply (not_root a)|].
          destruct Hb as [Hb|Hb]; [exfalso; symmetry in Hb; now apply (not_root b)|]. auto.
        * left. rewrite app_nil_r in Hg. eauto.
    - split.
      + intros [[g [Hg X]]|[F _]]; [|discriminate].
        exists g. split; [right; rewrite app_nil_r; exact Hg|exact X].
      + intros [g [[<-|Hg] [Ha Hb]]].
        * destruct Ha as [Ha|[]]. exfalso. symmetry in Ha. now apply (not_root a).
        * left. rewrite app_nil_r in Hg. eauto.
  Qed.

  (** the root and a tip below it: the number of long branches between them is the depth *)
  Theorem root1_root a d :
    In (a, d) (depths w ch) ->
    ((w e + d == 0)%Q <-> exists g, In g (sgroups t false) /\ In n g /\ In a g).
  Proof.
    intros H. unfold t. rewrite sgroups_root1.
    assert (Nc : NoDup (leaves ch)) by (inversion N; auto).
    assert (La : In a (leaves ch)).
    { rewrite <- (depths_names w ch). apply in_map_iff. exists (a, d). auto. }
    assert (Nd := depths_nonneg maxlen ch a d H). assert (Ne := w_nonneg maxlen e).
    assert (Hn : forall g, In g (if Nat.ltb 1 (degree ch) then sgroups ch (short maxlen e) else []) -> ~ In n g).
    { intros g Hg Hin. destruct (Nat.ltb 1 (degree ch)); [|destruct Hg].
      destruct (sgroups_grp maxlen ch (short maxlen e) g) as [v [Hv Pv]]; auto.
      { destruct (short maxlen e); auto using Wch. }
      apply (Permutation_in _ Pv) in Hin.
      assert (Hnode : In v (nodes ch)).
      { rewrite in_app_iff in Hv. destruct Hv as [Hv|Hv].
        - destruct (short maxlen e); [destruct Hv|]. destruct Hv as [<-|[]]. destruct ch. now left.
        - now apply tops_nodes with (maxlen := maxlen). }
      assert (Wv : wf_sub v = true) by (apply (nodes_wf_sub ch v Wch Hnode)).
      destruct (comp_zero_depth maxlen v n Wv Hin) as [dn [Hdn _]].
      assert (Lv : In n (leaves v)).
      { rewrite <- (depths_names w v). apply in_map_iff. exists (n, dn). auto. }
      assert (Lc : In n (leaves ch)) by (apply (nodes_leaves ch v n Hnode Lv)).
      now apply (not_root n Lc). }
    destruct (short maxlen e) eqn:S; simpl app.
    - assert (We : w e = 0%Q) by (destruct (w_cases maxlen e) as [[_ X]|[X _]]; [auto|congruence]).
      rewrite We. split.
      + intros Z. assert (Zd : (d == 0)%Q) by lra.
        exists (n :: comp_down ch). split; [now left|]. split; [now left|right].
        apply (zero_depth_comp maxlen ch a d Wch H Zd).
      + intros [g [[<-|Hg] [Hng Ha]]].
        * destruct Ha as [Ha|Ha]; [exfalso; symmetry in Ha; now apply (not_root a)|].
          destruct (comp_zero_depth maxlen ch a Wch Ha) as [d' [Hd' Z']].
          assert (d = d').
          { assert (Nn : NoDup (map fst (depths w ch))) by (rewrite depths_names; exact Nc).
            clear -Nn H Hd'. induction (depths w ch) as [|[k v] l IH]; [destruct H|].
            simpl in Nn. inversion Nn as [|? ? Nk Nl]; subst. destruct H as [E1|H], Hd' as [E2|Hd'].
            - congruence.
            - inversion E1; subst. exfalso. apply Nk. apply (in_map fst) in Hd'. exact Hd'.
            - inversion E2; subst. exfalso. apply Nk. apply (in_map fst) in H. exact H.
            - auto. }
          subst d'. lra.
        * exfalso. rewrite app_nil_r in Hg. now apply (Hn g Hg).
    - assert (We : w e = 1%Q) by (destruct (w_cases maxlen e) as [[X _]|[_ X]]; [congruence|auto]).
      rewrite We. split; [intros Z; lra|].
      intros [g [Hg [Hng Ha]]]. exfalso. destruct Hg as [<-|Hg]; [|rewrite in_app_iff in Hg; destruct Hg as [Hg|Hg]].
      + destruct Ha as [Ha|[]]. symmetry in Ha. now apply (not_root a).
      + destruct (is_tip ch); [|destruct Hg]. destruct Hg as [<-|[]]. destruct Hng as [Hng|[]].
        destruct leaf_or_inner as [[_ [_ [_ [_ Lc]]]]|[T _]].
        * apply (not_root (uname ch)); [rewrite Lc; now left|auto].
        * apply (not_root a La). destruct Ha as [Ha|[]]. congruence.
      + rewrite app_nil_r in Hg. now apply (Hn g Hg).
  Qed.
End Root1.

(** the bags of the model for a root with a single neighbour *)
Theorem cut_classes_root1 maxlen n cm e ch :
  let t := UNode n cm [Some (e, ch)] in
  wf t = true -> NoDup (n :: leaves ch) ->
  (forall a b d, In (a, b, d) (pairdists (w_long maxlen) ch) ->
     ((d == 0)%Q <-> exists bag, In bag (cut maxlen t) /\ In a bag /\ In b bag)) /\
  (forall a d, In (a, d) (depths (w_long maxlen) ch) ->
     ((w_long maxlen e + d == 0)%Q <-> exists bag, In bag (cut maxlen t) /\ In n bag /\ In a bag)).
Proof.
  intros t W N.
  assert (B : forall x y, (exists g, In g (sgroups maxlen t false) /\ In x g /\ In y g) <->
                          (exists bag, In bag (cut maxlen t) /\ In x bag /\ In y bag)).
  { intros x y. rewrite (cut_sgroups maxlen t W). split.
    - intros [g [Hg [Hx Hy]]]. exists (bag_of g). split; [now apply in_map|]. split; now apply bag_of_In.
    - intros [bag [Hb [Hx Hy]]]. apply in_map_iff in Hb. destruct Hb as [g [<- Hg]].
      exists g. split; auto. split; now apply bag_of_In. }
  split.
  - intros a b d H. rewrite <- B. apply (root1_pairs maxlen n cm e ch W N a b d H).
  - intros a d H. rewrite <- B. apply (root1_root maxlen n cm e ch W N a d H).
Qed.
