(** Heap model: local surgery.  [lreplace x new lt] replaces the sub-node with id [x] of a
    labelled tree; if the heap changes only inside the footprint of that sub-node and the new
    sub-node is represented there, the whole heap is represented by the new tree. *)
From Coq Require Import String ZArith QArith Bool Arith Lia Permutation List.
From GT Require Import Base.UTree Model.Reroot Model.Heap Proofs.Enum Proofs.HeapBase Proofs.HeapRep
     Proofs.HeapGood Proofs.HeapGoodRep Proofs.HeapRerootL Proofs.HeapReorder.
Import ListNotations.
Local Close Scope Q_scope.

Definition lreplace_slot (f : ltree -> ltree) (s : lslot) : lslot :=
  match s with Some (e, ei, ch) => Some (e, ei, f ch) | None => None end.

Fixpoint lreplace (x : nat) (new : ltree) (lt : ltree) : ltree :=
  match lt with
  | LNode i n c sl =>
    if Nat.eqb i x then new
    else LNode i n c (map (fun s : lslot => match s with
                                            | Some (e, ei, ch) => Some (e, ei, lreplace x new ch)
                                            | None => None end) sl)
  end.

Lemma lreplace_eq x new i n c sl :
  lreplace x new (LNode i n c sl) =
  if Nat.eqb i x then new else LNode i n c (map (lreplace_slot (lreplace x new)) sl).
Proof. reflexivity. Qed.

Lemma lreplace_notin x new : forall lt, ~ In x (lids lt) -> lreplace x new lt = lt.
Proof.
  induction lt as [i n c sl IH] using ltree_ind'. intros Hx. rewrite lreplace_eq.
  destruct (Nat.eqb_spec i x) as [->|Hne]; [exfalso; apply Hx; left; reflexivity|]. f_equal.
  rewrite lids_eq in Hx. assert (Hx' : ~ In x (sids sl)) by (intros H; apply Hx; right; exact H). clear Hx.
  induction IH as [|s sl Hs _ IHsl]; [reflexivity|]. cbn [map]. f_equal.
  - destruct s as [[[e ei] ch]|]; [|reflexivity]. cbn. rewrite Hs; [reflexivity|].
    intros H. apply Hx'. cbn. apply in_or_app. left. exact H.
  - apply IHsl. intros H. apply Hx'. cbn. apply in_or_app. right. exact H.
Qed.

Lemma lid_lreplace x new lt : lid new = x -> lid (lreplace x new lt) = lid lt.
Proof.
  intros Hn. destruct lt as [i n c sl]. rewrite lreplace_eq. destruct (Nat.eqb_spec i x) as [->|_]; [exact Hn|reflexivity].
Qed.

Lemma perm_lemA {A} (i : A) X S R B : Permutation (i :: X ++ (S ++ R) ++ B) (S ++ i :: X ++ R ++ B).
Proof.
  change (i :: X ++ (S ++ R) ++ B) with ((i :: X) ++ (S ++ R) ++ B). rewrite <- (app_assoc S R B).
  apply (Permutation_app_swap_app (i :: X) S (R ++ B)).
Qed.
Lemma perm_lemB {A} (e : A) X S R B : Permutation (X ++ e :: (S ++ R) ++ B) (S ++ X ++ e :: R ++ B).
Proof.
  replace (X ++ e :: (S ++ R) ++ B) with ((X ++ [e]) ++ S ++ R ++ B) by (rewrite <- !app_assoc; reflexivity).
  rewrite Permutation_app_swap_app. rewrite <- !app_assoc. reflexivity.
Qed.

Lemma sids_app_cons l1 e ei ch l2 : sids (l1 ++ Some (e, ei, ch) :: l2) = sids l1 ++ lids ch ++ sids l2.
Proof. unfold sids. rewrite flat_map_app. reflexivity. Qed.
Lemma seids_app_cons l1 e ei ch l2 : seids (l1 ++ Some (e, ei, ch) :: l2) = seids l1 ++ e :: leids ch ++ seids l2.
Proof. unfold seids. rewrite flat_map_app. reflexivity. Qed.

(** node ids / edge ids: those of [sub] are exchanged for those of [new] *)
Lemma lreplace_perm x new : forall lt prev p sub, NoDup (lids lt) -> In (p, sub) (lsubs prev lt) -> lid sub = x ->
  exists rn re, Permutation (lids lt) (lids sub ++ rn) /\ Permutation (lids (lreplace x new lt)) (lids new ++ rn) /\
                Permutation (leids lt) (leids sub ++ re) /\ Permutation (leids (lreplace x new lt)) (leids new ++ re).
Proof.
  induction lt as [i n c sl IH] using ltree_ind'. intros prev p sub Hnd Hin Hx.
  rewrite lsubs_eq in Hin. rewrite lreplace_eq. destruct Hin as [[= <- <-]|Hin].
  - cbn [lid] in Hx. subst x. rewrite Nat.eqb_refl. exists [], []. rewrite !app_nil_r. repeat split; reflexivity.
  - apply in_flat_map in Hin. destruct Hin as [s [Hs Hin]].
    assert (Hix : i <> x).
    { intros ->. rewrite lids_eq in Hnd. apply NoDup_cons_iff in Hnd. apply (proj1 Hnd).
      destruct s as [[[e ei] ch]|]; [|destruct Hin]. eapply in_sids; [exact Hs|]. rewrite <- Hx. eapply lsubs_in_lids. exact Hin. }
    destruct (Nat.eqb_spec i x) as [E|_]; [contradiction|].
    rewrite lids_eq in Hnd. apply NoDup_cons_iff in Hnd. destruct Hnd as [_ Hnd]. fold (sids sl) in Hnd.
    rewrite !lids_eq, !leids_eq. fold (sids sl) (seids sl).
    fold (sids (map (lreplace_slot (lreplace x new)) sl)) (seids (map (lreplace_slot (lreplace x new)) sl)).
    rewrite Forall_forall in IH.
    (* split the slot list at s *)
    destruct (in_split _ _ Hs) as [l1 [l2 ->]].
    destruct s as [[[e ei] ch]|]; [|destruct Hin].
    assert (Hch : NoDup (lids ch)).
    { apply (NoDup_flat_map_in (fun s : lslot => match s with Some (_, _, ch) => lids ch | None => [] end) _ (Some (e, ei, ch)) Hnd).
      apply in_or_app; right; left; reflexivity. }
    destruct (IH (Some (e, ei, ch)) Hs (Some (i, e)) p sub Hch Hin Hx)
      as (rn & re & P1 & P2 & P3 & P4).
    (* the other slots are untouched *)
    assert (Hother : forall l, (forall y, In y (sids l) -> ~ In y (lids ch)) -> map (lreplace_slot (lreplace x new)) l = l).
    { intros l Hl. induction l as [|s l IHl]; [reflexivity|]. cbn [map]. f_equal.
      - destruct s as [[[e' ei'] ch']|]; [|reflexivity]. cbn. rewrite lreplace_notin; [reflexivity|].
        intros Hx'. apply (Hl x); [cbn; apply in_or_app; left; exact Hx'|]. rewrite <- Hx. eapply lsubs_in_lids. exact Hin.
      - apply IHl. intros y Hy. apply Hl. cbn. apply in_or_app. right. exact Hy. }
    rewrite sids_app_cons in Hnd.
    apply NoDup_app_iff in Hnd. destruct Hnd as (N1 & N2 & N3). apply NoDup_app_iff in N2. destruct N2 as (N4 & N5 & N6).
    rewrite map_app. cbn [map lreplace_slot].
    rewrite (Hother l1) by (intros y Hy Hy'; apply (N3 y Hy); apply in_or_app; left; exact Hy').
    rewrite (Hother l2) by (intros y Hy Hy'; exact (N6 y Hy' Hy)).
    rewrite !sids_app_cons, !seids_app_cons.
    exists (i :: sids l1 ++ rn ++ sids l2), (seids l1 ++ e :: re ++ seids l2).
    repeat split.
    + rewrite P1. apply perm_lemA.
    + rewrite P2. apply perm_lemA.
    + rewrite P3. apply perm_lemB.
    + rewrite P4. apply perm_lemB.
Qed.

Lemma Forall2_map_r_nth {A B C} (P : A -> B -> Prop) (Q : A -> C -> Prop) (f : B -> C) l sl :
  Forall2 P l sl ->
  (forall j a b, nth_error l j = Some a -> nth_error sl j = Some b -> P a b -> Q a (f b)) ->
  Forall2 Q l (map f sl).
Proof.
  induction 1 as [|a b l sl Hab _ IH]; intros H; [constructor|]. cbn [map]. constructor.
  - apply (H 0 a b eq_refl eq_refl Hab).
  - apply IH. intros j a' b' X Y Z. apply (H (S j) a' b' X Y Z).
Qed.

(** the context lemma *)
Lemma lreplace_shape h h' x new : forall lt prev p sub,
  shape true h prev lt -> NoDup (lids lt) -> NoDup (leids lt) -> In (p, sub) (lsubs prev lt) -> lid sub = x ->
  lid new = x -> shape true h' p new ->
  (forall n, In n (lids lt) -> ~ In n (lids sub) -> alookup n (hnodes h') = alookup n (hnodes h)) ->
  (forall e, In e (leids lt) -> ~ In e (leids sub) -> alookup e (hedges h') = alookup e (hedges h)) ->
  shape true h' prev (lreplace x new lt).
Proof.
  induction lt as [i n c sl IH] using ltree_ind'. intros prev p sub Sh Hnd Hned Hin Hx Hnewid Snew Fn Fe.
  rewrite lsubs_eq in Hin. rewrite lreplace_eq. destruct Hin as [[= <- <-]|Hin].
  { cbn [lid] in Hx. subst x. rewrite Nat.eqb_refl. exact Snew. }
  apply in_flat_map in Hin. destruct Hin as [s [Hs Hin]].
  destruct s as [[[es eis] chs]|]; [|destruct Hin].
  pose proof (lsubs_in_lids _ _ _ _ Hin) as Hxs. rewrite Hx in Hxs.
  pose proof Hnd as Hnd0. rewrite lids_eq in Hnd. apply NoDup_cons_iff in Hnd. destruct Hnd as [Hni Hnd]. fold (sids sl) in Hni, Hnd.
  rewrite leids_eq in Hned. fold (seids sl) in Hned.
  assert (Hix : i <> x). { intros ->. apply Hni. eapply in_sids; eassumption. }
  destruct (Nat.eqb_spec i x) as [E|_]; [contradiction|].
  destruct (In_nth_error _ _ Hs) as [js Hjs].
  assert (Hsubn : forall y, In y (lids sub) -> In y (lids chs)) by (intros y Hy; eapply lsubs_sub_lids; eassumption).
  assert (Hsube : forall y, In y (leids sub) -> In y (leids chs)) by (intros y Hy; eapply lsubs_sub_leids; eassumption).
  apply shape_unfold in Sh. destruct Sh as [hn (A1 & A2 & A3 & A4 & A5)].
  apply shape_unfold. exists hn. split.
  { rewrite Fn; [exact A1|left; reflexivity|]. intros Hi. apply Hni. eapply in_sids; [exact Hs|]. apply Hsubn. exact Hi. }
  split; [exact A2|]. split; [exact A3|]. split; [exact A4|].
  rewrite Forall_forall in IH.
  eapply Forall2_map_r_nth; [exact A5|]. intros j ce b Hj Hb Hok.
  destruct b as [[[e ei] ch]|]; cbn [slot_ok] in *; [|exact Hok].
  destruct Hok as (B1 & B2 & B3 & B4 & B5).
  pose proof (nth_error_In _ _ Hb) as Hbin.
  (* the edge of this slot is outside sub *)
  assert (He : ~ In e (leids sub)).
  { intros Hi. apply Hsube in Hi.
    assert (j = js).
    { eapply (NoDup_flat_map_nth _ _ _ _ _ _ e Hned Hb Hjs); cbn; [left; reflexivity|right; exact Hi]. }
    subst j. rewrite Hjs in Hb. injection Hb as -> -> ->.
    pose proof (NoDup_flat_map_in _ _ _ Hned Hs) as Hd. cbn in Hd. apply NoDup_cons_iff in Hd. exact (proj1 Hd Hi). }
  split; [exact B1|]. split; [exact B2|]. split; [rewrite (lid_lreplace x new ch Hnewid); exact B3|].
  split.
  { eapply edge_ok_eq; [|exact B4]. apply Fe; [|rewrite <- B2; exact He]. rewrite leids_eq. rewrite <- B2. eapply in_seids_here. exact Hbin. }
  destruct (Nat.eq_dec j js) as [->|Hjne].
  - rewrite Hjs in Hb. injection Hb as -> -> ->. rewrite <- B2. apply (IH _ Hs (Some (i, e)) p sub).
    + rewrite B2. exact B5.
    + exact (NoDup_flat_map_in _ _ _ Hnd Hs).
    + pose proof (NoDup_flat_map_in _ _ _ Hned Hs) as Hd. cbn in Hd. apply NoDup_cons_iff in Hd. exact (proj2 Hd).
    + exact Hin.
    + exact Hx.
    + exact Hnewid.
    + exact Snew.
    + intros y Hy Hy'. apply Fn; [eapply in_lids_child; eassumption|exact Hy'].
    + intros y Hy Hy'. apply Fe; [eapply in_leids_child; eassumption|exact Hy'].
  - assert (Hdisj : forall y, In y (lids ch) -> ~ In y (lids chs)).
    { intros y Hy Hy'. apply Hjne. eapply (NoDup_flat_map_nth _ _ _ _ _ _ y Hnd Hb Hjs); cbn; assumption. }
    assert (Hdisje : forall y, In y (leids ch) -> ~ In y (leids chs)).
    { intros y Hy Hy'. apply Hjne. eapply (NoDup_flat_map_nth _ _ _ _ _ _ y Hned Hb Hjs); cbn; right; assumption. }
    rewrite lreplace_notin by (intros Hy; exact (Hdisj x Hy Hxs)).
    eapply shape_frame; [| |exact B5].
    + intros y Hy. apply Fn; [eapply in_lids_child; eassumption|]. intros Hy'. exact (Hdisj y Hy (Hsubn y Hy')).
    + intros y Hy. apply Fe; [eapply in_leids_child; eassumption|]. intros Hy'. exact (Hdisje y Hy (Hsube y Hy')).
Qed.

Lemma lnup_map_replace f sl : lnup (map (lreplace_slot f) sl) = lnup sl.
Proof. unfold lnup. induction sl as [|[[[e ei] ch]|] sl IH]; cbn; [reflexivity|exact IH|f_equal; exact IH]. Qed.

Lemma lreplace_lwf_sub x new : lwf_sub new -> forall lt, lwf_sub lt -> lwf_sub (lreplace x new lt).
Proof.
  intros Hnew. induction lt as [i n c sl IH] using ltree_ind'. intros W. rewrite lreplace_eq.
  destruct (Nat.eqb i x); [exact Hnew|]. apply lwf_sub_iff in W. destruct W as [W1 W2]. apply lwf_sub_iff.
  split; [rewrite lnup_map_replace; exact W1|]. intros e ei ch Hin. apply in_map_iff in Hin.
  destruct Hin as [[[[e' ei'] ch']|] [E Hin]]; [|discriminate]. cbn in E. injection E as <- <- <-.
  rewrite Forall_forall in IH. apply (IH _ Hin). exact (W2 _ _ _ Hin).
Qed.

Lemma lreplace_lwf_root x new lt : lwf lt -> (lid lt = x -> lwf new) -> (lid lt <> x -> lwf_sub new) ->
  lwf (lreplace x new lt).
Proof.
  intros W H1 H2. destruct lt as [i n c sl]. rewrite lreplace_eq. cbn [lid] in *.
  destruct (Nat.eqb_spec i x) as [E|E]; [exact (H1 E)|]. apply lwf_iff in W. destruct W as [W1 W2]. apply lwf_iff.
  split; [rewrite lnup_map_replace; exact W1|]. intros e ei ch Hin. apply in_map_iff in Hin.
  destruct Hin as [[[[e' ei'] ch']|] [E' Hin]]; [|discriminate]. cbn in E'. injection E' as <- <- <-.
  apply lreplace_lwf_sub; [exact (H2 E)|exact (W2 _ _ _ Hin)].
Qed.

Lemma lsubs_head : forall lt prev p sub, NoDup (lids lt) -> In (p, sub) (lsubs prev lt) -> lid sub = lid lt ->
  (p, sub) = (prev, lt).
Proof.
  intros [i n c sl] prev p sub Hnd Hin Hl. rewrite lsubs_eq in Hin. destruct Hin as [E|Hin]; [symmetry; exact E|]. exfalso.
  rewrite lids_eq in Hnd. apply NoDup_cons_iff in Hnd. apply (proj1 Hnd). cbn [lid] in Hl. rewrite <- Hl.
  apply in_flat_map in Hin. destruct Hin as [s [Hs Hin]]. destruct s as [[[e ei] ch]|]; [|destruct Hin].
  eapply in_sids; [exact Hs|]. eapply lsubs_in_lids. exact Hin.
Qed.

(** * a represented heap after a local change *)
Theorem Rep_replace h h' lt x p sub new :
  Rep h lt -> In (p, sub) (lsubs None lt) -> lid sub = x -> lid new = x ->
  shape true h' p new ->
  (forall n, In n (lids lt) -> ~ In n (lids sub) -> alookup n (hnodes h') = alookup n (hnodes h)) ->
  (forall e, In e (leids lt) -> ~ In e (leids sub) -> alookup e (hedges h') = alookup e (hedges h)) ->
  (lwf sub -> lwf new) -> (lwf_sub sub -> lwf_sub new) ->
  hroot h' = hroot h ->
  NoDup (lids new) -> (forall y, In y (lids new) -> In y (lids sub) \/ ~ In y (lids lt)) ->
  NoDup (leids new) -> (forall y, In y (leids new) -> In y (leids sub) \/ ~ In y (leids lt)) ->
  (forall y, alookup y (hnodes h') <> None <-> In y (lids new) \/ (In y (lids lt) /\ ~ In y (lids sub))) ->
  (forall y, alookup y (hedges h') <> None <-> In y (leids new) \/ (In y (leids lt) /\ ~ In y (leids sub))) ->
  (forall y, alookup y (hnodes h') <> None -> y < hnextn h') ->
  (forall y, alookup y (hedges h') <> None -> y < hnexte h') ->
  Rep h' (lreplace x new lt).
Proof.
  intros R Hin Hx Hnx Snew Fn Fe W1 W2 Hroot Nn Cn Ne Ce Dn De Frn Fre.
  destruct (lreplace_perm x new lt None p sub (rep_nd _ _ R) Hin Hx) as (rn & re & P1 & P2 & P3 & P4).
  pose proof (Permutation_NoDup P1 (rep_nd _ _ R)) as Nd1. apply NoDup_app_iff in Nd1. destruct Nd1 as (Na & Nb & Nc).
  pose proof (Permutation_NoDup P3 (rep_ned _ _ R)) as Nd3. apply NoDup_app_iff in Nd3. destruct Nd3 as (Ea & Eb & Ec).
  assert (Hrn : forall y, In y rn <-> In y (lids lt) /\ ~ In y (lids sub)).
  { intros y. split.
    - intros Hy. split; [eapply Permutation_in; [symmetry; exact P1|apply in_or_app; right; exact Hy]|]. intros Hy'. exact (Nc y Hy' Hy).
    - intros [Hy Hy']. apply (Permutation_in _ P1) in Hy. apply in_app_or in Hy. destruct Hy; [contradiction|assumption]. }
  assert (Hre : forall y, In y re <-> In y (leids lt) /\ ~ In y (leids sub)).
  { intros y. split.
    - intros Hy. split; [eapply Permutation_in; [symmetry; exact P3|apply in_or_app; right; exact Hy]|]. intros Hy'. exact (Ec y Hy' Hy).
    - intros [Hy Hy']. apply (Permutation_in _ P3) in Hy. apply in_app_or in Hy. destruct Hy; [contradiction|assumption]. }
  assert (In1 : forall y, In y (lids (lreplace x new lt)) <-> In y (lids new) \/ In y rn).
  { intros y. split; intros Hy.
    - apply (Permutation_in _ P2) in Hy. apply in_app_or in Hy. exact Hy.
    - eapply Permutation_in; [symmetry; exact P2|]. apply in_or_app. exact Hy. }
  assert (In2 : forall y, In y (leids (lreplace x new lt)) <-> In y (leids new) \/ In y re).
  { intros y. split; intros Hy.
    - apply (Permutation_in _ P4) in Hy. apply in_app_or in Hy. exact Hy.
    - eapply Permutation_in; [symmetry; exact P4|]. apply in_or_app. exact Hy. }
  constructor.
  - rewrite Hroot, (rep_root _ _ R). symmetry. apply lid_lreplace. exact Hnx.
  - eapply lreplace_shape; try eassumption; [exact (rep_shape _ _ R)|exact (rep_nd _ _ R)|exact (rep_ned _ _ R)].
  - apply lreplace_lwf_root; [exact (rep_wf _ _ R)| |].
    + intros E. apply W1. rewrite <- Hx in E. symmetry in E.
      pose proof (lsubs_head lt None p sub (rep_nd _ _ R) Hin E) as E2. injection E2 as _ ->. exact (rep_wf _ _ R).
    + intros E. apply W2. destruct (lwf_sub_lsubs lt None p sub (or_introl (rep_wf _ _ R)) Hin) as [E2|Hw]; [|exact Hw].
      injection E2 as _ ->. congruence.
  - eapply Permutation_NoDup; [symmetry; exact P2|]. apply NoDup_app_iff. repeat split; [exact Nn|exact Nb|].
    intros y Hy Hy'. apply Hrn in Hy'. destruct Hy' as [Y1 Y2]. destruct (Cn y Hy); contradiction.
  - eapply Permutation_NoDup; [symmetry; exact P4|]. apply NoDup_app_iff. repeat split; [exact Ne|exact Eb|].
    intros y Hy Hy'. apply Hre in Hy'. destruct Hy' as [Y1 Y2]. destruct (Ce y Hy); contradiction.
  - intros y. rewrite In1, Hrn, Dn. reflexivity.
  - intros y. rewrite In2, Hre, De. reflexivity.
  - intros y Hy. apply Frn. apply Dn. apply In1 in Hy. rewrite Hrn in Hy. exact Hy.
  - intros y Hy. apply Fre. apply De. apply In2 in Hy. rewrite Hre in Hy. exact Hy.
Qed.
