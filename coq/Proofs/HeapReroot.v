(** Heap model: Tree.Reroot on the heap preserves [Good] (every edge ends up pointing away
    from the NEW root) and refines [reroot] of Model/Reroot.v through [abs]. *)
From Coq Require Import String ZArith QArith Bool Arith Lia Permutation List.
From GT Require Import Base.UTree Model.Reroot Model.Heap Proofs.Enum Proofs.HeapBase Proofs.HeapRep
     Proofs.HeapGood Proofs.HeapGoodRep Proofs.HeapRerootL Proofs.HeapReorder.
Import ListNotations.
Local Close Scope Q_scope.
Local Open Scope string_scope.

Lemma Rep_tree_nodes h lt : Rep h lt -> tree_nodes h = HOk (lids lt).
Proof.
  intros R. unfold tree_nodes. rewrite (rep_root _ _ R).
  apply (nodes_rec_ok true h lt None (hfuel h) (rep_shape _ _ R)).
  - discriminate.
  - exact (rep_nd _ _ R).
  - unfold hfuel. pose proof (Rep_fuel _ _ R). lia.
Qed.

Lemma existsb_eqb_In n l : existsb (Nat.eqb n) l = true <-> In n l.
Proof.
  rewrite existsb_exists. split.
  - intros [x [Hx E]]. apply Nat.eqb_eq in E. subst. exact Hx.
  - intros H. exists n. split; [exact H|apply Nat.eqb_refl].
Qed.

Theorem reroot_heap_total h lt j n : Rep h lt -> nth_error (lids lt) j = Some n ->
  (exists h' lt', reroot_heap n h = HOk h' /\ reroot (erase lt) j = Ok (erase lt') /\ Rep h' lt' /\ lid lt' = n) \/
  (reroot_heap n h = HErr "Cannot reroot on a tip node" /\ reroot (erase lt) j = Err "Cannot reroot on a tip node").
Proof.
  intros R Hj.
  assert (Hin : In n (lids lt)) by (eapply nth_error_In; exact Hj).
  destruct (paths_nth lt j n Hj) as (p & sub & P1 & P2 & P3).
  destruct (lnode_at_lsubs p lt None sub P2) as [q Hq].
  pose proof (shape_lsubs _ _ _ _ _ _ (rep_shape _ _ R) Hq) as Shsub.
  pose proof (proj1 (rep_nodes _ _ R n) Hin) as Hn.
  destruct (alookup n (hnodes h)) as [hn|] eqn:En; [clear Hn|congruence].
  destruct sub as [i nm cm sl]. cbn in P3. subst i.
  destruct (shape_length _ _ _ _ _ _ _ _ Shsub En) as [Ln _].
  unfold reroot_heap, get_node. rewrite En. cbn [hbind].
  unfold reroot. rewrite P1, erase_node_at, P2. cbn [option_map]. rewrite erase_eq. unfold degree. cbn [uslots].
  rewrite map_length, Ln.
  destruct (Nat.ltb (length sl) 2) eqn:Elt; [right; split; reflexivity|]. left.
  rewrite (Rep_tree_nodes _ _ R). cbn [hbind]. rewrite (proj2 (existsb_eqb_In n (lids lt)) Hin).
  destruct (lreroot_path_ok p lt n) as [lt' [Q1 Q2]]; [rewrite P2; reflexivity|].
  rewrite erase_reroot_path, Q1. cbn [option_map].
  destruct (reroot_path_shape h p lt lt' (shape_weaken _ _ _ _ (rep_shape _ _ R)) (rep_wf _ _ R) (rep_nd _ _ R) Q1)
    as (S1 & W1 & P1' & P2').
  pose proof (Permutation_NoDup P1' (rep_nd _ _ R)) as Nd'.
  pose proof (Permutation_NoDup P2' (rep_ned _ _ R)) as Ned'.
  destruct (reorder_ok lt' (hfuel h) None (set_root h n)) as [h' (E1 & (SN1 & SN2 & SN3 & SN4) & F1 & S2)].
  - eapply shape_transfer; [| |exact S1]; [reflexivity|]. intros e i c ei _ Hok. exact Hok.
  - exact Nd'.
  - exact Ned'.
  - exact I.
  - pose proof (lheight_le_lids lt'). rewrite <- (Permutation_length P1') in H.
    pose proof (lids_le_nodes h lt (rep_nd _ _ R) (fun x Hx => proj1 (rep_nodes _ _ R x) Hx)). unfold hfuel. lia.
  - rewrite Q2 in E1. cbn [option_map] in E1. exists h', lt'. split; [exact E1|]. split; [reflexivity|]. split; [|exact Q2].
    constructor; try assumption.
    + rewrite SN2. cbn. symmetry. exact Q2.
    + intros x. rewrite SN1. cbn [set_root hnodes]. rewrite <- (rep_nodes _ _ R x).
      split; intros Hx; [eapply Permutation_in; [symmetry; exact P1'|exact Hx]|eapply Permutation_in; [exact P1'|exact Hx]].
    + intros e. split.
      * apply (shape_leids_exist _ _ _ _ S2).
      * intros He. destruct (in_dec Nat.eq_dec e (leids lt')) as [Hi|Hni]; [exact Hi|].
        rewrite (F1 e Hni) in He. cbn in He. apply (rep_edges _ _ R) in He.
        eapply Permutation_in; [exact P2'|exact He].
    + intros x Hx. rewrite SN3. cbn. apply (rep_fn _ _ R). eapply Permutation_in; [symmetry; exact P1'|exact Hx].
    + intros e He. rewrite SN4. cbn. apply (rep_fe _ _ R). eapply Permutation_in; [symmetry; exact P2'|exact He].
Qed.

(** * statements on [Good] and [abs] *)

Lemma Good_abs_Rep h t : Good h -> abs h = Some t -> exists lt, Rep h lt /\ erase lt = t.
Proof.
  intros G Ha. destruct (Good_Rep h G) as [lt R]. exists lt. split; [exact R|].
  rewrite (Rep_abs _ _ R) in Ha. congruence.
Qed.

(** Reroot keeps the invariant: in particular every edge points away from the new root *)
Theorem reroot_heap_good h n h' : Good h -> reroot_heap n h = HOk h' -> Good h' /\ hroot h' = n.
Proof.
  intros G E. destruct (Good_Rep h G) as [lt R].
  assert (Hin : In n (lids lt)).
  { apply (rep_nodes _ _ R). unfold reroot_heap, get_node in E. destruct (alookup n (hnodes h)); discriminate. }
  destruct (In_nth_error _ _ Hin) as [j Hj].
  destruct (reroot_heap_total h lt j n R Hj) as [(h2 & lt' & E1 & E2 & R' & L)|[E1 _]]; [|congruence].
  rewrite E in E1. injection E1 as <-. split; [eapply Rep_Good; exact R'|].
  rewrite (rep_root _ _ R'). exact L.
Qed.

(** the refinement square, with the error case: [n] is the j-th node of Tree.Nodes() *)
Theorem reroot_heap_refines h t ns j n : Good h -> abs h = Some t ->
  tree_nodes h = HOk ns -> nth_error ns j = Some n ->
  match reroot_heap n h with
  | HOk h' => exists t', reroot t j = Ok t' /\ abs h' = Some t'
  | HErr m => reroot t j = Err m
  | HPanic => False
  end.
Proof.
  intros G Ha Hns Hj. destruct (Good_abs_Rep h t G Ha) as [lt [R <-]].
  rewrite (Rep_tree_nodes _ _ R) in Hns. injection Hns as <-.
  destruct (reroot_heap_total h lt j n R Hj) as [(h2 & lt' & E1 & E2 & R' & L)|[E1 E2]]; rewrite E1.
  - exists (erase lt'). split; [exact E2|apply Rep_abs; exact R'].
  - exact E2.
Qed.

Corollary reroot_heap_square h t ns j n h' : Good h -> abs h = Some t ->
  tree_nodes h = HOk ns -> nth_error ns j = Some n -> reroot_heap n h = HOk h' ->
  exists t', reroot t j = Ok t' /\ abs h' = Some t'.
Proof.
  intros G Ha Hns Hj E. pose proof (reroot_heap_refines h t ns j n G Ha Hns Hj) as H. rewrite E in H. exact H.
Qed.

(** on a good heap Tree.Nodes() succeeds, lists every node once, in the order of [nodes] *)
Theorem tree_nodes_good h t : Good h -> abs h = Some t ->
  exists ns, tree_nodes h = HOk ns /\ NoDup ns /\ length ns = length (nodes t) /\
             forall n, In n ns <-> alookup n (hnodes h) <> None.
Proof.
  intros G Ha. destruct (Good_abs_Rep h t G Ha) as [lt [R <-]]. exists (lids lt).
  split; [apply Rep_tree_nodes; exact R|]. split; [exact (rep_nd _ _ R)|]. split; [|exact (rep_nodes _ _ R)].
  clear. induction lt as [i n c sl IH] using ltree_ind'. rewrite erase_eq, lids_eq. cbn [nodes length]. f_equal.
  induction IH as [|s sl Hs _ IHsl]; [reflexivity|]. cbn [map flat_map]. rewrite !app_length, IHsl. f_equal.
  destruct s as [[[e ei] ch]|]; [exact Hs|reflexivity].
Qed.
