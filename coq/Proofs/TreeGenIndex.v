(** C16 "indexes ready for use": every generated tree is a tree on which the model of
    ReinitIndexes (Model/Index.v, C04) succeeds and whose tables describe the tree: tip ids are
    the ranks of the names, every branch has the bitset of the tips below it, the counts and
    partial hashes of both sides. *)
From Coq Require Import String NArith ZArith QArith Bool Arith Lia List Permutation Sorted.
From GT Require Import Base.UTree Spec.Obs Spec.GenShape Spec.Counting Model.Reroot Model.Rand2 Model.TreeGen Model.Index
     Proofs.IndexBase Proofs.IndexTree Proofs.IndexSplit
     Proofs.TreeGenNames Proofs.TreeGenMain Proofs.TreeGenBal.
Import ListNotations.
Local Close Scope Q_scope.

(** what "indexes ready" means for a tree: the model of ReinitIndexes returns tables, the tip
    ids are the ranks of the tip names in the sorted names, and every row describes its branch *)
Definition indexes_ready (t : utree) : Prop :=
  index_tables t = Ok (mkTables (sorted_tip_names t)
                                (map (fun n => index_of n (sorted_tip_names t)) (tip_names t))
                                (rows t)) /\
  Permutation (sorted_tip_names t) (leaves t) /\
  StronglySorted name_le (sorted_tip_names t) /\
  Forall2 (fun name id => nth_error (sorted_tip_names t) id = Some name)
          (tip_names t) (map (fun n => index_of n (sorted_tip_names t)) (tip_names t)) /\
  Forall2 (row_describes (sorted_tip_names t) t) (edges t) (rows t).

Lemma good_indexes_ready t : good t -> indexes_ready t.
Proof.
  intros (W & D & ND). destruct (tables_spec t W D ND) as (P & S & F).
  repeat split; auto.
  - now apply index_tables_ok.
  - now apply tipids_spec.
Qed.

Lemma good_tree_good rooted n t : good_tree rooted n t -> good t.
Proof.
  intros (W & B & R & P & ND & L). repeat split; auto.
  unfold binary in B. apply andb_true_iff in B as [B _]. apply Nat.eqb_eq in B.
  destruct rooted; lia.
Qed.

Theorem good_tree_indexes_ready rooted n t : good_tree rooted n t -> indexes_ready t.
Proof. intros H. apply good_indexes_ready. eapply good_tree_good; eauto. Qed.

Theorem uniform_tree_indexes n rooted cs ls :
  3 <= n -> in_bounds cs (uniform_bounds n rooted) ->
  exists t, uniform_tree n rooted cs ls = GOk t /\ indexes_ready t.
Proof.
  intros Hn Hb. destruct (uniform_tree_ok n rooted cs ls Hn Hb) as [t [E G]].
  exists t. split; auto. eapply good_tree_indexes_ready; eauto.
Qed.

Theorem yule_tree_indexes n rooted cs ls :
  3 <= n -> in_bounds cs (yule_bounds n rooted) ->
  exists t, yule_tree n rooted cs ls = GOk t /\ indexes_ready t.
Proof.
  intros Hn Hb. destruct (yule_tree_ok n rooted cs ls Hn Hb) as [t [E G]].
  exists t. split; auto. eapply good_tree_indexes_ready; eauto.
Qed.

Theorem caterpillar_tree_indexes n rooted ls :
  3 <= n -> exists t, caterpillar_tree n rooted ls = GOk t /\ indexes_ready t.
Proof.
  intros Hn. destruct (caterpillar_tree_ok n rooted ls Hn) as [t [E G]].
  exists t. split; auto. eapply good_tree_indexes_ready; eauto.
Qed.

Theorem balanced_tree_indexes d (rooted : bool) ls :
  (if rooted then 1 else 2) <= d ->
  exists t, balanced_tree d rooted ls = GOk t /\ indexes_ready t.
Proof.
  intros Hd. destruct rooted.
  - destruct (balanced_tree_rooted_ok d ls Hd) as [t [E [G _]]].
    exists t. split; auto. eapply good_tree_indexes_ready; eauto.
  - destruct (balanced_tree_unrooted_ok d ls Hd) as [t [E [G _]]].
    exists t. split; auto. eapply good_tree_indexes_ready; eauto.
Qed.

Theorem star_tree_indexes n : 2 <= n -> exists t, star_tree n = GOk t /\ indexes_ready t.
Proof.
  intros Hn. destruct (star_tree_ok n Hn) as [t [E [W [S [D [L [ND _]]]]]]].
  exists t. split; auto. apply good_indexes_ready. repeat split; auto. lia.
Qed.

Theorem star_from_names_indexes names : 2 <= length names -> NoDup names ->
  exists t, star_tree_from_name names = GOk t /\ indexes_ready t.
Proof.
  intros Hn ND. destruct (star_of_ok names Hn) as [t [E [W [S [D [L _]]]]]].
  exists t. split; auto. apply good_indexes_ready. repeat split; auto; [lia|now rewrite L].
Qed.
