(** [usplits] of a rooted tree of the domain (root with two neighbours, not both tips; no
    single-child node; distinct tip names): the two root branches define the same bipartition and
    are merged (lengths added by [merge_len], larger support); every other branch defines a
    bipartition of its own.  Obtained from C08's theorem on unrooted trees applied to the tree
    re-hung on its first inner root child. *)
From Coq Require Import String ZArith QArith Bool Arith Lia List Permutation Sorted Setoid Morphisms.
From GT Require Import Base.UTree Spec.Obs Spec.Induced Spec.Contract Model.Reroot Spec.Unrooted
     Proofs.RerootBase Proofs.PruneBase Proofs.PairKeys Model.Prune Proofs.PruneStep Proofs.PruneSub Proofs.PruneRoot
     Proofs.CollapseBase Proofs.CollapseExact Proofs.CollapseResolve Proofs.OracleDist Proofs.OracleSets Proofs.CollapseOracle
     Proofs.CollapseOracleFull.
From GT Require Proofs.CompareBase Proofs.CompareMain Proofs.CompareDomain Proofs.CompareDupfree.
Import ListNotations.
Local Close Scope Q_scope.
Local Arguments n_up : simpl never.
Local Arguments leaves : simpl never.
Local Arguments wf_sub : simpl never.
Local Arguments no_single_sub : simpl never.
Local Arguments reparent : simpl never.

(** * folding a split list whose only repeated key is shared by two entries *)
Lemma fold_add_fresh l : forall acc,
    NoDup (map sside (acc ++ l)) -> fold_left (fun a s => add_split s a) l acc = acc ++ l.
Proof.
  induction l as [|s l IH]; simpl; intros acc H.
  - now rewrite app_nil_r.
  - rewrite CompareBase.add_split_fresh.
    + rewrite IH; rewrite <- app_assoc; simpl; auto.
    + rewrite map_app in H. simpl in H. apply NoDup_remove_2 in H.
      intro Hin. apply H. apply in_or_app. now left.
Qed.

Lemma foldsplits_rooted s1 s2 L1 L2 :
  sside s1 = sside s2 -> NoDup (map sside (s1 :: L1 ++ L2)) ->
  USplits.foldsplits (s1 :: L1 ++ s2 :: L2) = merge_split s1 s2 :: L1 ++ L2.
Proof.
  intros Ek Hn. unfold USplits.foldsplits. cbn [fold_left]. change (add_split s1 []) with [s1].
  rewrite fold_left_app.
  assert (N1 : NoDup (map sside ([s1] ++ L1))).
  { simpl. simpl in Hn. rewrite map_app in Hn. inversion Hn; subst. constructor.
    - intros H. apply H1. apply in_or_app. now left.
    - now apply NoDup_app_l in H2. }
  rewrite (fold_add_fresh L1 [s1] N1). cbn [fold_left].
  assert (E : add_split s2 (s1 :: L1) = merge_split s1 s2 :: L1).
  { simpl. unfold split_key_eqb. rewrite <- Ek. unfold sset_eqb.
    now rewrite (proj2 (list_eqb_eq _ _) eq_refl). }
  change ([s1] ++ L1) with (s1 :: L1). rewrite E.
  rewrite (fold_add_fresh L2 (merge_split s1 s2 :: L1)); [reflexivity|].
  simpl. simpl in Hn. exact Hn.
Qed.

(** * the domain *)
Definition rooted_dom (t : utree) : Prop :=
  wf t = true /\ no_single t = true /\ NoDup (leaves t) /\
  exists n cm e1 c1 e2 c2, t = UNode n cm [Some (e1, c1); Some (e2, c2)] /\
                           (is_tip c1 = false \/ is_tip c2 = false).

Notation keyA A := (fun p : einfo * utree => canon_side A (sset (leaves (snd p)))).

(** the tree re-hung on an inner root child is an unrooted tree of C08's domain *)
Lemma rehang_unrooted c1 e c2 :
  wf_sub c1 = true -> no_single_sub c1 = true ->
  is_tip c1 = false ->
  wf_sub c2 = true -> no_single_sub c2 = true ->
  NoDup (leaves c1 ++ leaves c2) ->
  let U := UNode (uname c1) (ucom c1) (drop_up (uslots c1) ++ [Some (e, reparent c2)]) in
  unrooted U /\ leaves U = leaves c1 ++ leaves c2 /\
  branches U = branches c1 ++ (e, reparent c2) :: branches c2.
Proof.
  destruct c1 as [n1 cm1 sl1]. simpl uname. simpl ucom. simpl uslots.
  intros Hw1 Hs1 Ht1 Hw2 Hs2 Hnd U.
  generalize (wf_sub_up _ Hw1) (wf_sub_kids _ Hw1) (nss_degree _ Hs1). simpl uslots. unfold degree. simpl uslots.
  intros Hu1 Hk1 Hd1.
  destruct (nontip_leaves _ Hw1 Ht1) as [Hne HL1]. simpl uslots in *.
  unfold is_tip, degree in Ht1. simpl in Ht1. apply Nat.eqb_neq in Ht1.
  assert (Hlen : 3 <= length sl1).
  { generalize (length_slots sl1). rewrite Hu1. destruct (kids_of sl1) as [|? [|? ?]]; simpl; try congruence; lia. }
  assert (EL : leaves U = leaves (UNode n1 cm1 sl1) ++ leaves c2).
  { unfold U. rewrite leaves_unfold, kids_of_app, kids_of_drop_up. simpl kids_of.
    destruct (kids_of sl1 ++ [(e, reparent c2)]) eqn:E0; [destruct (kids_of sl1); discriminate|]. rewrite <- E0.
    rewrite kleaves_app, HL1. unfold kleaves at 2. simpl. now rewrite reparent_leaves, app_nil_r. }
  assert (EB : branches U = branches (UNode n1 cm1 sl1) ++ (e, reparent c2) :: branches c2).
  { unfold U. rewrite !branches_unfold, brs_app, brs_cons_some. change (brs []) with (@nil (einfo * utree)).
    rewrite app_nil_r, reparent_branches. f_equal.
    clear. induction sl1 as [|[[e1 ch]|] r IH]; [reflexivity| |reflexivity].
    change (drop_up (Some (e1, ch) :: r)) with (Some (e1, ch) :: drop_up r). now rewrite !brs_cons_some, IH. }
  split; [|split; auto].
  unfold CompareDomain.unrooted, IndexSplit.good. repeat split.
  - unfold U. rewrite wf_unfold, n_up_app, n_up_drop_up, Hu1, kids_of_app, kids_of_drop_up, forallb_app. simpl.
    rewrite Hk1, reparent_wf_sub by auto. reflexivity.
  - unfold U, degree. simpl. rewrite app_length, length_drop_up by lia. simpl. lia.
  - now rewrite EL.
  - unfold U, degree. simpl. rewrite app_length, length_drop_up by lia. simpl. lia.
  - unfold U. rewrite no_single_unfold, kids_of_app, kids_of_drop_up, forallb_app. simpl.
    rewrite nss_unfold in Hs1. apply andb_true_iff in Hs1. destruct Hs1 as [_ Hs1].
    rewrite Hs1, reparent_nss by auto. reflexivity.
Qed.

(** * the splits of a rooted tree *)
Section Rooted.
  Variables (n : string) (cm : list string) (e1 e2 : einfo) (c1 c2 : utree).
  Let t := UNode n cm [Some (e1, c1); Some (e2, c2)].
  Hypothesis Hw : wf t = true.
  Hypothesis Hs : no_single t = true.
  Hypothesis Hn : NoDup (leaves t).
  Hypothesis Hinner : is_tip c1 = false \/ is_tip c2 = false.
  Let A := tipset t.

  Lemma rooted_parts :
    wf_sub c1 = true /\ wf_sub c2 = true /\ no_single_sub c1 = true /\ no_single_sub c2 = true /\
    leaves t = leaves c1 ++ leaves c2.
  Proof.
    unfold t in *. rewrite wf_unfold in Hw. rewrite no_single_unfold in Hs. simpl in Hw, Hs.
    rewrite !andb_true_r in *. apply andb_true_iff in Hw. apply andb_true_iff in Hs.
    repeat split; try tauto. rewrite leaves_unfold. simpl. unfold kleaves. simpl. now rewrite app_nil_r.
  Qed.

  Lemma root_key_shared : keyA A (e1, c1) = keyA A (e2, c2).
  Proof.
    destruct rooted_parts as [_ [_ [_ [_ EL]]]]. simpl snd.
    assert (Hn' : NoDup (leaves c1 ++ leaves c2)) by (rewrite <- EL; exact Hn).
    apply canon_side_complement; try apply sset_canon.
    - intros x. unfold A, tipset. rewrite !sset_In, EL, in_app_iff. auto.
    - intros x. unfold A, tipset. rewrite !sset_In, EL, in_app_iff. split.
      + intros Hx. split; auto. intros Hx1. eapply NoDup_app_disj; eauto.
      + tauto.
  Qed.

  Lemma rooted_keys_nodup :
    NoDup (map (keyA A) ((e1, c1) :: branches c1 ++ branches c2)).
  Proof.
    destruct rooted_parts as [Hw1 [Hw2 [Hs1 [Hs2 EL]]]].
    assert (Hn' : NoDup (leaves c1 ++ leaves c2)) by (rewrite <- EL; exact Hn).
    destruct Hinner as [Ht|Ht].
    - destruct (rehang_unrooted c1 e2 c2 Hw1 Hs1 Ht Hw2 Hs2 Hn') as [UU [UL UB]].
      set (U := UNode (uname c1) (ucom c1) (drop_up (uslots c1) ++ [Some (e2, reparent c2)])) in *.
      generalize (unrooted_keys_nodup U UU).
      assert (ET : tipset U = A).
      { unfold A, tipset. now rewrite UL, EL. }
      rewrite ET, UB, map_app. simpl map. rewrite reparent_leaves.
      intros H. pose proof root_key_shared as Ek. cbv beta in Ek. simpl snd in Ek. rewrite <- Ek in H.
      eapply Permutation_NoDup; [|exact H]. simpl map. rewrite map_app. simpl. symmetry. apply Permutation_middle.
    - assert (Hn2 : NoDup (leaves c2 ++ leaves c1)).
      { eapply Permutation_NoDup; [apply Permutation_app_comm|exact Hn']. }
      destruct (rehang_unrooted c2 e1 c1 Hw2 Hs2 Ht Hw1 Hs1 Hn2) as [UU [UL UB]].
      set (U := UNode (uname c2) (ucom c2) (drop_up (uslots c2) ++ [Some (e1, reparent c1)])) in *.
      generalize (unrooted_keys_nodup U UU).
      assert (ET : tipset U = A).
      { unfold A, tipset. rewrite UL, EL. apply sset_perm. apply Permutation_app_comm. }
      rewrite ET, UB, map_app. simpl map. rewrite reparent_leaves.
      intros H. eapply Permutation_NoDup; [|exact H]. simpl map. rewrite map_app.
      etransitivity; [symmetry; apply Permutation_middle|]. constructor. apply Permutation_app_comm.
  Qed.

  (** the merged root split *)
  Definition root_split : split := merge_split (csplit A (e1, c1)) (csplit A (e2, c2)).

  Theorem rooted_usplits :
    usplits t = root_split :: map (csplit A) (branches c1) ++ map (csplit A) (branches c2).
  Proof.
    rewrite USplits.usplits_eq. fold A. rewrite branch_splits_csplit. unfold t at 1.
    rewrite branches_unfold, !brs_cons_some. change (brs []) with (@nil (einfo * utree)). rewrite app_nil_r.
    simpl map. rewrite map_app. simpl map.
    apply foldsplits_rooted.
    - exact root_key_shared.
    - generalize rooted_keys_nodup. simpl map. rewrite !map_app, !map_map. auto.
  Qed.

  Lemma root_split_is_root : is_root_split t root_split = true.
  Proof.
    unfold is_root_split, root_keys, rooted, degree, t. simpl. rewrite orb_false_r.
    unfold sset_eqb. apply list_eqb_eq. reflexivity.
  Qed.

  Lemma nonroot_not_root p :
    In p (branches c1 ++ branches c2) -> is_root_split t (csplit A p) = false.
  Proof.
    intros Hp. unfold is_root_split, root_keys, rooted, degree, t. simpl. rewrite orb_false_r.
    destruct (sset_eqb _ _) eqn:E; auto. unfold sset_eqb in E. apply list_eqb_eq in E.
    generalize rooted_keys_nodup. simpl map. intros H. inversion H as [|? ? Hnot _]; subst.
    exfalso. apply Hnot. fold t in E. fold A in E. rewrite <- E. apply in_map_iff. exists p. auto.
  Qed.
End Rooted.
