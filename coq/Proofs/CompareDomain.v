(** C08, part 5: the hypotheses [dupfree] and [tipflags] of [compare_counts] hold for every
    unrooted tree of the property's domain: well formed, distinct tip names, root of degree >= 3,
    no node with a single child. *)
From Coq Require Import String NArith ZArith QArith Bool Arith Lia List Permutation Sorted.
From GT Require Import Base.UTree Spec.Obs Spec.CompareSpec Model.Reroot Model.Index
     Proofs.IndexBase Proofs.IndexTree Proofs.IndexSplit Proofs.Splits Proofs.USplits
     Proofs.CompareBase Proofs.CompareTree Proofs.CompareMain.
Import ListNotations.
Local Close Scope Q_scope.
Local Arguments leaves : simpl never.

Definition EL (ec : einfo * utree) : list string := leaves (snd ec).

(** * sizes *)
Lemma kids_leaves_ge (sl : list slot) : children_wf sl = true -> length (kids_of sl) <= length (sub_leaves sl).
Proof.
  induction sl as [|s r IH]; intros W; [simpl; lia|].
  destruct s as [[e c]|].
  - simpl in W. apply andb_prop in W. destruct W as [Wc Wr]. unfold sub_leaves in *. simpl. rewrite app_length.
    destruct (sub_spec [] c Wc) as (_ & _ & _ & NE). specialize (IH Wr).
    unfold kids_of in *. destruct (leaves c); [congruence|]. simpl. lia.
  - simpl in W. unfold sub_leaves, kids_of in *. simpl. apply IH. exact W.
Qed.

Lemma kids_of_app (a b : list slot) : kids_of (a ++ b) = kids_of a ++ kids_of b.
Proof. unfold kids_of. apply flat_map_app. Qed.

Lemma children_wf_app a b : children_wf (a ++ b) = true -> children_wf a = true /\ children_wf b = true.
Proof. unfold children_wf. rewrite forallb_app. apply andb_prop. Qed.

Lemma no_single_sub_inv n cm sl :
  no_single_sub (UNode n cm sl) = true ->
  length sl <> 2 /\ forall e c, In (Some (e, c)) sl -> no_single_sub c = true.
Proof.
  simpl. intros H. apply andb_prop in H. destruct H as [H1 H2]. split.
  - apply negb_true_iff, Nat.eqb_neq in H1. exact H1.
  - intros e c Hin. rewrite forallb_forall in H2. apply (H2 _ Hin).
Qed.

(** the leaves of a node split around one of its children *)
Lemma split_child (sl : list slot) e c :
  In (Some (e, c)) sl -> children_wf sl = true ->
  exists pre post, sl = pre ++ Some (e, c) :: post /\
                   sub_leaves sl = sub_leaves pre ++ leaves c ++ sub_leaves post /\
                   length (kids_of sl) = S (length (kids_of (pre ++ post))) /\
                   length (kids_of (pre ++ post)) <= length (sub_leaves pre ++ sub_leaves post).
Proof.
  intros Hin W. apply in_split in Hin. destruct Hin as (pre & post & ->).
  exists pre, post. split; auto. split; [apply sub_leaves_split|].
  destruct (children_wf_app _ _ W) as [Wp Wq]. simpl in Wq. apply andb_prop in Wq. destruct Wq as [_ Wq].
  split.
  - rewrite !kids_of_app, !app_length. simpl. lia.
  - rewrite kids_of_app, !app_length. pose proof (kids_leaves_ge _ Wp). pose proof (kids_leaves_ge _ Wq). lia.
Qed.

Lemma sub_sizes u :
  wf_sub u = true -> no_single_sub u = true ->
  (kids u <> [] -> 2 <= length (leaves u)) /\
  (forall ec, In ec (edges_below u) -> length (EL ec) + 1 <= length (leaves u)).
Proof.
  induction u as [n cm sl IH] using utree_ind'. intros W NS.
  pose proof W as W'. apply wf_sub_inv in W'. destruct W' as [Hup Hch].
  destruct (no_single_sub_inv _ _ _ NS) as [L2 NSc].
  pose proof (length_slots sl) as HL. rewrite Hup in HL.
  unfold kids. simpl uslots.
  destruct (kids_of sl) eqn:K.
  - split; [congruence|]. intros ec Hin. exfalso.
    simpl in Hin.
    assert (E : flat_map (fun s : slot => match s with
                                          | Some (e, c) => (e, c) :: (if Nat.ltb 1 (degree c) then edges_below c else [])
                                          | None => [] end) sl = []).
    { clear - K. unfold kids_of in K. induction sl as [|[[e c]|] r IHr]; simpl in *; auto. discriminate. }
    rewrite E in Hin. destruct Hin.
  - assert (K2 : 2 <= length (kids_of sl)) by (rewrite K in *; simpl in *; lia).
    rewrite <- K in *. clear K.
    rewrite leaves_node by (intro Z; rewrite Z in K2; simpl in K2; lia).
    split.
    + intros _. pose proof (kids_leaves_ge sl Hch). lia.
    + intros ec Hin. apply edges_below_in in Hin. destruct Hin as (e & c & Hs & Hc). simpl uslots in Hs.
      destruct (split_child sl e c Hs Hch) as (pre & post & _ & SL & KL & KO).
      rewrite SL, !app_length. rewrite app_length in KO.
      destruct Hc as [->|[_ Hin]].
      * unfold EL. simpl. lia.
      * rewrite Forall_forall in IH. specialize (IH _ Hs). simpl in IH.
        destruct (IH (children_wf_in _ _ _ Hch Hs) (NSc _ _ Hs)) as [_ IH2].
        specialize (IH2 _ Hin). lia.
Qed.

Lemma edges_below_no_single u ec :
  (forall e c, In (Some (e, c)) (uslots u) -> no_single_sub c = true) ->
  In ec (edges_below u) -> no_single_sub (snd ec) = true.
Proof.
  induction u as [n cm sl IH] using utree_ind'. simpl uslots. intros NS Hin.
  apply edges_below_in in Hin. destruct Hin as (e & c & Hs & Hc). simpl uslots in Hs.
  destruct Hc as [->|[_ Hin]]; [apply (NS _ _ Hs)|].
  rewrite Forall_forall in IH. specialize (IH _ Hs). simpl in IH. apply IH; auto.
  destruct c as [n' cm' sl']. simpl uslots. apply (no_single_sub_inv _ _ _ (NS _ _ Hs)).
Qed.

(** the domain *)
Definition unrooted (t : utree) : Prop := good t /\ 3 <= degree t /\ no_single t = true.

Lemma unrooted_children t :
  unrooted t -> children_wf (uslots t) = true /\ n_up (uslots t) = 0 /\
                (forall e c, In (Some (e, c)) (uslots t) -> no_single_sub c = true) /\
                3 <= length (kids_of (uslots t)).
Proof.
  intros ((W & _ & _) & D & NS). destruct t as [n cm sl]. apply wf_inv in W. destruct W as [Hup Hch].
  unfold degree in D. simpl in *. pose proof (length_slots sl) as HL. rewrite Hup in HL.
  repeat split; auto; [|lia].
  intros e c Hin. unfold no_single, kids in NS. simpl in NS. rewrite forallb_forall in NS.
  apply (NS (e, c)). unfold kids_of. apply in_flat_map. exists (Some (e, c)). split; auto. now left.
Qed.

(** every branch leaves at least two tips outside; an inner branch has at least two below *)
Lemma root_sizes t :
  unrooted t -> forall ec, In ec (edges t) ->
    length (EL ec) + 2 <= length (leaves t) /\ (is_tip (snd ec) = false -> 2 <= length (EL ec)).
Proof.
  intros U ec Hin. destruct (unrooted_children t U) as (Hch & Hup & NSc & K3).
  destruct t as [n cm sl]. simpl uslots in *. unfold edges in Hin.
  pose proof (edges_below_wf (UNode n cm sl) ec Hch Hin) as Wec.
  pose proof (edges_below_no_single (UNode n cm sl) ec NSc Hin) as NSec.
  split.
  - apply edges_below_in in Hin. destruct Hin as (e & c & Hs & Hc). simpl uslots in Hs.
    destruct (split_child sl e c Hs Hch) as (pre & post & _ & SL & KL & KO).
    rewrite leaves_node by (intro Z; rewrite Z in K3; simpl in K3; lia).
    rewrite SL, !app_length. rewrite app_length in KO.
    destruct Hc as [->|[_ Hin]].
    + unfold EL. simpl. lia.
    + destruct (sub_sizes c (children_wf_in _ _ _ Hch Hs) (NSc _ _ Hs)) as [_ S2]. specialize (S2 _ Hin). lia.
  - intros NT. destruct (sub_sizes (snd ec) Wec NSec) as [S1 _]. apply S1.
    rewrite (is_tip_isleafb _ Wec) in NT. unfold isleafb in NT. destruct (kids (snd ec)); congruence.
Qed.

(** * tip flags *)
Lemma NoDup_sorted_slt l : StronglySorted slt l -> NoDup l.
Proof.
  induction 1; constructor; auto. intro Hin. rewrite Forall_forall in H0. apply (slt_irrefl a). now apply H0.
Qed.

Lemma sset_length l : NoDup l -> length (sset l) = length l.
Proof.
  intros ND. apply Permutation_length. apply NoDup_Permutation; auto.
  - apply NoDup_sorted_slt, sset_sorted.
  - intros x. apply sset_In.
Qed.

Lemma sdiff_length (all X : list string) :
  NoDup all -> NoDup X -> incl X all -> length (sdiff all X) = length all - length X.
Proof.
  intros Na Nx I. unfold sdiff.
  pose proof (filter_partition_length (fun x => negb (smem x X)) all) as P.
  assert (E : length (filter (fun x => negb (negb (smem x X))) all) = length X).
  { apply Permutation_length. apply NoDup_Permutation; auto.
    - apply NoDup_filter. exact Na.
    - intros x. rewrite filter_In, negb_involutive, smem_In. split; [tauto|]. intros Hx. split; auto. }
  lia.
Qed.

Lemma canon_side_length (L A : list string) :
  NoDup L -> NoDup A -> incl A L ->
  length (canon_side (sset L) (sset A)) = length A \/
  length (canon_side (sset L) (sset A)) = length L - length A.
Proof.
  intros NL NA I. unfold canon_side. destruct (sset L) as [|m r] eqn:E.
  - left. now apply sset_length.
  - destruct (smem m (sset A)).
    + right. rewrite <- E. rewrite sdiff_length.
      * now rewrite !sset_length.
      * apply NoDup_sorted_slt, sset_sorted.
      * apply NoDup_sorted_slt, sset_sorted.
      * intros x Hx. apply sset_In. apply I. apply (proj1 (sset_In _ _) Hx).
    + left. now apply sset_length.
Qed.

Theorem unrooted_tipflags t : unrooted t -> tipflags t.
Proof.
  intros U s Hs. pose proof U as (G & D3 & NS). pose proof G as (W & D & ND).
  destruct (unrooted_children t U) as (Hch & _ & _ & _).
  rewrite (branch_splits_edges _ _ Hch) in Hs. apply in_map_iff in Hs. destruct Hs as (ec & <- & Hin).
  destruct (root_sizes t U ec Hin) as [S1 S2]. fold (edges t) in Hin.
  pose proof (edges_below_wf _ _ Hch Hin) as Wec.
  pose proof (edges_below_leaves t ec Hin) as I.
  pose proof (edges_below_nodup t ec ND Hin) as NDc.
  unfold split_of, nontrivial_split. cbn [stip sside].
  rewrite <- (is_tip_isleafb _ Wec).
  unfold tipset at 2. rewrite (sset_length _ ND).
  unfold EL in *.
  destruct (canon_side_length (leaves t) (leaves (snd ec)) ND NDc I) as [E|E]; unfold tipset; rewrite E.
  - destruct (is_tip (snd ec)) eqn:T.
    + (* a tip: one leaf *)
      assert (L1 : length (leaves (snd ec)) = 1).
      { rewrite (is_tip_isleafb _ Wec) in T. unfold isleafb in T. destruct (snd ec) as [n cm sl]. unfold kids in T. simpl in T.
        destruct (kids_of sl) eqn:K; [|discriminate]. now rewrite leaves_no_kids. }
      rewrite L1. reflexivity.
    + specialize (S2 eq_refl). symmetry. apply negb_false_iff. apply andb_true_iff. split; apply Nat.leb_le; lia.
  - destruct (is_tip (snd ec)) eqn:T.
    + assert (L1 : length (leaves (snd ec)) = 1).
      { rewrite (is_tip_isleafb _ Wec) in T. unfold isleafb in T. destruct (snd ec) as [n cm sl]. unfold kids in T. simpl in T.
        destruct (kids_of sl) eqn:K; [|discriminate]. now rewrite leaves_no_kids. }
      rewrite L1. symmetry. apply negb_true_iff. apply andb_false_iff. right. apply Nat.leb_gt. lia.
    + specialize (S2 eq_refl). symmetry. apply negb_false_iff. apply andb_true_iff. split; apply Nat.leb_le; lia.
Qed.
