(** The down-pass reports, at every inner node, exactly the states that the node takes in
    the most-parsimonious labellings of the whole tree. *)
From Coq Require Import String ZArith QArith Bool Arith Lia List.
From GT Require Import Base.UTree Spec.Obs Spec.Parsimony Model.Reroot Model.Parsimony
     Proofs.ParsimonyVec Proofs.ParsimonyHartigan Proofs.ParsimonyReroot Proofs.ParsimonyCtx.
Import ListNotations.
Local Close Scope Q_scope.

(** the inner loop of parsimonyDOWNPASS over the children, named *)
Definition down_kids (basem roots : list vec) (k : nat) : nat -> list vtree -> list vtree :=
  fix go (i : nat) (l : list vtree) : list vtree :=
    match l with
    | [] => []
    | c :: r => downpass false (compute_parsimony (vsum k (basem ++ remove_nth i roots))) k c :: go (S i) r
    end.

Lemma downpass_node : forall isroot up k v c0 ks,
  downpass isroot up k (VNode v (c0 :: ks)) =
  let roots := map vroot (c0 :: ks) in
  let basem := if isroot then [] else [up] in
  VNode (if isroot then v else compute_parsimony (vsum k (basem ++ roots)))
        (down_kids basem roots k 0 (c0 :: ks)).
Proof. reflexivity. Qed.

Lemma down_kids_nth : forall basem roots k l s j c,
  nth_error l j = Some c ->
  nth_error (down_kids basem roots k s l) j =
  Some (downpass false (compute_parsimony (vsum k (basem ++ remove_nth (s + j) roots))) k c).
Proof.
  induction l as [|a l IH]; intros s j c H.
  - destruct j; discriminate.
  - destruct j; simpl in *.
    + inversion H; subst. rewrite Nat.add_0_r. reflexivity.
    + rewrite (IH (S s) j c H). replace (S s + j) with (s + S j) by lia. reflexivity.
Qed.

Section Down.
Variable tv : string -> vec.
Variable ts : string -> list nat.
Variable k : nat.
Variable T : utree.

Notation kid_results := (kid_results tv k).
Notation edge_slot := (edge_slot tv ts k).
Notation rs_ok := (rs_ok k).

(** [base]: what lies above the node of path [p] (nothing for the root), as a list of
    "vector + constant" contributions *)
Definition ctx_ok (p : list nat) (c : utree) (base : list (vtree * nat)) : Prop :=
  rs_ok base /\
  (forall L lc, shape_ok T L = true -> lsub L p = Some lc ->
                contrib (lroot lc) base + cost ts c lc <= cost ts T L) /\
  (forall lc, shape_ok c lc = true ->
              exists L, shape_ok T L = true /\ lsub L p = Some lc /\
                        cost ts T L = contrib (lroot lc) base + cost ts c lc).

Lemma ctx_root : ctx_ok [] T [].
Proof.
  split; [constructor|]. split.
  - intros L lc _ H. simpl in H. inversion H; subst. simpl. lia.
  - intros lc H. exists lc. simpl. auto.
Qed.

(** ** the total cost as a function of the state at a node *)
Lemma node_total : forall p n cm sl base,
  node_at T p = Some (UNode n cm sl) -> ctx_ok p (UNode n cm sl) base ->
  Forall edge_slot sl -> kid_results sl <> [] ->
  let rs := base ++ kid_results sl in
  let sum := vsum k (kvecs rs) in
  (forall L lc, shape_ok T L = true -> lsub L p = Some lc ->
                sumc rs + length rs <= cost ts T L + nth (lroot lc) sum 0) /\
  (forall x, exists L, shape_ok T L = true /\ label_at L p = Some x /\
                       cost ts T L + nth x sum 0 = sumc rs + length rs).
Proof.
  intros p n cm sl base Hn [Hb [LB UB]] Hf Hne rs sum.
  assert (Hrs : rs_ok rs).
  { unfold rs. apply Forall_app. split; [exact Hb | apply (kid_results_ok tv ts k); exact Hf]. }
  assert (Hrne : rs <> []).
  { unfold rs. intro Q. apply app_eq_nil in Q. destruct Q. contradiction. }
  destruct (contrib_formula k rs Hrs Hrne) as [Hc _]. fold sum in Hc.
  split.
  - intros L lc Hs Hl.
    destruct (shape_lsub p T L _ Hs Hn) as [lc' [Hl' Hsc]].
    rewrite Hl in Hl'. inversion Hl'; subst lc'.
    specialize (LB L lc Hs Hl). destruct lc as [x ll]. simpl lroot in *.
    rewrite shape_ok_unfold in Hsc. rewrite cost_unfold in LB.
    pose proof (slots_LB tv ts k sl ll x Hf Hsc) as Q.
    specialize (Hc x). pose proof (contrib_app x base (kid_results sl)) as CA. fold rs in CA. lia.
  - intros x.
    destruct (slots_UB tv ts k sl x Hf) as [ll [Hs Hcst]].
    destruct (UB (LNode x ll)) as [L [HsL [HlL HcL]]]; [rewrite shape_ok_unfold; exact Hs|].
    exists L. split; [exact HsL|]. split.
    + unfold label_at. rewrite HlL. reflexivity.
    + rewrite HcL, cost_unfold, Hcst. simpl lroot.
      specialize (Hc x). pose proof (contrib_app x base (kid_results sl)) as CA. fold rs in CA. lia.
Qed.

Lemma node_opt_iff : forall p n cm sl base x,
  node_at T p = Some (UNode n cm sl) -> ctx_ok p (UNode n cm sl) base ->
  Forall edge_slot sl -> kid_results sl <> [] ->
  let sum := vsum k (kvecs (base ++ kid_results sl)) in
  (opt_state_at ts T p x <-> nth x sum 0 = vmax sum).
Proof.
  intros p n cm sl base x Hn Hctx Hf Hne sum.
  destruct (node_total p n cm sl base Hn Hctx Hf Hne) as [LB UB]. fold sum in LB, UB.
  set (rs := base ++ kid_results sl) in *.
  assert (Hrs : rs_ok rs).
  { unfold rs. apply Forall_app. split; [apply Hctx | apply (kid_results_ok tv ts k); exact Hf]. }
  assert (Hrne : rs <> []).
  { unfold rs. intro Q. apply app_eq_nil in Q. destruct Q. contradiction. }
  destruct (contrib_formula k rs Hrs Hrne) as [_ [_ [_ [_ [Hms _]]]]]. fold sum in Hms.
  split.
  - intros [L [[HsL Hopt] Hlab]].
    destruct (UB (first_max sum)) as [L0 [Hs0 [_ Hc0]]]. rewrite Hms in Hc0.
    specialize (Hopt L0 Hs0).
    unfold label_at in Hlab. destruct (lsub L p) as [lc|] eqn:El; [|discriminate].
    inversion Hlab; subst x.
    specialize (LB L lc HsL El). pose proof (nth_le_vmax sum (lroot lc)). lia.
  - intros Hx. destruct (UB x) as [L [HsL [Hlab HcL]]].
    exists L. split; [|exact Hlab]. split; [exact HsL|].
    intros L' Hs'. destruct (shape_lsub p T L' _ Hs' Hn) as [lc' [Hl' _]].
    specialize (LB L' lc' Hs' Hl'). pose proof (nth_le_vmax sum (lroot lc')). lia.
Qed.

(** ** from a node to one of its children *)
Lemma contrib_single : forall y v a, contrib y [(VNode v [], a)] = a + miss y v.
Proof. intros. simpl. lia. Qed.

Lemma ctx_child : forall p n cm sl base i e d,
  node_at T p = Some (UNode n cm sl) -> ctx_ok p (UNode n cm sl) base ->
  Forall edge_slot sl -> nth_error sl i = Some (Some (e, d)) -> is_leaf d = false ->
  let others := base ++ remove_nth (kidx sl i) (kid_results sl) in
  others <> [] ->
  ctx_ok (p ++ [i]) d [(VNode (above_vec k others) [], above_const k others)].
Proof.
  intros p n cm sl base i e d Hn [Hb [LB UB]] Hf Hi Hleaf others Hone.
  assert (Hors : rs_ok others).
  { unfold others. apply Forall_app. split; [exact Hb|].
    apply rs_ok_remove_nth. apply (kid_results_ok tv ts k). exact Hf. }
  assert (Hrem : kid_results (set_nth i None sl) = remove_nth (kidx sl i) (kid_results sl))
    by (eapply kid_results_set_nth; eauto).
  assert (Hf' : Forall edge_slot (set_nth i None sl)) by (apply edge_slot_set_nth; exact Hf).
  split; [|split].
  - constructor; [|constructor]. simpl. apply cp_vec_ok; assumption.
  - intros L ld Hs Hl. rewrite contrib_single.
    rewrite lsub_app in Hl.
    destruct (shape_lsub p T L _ Hs Hn) as [lc [Hlc Hsc]]. rewrite Hlc in Hl.
    destruct lc as [x ll]. simpl in Hl.
    destruct (nth_error ll i) as [[ld'|]|] eqn:Ell; try discriminate.
    inversion Hl; subst ld'.
    specialize (LB L (LNode x ll) Hs Hlc). simpl lroot in LB. rewrite cost_unfold in LB.
    rewrite shape_ok_unfold in Hsc.
    rewrite (cost_slots_set_nth ts sl ll i x e d ld Hi Ell) in LB.
    pose proof (slots_LB tv ts k (set_nth i None sl) (set_nth i None ll) x Hf'
                         (shape_slots_set_nth sl ll i Hsc)) as Q.
    rewrite Hrem in Q.
    unfold branch_cost in LB. rewrite Hleaf in LB.
    pose proof (above_arith_LB k others x (lroot ld) Hors Hone) as A.
    unfold others in A at 3. rewrite contrib_app in A. lia.
  - intros ld Hsd. rewrite contrib_single.
    destruct (above_arith_UB k others (lroot ld) Hors Hone) as [x Hx].
    destruct (slots_UB tv ts k (set_nth i None sl) x Hf') as [ll0 [Hs0 Hc0]].
    rewrite Hrem in Hc0.
    assert (Hilen : i < length sl) by (apply nth_error_Some; congruence).
    set (ll := set_nth i (Some ld) ll0).
    assert (Hsll : shape_slots shape_ok sl ll = true) by (eapply shape_slots_put; eauto).
    assert (Hlen0 : length ll0 = length sl).
    { rewrite (shape_slots_length _ _ Hs0). apply set_nth_length. }
    assert (Hnth : nth_error ll i = Some (Some ld)) by (apply nth_set_nth_same; lia).
    assert (Hback : set_nth i None ll = ll0).
    { unfold ll. rewrite set_nth_set_nth. eapply shape_slots_none_at; eauto. }
    destruct (UB (LNode x ll)) as [L [HsL [HlL HcL]]]; [rewrite shape_ok_unfold; exact Hsll|].
    exists L. split; [exact HsL|]. split.
    + rewrite lsub_app, HlL. simpl. rewrite Hnth. reflexivity.
    + rewrite HcL, cost_unfold. simpl lroot.
      rewrite (cost_slots_set_nth ts sl ll i x e d ld Hi Hnth), Hback, Hc0.
      unfold branch_cost. rewrite Hleaf.
      unfold others in Hx at 1. rewrite contrib_app in Hx. lia.
Qed.

(** ** the induction over the tree *)
Hypothesis tips : forall n, In n (leaves T) -> tip_ok tv ts k n.

Definition inner (c : utree) : Prop := is_leaf c = false /\ Nat.eqb (length (uslots c)) 1 = false.

Lemma wf_sub_inner : forall c, wf_sub c = true -> is_leaf c = false -> inner c.
Proof.
  intros [n cm sl] Hwf Hl. split; [exact Hl|]. simpl. rewrite (wf_sub_tip_leaf n cm sl Hwf). exact Hl.
Qed.

Lemma node_at_inner_child : forall d q x, node_at d q = Some x -> is_leaf x = false -> is_leaf d = false.
Proof.
  intros d q x H Hx. destruct q as [|j q]; simpl in H.
  - inversion H; subst. exact Hx.
  - destruct d as [n cm sl]. simpl in H.
    destruct (nth_error sl j) as [[[e c]|]|] eqn:E; try discriminate.
    unfold is_leaf, kids. simpl.
    pose proof (kids_of_nth sl j _ E). destruct (kids_of sl); simpl in *; [lia | reflexivity].
Qed.

Lemma kid_results_length : forall sl, length (kid_results sl) = length (kids_of sl).
Proof. induction sl as [|[[e c]|] sl IH]; simpl; auto. Qed.

Lemma remove_nth_nonempty : forall A (l : list A) j, 2 <= length l -> remove_nth j l <> [].
Proof.
  intros A [|a [|b l]] j H; simpl in H; try lia.
  destruct j; simpl; discriminate.
Qed.

Theorem down_sub : forall c p base (isroot : bool) (up : vec),
  node_at T p = Some c -> ctx_ok p c base ->
  kvecs base = (if isroot then [] else [up]) ->
  (base <> [] \/ 2 <= length (kids_of (uslots c))) ->
  inner c ->
  Forall (fun s => match s with Some (_, d) => wf_sub d = true | None => True end) (uslots c) ->
  (forall m, In m (leaves c) -> tip_ok tv ts k m) ->
  forall q x v, node_at c q = Some x -> is_leaf x = false ->
    vec_at c (downpass isroot up k (fst (uppass tv k c))) q = Some v ->
    forall y, nth y v 0 = 1 <-> opt_state_at ts T (p ++ q) y.
Proof.
  induction c using utree_ind'.
  intros p base isroot up Hn Hctx Hbase Hmany [Hleaf Hnt] Hwf Htips q x v Hq Hx Hv y.
  rename c into cm. simpl in Hnt, Hwf, Hmany.
  assert (Hf : Forall edge_slot sl).
  { apply Forall_forall. intros [[e d]|] Hin; simpl; auto.
    rewrite Forall_forall in Hwf. apply edge_ok_all; [apply (Hwf _ Hin)|].
    intros m Hm. apply Htips. eapply leaves_child; eauto. }
  assert (Hkne : kid_results sl <> []).
  { apply kid_results_nonempty. unfold is_leaf, kids in Hleaf. simpl in Hleaf.
    destruct (kids_of sl); congruence. }
  (* the shape of the up-pass result and of the down-pass on it *)
  rewrite uppass_unfold, Hnt in Hv. simpl fst in Hv.
  destruct (kid_results sl) as [|r0 rs'] eqn:Ekr; [congruence|].
  rewrite <- Ekr in *.
  assert (Hks : map fst (kid_results sl) = fst r0 :: map fst rs') by (rewrite Ekr; reflexivity).
  rewrite Hks, downpass_node in Hv. rewrite <- Hks in Hv. cbv zeta in Hv.
  assert (Hroots : map vroot (map fst (kid_results sl)) = kvecs (kid_results sl))
    by (unfold kvecs; rewrite map_map; reflexivity).
  rewrite Hroots in Hv.
  destruct q as [|i q].
  - (* this node *)
    simpl in Hq. inversion Hq; subst x. simpl in Hv. inversion Hv; subst v; clear Hv.
    rewrite app_nil_r.
    assert (Hvec : (if isroot then compute_parsimony (vsum k (kvecs (kid_results sl)))
                    else compute_parsimony (vsum k ((if isroot then [] else [up]) ++ kvecs (kid_results sl))))
                   = compute_parsimony (vsum k (kvecs (base ++ kid_results sl)))).
    { rewrite kvecs_app, Hbase. destruct isroot; reflexivity. }
    rewrite Hvec.
    rewrite (node_opt_iff p n cm sl base y Hn Hctx Hf Hkne).
    apply cp_max_iff.
    + apply Forall_app. split; [apply Hctx | apply (kid_results_ok tv ts k); exact Hf].
    + intro Q. apply app_eq_nil in Q. destruct Q. contradiction.
  - (* below child i *)
    simpl in Hq. destruct (nth_error sl i) as [[[e d]|]|] eqn:Ei; try discriminate.
    simpl in Hv. rewrite Ei in Hv.
    pose proof (kid_results_nth tv k sl i e d Ei) as Hkn.
    assert (Hkn' : nth_error (map fst (kid_results sl)) (kidx sl i) = Some (fst (uppass tv k d))).
    { rewrite nth_error_map, Hkn. reflexivity. }
    rewrite (down_kids_nth _ _ _ _ 0 _ _ Hkn') in Hv. simpl plus in Hv.
    assert (Hdleaf : is_leaf d = false) by (eapply node_at_inner_child; eauto).
    rewrite Forall_forall in H, Hwf.
    pose proof (Hwf _ (nth_error_In _ _ Ei)) as Hwd. simpl in Hwd.
    set (others := base ++ remove_nth (kidx sl i) (kid_results sl)).
    assert (Hone : others <> []).
    { unfold others. destruct Hmany as [Hb|Hm].
      - intro Q. apply app_eq_nil in Q. destruct Q. contradiction.
      - intro Q. apply app_eq_nil in Q. destruct Q as [_ Q]. revert Q.
        apply remove_nth_nonempty. rewrite kid_results_length. exact Hm. }
    pose proof (ctx_child p n cm sl base i e d Hn Hctx Hf Ei Hdleaf Hone) as Hcd.
    fold others in Hcd.
    assert (Hupv : compute_parsimony (vsum k ((if isroot then [] else [up]) ++
                                               remove_nth (kidx sl i) (kvecs (kid_results sl))))
                   = above_vec k others).
    { unfold above_vec, others. rewrite kvecs_app, Hbase. unfold kvecs at 2. rewrite map_remove_nth. reflexivity. }
    rewrite Hupv in Hv.
    replace (p ++ i :: q) with ((p ++ [i]) ++ q) by (rewrite <- app_assoc; reflexivity).
    destruct d as [nd cd sld].
    eapply (H _ (nth_error_In _ _ Ei) (p ++ [i]) _ false (above_vec k others)); eauto.
    + (* node_at T (p ++ [i]) *)
      clear -Hn Ei. revert T Hn. induction p as [|j p IH]; intros T0 Hn; simpl in *.
      * inversion Hn; subst. simpl. rewrite Ei. reflexivity.
      * destruct (nth_error (uslots T0) j) as [[[e0 c0]|]|]; try discriminate. apply IH. exact Hn.
    + left. discriminate.
    + apply wf_sub_inner; assumption.
    + apply (wf_sub_slots nd cd sld Hwd).
    + intros m Hm. apply Htips. eapply leaves_child; eauto. apply nth_error_In in Ei. exact Ei.
Qed.

End Down.
