(** C06: the name look-ups after RemoveTips, as functions of the tip-name table.
    [Judge.C06.expect_lookup idx g nm] is what Tree.ExistsTip / TipNode / TipIndex answer for the
    name [nm] when the table holds the names [idx] and the tree is [g] (T: found / a live tip of
    the tree / has an index; F: not found; E: table empty).  With the table the model computes
    ([tip_index_after]) the three answers say exactly "nm is one of the kept tips". *)
From Coq Require Import String ZArith QArith Bool Arith Lia List Permutation.
From GT Require Import Base.UTree Spec.Obs Model.Reroot Model.Prune Proofs.Prune Proofs.PruneTotal Proofs.OracleSets Judge.C06.
Import ListNotations.
Local Close Scope Q_scope.
Local Open Scope string_scope.
Local Arguments leaves : simpl never.

Definition is_kept (revert : bool) (names : list string) (t : utree) (nm : string) : bool :=
  existsb (String.eqb nm) (filter (kept revert names) (leaves t)).

Lemma expect_nonempty idx g nm :
  idx <> [] ->
  expect_lookup idx g nm =
  if smem nm idx then mkLookup nm "T" (if has_tip nm g then "T" else "S") "T" else mkLookup nm "F" "F" "F".
Proof. destruct idx; [congruence|reflexivity]. Qed.

Theorem lookups_say_kept revert names t t' nm :
  wf t = true -> no_single t = true -> 2 <= degree t -> NoDup (leaves t) ->
  remove_tips revert names t = Ok t' -> 2 <= length (leaves t') ->
  expect_lookup (tip_index_after (tip_names t) t') t' nm =
  if is_kept revert names t nm then mkLookup nm "T" "T" "T" else mkLookup nm "F" "F" "F".
Proof.
  intros Hwf Hns Hdeg Hnd Hr H2.
  destruct (remove_tips_ok revert names t t' Hwf Hns Hdeg Hnd Hr) as [Hwf' [Hns' [Hlv _]]].
  assert (Hdeg' : 2 <= degree t').
  { unfold remove_tips in Hr.
    destruct (remove_loop revert names (tip_names t) t) as [t1|m] eqn:Hl; [|discriminate].
    destruct (update_tip_index t1); [|discriminate]. injection Hr as Heq. subst t'.
    rewrite tip_names_leaves in Hl by auto.
    destruct (remove_loop_ok revert names _ _ _ Hwf Hns ltac:(lia) Hnd Hl) as [_ [_ [Hd1 _]]].
    apply degree_of_leaves; auto. }
  unfold tip_index_after. rewrite tip_names_leaves by auto.
  rewrite expect_nonempty by (destruct (leaves t'); [simpl in H2; lia|discriminate]).
  assert (Eq : smem nm (leaves t') = is_kept revert names t nm).
  { unfold is_kept. destruct (smem nm (leaves t')) eqn:E1.
    - apply smem_In in E1. symmetry. apply existsb_exists. exists nm. split; [|apply String.eqb_refl].
      eapply Permutation_in; eauto.
    - apply smem_false in E1. symmetry. destruct (existsb _ _) eqn:E2; auto. exfalso. apply E1.
      apply existsb_exists in E2. destruct E2 as [y [Hy E]]. apply String.eqb_eq in E. subst y.
      symmetry in Hlv. eapply Permutation_in; eauto. }
  rewrite <- Eq. destruct (smem nm (leaves t')) eqn:Ek; auto.
  apply smem_In in Ek. now rewrite (has_tip_leaf t' nm Hwf' Hdeg' Ek).
Qed.
