(** What the oracle functions of Spec/Contract.v say, as propositions: [collapse_ok] / [resolve_ok]
    return [None] exactly when the listed facts hold. *)
From Coq Require Import String ZArith QArith Bool Arith Lia List.
From GT Require Import Base.UTree Spec.Obs Spec.Contract.
Import ListNotations.
Local Close Scope Q_scope.

Lemma splits_sub_spec cmp a b :
  splits_sub cmp a b = true <->
  forall s, In s a -> exists s', find_split (sside s) b = Some s' /\ cmp s s' = true.
Proof.
  unfold splits_sub. rewrite forallb_forall. split; intros H s Hs; specialize (H s Hs).
  - destruct (find_split (sside s) b) as [s'|]; [eauto|discriminate].
  - destruct H as [s' [-> Hc]]. exact Hc.
Qed.

(** every split [s] of [a] is found in [b] (same bipartition) with the same length and support,
    and conversely, and the two lists have the same number of splits *)
Definition same_splits (a b : list split) : Prop :=
  length a = length b /\
  (forall s, In s a -> exists s', find_split (sside s) b = Some s' /\ same_len_sup s s' = true) /\
  (forall s', In s' b -> exists s, find_split (sside s') a = Some s /\ same_len_sup s s' = true).

Theorem collapse_ok_meaning cr t g :
  collapse_ok cr t g = None <->
  wf g = true /\ sset_eqb (ssort (leaves t)) (ssort (leaves g)) = true /\
  same_splits (expected_after_collapse cr t) (usplits g).
Proof.
  unfold collapse_ok, same_splits, splits_eq. split.
  - intros H.
    destruct (wf g); simpl in H; [|discriminate].
    destruct (sset_eqb (ssort (leaves t)) (ssort (leaves g))); simpl in H; [|discriminate].
    destruct (splits_sub same_key (expected_after_collapse cr t) (usplits g)); simpl in H; [|discriminate].
    destruct (splits_sub same_key (usplits g) (expected_after_collapse cr t)); simpl in H; [|discriminate].
    destruct (Nat.eqb (length (expected_after_collapse cr t)) (length (usplits g))) eqn:E1; simpl in H; [|discriminate].
    destruct (splits_sub same_len_sup (expected_after_collapse cr t) (usplits g)) eqn:E2; simpl in H; [|discriminate].
    destruct (splits_sub (fun x y => same_len_sup y x) (usplits g) (expected_after_collapse cr t)) eqn:E3; simpl in H; [|discriminate].
    repeat split; auto.
    + now apply Nat.eqb_eq.
    + now apply splits_sub_spec.
    + now apply (splits_sub_spec (fun x y => same_len_sup y x)).
  - intros [Hw [Ht [Hl [H1 H2]]]]. rewrite Hw, Ht. simpl.
    assert (S1 : splits_sub same_len_sup (expected_after_collapse cr t) (usplits g) = true) by now apply splits_sub_spec.
    assert (S2 : splits_sub (fun x y => same_len_sup y x) (usplits g) (expected_after_collapse cr t) = true)
      by now apply (splits_sub_spec (fun x y => same_len_sup y x)).
    assert (K1 : splits_sub same_key (expected_after_collapse cr t) (usplits g) = true).
    { apply splits_sub_spec. intros s Hs. destruct (H1 s Hs) as [s' [E _]]. eauto. }
    assert (K2 : splits_sub same_key (usplits g) (expected_after_collapse cr t) = true).
    { apply splits_sub_spec. intros s Hs. destruct (H2 s Hs) as [s' [E _]]. eauto. }
    rewrite K1, K2, S1, S2. apply Nat.eqb_eq in Hl. rewrite Hl. reflexivity.
Qed.

Theorem resolve_ok_meaning t g :
  resolve_ok t g = None <->
  wf g = true /\ sset_eqb (ssort (leaves t)) (ssort (leaves g)) = true /\
  (Forall (fun x => degree x <= 3) (nodes g) /\ no_single g = true /\ 2 <= degree g) /\
  (forall s, In s (usplits t) -> exists s', find_split (sside s) (usplits g) = Some s' /\ same_len_sup s s' = true) /\
  (forall s', In s' (usplits g) -> find_split (sside s') (usplits t) = None ->
              qeqb (slen s') 0%Q = true /\ qeqb (ssup s') nilv = true) /\
  matrix_eqb (dist_matrix len0 t) (dist_matrix len0 g) = true.
Proof.
  unfold resolve_ok, binary, added_splits. split.
  - intros H.
    destruct (wf g); cbn [negb andb] in H; [|discriminate].
    destruct (sset_eqb (ssort (leaves t)) (ssort (leaves g))); cbn [negb andb] in H; [|discriminate].
    destruct (forallb (fun x => Nat.leb (degree x) 3) (nodes g)) eqn:E1; cbn [negb andb] in H; [|discriminate].
    destruct (no_single g); cbn [negb andb] in H; [|discriminate].
    destruct (Nat.leb 2 (degree g)) eqn:E2; cbn [negb andb] in H; [|discriminate].
    destruct (splits_sub same_len_sup (usplits t) (usplits g)) eqn:E3; cbn [negb andb] in H; [|discriminate].
    match type of H with (if negb ?X then _ else _) = _ => destruct X eqn:E4; cbn [negb andb] in H; [|discriminate] end.
    destruct (matrix_eqb (dist_matrix len0 t) (dist_matrix len0 g)); cbn [negb andb] in H; [|discriminate].
    repeat split; auto.
    + apply Forall_forall. intros x Hx. rewrite forallb_forall in E1. now apply Nat.leb_le, E1.
    + now apply Nat.leb_le.
    + now apply splits_sub_spec.
    + rewrite forallb_forall in E4. assert (Hin : In s' (filter (fun s => match find_split (sside s) (usplits t) with None => true | Some _ => false end) (usplits g))).
      { apply filter_In. split; auto. now rewrite H1. }
      specialize (E4 _ Hin). apply andb_true_iff in E4. tauto.
    + rewrite forallb_forall in E4. assert (Hin : In s' (filter (fun s => match find_split (sside s) (usplits t) with None => true | Some _ => false end) (usplits g))).
      { apply filter_In. split; auto. now rewrite H1. }
      specialize (E4 _ Hin). apply andb_true_iff in E4. tauto.
  - intros [Hw [Ht [[B1 [B2 B3]] [H1 [H2 Hm]]]]].
    assert (F1 : forallb (fun x => Nat.leb (degree x) 3) (nodes g) = true).
    { apply forallb_forall. intros x Hx. rewrite Forall_forall in B1. now apply Nat.leb_le, B1. }
    apply Nat.leb_le in B3.
    assert (S1 : splits_sub same_len_sup (usplits t) (usplits g) = true) by now apply splits_sub_spec.
    assert (S2 : forallb (fun s => qeqb (slen s) 0%Q && qeqb (ssup s) nilv)
                         (filter (fun s => match find_split (sside s) (usplits t) with None => true | Some _ => false end) (usplits g)) = true).
    { apply forallb_forall. intros s' Hs. apply filter_In in Hs. destruct Hs as [Hs Hn].
      destruct (find_split (sside s') (usplits t)) eqn:E; [discriminate|].
      destruct (H2 s' Hs E) as [Q1 Q2]. now rewrite Q1, Q2. }
    rewrite Hw, Ht, F1, B2, B3, S1, S2, Hm. reflexivity.
Qed.

(** the oracle for inputs that may contain single-child inner nodes *)
Theorem resolve_ok_single_meaning t g :
  resolve_ok_single t g = None <->
  wf g = true /\ sset_eqb (ssort (leaves t)) (ssort (leaves g)) = true /\
  (Forall (fun x => degree x <= 3) (nodes g) /\ 2 <= degree g) /\
  count_single g = count_single t /\
  (forall s, In s (usplits t) -> exists s', find_split (sside s) (usplits g) = Some s' /\ same_len_sup s s' = true) /\
  (forall s', In s' (usplits g) -> find_split (sside s') (usplits t) = None ->
              qeqb (slen s') 0%Q = true /\ qeqb (ssup s') nilv = true) /\
  matrix_eqb (dist_matrix len0 t) (dist_matrix len0 g) = true.
Proof.
  unfold resolve_ok_single, added_splits. split.
  - intros H.
    destruct (wf g); cbn [negb andb] in H; [|discriminate].
    destruct (sset_eqb (ssort (leaves t)) (ssort (leaves g))); cbn [negb andb] in H; [|discriminate].
    destruct (forallb (fun x => Nat.leb (degree x) 3) (nodes g)) eqn:E1; cbn [negb andb] in H; [|discriminate].
    destruct (Nat.leb 2 (degree g)) eqn:E2; cbn [negb andb] in H; [|discriminate].
    destruct (Nat.eqb (count_single g) (count_single t)) eqn:E5; cbn [negb andb] in H; [|discriminate].
    destruct (splits_sub same_len_sup (usplits t) (usplits g)) eqn:E3; cbn [negb andb] in H; [|discriminate].
    match type of H with (if negb ?X then _ else _) = _ => destruct X eqn:E4; cbn [negb andb] in H; [|discriminate] end.
    destruct (matrix_eqb (dist_matrix len0 t) (dist_matrix len0 g)); cbn [negb andb] in H; [|discriminate].
    repeat split; auto.
    + apply Forall_forall. intros x Hx. rewrite forallb_forall in E1. now apply Nat.leb_le, E1.
    + now apply Nat.leb_le.
    + now apply Nat.eqb_eq.
    + now apply splits_sub_spec.
    + rewrite forallb_forall in E4. assert (Hin : In s' (filter (fun s => match find_split (sside s) (usplits t) with None => true | Some _ => false end) (usplits g))).
      { apply filter_In. split; auto. now rewrite H1. }
      specialize (E4 _ Hin). apply andb_true_iff in E4. tauto.
    + rewrite forallb_forall in E4. assert (Hin : In s' (filter (fun s => match find_split (sside s) (usplits t) with None => true | Some _ => false end) (usplits g))).
      { apply filter_In. split; auto. now rewrite H1. }
      specialize (E4 _ Hin). apply andb_true_iff in E4. tauto.
  - intros [Hw [Ht [[B1 B3] [Hc [H1 [H2 Hm]]]]]].
    assert (F1 : forallb (fun x => Nat.leb (degree x) 3) (nodes g) = true).
    { apply forallb_forall. intros x Hx. rewrite Forall_forall in B1. now apply Nat.leb_le, B1. }
    apply Nat.leb_le in B3. apply Nat.eqb_eq in Hc.
    assert (S1 : splits_sub same_len_sup (usplits t) (usplits g) = true) by now apply splits_sub_spec.
    assert (S2 : forallb (fun s => qeqb (slen s) 0%Q && qeqb (ssup s) nilv)
                         (filter (fun s => match find_split (sside s) (usplits t) with None => true | Some _ => false end) (usplits g)) = true).
    { apply forallb_forall. intros s' Hs. apply filter_In in Hs. destruct Hs as [Hs Hn].
      destruct (find_split (sside s') (usplits t)) eqn:E; [discriminate|].
      destruct (H2 s' Hs E) as [Q1 Q2]. now rewrite Q1, Q2. }
    rewrite Hw, Ht, F1, B3, Hc, S1, S2, Hm. reflexivity.
Qed.
