(** C17, base: the slot list of a node with three neighbours seen from one distinguished
    slot ([pl]), the exchange [swap_local] in that form, rewriting below a path ([at_path]),
    what membership in [nni_list] gives, and the round trip  undo (apply r t) = t. *)
From Coq Require Import String ZArith QArith Bool Arith Lia List Permutation.
From GT Require Import Base.UTree Spec.Obs Model.Reroot Model.NNI Proofs.RerootBase Proofs.Reorder.
Import ListNotations.
Local Close Scope Q_scope.

(** * lists: [set_nth] *)
Lemma set_nth_same {A} (l : list A) i x : nth_error l i = Some x -> set_nth i x l = l.
Proof.
  unfold set_nth. revert i; induction l as [|a l IH]; intros [|i]; simpl; intros H; try discriminate.
  - now inversion H.
  - f_equal. now apply IH.
Qed.

Lemma set_nth_twice {A} (l : list A) i x y : set_nth i x (set_nth i y l) = set_nth i x l.
Proof.
  unfold set_nth. revert i; induction l as [|a l IH]; intros [|i]; simpl; auto.
  f_equal. apply IH.
Qed.

(** * three neighbours seen from slot [k]: [k] holds [x], [(k+1) mod 3] holds [fst p],
    [(k+2) mod 3] holds [snd p] *)
Definition pl {A} (k : nat) (x : A) (p : A * A) : list A :=
  match k with
  | 0 => [x; fst p; snd p]
  | 1 => [snd p; x; fst p]
  | _ => [fst p; snd p; x]
  end.
Definition off (d : bool) (k : nat) : nat := if d then Nat.modulo (k + 1) 3 else Nat.modulo (k + 2) 3.
Definition getd {A} (d : bool) (p : A * A) : A := if d then fst p else snd p.
Definition put {A} (d : bool) (v : A) (p : A * A) : A * A := if d then (v, snd p) else (fst p, v).

Ltac k3 k := destruct k as [|[|[|k]]]; [| | |lia].

Lemma pl_length {A} k (x : A) p : length (pl k x p) = 3.
Proof. destruct k as [|[|k]]; reflexivity. Qed.
Lemma pl_nth_k {A} k (x : A) p : k < 3 -> nth_error (pl k x p) k = Some x.
Proof. intros H; k3 k; reflexivity. Qed.
Lemma pl_nth_off {A} k d (x : A) p : k < 3 -> nth_error (pl k x p) (off d k) = Some (getd d p).
Proof. intros H; k3 k; destruct d; reflexivity. Qed.
Lemma pl_set_k {A} k (x v : A) p : k < 3 -> set_nth k v (pl k x p) = pl k v p.
Proof. intros H; k3 k; reflexivity. Qed.
Lemma pl_set_off {A} k d (x v : A) p : k < 3 -> set_nth (off d k) v (pl k x p) = pl k x (put d v p).
Proof. intros H; k3 k; destruct d; reflexivity. Qed.
Lemma pl_perm {A} k (x : A) p : Permutation (pl k x p) [x; fst p; snd p].
Proof. destruct k as [|[|k]]; simpl; perm. Qed.
Lemma pl_exists {A} (l : list A) k x :
  length l = 3 -> nth_error l k = Some x -> exists p, l = pl k x p.
Proof.
  destruct l as [|a [|b [|c [|d l]]]]; try discriminate. intros _ H.
  destruct k as [|[|[|k]]]; simpl in H.
  - inversion H; subst. now exists (b, c).
  - inversion H; subst. now exists (c, a).
  - inversion H; subst. now exists (a, b).
  - destruct k; discriminate.
Qed.
Lemma off_lt d k : off d k < 3.
Proof. unfold off; destruct d; apply Nat.mod_upper_bound; lia. Qed.
Lemma off_neq d k : k < 3 -> off d k <> k.
Proof. intros H; k3 k; destruct d; cbv; lia. Qed.

Lemma put_put {A} d (v w : A) p : put d v (put d w p) = put d v p.
Proof. destruct d; reflexivity. Qed.
Lemma put_getd {A} d (p : A * A) v : getd d p = v -> put d v p = p.
Proof. destruct d, p; simpl; now intros ->. Qed.
Lemma getd_put {A} d (v : A) p : getd d (put d v p) = v.
Proof. destruct d; reflexivity. Qed.
Lemma getd_put_other {A} d (v : A) p : getd (negb d) (put d v p) = getd (negb d) p.
Proof. destruct d; reflexivity. Qed.

(** * the exchange in [pl] form *)
Lemma swap_local_pl a b da db nx cx ec ny cy ys xs :
  a < 3 -> b < 3 ->
  swap_local a b (off da a) (off db b)
             (UNode nx cx (pl a (Some (ec, UNode ny cy (pl b None ys))) xs)) =
  match getd db ys with
  | Some mv2 =>
    match getd da xs with
    | Some mv1 =>
      Some (UNode nx cx (pl a (Some (ec, UNode ny cy (pl b None (put db (Some mv1) ys))))
                            (put da (Some mv2) xs)))
    | None =>
      Some (UNode ny cy (pl b (Some (ec, UNode nx cx (pl a None (put da (Some mv2) xs))))
                            (put db None ys)))
    end
  | None => None
  end.
Proof.
  intros Ha Hb. unfold swap_local.
  rewrite (pl_nth_k a) by assumption. rewrite (pl_nth_k b) by assumption.
  rewrite !pl_nth_off by assumption.
  destruct (getd db ys) as [mv2|]; [|reflexivity].
  destruct (getd da xs) as [mv1|].
  - now rewrite (pl_set_k a), !pl_set_off by assumption.
  - now rewrite !pl_set_off, (pl_set_k a), (pl_set_k b) by assumption.
Qed.

(** * rewriting below a path *)
Lemma at_path_some f p : forall t s s',
  node_at t p = Some s -> f s = Some s' -> exists t', at_path f p t = Some t'.
Proof.
  induction p as [|k q IH]; intros t s s' Hn Hf; simpl in *.
  - inversion Hn; subst. eauto.
  - destruct t as [n c sl]. simpl in Hn.
    destruct (nth_error sl k) as [[[e ch]|]|]; try discriminate.
    destruct (IH _ _ _ Hn Hf) as [ch' ->]. eauto.
Qed.

Lemma at_path_inv f p : forall t t' s,
  node_at t p = Some s -> at_path f p t = Some t' ->
  exists s', f s = Some s' /\ node_at t' p = Some s'.
Proof.
  induction p as [|k q IH]; intros t t' s Hn Hf; simpl in *.
  - inversion Hn; subst. eauto.
  - destruct t as [n c sl]. simpl in Hn.
    destruct (nth_error sl k) as [[[e ch]|]|] eqn:E; try discriminate.
    destruct (at_path f q ch) as [ch'|] eqn:E'; [|discriminate]. inversion Hf; subst.
    destruct (IH _ _ _ Hn E') as (s' & H1 & H2). exists s'; split; auto.
    simpl. rewrite nth_error_set_nth_same by (apply nth_error_Some; congruence). exact H2.
Qed.

(** [g] undoes [f] on the subtree found at [p] *)
Lemma at_path_undo f g p : forall t t' s,
  node_at t p = Some s -> (forall s', f s = Some s' -> g s' = Some s) ->
  at_path f p t = Some t' -> at_path g p t' = Some t.
Proof.
  induction p as [|k q IH]; intros t t' s Hn Hfg Hf; simpl in *.
  - inversion Hn; subst. auto.
  - destruct t as [n c sl]. simpl in Hn.
    destruct (nth_error sl k) as [[[e ch]|]|] eqn:E; try discriminate.
    destruct (at_path f q ch) as [ch'|] eqn:E'; [|discriminate]. inversion Hf; subst.
    rewrite nth_error_set_nth_same by (apply nth_error_Some; congruence).
    rewrite (IH _ _ _ Hn Hfg E'). now rewrite set_nth_twice, (set_nth_same _ _ _ E).
Qed.

(** * what a proposal of [nni_list t] knows about [t] *)
Lemma up_index_spec sl j : up_index sl = Some j -> nth_error sl j = Some None.
Proof.
  revert j; induction sl as [|[p|] r IH]; simpl; intros j H; try discriminate.
  - destruct (up_index r) as [i|]; [|discriminate]. inversion H; subst. simpl. now apply IH.
  - now inversion H.
Qed.

(** [r] designates in [t] a branch both of whose ends have three neighbours *)
Definition valid (r : nni) (t : utree) : Prop :=
  exists n1 ec n2,
    node_at t (r_path r) = Some n1 /\
    nth_error (uslots n1) (r_k r) = Some (Some (ec, n2)) /\
    degree n1 = 3 /\ degree n2 = 3 /\
    up_index (uslots n2) = Some (r_j r) /\
    r_flip r = match nth_error (uslots n1) (Nat.modulo (r_k r + 2) 3) with
               | Some None => true | _ => false end.

Lemma nni_at_valid t i loc r : In r (nni_at t i loc) -> valid r t.
Proof.
  destruct loc as [p k]. unfold nni_at.
  destruct (node_at t p) as [n1|] eqn:E1; [|intros []].
  destruct (nth_error (uslots n1) k) as [[[ec n2]|]|] eqn:E2; try (intros []).
  destruct (Nat.eqb (degree n1) 3 && Nat.eqb (degree n2) 3) eqn:E3; [|intros []].
  apply andb_true_iff in E3. destruct E3 as [D1 D2]. apply Nat.eqb_eq in D1, D2.
  destruct (up_index (uslots n2)) as [j|] eqn:E4; [|intros []].
  intros [<-|[<-|[]]]; exists n1, ec, n2; simpl; repeat split; auto.
Qed.

Lemma nni_list_valid t r : In r (nni_list t) -> valid r t.
Proof.
  unfold nni_list. intros H. apply in_flat_map in H. destruct H as (il & _ & H).
  eapply nni_at_valid; eauto.
Qed.

(** * well-formedness along a path *)
Lemma slot_child_wf_sub sl k e c :
  forallb (fun s : slot => match s with Some (_, c) => wf_sub c | None => true end) sl = true ->
  nth_error sl k = Some (Some (e, c)) -> wf_sub c = true.
Proof.
  intros H E. rewrite forallb_forall in H. exact (H _ (nth_error_In _ _ E)).
Qed.

Lemma node_at_wf_sub p : forall t s,
  wf_sub t = true -> node_at t p = Some s -> wf_sub s = true.
Proof.
  induction p as [|k q IH]; intros t s W H; simpl in H.
  - now inversion H; subst.
  - destruct t as [n c sl]. simpl in H.
    destruct (nth_error sl k) as [[[e ch]|]|] eqn:E; try discriminate.
    simpl in W. apply andb_true_iff in W. destruct W as [_ W].
    eapply IH; [|exact H]. eapply slot_child_wf_sub; eauto.
Qed.

Lemma node_at_wf p t s :
  wf t = true -> node_at t p = Some s -> (p = [] /\ s = t) \/ (p <> [] /\ wf_sub s = true).
Proof.
  destruct p as [|k q]; intros W H; simpl in H.
  - left. now inversion H.
  - right. split; [discriminate|]. destruct t as [n c sl]. simpl in H.
    destruct (nth_error sl k) as [[[e ch]|]|] eqn:E; try discriminate.
    simpl in W. apply andb_true_iff in W. destruct W as [_ W].
    eapply node_at_wf_sub; [|exact H]. eapply slot_child_wf_sub; eauto.
Qed.

Lemma n_up_pl k (x : slot) p : n_up (pl k x p) = n_up [x; fst p; snd p].
Proof. apply Permutation_n_up, pl_perm. Qed.

(** the local picture around the central branch of a valid proposal:
    n1 = x(k: central branch to n2, k+1: n1_1, k+2: n1_2), n2 = y(j: parent, two children) *)
Record picture : Type := mkPic {
  p_nx : string; p_cx : list string; p_xs : slot * slot;
  p_ec : einfo;
  p_ny : string; p_cy : list string; p_y1 : einfo * utree; p_y2 : einfo * utree }.

Definition pic_n2 (j : nat) (P : picture) : utree :=
  UNode (p_ny P) (p_cy P) (pl j None (Some (p_y1 P), Some (p_y2 P))).
Definition pic_n1 (k j : nat) (P : picture) : utree :=
  UNode (p_nx P) (p_cx P) (pl k (Some (p_ec P, pic_n2 j P)) (p_xs P)).

Lemma valid_picture r t :
  wf t = true -> valid r t ->
  exists P, node_at t (r_path r) = Some (pic_n1 (r_k r) (r_j r) P) /\
            r_k r < 3 /\ r_j r < 3 /\
            r_flip r = match snd (p_xs P) with None => true | Some _ => false end.
Proof.
  intros W (n1 & ec & n2 & Hn & Hk & D1 & D2 & Hj & Hf).
  destruct n1 as [nx cx slx], n2 as [ny cy sly]. unfold degree in *. cbn [uslots] in *.
  assert (K3 : r_k r < 3) by (rewrite <- D1; apply nth_error_Some; congruence).
  pose proof (up_index_spec _ _ Hj) as Hj'.
  assert (J3 : r_j r < 3) by (rewrite <- D2; apply nth_error_Some; congruence).
  destruct (pl_exists _ _ _ D1 Hk) as [xs Ex].
  destruct (pl_exists _ _ _ D2 Hj') as [ys Ey].
  (* n2 is below the root: exactly one parent slot *)
  assert (W2 : wf_sub (UNode ny cy sly) = true).
  { destruct (node_at_wf _ _ _ W Hn) as [[_ E]|[_ W1]].
    - rewrite <- E in W. simpl in W.
      apply andb_true_iff in W. destruct W as [_ W]. eapply slot_child_wf_sub; eauto.
    - simpl in W1. apply andb_true_iff in W1. destruct W1 as [_ W1]. eapply slot_child_wf_sub; eauto. }
  assert (U : n_up sly = 1).
  { simpl in W2. apply andb_true_iff in W2. destruct W2 as [W2 _]. now apply Nat.eqb_eq in W2. }
  rewrite Ey, n_up_pl in U. destruct ys as [[y1|] [y2|]]; try (cbv in U; discriminate).
  exists (mkPic nx cx xs ec ny cy y1 y2). unfold pic_n1, pic_n2. simpl.
  rewrite <- Ey, <- Ex. repeat split; auto.
  rewrite Hf, Ex. change (Nat.modulo (r_k r + 2) 3) with (off false (r_k r)).
  rewrite pl_nth_off by assumption. simpl. now destruct (snd xs).
Qed.

(** * Apply on the picture *)
Definition moved (cross : bool) (P : picture) : einfo * utree := if cross then p_y1 P else p_y2 P.

(** the picture after Apply when n1_2 is a child of n1 *)
Definition pic_plain (k j : nat) (cross : bool) (P : picture) (mv1 : einfo * utree) : utree :=
  UNode (p_nx P) (p_cx P)
        (pl k (Some (p_ec P, UNode (p_ny P) (p_cy P)
                                   (pl j None (put cross (Some mv1) (Some (p_y1 P), Some (p_y2 P))))))
              (put false (Some (moved cross P)) (p_xs P))).
(** ... and when n1_2 is the parent of n1: rooted at n2 *)
Definition pic_flip (k j : nat) (cross : bool) (P : picture) : utree :=
  UNode (p_ny P) (p_cy P)
        (pl j (Some (p_ec P, UNode (p_nx P) (p_cx P)
                                   (pl k None (put false (Some (moved cross P)) (p_xs P)))))
              (put cross None (Some (p_y1 P), Some (p_y2 P)))).

Definition pic_after (k j : nat) (cross : bool) (P : picture) : utree :=
  match snd (p_xs P) with
  | Some mv1 => pic_plain k j cross P mv1
  | None => pic_flip k j cross P
  end.

Lemma getd_moved cross P : getd cross (Some (p_y1 P), Some (p_y2 P)) = Some (moved cross P).
Proof. destruct cross; reflexivity. Qed.

Lemma apply_local k j cross P :
  k < 3 -> j < 3 ->
  swap_local k j (off false k) (off cross j) (pic_n1 k j P) = Some (pic_after k j cross P).
Proof.
  intros Hk Hj. unfold pic_n1, pic_n2. rewrite swap_local_pl by assumption.
  rewrite getd_moved. unfold pic_after, getd. now destruct (snd (p_xs P)).
Qed.

Lemma undo_local k j cross P :
  k < 3 -> j < 3 ->
  (if match snd (p_xs P) with None => true | Some _ => false end
   then swap_local j k (off cross j) (off false k)
   else swap_local k j (off false k) (off cross j)) (pic_after k j cross P) = Some (pic_n1 k j P).
Proof.
  intros Hk Hj. unfold pic_after. destruct (snd (p_xs P)) as [mv1|] eqn:E.
  - unfold pic_plain. rewrite swap_local_pl by assumption.
    rewrite !getd_put. rewrite !put_put.
    rewrite (put_getd cross _ _ (getd_moved cross P)). rewrite (put_getd false (p_xs P)) by exact E.
    reflexivity.
  - unfold pic_flip. rewrite swap_local_pl by assumption.
    rewrite !getd_put. rewrite !put_put.
    rewrite (put_getd cross _ _ (getd_moved cross P)). rewrite (put_getd false (p_xs P)) by exact E.
    reflexivity.
Qed.

Lemma apply_unfold r t :
  apply r t = at_path (swap_local (r_k r) (r_j r) (off false (r_k r)) (off (r_cross r) (r_j r))) (r_path r) t.
Proof. unfold apply, n12_index, n22_index, off. reflexivity. Qed.

Lemma undo_unfold r t :
  undo r t = at_path (if r_flip r
                      then swap_local (r_j r) (r_k r) (off (r_cross r) (r_j r)) (off false (r_k r))
                      else swap_local (r_k r) (r_j r) (off false (r_k r)) (off (r_cross r) (r_j r)))
                     (r_path r) t.
Proof. unfold undo, n12_index, n22_index, off. reflexivity. Qed.

(** Apply is defined on every valid proposal, and replaces the picture *)
Lemma apply_defined r t :
  wf t = true -> valid r t ->
  exists P t', node_at t (r_path r) = Some (pic_n1 (r_k r) (r_j r) P) /\
               r_k r < 3 /\ r_j r < 3 /\
               r_flip r = match snd (p_xs P) with None => true | Some _ => false end /\
               apply r t = Some t' /\
               node_at t' (r_path r) = Some (pic_after (r_k r) (r_j r) (r_cross r) P).
Proof.
  intros W V. destruct (valid_picture _ _ W V) as (P & Hn & Hk & Hj & Hf).
  pose proof (apply_local _ _ (r_cross r) P Hk Hj) as HL.
  rewrite apply_unfold.
  destruct (at_path_some _ _ _ _ _ Hn HL) as [t' Ht'].
  destruct (at_path_inv _ _ _ _ _ Hn Ht') as (s' & Hs' & Hn').
  rewrite HL in Hs'. inversion Hs'; subst s'.
  exists P, t'. repeat split; auto.
Qed.

(** ** Undo after Apply gives back the very same tree *)
Theorem undo_apply r t :
  wf t = true -> valid r t ->
  exists t', apply r t = Some t' /\ undo r t' = Some t.
Proof.
  intros W V. destruct (apply_defined _ _ W V) as (P & t' & Hn & Hk & Hj & Hf & Ha & _).
  exists t'; split; auto.
  rewrite undo_unfold. rewrite apply_unfold in Ha.
  eapply at_path_undo; [exact Hn| |exact Ha].
  intros s' Hs'. rewrite apply_local in Hs' by assumption. inversion Hs'; subst s'.
  rewrite Hf. now apply undo_local.
Qed.

(** ** the whole enumeration: every proposal is applied to the original tree, which is
    what is left at the end *)
Lemma enumerate_valid rs t :
  wf t = true -> Forall (fun r => valid r t) rs ->
  exists l, enumerate rs t = Some (l, t) /\ Forall2 (fun r t' => apply r t = Some t') rs l.
Proof.
  intros W. induction 1 as [|r rs V _ IH]; simpl.
  - exists []. split; auto.
  - destruct (undo_apply _ _ W V) as (t1 & Ha & Hu). rewrite Ha, Hu.
    destruct IH as (l & -> & F). exists (t1 :: l). split; auto.
Qed.

Theorem rearrange_restores t :
  wf t = true ->
  exists l, rearrange t = Some (l, t) /\
            Forall2 (fun r t' => apply r t = Some t') (nni_list t) l.
Proof.
  intros W. apply enumerate_valid; auto.
  apply Forall_forall. intros r. apply nni_list_valid.
Qed.
