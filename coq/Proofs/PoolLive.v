(** Proofs about the worker-pool interleaving model (Model/Pool.v), part 2: liveness.
    With wg.Done() on every exit path (or the Continue pattern) termination stays reachable
    from every reachable state (T4) and every fair enough schedule terminates (T5).

    Measure argument, per agent.  Producer: [pm s] = 0 when closed, else |pending|+1; every
    producer step decreases it, no worker step changes it.  Worker k, once the channel is
    closed and empty of pending jobs: [mu k s] = 0 if k is gone, 2|queue|+1 if Idle,
    2|queue|+2 if Busy; every step of worker k decreases it (it never blocks any more), no
    step of anybody else increases it. *)
From Coq Require Import Bool Arith Lia List Permutation.
From GT Require Import Model.Pool Proofs.Pool.
Import ListNotations.

Local Arguments pending {job res err} s.
Local Arguments closed {job res err} s.
Local Arguments queue {job res err} s.
Local Arguments ws {job res err} s.
Local Arguments out {job res err} s.
Local Arguments errs {job res err} s.
Local Arguments mkSt {job res err}.
Local Arguments producer_step {job res err} s.
Local Arguments worker_step {job res err}.
Local Arguments step {job res err}.
Local Arguments run {job res err}.
Local Arguments init {job res err}.
Local Arguments finished {job res err} s.
Local Arguments busy_jobs {job res err} s.
Local Arguments drain_schedule {job res err} s.
Local Arguments worker_step_spec {job res err}.
Local Arguments inv {job res err}.
Local Arguments inv_run {job res err}.
Local Arguments inv_reach {job res err}.
Local Arguments inv_init {job res err}.
Local Arguments run_app {job res err}.
Local Arguments conserved {job res err}.

Lemma count_occ_repeat0 k : count_occ Nat.eq_dec (repeat 0 k) 0 = k.
Proof. induction k; simpl; auto. Qed.

Lemma count_occ_round_robin n r k :
  k < n -> r <= count_occ Nat.eq_dec (round_robin n r) (S k).
Proof.
  intros Hk. induction r as [|r IH]; simpl; [lia|].
  rewrite count_occ_app.
  assert (In (S k) (map S (seq 0 n))) as Hin
    by (apply in_map, in_seq; lia).
  apply (count_occ_In Nat.eq_dec) in Hin. lia.
Qed.

Lemma count_occ_concat_blocks (bs : list (list nat)) a :
  (forall b, In b bs -> In a b) -> length bs <= count_occ Nat.eq_dec (concat bs) a.
Proof.
  induction bs as [|b bs IH]; intros H; simpl; [lia|].
  rewrite count_occ_app.
  assert (In a b) as Hin by (apply H; left; auto).
  apply (count_occ_In Nat.eq_dec) in Hin.
  assert (length bs <= count_occ Nat.eq_dec (concat bs) a) by (apply IH; intros; apply H; right; auto).
  lia.
Qed.

Section PoolLive.
  Variables (job res err : Type).
  Variable f : job -> res.
  Variable fails : job -> bool.
  Variable e_of : job -> err.
  Variable on_fail : fail_mode.
  Variable done_on_exit : bool.

  Local Notation state := (st job res err).
  Local Notation stepf := (step f fails e_of on_fail done_on_exit).
  Local Notation runf := (run f fails e_of on_fail done_on_exit).
  Local Notation invf := (inv f fails e_of on_fail done_on_exit).
  Local Notation cnt := (count_occ Nat.eq_dec).

  (** ** the producer *)

  Definition pm (s : state) : nat := if closed s then 0 else S (length (pending s)).

  Lemma pm_step s a : pm (stepf s a) <= pm s - (if Nat.eq_dec a 0 then 1 else 0).
  Proof.
    destruct a as [|i]; simpl.
    - unfold pm, producer_step. destruct (pending s) as [|j p]; simpl.
      + lia.
      + destruct (closed s); simpl; lia.
    - unfold pm.
      destruct (worker_step_spec f fails e_of on_fail done_on_exit s i); simpl; lia.
  Qed.

  Lemma pm_run sched s : pm (runf sched s) <= pm s - cnt sched 0.
  Proof.
    revert s. induction sched as [|a sched IH]; intros s; simpl; [lia|].
    specialize (IH (stepf s a)). pose proof (pm_step s a) as H.
    destruct (Nat.eq_dec a 0); lia.
  Qed.

  (** queue + pending never grows *)
  Lemma qp_step s a :
    length (queue (stepf s a)) + length (pending (stepf s a)) <= length (queue s) + length (pending s).
  Proof.
    destruct a as [|i]; simpl.
    - unfold producer_step. destruct (pending s) as [|j p]; simpl; auto.
      rewrite app_length. simpl. lia.
    - destruct (worker_step_spec f fails e_of on_fail done_on_exit s i); simpl; try lia.
      rewrite H1. simpl. lia.
  Qed.

  Lemma qp_run sched s :
    length (queue (runf sched s)) + length (pending (runf sched s))
    <= length (queue s) + length (pending s).
  Proof.
    revert s. induction sched as [|a sched IH]; intros s; simpl; [lia|].
    specialize (IH (stepf s a)). pose proof (qp_step s a). lia.
  Qed.

  (** ** the workers after the close *)

  Definition drained (s : state) : Prop := closed s = true /\ pending s = [].

  Lemma drained_step s a : drained s -> drained (stepf s a).
  Proof.
    intros [C P]. destruct a as [|i]; simpl.
    - unfold producer_step. rewrite P. split; auto.
    - destruct (worker_step_spec f fails e_of on_fail done_on_exit s i); split; simpl; auto.
  Qed.

  Definition mu (k : nat) (s : state) : nat :=
    match nth_error (ws s) k with
    | Some Idle => 2 * length (queue s) + 1
    | Some (Busy _) => 2 * length (queue s) + 2
    | _ => 0
    end.

  Lemma mu_bound k s : mu k s <= 2 * length (queue s) + 2.
  Proof. unfold mu. destruct (nth_error (ws s) k) as [[| | |]|]; lia. Qed.

  Lemma mu_step k s a : drained s -> mu k (stepf s a) <= mu k s - (if Nat.eq_dec a (S k) then 1 else 0).
  Proof.
    intros [C P]. destruct a as [|i].
    - simpl. unfold producer_step. rewrite P. unfold mu. simpl. lia.
    - destruct (Nat.eq_dec (S i) (S k)) as [E|E]; unfold step.
      + injection E as E. subst k.
        destruct (worker_step_spec f fails e_of on_fail done_on_exit s i) as
          [St | l1 l2 j q Hw Hi Q | l1 l2 Hw Hi Q _ | l1 l2 j Hw Hi F | l1 l2 j Hw Hi F O | l1 l2 j Hw Hi F O].
        * (* a worker that does not move is gone: nobody blocks on a closed channel *)
          unfold mu.
          destruct St as [H|[(H & _ & H')|[H|H]]]; try (rewrite H; lia).
          congruence.
        * unfold mu; simpl. rewrite Hw, Q. subst i. rewrite !nth_error_mid_eq. simpl. lia.
        * unfold mu; simpl. rewrite Hw, Q. subst i. rewrite !nth_error_mid_eq. simpl. lia.
        * unfold mu; simpl. rewrite Hw. subst i. rewrite !nth_error_mid_eq. lia.
        * unfold mu; simpl. rewrite Hw. subst i. rewrite !nth_error_mid_eq. lia.
        * unfold mu; simpl. rewrite Hw. subst i. rewrite !nth_error_mid_eq.
          destruct done_on_exit; lia.
      + assert (N : k <> i) by congruence.
        destruct (worker_step_spec f fails e_of on_fail done_on_exit s i) as
          [St | l1 l2 j q Hw Hi Q | l1 l2 Hw Hi Q _ | l1 l2 j Hw Hi F | l1 l2 j Hw Hi F O | l1 l2 j Hw Hi F O].
        * lia.
        * unfold mu; simpl. rewrite Hw, Q. subst i.
          rewrite (nth_error_mid_neq l1 l2 (Busy j) Idle) by congruence.
          destruct (nth_error _ k) as [[| | |]|]; simpl; lia.
        * unfold mu; simpl. rewrite Hw, Q. subst i.
          rewrite (nth_error_mid_neq l1 l2 Exited Idle) by congruence.
          destruct (nth_error _ k) as [[| | |]|]; simpl; lia.
        * unfold mu; simpl. rewrite Hw. subst i.
          rewrite (nth_error_mid_neq l1 l2 Idle (Busy j)) by congruence.
          destruct (nth_error _ k) as [[| | |]|]; lia.
        * unfold mu; simpl. rewrite Hw. subst i.
          rewrite (nth_error_mid_neq l1 l2 Idle (Busy j)) by congruence.
          destruct (nth_error _ k) as [[| | |]|]; lia.
        * unfold mu; simpl. rewrite Hw. subst i.
          rewrite (nth_error_mid_neq l1 l2 (if done_on_exit then Exited else Dead) (Busy j))
            by congruence.
          destruct (nth_error _ k) as [[| | |]|]; lia.
  Qed.

  Lemma drained_run sched s : drained s -> drained (runf sched s).
  Proof.
    apply (run_inv _ _ _ f fails e_of on_fail done_on_exit drained).
    intros; apply drained_step; auto.
  Qed.

  Lemma mu_run k sched s : drained s -> mu k (runf sched s) <= mu k s - cnt sched (S k).
  Proof.
    revert s. induction sched as [|a sched IH]; intros s D; simpl; [lia|].
    specialize (IH (stepf s a) (drained_step s a D)). pose proof (mu_step k s a D) as H.
    destruct (Nat.eq_dec a (S k)); lia.
  Qed.

  Lemma finished_from_mu (s : state) :
    (forall k, k < length (ws s) -> mu k s = 0) -> ~ In Dead (ws s) -> finished s = true.
  Proof.
    intros Hmu Hd. unfold finished. apply forallb_forall. intros w Hw.
    destruct (In_nth_error _ _ Hw) as (k & Hk).
    assert (k < length (ws s)) as Hlt by (apply nth_error_Some; congruence).
    specialize (Hmu k Hlt). unfold mu in Hmu. rewrite Hk in Hmu.
    destruct w; simpl; auto; try lia.
  Qed.

  Definition live_mode : Prop := done_on_exit = true \/ on_fail = Continue.

  (** once the channel is closed and everything sent: every schedule that gives each worker
      2|queue|+2 steps finishes *)
  Lemma drained_fair_finishes jobs n s sched :
    live_mode -> invf jobs n s -> drained s ->
    (forall k, k < n -> 2 * length (queue s) + 2 <= cnt sched (S k)) ->
    finished (runf sched s) = true.
  Proof.
    intros L I D Hc.
    pose proof (inv_run f fails e_of on_fail done_on_exit jobs n sched s I) as I'.
    apply finished_from_mu.
    - intros k Hk. rewrite (inv_len _ _ _ _ _ _ _ _ _ _ _ I') in Hk.
      pose proof (mu_run k sched s D). pose proof (mu_bound k s). specialize (Hc k Hk). lia.
    - apply (inv_nodead _ _ _ _ _ _ _ _ _ _ _ I'). exact L.
  Qed.

  (** from any state satisfying the invariant: the producer gets [pm s] steps, then every worker
      2(|queue|+|pending|)+2 steps, in any interleaving with anything else *)
  Lemma fair_finishes_from jobs n s sched1 sched2 :
    live_mode -> invf jobs n s ->
    pm s <= cnt sched1 0 ->
    (forall k, k < n -> 2 * (length (queue s) + length (pending s)) + 2 <= cnt sched2 (S k)) ->
    finished (runf (sched1 ++ sched2) s) = true.
  Proof.
    intros L I Hp Hc. rewrite run_app.
    pose proof (inv_run f fails e_of on_fail done_on_exit jobs n sched1 s I) as I1.
    set (s1 := runf sched1 s) in *.
    assert (D : drained s1).
    { pose proof (pm_run sched1 s) as H. fold s1 in H.
      assert (C : closed s1 = true) by (unfold pm in H, Hp; destruct (closed s1); auto; lia).
      split; auto. apply (inv_closed _ _ _ _ _ _ _ _ _ _ _ I1 C). }
    apply (drained_fair_finishes jobs n); auto.
    intros k Hk. specialize (Hc k Hk). pose proof (qp_run sched1 s). fold s1 in H. lia.
  Qed.

  (** T4: the bounded schedule of Model/Pool.v completes from every reachable state *)
  Lemma drain_schedule_finishes jobs n sched :
    live_mode ->
    let s := runf sched (init jobs n) in
    finished (runf (drain_schedule s) s) = true.
  Proof.
    intros L s. unfold drain_schedule.
    pose proof (inv_reach f fails e_of on_fail done_on_exit jobs n sched) as I. fold s in I.
    apply (fair_finishes_from jobs n); auto.
    - rewrite count_occ_repeat0. unfold pm. destruct (closed s); lia.
    - intros k Hk. rewrite (inv_len _ _ _ _ _ _ _ _ _ _ _ I).
      pose proof (count_occ_round_robin n
        (2 * (length (pending s) + length (queue s) + 1) + 1) k Hk). lia.
  Qed.

  (** T5: the fairness bound *)
  Lemma fair_schedule_finishes jobs n sched1 sched2 :
    live_mode ->
    length jobs + 1 <= cnt sched1 0 ->
    (forall k, k < n -> 2 * length jobs + 2 <= cnt sched2 (S k)) ->
    finished (runf (sched1 ++ sched2) (init jobs n)) = true.
  Proof.
    intros L Hp Hc.
    apply (fair_finishes_from jobs n);
      [exact L | apply inv_init | unfold pm; simpl; lia |].
    simpl. intros k Hk. specialize (Hc k Hk). lia.
  Qed.

  (** the same without asking the producer to run ahead: the schedule is a sequence of
      3|jobs|+3 blocks, every agent occurs in every block (e.g. plain round-robin over all
      agents, or the lock-step order an unbuffered channel imposes) *)
  Lemma fair_blocks_finish jobs n (blocks : list (list nat)) :
    live_mode ->
    (forall b, In b blocks -> In 0 b /\ forall k, k < n -> In (S k) b) ->
    3 * length jobs + 3 <= length blocks ->
    finished (runf (concat blocks) (init jobs n)) = true.
  Proof.
    intros L Hb Hlen.
    set (m := length jobs + 1).
    rewrite <- (firstn_skipn m blocks), concat_app.
    assert (Hin1 : forall b, In b (firstn m blocks) -> In b blocks).
    { intros b H. rewrite <- (firstn_skipn m blocks). apply in_or_app; auto. }
    assert (Hin2 : forall b, In b (skipn m blocks) -> In b blocks).
    { intros b H. rewrite <- (firstn_skipn m blocks). apply in_or_app; auto. }
    apply fair_schedule_finishes; auto.
    - pose proof (count_occ_concat_blocks (firstn m blocks) 0) as H.
      rewrite firstn_length in H. unfold m in *.
      assert (forall b, In b (firstn (length jobs + 1) blocks) -> In 0 b)
        by (intros b Hi; apply (Hb b); auto).
      specialize (H H0). lia.
    - intros k Hk.
      pose proof (count_occ_concat_blocks (skipn m blocks) (S k)) as H.
      rewrite skipn_length in H. unfold m in *.
      assert (forall b, In b (skipn (length jobs + 1) blocks) -> In (S k) b)
        by (intros b Hi; apply (Hb b); auto).
      specialize (H H0). lia.
  Qed.

End PoolLive.
