(** C15: the unchanged-distances results in the form the run-time oracle uses
    (Judge/C15.v [same_dists]: the path lengths [dist_opt len0] between the given tips are all
    defined in the source and equal, cell by cell, in the result). *)
From Coq Require Import String ZArith QArith Bool Arith Lia List Permutation.
From GT Require Import Base.Sexp Base.UTree Spec.Obs Spec.Unrooted Model.Reroot
     Proofs.RerootBase Proofs.PruneBase Proofs.MatrixCells Proofs.CutPaths Proofs.MatrixOracle
     Model.LocalEdit Proofs.LocalEditBase Proofs.LocalEdit Proofs.LocalEditInsert
     Proofs.LocalEditInsertAll Proofs.LocalEditSingle Judge.C15.
Import ListNotations.
Local Close Scope Q_scope.

Lemma smem_In x l : smem x l = true <-> In x l.
Proof.
  unfold smem. rewrite existsb_exists. split.
  - intros [y [Hy E]]. apply String.eqb_eq in E. now subst.
  - intros H. exists x. split; auto. apply String.eqb_refl.
Qed.

(** * from equal filtered path sums to equal look-ups *)
Section Agree.
  Variable w : einfo -> Q.
  Variables t g : utree.
  Variable k : string -> bool.
  Hypothesis Nt : NoDup (leaves t).
  Hypothesis Ng : NoDup (leaves g).
  Hypothesis E : dists_equiv (fP k (pairdists w g)) (fP k (pairdists w t)).

  Lemma find_key (u : utree) a b :
    NoDup (leaves u) -> In a (leaves u) -> In b (leaves u) -> a <> b ->
    exists d, find (fun p : string * string * Q =>
                      String.eqb (fst (fst p)) a && String.eqb (snd (fst p)) b) (pairdists w u) = Some (a, b, d) /\
              In (a, b, d) (pairdists w u).
  Proof.
    intros _ Ha Hb N. destruct (pairdists_complete w u a b Ha Hb N) as [d0 H0].
    destruct (find_exists (fun p : string * string * Q =>
                             String.eqb (fst (fst p)) a && String.eqb (snd (fst p)) b) (pairdists w u) (a, b, d0) H0)
      as [[[a' b'] d] F].
    { simpl. now rewrite !String.eqb_refl. }
    assert (F' := F). apply find_some in F'. destruct F' as [Hin X]. simpl in X.
    apply andb_true_iff in X as [E1 E2]. apply String.eqb_eq in E1, E2. subst. eauto.
  Qed.

  Lemma dist_opt_agree a b :
    k a = true -> k b = true ->
    In a (leaves t) -> In b (leaves t) -> In a (leaves g) -> In b (leaves g) ->
    (exists d, dist_opt w t a b = Some d) /\ oq_eqb (dist_opt w t a b) (dist_opt w g a b) = true.
  Proof.
    intros Ka Kb Hat Hbt Hag Hbg. unfold dist_opt.
    destruct (String.eqb a b) eqn:Eab.
    - apply String.eqb_eq in Eab. subst b.
      rewrite (proj2 (smem_In a (leaves t)) Hat), (proj2 (smem_In a (leaves g)) Hag).
      split; [eauto|reflexivity].
    - apply String.eqb_neq in Eab.
      destruct (find_key t a b Nt Hat Hbt Eab) as [dt [Ft Ht]].
      destruct (find_key g a b Ng Hag Hbg Eab) as [dg [Fg Hg]].
      rewrite Ft, Fg. simpl. split; [eauto|].
      assert (X : In (a, b, dg) (fP k (pairdists w g))).
      { unfold fP. apply filter_In. split; auto. simpl. now rewrite Ka, Kb. }
      destruct (dists_equiv_In _ _ E a b dg X) as [d' [X' Q]].
      unfold fP in X'. apply filter_In in X'. destruct X' as [X' _].
      destruct (pairdists_keys w t Nt) as [K _].
      rewrite (key_unique _ (a, b) dt d' K Ht X'). unfold qeqb. apply Qeq_bool_iff. now symmetry.
  Qed.
End Agree.

Lemma list_eqb_flat_map2 {A} (R : option Q -> option Q -> bool) (f g : A -> list (option Q)) l :
  (forall x, In x l -> list_eqb R (f x) (g x) = true) ->
  list_eqb R (flat_map f l) (flat_map g l) = true.
Proof.
  induction l as [|x r IH]; simpl; intros H; auto.
  assert (H1 := H x (or_introl eq_refl)). assert (H2 := IH (fun y Hy => H y (or_intror Hy))).
  clear -H1 H2. revert H1. generalize (f x) (g x). induction l as [|p l IHl]; intros [|q l'] H1; simpl in *; auto; try discriminate.
  apply andb_true_iff in H1 as [X1 X2]. rewrite X1. simpl. now apply IHl.
Qed.

(** the general statement: when the path lengths restricted to the tips selected by [k] are
    the same multisets, the oracle's comparison over any list of selected common tips says
    "same" *)
Theorem same_dists_intro t g k names :
  NoDup (leaves t) -> NoDup (leaves g) ->
  dists_equiv (fP k (pairdists len0 g)) (fP k (pairdists len0 t)) ->
  (forall x, In x names -> k x = true /\ In x (leaves t) /\ In x (leaves g)) ->
  same_dists t g names = true.
Proof.
  intros Nt Ng E H. unfold same_dists. apply andb_true_iff. split.
  - unfold all_some, dists_on. apply forallb_forall. intros o Ho.
    apply in_flat_map in Ho. destruct Ho as [a [Ha Ho]]. apply in_map_iff in Ho.
    destruct Ho as [b [<- Hb]]. destruct (H a Ha) as [Ka [At Ag]]. destruct (H b Hb) as [Kb [Bt Bg]].
    destruct (dist_opt_agree len0 t g k Nt Ng E a b Ka Kb At Bt Ag Bg) as [[d ->] _]. reflexivity.
  - unfold dists_on. apply list_eqb_flat_map2. intros a Ha. apply list_eqb_map2. intros b Hb.
    destruct (H a Ha) as [Ka [At Ag]]. destruct (H b Hb) as [Kb [Bt Bg]].
    apply (dist_opt_agree len0 t g k Nt Ng E a b Ka Kb At Bt Ag Bg).
Qed.

(** * instances *)
Lemma smem_false x l : ~ In x l -> smem x l = false.
Proof. intros H. destruct (smem x l) eqn:E; auto. apply smem_In in E. tauto. Qed.

(** RemoveSingleNodes: all path lengths *)
Theorem remove_single_same_dists t names :
  NoDup (leaves t) -> (forall x, In x names -> In x (leaves t)) ->
  same_dists t (remove_single t) names = true.
Proof.
  intros N H. assert (P := remove_single_leaves t).
  apply (same_dists_intro t (remove_single t) (fun _ => true)); auto.
  - eapply Permutation_NoDup; [symmetry; exact P|exact N].
  - rewrite !fP_all. apply remove_single_dists.
  - intros x Hx. split; auto. split; auto. apply (Permutation_in _ (Permutation_sym P)). auto.
Qed.

(** Merge: the tips of the first tree (the second is symmetric) *)
Theorem merge_same_dists t1 t2 t' i1 i2 names :
  merge t1 t2 i1 i2 = Ok t' -> NoDup (leaves t1) -> NoDup (leaves t2) ->
  (forall x, In x (leaves t1) -> In x (leaves t2) -> False) ->
  (forall x, In x names -> In x (leaves t1)) ->
  same_dists t1 t' names = true.
Proof.
  intros M N1 N2 D H. assert (L := merge_leaves t1 t2 t' i1 i2 M).
  apply (same_dists_intro t1 t' (fun x => smem x (leaves t1))); auto.
  - rewrite L. apply NoDup_app_intro; auto.
  - destruct (merge_dists_within t1 t2 t' i1 i2 M len0 D) as [A _].
    etransitivity; [exact A|]. rewrite fP_id; [reflexivity|].
    intros a b d X. apply pairdists_names in X. destruct X. split; apply smem_In; auto.
  - intros x Hx. split; [apply smem_In; auto|]. split; auto. rewrite L, in_app_iff. auto.
Qed.

(** GraftTreeOnTip: the tips of the tree other than the grafted-on one *)
Theorem graft_same_dists t g t' idx tip names :
  graft t idx tip g = Ok t' -> wf t = true ->
  NoDup (leaves t) -> NoDup (leaves g) ->
  (forall x, In x (leaves t) -> In x (leaves g) -> False) ->
  (forall x, In x names -> In x (leaves t) /\ x <> tip) ->
  same_dists t t' names = true.
Proof.
  intros Gr W Nt Ng D H.
  assert (L := graft_leaves t g t' idx tip Gr W).
  set (k := fun x => negb (String.eqb x tip) && negb (smem x (leaves g))).
  assert (Kt : k tip = false) by (unfold k; now rewrite String.eqb_refl).
  assert (Kg : forall x, In x (leaves g) -> k x = false).
  { intros x Hx. unfold k. rewrite (proj2 (smem_In x (leaves g)) Hx). now rewrite andb_false_r. }
  assert (Kn : forall x, In x (leaves t) -> x <> tip -> k x = true).
  { intros x Hx Ne. unfold k. apply andb_true_iff. split.
    - apply negb_true_iff. now apply String.eqb_neq.
    - apply negb_true_iff. apply smem_false. intros Y. eapply D; eauto. }
  assert (N' : NoDup (leaves t')).
  { apply (NoDup_app_l _ [tip]). eapply Permutation_NoDup; [symmetry; exact L|].
    apply NoDup_app_intro; auto. }
  apply (same_dists_intro t t' k); auto.
  - apply (graft_dists t g t' idx tip Gr W len0 k Kt Kg).
  - intros x Hx. destruct (H x Hx) as [Hl Ne]. split; [now apply Kn|]. split; auto.
    assert (X : In x (leaves t' ++ [tip])).
    { apply (Permutation_in _ (Permutation_sym L)). rewrite in_app_iff. auto. }
    rewrite in_app_iff in X. destruct X as [X|[X|[]]]; auto. congruence.
Qed.

(** InsertIdenticalTips: the tips that were there before *)
Theorem insert_same_dists t t' idx groups names :
  wf t = true -> (forall x, In x (leaves t) -> In x idx) -> ~ In ""%string idx ->
  Forall (fun g => ~ In ""%string g) groups ->
  insert_identical t idx groups = Ok t' ->
  NoDup (leaves t) ->
  (forall x, In x names -> In x (leaves t)) ->
  same_dists t t' names = true.
Proof.
  intros W Hi Hn Hg Ok N H.
  destruct (insert_identical_leaves t t' idx groups W Hi Hn Hg Ok) as [added [Na [Ma [P Dd]]]].
  assert (Dis : forall x, In x added -> In x (leaves t) -> False).
  { intros x X Y. apply Ma in X. destruct X as [_ X]. apply X. now apply Hi. }
  apply (same_dists_intro t t' (fun x => negb (smem x added))); auto.
  - eapply Permutation_NoDup; [symmetry; exact P|]. apply NoDup_app_intro; auto.
  - etransitivity; [apply (Dd len0 len0_zero)|]. rewrite fP_id; [reflexivity|].
    intros a b d X. apply pairdists_names in X. destruct X as [A B].
    split; apply negb_true_iff, smem_false; intros Y; eapply Dis; eauto.
  - intros x Hx. split; [|split; auto].
    + apply negb_true_iff, smem_false. intros Y. eapply Dis; eauto.
    + apply (Permutation_in _ (Permutation_sym P)). rewrite in_app_iff. auto.
Qed.
